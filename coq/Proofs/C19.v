(** C19 — proofs about the model of Weekday, Month and WeekdaySet (Model/C19.v, Model/ScanNames.v).
    Finite parts are complete enumerations under [vm_compute] lifted with Base.Lift; the integer
    conversions are proved for every integer by case analysis on the comparisons of the generated
    tables + [lia]; text parsing is proved for every UTF-8 byte string by generic lemmas about the
    two-stage scanner whose table side conditions are discharged by computation. *)
From Coq Require Import ZArith List Bool Lia ZifyBool String.
From V Require Import Base.Int Base.IntLemmas Base.IO Base.Lift Gen.NameTables Gen.WdMo Model.ScanNames Model.C19.
Import ListNotations.
Open Scope Z_scope.
Ltac Zify.zify_post_hook ::= Z.to_euclidean_division_equations.

(** * Values *)
Definition wd (w : Z) : Prop := 0 <= w < 7.      (* a Weekday (discriminant, Mon = 0) *)
Definition mo (m : Z) : Prop := 0 <= m < 12.     (* a Month (discriminant, January = 0) *)

Lemma is_weekday_iff w : is_weekday w = true <-> wd w.
Proof.
  unfold wd, is_weekday. cbn [existsb WD_ALL]. lia.
Qed.
Lemma is_month_iff m : is_month m = true <-> mo m.
Proof.
  unfold mo, is_month. cbn [existsb MO_ALL]. lia.
Qed.

(* R-valued function iteration *)
Fixpoint iterR (n : nat) (f : Z -> R Z) (x : Z) : R Z :=
  match n with O => Val x | S k => let* y := f x in iterR k f y end.

Definition R_eqb (a : R Z) (b : Z) : bool := match a with Val x => x =? b | _ => false end.
Lemma R_eqb_spec a b : R_eqb a b = true -> a = Val b.
Proof. destruct a; cbn; try discriminate. intros H. f_equal. lia. Qed.

Ltac sweep1 H := (* goal: forall w, lo <= w < hi -> P w, where H : forall_range f lo n = true *)
  let w := fresh "w" in let Hw := fresh "Hw" in
  intros w Hw; pose proof (forall_range_spec _ _ _ H w ltac:(lia)) as HH; cbv beta in HH.

(** * Weekday: 7-cycle and numbering *)
Definition wd_laws_b (w : Z) : bool :=
  R_eqb (wd_succ w) ((w + 1) mod 7) && R_eqb (wd_pred w) ((w - 1) mod 7)
  && R_eqb (wd_number_from_monday w) (w + 1) && R_eqb (wd_num_days_from_monday w) w
  && R_eqb (wd_number_from_sunday w) ((w + 1) mod 7 + 1) && R_eqb (wd_num_days_from_sunday w) ((w + 1) mod 7).
Lemma wd_laws_sweep : forall_range wd_laws_b 0 7 = true.
Proof. vm_compute. reflexivity. Qed.

Lemma wd_succ_spec w : wd w -> wd_succ w = Val ((w + 1) mod 7).
Proof.
  intros Hw. pose proof (forall_range_spec _ _ _ wd_laws_sweep w ltac:(unfold wd in Hw; lia)) as H.
  unfold wd_laws_b in H. repeat (apply andb_prop in H; destruct H as [H ?]). now apply R_eqb_spec.
Qed.
Lemma wd_pred_spec w : wd w -> wd_pred w = Val ((w - 1) mod 7).
Proof.
  intros Hw. pose proof (forall_range_spec _ _ _ wd_laws_sweep w ltac:(unfold wd in Hw; lia)) as H.
  unfold wd_laws_b in H. repeat (apply andb_prop in H; destruct H as [H ?]). now apply R_eqb_spec.
Qed.
Lemma wd_numbering_spec w : wd w ->
  wd_number_from_monday w = Val (w + 1) /\ wd_num_days_from_monday w = Val w /\
  wd_number_from_sunday w = Val ((w + 1) mod 7 + 1) /\ wd_num_days_from_sunday w = Val ((w + 1) mod 7).
Proof.
  intros Hw. pose proof (forall_range_spec _ _ _ wd_laws_sweep w ltac:(unfold wd in Hw; lia)) as H.
  unfold wd_laws_b in H. repeat (apply andb_prop in H; destruct H as [H ?]).
  repeat split; now apply R_eqb_spec.
Qed.

Lemma wd_mod w k : wd ((w + k) mod 7).
Proof. unfold wd. pose proof (Z.mod_pos_bound (w + k) 7 ltac:(lia)). lia. Qed.

(* succ^k is +k: the orbit of every weekday under succ is the whole 7-cycle *)
Lemma wd_succ_iter : forall k w, wd w -> iterR k wd_succ w = Val ((w + Z.of_nat k) mod 7).
Proof.
  induction k as [|k IH]; intros w Hw.
  - cbn [iterR]. f_equal. unfold wd in Hw. lia.
  - cbn [iterR]. rewrite (wd_succ_spec w Hw). cbv [bind]. rewrite IH by apply wd_mod.
    f_equal. lia.
Qed.
Lemma wd_pred_iter : forall k w, wd w -> iterR k wd_pred w = Val ((w - Z.of_nat k) mod 7).
Proof.
  induction k as [|k IH]; intros w Hw.
  - cbn [iterR]. f_equal. unfold wd in Hw. lia.
  - cbn [iterR]. rewrite (wd_pred_spec w Hw). cbv [bind].
    replace (w - 1) with (w + (-1)) by lia. rewrite IH by apply wd_mod.
    f_equal. lia.
Qed.
Lemma wd_cycle7 w : wd w ->
  iterR 7 wd_succ w = Val w /\ iterR 7 wd_pred w = Val w /\
  (forall k, (0 < k < 7)%nat -> iterR k wd_succ w <> Val w /\ iterR k wd_pred w <> Val w) /\
  (let* s := wd_succ w in wd_pred s) = Val w /\ (let* p := wd_pred w in wd_succ p) = Val w.
Proof.
  intros Hw. unfold wd in Hw. repeat split.
  - rewrite wd_succ_iter by exact Hw. f_equal. lia.
  - rewrite wd_pred_iter by exact Hw. f_equal. lia.
  - rewrite wd_succ_iter by exact Hw. intros E. injection E as E. lia.
  - rewrite wd_pred_iter by exact Hw. intros E. injection E as E. lia.
  - rewrite (wd_succ_spec w) by exact Hw. cbv [bind]. rewrite wd_pred_spec by apply wd_mod. f_equal. lia.
  - rewrite (wd_pred_spec w) by exact Hw. cbv [bind]. replace (w - 1) with (w + -1) by lia.
    rewrite wd_succ_spec by apply wd_mod. f_equal. lia.
Qed.

Definition wd_since_b (a b : Z) : bool := R_eqb (wd_days_since a b) ((a - b) mod 7).
Lemma wd_since_sweep : forall_range2 wd_since_b 0 7 0 7 = true.
Proof. vm_compute. reflexivity. Qed.
Lemma wd_days_since_spec a b : wd a -> wd b -> wd_days_since a b = Val ((a - b) mod 7).
Proof.
  unfold wd. intros Ha Hb. apply R_eqb_spec.
  exact (forall_range2_spec _ _ _ _ _ wd_since_sweep a b ltac:(lia) ltac:(lia)).
Qed.
(* days_since is the inverse of repeated succ: a = succ^(a since b) b, and (succ^k b) since b = k *)
Lemma wd_since_succ a b : wd a -> wd b ->
  exists d, wd_days_since a b = Val d /\ 0 <= d < 7 /\ iterR (Z.to_nat d) wd_succ b = Val a.
Proof.
  intros Ha Hb. exists ((a - b) mod 7). split; [apply wd_days_since_spec; assumption|].
  pose proof (Z.mod_pos_bound (a - b) 7 ltac:(lia)) as Hd. split; [lia|].
  rewrite wd_succ_iter by exact Hb. f_equal. rewrite Z2Nat.id by lia. unfold wd in Ha, Hb. lia.
Qed.
Lemma wd_succ_since b k : wd b -> (k < 7)%nat ->
  (let* a := iterR k wd_succ b in wd_days_since a b) = Val (Z.of_nat k).
Proof.
  intros Hb Hk. rewrite wd_succ_iter by exact Hb. cbv [bind].
  rewrite wd_days_since_spec by (try apply wd_mod; assumption).
  f_equal. unfold wd in Hb. lia.
Qed.

(** * Month: 12-cycle and numbering *)
Definition mo_laws_b (m : Z) : bool :=
  R_eqb (mo_succ m) ((m + 1) mod 12) && R_eqb (mo_pred m) ((m - 1) mod 12)
  && R_eqb (mo_number_from_month m) (m + 1).
Lemma mo_laws_sweep : forall_range mo_laws_b 0 12 = true.
Proof. vm_compute. reflexivity. Qed.
Lemma mo_succ_spec m : mo m -> mo_succ m = Val ((m + 1) mod 12).
Proof.
  intros Hw. pose proof (forall_range_spec _ _ _ mo_laws_sweep m ltac:(unfold mo in Hw; lia)) as H.
  unfold mo_laws_b in H. repeat (apply andb_prop in H; destruct H as [H ?]). now apply R_eqb_spec.
Qed.
Lemma mo_pred_spec m : mo m -> mo_pred m = Val ((m - 1) mod 12).
Proof.
  intros Hw. pose proof (forall_range_spec _ _ _ mo_laws_sweep m ltac:(unfold mo in Hw; lia)) as H.
  unfold mo_laws_b in H. repeat (apply andb_prop in H; destruct H as [H ?]). now apply R_eqb_spec.
Qed.
Lemma mo_number_spec m : mo m -> mo_number_from_month m = Val (m + 1).
Proof.
  intros Hw. pose proof (forall_range_spec _ _ _ mo_laws_sweep m ltac:(unfold mo in Hw; lia)) as H.
  unfold mo_laws_b in H. repeat (apply andb_prop in H; destruct H as [H ?]). now apply R_eqb_spec.
Qed.
Lemma mo_mod m k : mo ((m + k) mod 12).
Proof. unfold mo. pose proof (Z.mod_pos_bound (m + k) 12 ltac:(lia)). lia. Qed.
Lemma mo_succ_iter : forall k m, mo m -> iterR k mo_succ m = Val ((m + Z.of_nat k) mod 12).
Proof.
  induction k as [|k IH]; intros m Hm.
  - cbn [iterR]. f_equal. unfold mo in Hm. lia.
  - cbn [iterR]. rewrite (mo_succ_spec m Hm). cbv [bind]. rewrite IH by apply mo_mod.
    f_equal. lia.
Qed.
Lemma mo_pred_iter : forall k m, mo m -> iterR k mo_pred m = Val ((m - Z.of_nat k) mod 12).
Proof.
  induction k as [|k IH]; intros m Hm.
  - cbn [iterR]. f_equal. unfold mo in Hm. lia.
  - cbn [iterR]. rewrite (mo_pred_spec m Hm). cbv [bind].
    replace (m - 1) with (m + (-1)) by lia. rewrite IH by apply mo_mod.
    f_equal. lia.
Qed.
Lemma mo_cycle12 m : mo m ->
  iterR 12 mo_succ m = Val m /\ iterR 12 mo_pred m = Val m /\
  (forall k, (0 < k < 12)%nat -> iterR k mo_succ m <> Val m /\ iterR k mo_pred m <> Val m) /\
  (let* s := mo_succ m in mo_pred s) = Val m /\ (let* p := mo_pred m in mo_succ p) = Val m.
Proof.
  intros Hm. unfold mo in Hm. repeat split.
  - rewrite mo_succ_iter by exact Hm. f_equal. lia.
  - rewrite mo_pred_iter by exact Hm. f_equal. lia.
  - rewrite mo_succ_iter by exact Hm. intros E. injection E as E. lia.
  - rewrite mo_pred_iter by exact Hm. intros E. injection E as E. lia.
  - rewrite (mo_succ_spec m) by exact Hm. cbv [bind]. rewrite mo_pred_spec by apply mo_mod. f_equal. lia.
  - rewrite (mo_pred_spec m) by exact Hm. cbv [bind]. replace (m - 1) with (m + -1) by lia.
    rewrite mo_succ_spec by apply mo_mod. f_equal. lia.
Qed.
Lemma mo_cmp_spec a b : mo_cmp a b = cmpZ (a + 1) (b + 1).
Proof.
  unfold mo_cmp, cmpZ. destruct (a ?= b) eqn:E; destruct (a + 1 ?= b + 1) eqn:E2; try reflexivity;
  rewrite ?Z.compare_eq_iff, ?Z.compare_lt_iff, ?Z.compare_gt_iff in *; lia.
Qed.

(** * Numeric conversions — for every integer, not a sweep *)
Ltac eqb_cases n :=
  repeat match goal with |- context [n =? ?k] => destruct (Z.eqb_spec n k); [subst n; try reflexivity|] end.
Ltac fin_cond := match goal with |- context [if ?c then _ else _] => destruct c eqn:?; try reflexivity; try lia end.

Definition wd_num (n : Z) : option Z := if (0 <=? n) && (n <=? 6) then Some n else None.
Definition mo_num (n : Z) : option Z := if (1 <=? n) && (n <=? 12) then Some (n - 1) else None.

Lemma wd_try_from_u8_eq n : wd_try_from_u8 n = wd_num n.
Proof. unfold wd_try_from_u8, WD_TRY_FROM_U8, wd_num. cbn [lookup]. eqb_cases n. fin_cond. Qed.
Lemma wd_from_i64_eq n : wd_from_i64 n = wd_num n.
Proof. unfold wd_from_i64, WD_FROM_I64, wd_num. cbn [lookup]. eqb_cases n. fin_cond. Qed.
Lemma wd_from_u64_eq n : wd_from_u64 n = wd_num n.
Proof. unfold wd_from_u64, WD_FROM_U64, wd_num. cbn [lookup]. eqb_cases n. fin_cond. Qed.
Lemma mo_try_from_u8_eq n : mo_try_from_u8 n = mo_num n.
Proof. unfold mo_try_from_u8, MO_TRY_FROM_U8, mo_num. cbn [lookup]. eqb_cases n. fin_cond. Qed.
Lemma mo_from_u32_eq n : mo_from_u32 n = mo_num n.
Proof. unfold mo_from_u32, MO_FROM_U32, mo_num. cbn [lookup]. eqb_cases n. fin_cond. Qed.
Lemma mo_from_u64_eq n : mo_from_u64 n = mo_num n.
Proof.
  unfold mo_from_u64, chko. destruct (in_u32 n) eqn:E; [apply mo_from_u32_eq|].
  unfold mo_num. unfold in_u32, in_range, u32_max in E. fin_cond.
Qed.
Lemma mo_from_i64_eq n : mo_from_i64 n = mo_num n.
Proof. exact (mo_from_u64_eq n). Qed.

(* the num-traits defaults preserve exactness when the range test they apply contains the valid numbers *)
Lemma via_chko (inr : Z -> bool) (f num : Z -> option Z) n :
  (forall k, f k = num k) -> (inr n = false -> num n = None) ->
  match chko inr n with Some m => f m | None => None end = num n.
Proof. intros Hf Hout. unfold chko. destruct (inr n) eqn:E; [apply Hf|]. symmetry. apply Hout. reflexivity. Qed.
Lemma wd_num_out_i64 n : in_i64 n = false -> wd_num n = None.
Proof. unfold in_i64, in_range, i64_min, i64_max, wd_num. intros H. fin_cond. Qed.
Lemma wd_num_out_u64 n : in_u64 n = false -> wd_num n = None.
Proof. unfold in_u64, in_range, u64_max, wd_num. intros H. fin_cond. Qed.
Lemma mo_num_out_i64 n : in_i64 n = false -> mo_num n = None.
Proof. unfold in_i64, in_range, i64_min, i64_max, mo_num. intros H. fin_cond. Qed.
Lemma mo_num_out_u64 n : in_u64 n = false -> mo_num n = None.
Proof. unfold in_u64, in_range, u64_max, mo_num. intros H. fin_cond. Qed.

(* all twelve integer entry points of FromPrimitive, Weekday *)
Definition wd_from_all (n : Z) : list (option Z) :=
  [wd_from_i64 n; wd_from_u64 n; wd_from_u32 n;
   dflt_from_i8 wd_from_i64 n; dflt_from_i16 wd_from_i64 n; dflt_from_i32 wd_from_i64 n;
   dflt_from_isize wd_from_i64 n; dflt_from_i128 wd_from_i64 n;
   dflt_from_u8 wd_from_u64 n; dflt_from_u16 wd_from_u64 n; dflt_from_usize wd_from_u64 n;
   dflt_from_u128 wd_from_u64 n; wd_try_from_u8 n].
Lemma wd_from_all_eq n : forall r, In r (wd_from_all n) -> r = wd_num n.
Proof.
  intros r Hr. unfold wd_from_all in Hr. cbn [In] in Hr.
  unfold wd_from_u32, dflt_from_u32, dflt_from_i8, dflt_from_i16, dflt_from_i32, dflt_from_u8, dflt_from_u16,
    dflt_from_isize, dflt_from_i128, dflt_from_usize, dflt_from_u128, in_usize, in_isize in Hr.
  repeat (destruct Hr as [<-|Hr]); try apply wd_from_i64_eq; try apply wd_from_u64_eq; try apply wd_try_from_u8_eq;
    try (apply via_chko; [apply wd_from_i64_eq|apply wd_num_out_i64]);
    try (apply via_chko; [apply wd_from_u64_eq|apply wd_num_out_u64]).
  contradiction.
Qed.
Definition mo_from_all (n : Z) : list (option Z) :=
  [mo_from_i64 n; mo_from_u64 n; mo_from_u32 n;
   dflt_from_i8 mo_from_i64 n; dflt_from_i16 mo_from_i64 n; dflt_from_i32 mo_from_i64 n;
   dflt_from_isize mo_from_i64 n; dflt_from_i128 mo_from_i64 n;
   dflt_from_u8 mo_from_u64 n; dflt_from_u16 mo_from_u64 n; dflt_from_usize mo_from_u64 n;
   dflt_from_u128 mo_from_u64 n; mo_try_from_u8 n].
Lemma mo_from_all_eq n : forall r, In r (mo_from_all n) -> r = mo_num n.
Proof.
  intros r Hr. unfold mo_from_all in Hr. cbn [In] in Hr.
  unfold dflt_from_u32, dflt_from_i8, dflt_from_i16, dflt_from_i32, dflt_from_u8, dflt_from_u16,
    dflt_from_isize, dflt_from_i128, dflt_from_usize, dflt_from_u128, in_usize, in_isize in Hr.
  repeat (destruct Hr as [<-|Hr]); try apply mo_from_i64_eq; try apply mo_from_u64_eq; try apply mo_from_u32_eq;
    try apply mo_try_from_u8_eq;
    try (apply via_chko; [apply mo_from_i64_eq|apply mo_num_out_i64]);
    try (apply via_chko; [apply mo_from_u64_eq|apply mo_num_out_u64]).
  contradiction.
Qed.

(* the statement of the property for one conversion function at one integer *)
Definition wd_conv_exact (r : option Z) (n : Z) : Prop :=
  match r with
  | Some w => 0 <= n <= 6 /\ wd w /\ wd_num_days_from_monday w = Val n
  | None => ~ (0 <= n <= 6)
  end.
Definition mo_conv_exact (r : option Z) (n : Z) : Prop :=
  match r with
  | Some m => 1 <= n <= 12 /\ mo m /\ mo_number_from_month m = Val n
  | None => ~ (1 <= n <= 12)
  end.
Lemma wd_num_exact n : wd_conv_exact (wd_num n) n.
Proof.
  unfold wd_num. destruct ((0 <=? n) && (n <=? 6)) eqn:E; cbn [wd_conv_exact]; [|lia].
  assert (Hw : wd n) by (unfold wd; lia). split; [lia|]. split; [exact Hw|].
  apply (wd_numbering_spec n Hw).
Qed.
Lemma mo_num_exact n : mo_conv_exact (mo_num n) n.
Proof.
  unfold mo_num. destruct ((1 <=? n) && (n <=? 12)) eqn:E; cbn [mo_conv_exact]; [|lia].
  assert (Hm : mo (n - 1)) by (unfold mo; lia). split; [lia|]. split; [exact Hm|].
  rewrite (mo_number_spec _ Hm). f_equal. lia.
Qed.
Theorem wd_from_int_exact n : forall r, In r (wd_from_all n) -> wd_conv_exact r n.
Proof. intros r Hr. rewrite (wd_from_all_eq n r Hr). apply wd_num_exact. Qed.
Theorem mo_from_int_exact n : forall r, In r (mo_from_all n) -> mo_conv_exact r n.
Proof. intros r Hr. rewrite (mo_from_all_eq n r Hr). apply mo_num_exact. Qed.

(* and the other way round: every conversion inverts the numbering *)
Theorem wd_from_number w : wd w ->
  exists n, wd_num_days_from_monday w = Val n /\ forall r, In r (wd_from_all n) -> r = Some w.
Proof.
  intros Hw. exists w. split; [apply (wd_numbering_spec w Hw)|]. intros r Hr.
  rewrite (wd_from_all_eq w r Hr). unfold wd_num, wd in *. fin_cond.
Qed.
Theorem mo_from_number m : mo m ->
  exists n, mo_number_from_month m = Val n /\ forall r, In r (mo_from_all n) -> r = Some m.
Proof.
  intros Hm. exists (m + 1). split; [apply (mo_number_spec m Hm)|]. intros r Hr.
  rewrite (mo_from_all_eq _ r Hr). unfold mo_num, mo in *. fin_cond. f_equal. lia.
Qed.

(* the code as found (narrowing cast) violates the statement: 2^32 + 1 is not a month number *)
Theorem mo_from_int_exact_refuted :
  in_u64 4294967297 = true /\ ~ mo_conv_exact (mo_from_u64_unrepaired 4294967297) 4294967297 /\
  in_i64 (-4294967295) = true /\ ~ mo_conv_exact (mo_from_i64_unrepaired (-4294967295)) (-4294967295).
Proof.
  assert (E1 : mo_from_u64_unrepaired 4294967297 = Some 0) by (vm_compute; reflexivity).
  assert (E2 : mo_from_i64_unrepaired (-4294967295) = Some 0) by (vm_compute; reflexivity).
  rewrite E1, E2. cbn [mo_conv_exact]. repeat split; lia.
Qed.

(** * Weekday sets: the 128 values are the subsets of the seven weekdays *)
Definition wset (s : Z) : Prop := 0 <= s < 128.
Definition days : list Z := [0; 1; 2; 3; 4; 5; 6].
(* abstraction: weekday i is a member of the set carried by s *)
Definition mem (s i : Z) : bool := Z.testbit s i.
Definition members (s : Z) : list Z := filter (mem s) days.
(* r carries exactly the set with characteristic function f *)
Definition repr (r : Z) (f : Z -> bool) : Prop := wset r /\ forall i, wd i -> mem r i = f i.

Lemma days_all i : wd i -> In i days.
Proof. unfold wd, days. cbn [In]. lia. Qed.
Lemma days_wd i : In i days -> wd i.
Proof. unfold wd, days. cbn [In]. lia. Qed.

Definition ext_b (r : Z) (f : Z -> bool) : bool :=
  (0 <=? r) && (r <? 128) && forallb (fun i => Bool.eqb (mem r i) (f i)) days.
Lemma ext_b_spec r f : ext_b r f = true -> repr r f.
Proof.
  unfold ext_b, repr, wset. intros H. apply andb_prop in H. destruct H as [H1 H2]. split; [lia|].
  intros i Hi. rewrite forallb_forall in H2. apply Bool.eqb_prop. apply H2. apply days_all. exact Hi.
Qed.
Lemma forallb_days f : forallb f days = true <-> forall i, wd i -> f i = true.
Proof.
  rewrite forallb_forall. split; intros H i Hi; apply H; [apply days_all|apply days_wd]; exact Hi.
Qed.

(* binary operations: all 128 x 128 pairs *)
Definition set_bin_b (a b : Z) : bool :=
  ext_b (ws_union a b) (fun i => mem a i || mem b i)
  && ext_b (ws_intersection a b) (fun i => mem a i && mem b i)
  && ext_b (ws_difference a b) (fun i => mem a i && negb (mem b i))
  && ext_b (ws_symmetric_difference a b) (fun i => xorb (mem a i) (mem b i))
  && Bool.eqb (ws_is_subset a b) (forallb (fun i => implb (mem a i) (mem b i)) days)
  && Bool.eqb (a =? b) (forallb (fun i => Bool.eqb (mem a i) (mem b i)) days).
Lemma set_bin_sweep : forall_range2 set_bin_b 0 128 0 128 = true.
Proof. vm_compute. reflexivity. Qed.

Theorem set_binary a b : wset a -> wset b ->
  repr (ws_union a b) (fun i => mem a i || mem b i) /\
  repr (ws_intersection a b) (fun i => mem a i && mem b i) /\
  repr (ws_difference a b) (fun i => mem a i && negb (mem b i)) /\
  repr (ws_symmetric_difference a b) (fun i => xorb (mem a i) (mem b i)) /\
  (ws_is_subset a b = true <-> forall i, wd i -> mem a i = true -> mem b i = true) /\
  (a = b <-> forall i, wd i -> mem a i = mem b i).
Proof.
  unfold wset. intros Ha Hb.
  pose proof (forall_range2_spec _ _ _ _ _ set_bin_sweep a b ltac:(lia) ltac:(lia)) as H.
  unfold set_bin_b in H. do 5 (apply andb_prop in H; destruct H as [H ?]).
  do 4 (split; [apply ext_b_spec; assumption|]). split; split.
  - intros Hs i Hi Hm. apply Bool.eqb_prop in H1. rewrite Hs in H1. symmetry in H1.
    rewrite forallb_days in H1. specialize (H1 i Hi). rewrite Hm in H1. exact H1.
  - intros Hall. apply Bool.eqb_prop in H1. rewrite H1. apply forallb_days. intros i Hi.
    specialize (Hall i Hi). destruct (mem a i); [rewrite Hall by reflexivity|]; reflexivity.
  - intros ->. reflexivity.
  - intros Hall. apply Bool.eqb_prop in H0.
    assert (E : (a =? b) = true); [|lia]. rewrite H0. apply forallb_days. intros i Hi.
    rewrite (Hall i Hi). apply Bool.eqb_reflx.
Qed.

(* every subset of the weekdays is carried by exactly one value *)
Definition code (f : Z -> bool) : Z := fold_right (fun i acc => acc + (if f i then 2 ^ i else 0)) 0 days.
Theorem set_surjective f : repr (code f) f.
Proof.
  apply ext_b_spec. unfold ext_b, code, days, mem. cbn [fold_right forallb].
  destruct (f 0), (f 1), (f 2), (f 3), (f 4), (f 5), (f 6); vm_compute; reflexivity.
Qed.

Definition optZ_eqb (a b : option Z) : bool :=
  match a, b with Some x, Some y => x =? y | None, None => true | _, _ => false end.
Lemma optZ_eqb_spec a b : optZ_eqb a b = true -> a = b.
Proof. destruct a, b; cbn; try discriminate; try reflexivity. intros H. f_equal. lia. Qed.
Fixpoint listZ_eqb (a b : list Z) : bool :=
  match a, b with
  | [], [] => true
  | x :: a', y :: b' => (x =? y) && listZ_eqb a' b'
  | _, _ => false
  end.
Lemma listZ_eqb_spec : forall a b, listZ_eqb a b = true -> a = b.
Proof.
  induction a as [|x a IH]; destruct b as [|y b]; cbn; try discriminate; try reflexivity.
  intros H. apply andb_prop in H. destruct H as [H1 H2]. f_equal; [lia|apply IH; exact H2].
Qed.
Definition Ro_eqb (a : R (option Z)) (b : option Z) : bool := match a with Val x => optZ_eqb x b | _ => false end.
Lemma Ro_eqb_spec a b : Ro_eqb a b = true -> a = Val b.
Proof. destruct a; cbn; try discriminate. intros H. f_equal. apply optZ_eqb_spec. exact H. Qed.

(* unary operations: all 128 sets *)
Definition set_un_b (s : Z) : bool :=
  Ro_eqb (ws_first s) (hd_error (members s))
  && Ro_eqb (ws_last s) (hd_error (rev (members s)))
  && (ws_len s =? Z.of_nat (List.length (members s)))
  && Bool.eqb (ws_is_empty s) (match members s with [] => true | _ => false end)
  && optZ_eqb (ws_single_day s) (match members s with [w] => Some w | _ => None end).
Lemma set_un_sweep : forall_range set_un_b 0 128 = true.
Proof. vm_compute. reflexivity. Qed.
Theorem set_unary s : wset s ->
  ws_first s = Val (hd_error (members s)) /\
  ws_last s = Val (hd_error (rev (members s))) /\
  ws_len s = Z.of_nat (List.length (members s)) /\
  (ws_is_empty s = true <-> members s = []) /\
  ws_single_day s = match members s with [w] => Some w | _ => None end.
Proof.
  unfold wset. intros Hs. pose proof (forall_range_spec _ _ _ set_un_sweep s ltac:(lia)) as H.
  unfold set_un_b in H. do 4 (apply andb_prop in H; destruct H as [H ?]).
  split; [apply Ro_eqb_spec; assumption|]. split; [apply Ro_eqb_spec; assumption|]. split; [lia|].
  split; [|apply optZ_eqb_spec; assumption].
  apply Bool.eqb_prop in H1. rewrite H1. destruct (members s); split; intros; congruence.
Qed.
(* members lists exactly the members, in weekday order, without repetition *)
Lemma members_spec s i : In i (members s) <-> wd i /\ mem s i = true.
Proof.
  unfold members. rewrite filter_In. split; intros [H1 H2]; (split; [|exact H2]); [apply days_wd|apply days_all]; exact H1.
Qed.
Fixpoint increasing (l : list Z) : Prop :=
  match l with x :: (y :: _) as r => x < y /\ increasing r | _ => True end.
Fixpoint increasing_b (l : list Z) : bool :=
  match l with x :: (y :: _) as r => (x <? y) && increasing_b r | _ => true end.
Lemma increasing_b_spec : forall l, increasing_b l = true -> increasing l.
Proof.
  induction l as [|x [|y r] IH]; cbn [increasing increasing_b]; try exact (fun _ => I).
  intros H. apply andb_prop in H. destruct H as [H1 H2]. split; [lia|apply IH; exact H2].
Qed.
Lemma members_sorted_sweep : forall_range (fun s => increasing_b (members s)) 0 128 = true.
Proof. vm_compute. reflexivity. Qed.
Lemma members_sorted s : wset s -> increasing (members s).
Proof.
  unfold wset. intros Hs. apply increasing_b_spec.
  exact (forall_range_spec _ _ _ members_sorted_sweep s ltac:(lia)).
Qed.

(* operations with one weekday: all 128 x 7 *)
Definition Rb_eqb (a : R bool) (b : bool) : bool := match a with Val x => Bool.eqb x b | _ => false end.
Definition Rpair_ok (a : R (Z * bool)) (f : Z -> bool) (b : bool) : bool :=
  match a with Val (r, c) => ext_b r f && Bool.eqb c b | _ => false end.
Definition set_day_b (s w : Z) : bool :=
  Rb_eqb (ws_contains s w) (mem s w)
  && Rpair_ok (ws_insert s w) (fun i => mem s i || (i =? w)) (negb (mem s w))
  && Rpair_ok (ws_remove s w) (fun i => mem s i && negb (i =? w)) (mem s w).
Lemma set_day_sweep : forall_range2 set_day_b 0 128 0 7 = true.
Proof. vm_compute. reflexivity. Qed.
Theorem set_with_day s w : wset s -> wd w ->
  ws_contains s w = Val (mem s w) /\
  (exists r, ws_insert s w = Val (r, negb (mem s w)) /\ repr r (fun i => mem s i || (i =? w))) /\
  (exists r, ws_remove s w = Val (r, mem s w) /\ repr r (fun i => mem s i && negb (i =? w))).
Proof.
  unfold wset, wd. intros Hs Hw.
  pose proof (forall_range2_spec _ _ _ _ _ set_day_sweep s w ltac:(lia) ltac:(lia)) as H.
  unfold set_day_b in H. do 2 (apply andb_prop in H; destruct H as [H ?]).
  split; [|split].
  - destruct (ws_contains s w); cbn [Rb_eqb] in H; try discriminate. f_equal. apply Bool.eqb_prop. exact H.
  - destruct (ws_insert s w) as [[r c]| |]; cbn [Rpair_ok] in H1; try discriminate.
    apply andb_prop in H1. destruct H1 as [G1 G2]. exists r. split; [|apply ext_b_spec; exact G1].
    f_equal. f_equal. apply Bool.eqb_prop. exact G2.
  - destruct (ws_remove s w) as [[r c]| |]; cbn [Rpair_ok] in H0; try discriminate.
    apply andb_prop in H0. destruct H0 as [G1 G2]. exists r. split; [|apply ext_b_spec; exact G1].
    f_equal. f_equal. apply Bool.eqb_prop. exact G2.
Qed.

(* single, the constants *)
Definition single_b (w : Z) : bool := match ws_single w with Val r => ext_b r (Z.eqb w) | _ => false end.
Lemma single_sweep : forall_range single_b 0 7 = true.
Proof. vm_compute. reflexivity. Qed.
Theorem ws_single_spec w : wd w -> exists r, ws_single w = Val r /\ repr r (Z.eqb w).
Proof.
  unfold wd. intros Hw. pose proof (forall_range_spec _ _ _ single_sweep w ltac:(lia)) as H.
  unfold single_b in H. destruct (ws_single w) as [r| |]; try discriminate.
  exists r. split; [reflexivity|apply ext_b_spec; exact H].
Qed.
Theorem ws_consts_spec : repr WS_EMPTY (fun _ => false) /\ repr WS_ALL (fun _ => true).
Proof. split; apply ext_b_spec; vm_compute; reflexivity. Qed.

(* FromIterator and from_array: any list of weekdays, of any length, with repetitions *)
Lemma ws_from_iter_fold_spec : forall l acc, wset acc -> Forall wd l ->
  exists r, ws_from_iter_fold l acc = Val r /\ repr r (fun i => mem acc i || existsb (Z.eqb i) l).
Proof.
  induction l as [|d l IH]; intros acc Hacc Hl.
  - exists acc. split; [reflexivity|]. split; [exact Hacc|]. intros i Hi. cbn [existsb]. rewrite orb_false_r. reflexivity.
  - inversion Hl as [|? ? Hd Hl']; subst. destruct (ws_single_spec d Hd) as [b [Eb [Hb1 Hb2]]].
    cbn [ws_from_iter_fold]. rewrite Eb. cbv [bind].
    destruct (set_binary acc b Hacc Hb1) as [[Hu1 Hu2] _].
    destruct (IH (ws_union acc b) Hu1 Hl') as [r [Er [Hr1 Hr2]]].
    exists r. split; [exact Er|]. split; [exact Hr1|]. intros i Hi.
    rewrite (Hr2 i Hi), (Hu2 i Hi), (Hb2 i Hi). cbn [existsb]. rewrite (Z.eqb_sym d i). symmetry. apply orb_assoc.
Qed.
Theorem ws_from_iter_spec l : Forall wd l ->
  exists r, ws_from_iter l = Val r /\ repr r (fun i => existsb (Z.eqb i) l).
Proof.
  intros Hl. destruct ws_consts_spec as [[He1 He2] _].
  destruct (ws_from_iter_fold_spec l WS_EMPTY He1 Hl) as [r [Er [Hr1 Hr2]]].
  exists r. split; [exact Er|]. split; [exact Hr1|]. intros i Hi. rewrite (Hr2 i Hi), (He2 i Hi). apply orb_false_l.
Qed.
Lemma ws_from_array_eq l : ws_from_array l = ws_from_iter l.
Proof.
  (* the two loops have convertible bodies (ws_union is Z.lor) *)
  reflexivity.
Qed.
Theorem ws_from_array_spec l : Forall wd l ->
  exists r, ws_from_array l = Val r /\ repr r (fun i => existsb (Z.eqb i) l).
Proof. rewrite ws_from_array_eq. apply ws_from_iter_spec. Qed.

(** * Iteration from a start day *)
(* the week in cyclic order from [start], and the members of s in that order *)
Definition cyc (start : Z) : list Z := map (fun k => (start + k) mod 7) days.
Definition cyc_members (s start : Z) : list Z := filter (mem s) (cyc start).

Definition Rstep_ok (a : R (option Z * Z)) (item : option Z) (rest : list Z) (start : Z) : bool :=
  match a with
  | Val (it, s') => optZ_eqb it item && (0 <=? s') && (s' <? 128) && listZ_eqb (cyc_members s' start) rest
  | _ => false
  end.
Definition iter_step_b (s start : Z) : bool :=
  let L := cyc_members s start in
  Rstep_ok (it_next s start) (hd_error L) (tl L) start
  && Rstep_ok (it_next_back s start) (hd_error (rev L)) (removelast L) start
  && (it_len s =? Z.of_nat (List.length L)).
Lemma iter_step_sweep : forall_range2 iter_step_b 0 128 0 7 = true.
Proof. vm_compute. reflexivity. Qed.

Lemma it_step_spec s start : wset s -> wd start ->
  let L := cyc_members s start in
  (exists s', it_next s start = Val (hd_error L, s') /\ wset s' /\ cyc_members s' start = tl L) /\
  (exists s', it_next_back s start = Val (hd_error (rev L), s') /\ wset s' /\ cyc_members s' start = removelast L) /\
  it_len s = Z.of_nat (List.length L).
Proof.
  intros Hs Hst L. unfold wset, wd in Hs, Hst.
  pose proof (forall_range2_spec _ _ _ _ _ iter_step_sweep s start ltac:(lia) ltac:(lia)) as H.
  unfold iter_step_b in H. fold L in H. do 2 (apply andb_prop in H; destruct H as [H ?]).
  split; [|split; [|lia]].
  - destruct (it_next s start) as [[it s']| |]; cbn [Rstep_ok] in H; try discriminate.
    do 3 (apply andb_prop in H; destruct H as [H ?]). exists s'.
    apply optZ_eqb_spec in H. subst it. split; [reflexivity|]. split; [unfold wset; lia|]. apply listZ_eqb_spec. assumption.
  - destruct (it_next_back s start) as [[it s']| |]; cbn [Rstep_ok] in H1; try discriminate.
    do 3 (apply andb_prop in H1; destruct H1 as [H1 ?]). exists s'.
    apply optZ_eqb_spec in H1. subst it. split; [reflexivity|]. split; [unfold wset; lia|]. apply listZ_eqb_spec. assumption.
Qed.

(* cyc_members: exactly the members, each once, in cyclic order from start *)
Lemma cyc_members_spec s start i : wd start -> (In i (cyc_members s start) <-> wd i /\ mem s i = true).
Proof.
  intros Hst. unfold cyc_members. rewrite filter_In. unfold cyc. rewrite in_map_iff. split.
  - intros [[k [Hk Hin]] Hm]. split; [|exact Hm]. subst i. apply wd_mod.
  - intros [Hi Hm]. split; [|exact Hm]. exists ((i - start) mod 7). split.
    + unfold wd in *. lia.
    + apply days_all. unfold wd. lia.
Qed.
(* position of weekday i in the cyclic order from start *)
Definition cyc_pos (start i : Z) : Z := (i - start) mod 7.
Fixpoint increasing_by (f : Z -> Z) (l : list Z) : Prop :=
  match l with x :: (y :: _) as r => f x < f y /\ increasing_by f r | _ => True end.
Fixpoint increasing_by_b (f : Z -> Z) (l : list Z) : bool :=
  match l with x :: (y :: _) as r => (f x <? f y) && increasing_by_b f r | _ => true end.
Lemma increasing_by_b_spec f : forall l, increasing_by_b f l = true -> increasing_by f l.
Proof.
  induction l as [|x [|y r] IH]; cbn [increasing_by increasing_by_b]; try exact (fun _ => I).
  intros H. apply andb_prop in H. destruct H as [H1 H2]. split; [lia|apply IH; exact H2].
Qed.
Lemma cyc_order_sweep :
  forall_range2 (fun s start => increasing_by_b (cyc_pos start) (cyc_members s start)) 0 128 0 7 = true.
Proof. vm_compute. reflexivity. Qed.
Lemma cyc_members_order s start : wset s -> wd start -> increasing_by (cyc_pos start) (cyc_members s start).
Proof.
  unfold wset, wd. intros Hs Hst. apply increasing_by_b_spec.
  exact (forall_range2_spec _ _ _ _ _ cyc_order_sweep s start ltac:(lia) ltac:(lia)).
Qed.

(* double-ended walk over a list: true takes the head, false takes the last element; per call the
   item (None once exhausted) and the number of elements left *)
Fixpoint deque_run (sched : list bool) (L : list Z) : list (option Z * Z) :=
  match sched with
  | [] => []
  | true :: r => (hd_error L, Z.of_nat (List.length (tl L))) :: deque_run r (tl L)
  | false :: r => (hd_error (rev L), Z.of_nat (List.length (removelast L))) :: deque_run r (removelast L)
  end.

Theorem it_run_spec : forall sched s start, wset s -> wd start ->
  it_run sched s start = Val (deque_run sched (cyc_members s start)).
Proof.
  induction sched as [|c sched IH]; intros s start Hs Hst; [reflexivity|].
  destruct (it_step_spec s start Hs Hst) as [[s1 [E1 [W1 L1]]] [[s2 [E2 [W2 L2]]] _]].
  cbn [it_run deque_run]. destruct c.
  - rewrite E1. cbv [bind]. rewrite (IH s1 start W1 Hst). rewrite L1.
    destruct (it_step_spec s1 start W1 Hst) as [_ [_ El]]. rewrite El, L1. reflexivity.
  - rewrite E2. cbv [bind]. rewrite (IH s2 start W2 Hst). rewrite L2.
    destruct (it_step_spec s2 start W2 Hst) as [_ [_ El]]. rewrite El, L2. reflexivity.
Qed.

(* pure facts about the walk *)
Lemma deque_forward : forall L, map fst (deque_run (repeat true (List.length L)) L) = map Some L.
Proof. induction L as [|x L IH]; [reflexivity|]. cbn [List.length repeat deque_run map fst hd_error tl]. f_equal. exact IH. Qed.
Lemma removelast_rev_cons (x : Z) l : removelast (rev (x :: l)) = rev l.
Proof. cbn [rev]. apply removelast_last. Qed.
Lemma deque_backward_rev : forall L, map fst (deque_run (repeat false (List.length L)) (rev L)) = map Some L.
Proof.
  induction L as [|x L IH]; [reflexivity|].
  cbn [List.length repeat deque_run map fst]. rewrite rev_involutive. cbn [hd_error]. f_equal.
  rewrite removelast_rev_cons. exact IH.
Qed.
Lemma deque_backward L : map fst (deque_run (repeat false (List.length L)) L) = map Some (rev L).
Proof. rewrite <- (rev_involutive L) at 2. rewrite <- rev_length. apply deque_backward_rev. Qed.
Lemma deque_exhausted : forall sched, deque_run sched [] = map (fun _ => (None, 0)) sched.
Proof. induction sched as [|[] r IH]; [reflexivity| |]; cbn [deque_run map]; f_equal; exact IH. Qed.

(* items taken from the front / from the back (in call order) and what is left *)
Fixpoint deque_fb (sched : list bool) (L : list Z) : list Z * list Z * list Z :=
  match sched with
  | [] => ([], [], L)
  | true :: r =>
      match L with
      | [] => deque_fb r []
      | x :: L' => let '(F, Bk, rest) := deque_fb r L' in (x :: F, Bk, rest)
      end
  | false :: r =>
      match rev L with
      | [] => deque_fb r []
      | x :: _ => let '(F, Bk, rest) := deque_fb r (removelast L) in (F, x :: Bk, rest)
      end
  end.
Lemma deque_partition : forall sched L,
  let '(F, Bk, rest) := deque_fb sched L in L = F ++ rest ++ rev Bk /\
  (List.length L <= List.length sched -> rest = [])%nat.
Proof.
  induction sched as [|c r IH]; intros L.
  - cbn [deque_fb]. split; [cbn [rev]; rewrite app_nil_r; reflexivity|]. cbn [List.length]. destruct L; [reflexivity|cbn; lia].
  - destruct c; cbn [deque_fb].
    + destruct L as [|x L'].
      * specialize (IH []). destruct (deque_fb r []) as [[F Bk] rest]. destruct IH as [IH1 IH2].
        split; [exact IH1|]. intros _. apply IH2. cbn. lia.
      * specialize (IH L'). destruct (deque_fb r L') as [[F Bk] rest]. destruct IH as [IH1 IH2].
        split; [cbn [app]; f_equal; exact IH1|]. cbn [List.length]. intros H. apply IH2. lia.
    + destruct (rev L) as [|x rl] eqn:E.
      * assert (L = []) by (rewrite <- (rev_involutive L), E; reflexivity). subst L.
        specialize (IH []). destruct (deque_fb r []) as [[F Bk] rest]. destruct IH as [IH1 IH2].
        split; [exact IH1|]. intros _. apply IH2. cbn. lia.
      * assert (EL : L = rev rl ++ [x]) by (rewrite <- (rev_involutive L), E; reflexivity).
        specialize (IH (removelast L)). destruct (deque_fb r (removelast L)) as [[F Bk] rest]. destruct IH as [IH1 IH2].
        rewrite EL in IH1, IH2. rewrite removelast_last in IH1, IH2. split.
        -- rewrite EL at 1. rewrite IH1. cbn [rev]. rewrite !app_assoc. reflexivity.
        -- rewrite EL. rewrite app_length. cbn [List.length]. intros H. apply IH2. lia.
Qed.
(* the items reported by the walk are the items taken *)
Fixpoint sel (b : bool) (sched : list bool) (res : list (option Z * Z)) : list Z :=
  match sched, res with
  | c :: r, (Some x, _) :: res' => if Bool.eqb b c then x :: sel b r res' else sel b r res'
  | _ :: r, (None, _) :: res' => sel b r res'
  | _, _ => []
  end.
Lemma deque_sel : forall sched L,
  let '(F, Bk, _) := deque_fb sched L in
  sel true sched (deque_run sched L) = F /\ sel false sched (deque_run sched L) = Bk.
Proof.
  induction sched as [|c r IH]; intros L; [split; reflexivity|].
  destruct c; cbn [deque_fb deque_run].
  - destruct L as [|x L']; cbn [hd_error tl sel].
    + specialize (IH []). destruct (deque_fb r []) as [[F Bk] rest]. exact IH.
    + specialize (IH L'). destruct (deque_fb r L') as [[F Bk] rest]. destruct IH as [IH1 IH2].
      cbn [Bool.eqb]. split; [f_equal; exact IH1|exact IH2].
  - destruct (rev L) as [|x rl] eqn:E; cbn [hd_error sel].
    + assert (L = []) by (rewrite <- (rev_involutive L), E; reflexivity). subst L. cbn [removelast].
      specialize (IH []). destruct (deque_fb r []) as [[F Bk] rest]. exact IH.
    + specialize (IH (removelast L)). destruct (deque_fb r (removelast L)) as [[F Bk] rest]. destruct IH as [IH1 IH2].
      cbn [Bool.eqb]. split; [exact IH1|f_equal; exact IH2].
Qed.

(* the three statements of the property about iteration, for the model *)
Theorem iter_forward s start : wset s -> wd start ->
  exists res, it_run (repeat true (List.length (cyc_members s start))) s start = Val res /\
              map fst res = map Some (cyc_members s start).
Proof. intros Hs Hst. eexists. split; [apply it_run_spec; assumption|apply deque_forward]. Qed.
Theorem iter_backward s start : wset s -> wd start ->
  exists res, it_run (repeat false (List.length (cyc_members s start))) s start = Val res /\
              map fst res = map Some (rev (cyc_members s start)).
Proof. intros Hs Hst. eexists. split; [apply it_run_spec; assumption|apply deque_backward]. Qed.
Theorem iter_partition sched s start : wset s -> wd start ->
  exists res, it_run sched s start = Val res /\
  exists rest, cyc_members s start = sel true sched res ++ rest ++ rev (sel false sched res) /\
               ((List.length (cyc_members s start) <= List.length sched)%nat -> rest = []).
Proof.
  intros Hs Hst. eexists. split; [apply it_run_spec; assumption|].
  pose proof (deque_partition sched (cyc_members s start)) as P.
  pose proof (deque_sel sched (cyc_members s start)) as S.
  destruct (deque_fb sched (cyc_members s start)) as [[F Bk] rest]. destruct S as [-> ->].
  exists rest. exact P.
Qed.
Theorem iter_fused sched1 sched2 s start : wset s -> wd start ->
  (List.length (cyc_members s start) <= List.length sched1)%nat ->
  exists res1, it_run (sched1 ++ sched2) s start = Val (res1 ++ map (fun _ => (None, 0)) sched2) /\
               List.length res1 = List.length sched1.
Proof.
  intros Hs Hst Hlen. rewrite it_run_spec by assumption. generalize (cyc_members s start) Hlen. clear.
  induction sched1 as [|c r IH]; intros L HL.
  - destruct L; [|cbn in HL; lia]. exists []. split; [|reflexivity]. cbn [app]. rewrite deque_exhausted. reflexivity.
  - cbn [app deque_run]. destruct c.
    + destruct (IH (tl L)) as [res1 [E Hl]]; [destruct L; cbn [tl List.length] in *; lia|].
      injection E as E. eexists (_ :: res1). split; [cbn [app]; rewrite E; reflexivity|cbn [List.length]; lia].
    + destruct (IH (removelast L)) as [res1 [E Hl]].
      { destruct L as [|x L] using rev_ind; [cbn; lia|]. rewrite removelast_last. rewrite app_length in HL. cbn [List.length] in *. lia. }
      injection E as E. eexists (_ :: res1). split; [cbn [app]; rewrite E; reflexivity|cbn [List.length]; lia].
Qed.

(** * Display of a weekday set *)
Fixpoint join_bytes (sep : bytes) (l : list bytes) : bytes :=
  match l with [] => [] | [a] => a | a :: r => a ++ sep ++ join_bytes sep r end.
Definition short_names : list bytes := [B"Mon"; B"Tue"; B"Wed"; B"Thu"; B"Fri"; B"Sat"; B"Sun"].
Definition ws_text (s : Z) : bytes :=
  B"[" ++ join_bytes B", " (map (fun w => nth (Z.to_nat w) short_names []) (members s)) ++ B"]".
Definition Rbytes_eqb (a : R bytes) (b : bytes) : bool := match a with Val x => bytes_eqb x b | _ => false end.
Lemma bytes_eqb_spec : forall a b, bytes_eqb a b = true -> a = b.
Proof.
  induction a as [|x a IH]; destruct b as [|y b]; cbn [bytes_eqb]; try discriminate; try reflexivity.
  intros H. apply andb_prop in H. destruct H as [H1 H2]. f_equal; [lia|apply IH; exact H2].
Qed.
Lemma Rbytes_eqb_spec a b : Rbytes_eqb a b = true -> a = Val b.
Proof. destruct a; cbn [Rbytes_eqb]; try discriminate. intros H. f_equal. apply bytes_eqb_spec. exact H. Qed.
Lemma ws_display_sweep : forall_range (fun s => Rbytes_eqb (ws_display s) (ws_text s)) 0 128 = true.
Proof. vm_compute. reflexivity. Qed.
Theorem ws_display_spec s : wset s -> ws_display s = Val (ws_text s).
Proof.
  unfold wset. intros Hs. apply Rbytes_eqb_spec.
  exact (forall_range_spec _ _ _ ws_display_sweep s ltac:(lia)).
Qed.
Lemma wd_display_sweep : forall_range (fun w => Rbytes_eqb (wd_display w) (nth (Z.to_nat w) short_names [])) 0 7 = true.
Proof. vm_compute. reflexivity. Qed.
Theorem wd_display_spec w : wd w -> wd_display w = Val (nth (Z.to_nat w) short_names []).
Proof.
  unfold wd. intros Hw. apply Rbytes_eqb_spec.
  exact (forall_range_spec _ _ _ wd_display_sweep w ltac:(lia)).
Qed.

(** * Text: names and parsing *)
Definition byte (c : Z) : Prop := 0 <= c < 256.
Definition ascii7 (c : Z) : Prop := 0 <= c < 128.
Definition letter (c : Z) : Prop := 97 <= c <= 122.          (* a lowercase ASCII letter *)
Definition letter_b (c : Z) : bool := (97 <=? c) && (c <=? 122).
(* ASCII lowercase; two strings are equal ignoring ASCII case iff their images are equal *)
Definition lowerb (c : Z) : Z := if (65 <=? c) && (c <=? 90) then c + 32 else c.

Lemma tal_sweep : forall_range (fun c => to_ascii_lowercase c =? lowerb c) 0 256 = true.
Proof. vm_compute. reflexivity. Qed.
Lemma tal_lowerb c : byte c -> to_ascii_lowercase c = lowerb c.
Proof. unfold byte. intros H. pose proof (forall_range_spec _ _ _ tal_sweep c ltac:(lia)) as E. cbv beta in E. lia. Qed.
Lemma lor32_sweep : forall_range2 (fun x L => Bool.eqb (Z.lor x 32 =? L) (lowerb x =? L)) 0 256 97 26 = true.
Proof. vm_compute. reflexivity. Qed.
Lemma lor32_letter x L : byte x -> letter L -> (Z.lor x 32 =? L) = (lowerb x =? L).
Proof.
  unfold byte, letter. intros Hx HL. apply Bool.eqb_prop.
  exact (forall_range2_spec _ _ _ _ _ lor32_sweep x L ltac:(lia) ltac:(lia)).
Qed.
Lemma lowerb_letter_ascii x L : lowerb x = L -> letter L -> ascii7 x.
Proof. unfold lowerb, letter, ascii7. destruct ((65 <=? x) && (x <=? 90)) eqn:E; lia. Qed.
Lemma lowerb_letter L : letter L -> lowerb L = L.
Proof. unfold lowerb, letter. destruct ((65 <=? L) && (L <=? 90)) eqn:E; lia. Qed.
Lemma map_lowerb_letters l : Forall letter l -> map lowerb l = l.
Proof. induction 1 as [|x l Hx _ IH]; [reflexivity|]. cbn [map]. rewrite IH, lowerb_letter by exact Hx. reflexivity. Qed.
Lemma letter_b_spec c : letter_b c = true <-> letter c.
Proof. unfold letter_b, letter. lia. Qed.
Lemma forallb_letters l : forallb letter_b l = true -> Forall letter l.
Proof. rewrite forallb_forall, Forall_forall. intros H x Hx. apply letter_b_spec. apply H. exact Hx. Qed.

(* bytes_eqb is equality *)
Lemma bytes_eqb_refl : forall a, bytes_eqb a a = true.
Proof. induction a as [|x a IH]; [reflexivity|]. cbn [bytes_eqb]. rewrite Z.eqb_refl, IH. reflexivity. Qed.
Lemma bytes_eqb_iff a b : bytes_eqb a b = true <-> a = b.
Proof. split; [apply bytes_eqb_spec|intros ->; apply bytes_eqb_refl]. Qed.

(* <[u8]>::eq_ignore_ascii_case against a lowercase word *)
Lemma all2_lower : forall a b, Forall byte a -> Forall letter b -> List.length a = List.length b ->
  (all2 u8_eq_ignore_ascii_case a b = true <-> map lowerb a = b).
Proof.
  induction a as [|x a IH]; intros [|y b] Ha Hb Hlen; cbn [List.length] in Hlen; try discriminate.
  - cbn. split; reflexivity.
  - inversion Ha as [|? ? Hx Ha']; inversion Hb as [|? ? Hy Hb']; subst.
    cbn [all2 map]. unfold u8_eq_ignore_ascii_case at 1. rewrite (tal_lowerb x Hx).
    rewrite (tal_lowerb y) by (unfold letter, byte in *; lia). rewrite (lowerb_letter y Hy).
    rewrite andb_true_iff, (IH b Ha' Hb' ltac:(lia)). split.
    + intros [H1 H2]. f_equal; [lia|exact H2].
    + intros H. injection H as H1 H2. split; [lia|exact H2].
Qed.
Lemma eqic_lower a b : Forall byte a -> Forall letter b ->
  (eq_ignore_ascii_case a b = true <-> map lowerb a = b).
Proof.
  intros Ha Hb. unfold eq_ignore_ascii_case, blen. rewrite andb_true_iff. split.
  - intros [H1 H2]. apply all2_lower; try assumption. lia.
  - intros H. assert (Hl : List.length a = List.length b) by (rewrite <- H, map_length; reflexivity).
    split; [lia|]. apply all2_lower; assumption.
Qed.

(** UTF-8 facts needed for the slices *)
Lemma boundary_sweep : forall_range (fun b => Bool.eqb (is_utf8_char_boundary b) (negb ((128 <=? b) && (b <=? 191)))) 0 256 = true.
Proof. vm_compute. reflexivity. Qed.
Lemma boundary_byte b : byte b -> is_utf8_char_boundary b = negb ((128 <=? b) && (b <=? 191)).
Proof. unfold byte. intros H. apply Bool.eqb_prop. exact (forall_range_spec _ _ _ boundary_sweep b ltac:(lia)). Qed.
Lemma utf8_valid_ascii a r : ascii7 a -> utf8_valid (a :: r) = utf8_valid r.
Proof.
  unfold ascii7. intros Ha. unfold utf8_valid. cbn [List.length utf8_valid_fuel].
  replace ((0 <=? a) && (a <=? 127)) with true by lia. reflexivity.
Qed.
Lemma utf8_valid_app p r : Forall ascii7 p -> utf8_valid (p ++ r) = utf8_valid r.
Proof. induction 1 as [|a p Ha _ IH]; [reflexivity|]. cbn [app]. rewrite utf8_valid_ascii by exact Ha. exact IH. Qed.
Lemma utf8_valid_head b r : byte b -> utf8_valid (b :: r) = true -> is_utf8_char_boundary b = true.
Proof.
  intros Hb. rewrite (boundary_byte b Hb). unfold utf8_valid. cbn [List.length utf8_valid_fuel].
  destruct ((0 <=? b) && (b <=? 127)) eqn:E1; [lia|].
  destruct ((194 <=? b) && (b <=? 223)) eqn:E2; [lia|].
  destruct ((224 <=? b) && (b <=? 239)) eqn:E3; [lia|].
  destruct ((240 <=? b) && (b <=? 244)) eqn:E4; [lia|]. discriminate.
Qed.
Lemma nth_z_aux_app {A} : forall (p r : list A), nth_z_aux (p ++ r) (List.length p) = hd_error r.
Proof. induction p as [|a p IH]; intros r; [destruct r; reflexivity|]. cbn [app List.length nth_z_aux]. apply IH. Qed.
Lemma skipn_app_len {A} : forall (p r : list A), skipn (List.length p) (p ++ r) = r.
Proof. induction p as [|a p IH]; intros r; [reflexivity|]. cbn [app List.length skipn]. apply IH. Qed.
Lemma firstn_app_len {A} : forall (p r : list A), firstn (List.length p) (p ++ r) = p.
Proof. induction p as [|a p IH]; intros r; [reflexivity|]. cbn [app List.length firstn]. f_equal. apply IH. Qed.

(* &s[n..] after an ASCII prefix of length n of a valid string *)
Lemma str_from_ascii_prefix p r : Forall ascii7 p -> Forall byte r -> utf8_valid (p ++ r) = true ->
  str_from (p ++ r) (blen p) = Val r.
Proof.
  intros Hp Hr Hv. rewrite (utf8_valid_app p r Hp) in Hv.
  unfold str_from, blen. replace (0 <=? Z.of_nat (List.length p)) with true by lia. cbn [andb].
  assert (HB : is_char_boundary (p ++ r) (Z.of_nat (List.length p)) = true).
  { unfold is_char_boundary, blen. destruct (Z.of_nat (List.length p) =? 0) eqn:E0; [reflexivity|].
    rewrite app_length, Nat2Z.inj_add.
    destruct r as [|b r'].
    - cbn [List.length]. replace (Z.of_nat (List.length p) + Z.of_nat 0 <=? Z.of_nat (List.length p)) with true by lia. lia.
    - cbn [List.length]. replace (Z.of_nat (List.length p) + Z.of_nat (S (List.length r')) <=? Z.of_nat (List.length p)) with false by lia.
      rewrite Nat2Z.id, nth_z_aux_app. cbn [hd_error]. inversion Hr; subst. apply (utf8_valid_head b r'); assumption. }
  rewrite HB. rewrite Nat2Z.id, skipn_app_len. reflexivity.
Qed.

(** Generic two-stage name scanner (the shape shared by short_or_long_weekday and
    short_or_long_month0): a table of three-letter keys, then an optional suffix per value. *)
Definition key_ok (k : bytes) : bool := (List.length k =? 3)%nat && forallb letter_b k.
Lemma key_ok_inv k : key_ok k = true -> exists x y z, k = [x; y; z] /\ letter x /\ letter y /\ letter z.
Proof.
  unfold key_ok. intros H. apply andb_prop in H. destruct H as [H1 H2]. apply Nat.eqb_eq in H1.
  destruct k as [|x [|y [|z [|? ?]]]]; cbn in H1; try discriminate.
  cbn [forallb] in H2. rewrite !andb_true_iff, !letter_b_spec in H2. exists x, y, z. intuition.
Qed.
Lemma assoc_In : forall T k v, assoc_bytes k T = Some v -> In (k, v) T.
Proof.
  induction T as [|[k' v'] T IH]; intros k v H; cbn [assoc_bytes] in H; [discriminate|].
  destruct (bytes_eqb k k') eqn:E.
  - apply bytes_eqb_spec in E. injection H as ->. subst. left. reflexivity.
  - right. apply IH. exact H.
Qed.
Lemma assoc_None : forall T k, assoc_bytes k T = None -> forall v, ~ In (k, v) T.
Proof.
  induction T as [|[k' v'] T IH]; intros k H v Hin; cbn [assoc_bytes] in H; [exact Hin|].
  destruct (bytes_eqb k k') eqn:E; [discriminate|]. destruct Hin as [Hin|Hin].
  - injection Hin as -> ->. rewrite bytes_eqb_refl in E. discriminate.
  - exact (IH k H v Hin).
Qed.
Lemma assoc_lor : forall T a b c, byte a -> byte b -> byte c ->
  forallb (fun kv => key_ok (fst kv)) T = true ->
  assoc_bytes [Z.lor a 32; Z.lor b 32; Z.lor c 32] T = assoc_bytes [lowerb a; lowerb b; lowerb c] T.
Proof.
  induction T as [|[k v] T IH]; intros a b c Ha Hb Hc HT; [reflexivity|].
  cbn [forallb fst] in HT. apply andb_prop in HT. destruct HT as [Hk HT].
  destruct (key_ok_inv k Hk) as [x [y [z [-> [Hx [Hy Hz]]]]]].
  cbn [assoc_bytes bytes_eqb]. rewrite !lor32_letter by assumption. rewrite IH by assumption. reflexivity.
Qed.
Definition fun_b (T : list (bytes * Z)) : bool :=
  forallb (fun kv => forallb (fun kv' => implb (bytes_eqb (fst kv) (fst kv')) (snd kv =? snd kv')) T) T.
Lemma fun_b_spec T : fun_b T = true -> forall k v v', In (k, v) T -> In (k, v') T -> v = v'.
Proof.
  unfold fun_b. rewrite forallb_forall. intros H k v v' H1 H2. specialize (H _ H1). rewrite forallb_forall in H.
  specialize (H _ H2). cbn [fst snd] in H. rewrite bytes_eqb_refl in H. cbn [implb] in H. lia.
Qed.

Lemma lower_letters_ascii : forall l, Forall letter (map lowerb l) -> Forall ascii7 l.
Proof.
  induction l as [|x l IH]; intros H; [constructor|]. cbn [map] in H. inversion H; subst.
  constructor; [eapply lowerb_letter_ascii; [reflexivity|eassumption]|apply IH; assumption].
Qed.

Section Scanner.
  Variable T : list (bytes * Z).
  Variable sufR : Z -> R bytes.
  Variable suf : Z -> bytes.
  Hypothesis keys_ok : forallb (fun kv => key_ok (fst kv)) T = true.
  Hypothesis suf_ok : forall k v, In (k, v) T -> sufR v = Val (suf v) /\ Forall letter (suf v).
  Hypothesis keys_fun : forall k v v', In (k, v) T -> In (k, v') T -> v = v'.

  Definition scan2 (s : bytes) : R (presult (bytes * Z)) :=
    if blen s <? 3 then Val (PErr TooShort) else
    let* key := short_key [0; 1; 2] [32; 32; 32] s in
    match assoc_bytes key T with
    | None => Val (PErr Invalid)
    | Some v =>
        let* rest := str_from s 3 in
        let* suffix := sufR v in
        let* s2 := consume_suffix rest suffix in
        Val (POk (s2, v))
    end.
  (* the lowercase words the scanner is meant to accept completely, with their values *)
  Definition names : list (bytes * Z) :=
    flat_map (fun kv => [(fst kv, snd kv); (fst kv ++ suf (snd kv), snd kv)]) T.

  Lemma key_of_T k v : In (k, v) T -> key_ok k = true.
  Proof. intros H. rewrite forallb_forall in keys_ok. exact (keys_ok _ H). Qed.
  Lemma names_In n v : In (n, v) names <-> exists k, In (k, v) T /\ (n = k \/ n = k ++ suf v).
  Proof.
    unfold names. rewrite in_flat_map. split.
    - intros [[k v'] [HT Hin]]. cbn [fst snd In] in Hin. destruct Hin as [E|[E|[]]]; injection E as <- <-; exists k; auto.
    - intros [k [HT [->| ->]]]; exists (k, v); (split; [exact HT|]); cbn [fst snd In]; auto.
  Qed.

  (* consume_suffix on a valid rest with a lowercase suffix *)
  Lemma consume_spec rest sfx : Forall byte rest -> utf8_valid rest = true -> Forall letter sfx ->
    exists s2, consume_suffix rest sfx = Val s2 /\ (s2 = [] <-> rest = [] \/ map lowerb rest = sfx).
  Proof.
    intros Hb Hv Hs. unfold consume_suffix.
    destruct (blen rest >=? blen sfx) eqn:EL.
    - unfold blen in EL. assert (Hlen : (List.length sfx <= List.length rest)%nat) by lia.
      unfold slice_to. replace ((0 <=? blen sfx) && (blen sfx <=? blen rest)) with true by (unfold blen; lia).
      cbv [bind]. unfold blen at 1. rewrite Nat2Z.id.
      set (pre := firstn (List.length sfx) rest). set (post := skipn (List.length sfx) rest).
      assert (Erest : rest = pre ++ post) by (symmetry; apply firstn_skipn).
      assert (Hpre_len : List.length pre = List.length sfx) by (apply firstn_length_le; exact Hlen).
      assert (Hpre_b : Forall byte pre).
      { rewrite Forall_forall in *. intros x Hx. apply Hb. rewrite Erest. apply in_or_app. left. exact Hx. }
      assert (Hpost_b : Forall byte post).
      { rewrite Forall_forall in *. intros x Hx. apply Hb. rewrite Erest. apply in_or_app. right. exact Hx. }
      destruct (eq_ignore_ascii_case pre sfx) eqn:EQ.
      + apply (eqic_lower pre sfx Hpre_b Hs) in EQ.
        assert (Hpre_a : Forall ascii7 pre).
        { apply lower_letters_ascii. rewrite EQ. exact Hs. }
        exists post. split.
        * replace (blen sfx) with (blen pre) by (unfold blen; lia). rewrite Erest at 1.
          apply str_from_ascii_prefix; [exact Hpre_a|exact Hpost_b|rewrite <- Erest; exact Hv].
        * split.
          -- intros Hp. right. rewrite Erest, Hp, app_nil_r. exact EQ.
          -- intros [Hr|Hr].
             ++ rewrite Hr in Erest. symmetry in Erest. apply app_eq_nil in Erest. tauto.
             ++ assert (List.length rest = List.length sfx) by (rewrite <- Hr, map_length; reflexivity).
                assert (Hl : List.length post = 0%nat) by (unfold post; rewrite skipn_length; lia).
                destruct post; [reflexivity|discriminate].
      + exists rest. split; [reflexivity|]. split; [intros ->; left; reflexivity|].
        assert (NE : ~ map lowerb pre = sfx) by (intros E; apply (eqic_lower pre sfx Hpre_b Hs) in E; congruence).
        intros [Hr|Hr].
        * exfalso. apply NE. unfold pre. rewrite Hr in Hlen |- *. destruct sfx; [reflexivity|cbn in Hlen; lia].
        * exfalso. apply NE. unfold pre.
          assert (List.length rest = List.length sfx) by (rewrite <- Hr, map_length; reflexivity).
          rewrite <- H, firstn_all. exact Hr.
    - exists rest. split; [reflexivity|]. split; [intros ->; left; reflexivity|].
      intros [Hr|Hr]; [exact Hr|]. exfalso.
      assert (List.length rest = List.length sfx) by (rewrite <- Hr, map_length; reflexivity). unfold blen in EL. lia.
  Qed.

  Theorem scan2_spec s : Forall byte s -> utf8_valid s = true ->
    exists r, scan2 s = Val r /\ forall v, r = POk ([], v) <-> In (map lowerb s, v) names.
  Proof.
    intros Hb Hv.
    assert (Hshort : (List.length s < 3)%nat ->
              exists r, scan2 s = Val r /\ forall v, r = POk ([], v) <-> In (map lowerb s, v) names).
    { intros Hl. exists (PErr TooShort). split.
      - unfold scan2, blen. replace (Z.of_nat (List.length s) <? 3) with true by lia. reflexivity.
      - intros v. split; [discriminate|]. intros Hin. apply names_In in Hin. destruct Hin as [k [HT Hk]].
        destruct (key_ok_inv k (key_of_T k v HT)) as [x [y [z [-> _]]]].
        assert (List.length (map lowerb s) >= 3)%nat by (destruct Hk as [-> | ->]; [cbn; lia|rewrite app_length; cbn; lia]).
        rewrite map_length in H. lia. }
    destruct s as [|a [|b [|c rest]]]; try (apply Hshort; cbn; lia). clear Hshort.
    inversion Hb as [|? ? Ha Hb1]; subst. inversion Hb1 as [|? ? Hbb Hb2]; subst. inversion Hb2 as [|? ? Hc Hrest]; subst.
    unfold scan2. replace (blen (a :: b :: c :: rest) <? 3) with false by (unfold blen; cbn [List.length]; lia).
    change (short_key [0; 1; 2] [32; 32; 32] (a :: b :: c :: rest)) with (Val [Z.lor a 32; Z.lor b 32; Z.lor c 32]).
    cbv [bind]. rewrite (assoc_lor T a b c Ha Hbb Hc keys_ok).
    (* membership in names for a string with this head *)
    assert (Hnames : forall v0, In ([lowerb a; lowerb b; lowerb c], v0) T ->
              forall v, In (map lowerb (a :: b :: c :: rest), v) names <-> v = v0 /\ (rest = [] \/ map lowerb rest = suf v0)).
    { intros v0 HT0 v. rewrite names_In. cbn [map]. split.
      - intros [k [HT Hk]]. destruct (key_ok_inv k (key_of_T k v HT)) as [x [y [z [-> _]]]].
        destruct Hk as [E|E]; cbn [app] in E; injection E as E1 E2 E3 E4; subst x y z;
          pose proof (keys_fun _ _ _ HT HT0) as ->; (split; [reflexivity|]).
        + left. destruct rest; [reflexivity|discriminate].
        + right. exact E4.
      - intros [-> [->|Hr]]; exists [lowerb a; lowerb b; lowerb c]; (split; [exact HT0|]).
        + left. reflexivity.
        + right. cbn [app]. rewrite Hr. reflexivity. }
    destruct (assoc_bytes [lowerb a; lowerb b; lowerb c] T) as [v0|] eqn:EA.
    - apply assoc_In in EA.
      destruct (key_ok_inv _ (key_of_T _ _ EA)) as [x [y [z [E [Hx [Hy Hz]]]]]]. injection E as Ex Ey Ez.
      assert (Hp : Forall ascii7 [a; b; c]).
      { repeat constructor; eapply lowerb_letter_ascii; try eassumption; rewrite <- ?Ex, <- ?Ey, <- ?Ez; assumption. }
      change 3 with (blen [a; b; c]). change (a :: b :: c :: rest) with ([a; b; c] ++ rest) at 1.
      rewrite (str_from_ascii_prefix [a; b; c] rest Hp Hrest Hv).
      destruct (suf_ok _ _ EA) as [Es Hsl]. rewrite Es.
      change (a :: b :: c :: rest) with ([a; b; c] ++ rest) in Hv. rewrite (utf8_valid_app _ _ Hp) in Hv.
      destruct (consume_spec rest (suf v0) Hrest Hv Hsl) as [s2 [E2 Hs2]]. rewrite E2.
      eexists. split; [reflexivity|]. intros v. rewrite (Hnames v0 EA v). rewrite <- Hs2. split.
      + intros E. injection E as -> ->. split; reflexivity.
      + intros [-> ->]. reflexivity.
    - eexists. split; [reflexivity|]. intros v. split; [discriminate|]. intros Hin.
      apply names_In in Hin. destruct Hin as [k [HT Hk]].
      destruct (key_ok_inv k (key_of_T k v HT)) as [x [y [z [-> _]]]].
      exfalso. apply (assoc_None T _ EA v).
      destruct Hk as [E|E]; cbn [map app] in E; injection E as -> -> ->; exact HT.
  Qed.
End Scanner.

(** Instances: the English names (lowercase; a string denotes a name iff its ASCII-lowercase image
    is in the list).  Values: Weekday discriminant (Mon = 0), Month discriminant (January = 0). *)
Definition wd_name_list : list (bytes * Z) :=
  [(B"mon", 0); (B"monday", 0); (B"tue", 1); (B"tuesday", 1); (B"wed", 2); (B"wednesday", 2);
   (B"thu", 3); (B"thursday", 3); (B"fri", 4); (B"friday", 4); (B"sat", 5); (B"saturday", 5);
   (B"sun", 6); (B"sunday", 6)].
Definition mo_name_list : list (bytes * Z) :=
  [(B"jan", 0); (B"january", 0); (B"feb", 1); (B"february", 1); (B"mar", 2); (B"march", 2);
   (B"apr", 3); (B"april", 3); (B"may", 4); (B"jun", 5); (B"june", 5); (B"jul", 6); (B"july", 6);
   (B"aug", 7); (B"august", 7); (B"sep", 8); (B"september", 8); (B"oct", 9); (B"october", 9);
   (B"nov", 10); (B"november", 10); (B"dec", 11); (B"december", 11)].

Definition pair_eqb (x y : bytes * Z) : bool := bytes_eqb (fst x) (fst y) && (snd x =? snd y).
Lemma pair_eqb_spec x y : pair_eqb x y = true -> x = y.
Proof.
  destruct x as [a n], y as [b m]. unfold pair_eqb. cbn [fst snd]. intros H. apply andb_prop in H.
  destruct H as [H1 H2]. apply bytes_eqb_spec in H1. f_equal; [exact H1|lia].
Qed.
Definition incl_b (A C : list (bytes * Z)) : bool := forallb (fun x => existsb (pair_eqb x) C) A.
Lemma incl_b_spec A C : incl_b A C = true -> forall x, In x A -> In x C.
Proof.
  unfold incl_b. rewrite forallb_forall. intros H x Hx. specialize (H x Hx). apply existsb_exists in H.
  destruct H as [y [Hy E]]. apply pair_eqb_spec in E. subst. exact Hy.
Qed.
Definition suf_ok_b (T : list (bytes * Z)) (sufR : Z -> R bytes) (suf : Z -> bytes) : bool :=
  forallb (fun kv => match sufR (snd kv) with
                     | Val x => bytes_eqb x (suf (snd kv)) && forallb letter_b x
                     | _ => false end) T.
Lemma suf_ok_b_spec T sufR suf : suf_ok_b T sufR suf = true ->
  forall k v, In (k, v) T -> sufR v = Val (suf v) /\ Forall letter (suf v).
Proof.
  unfold suf_ok_b. rewrite forallb_forall. intros H k v Hin. specialize (H _ Hin). cbn [snd] in H.
  destruct (sufR v) as [x| |]; try discriminate. apply andb_prop in H. destruct H as [H1 H2].
  apply bytes_eqb_spec in H1. subst x. split; [reflexivity|apply forallb_letters; exact H2].
Qed.

(* Weekday *)
Definition wd_sufR (v : Z) : R bytes :=
  let* n := wd_num_days_from_monday v in index LONG_WEEKDAY_SUFFIXES (as_usize n).
Definition wd_suf (v : Z) : bytes := nth (Z.to_nat v) LONG_WEEKDAY_SUFFIXES [].
Lemma sol_weekday_scan2 s : short_or_long_weekday s = scan2 SW_TABLE wd_sufR s.
Proof.
  unfold short_or_long_weekday, short_weekday, scan2, wd_sufR, SW_LEN, SW_IDX, SW_BITS, SW_REST.
  destruct (blen s <? 3); [reflexivity|].
  destruct (short_key [0; 1; 2] [32; 32; 32] s) as [key| |]; cbv [bind]; try reflexivity.
  destruct (assoc_bytes key SW_TABLE) as [v|]; [|reflexivity].
  destruct (str_from s 3) as [rest| |]; try reflexivity.
  destruct (wd_num_days_from_monday v); reflexivity.
Qed.
Lemma wd_tables_ok :
  forallb (fun kv => key_ok (fst kv)) SW_TABLE = true /\ suf_ok_b SW_TABLE wd_sufR wd_suf = true /\
  fun_b SW_TABLE = true /\
  incl_b (names SW_TABLE wd_suf) wd_name_list = true /\ incl_b wd_name_list (names SW_TABLE wd_suf) = true /\
  fun_b wd_name_list = true.
Proof. repeat split; vm_compute; reflexivity. Qed.

Theorem wd_parse_exact s : Forall byte s -> utf8_valid s = true ->
  exists r, wd_from_str s = Val r /\ forall w, r = Some w <-> In (map lowerb s, w) wd_name_list.
Proof.
  intros Hb Hv. destruct wd_tables_ok as [K [S [F [I1 [I2 _]]]]].
  destruct (scan2_spec SW_TABLE wd_sufR wd_suf K (suf_ok_b_spec _ _ _ S) (fun_b_spec _ F) s Hb Hv) as [r0 [E0 H0]].
  unfold wd_from_str. rewrite sol_weekday_scan2, E0. cbv [bind].
  assert (G : forall w, r0 = POk ([], w) <-> In (map lowerb s, w) wd_name_list).
  { intros w. rewrite H0. split; [apply incl_b_spec; exact I1|apply incl_b_spec; exact I2]. }
  destruct r0 as [[[|x rest] v]|e].
  - exists (Some v). split; [reflexivity|]. intros w. rewrite <- G. split; intros E; injection E as ->; reflexivity.
  - exists None. split; [reflexivity|]. intros w. rewrite <- G. split; discriminate.
  - exists None. split; [reflexivity|]. intros w. rewrite <- G. split; discriminate.
Qed.

(* Month *)
Definition mo_sufR (v : Z) : R bytes := index LONG_MONTH_SUFFIXES (as_usize v).
Definition mo_suf (v : Z) : bytes := nth (Z.to_nat v) LONG_MONTH_SUFFIXES [].
Lemma sol_month_scan2 s : short_or_long_month0 s = scan2 SM_TABLE mo_sufR s.
Proof.
  unfold short_or_long_month0, short_month0, scan2, mo_sufR, SM_LEN, SM_IDX, SM_BITS, SM_REST.
  destruct (blen s <? 3); [reflexivity|].
  destruct (short_key [0; 1; 2] [32; 32; 32] s) as [key| |]; cbv [bind]; try reflexivity.
  destruct (assoc_bytes key SM_TABLE) as [v|]; [|reflexivity].
  destruct (str_from s 3) as [rest| |]; reflexivity.
Qed.
(* month0 -> Month through the table of `impl FromStr for Month` *)
Definition mo_names_m : list (bytes * Z) :=
  flat_map (fun nv => match lookup (snd nv) MONTH_OF_MONTH0 with Some m => [(fst nv, m)] | None => [] end)
           (names SM_TABLE mo_suf).
Lemma mo_names_m_In n m :
  In (n, m) mo_names_m <-> exists v, In (n, v) (names SM_TABLE mo_suf) /\ lookup v MONTH_OF_MONTH0 = Some m.
Proof.
  unfold mo_names_m. rewrite in_flat_map. split.
  - intros [[n' v] [Hin H]]. cbn [fst snd] in H. destruct (lookup v MONTH_OF_MONTH0) as [m'|] eqn:E; [|destruct H].
    destruct H as [H|[]]. injection H as <- <-. exists v. split; assumption.
  - intros [v [Hin E]]. exists (n, v). split; [exact Hin|]. cbn [fst snd]. rewrite E. left. reflexivity.
Qed.
Lemma mo_tables_ok :
  forallb (fun kv => key_ok (fst kv)) SM_TABLE = true /\ suf_ok_b SM_TABLE mo_sufR mo_suf = true /\
  fun_b SM_TABLE = true /\
  incl_b mo_names_m mo_name_list = true /\ incl_b mo_name_list mo_names_m = true /\
  fun_b mo_name_list = true.
Proof. repeat split; vm_compute; reflexivity. Qed.

Theorem mo_parse_exact s : Forall byte s -> utf8_valid s = true ->
  exists r, mo_from_str s = Val r /\ forall m, r = Some m <-> In (map lowerb s, m) mo_name_list.
Proof.
  intros Hb Hv. destruct mo_tables_ok as [K [S [F [I1 [I2 _]]]]].
  destruct (scan2_spec SM_TABLE mo_sufR mo_suf K (suf_ok_b_spec _ _ _ S) (fun_b_spec _ F) s Hb Hv) as [r0 [E0 H0]].
  unfold mo_from_str. rewrite sol_month_scan2, E0. cbv [bind].
  assert (G : forall m, In (map lowerb s, m) mo_name_list <->
                        exists v, r0 = POk ([], v) /\ lookup v MONTH_OF_MONTH0 = Some m).
  { intros m. split.
    - intros Hin. apply (incl_b_spec _ _ I2) in Hin. apply mo_names_m_In in Hin. destruct Hin as [v [Hin E]].
      exists v. split; [apply H0; exact Hin|exact E].
    - intros [v [E1 E2]]. apply (incl_b_spec _ _ I1). apply mo_names_m_In. exists v. split; [apply H0; exact E1|exact E2]. }
  destruct r0 as [[[|x rest] v]|e].
  - exists (lookup v MONTH_OF_MONTH0). split; [reflexivity|]. intros m. rewrite G. split.
    + intros E. exists v. split; [reflexivity|exact E].
    + intros [v' [E1 E2]]. injection E1 as <-. exact E2.
  - exists None. split; [reflexivity|]. intros m. rewrite G. split; [discriminate|]. intros [v' [E1 _]]. discriminate.
  - exists None. split; [reflexivity|]. intros m. rewrite G. split; [discriminate|]. intros [v' [E1 _]]. discriminate.
Qed.

(* no string denotes two different values; so the results above are determined *)
Lemma wd_names_functional : forall n v v', In (n, v) wd_name_list -> In (n, v') wd_name_list -> v = v'.
Proof. apply fun_b_spec. apply wd_tables_ok. Qed.
Lemma mo_names_functional : forall n v v', In (n, v) mo_name_list -> In (n, v') mo_name_list -> v = v'.
Proof. apply fun_b_spec. apply mo_tables_ok. Qed.

(* completeness in the form "every spelling of a name in any ASCII case parses to its value"
   (such a string is ASCII, hence valid UTF-8) *)
Lemma ascii_utf8 : forall s, Forall ascii7 s -> utf8_valid s = true.
Proof. intros s H. rewrite <- (app_nil_r s). rewrite (utf8_valid_app s [] H). reflexivity. Qed.
Definition all_letters_b (l : list (bytes * Z)) : bool := forallb (fun nv => forallb letter_b (fst nv)) l.
Lemma name_lists_letters : all_letters_b wd_name_list = true /\ all_letters_b mo_name_list = true.
Proof. split; vm_compute; reflexivity. Qed.
Lemma names_ascii L n v s : all_letters_b L = true -> In (n, v) L -> map lowerb s = n -> Forall ascii7 s.
Proof.
  unfold all_letters_b. rewrite forallb_forall. intros HL Hin E. specialize (HL _ Hin). cbn [fst] in HL.
  apply lower_letters_ascii. rewrite E. apply forallb_letters. exact HL.
Qed.
Theorem wd_parse_complete s n w : Forall byte s -> In (n, w) wd_name_list -> map lowerb s = n ->
  wd_from_str s = Val (Some w).
Proof.
  intros Hb Hin E.
  pose proof (names_ascii _ _ _ s (proj1 name_lists_letters) Hin E) as Ha.
  destruct (wd_parse_exact s Hb (ascii_utf8 s Ha)) as [r [Er Hr]]. rewrite Er. f_equal.
  apply Hr. rewrite E. exact Hin.
Qed.
Theorem mo_parse_complete s n m : Forall byte s -> In (n, m) mo_name_list -> map lowerb s = n ->
  mo_from_str s = Val (Some m).
Proof.
  intros Hb Hin E.
  pose proof (names_ascii _ _ _ s (proj2 name_lists_letters) Hin E) as Ha.
  destruct (mo_parse_exact s Hb (ascii_utf8 s Ha)) as [r [Er Hr]]. rewrite Er. f_equal.
  apply Hr. rewrite E. exact Hin.
Qed.

(* names and parsing are mutually inverse on values *)
Definition Ro_is (a : R (option Z)) (b : Z) : bool := Ro_eqb a (Some b).
Definition wd_name_rt_b (w : Z) : bool :=
  match wd_display w with Val nm => Ro_is (wd_from_str nm) w | _ => false end.
Definition mo_name_rt_b (m : Z) : bool :=
  match mo_name m with Val nm => Ro_is (mo_from_str nm) m && Ro_is (mo_from_str (firstn 3 nm)) m | _ => false end.
Lemma name_rt_sweep : forall_range wd_name_rt_b 0 7 = true /\ forall_range mo_name_rt_b 0 12 = true.
Proof. split; vm_compute; reflexivity. Qed.
Theorem wd_name_roundtrip w : wd w -> exists nm, wd_display w = Val nm /\ wd_from_str nm = Val (Some w).
Proof.
  unfold wd. intros Hw. pose proof (forall_range_spec _ _ _ (proj1 name_rt_sweep) w ltac:(lia)) as H.
  unfold wd_name_rt_b in H. destruct (wd_display w) as [nm| |]; try discriminate.
  exists nm. split; [reflexivity|]. apply Ro_eqb_spec. exact H.
Qed.
Theorem mo_name_roundtrip m : mo m ->
  exists nm, mo_name m = Val nm /\ mo_from_str nm = Val (Some m) /\ mo_from_str (firstn 3 nm) = Val (Some m).
Proof.
  unfold mo. intros Hm. pose proof (forall_range_spec _ _ _ (proj2 name_rt_sweep) m ltac:(lia)) as H.
  unfold mo_name_rt_b in H. destruct (mo_name m) as [nm| |]; try discriminate.
  apply andb_prop in H. destruct H as [H1 H2].
  exists nm. split; [reflexivity|]. split; apply Ro_eqb_spec; assumption.
Qed.
(* the names the code prints are the names of the specification lists *)
Lemma printed_names_sweep :
  forall_range (fun w => match wd_display w with Val nm => existsb (pair_eqb (map lowerb nm, w)) wd_name_list | _ => false end) 0 7 = true /\
  forall_range (fun m => match mo_name m with Val nm => existsb (pair_eqb (map lowerb nm, m)) mo_name_list | _ => false end) 0 12 = true.
Proof. split; vm_compute; reflexivity. Qed.

Lemma ex_values : wd 6 /\ mo 11 /\ wset 85 /\ members 85 = [0; 2; 4; 6] /\ cyc_members 85 3 = [4; 6; 0; 2] /\
  Forall byte (B"wEdNeSdAy") /\ utf8_valid (B"wEdNeSdAy") = true /\ wd_from_str (B"wEdNeSdAy") = Val (Some 2) /\
  mo_from_str (B"sept") = Val None /\
  it_run [true; false; true] 85 3 = Val [(Some 4, 3); (Some 2, 2); (Some 6, 1)].
Proof.
  unfold wd, mo, wset. repeat split; try lia; try (vm_compute; reflexivity).
  repeat constructor; unfold byte; lia.
Qed.
