(** C13 -- GROUNDWORK for Fixed::RFC2822 through parse_internal (no end-to-end theorem here).
    The arm of parse_item is [Model.Parse.parse_rfc2822]; C11 proves its theorems about the
    transcription [Model.Rfc2822.parse_rfc2822] (other constant tables, the year rule as three
    arms, helper functions for the optional parts).  This file proves the glue an equality of the two
    transcriptions needs (error / setter conversions, the comment loops, the year rule on every value
    scan::number can return); the equality itself and the round trip are NOT proved: see the closing
    comment for what remains. *)
From Coq Require Import ZArith List Bool Lia ZifyBool.
From V Require Import Base.Int Base.IntLemmas Base.IO Base.Utf8 Gen.ScanTables Gen.ParseTable Gen.Rfc2822Consts
  Model.Scan Model.Items Model.Parse Proofs.Utf8 Proofs.Scan.
From V Require Model.Parsed Model.Rfc2822.
Import ListNotations.
Open Scope Z_scope.
Ltac Zify.zify_post_hook ::= Z.to_euclidean_division_equations.
Module R2 := Model.Rfc2822.

(** * the two transcriptions of parse_rfc2822 coincide *)
Lemma pe_eq e : R2.pe e = perr_of e.
Proof. destruct e; reflexivity. Qed.
Lemma pset_eq r : R2.pset r = setq r.
Proof. destruct r as [p [u|e]]; cbn [R2.pset setq]; rewrite ?pe_eq; reflexivity. Qed.
Lemma comments_eq : forall fuel s, R2.comments_loop fuel s = skip_comments fuel s.
Proof.
  induction fuel as [|f IH]; intros s; [reflexivity|]. cbn [R2.comments_loop skip_comments].
  destruct (comment_2822 s) as [[[s' u]|e]| |]; cbn [bind]; auto.
Qed.
Lemma year_rule_eq yl y : 0 <= y <= i64_max ->
  rfc2822_year P2822_YEAR_RULES yl y = R2.year_rule yl y.
Proof.
  intros Hy. unfold P2822_YEAR_RULES, R2.year_rule. cbn [rfc2822_year].
  unfold R2_YEAR_ARM1_LEN, R2_YEAR_ARM1_LO, R2_YEAR_ARM1_HI, R2_YEAR_ARM1_ADD, R2_YEAR_ARM2_LEN, R2_YEAR_ARM2_LO,
    R2_YEAR_ARM2_HI, R2_YEAR_ARM2_ADD, R2_YEAR_ARM3_LEN, R2_YEAR_ARM3_ADD.
  destruct ((yl =? 2) && (0 <=? y) && (y <=? 49)); [reflexivity|].
  destruct ((yl =? 2) && (50 <=? y) && (y <=? 99)); [reflexivity|].
  unfold i64_max in Hy.
  replace ((yl =? 3) && (0 <=? y) && (y <=? 9223372036854775807)) with (yl =? 3) by lia. reflexivity.
Qed.

(* the value scan::number returns is a non-negative i64 *)
Lemma number_loop_range s : forall l i min max n r v, 0 <= n <= i64_max ->
  number_loop s l i min max n = Val (POk (r, v)) -> 0 <= v <= i64_max.
Proof.
  assert (Hend : forall max n r v, 0 <= n <= i64_max -> number_end s max n = Val (POk (r, v)) -> 0 <= v <= i64_max).
  { intros max n r v Hn H. unfold number_end in H. destruct (str_from s (Z.min max (blen s))); cbn [bind pok] in H; try discriminate.
    injection H as _ <-. exact Hn. }
  induction l as [|c l IH]; intros i min max n r v Hn H; cbn [number_loop] in H; [exact (Hend _ _ _ _ Hn H)|].
  destruct (max <=? i); [exact (Hend _ _ _ _ Hn H)|].
  destruct (is_ascii_digit c) eqn:Ec; cbn [negb] in H.
  - unfold checked_mul, checked_add, chko in H.
    destruct (in_i64 (n * 10)) eqn:E1; [|discriminate].
    pose proof (digit_range c Ec) as Hc.
    unfold sub_u8 in H. rewrite chk_in in H by (unfold in_u8, in_range, u8_max; lia). cbn [bind] in H.
    destruct (in_i64 (n * 10 + (c - 48))) eqn:E2; [|discriminate].
    apply (IH _ _ _ _ _ _) in H; [exact H|].
    unfold in_i64, in_range, i64_min, i64_max in *. lia.
  - destruct (i <? min); [discriminate|]. destruct (str_from s i); cbn [bind pok] in H; try discriminate.
    injection H as _ <-. exact Hn.
Qed.
Lemma number_range s min max r v : number s min max = Val (POk (r, v)) -> 0 <= v <= i64_max.
Proof.
  unfold number, rassert. destruct (min <=? max); cbn [bind]; [|discriminate].
  destruct (blen s <? min); [discriminate|]. apply number_loop_range. unfold i64_max. lia.
Qed.

(* NOT PROVED HERE (time): the statement
     forall p s, Model.Parse.parse_rfc2822 p s = Model.Rfc2822.parse_rfc2822 p s
   (the arm of parse_item for Fixed::RFC2822 is the function C11 reasons about).  The glue it needs is
   above: the two error / setter conversions agree ([pe_eq], [pset_eq]), the comment loops agree
   ([comments_eq]), the year rule given as a table agrees with the three-arm rule on every value
   scan::number can return ([year_rule_eq] with [number_range]); all digit-count constants of
   Gen/ParseTable.v and Gen/Rfc2822Consts.v are equal numerals.  What remains is the walk through the
   twenty-odd binds of the two bodies (same scanners in the same order).  With it, the round trip of
   [IFixed F_RFC2822] follows from C11's recognise_standard / scan_complete, the field resolution
   lemmas of Proofs/C11Resolve.v (to_naive_date_fields, to_naive_time_fields, rf_time_fields),
   Proofs.C13DateTime.resolve_ndt and Proofs.C09Zoned.back, plus the writer equation
   Model.Format.write_rfc2822 = the text of C11's writer_shape (not proved either). *)
