(** C13 — the bridge between the formatter Model/Format.v and the reader Model/Parse.v:
    the text [write_items] produces is the concatenation of the item renderings, so whenever the
    renderings pass the decision procedure [unambiguous_b] the reader takes the text back and
    performs exactly the recognised field writes. *)
From Coq Require Import ZArith List Bool Lia.
From V Require Import Base.Int Base.IO Base.Utf8 Model.Scan Model.Items Gen.ParseTable Model.Parse
  Proofs.Utf8 Proofs.Scan Proofs.C13 Proofs.C13Reads.
From V Require Model.Parsed Model.Format.
Import ListNotations.
Open Scope Z_scope.

Definition renders (a : Model.Format.fmt_args) (it : Item) (t : bytes) : Prop :=
  Model.Format.format_item a it = Model.Format.fok t.

Lemma write_items_texts a : forall items texts acc,
  Forall2 (renders a) items texts ->
  Model.Format.write_items a items acc = Model.Format.fok (acc ++ concat texts).
Proof.
  induction items as [|it r IH]; intros texts acc H; inversion H as [|? t ? ts Ht Hr]; subst.
  - cbn [concat Model.Format.write_items]. rewrite app_nil_r. reflexivity.
  - cbn [Model.Format.write_items concat]. unfold renders in Ht. rewrite Ht.
    unfold Model.Format.fseq, Model.Format.fok. cbn [bind]. rewrite (IH ts (acc ++ t) Hr).
    rewrite <- app_assoc. reflexivity.
Qed.

Lemma text_of_combine : forall (items : list Item) (texts : list bytes),
  List.length items = List.length texts -> text_of (combine items texts) = concat texts.
Proof.
  induction items as [|it r IH]; intros [|t ts] H; cbn in H; try discriminate; [reflexivity|].
  cbn [combine text_of concat]. f_equal. apply IH. lia.
Qed.
Lemma map_fst_combine : forall (items : list Item) (texts : list bytes),
  List.length items = List.length texts -> map fst (combine items texts) = items.
Proof.
  induction items as [|it r IH]; intros [|t ts] H; cbn in H; try discriminate; [reflexivity|].
  cbn [combine map fst]. f_equal. apply IH. lia.
Qed.
Lemma F2_length {X Y} (R : X -> Y -> Prop) l1 l2 : Forall2 R l1 l2 -> List.length l1 = List.length l2.
Proof. induction 1; cbn; congruence. Qed.

(** format, then parse with the same items *)
Theorem format_parse_partial a items texts ws p :
  Forall2 (renders a) items texts ->
  unambiguous_ws_b (combine items texts) [] = Some ws ->
  Model.Format.write_items a items [] = Model.Format.fok (concat texts) /\
  parse p (concat texts) items = run_writes ws p.
Proof.
  intros Hr Hu. split; [exact (write_items_texts a items texts [] Hr)|].
  pose proof (F2_length _ _ _ Hr) as Hl.
  pose proof (unambiguous_ws_parse (combine items texts) ws p Hu) as H.
  rewrite text_of_combine, map_fst_combine in H by exact Hl. exact H.
Qed.

(** the same with a tail after the text (parse_and_remainder) *)
Theorem format_parse_remainder_partial a items texts tail ws p :
  Forall2 (renders a) items texts ->
  unambiguous_ws_b (combine items texts) tail = Some ws ->
  parse_and_remainder p (concat texts ++ tail) items = (let+ p' := run_writes ws p in pok (p', tail)).
Proof.
  intros Hr Hu. pose proof (F2_length _ _ _ Hr) as Hl.
  pose proof (unambiguous_ws_parse_and_remainder (combine items texts) tail ws p Hu) as H.
  rewrite text_of_combine, map_fst_combine in H by exact Hl. exact H.
Qed.

(** * The reader's table: every Numeric item with its width, sign flag and setter.  The Timestamp
    entry is signed (the repaired code, /repo f453be6): %s reads back the sign it prints. *)
Definition numeric_table_expected (spec : Numeric) : Z * bool * Z :=
  match spec with
  | N_Year => (4, true, 0) | N_YearDiv100 => (2, false, 1) | N_YearMod100 => (2, false, 2)
  | N_IsoYear => (4, true, 3) | N_IsoYearDiv100 => (2, false, 4) | N_IsoYearMod100 => (2, false, 5)
  | N_Quarter => (1, false, 6) | N_Month => (2, false, 7) | N_Day => (2, false, 13)
  | N_WeekFromSun => (2, false, 8) | N_WeekFromMon => (2, false, 9) | N_IsoWeek => (2, false, 10)
  | N_NumDaysFromSun => (1, false, 100) | N_WeekdayFromMon => (1, false, 101) | N_Ordinal => (3, false, 12)
  | N_Hour => (2, false, 16) | N_Hour12 => (2, false, 15) | N_Minute => (2, false, 17)
  | N_Second => (2, false, 18) | N_Nanosecond => (9, false, 19)
  | N_Timestamp => (u64_max, true, 20)
  end.
Lemma numeric_table spec : numeric_entry spec = Some (numeric_table_expected spec).
Proof. destruct spec; reflexivity. Qed.

(** %s: a negative timestamp as printed ("-" and digits) is read back as that negative number *)
Theorem timestamp_negative_inverse p pad ds rest :
  ascii_ws pad -> forallb is_ascii_digit ds = true -> 1 <= blen ds <= u64_max ->
  not_digit_start rest = true -> utf8_valid rest = true -> digits_value ds 0 <= i64_max ->
  parse_numeric p (pad ++ 45 :: ds ++ rest) N_Timestamp =
  (let+ p' := setq (Model.Parsed.set_timestamp p (- digits_value ds 0)) in pok (p', rest)).
Proof.
  intros Hpad Hd Hl Hf Hv Hval.
  exact (parse_numeric_signed p N_Timestamp u64_max 20 pad true ds rest (numeric_table N_Timestamp) Hpad Hd Hl Hf Hv Hval).
Qed.

Example timestamp_minus_one :
  parse Model.Parsed.parsed_new [45; 49] [INumeric N_Timestamp PadNone] =
  setq (Model.Parsed.set_timestamp Model.Parsed.parsed_new (-1)).
Proof. reflexivity. Qed.

(** * Family membership decided by computation: render every item with the formatter, then run
    the decision procedure on the renderings *)
Fixpoint render_texts (a : Model.Format.fmt_args) (items : list Item) : option (list bytes) :=
  match items with
  | [] => Some []
  | it :: r =>
      match Model.Format.format_item a it, render_texts a r with
      | Val (Some t), Some ts => Some (t :: ts)
      | _, _ => None
      end
  end.
Definition family_member (a : Model.Format.fmt_args) (items : list Item) (tail : bytes) : option (list write) :=
  match render_texts a items with
  | Some texts => unambiguous_ws_b (combine items texts) tail
  | None => None
  end.
Lemma render_texts_renders a : forall items texts, render_texts a items = Some texts -> Forall2 (renders a) items texts.
Proof.
  induction items as [|it r IH]; intros texts H; cbn [render_texts] in H.
  - injection H as <-. constructor.
  - destruct (Model.Format.format_item a it) as [[t|]| |] eqn:Ef; try discriminate.
    destruct (render_texts a r) as [ts|] eqn:Er; [|discriminate]. injection H as <-.
    constructor; [exact Ef|exact (IH ts eq_refl)].
Qed.

Theorem family_member_sound a items ws p : family_member a items [] = Some ws ->
  exists text, Model.Format.write_items a items [] = Model.Format.fok text /\
               parse p text items = run_writes ws p.
Proof.
  unfold family_member. destruct (render_texts a items) as [texts|] eqn:Er; [|discriminate]. intros Hu.
  exists (List.concat texts). exact (format_parse_partial a items texts ws p (render_texts_renders a items texts Er) Hu).
Qed.
Theorem family_member_remainder_sound a items tail ws p : family_member a items tail = Some ws ->
  exists text, Model.Format.write_items a items [] = Model.Format.fok text /\
               parse_and_remainder p (text ++ tail) items = (let+ p' := run_writes ws p in pok (p', tail)).
Proof.
  unfold family_member. destruct (render_texts a items) as [texts|] eqn:Er; [|discriminate]. intros Hu.
  exists (List.concat texts). pose proof (render_texts_renders a items texts Er) as Hr. split.
  - exact (write_items_texts a items texts [] Hr).
  - exact (format_parse_remainder_partial a items texts tail ws p Hr Hu).
Qed.
