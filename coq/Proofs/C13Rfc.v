(** C13 -- the composite item Fixed::RFC3339 (format string "%+") through parse_internal END TO END for
    DateTime<FixedOffset> (Fixed::RFC2822: groundwork only, Proofs/C13Rfc2822.v).

    RFC 3339 / "%+".  The formatter arm is write_rfc3339 (SecondsFormat::AutoSi, use_z = false:
    [Model.Format.write_rfc3339_auto]); the reader arm is parse_rfc3339_relaxed (Model/Parse.v), NOT
    the strict parse_rfc3339 of C10: parse_internal over DATE_ITEMS, one separator byte, parse_internal
    over TIME_ITEMS, then "UTC" or an offset.  The text the writer produces is byte for byte the
    Debug text of the value (signed year outside 0..=9999, 0/3/6/9 fraction digits, second 60 for a
    leap second, +hh:mm), so the reader side is the C09 run over the relaxed item lists
    ([Proofs.C09Date.run_date], [Proofs.C09Time.run_time], [Proofs.C09Zoned.tail_scan]); this file
    adds the writer equation and exposes the field record and the EMPTY remainder, which
    [parse] (unlike FromStr, which trims) requires.  Nothing is lost: the value comes back exactly,
    nanoseconds and leap second included, for every year of the range. *)
From Coq Require Import ZArith List Bool Lia ZifyBool String.
From V Require Import Base.Int Base.IntLemmas Base.IO Base.Utf8 Base.Lift Gen.DateTables Gen.TextForms Gen.ParseTable
  Model.Scan Model.Items Model.Rfc3339 Model.Parse Model.FromStr Model.Show Model.DateTime Spec.Gregorian
  Proofs.Utf8 Proofs.Scan Proofs.Decimal Proofs.C09Parse Proofs.C09Show Proofs.C09Time Proofs.C09Date Proofs.C09DateTime
  Proofs.C09Zoned.
From V Require Model.Parsed Model.Date Model.Time Model.Format Model.Strftime Proofs.C14 Proofs.Date Proofs.C08 Proofs.C04
  Proofs.C12 Proofs.C13Time Proofs.C13View Proofs.C13DateTime Proofs.C13Zoned.
Import ListNotations.
Open Scope Z_scope.
Ltac Zify.zify_post_hook ::= Z.to_euclidean_division_equations.

Import Model.Parsed.
Import Proofs.Date.

(** * core::fmt zero padding in the two vocabularies *)
Lemma pad_dec w n : 1 <= w -> 0 <= n ->
  repeat 48 (Z.to_nat (w - blen (dec_nonneg n))) ++ dec_nonneg n = fmt_zero_pad w n.
Proof.
  intros Hw Hn. unfold fmt_zero_pad. destruct (dec_nonneg_low n Hn) as (k & Hk & -> & Hb & Hl).
  rewrite low_digits_blen. destruct (n <? 10 ^ w) eqn:E.
  - assert (Hkw : Z.of_nat k <= w).
    { destruct Hl as [->|Hl]; [lia|].
      destruct (Z_le_gt_dec (Z.of_nat k) w) as [H|H]; [exact H|exfalso].
      assert (10 ^ w <= 10 ^ (Z.of_nat k - 1)) by (apply Z.pow_le_mono_r; lia). lia. }
    replace (Z.to_nat w) with ((Z.to_nat w - k) + k)%nat by lia.
    rewrite low_digits_pad by lia. f_equal. f_equal. lia.
  - assert (Hkw : w < Z.of_nat k).
    { destruct (Z_lt_le_dec w (Z.of_nat k)) as [H|H]; [exact H|exfalso].
      assert (10 ^ Z.of_nat k <= 10 ^ w) by (apply Z.pow_le_mono_r; lia). lia. }
    replace (Z.to_nat (w - Z.of_nat k)) with 0%nat by lia. reflexivity.
Qed.

Lemma fmt_int_unsigned w x : 1 <= w -> 0 <= x -> Model.Format.fmt_int false true w x = fmt_zero_pad w x.
Proof.
  intros Hw Hx. unfold Model.Format.fmt_int. replace (x <? 0) with false by lia. rewrite Z.abs_eq by lia.
  change (blen []) with 0. rewrite Z.sub_0_r. cbn [app]. apply pad_dec; assumption.
Qed.
Lemma fmt_int_plus5 y : Model.Format.fmt_int true true 5 y = (if y <? 0 then 45 else 43) :: fmt_zero_pad 4 (Z.abs y).
Proof.
  unfold Model.Format.fmt_int. pose proof (Z.abs_nonneg y) as Ha.
  destruct (y <? 0); change (blen [45]) with 1; change (blen [43]) with 1; cbn [app]; f_equal;
    replace (5 - 1 - blen (dec_nonneg (Z.abs y))) with (4 - blen (dec_nonneg (Z.abs y))) by lia;
    apply pad_dec; lia.
Qed.

(** * the writer's pieces *)
Definition wh_low_ok (v : Z) : bool := Proofs.C12.fres_eqb (Model.Format.write_hundreds v) (low_digits 2 v).
Lemma wh_low_sweep : forall_range wh_low_ok 0 100 = true.
Proof. vm_compute. reflexivity. Qed.
Lemma wh_low v : 0 <= v < 100 -> Model.Format.write_hundreds v = Model.Format.fok (low_digits 2 v).
Proof. intros H. apply Proofs.C12.fres_eqb_eq. exact (forall_range_spec _ _ _ wh_low_sweep v ltac:(lia)). Qed.

Definition year4_low_ok (y : Z) : bool :=
  Proofs.C12.fres_eqb (Model.Format.fseq (Model.Format.write_hundreds (as_u8 (Z.quot y 100))) (fun a =>
                       Model.Format.fseq (Model.Format.write_hundreds (as_u8 (Z.rem y 100))) (fun b => Model.Format.fok (a ++ b))))
                      (low_digits 4 y).
Lemma year4_low_sweep : forall_range year4_low_ok 0 10000 = true.
Proof. vm_compute. reflexivity. Qed.

Definition off_low_ok (m : Z) : bool :=
  Proofs.C12.fres_eqb (Model.Format.offset_format (Model.Items.mk_of OP_Minutes C_Colon false PadZero) (60 * m)) (off_txt (60 * m)).
Lemma off_low_sweep : forall_range off_low_ok (-1439) 2879 = true.
Proof. vm_compute. reflexivity. Qed.
Lemma off_low off : -86400 < off < 86400 -> off mod 60 = 0 ->
  Model.Format.offset_format (Model.Items.mk_of OP_Minutes C_Colon false PadZero) off = Model.Format.fok (off_txt off).
Proof.
  intros Hr Hm. assert (E : off = 60 * (off / 60)) by lia.
  pose proof (forall_range_spec _ _ _ off_low_sweep (off / 60) ltac:(lia)) as H. unfold off_low_ok in H.
  rewrite <- E in H. apply Proofs.C12.fres_eqb_eq. exact H.
Qed.

Lemma frac_low n : 0 <= n < 1000000000 ->
  (if n =? 0 then []
   else if Z.rem n 1000000 =? 0 then 46 :: Model.Format.fmt_int false true 3 (Z.quot n 1000000)
   else if Z.rem n 1000 =? 0 then 46 :: Model.Format.fmt_int false true 6 (Z.quot n 1000)
   else 46 :: Model.Format.fmt_int false true 9 n) = frac_part n.
Proof.
  intros Hn. unfold frac_part.
  replace (Z.rem n 1000000) with (n mod 1000000) by lia.
  replace (Z.rem n 1000) with (n mod 1000) by lia.
  replace (Z.quot n 1000000) with (n / 1000000) by lia.
  replace (Z.quot n 1000) with (n / 1000) by lia.
  rewrite !fmt_int_unsigned by lia.
  rewrite (fmt_zero_pad_low 3), (fmt_zero_pad_low 6), (fmt_zero_pad_low 9)
    by (try (change (10 ^ 3) with 1000); try (change (10 ^ 6) with 1000000); try (change (10 ^ 9) with 1000000000); lia).
  reflexivity.
Qed.

(** * write_rfc3339 (AutoSi, no Z) writes the Debug text of the wall clock followed by +hh:mm *)
Lemma write_rfc3339_text y o d s f off : repr y o d -> 0 <= s < 86400 -> 0 <= f < 2000000000 ->
  -86400 < off < 86400 -> off mod 60 = 0 ->
  Model.Format.write_rfc3339_auto (mk_ndt d (Time.mk_time s f)) off false =
  Model.Format.fok (ndt_txt 84 y (C08.month_of y o) (C08.day_of y o) s f ++ off_txt off).
Proof.
  intros H Hs Hf Ho Hm.
  destruct (C08.repr_md y o d H) as (Ey & _ & Em & Ed & _).
  destruct (repr_ymd y o d H) as (Hmb & Hdb & _ & _ & Hyb).
  unfold Model.Format.write_rfc3339_auto. cbn [nd_date nd_time]. rewrite Ey, Em, Ed.
  assert (EY : (if (0 <=? y) && (y <=? 9999)
                then Model.Format.fseq (Model.Format.write_hundreds (as_u8 (Z.quot y 100))) (fun a =>
                     Model.Format.fseq (Model.Format.write_hundreds (as_u8 (Z.rem y 100))) (fun b => Model.Format.fok (a ++ b)))
                else Model.Format.fok (Model.Format.fmt_int true true 5 y)) = Model.Format.fok (year_txt y)).
  { unfold year_txt. destruct ((0 <=? y) && (y <=? 9999)) eqn:E.
    - apply Proofs.C12.fres_eqb_eq. exact (forall_range_spec _ _ _ year4_low_sweep y ltac:(lia)).
    - rewrite fmt_int_plus5. reflexivity. }
  rewrite EY. cbv [Model.Format.fseq bind Model.Format.fok].
  rewrite !as_u8_small by lia. rewrite !wh_low by lia. cbv [Model.Format.fseq bind Model.Format.fok].
  unfold Time.hms, Time.udiv, Time.urem, Time.nanosecond. cbn [Time.tsecs Time.tfrac]. cbv beta iota zeta.
  replace (Z.quot (Z.quot s 60) 60) with (s / 3600) by lia.
  replace (Z.rem (Z.quot s 60) 60) with (s / 60 mod 60) by lia.
  replace (Z.rem s 60) with (s mod 60) by lia.
  unfold ndt_txt, date_txt, time_txt. cbv zeta.
  destruct (1000000000 <=? f) eqn:E.
  - replace (f >=? 1000000000) with true by lia.
    unfold add_u32, sub_u32. rewrite !chk_in by (unfold in_u32, in_range, u32_max; lia). cbv [bind].
    rewrite !as_u8_small by lia. rewrite !wh_low by lia. cbv [Model.Format.fseq bind Model.Format.fok].
    rewrite frac_low by lia. rewrite off_low by assumption. cbv [Model.Format.fseq bind Model.Format.fok].
    f_equal. f_equal. repeat (rewrite <- app_assoc; cbn [app]). reflexivity.
  - replace (f >=? 1000000000) with false by lia. cbv [bind].
    rewrite !as_u8_small by lia. rewrite !wh_low by lia. cbv [Model.Format.fseq bind Model.Format.fok].
    rewrite frac_low by lia. rewrite off_low by assumption. cbv [Model.Format.fseq bind Model.Format.fok].
    rewrite Z.add_0_r.
    f_equal. f_equal. repeat (rewrite <- app_assoc; cbn [app]). reflexivity.
Qed.

(** * parse_rfc3339_relaxed on that text: the field record, and NOTHING left over *)
Lemma relaxed_reads_text yl ol dl sl fu off p0 :
  repr yl ol dl -> time_dom (Time.mk_time sl fu) -> -86400 < off < 86400 -> off mod 60 = 0 ->
  p0 = with_time (with_ymd parsed_new yl (C08.month_of yl ol) (C08.day_of yl ol)) sl fu ->
  parse_rfc3339_relaxed parsed_new (ndt_txt 84 yl (C08.month_of yl ol) (C08.day_of yl ol) sl fu ++ off_txt off) =
    pok (pput F_offset (Some off) p0, []) /\
  to_naive_date (pput F_offset (Some off) p0) = Val (Ok dl) /\
  to_naive_time (pput F_offset (Some off) p0) = Val (Ok (Time.mk_time sl fu)) /\
  p_timestamp (pput F_offset (Some off) p0) = None.
Proof.
  intros Hl Hlt Hoff Hmin ->.
  destruct (repr_ymd yl ol dl Hl) as (Hm & Hd & Hv & Hmk & Hy).
  pose proof (off_txt_stop off) as Hstop.
  set (p1 := with_time (with_ymd parsed_new yl (C08.month_of yl ol) (C08.day_of yl ol)) sl fu).
  destruct (with_time_date (with_ymd parsed_new yl (C08.month_of yl ol) (C08.day_of yl ol)) sl fu)
    as (_ & _ & _ & _ & _ & _ & _ & _ & _ & _ & _ & _ & _ & _ & E15 & E16). fold p1 in E15, E16.
  split; [|split; [|split]].
  - pose proof (parse_item_space (fun _ _ => @OutOfFuel (presult (parsed * bytes))) p1 (off_txt off) [] (off_txt_nows off)) as Hsp.
    pose proof (tail_scan_off off Hoff Hmin) as Htail.
    set (zone := off_txt off) in *. clearbody zone.
    rewrite parse_rfc3339_relaxed_unfold.
    unfold ndt_txt, inner_items, P_RELAXED_DATE_ITEMS, P_RELAXED_TIME_ITEMS.
    destruct fresh_new as [Fd Ft].
    repeat (rewrite <- app_assoc; cbn [app]).
    rewrite run_date; try lia; [|exact Fd|].
    2:{ destruct Hstop as (Ha & _). ascii_tac; unfold time_txt; ascii_tac; exact Ha. }
    rewrite parse_items_nil. cbn [pbind bind pok].
    change (existsb (Z.eqb 84) P_RELAXED_SEPARATORS) with true. cbv iota.
    rewrite str_from_1.
    2:{ apply utf8_valid_starts_ok, utf8_ascii. destruct Hstop as (Ha & _). unfold time_txt. ascii_tac. exact Ha. }
    cbn [plift pbind bind pok].
    rewrite run_time; [|apply time_fresh_ymd; exact Ft|exact Hlt|exact Hstop].
    cbn [parse_items]. fold p1. rewrite Hsp. cbn [pbind bind pok].
    rewrite Htail. cbn [pbind bind pok].
    unfold set_offset. rewrite set_checked_fresh; [|exact E16|unfold i32_min, i32_max; lia].
    reflexivity.
  - pose proof (to_naive_date_dt yl ol dl sl fu Hl) as Hd0. fold p1 in Hd0. exact Hd0.
  - pose proof (to_naive_time_with_time (with_ymd parsed_new yl (C08.month_of yl ol) (C08.day_of yl ol)) sl fu Hlt eq_refl) as Ht0.
    fold p1 in Ht0. exact Ht0.
  - exact E15.
Qed.

(** * Fixed::RFC3339 through format_with_items / parse / Parsed::to_datetime: the value itself *)
Theorem rfc3339_item_roundtrip yu ou z : Proofs.C13Zoned.valid_dtz yu ou z ->
  exists a text,
    Model.Format.fa_of_dtz z = Val a /\
    Model.Format.write_items a [IFixed F_RFC3339] [] = Model.Format.fok text /\
    (let+ p := parse parsed_new text [IFixed F_RFC3339] in pr_of (to_datetime p)) = pok z.
Proof.
  intros (Hr & Hvt & Ho & Hm & Hw). destruct z as [[du [su fu]] off].
  cbn [dz_utc dz_off nd_date nd_time Time.tsecs] in *.
  set (n := dn_of_yo yu ou + (su + off) / 86400) in *.
  set (yl := fst (yo_of_dn n)). set (ol := snd (yo_of_dn n)). set (dl := Proofs.C08AddDays.date_of_dn n).
  set (sl := (su + off) mod 86400).
  pose proof (local_repr yu ou su off Hw) as Hlr. fold n yl ol dl in Hlr.
  pose proof (Proofs.C13Zoned.valid_time_dom su fu Hvt) as Htd.
  pose proof (local_of yu ou du su fu off Hr Htd Ho Hm Hw) as Hlocal. fold n dl sl in Hlocal.
  pose proof (local_time_dom yu ou su fu off Htd Hm) as Hltd. fold sl in Hltd.
  assert (Hsl : 0 <= sl < 86400) by (unfold sl; lia).
  assert (Hfu : 0 <= fu < 2000000000) by (destruct Htd as [[_ H] _]; exact H).
  eexists. eexists. split; [|split].
  - unfold Model.Format.fa_of_dtz. rewrite Hlocal. cbn [bind dz_off].
    rewrite Proofs.C12.fixed_offset_display_minutes by assumption. reflexivity.
  - cbn [Model.Format.write_items Model.Format.format_item Model.Format.format_fixed Model.Format.fa_date Model.Format.fa_time
         Model.Format.fa_off nd_date nd_time].
    rewrite (write_rfc3339_text yl ol dl sl fu off Hlr Hsl Hfu Ho Hm). reflexivity.
  - cbn [app].
    destruct (relaxed_reads_text yl ol dl sl fu off _ Hlr Hltd Ho Hm eq_refl) as (Hread & Ed & Et & Ets).
    unfold parse, parse_internal, parse_end. cbn [parse_items parse_item parse_fixed].
    rewrite Hread. cbn [pbind bind pok is_empty].
    set (p2 := pput F_offset (Some off) _) in *.
    unfold pr_of, to_datetime. change (p_offset p2) with (Some off). cbn [ebind bind].
    rewrite (Proofs.C13DateTime.resolve_ndt yl ol dl (Time.mk_time sl fu) p2 off Hlr Hsl Ho Ed Et Ets).
    cbn [ebind bind].
    assert (Ee : east_opt off = Some off) by (apply Proofs.C04.east_opt_some_iff; split; [reflexivity|exact Ho]).
    rewrite Ee. cbn [ok_or ebind bind].
    pose proof (back yu ou du su fu off Hr Htd Ho Hm Hw) as Hback. fold n dl sl in Hback.
    rewrite Hback. reflexivity.
Qed.

(** DateTime::parse_from_str(&z.format("%+").to_string(), "%+") = Ok(z) *)
Definition rfc3339_format : bytes := [37; 43].   (* %+ *)
Theorem rfc3339_parse_from_str yu ou z : Proofs.C13Zoned.valid_dtz yu ou z ->
  exists a text,
    Model.Format.fa_of_dtz z = Val a /\
    Model.Format.delayed_display a (Model.Strftime.sf_new rfc3339_format) = Model.Format.fok text /\
    dt_parse_from_str text rfc3339_format = pok z.
Proof.
  intros Hv. destruct (rfc3339_item_roundtrip yu ou z Hv) as (a & text & Ha & Hw & Hp).
  assert (Ht : Model.Strftime.sf_take (S (Model.Strftime.sf_bound rfc3339_format)) (Model.Strftime.sf_new rfc3339_format) [] =
               Val (Some [IFixed F_RFC3339]) /\ (List.length [IFixed F_RFC3339] < S (Model.Strftime.sf_bound rfc3339_format))%nat).
  { split; [vm_compute; reflexivity|cbn; lia]. }
  destruct Ht as [Ht Hl].
  destruct (Proofs.C13View.sf_lift _ _ a text Ht Hl Hw) as [Hd Hps].
  exists a, text. split; [exact Ha|]. split; [exact Hd|]. unfold dt_parse_from_str. rewrite Hps. exact Hp.
Qed.

(* a leap second with nanoseconds west of Greenwich; a year before 0000 (signed, five characters) *)
Example rfc3339_roundtrip_inhabited :
  Proofs.C13Zoned.valid_dtz 2016 366 (mk_dtz (mk_ndt (Proofs.C08Sweeps.mkdate 2016 366) (Time.mk_time 86399 1500000000)) (-34200)) /\
  dt_parse_from_str (B"2016-12-31T14:29:60.500-09:30") rfc3339_format =
    pok (mk_dtz (mk_ndt (Proofs.C08Sweeps.mkdate 2016 366) (Time.mk_time 86399 1500000000)) (-34200)) /\
  Proofs.C13Zoned.valid_dtz (-1) 1 (mk_dtz (mk_ndt (Proofs.C08Sweeps.mkdate (-1) 1) (Time.mk_time 0 123456000)) 3600) /\
  dt_parse_from_str (B"-0001-01-01T01:00:00.123456+01:00") rfc3339_format =
    pok (mk_dtz (mk_ndt (Proofs.C08Sweeps.mkdate (-1) 1) (Time.mk_time 0 123456000)) 3600).
Proof.
  split; [exact Proofs.C13Zoned.dtz_roundtrip_inhabited|]. split; [vm_compute; reflexivity|]. split; [|vm_compute; reflexivity].
  split; [repeat split; reflexivity|]. split; [split; [cbn; lia|left; cbn; lia]|].
  split; [cbn; lia|]. split; reflexivity.
Qed.
