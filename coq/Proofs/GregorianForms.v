(** Spec-internal lemmas, part 2: month/day <-> ordinal, the year-month-day form and the ISO week
    form as bijections with day numbers, the number of representable dates. *)
From Coq Require Import ZArith List Bool Lia ZifyBool.
From V Require Import Base.Lift Spec.Gregorian Proofs.C08Date.
From V Require Export Proofs.Gregorian.
Import ListNotations.
Open Scope Z_scope.
Ltac Zify.zify_post_hook ::= Z.to_euclidean_division_equations.

(** month/day <-> ordinal, by enumeration of both year lengths *)
Definition md_fwd_ok (i : Z) : bool :=
  let leap := i / 512 =? 1 in let o := i mod 512 in
  if (1 <=? o) && (o <=? (if leap then 366 else 365)) then
    let '(m, d) := md_of_ordinal leap o in
    (1 <=? m) && (m <=? 12) && (1 <=? d) && (d <=? days_in_month leap m) && (ordinal_of_md leap m d =? o)
  else true.
Lemma md_fwd_sweep : forall_range md_fwd_ok 0 1024 = true.
Proof. vm_cast_no_check (eq_refl true). Qed.
Definition md_bwd_ok (i : Z) : bool :=
  let leap := i / 512 =? 1 in let m := (i mod 512) / 32 in let d := i mod 32 in
  if (1 <=? m) && (m <=? 12) && (1 <=? d) && (d <=? days_in_month leap m) then
    let o := ordinal_of_md leap m d in
    (1 <=? o) && (o <=? (if leap then 366 else 365))
    && (let '(m', d') := md_of_ordinal leap o in (m' =? m) && (d' =? d))
  else true.
Lemma md_bwd_sweep : forall_range md_bwd_ok 0 1024 = true.
Proof. vm_cast_no_check (eq_refl true). Qed.

Lemma md_of_ordinal_valid (l : bool) o : 1 <= o <= (if l then 366 else 365) ->
  let '(m, d) := md_of_ordinal l o in
  1 <= m <= 12 /\ 1 <= d <= days_in_month l m /\ ordinal_of_md l m d = o.
Proof.
  intros Ho. pose proof (forall_range_spec _ _ _ md_fwd_sweep ((if l then 1 else 0) * 512 + o)
    ltac:(destruct l; lia)) as S. unfold md_fwd_ok in S.
  replace (((if l then 1 else 0) * 512 + o) / 512 =? 1) with l in S by (destruct l; lia).
  replace (((if l then 1 else 0) * 512 + o) mod 512) with o in S by (destruct l; lia).
  replace ((1 <=? o) && (o <=? (if l then 366 else 365))) with true in S by lia.
  destruct (md_of_ordinal l o) as [m d]. lia.
Qed.
Lemma ordinal_of_md_valid (l : bool) m d : 1 <= m <= 12 -> 1 <= d <= days_in_month l m ->
  1 <= ordinal_of_md l m d <= (if l then 366 else 365) /\ md_of_ordinal l (ordinal_of_md l m d) = (m, d).
Proof.
  intros Hm Hd. pose proof (days_in_month_bounds l m) as B.
  pose proof (forall_range_spec _ _ _ md_bwd_sweep ((if l then 1 else 0) * 512 + (m * 32 + d))
    ltac:(destruct l; lia)) as S. unfold md_bwd_ok in S.
  replace (((if l then 1 else 0) * 512 + (m * 32 + d)) / 512 =? 1) with l in S by (destruct l; lia).
  replace ((((if l then 1 else 0) * 512 + (m * 32 + d)) mod 512) / 32) with m in S by (destruct l; lia).
  replace (((if l then 1 else 0) * 512 + (m * 32 + d)) mod 32) with d in S by (destruct l; lia).
  replace ((1 <=? m) && (m <=? 12) && (1 <=? d) && (d <=? days_in_month l m)) with true in S by lia.
  destruct (md_of_ordinal l (ordinal_of_md l m d)) as [m' d'].
  split; [lia|]. f_equal; lia.
Qed.

(** the year-month-day form is a bijection with day numbers *)
Theorem ymd_of_dn_valid n :
  let '(y, m, d) := ymd_of_dn n in valid_ymd y m d = true /\ dn_of_ymd y m d = n.
Proof.
  unfold ymd_of_dn. destruct (yo_of_dn_valid n) as [Hv Hd]. destruct (yo_of_dn n) as [y o]. cbn [fst snd] in *.
  unfold valid_yo, days_in_year in Hv.
  pose proof (md_of_ordinal_valid (is_leap y) o ltac:(destruct (is_leap y); lia)) as M.
  destruct (md_of_ordinal (is_leap y) o) as [m d]. unfold valid_ymd, dn_of_ymd.
  destruct M as (M1 & M2 & M3). rewrite M3. split; [lia|exact Hd].
Qed.
Theorem ymd_of_dn_of_ymd y m d : valid_ymd y m d = true -> ymd_of_dn (dn_of_ymd y m d) = (y, m, d).
Proof.
  intros Hv. unfold valid_ymd in Hv.
  destruct (ordinal_of_md_valid (is_leap y) m d ltac:(lia) ltac:(lia)) as [Ho Hmd].
  unfold ymd_of_dn, dn_of_ymd. rewrite yo_of_dn_of_yo by (unfold valid_yo, days_in_year; destruct (is_leap y); lia).
  rewrite Hmd. reflexivity.
Qed.
Corollary dn_of_ymd_inj y m d y' m' d' : valid_ymd y m d = true -> valid_ymd y' m' d' = true ->
  dn_of_ymd y m d = dn_of_ymd y' m' d' -> (y, m, d) = (y', m', d').
Proof. intros H1 H2 E. rewrite <- (ymd_of_dn_of_ymd _ _ _ H1), <- (ymd_of_dn_of_ymd _ _ _ H2), E. reflexivity. Qed.
Corollary dn_of_isoywd_inj y w wd y' w' wd' : valid_isoywd y w wd = true -> valid_isoywd y' w' wd' = true ->
  dn_of_isoywd y w wd = dn_of_isoywd y' w' wd' -> (y, w, wd) = (y', w', wd').
Proof.
  intros H1 H2 E. destruct (iso_of_isoywd _ _ _ H1) as [A1 B1]. destruct (iso_of_isoywd _ _ _ H2) as [A2 B2].
  rewrite E in A1, B1. congruence.
Qed.
Lemma dn_count : DN_MAX - DN_MIN + 1 = 191491529.
Proof. reflexivity. Qed.
