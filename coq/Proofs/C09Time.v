(** C09 -- NaiveTime: the printed text parses back, for every valid time whose leap-second
    fraction sits on second 59. *)
From Coq Require Import ZArith List Bool Lia ZifyBool String.
From V Require Import Base.Int Base.IntLemmas Base.IO Base.Utf8 Gen.TextForms Gen.ParseTable Model.Scan Model.Items
  Model.Rfc3339 Model.Parse Model.FromStr Model.Show Proofs.Utf8 Proofs.Scan Proofs.Decimal Proofs.C09Parse Proofs.C09Show.
From V Require Model.Parsed Model.Time Proofs.C14.
Import ListNotations.
Open Scope Z_scope.
Ltac Zify.zify_post_hook ::= Z.to_euclidean_division_equations.

Import Model.Parsed.

Lemma ascii_low k n : ascii (low_digits k n).
Proof. apply ascii_digits, low_digits_digits. Qed.
Lemma ascii_frac sub : ascii (frac_part sub).
Proof.
  unfold frac_part. destruct (sub =? 0); [constructor|].
  destruct (sub mod 1000000 =? 0); [constructor; [lia|apply ascii_low]|].
  destruct (sub mod 1000 =? 0); constructor; try lia; apply ascii_low.
Qed.
Lemma ascii_cons c s : 0 <= c <= 127 -> ascii s -> ascii (c :: s).
Proof. intros. constructor; assumption. Qed.
Ltac ascii_tac := repeat first [apply ascii_app | apply ascii_low | apply ascii_frac | apply ascii_cons; [lia|] | constructor ].

(* the time items: hour, minute, second (0..60), fraction, on a fresh time part of [p] *)
Definition time_fresh (p : parsed) : Prop :=
  pget F_hour_div_12 p = None /\ pget F_hour_mod_12 p = None /\ pget F_minute p = None /\
  pget F_second p = None /\ pget F_nanosecond p = None.

Definition with_hm (p : parsed) (h m : Z) : parsed :=
  pput F_minute (Some m) (pput F_hour_mod_12 (Some (h mod 12)) (pput F_hour_div_12 (Some (h / 12)) p)).
Definition with_frac (p : parsed) (sub : Z) : parsed :=
  if sub =? 0 then p else pput F_nanosecond (Some sub) p.

Lemma set_hour_code p h : pget F_hour_div_12 p = None -> pget F_hour_mod_12 p = None -> 0 <= h <= 23 ->
  set_by_code 16 p h = pok (pput F_hour_mod_12 (Some (h mod 12)) (pput F_hour_div_12 (Some (h / 12)) p)).
Proof. intros H1 H2 Hr. unfold set_by_code. cbn [Z.eqb Pos.eqb]. rewrite set_hour_fresh by assumption. reflexivity. Qed.
Lemma set_minute_code p m : pget F_minute p = None -> 0 <= m <= 59 ->
  set_by_code 17 p m = pok (pput F_minute (Some m) p).
Proof.
  intros H1 Hr. unfold set_by_code. cbn [Z.eqb Pos.eqb]. unfold set_minute.
  rewrite set_checked_fresh by assumption. rewrite C14.as_u32_small by (unfold u32_max; lia). reflexivity.
Qed.
Lemma set_second_code p s : pget F_second p = None -> 0 <= s <= 60 ->
  set_by_code 18 p s = pok (pput F_second (Some s) p).
Proof.
  intros H1 Hr. unfold set_by_code. cbn [Z.eqb Pos.eqb]. unfold set_second.
  rewrite set_checked_fresh by assumption. rewrite C14.as_u32_small by (unfold u32_max; lia). reflexivity.
Qed.

Lemma parse_items_nil rel p s : parse_items rel p s [] = pok (p, s).
Proof. reflexivity. Qed.
(* hour ':' minute *)
Lemma run_hour_minute rel p h m rest items : time_fresh p -> 0 <= h <= 23 -> 0 <= m <= 59 -> ascii rest ->
  parse_items rel p (low_digits 2 h ++ 58 :: low_digits 2 m ++ rest)
    (INumeric N_Hour PadZero :: Space [] :: Literal [58] :: INumeric N_Minute PadZero :: items) =
  parse_items rel (with_hm p h m) rest items.
Proof.
  intros (F1 & F2 & F3 & F4 & F5) Hh Hm Hr.
  rewrite (step_num2 rel p h _ _ N_Hour PadZero 16 (pput F_hour_mod_12 (Some (h mod 12)) (pput F_hour_div_12 (Some (h / 12)) p)) eq_refl ltac:(lia));
    [| |apply set_hour_code; assumption].
  2:{ apply utf8_ascii. ascii_tac. exact Hr. }
  rewrite step_space by (cbn; unfold is_whitespace; lia).
  rewrite step_lit by (apply utf8_ascii; ascii_tac; exact Hr).
  rewrite (step_num2 rel _ m _ _ N_Minute PadZero 17 (with_hm p h m) eq_refl ltac:(lia)); [reflexivity|apply utf8_ascii; exact Hr|].
  unfold with_hm.
  apply set_minute_code; [|lia]. rewrite !C14.pget_pput_other by discriminate. exact F3.
Qed.
(* second [fraction] followed by [rest] (which starts neither with a digit nor with '.') *)
Definition frac_stop (rest : bytes) : Prop :=
  ascii rest /\ not_digit_start rest = true /\ starts_with_byte rest 46 = false.
Lemma frac_stop_nil : frac_stop [].
Proof. repeat split. constructor. Qed.
Lemma run_second_frac rel p s sub rest items : pget F_second p = None -> pget F_nanosecond p = None ->
  0 <= s <= 60 -> 0 <= sub < 1000000000 -> frac_stop rest ->
  parse_items rel p (low_digits 2 s ++ frac_part sub ++ rest) (INumeric N_Second PadZero :: IFixed F_Nanosecond :: items) =
  parse_items rel (with_frac (pput F_second (Some s) p) sub) rest items.
Proof.
  intros F4 F5 Hs Hsub (Ha & Hnd & Hdot).
  rewrite (step_num2 rel p s _ _ N_Second PadZero 18 (pput F_second (Some s) p) eq_refl ltac:(lia)); [| |apply set_second_code; assumption].
  2:{ apply utf8_ascii. apply ascii_app; [apply ascii_frac|exact Ha]. }
  assert (F5' : pget F_nanosecond (pput F_second (Some s) p) = None).
  { rewrite C14.pget_pput_other by discriminate. exact F5. }
  assert (Hv : utf8_valid rest = true) by (apply utf8_ascii; exact Ha).
  unfold frac_part, with_frac.
  destruct (sub =? 0) eqn:E0; [cbn [app]; apply step_nano_none; exact Hdot|].
  destruct (sub mod 1000000 =? 0) eqn:E1.
  { cbn [app]. rewrite step_nano_digits; try reflexivity; try assumption; try lia.
    change (10 ^ (9 - Z.of_nat 3)) with 1000000. replace (sub / 1000000 * 1000000) with sub by lia. reflexivity. }
  destruct (sub mod 1000 =? 0) eqn:E2.
  { cbn [app]. rewrite step_nano_digits; try reflexivity; try assumption; try lia.
    change (10 ^ (9 - Z.of_nat 6)) with 1000. replace (sub / 1000 * 1000) with sub by lia. reflexivity. }
  cbn [app]. rewrite step_nano_digits; try reflexivity; try assumption; try lia.
  change (10 ^ (9 - Z.of_nat 9)) with 1. rewrite Z.mul_1_r. reflexivity.
Qed.

(* resolution of the time fields *)
Lemma to_naive_time_fields p h m s sub :
  p_hour_div_12 p = Some (h / 12) -> p_hour_mod_12 p = Some (h mod 12) -> p_minute p = Some m ->
  p_second p = Some s -> p_nanosecond p = (if sub =? 0 then None else Some sub) ->
  0 <= h <= 23 -> 0 <= m <= 59 -> 0 <= s <= 60 -> 0 <= sub < 1000000000 ->
  to_naive_time p = Val (Ok (Time.mk_time (h * 3600 + m * 60 + (if s =? 60 then 59 else s))
                                           ((if s =? 60 then 1000000000 else 0) + sub))).
Proof.
  intros P1 P2 P3 P4 P5 Hh Hm Hs Hsub.
  rewrite (C14.to_naive_time_complete p (h / 12) (h mod 12) m).
  - unfold C14.time_of_fields. rewrite P4, P5. cbn [unwrap_or].
    replace ((h / 12 * 12 + h mod 12) * 3600) with (h * 3600) by lia.
    destruct (sub =? 0) eqn:E; cbn [unwrap_or]; [replace sub with 0 by lia|]; reflexivity.
  - unfold C14.time_fields_ok. rewrite P1, P2, P3, P4, P5. cbn [unwrap_or].
    repeat split; try lia; try (destruct (sub =? 0) eqn:E; cbn [unwrap_or]; lia).
    intros _. discriminate.
Qed.

Definition time_dom (t : Time.ntime) : Prop :=
  tvalid t /\ (Time.tfrac t < 1000000000 \/ Time.tsecs t mod 60 = 59).

Theorem time_roundtrip_text t : time_dom t ->
  naive_time_from_str (time_txt (Time.tsecs t) (Time.tfrac t)) = Val (POk t).
Proof.
  intros [[Hs Hf] Hl]. destruct t as [s f]. cbn [Time.tsecs Time.tfrac] in *.
  unfold naive_time_from_str, time_txt, parse_and_remainder, parse_internal.
  set (leap := 1000000000 <=? f). set (sub := if leap then f - 1000000000 else f).
  set (S := s mod 60 + (if leap then 1 else 0)).
  assert (Hsub : 0 <= sub < 1000000000) by (unfold sub, leap; destruct (1000000000 <=? f) eqn:E; lia).
  assert (HS : 0 <= S <= 60) by (unfold S, leap; destruct (1000000000 <=? f) eqn:E; lia).
  unfold FS_HOUR_AND_MINUTE, FS_SECOND_AND_NANOS, FS_TRAILING_WHITESPACE. cbn [app].
  assert (Hfresh : time_fresh parsed_new) by (repeat split).
  rewrite (run_hour_minute _ parsed_new (s / 3600) (s / 60 mod 60) _ [] Hfresh); try lia.
  2:{ ascii_tac. }
  rewrite parse_items_nil. cbn [pbind bind pok].
  rewrite step_space by (cbn; unfold is_whitespace; lia).
  rewrite step_lit by (apply utf8_ascii; ascii_tac).
  rewrite <- (app_nil_r (frac_part sub)).
  rewrite (run_second_frac _ _ S sub); try reflexivity; try lia; [|apply frac_stop_nil].
  rewrite step_space by exact I. rewrite parse_items_nil. cbn [pbind bind pok].
  unfold parse, parse_end, parse_internal. rewrite step_space by exact I.
  rewrite parse_items_nil. cbn [pbind bind pok is_empty]. unfold pr_of.
  rewrite (to_naive_time_fields _ (s / 3600) (s / 60 mod 60) S sub); try lia; try reflexivity.
  - cbn [bind pres_of]. unfold S, sub, leap. destruct (1000000000 <=? f) eqn:E.
    + assert (s mod 60 = 59) by lia. replace (s mod 60 + 1 =? 60) with true by lia.
      do 3 f_equal; lia.
    + rewrite Z.add_0_r. replace (s mod 60 =? 60) with false by lia. do 3 f_equal; lia.
  - unfold with_frac. destruct (sub =? 0); reflexivity.
  - unfold with_frac. destruct (sub =? 0); reflexivity.
  - unfold with_frac. destruct (sub =? 0); reflexivity.
  - unfold with_frac. destruct (sub =? 0); reflexivity.
  - unfold with_frac. destruct (sub =? 0); reflexivity.
Qed.

Theorem time_roundtrip t : time_dom t ->
  exists s, to_text (time_debug [] t) = Val s /\ to_text (time_display [] t) = Val s /\
            naive_time_from_str s = Val (POk t).
Proof.
  intros H. exists (time_txt (Time.tsecs t) (Time.tfrac t)).
  unfold time_display. rewrite time_debug_text by exact (proj1 H). cbn [app].
  repeat split. apply time_roundtrip_text. exact H.
Qed.

(** * the full time part "hh:mm:ss[.f]" inside a longer text (NaiveDateTime, DateTime) *)
Definition with_time (p : parsed) (s f : Z) : parsed :=
  let leap := 1000000000 <=? f in
  let sub := if leap then f - 1000000000 else f in
  with_frac (pput F_second (Some (s mod 60 + (if leap then 1 else 0))) (with_hm p (s / 3600) (s / 60 mod 60))) sub.

Lemma run_time rel p s f rest items : time_fresh p -> time_dom (Time.mk_time s f) -> frac_stop rest ->
  parse_items rel p (time_txt s f ++ rest)
    (INumeric N_Hour PadZero :: Space [] :: Literal [58] :: INumeric N_Minute PadZero :: Space [] :: Literal [58]
     :: INumeric N_Second PadZero :: IFixed F_Nanosecond :: items) =
  parse_items rel (with_time p s f) rest items.
Proof.
  intros Hfresh [[Hs Hf] Hl] Hstop. cbn [Time.tsecs Time.tfrac] in *.
  unfold time_txt, with_time.
  set (leap := 1000000000 <=? f). set (sub := if leap then f - 1000000000 else f).
  set (S := s mod 60 + (if leap then 1 else 0)).
  assert (Hsub : 0 <= sub < 1000000000) by (unfold sub, leap; destruct (1000000000 <=? f) eqn:E; lia).
  assert (HS : 0 <= S <= 60) by (unfold S, leap; destruct (1000000000 <=? f) eqn:E; lia).
  destruct Hstop as (Ha & Hstop').
  repeat (rewrite <- app_assoc; cbn [app]).
  rewrite (run_hour_minute rel p (s / 3600) (s / 60 mod 60)); try assumption; try lia.
  2:{ ascii_tac. exact Ha. }
  rewrite step_space by (cbn; unfold is_whitespace; lia).
  rewrite step_lit by (apply utf8_ascii; ascii_tac; exact Ha).
  destruct Hfresh as (F1 & F2 & F3 & F4 & F5).
  rewrite (run_second_frac rel _ S sub rest); try lia; [reflexivity| | |split; assumption].
  - unfold with_hm. rewrite !C14.pget_pput_other by discriminate. exact F4.
  - unfold with_hm. rewrite !C14.pget_pput_other by discriminate. exact F5.
Qed.

Lemma to_naive_time_with_time p s f : time_dom (Time.mk_time s f) -> p_nanosecond p = None ->
  to_naive_time (with_time p s f) = Val (Ok (Time.mk_time s f)).
Proof.
  intros [[Hs Hf] Hl] Hnano. cbn [Time.tsecs Time.tfrac] in *. unfold with_time.
  set (leap := 1000000000 <=? f). set (sub := if leap then f - 1000000000 else f).
  set (S := s mod 60 + (if leap then 1 else 0)).
  assert (Hsub : 0 <= sub < 1000000000) by (unfold sub, leap; destruct (1000000000 <=? f) eqn:E; lia).
  assert (HS : 0 <= S <= 60) by (unfold S, leap; destruct (1000000000 <=? f) eqn:E; lia).
  rewrite (to_naive_time_fields _ (s / 3600) (s / 60 mod 60) S sub); try lia.
  - unfold S, sub, leap. destruct (1000000000 <=? f) eqn:E.
    + assert (s mod 60 = 59) by lia. replace (s mod 60 + 1 =? 60) with true by lia.
      do 3 f_equal; lia.
    + rewrite Z.add_0_r. replace (s mod 60 =? 60) with false by lia. do 3 f_equal; lia.
  - unfold with_frac. destruct (sub =? 0); reflexivity.
  - unfold with_frac. destruct (sub =? 0); reflexivity.
  - unfold with_frac. destruct (sub =? 0); reflexivity.
  - unfold with_frac. destruct (sub =? 0); reflexivity.
  - unfold with_frac. destruct (sub =? 0); [exact Hnano|reflexivity].
Qed.
(* the date fields are untouched by the time items *)
Lemma with_time_date p s f :
  p_year (with_time p s f) = p_year p /\ p_month (with_time p s f) = p_month p /\ p_day (with_time p s f) = p_day p /\
  p_year_div_100 (with_time p s f) = p_year_div_100 p /\ p_year_mod_100 (with_time p s f) = p_year_mod_100 p /\
  p_isoyear (with_time p s f) = p_isoyear p /\ p_isoyear_div_100 (with_time p s f) = p_isoyear_div_100 p /\
  p_isoyear_mod_100 (with_time p s f) = p_isoyear_mod_100 p /\ p_quarter (with_time p s f) = p_quarter p /\
  p_week_from_sun (with_time p s f) = p_week_from_sun p /\ p_week_from_mon (with_time p s f) = p_week_from_mon p /\
  p_isoweek (with_time p s f) = p_isoweek p /\ p_weekday (with_time p s f) = p_weekday p /\
  p_ordinal (with_time p s f) = p_ordinal p /\ p_timestamp (with_time p s f) = p_timestamp p /\
  p_offset (with_time p s f) = p_offset p.
Proof.
  unfold with_time, with_frac. destruct ((if 1000000000 <=? f then f - 1000000000 else f) =? 0); repeat split.
Qed.
