(** C04 — judge acceptance for the ops added by the API-coverage sweep: on every case of the
    judge's domain (well-formed date-times / naive readings in their canonical encoding, offsets
    strictly inside one day) the independent judge (Judge/C04.v) answers JOk on the model's output.
    Assembled from the functional theorems of Proofs/C04Ops.v. *)
From Coq Require Import ZArith List Bool Lia ZifyBool String.
From V Require Import Base.Int Base.IntLemmas Base.IO Gen.DateTimeConsts Spec.Gregorian Model.TimeDelta.
From V Require Model.Date Model.Time Judge.C04 Proofs.C01Holds Proofs.C02Date.
From V Require Import Model.DateTime Model.C04 Proofs.C04 Proofs.C04Date Proofs.C04Wide Proofs.C04Ops.
Import ListNotations.
Open Scope Z_scope.
Ltac Zify.zify_post_hook ::= Z.to_euclidean_division_equations.

Module J := V.Judge.C04.
Definition jrefl := C01Holds.judge_eq_refl.

(** * codecs: the model's and the judge's decoding of canonical encodings *)
Lemma nominal_fields d : nominal d ->
  year_in_range (Date.d_year d) = true /\ valid_yo (Date.d_year d) (Date.d_ordinal d) = true /\
  in_i32 (Date.d_year d) = true /\ in_u32 (Date.d_ordinal d) = true /\
  Date.from_yo_opt (Date.d_year d) (Date.d_ordinal d) = Val (Some d).
Proof. exact (C02Date.fields_hold d). Qed.

Lemma dec_ndt_enc u : ndt_ok u -> dec_ndt (enc_ndt u) = Some u.
Proof.
  intros [Hd [Hs Hf]]. destruct (nominal_fields _ Hd) as [_ [_ [Hy [Ho Hfrom]]]].
  unfold enc_ndt, dec_ndt, dec_date. rewrite Hy, Ho, Hfrom. cbn [andb].
  unfold Time.dec_time.
  replace ((0 <=? Time.tsecs (nd_time u)) && (Time.tsecs (nd_time u) <? 86400) &&
           (0 <=? Time.tfrac (nd_time u)) && (Time.tfrac (nd_time u) <? 2000000000)) with true by lia.
  destruct u as [d [s f]]. reflexivity.
Qed.
Lemma m_off off : off_ok off -> arg_off (VInt off) = Some off.
Proof.
  intros H. unfold arg_off. unfold off_ok in H.
  replace (in_i32 off) with true by (symmetry; solve_in).
  apply east_opt_some_iff. split; [reflexivity|exact H].
Qed.
Lemma dec_dtz_enc a : dtz_ok a -> dec_dtz (enc_dtz a) = Some a.
Proof.
  intros [Hu Ho]. pose proof (dec_ndt_enc _ Hu) as E. unfold enc_ndt in E.
  unfold enc_dtz, dec_dtz. rewrite E.
  assert (Ee : east_opt (dz_off a) = Some (dz_off a)) by (apply east_opt_some_iff; split; [reflexivity|exact Ho]).
  rewrite Ee. destruct a. reflexivity.
Qed.

Lemma j_off off : off_ok off -> J.off_of_arg (VInt off) = Some off.
Proof. intros H. unfold J.off_of_arg, J.off_ok. unfold off_ok in H. replace ((-86400 <? off) && (off <? 86400)) with true by lia. reflexivity. Qed.
Lemma j_secs u : ndt_ok u ->
  J.secs_of_naive (Date.d_year (nd_date u)) (Date.d_ordinal (nd_date u)) (Time.tsecs (nd_time u)) (Time.tfrac (nd_time u))
  = Some (usecs u, frac u).
Proof.
  intros [Hd [Hs Hf]]. destruct (nominal_fields _ Hd) as [Hy [Ho _]].
  unfold J.secs_of_naive, J.frac_ok, J.DAY. rewrite Hy, Ho. cbn [andb].
  replace ((0 <=? Time.tsecs (nd_time u)) && (Time.tsecs (nd_time u) <? 86400) &&
           ((0 <=? Time.tfrac (nd_time u)) && (Time.tfrac (nd_time u) <? 2000000000))) with true by lia.
  reflexivity.
Qed.
Lemma j_naive u : ndt_ok u -> J.naive_of_arg (enc_ndt u) = Some (usecs u, frac u).
Proof. intros H. unfold enc_ndt, J.naive_of_arg. apply j_secs. exact H. Qed.
Lemma j_z a : dtz_ok a -> J.z_of_arg (enc_dtz a) = Some (usecs (dz_utc a), frac (dz_utc a), dz_off a).
Proof.
  intros [Hu Ho]. unfold enc_dtz, J.z_of_arg. rewrite (j_secs _ Hu). unfold J.off_ok. unfold off_ok in Ho.
  replace ((-86400 <? dz_off a) && (dz_off a <? 86400)) with true by lia. reflexivity.
Qed.
(** the model's encoding of a well-formed date-time is the judge's rendering of its instant *)
Lemma enc_dtz_j a : dtz_ok a -> enc_dtz a = J.enc_z (usecs (dz_utc a)) (frac (dz_utc a)) (dz_off a).
Proof.
  intros [[Hd [Hs Hf]] Ho]. destruct (nominal_fields _ Hd) as [Hy [Hv _]].
  unfold enc_dtz, J.enc_z, J.DAY, usecs, frac.
  replace ((dn (nd_date (dz_utc a)) * 86400 + Time.tsecs (nd_time (dz_utc a))) / 86400) with (dn (nd_date (dz_utc a))) by lia.
  replace ((dn (nd_date (dz_utc a)) * 86400 + Time.tsecs (nd_time (dz_utc a))) mod 86400) with (Time.tsecs (nd_time (dz_utc a))) by lia.
  unfold dn. rewrite (C08Days.yo_of_dn_of_yo _ _ Hv). reflexivity.
Qed.

(** * z.uml *)
Theorem holds_uml s : J.off_ok s = true -> J.judge B"z.uml" [VInt s] (run B"z.uml" [VInt s]) = JOk.
Proof.
  intros H. assert (Ho : off_ok s) by (unfold J.off_ok in H; unfold off_ok; lia).
  change (run B"z.uml" [VInt s]) with
    (match arg_off (VInt s) with
     | Some off => val_of_R (fun u => VTup [VInt u; VInt off]) (fo_utc_minus_local off)
     | None => VBad end).
  rewrite (m_off s Ho), (uml_spec s Ho). cbn [val_of_R].
  change (J.judge B"z.uml" [VInt s] (VTup [VInt (- s); VInt s])) with
    (if J.off_ok s then judge_eq (VTup [VInt (- s); VInt s]) (VTup [VInt (- s); VInt s]) else JSkip).
  rewrite H. apply jrefl.
Qed.

(** * z.peast / z.pwest *)
Lemma arg_i32_int z : in_i32 z = true -> arg_i32 (VInt z) = Some z.
Proof. unfold arg_i32. intros ->. reflexivity. Qed.
Theorem holds_peast s : in_i32 s = true -> J.judge B"z.peast" [VInt s] (run B"z.peast" [VInt s]) = JOk.
Proof.
  intros H.
  change (run B"z.peast" [VInt s]) with
    (match arg_i32 (VInt s) with Some s => val_of_R VInt (unwrap (east_opt s)) | None => VBad end).
  rewrite (arg_i32_int s H), peast_spec.
  match goal with |- J.judge _ _ ?out = _ =>
    change (J.judge B"z.peast" [VInt s] out) with
      (if in_i32 s then judge_eq (if J.off_ok s then VInt s else VPanic) out else JSkip) end.
  rewrite H. unfold J.off_ok. destruct ((-86400 <? s) && (s <? 86400)); apply jrefl.
Qed.
Theorem holds_pwest s : in_i32 s = true -> J.judge B"z.pwest" [VInt s] (run B"z.pwest" [VInt s]) = JOk.
Proof.
  intros H.
  change (run B"z.pwest" [VInt s]) with
    (match arg_i32 (VInt s) with Some s => val_of_R VInt (unwrap_r (west_opt s)) | None => VBad end).
  rewrite (arg_i32_int s H), (pwest_spec s H).
  match goal with |- J.judge _ _ ?out = _ =>
    change (J.judge B"z.pwest" [VInt s] out) with
      (if in_i32 s then judge_eq (if J.off_ok s then VInt (- s) else VPanic) out else JSkip) end.
  rewrite H. unfold J.off_ok. destruct ((-86400 <? s) && (s <? 86400)); apply jrefl.
Qed.

(** * z.mk *)
Theorem holds_mk off u : ndt_ok u -> off_ok off ->
  J.judge B"z.mk" [VInt off; enc_ndt u] (run B"z.mk" [VInt off; enc_ndt u]) = JOk.
Proof.
  intros Hu Ho.
  change (run B"z.mk" [VInt off; enc_ndt u]) with
    (match arg_off (VInt off), dec_ndt (enc_ndt u) with
     | Some off, Some u => let z := mk_dtz u off in VTup [enc_dtz z; VInt (dz_off z); enc_dtz z]
     | _, _ => VBad end).
  rewrite (m_off off Ho), (dec_ndt_enc u Hu). cbv zeta. cbn [dz_off].
  assert (Hz : dtz_ok (mk_dtz u off)) by (split; assumption).
  rewrite (enc_dtz_j _ Hz). cbn [dz_utc dz_off].
  match goal with |- J.judge _ _ ?out = _ =>
    change (J.judge B"z.mk" [VInt off; enc_ndt u] out) with
      (match J.off_of_arg (VInt off), J.naive_of_arg (enc_ndt u) with
       | Some off, Some (u, f) => judge_eq (VTup [J.enc_z u f off; VInt off; J.enc_z u f off]) out
       | _, _ => JSkip end) end.
  rewrite (j_off off Ho), (j_naive u Hu). apply jrefl.
Qed.

(** * z.conv *)
Theorem holds_conv a : dtz_ok a -> J.judge B"z.conv" [enc_dtz a] (run B"z.conv" [enc_dtz a]) = JOk.
Proof.
  intros Ha.
  change (run B"z.conv" [enc_dtz a]) with
    (match dec_dtz (enc_dtz a) with
     | Some x => let u := dz_into_utc x in val_of_R (fun f => VTup [enc_dtz u; enc_dtz f]) (dz_utc_into_fixed u)
     | None => VBad end).
  rewrite (dec_dtz_enc a Ha). cbv zeta.
  destruct (conv_spec a) as (E1 & _ & E3 & _ & _ & _ & E7). rewrite E3, E1. cbn [val_of_R].
  assert (Hz : dtz_ok (mk_dtz (dz_utc a) 0)) by (rewrite <- E1; apply E7; exact Ha).
  rewrite (enc_dtz_j _ Hz). cbn [dz_utc dz_off].
  match goal with |- J.judge _ _ ?out = _ =>
    change (J.judge B"z.conv" [enc_dtz a] out) with
      (match J.z_of_arg (enc_dtz a) with
       | Some (u, fr, off) => judge_eq (VTup [J.enc_z u fr 0; J.enc_z u fr 0]) out
       | None => JSkip end) end.
  rewrite (j_z a Ha). apply jrefl.
Qed.

(** * z.pcmp *)
Theorem holds_pcmp a b : dtz_ok a -> dtz_ok b ->
  J.judge B"z.pcmp" [enc_dtz a; enc_dtz b] (run B"z.pcmp" [enc_dtz a; enc_dtz b]) = JOk.
Proof.
  intros Ha Hb.
  change (run B"z.pcmp" [enc_dtz a; enc_dtz b]) with
    (match dec_dtz (enc_dtz a), dec_dtz (enc_dtz b) with
     | Some x, Some y => dz_pcmp_obs x y | _, _ => VBad end).
  rewrite (dec_dtz_enc a Ha), (dec_dtz_enc b Hb).
  match goal with |- J.judge _ _ ?out = _ =>
    change (J.judge B"z.pcmp" [enc_dtz a; enc_dtz b] out) with
      (match J.z_of_arg (enc_dtz a), J.z_of_arg (enc_dtz b) with
       | Some (u, f1, _), Some (v, f2, _) => judge_eq (J.exp_pcmp (u, f1) (v, f2)) out
       | _, _ => JSkip end) end.
  rewrite (j_z a Ha), (j_z b Hb).
  pose proof (pcmp_spec a b Ha Hb) as P. cbv zeta in P.
  set (c := cmp_lex [usecs (dz_utc a); frac (dz_utc a)] [usecs (dz_utc b); frac (dz_utc b)]) in *.
  destruct P as (P1 & P2 & _ & Pv & P3 & P4 & P5 & P6 & P7 & P8 & P9 & P10).
  unfold dz_pcmp_obs. cbv zeta. rewrite P3, P4, P5, P6, P8, P7, P2, P1.
  unfold J.exp_pcmp, J.inst_cmp, J.inst_eqb. cbn [fst snd]. fold c.
  assert (He : (usecs (dz_utc a) =? usecs (dz_utc b)) && (frac (dz_utc a) =? frac (dz_utc b)) = (c =? 0)).
  { destruct (c =? 0) eqn:E.
    - assert (c = 0) as H0 by lia. apply P10 in H0. lia.
    - destruct ((usecs (dz_utc a) =? usecs (dz_utc b)) && (frac (dz_utc a) =? frac (dz_utc b))) eqn:E2; [|reflexivity].
      assert (c = 0) by (apply P10; lia). lia. }
  rewrite He. unfold pc_lt, pc_ge. cbn [val_of_option].
  replace ((c =? 1) || (c =? 0)) with (0 <=? c) by lia.
  apply jrefl.
Qed.

(** * z.prov *)
Theorem holds_prov a : dtz_ok a -> J.judge B"z.prov" [enc_dtz a] (run B"z.prov" [enc_dtz a]) = JOk.
Proof.
  intros Ha.
  change (run B"z.prov" [enc_dtz a]) with
    (match dec_dtz (enc_dtz a) with Some x => val_of_R (fun v => v) (dz_prov x) | None => VBad end).
  rewrite (dec_dtz_enc a Ha).
  match goal with |- J.judge _ _ ?out = _ =>
    change (J.judge B"z.prov" [enc_dtz a] out) with
      (match J.z_of_arg (enc_dtz a) with
       | Some (u, fr, off) => judge_eq (J.exp_prov (u + off)) out
       | None => JSkip end) end.
  rewrite (j_z a Ha). fold (wall a).
  pose proof (prov_wallclock a Ha) as P. cbv zeta in P. unfold J.exp_prov, J.DAY.
  destruct (ymd_of_dn (wall a / 86400)) as [[y m] d]. rewrite P. cbn [val_of_R].
  destruct (iso_of_dn (wall a / 86400)) as [iy iw]. cbn [snd]. apply jrefl.
Qed.

(** * z.pfromlocal *)
Theorem holds_pfromlocal off l : ndt_ok l -> off_ok off ->
  J.judge B"z.pfromlocal" [VInt off; enc_ndt l] (run B"z.pfromlocal" [VInt off; enc_ndt l]) = JOk.
Proof.
  intros Hl Ho.
  change (run B"z.pfromlocal" [VInt off; enc_ndt l]) with
    (match arg_off (VInt off), dec_ndt (enc_ndt l) with
     | Some off, Some l => val_of_R enc_dtz (dz_from_local l off)
     | _, _ => VBad end).
  rewrite (m_off off Ho), (dec_ndt_enc l Hl).
  match goal with |- J.judge _ _ ?out = _ =>
    change (J.judge B"z.pfromlocal" [VInt off; enc_ndt l] out) with
      (match J.off_of_arg (VInt off), J.naive_of_arg (enc_ndt l) with
       | Some off, Some (l, f) => judge_eq (if J.in_rng (l - off) then J.enc_z (l - off) f off else VPanic) out
       | _, _ => JSkip end) end.
  rewrite (j_off off Ho), (j_naive l Hl).
  pose proof (pfromlocal_spec off l Hl Ho) as P.
  change (J.in_rng (usecs l - off)) with (in_rng (usecs l - off)).
  destruct (in_rng (usecs l - off)).
  - destruct P as [z [P1 [_ [P3 [P4 [P5 [P6 _]]]]]]]. rewrite P1. cbn [val_of_R].
    rewrite (enc_dtz_j z P3), P4, P5, P6. apply jrefl.
  - rewrite (proj1 P). apply jrefl.
Qed.

Lemma ops_inhabited :
  off_ok 3600 /\ J.off_ok (-86399) = true /\ in_i32 86400 = true /\
  dtz_ok z_max_p2h /\ dtz_ok z_min_m2h /\ ndt_ok NDT_MAX /\ ndt_ok NDT_MIN /\
  in_rng (usecs NDT_MAX - 3600) = true /\ in_rng (usecs NDT_MAX - -1) = false.
Proof.
  split; [unfold off_ok; lia|]. split; [reflexivity|]. split; [reflexivity|].
  split; [exact (proj1 z_max_ok)|]. split; [exact (proj1 z_min_ok)|].
  split; [exact (proj1 (proj1 z_max_ok))|]. split; [exact (proj1 (proj1 z_min_ok))|].
  split; vm_compute; reflexivity.
Qed.

(** * z.show — on the domain of the judge's documented text (C09.judge_show 3: whole-minute offset,
      leap fraction only on second 59), Display (form 0) and Debug (form 1) *)
From V Require Judge.C09 Model.Show Proofs.C04Show.
Theorem holds_show a form : dtz_ok a -> dz_off a mod 60 = 0 ->
  (frac (dz_utc a) < 1000000000 \/ Time.tsecs (nd_time (dz_utc a)) mod 60 = 59) -> form = 0 \/ form = 1 ->
  J.judge B"z.show" [enc_dtz a; VInt form] (run B"z.show" [enc_dtz a; VInt form]) = JOk.
Proof.
  intros Ha Hm Hl Hform.
  change (run B"z.show" [enc_dtz a; VInt form]) with
    (match dec_dtz (enc_dtz a) with
     | Some x =>
         if form =? 0 then val_of_R VStr (Show.to_text (Show.dtz_display false [] x))
         else if form =? 1 then val_of_R VStr (Show.to_text (Show.dtz_debug false [] x))
         else VBad
     | None => VBad end).
  rewrite (dec_dtz_enc a Ha).
  destruct (C04Show.show_wallclock a false Ha) as [S0 S1]. cbv zeta in S0, S1.
  rewrite (C04Show.zone_text_whole_minute _ Hm) in S0, S1.
  match goal with |- J.judge _ _ ?out = _ =>
    change (J.judge B"z.show" [enc_dtz a; VInt form] out) with (Judge.C09.judge_show 3 form (enc_dtz a) out) end.
  unfold Judge.C09.judge_show.
  assert (Hspec : Judge.C09.spec_text 3 form (enc_dtz a) =
    Judge.C09.InDom (Judge.C09.date_text (fst (yo_of_dn (wall a / 86400))) (snd (yo_of_dn (wall a / 86400))) ++
      (if form =? 1 then B"T" else B" ") ++ Judge.C09.time_text (wall a mod 86400) (frac (dz_utc a)) ++
      (if form =? 1 then [] else B" ") ++ Judge.C09.offset_text (dz_off a))).
  { destruct Ha as [[Hd [Hs Hf]] Ho]. destruct (nominal_fields _ Hd) as [Hy [Hv _]].
    unfold Judge.C09.spec_text, enc_dtz.
    replace (negb ((form =? 0) || (form =? 1))) with false by lia.
    change (3 =? 0) with false. change (3 =? 1) with false. change (3 =? 2) with false. change (3 =? 3) with true.
    cbn [orb andb]. cbv iota beta.
    unfold Judge.C09.valid_date, Judge.C09.valid_time, Judge.C09.valid_offset, Judge.C09.time_in_domain.
    rewrite Hy, Hv. unfold off_ok in Ho. unfold frac in Hl.
    replace ((0 <=? Time.tsecs (nd_time (dz_utc a))) && (Time.tsecs (nd_time (dz_utc a)) <? 86400) &&
             (0 <=? Time.tfrac (nd_time (dz_utc a))) && (Time.tfrac (nd_time (dz_utc a)) <? 2000000000)) with true by lia.
    replace ((-86400 <? dz_off a) && (dz_off a <? 86400)) with true by lia.
    replace ((Time.tfrac (nd_time (dz_utc a)) <? 1000000000) || (Time.tsecs (nd_time (dz_utc a)) mod 60 =? 59)) with true by lia.
    replace (dz_off a mod 60 =? 0) with true by lia.
    cbn [andb]. unfold Judge.C09.wall.
    change (dn_of_yo (Date.d_year (nd_date (dz_utc a))) (Date.d_ordinal (nd_date (dz_utc a))) * 86400 +
            Time.tsecs (nd_time (dz_utc a)) + dz_off a) with (wall a).
    destruct (yo_of_dn (wall a / 86400)) as [ly lo]. reflexivity. }
  rewrite Hspec.
  destruct Hform as [-> | ->]; cbn [Z.eqb Pos.eqb].
  - rewrite S0. cbn [val_of_R]. apply jrefl.
  - rewrite S1. cbn [val_of_R app]. apply jrefl.
Qed.

Lemma show_inhabited :
  dtz_ok z_max_p2h /\ dz_off z_max_p2h mod 60 = 0 /\ frac (dz_utc z_max_p2h) < 1000000000 /\
  in_rng (wall z_max_p2h) = false /\
  Show.to_text (Show.dtz_display false [] z_max_p2h) = Val (B"+262143-01-01 01:59:59.999999999 +02:00").
Proof.
  split; [exact (proj1 z_max_ok)|]. split; [reflexivity|]. split; [vm_compute; reflexivity|].
  split; [exact (proj2 z_max_ok)|]. vm_compute. reflexivity.
Qed.
