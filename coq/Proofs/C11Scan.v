(** C11 -- reader completeness, scanning half: every step of the specification's recogniser
    (Spec/Rfc2822.v) is matched by the corresponding scanner call of parse_rfc2822
    (Model/Rfc2822.v over Model/Scan.v). *)
From Coq Require Import ZArith List Bool Lia ZifyBool String.
From V Require Model.Date Model.Time Model.Parsed.
From V Require Import Base.Int Base.IO Base.Utf8 Gen.ScanTables Gen.Rfc2822Consts Model.Scan Model.DateTime
  Model.Rfc2822 Spec.Gregorian Spec.Rfc2822 Proofs.Utf8 Proofs.Scan Proofs.C11.
Import ListNotations.
Open Scope Z_scope.

(** * White space *)
Definition tok_start (r : bytes) : Prop := match r with c :: _ => 33 <= c <= 126 | [] => False end.
Definition wsb (c : Z) : Prop := 0 <= c <= 127 /\ is_whitespace c = true.
Lemma tok_start_stops r : tok_start r -> first_cp_fails is_whitespace r.
Proof.
  destruct r as [|c r]; [intros []|]. cbn [tok_start]. intros H. unfold first_cp_fails.
  rewrite next_code_point_ascii by lia. unfold is_whitespace. lia.
Qed.
Lemma wsb_wsp c : is_wsp c = true -> wsb c.
Proof. unfold is_wsp, wsb, is_whitespace. lia. Qed.

Lemma fws_decomp : forall n s, (List.length s <= n)%nat ->
  exists w, s = w ++ snd (skip_fws s) /\ Forall wsb w /\ (fst (skip_fws s) = true -> w <> []) /\ (fst (skip_fws s) = false -> w = []).
Proof.
  induction n as [|n IH]; intros s Hn.
  { destruct s; [|cbn in Hn; lia]. exists []. cbn. repeat split; auto; discriminate. }
  destruct s as [|c r]. { exists []. cbn. repeat split; auto; discriminate. }
  cbn [skip_fws]. cbn [List.length] in Hn. destruct (is_wsp c) eqn:Ec.
  - cbn [fst snd]. destruct (IH r ltac:(lia)) as (w & Hw & Hf & _ & _).
    exists (c :: w). split; [cbn [app]; f_equal; exact Hw|]. split; [constructor; [apply wsb_wsp; exact Ec|exact Hf]|].
    split; [discriminate|discriminate].
  - destruct r as [|c2 [|c3 r']]; try (exists []; cbn; repeat split; auto; discriminate).
    destruct ((c =? 13) && (c2 =? 10) && is_wsp c3) eqn:E.
    + cbn [fst snd]. cbn [List.length] in Hn. destruct (IH r' ltac:(lia)) as (w & Hw & Hf & _ & _).
      exists (c :: c2 :: c3 :: w). split; [cbn [app]; do 3 f_equal; exact Hw|].
      split; [|split; discriminate].
      apply andb_prop in E. destruct E as [E E3]. apply andb_prop in E. destruct E as [E1 E2].
      constructor; [unfold wsb, is_whitespace; lia|]. constructor; [unfold wsb, is_whitespace; lia|].
      constructor; [apply wsb_wsp; exact E3|exact Hf].
    + exists []. cbn. repeat split; auto; discriminate.
Qed.

Lemma wsb_forall w : Forall wsb w -> Forall (fun c => 0 <= c <= 127) w.
Proof. induction 1 as [|c w [H _] _ IH]; constructor; assumption. Qed.

(** what the recogniser's white-space step leaves is what [trim_start] leaves, when a token follows *)
Lemma fws_trim s : tok_start (snd (skip_fws s)) -> trim_start s = snd (skip_fws s).
Proof.
  intros Ht. destruct (fws_decomp _ s (le_n _)) as (w & Hw & Hf & _ & _).
  rewrite Hw at 1. apply trim_prefix; [exact Hf|apply tok_start_stops; exact Ht].
Qed.
Lemma fws_valid s : utf8_valid s = true -> utf8_valid (snd (skip_fws s)) = true.
Proof.
  intros Hv. destruct (fws_decomp _ s (le_n _)) as (w & Hw & Hf & _ & _).
  rewrite Hw in Hv. rewrite utf8_valid_app_ascii in Hv by (apply wsb_forall; exact Hf). exact Hv.
Qed.
Lemma fws_len s : blen (snd (skip_fws s)) <= blen s.
Proof.
  destruct (fws_decomp _ s (le_n _)) as (w & Hw & _). rewrite Hw at 2. rewrite blen_app. pose proof (blen_nonneg w). lia.
Qed.
Lemma ws0_trim s : tok_start (ws0 s) -> trim_start s = ws0 s.
Proof. exact (fws_trim s). Qed.
Lemma ws0_valid s : utf8_valid s = true -> utf8_valid (ws0 s) = true.
Proof. exact (fws_valid s). Qed.
Lemma ws1_ws0 s r : ws1 s = Some r -> r = ws0 s.
Proof. unfold ws1, ws0. destruct (skip_fws s) as [b r']. destruct b; [intros H; injection H as <-; reflexivity|discriminate]. Qed.
(** mandatory white space: [scan::space] *)
Lemma space_ws1 s r : utf8_valid s = true -> ws1 s = Some r -> tok_start r -> space s = Val (POk r).
Proof.
  intros Hv H Ht. unfold ws1 in H. destruct (skip_fws s) as [b r'] eqn:E. destruct b; [|discriminate]. injection H as <-.
  assert (E2 : snd (skip_fws s) = r') by (rewrite E; reflexivity).
  assert (E1 : fst (skip_fws s) = true) by (rewrite E; reflexivity).
  unfold space. rewrite fws_trim by (rewrite E2; exact Ht). rewrite E2.
  destruct (fws_decomp _ s (le_n _)) as (w & Hw & _ & Hne & _). rewrite E2 in Hw.
  specialize (Hne E1). rewrite Hw at 1. rewrite blen_app.
  destruct w as [|c w]; [congruence|]. rewrite blen_cons. pose proof (blen_nonneg w).
  replace (blen r' <? 1 + blen w + blen r') with true by lia. reflexivity.
Qed.
(** a token start is not white space for the recogniser either *)
Lemma ws0_tok s : tok_start s -> ws0 s = s.
Proof.
  destruct s as [|c r]; [intros []|]. cbn [tok_start]. intros H. unfold ws0. cbn [skip_fws].
  replace (is_wsp c) with false by (unfold is_wsp; lia).
  destruct r as [|c2 [|c3 r']]; try reflexivity.
  replace (c =? 13) with false by lia. reflexivity.
Qed.

(** * Digits *)
Lemma take_digits_spec s : exists ds,
  s = ds ++ snd (take_digits s) /\ forallb is_ascii_digit ds = true /\
  fst (take_digits s) = map (fun c => c - 48) ds /\ not_digit_start (snd (take_digits s)) = true.
Proof.
  induction s as [|c r (ds & H1 & H2 & H3 & H4)]; [exists []; cbn; auto|].
  cbn [take_digits]. rewrite is_digit_ascii_digit. destruct (is_ascii_digit c) eqn:E.
  - destruct (take_digits r) as [dv r'] eqn:Et. cbn [fst snd] in *. exists (c :: ds).
    split; [cbn [app]; f_equal; exact H1|]. split; [cbn [forallb]; rewrite E; exact H2|].
    split; [cbn [map]; f_equal; exact H3|exact H4].
  - exists []. cbn [fst snd app forallb map not_digit_start]. rewrite E. auto.
Qed.
Lemma value_of_digits ds : forall acc, value_of (map (fun c => c - 48) ds) acc = digits_value ds acc.
Proof. induction ds as [|c r IH]; intros acc; [reflexivity|]. cbn [map value_of digits_value]. apply IH. Qed.
Lemma all_digits_forall ds : forallb is_ascii_digit ds = true -> Forall (fun c => 0 <= c <= 127) ds.
Proof.
  induction ds as [|c r IH]; intros H; constructor.
  - cbn [forallb] in H. apply andb_prop in H. pose proof (digit_range c (proj1 H)). lia.
  - apply IH. cbn [forallb] in H. apply andb_prop in H. exact (proj2 H).
Qed.
Lemma take2_two s : take2 s = match two_digits s with POk (r, v) => Some (v, r) | PErr _ => None end.
Proof.
  unfold take2, two_digits. destruct s as [|a [|b r]]; try reflexivity.
  rewrite (is_digit_ascii_digit a), (is_digit_ascii_digit b). destruct (is_ascii_digit a && is_ascii_digit b); reflexivity.
Qed.
Lemma take2_number s v r : utf8_valid s = true -> take2 s = Some (v, r) ->
  number s 2 2 = Val (POk (r, v)) /\ utf8_valid r = true /\ 0 <= v <= 99 /\ tok_start s.
Proof.
  intros Hv H. rewrite take2_two in H. rewrite number_2 by exact Hv.
  destruct (two_digits s) as [[r' v']|e] eqn:E; [|discriminate]. injection H as <- <-.
  destruct (two_digits_valid s r' v' Hv E) as [H1 H2]. split; [reflexivity|]. split; [exact H1|]. split; [exact H2|].
  unfold two_digits in E. destruct s as [|a [|b t]]; try discriminate. cbn [tok_start].
  destruct (is_ascii_digit a) eqn:Ea; [|discriminate]. pose proof (digit_range a Ea). lia.
Qed.

(** * Names *)
Lemma bytes_eqb_eq a : forall b, bytes_eqb a b = true -> a = b.
Proof.
  induction a as [|x a IH]; intros [|y b] H; try discriminate; [reflexivity|].
  cbn [bytes_eqb] in H. apply andb_prop in H. destruct H as [H1 H2]. f_equal; [lia|apply IH; exact H2].
Qed.
Lemma lookup_in k t v : lookup k t = Some v -> In (k, v) t.
Proof.
  induction t as [|[k' v'] t IH]; [discriminate|]. cbn [lookup]. destruct (bytes_eqb k k') eqn:E.
  - intros H. injection H as ->. apply bytes_eqb_eq in E. subst. left. reflexivity.
  - intros H. right. apply IH. exact H.
Qed.
Lemma lor32_lower a k : lower a = k -> 97 <= k <= 122 -> Z.lor a 32 = k /\ (a = k \/ a = k - 32).
Proof.
  intros H Hk. assert (Ha : a = k \/ a = k - 32) by (unfold lower in H; destruct ((65 <=? a) && (a <=? 90)) eqn:E; lia).
  split; [|exact Ha].
  assert (Hc : k = 97 \/ k = 98 \/ k = 99 \/ k = 100 \/ k = 101 \/ k = 102 \/ k = 103 \/ k = 104 \/ k = 105 \/ k = 106 \/
               k = 107 \/ k = 108 \/ k = 109 \/ k = 110 \/ k = 111 \/ k = 112 \/ k = 113 \/ k = 114 \/ k = 115 \/ k = 116 \/
               k = 117 \/ k = 118 \/ k = 119 \/ k = 120 \/ k = 121 \/ k = 122) by lia.
  clear H Hk. destruct Ha as [->| ->];
  repeat (destruct Hc as [->|Hc]; [reflexivity|]); subst; reflexivity.
Qed.

(** the name tables of the specification as byte lists *)
Lemma month_names_eq : month_names =
  [([106; 97; 110], 1);
   ([102; 101; 98], 2);
   ([109; 97; 114], 3);
   ([97; 112; 114], 4);
   ([109; 97; 121], 5);
   ([106; 117; 110], 6);
   ([106; 117; 108], 7);
   ([97; 117; 103], 8);
   ([115; 101; 112], 9);
   ([111; 99; 116], 10);
   ([110; 111; 118], 11);
   ([100; 101; 99], 12)].
Proof. reflexivity. Qed.
Lemma day_names_eq : day_names =
  [([109; 111; 110], 0);
   ([116; 117; 101], 1);
   ([119; 101; 100], 2);
   ([116; 104; 117], 3);
   ([102; 114; 105], 4);
   ([115; 97; 116], 5);
   ([115; 117; 110], 6)].
Proof. reflexivity. Qed.
Lemma zone_names_eq : zone_names =
  [([117; 116], 0);
   ([103; 109; 116], 0);
   ([101; 115; 116], (-5));
   ([101; 100; 116], (-4));
   ([99; 115; 116], (-6));
   ([99; 100; 116], (-5));
   ([109; 115; 116], (-7));
   ([109; 100; 116], (-6));
   ([112; 115; 116], (-8));
   ([112; 100; 116], (-7))].
Proof. reflexivity. Qed.

Lemma key3_cons a b c r bit : key3 (a :: b :: c :: r) bit = Val [Z.lor a bit; Z.lor b bit; Z.lor c bit].
Proof. reflexivity. Qed.
Lemma blen3 a b c (r : bytes) : blen (a :: b :: c :: r) <? 3 = false.
Proof. rewrite !blen_cons. pose proof (blen_nonneg r). lia. Qed.
Lemma valid3 a b c r : utf8_valid (a :: b :: c :: r) = true -> 0 <= a <= 127 -> 0 <= b <= 127 -> 0 <= c <= 127 ->
  utf8_valid r = true /\ starts_ok r = true.
Proof.
  intros Hv Ha Hb Hc. rewrite !utf8_valid_ascii in Hv by assumption. split; [exact Hv|apply utf8_valid_starts_ok; exact Hv].
Qed.

Lemma short_month0_gen a b c r ka kb kc m0 : utf8_valid (a :: b :: c :: r) = true ->
  lower a = ka -> lower b = kb -> lower c = kc -> 97 <= ka <= 122 -> 97 <= kb <= 122 -> 97 <= kc <= 122 ->
  assoc_bytes [ka; kb; kc] SHORT_MONTH_ARMS = Some m0 ->
  short_month0 (a :: b :: c :: r) = Val (POk (r, m0)) /\ utf8_valid r = true /\ tok_start (a :: b :: c :: r).
Proof.
  intros Hv Ha Hb Hc Ra Rb Rc Hk.
  destruct (lor32_lower a ka Ha Ra) as [La Ha']. destruct (lor32_lower b kb Hb Rb) as [Lb Hb']. destruct (lor32_lower c kc Hc Rc) as [Lc Hc'].
  destruct (valid3 a b c r Hv ltac:(lia) ltac:(lia) ltac:(lia)) as [Hvr Hsr].
  split; [|split; [exact Hvr|cbn [tok_start]; lia]].
  unfold short_month0, SHORT_MONTH_LEN, SHORT_MONTH_BIT, SHORT_MONTH_REST. rewrite blen3, key3_cons. cbn [bind].
  rewrite La, Lb, Lc, Hk. rewrite str_from_3 by exact Hsr. reflexivity.
Qed.
Lemma short_weekday_gen a b c r ka kb kc w : utf8_valid (a :: b :: c :: r) = true ->
  lower a = ka -> lower b = kb -> lower c = kc -> 97 <= ka <= 122 -> 97 <= kb <= 122 -> 97 <= kc <= 122 ->
  assoc_bytes [ka; kb; kc] SHORT_WEEKDAY_ARMS = Some w ->
  short_weekday (a :: b :: c :: r) = Val (POk (r, w)) /\ utf8_valid r = true /\ tok_start (a :: b :: c :: r).
Proof.
  intros Hv Ha Hb Hc Ra Rb Rc Hk.
  destruct (lor32_lower a ka Ha Ra) as [La Ha']. destruct (lor32_lower b kb Hb Rb) as [Lb Hb']. destruct (lor32_lower c kc Hc Rc) as [Lc Hc'].
  destruct (valid3 a b c r Hv ltac:(lia) ltac:(lia) ltac:(lia)) as [Hvr Hsr].
  split; [|split; [exact Hvr|cbn [tok_start]; lia]].
  unfold short_weekday, SHORT_WEEKDAY_LEN, SHORT_WEEKDAY_BIT, SHORT_WEEKDAY_REST. rewrite blen3, key3_cons. cbn [bind].
  rewrite La, Lb, Lc, Hk. rewrite str_from_3 by exact Hsr. reflexivity.
Qed.

(** month-name of the recogniser = scan::short_month0 (month0 = month - 1) *)
Lemma month_name_scan s mo r : utf8_valid s = true -> month_name s = Some (mo, r) ->
  short_month0 s = Val (POk (r, mo - 1)) /\ utf8_valid r = true /\ tok_start s /\ 1 <= mo <= 12.
Proof.
  intros Hv H. unfold month_name, obind, name3 in H.
  destruct s as [|a [|b [|c t]]]; try discriminate.
  destruct (lookup [lower a; lower b; lower c] month_names) as [v|] eqn:El; [|discriminate]. injection H as <- <-.
  apply lookup_in in El. rewrite month_names_eq in El. cbn [In] in El.
  repeat (destruct El as [El|El];
    [injection El as E1 E2 E3 Ev; subst v;
     destruct (short_month0_gen a b c t _ _ _ _ Hv (eq_sym E1) (eq_sym E2) (eq_sym E3) ltac:(lia) ltac:(lia) ltac:(lia) eq_refl) as (H1 & H2 & H3);
     split; [exact H1|split; [exact H2|split; [exact H3|lia]]]|]).
  destruct El.
Qed.
(** day-name of the recogniser = scan::short_weekday *)
Lemma day_name_scan s w r : utf8_valid s = true -> day_name s = Some (w, r) ->
  short_weekday s = Val (POk (r, w)) /\ utf8_valid r = true /\ tok_start s /\ 0 <= w <= 6.
Proof.
  intros Hv H. unfold day_name, obind, name3 in H.
  destruct s as [|a [|b [|c t]]]; try discriminate.
  destruct (lookup [lower a; lower b; lower c] day_names) as [v|] eqn:El; [|discriminate]. injection H as <- <-.
  apply lookup_in in El. rewrite day_names_eq in El. cbn [In] in El.
  repeat (destruct El as [El|El];
    [injection El as E1 E2 E3 Ev; subst v;
     destruct (short_weekday_gen a b c t _ _ _ _ Hv (eq_sym E1) (eq_sym E2) (eq_sym E3) ltac:(lia) ltac:(lia) ltac:(lia) eq_refl) as (H1 & H2 & H3);
     split; [exact H1|split; [exact H2|split; [exact H3|lia]]]|]).
  destruct El.
Qed.
(** no day name: a string that starts with a digit is not a weekday for scan::short_weekday *)
Lemma short_weekday_digit s : utf8_valid s = true ->
  match s with c :: _ => is_ascii_digit c = true | [] => False end ->
  exists e, short_weekday s = Val (PErr e).
Proof.
  intros Hv Hd. unfold short_weekday, SHORT_WEEKDAY_LEN. destruct (blen s <? 3) eqn:E; [eexists; reflexivity|].
  destruct s as [|a [|b [|c t]]]; try (rewrite ?blen_cons, ?blen_nil in E; lia).
  rewrite key3_cons. cbn [bind]. unfold SHORT_WEEKDAY_BIT.
  pose proof (digit_range a Hd) as Ha.
  assert (Hl : Z.lor a 32 = a).
  { assert (Hc : a = 48 \/ a = 49 \/ a = 50 \/ a = 51 \/ a = 52 \/ a = 53 \/ a = 54 \/ a = 55 \/ a = 56 \/ a = 57) by lia.
    repeat (destruct Hc as [->|Hc]; [reflexivity|]). subst. reflexivity. }
  rewrite Hl. unfold SHORT_WEEKDAY_ARMS. cbn [assoc_bytes bytes_eqb].
  repeat match goal with |- context [a =? ?k] => replace (a =? k) with false by lia end.
  cbn [andb]. eexists; reflexivity.
Qed.
