(** C11 -- reader completeness, scanning half: every step of the specification's recogniser
    (Spec/Rfc2822.v) is matched by the corresponding scanner call of parse_rfc2822
    (Model/Rfc2822.v over Model/Scan.v). *)
From Coq Require Import ZArith List Bool Lia ZifyBool String.
From V Require Model.Date Model.Time Model.Parsed.
From V Require Import Base.Int Base.IntLemmas Base.IO Base.Utf8 Gen.ScanTables Gen.Rfc2822Consts Model.Scan Model.DateTime
  Model.Rfc2822 Spec.Gregorian Spec.Rfc2822 Proofs.Utf8 Proofs.Scan Proofs.C11.
Import ListNotations.
Open Scope Z_scope.

(** * White space *)
Definition tok_start (r : bytes) : Prop := match r with c :: _ => 33 <= c <= 126 | [] => False end.
Definition wsb (c : Z) : Prop := 0 <= c <= 127 /\ is_whitespace c = true.
Lemma tok_start_stops r : tok_start r -> first_cp_fails is_whitespace r.
Proof.
  destruct r as [|c r]; [intros []|]. cbn [tok_start]. intros H. unfold first_cp_fails.
  rewrite next_code_point_ascii by lia. unfold is_whitespace. lia.
Qed.
Lemma wsb_wsp c : is_wsp c = true -> wsb c.
Proof. unfold is_wsp, wsb, is_whitespace. lia. Qed.

Lemma fws_decomp : forall n s, (List.length s <= n)%nat ->
  exists w, s = w ++ snd (skip_fws s) /\ Forall wsb w /\ (fst (skip_fws s) = true -> w <> []) /\ (fst (skip_fws s) = false -> w = []).
Proof.
  induction n as [|n IH]; intros s Hn.
  { destruct s; [|cbn in Hn; lia]. exists []. cbn. repeat split; auto; discriminate. }
  destruct s as [|c r]. { exists []. cbn. repeat split; auto; discriminate. }
  cbn [skip_fws]. cbn [List.length] in Hn. destruct (is_wsp c) eqn:Ec.
  - cbn [fst snd]. destruct (IH r ltac:(lia)) as (w & Hw & Hf & _ & _).
    exists (c :: w). split; [cbn [app]; f_equal; exact Hw|]. split; [constructor; [apply wsb_wsp; exact Ec|exact Hf]|].
    split; [discriminate|discriminate].
  - destruct r as [|c2 [|c3 r']]; try (exists []; cbn; repeat split; auto; discriminate).
    destruct ((c =? 13) && (c2 =? 10) && is_wsp c3) eqn:E.
    + cbn [fst snd]. cbn [List.length] in Hn. destruct (IH r' ltac:(lia)) as (w & Hw & Hf & _ & _).
      exists (c :: c2 :: c3 :: w). split; [cbn [app]; do 3 f_equal; exact Hw|].
      split; [|split; discriminate].
      apply andb_prop in E. destruct E as [E E3]. apply andb_prop in E. destruct E as [E1 E2].
      constructor; [unfold wsb, is_whitespace; lia|]. constructor; [unfold wsb, is_whitespace; lia|].
      constructor; [apply wsb_wsp; exact E3|exact Hf].
    + exists []. cbn. repeat split; auto; discriminate.
Qed.

Lemma wsb_forall w : Forall wsb w -> Forall (fun c => 0 <= c <= 127) w.
Proof. induction 1 as [|c w [H _] _ IH]; constructor; assumption. Qed.

(** what the recogniser's white-space step leaves is what [trim_start] leaves, when a token follows *)
Lemma fws_trim s : tok_start (snd (skip_fws s)) -> trim_start s = snd (skip_fws s).
Proof.
  intros Ht. destruct (fws_decomp _ s (le_n _)) as (w & Hw & Hf & _ & _).
  rewrite Hw at 1. apply trim_prefix; [exact Hf|apply tok_start_stops; exact Ht].
Qed.
Lemma fws_valid s : utf8_valid s = true -> utf8_valid (snd (skip_fws s)) = true.
Proof.
  intros Hv. destruct (fws_decomp _ s (le_n _)) as (w & Hw & Hf & _ & _).
  rewrite Hw in Hv. rewrite utf8_valid_app_ascii in Hv by (apply wsb_forall; exact Hf). exact Hv.
Qed.
Lemma fws_len s : blen (snd (skip_fws s)) <= blen s.
Proof.
  destruct (fws_decomp _ s (le_n _)) as (w & Hw & _). rewrite Hw at 2. rewrite blen_app. pose proof (blen_nonneg w). lia.
Qed.
Lemma ws0_trim s : tok_start (ws0 s) -> trim_start s = ws0 s.
Proof. exact (fws_trim s). Qed.
Lemma ws0_valid s : utf8_valid s = true -> utf8_valid (ws0 s) = true.
Proof. exact (fws_valid s). Qed.
Lemma ws1_ws0 s r : ws1 s = Some r -> r = ws0 s.
Proof. unfold ws1, ws0. destruct (skip_fws s) as [b r']. destruct b; [intros H; injection H as <-; reflexivity|discriminate]. Qed.
(** mandatory white space: [scan::space] *)
Lemma space_ws1 s r : utf8_valid s = true -> ws1 s = Some r -> tok_start r -> space s = Val (POk r).
Proof.
  intros Hv H Ht. unfold ws1 in H. destruct (skip_fws s) as [b r'] eqn:E. destruct b; [|discriminate]. injection H as <-.
  assert (E2 : snd (skip_fws s) = r') by (rewrite E; reflexivity).
  assert (E1 : fst (skip_fws s) = true) by (rewrite E; reflexivity).
  unfold space. rewrite fws_trim by (rewrite E2; exact Ht). rewrite E2.
  destruct (fws_decomp _ s (le_n _)) as (w & Hw & _ & Hne & _). rewrite E2 in Hw.
  specialize (Hne E1). rewrite Hw at 1. rewrite blen_app.
  destruct w as [|c w]; [congruence|]. rewrite blen_cons. pose proof (blen_nonneg w).
  replace (blen r' <? 1 + blen w + blen r') with true by lia. reflexivity.
Qed.
(** a token start is not white space for the recogniser either *)
Lemma ws0_tok s : tok_start s -> ws0 s = s.
Proof.
  destruct s as [|c r]; [intros []|]. cbn [tok_start]. intros H. unfold ws0. cbn [skip_fws].
  replace (is_wsp c) with false by (unfold is_wsp; lia).
  destruct r as [|c2 [|c3 r']]; try reflexivity.
  replace (c =? 13) with false by lia. reflexivity.
Qed.

(** * Digits *)
Lemma take_digits_spec s : exists ds,
  s = ds ++ snd (take_digits s) /\ forallb is_ascii_digit ds = true /\
  fst (take_digits s) = map (fun c => c - 48) ds /\ not_digit_start (snd (take_digits s)) = true.
Proof.
  induction s as [|c r (ds & H1 & H2 & H3 & H4)]; [exists []; cbn; auto|].
  cbn [take_digits]. rewrite is_digit_ascii_digit. destruct (is_ascii_digit c) eqn:E.
  - destruct (take_digits r) as [dv r'] eqn:Et. cbn [fst snd] in *. exists (c :: ds).
    split; [cbn [app]; f_equal; exact H1|]. split; [cbn [forallb]; rewrite E; exact H2|].
    split; [cbn [map]; f_equal; exact H3|exact H4].
  - exists []. cbn [fst snd app forallb map not_digit_start]. rewrite E. auto.
Qed.
Lemma value_of_digits ds : forall acc, value_of (map (fun c => c - 48) ds) acc = digits_value ds acc.
Proof. induction ds as [|c r IH]; intros acc; [reflexivity|]. cbn [map value_of digits_value]. apply IH. Qed.
Lemma all_digits_forall ds : forallb is_ascii_digit ds = true -> Forall (fun c => 0 <= c <= 127) ds.
Proof.
  induction ds as [|c r IH]; intros H; constructor.
  - cbn [forallb] in H. apply andb_prop in H. pose proof (digit_range c (proj1 H)). lia.
  - apply IH. cbn [forallb] in H. apply andb_prop in H. exact (proj2 H).
Qed.
Lemma take2_two s : take2 s = match two_digits s with POk (r, v) => Some (v, r) | PErr _ => None end.
Proof.
  unfold take2, two_digits. destruct s as [|a [|b r]]; try reflexivity.
  rewrite (is_digit_ascii_digit a), (is_digit_ascii_digit b). destruct (is_ascii_digit a && is_ascii_digit b); reflexivity.
Qed.
Lemma take2_number s v r : utf8_valid s = true -> take2 s = Some (v, r) ->
  number s 2 2 = Val (POk (r, v)) /\ utf8_valid r = true /\ 0 <= v <= 99 /\ tok_start s.
Proof.
  intros Hv H. rewrite take2_two in H. rewrite number_2 by exact Hv.
  destruct (two_digits s) as [[r' v']|e] eqn:E; [|discriminate]. injection H as <- <-.
  destruct (two_digits_valid s r' v' Hv E) as [H1 H2]. split; [reflexivity|]. split; [exact H1|]. split; [exact H2|].
  unfold two_digits in E. destruct s as [|a [|b t]]; try discriminate. cbn [tok_start].
  destruct (is_ascii_digit a) eqn:Ea; [|discriminate]. pose proof (digit_range a Ea). lia.
Qed.

(** * Names *)
Lemma bytes_eqb_eq a : forall b, bytes_eqb a b = true -> a = b.
Proof.
  induction a as [|x a IH]; intros [|y b] H; try discriminate; [reflexivity|].
  cbn [bytes_eqb] in H. apply andb_prop in H. destruct H as [H1 H2]. f_equal; [lia|apply IH; exact H2].
Qed.
Lemma lookup_in k t v : lookup k t = Some v -> In (k, v) t.
Proof.
  induction t as [|[k' v'] t IH]; [discriminate|]. cbn [lookup]. destruct (bytes_eqb k k') eqn:E.
  - intros H. injection H as ->. apply bytes_eqb_eq in E. subst. left. reflexivity.
  - intros H. right. apply IH. exact H.
Qed.
Lemma lor32_lower a k : lower a = k -> 97 <= k <= 122 -> Z.lor a 32 = k /\ (a = k \/ a = k - 32).
Proof.
  intros H Hk. assert (Ha : a = k \/ a = k - 32) by (unfold lower in H; destruct ((65 <=? a) && (a <=? 90)) eqn:E; lia).
  split; [|exact Ha].
  assert (Hc : k = 97 \/ k = 98 \/ k = 99 \/ k = 100 \/ k = 101 \/ k = 102 \/ k = 103 \/ k = 104 \/ k = 105 \/ k = 106 \/
               k = 107 \/ k = 108 \/ k = 109 \/ k = 110 \/ k = 111 \/ k = 112 \/ k = 113 \/ k = 114 \/ k = 115 \/ k = 116 \/
               k = 117 \/ k = 118 \/ k = 119 \/ k = 120 \/ k = 121 \/ k = 122) by lia.
  clear H Hk. destruct Ha as [->| ->];
  repeat (destruct Hc as [->|Hc]; [reflexivity|]); subst; reflexivity.
Qed.

(** the name tables of the specification as byte lists *)
Lemma month_names_eq : month_names =
  [([106; 97; 110], 1);
   ([102; 101; 98], 2);
   ([109; 97; 114], 3);
   ([97; 112; 114], 4);
   ([109; 97; 121], 5);
   ([106; 117; 110], 6);
   ([106; 117; 108], 7);
   ([97; 117; 103], 8);
   ([115; 101; 112], 9);
   ([111; 99; 116], 10);
   ([110; 111; 118], 11);
   ([100; 101; 99], 12)].
Proof. reflexivity. Qed.
Lemma day_names_eq : day_names =
  [([109; 111; 110], 0);
   ([116; 117; 101], 1);
   ([119; 101; 100], 2);
   ([116; 104; 117], 3);
   ([102; 114; 105], 4);
   ([115; 97; 116], 5);
   ([115; 117; 110], 6)].
Proof. reflexivity. Qed.
Lemma zone_names_eq : zone_names =
  [([117; 116], 0);
   ([103; 109; 116], 0);
   ([101; 115; 116], (-5));
   ([101; 100; 116], (-4));
   ([99; 115; 116], (-6));
   ([99; 100; 116], (-5));
   ([109; 115; 116], (-7));
   ([109; 100; 116], (-6));
   ([112; 115; 116], (-8));
   ([112; 100; 116], (-7))].
Proof. reflexivity. Qed.

Lemma key3_cons a b c r bit : key3 (a :: b :: c :: r) bit = Val [Z.lor a bit; Z.lor b bit; Z.lor c bit].
Proof. reflexivity. Qed.
Lemma blen3 a b c (r : bytes) : blen (a :: b :: c :: r) <? 3 = false.
Proof. rewrite !blen_cons. pose proof (blen_nonneg r). lia. Qed.
Lemma valid3 a b c r : utf8_valid (a :: b :: c :: r) = true -> 0 <= a <= 127 -> 0 <= b <= 127 -> 0 <= c <= 127 ->
  utf8_valid r = true /\ starts_ok r = true.
Proof.
  intros Hv Ha Hb Hc. rewrite !utf8_valid_ascii in Hv by assumption. split; [exact Hv|apply utf8_valid_starts_ok; exact Hv].
Qed.

Lemma short_month0_gen a b c r ka kb kc m0 : utf8_valid (a :: b :: c :: r) = true ->
  lower a = ka -> lower b = kb -> lower c = kc -> 97 <= ka <= 122 -> 97 <= kb <= 122 -> 97 <= kc <= 122 ->
  assoc_bytes [ka; kb; kc] SHORT_MONTH_ARMS = Some m0 ->
  short_month0 (a :: b :: c :: r) = Val (POk (r, m0)) /\ utf8_valid r = true /\ tok_start (a :: b :: c :: r).
Proof.
  intros Hv Ha Hb Hc Ra Rb Rc Hk.
  destruct (lor32_lower a ka Ha Ra) as [La Ha']. destruct (lor32_lower b kb Hb Rb) as [Lb Hb']. destruct (lor32_lower c kc Hc Rc) as [Lc Hc'].
  destruct (valid3 a b c r Hv ltac:(lia) ltac:(lia) ltac:(lia)) as [Hvr Hsr].
  split; [|split; [exact Hvr|cbn [tok_start]; lia]].
  unfold short_month0, SHORT_MONTH_LEN, SHORT_MONTH_BIT, SHORT_MONTH_REST. rewrite blen3, key3_cons. cbn [bind].
  rewrite La, Lb, Lc, Hk. rewrite str_from_3 by exact Hsr. reflexivity.
Qed.
Lemma short_weekday_gen a b c r ka kb kc w : utf8_valid (a :: b :: c :: r) = true ->
  lower a = ka -> lower b = kb -> lower c = kc -> 97 <= ka <= 122 -> 97 <= kb <= 122 -> 97 <= kc <= 122 ->
  assoc_bytes [ka; kb; kc] SHORT_WEEKDAY_ARMS = Some w ->
  short_weekday (a :: b :: c :: r) = Val (POk (r, w)) /\ utf8_valid r = true /\ tok_start (a :: b :: c :: r).
Proof.
  intros Hv Ha Hb Hc Ra Rb Rc Hk.
  destruct (lor32_lower a ka Ha Ra) as [La Ha']. destruct (lor32_lower b kb Hb Rb) as [Lb Hb']. destruct (lor32_lower c kc Hc Rc) as [Lc Hc'].
  destruct (valid3 a b c r Hv ltac:(lia) ltac:(lia) ltac:(lia)) as [Hvr Hsr].
  split; [|split; [exact Hvr|cbn [tok_start]; lia]].
  unfold short_weekday, SHORT_WEEKDAY_LEN, SHORT_WEEKDAY_BIT, SHORT_WEEKDAY_REST. rewrite blen3, key3_cons. cbn [bind].
  rewrite La, Lb, Lc, Hk. rewrite str_from_3 by exact Hsr. reflexivity.
Qed.

(** month-name of the recogniser = scan::short_month0 (month0 = month - 1) *)
Lemma month_name_scan s mo r : utf8_valid s = true -> month_name s = Some (mo, r) ->
  short_month0 s = Val (POk (r, mo - 1)) /\ utf8_valid r = true /\ tok_start s /\ 1 <= mo <= 12.
Proof.
  intros Hv H. unfold month_name, obind, name3 in H.
  destruct s as [|a [|b [|c t]]]; try discriminate.
  destruct (lookup [lower a; lower b; lower c] month_names) as [v|] eqn:El; [|discriminate]. injection H as <- <-.
  apply lookup_in in El. rewrite month_names_eq in El. cbn [In] in El.
  repeat (destruct El as [El|El];
    [injection El as E1 E2 E3 Ev; subst v;
     destruct (short_month0_gen a b c t _ _ _ _ Hv (eq_sym E1) (eq_sym E2) (eq_sym E3) ltac:(lia) ltac:(lia) ltac:(lia) eq_refl) as (H1 & H2 & H3);
     split; [exact H1|split; [exact H2|split; [exact H3|lia]]]|]).
  destruct El.
Qed.
(** day-name of the recogniser = scan::short_weekday *)
Lemma day_name_scan s w r : utf8_valid s = true -> day_name s = Some (w, r) ->
  short_weekday s = Val (POk (r, w)) /\ utf8_valid r = true /\ tok_start s /\ 0 <= w <= 6.
Proof.
  intros Hv H. unfold day_name, obind, name3 in H.
  destruct s as [|a [|b [|c t]]]; try discriminate.
  destruct (lookup [lower a; lower b; lower c] day_names) as [v|] eqn:El; [|discriminate]. injection H as <- <-.
  apply lookup_in in El. rewrite day_names_eq in El. cbn [In] in El.
  repeat (destruct El as [El|El];
    [injection El as E1 E2 E3 Ev; subst v;
     destruct (short_weekday_gen a b c t _ _ _ _ Hv (eq_sym E1) (eq_sym E2) (eq_sym E3) ltac:(lia) ltac:(lia) ltac:(lia) eq_refl) as (H1 & H2 & H3);
     split; [exact H1|split; [exact H2|split; [exact H3|lia]]]|]).
  destruct El.
Qed.
(** no day name: a string that starts with a digit is not a weekday for scan::short_weekday *)
Lemma short_weekday_digit s : utf8_valid s = true ->
  match s with c :: _ => is_ascii_digit c = true | [] => False end ->
  exists e, short_weekday s = Val (PErr e).
Proof.
  intros Hv Hd. unfold short_weekday, SHORT_WEEKDAY_LEN. destruct (blen s <? 3) eqn:E; [eexists; reflexivity|].
  destruct s as [|a [|b [|c t]]]; try (rewrite ?blen_cons, ?blen_nil in E; lia).
  rewrite key3_cons. cbn [bind]. unfold SHORT_WEEKDAY_BIT.
  pose proof (digit_range a Hd) as Ha.
  assert (Hl : Z.lor a 32 = a).
  { assert (Hc : a = 48 \/ a = 49 \/ a = 50 \/ a = 51 \/ a = 52 \/ a = 53 \/ a = 54 \/ a = 55 \/ a = 56 \/ a = 57) by lia.
    repeat (destruct Hc as [->|Hc]; [reflexivity|]). subst. reflexivity. }
  rewrite Hl. unfold SHORT_WEEKDAY_ARMS. cbn [assoc_bytes bytes_eqb].
  repeat match goal with |- context [a =? ?k] => replace (a =? k) with false by lia end.
  cbn [andb]. eexists; reflexivity.
Qed.

(** * Zones *)
Lemma tz_tail_nocolon neg h1 h2 m1 m2 r :
  is_ascii_digit h1 = true -> is_ascii_digit h2 = true -> 48 <= m1 <= 53 -> is_ascii_digit m2 = true ->
  utf8_valid r = true ->
  tz_tail neg (h1 :: h2 :: m1 :: m2 :: r) (fun s => pok s) false =
  Val (POk (r, let secs := ((h1 - 48) * 10 + (h2 - 48)) * 3600 + ((m1 - 48) * 10 + (m2 - 48)) * 60 in
               if neg then - secs else secs)).
Proof.
  intros E1 E2 Hm1 Em2 Hv. unfold tz_tail. cbn [tz_digits]. rewrite E1, E2. cbn [andb].
  pose proof (digit_range h1 E1). pose proof (digit_range h2 E2). pose proof (digit_range m2 Em2).
  rewrite two_digit_value_ok by assumption. cbn [plift bind pbind].
  assert (Hs : starts_ok (m1 :: m2 :: r) = true) by (cbn [starts_ok]; apply boundary_byte; lia).
  rewrite str_from_2 by exact Hs. cbn [bind pbind pok tz_digits].
  change TZ_MIN_TENS_LO with 48. change TZ_MIN_TENS_HI with 53.
  replace ((48 <=? m1) && (m1 <=? 53) && is_ascii_digit m2) with true by (rewrite Em2; lia).
  assert (is_ascii_digit m1 = true) by (unfold is_ascii_digit; lia).
  rewrite two_digit_value_ok by assumption. cbn [plift bind pbind].
  rewrite !blen_cons. pose proof (blen_nonneg r). replace (1 + (1 + blen r) >=? 2) with true by lia.
  rewrite str_from_2 by (apply utf8_valid_starts_ok; exact Hv). cbn [plift bind pbind].
  change TZ_SECS_PER_HOUR with 3600. change TZ_SECS_PER_MINUTE with 60.
  unfold mul_i32, add_i32, neg_i32.
  rewrite chk_in by (unfold in_i32, in_range, i32_min, i32_max; lia). cbn [bind].
  rewrite chk_in by (unfold in_i32, in_range, i32_min, i32_max; lia). cbn [bind].
  rewrite chk_in by (unfold in_i32, in_range, i32_min, i32_max; lia). cbn [bind].
  destruct neg; [|reflexivity].
  rewrite chk_in by (unfold in_i32, in_range, i32_min, i32_max; lia). reflexivity.
Qed.

(** letters *)
Lemma is_alpha_alphabetic c : is_alpha c = is_ascii_alphabetic c.
Proof. reflexivity. Qed.
Lemma take_alpha_spec s : exists name,
  s = name ++ snd (take_alpha s) /\ fst (take_alpha s) = name /\ forallb is_ascii_alphabetic name = true /\
  alpha_prefix_len s = blen name /\
  match snd (take_alpha s) with c :: _ => is_ascii_alphabetic c = false | [] => True end.
Proof.
  induction s as [|c r (name & H1 & H2 & H3 & H4 & H5)]; [exists []; cbn; auto|].
  cbn [take_alpha alpha_prefix_len]. rewrite is_alpha_alphabetic. destruct (is_ascii_alphabetic c) eqn:E.
  - destruct (take_alpha r) as [a r'] eqn:Et. cbn [fst snd] in *. exists (c :: name).
    split; [cbn [app]; f_equal; exact H1|]. split; [f_equal; exact H2|]. split; [cbn [forallb]; rewrite E; exact H3|].
    split; [rewrite blen_cons, H4; reflexivity|exact H5].
  - exists []. cbn [fst snd app forallb blen List.length]. rewrite E. auto.
Qed.
Lemma alpha_forall name : forallb is_ascii_alphabetic name = true -> Forall (fun c => 0 <= c <= 127) name.
Proof.
  induction name as [|c r IH]; intros H; constructor.
  - cbn [forallb] in H. apply andb_prop in H. destruct H as [H _]. unfold is_ascii_alphabetic, is_ascii_uppercase, is_ascii_lowercase in H. lia.
  - apply IH. cbn [forallb] in H. apply andb_prop in H. exact (proj2 H).
Qed.
Lemma slice_to_app (a b : bytes) : slice_to (a ++ b) (blen a) = Val a.
Proof.
  unfold slice_to. rewrite blen_app. pose proof (blen_nonneg a). pose proof (blen_nonneg b).
  replace ((0 <=? blen a) && (blen a <=? blen a + blen b)) with true by lia.
  unfold blen. rewrite Nat2Z.id. rewrite firstn_app, Nat.sub_diag, firstn_all. cbn [firstn]. rewrite app_nil_r. reflexivity.
Qed.

(** case-insensitive lookup through the lower-cased key *)
Fixpoint assoc_lc (key : bytes) (t : list (bytes * Z)) : option Z :=
  match t with
  | [] => None
  | (k, v) :: r =>
      if (blen key =? blen k) && all2 Z.eqb key (map to_ascii_lowercase k) then Some v else assoc_lc key r
  end.
Lemma all2_lc a : forall b, all2 u8_eq_ignore_ascii_case a b = all2 Z.eqb (map to_ascii_lowercase a) (map to_ascii_lowercase b).
Proof. induction a as [|x a IH]; intros [|y b]; try reflexivity. cbn [all2 map]. rewrite IH. reflexivity. Qed.
Lemma blen_map (f : Z -> Z) l : blen (map f l) = blen l.
Proof. unfold blen. rewrite map_length. reflexivity. Qed.
Lemma assoc_ic_lc name t : assoc_ignore_case name t = assoc_lc (map to_ascii_lowercase name) t.
Proof.
  induction t as [|[k v] t IH]; [reflexivity|]. cbn [assoc_ignore_case assoc_lc].
  unfold eq_ignore_ascii_case. rewrite all2_lc, blen_map, IH. reflexivity.
Qed.
Lemma tolower_lower x k : lower x = k -> 97 <= k <= 122 -> to_ascii_lowercase x = k.
Proof.
  intros H Hk. destruct (lor32_lower x k H Hk) as [Hl [->| ->]]; unfold to_ascii_lowercase, is_ascii_uppercase.
  - replace ((65 <=? k) && (k <=? 90)) with false by lia. apply Z.lor_0_r.
  - replace ((65 <=? k - 32) && (k - 32 <=? 90)) with true by lia. exact Hl.
Qed.
Lemma tolower_alpha x : is_ascii_alphabetic x = true -> to_ascii_lowercase x = lower x /\ 97 <= lower x <= 122.
Proof.
  intros H. assert (Hr : 97 <= lower x <= 122).
  { unfold is_ascii_alphabetic, is_ascii_uppercase, is_ascii_lowercase in H. unfold lower. destruct ((65 <=? x) && (x <=? 90)) eqn:E; lia. }
  split; [apply tolower_lower; [reflexivity|exact Hr]|exact Hr].
Qed.
Lemma map_tolower_alpha name : forallb is_ascii_alphabetic name = true -> map to_ascii_lowercase name = map lower name.
Proof.
  induction name as [|c r IH]; intros H; [reflexivity|]. cbn [forallb] in H. apply andb_prop in H. destruct H as [H1 H2].
  cbn [map]. rewrite (proj1 (tolower_alpha c H1)), IH by exact H2. reflexivity.
Qed.

(** the zone of the recogniser = scan::timezone_offset_2822 *)
Lemma some_pair_inj {X Y} (a a' : X) (b b' : Y) : Some (a, b) = Some (a', b') -> a = a' /\ b = b'.
Proof. intros H. inversion H. auto. Qed.
Lemma zone_scan s z r : utf8_valid s = true -> rec_zone s = Some (z, r) -> valid_zone z = true ->
  timezone_offset_2822 s = Val (POk (r, zone_offset z)) /\ utf8_valid r = true /\ tok_start s.
Proof.
  intros Hv H Hz. unfold rec_zone in H. destruct s as [|c t]; [discriminate|].
  destruct ((c =? 43) || (c =? 45)) eqn:Esign.
  - (* numeric *)
    unfold obind in H. destruct (take2 t) as [[hh t1]|] eqn:E1; [|discriminate].
    destruct (take2 t1) as [[mm t2]|] eqn:E2; [|discriminate]. apply some_pair_inj in H. destruct H as [<- <-].
    cbv [valid_zone] in Hz.
    unfold take2 in E1. destruct t as [|h1 [|h2 t']]; try discriminate.
    rewrite (is_digit_ascii_digit h1), (is_digit_ascii_digit h2) in E1.
    destruct (is_ascii_digit h1) eqn:D1; [|discriminate]. destruct (is_ascii_digit h2) eqn:D2; [|discriminate].
    cbv [andb] in E1. apply some_pair_inj in E1. destruct E1 as [<- <-].
    unfold take2 in E2. destruct t' as [|m1 [|m2 t'']]; try discriminate.
    rewrite (is_digit_ascii_digit m1), (is_digit_ascii_digit m2) in E2.
    destruct (is_ascii_digit m1) eqn:D3; [|discriminate]. destruct (is_ascii_digit m2) eqn:D4; [|discriminate].
    cbv [andb] in E2. apply some_pair_inj in E2. destruct E2 as [<- <-].
    pose proof (digit_range h1 D1). pose proof (digit_range h2 D2). pose proof (digit_range m1 D3). pose proof (digit_range m2 D4).
    assert (Hvr : utf8_valid t'' = true) by (rewrite !utf8_valid_ascii in Hv by lia; exact Hv).
    split; [|split; [exact Hvr|cbn [tok_start]; lia]].
    unfold timezone_offset_2822. cbv [alpha_prefix_len].
    replace (is_ascii_alphabetic c) with false by (unfold is_ascii_alphabetic, is_ascii_uppercase, is_ascii_lowercase; lia).
    change (0 >? 0) with false. cbv iota. rewrite timezone_offset_unfold. change (false && _) with false. cbv iota.
    rewrite next_code_point_ascii by lia. change (len_utf8 43) with 1. change (len_utf8 45) with 1.
    assert (Hs1 : starts_ok (h1 :: h2 :: m1 :: m2 :: t'') = true) by (cbn [starts_ok]; apply boundary_byte; lia).
    cbv [zone_offset].
    destruct (c =? 43) eqn:E43.
    + rewrite str_from_1 by exact Hs1. cbv [bind pbind pok].
      rewrite tz_tail_nocolon by (assumption || lia). replace (c =? 45) with false by lia. do 3 f_equal. cbv zeta. lia.
    + replace (c =? 45) with true by lia. rewrite str_from_1 by exact Hs1. cbv [bind pbind pok].
      rewrite tz_tail_nocolon by (assumption || lia). do 3 f_equal. cbv zeta. lia.
  - (* alphabetic *)
    destruct (take_alpha_spec (c :: t)) as (name & Hs & Hfst & Halpha & Hlen & Hrest).
    destruct (take_alpha (c :: t)) as [name' rest] eqn:Et. cbn [fst snd] in *. subst name'.
    pose proof (alpha_forall name Halpha) as Hascii.
    assert (Hvr : utf8_valid rest = true) by (rewrite Hs, utf8_valid_app_ascii in Hv by exact Hascii; exact Hv).
    assert (Hne : name <> []).
    { intros ->. cbn in H. discriminate. }
    assert (Htok : tok_start (c :: t)).
    { rewrite Hs. destruct name as [|x name]; [congruence|]. cbn [app tok_start]. cbn [forallb] in Halpha.
      apply andb_prop in Halpha. destruct Halpha as [Hx _]. unfold is_ascii_alphabetic, is_ascii_uppercase, is_ascii_lowercase in Hx. lia. }
    assert (Hmodel : forall o, assoc_lc (map lower name) TZ2822_NAMES = Some o -> -24 <= o <= 24 ->
              timezone_offset_2822 (c :: t) = Val (POk (rest, o * 3600))).
    { intros o Ho Hor. unfold timezone_offset_2822. rewrite Hlen.
      assert (0 < blen name) by (destruct name; [congruence|rewrite blen_cons; pose proof (blen_nonneg name); lia]).
      replace (blen name >? 0) with true by lia. cbv iota. rewrite Hs at 1.
      rewrite slice_to_app. cbv [bind]. rewrite Hs at 1. rewrite str_from_app by (apply utf8_valid_starts_ok; exact Hvr). cbv [bind].
      rewrite assoc_ic_lc, map_tolower_alpha by exact Halpha. rewrite Ho.
      unfold mul_i32, TZ2822_SECS_PER_HOUR. rewrite chk_in by (unfold in_i32, in_range, i32_min, i32_max; lia). reflexivity. }
    destruct (lookup (map lower name) zone_names) as [h|] eqn:El.
    + injection H as <- <-. split; [|split; [exact Hvr|exact Htok]].
      apply lookup_in in El. rewrite zone_names_eq in El. cbn [In] in El. cbn [zone_offset].
      repeat (destruct El as [El|El]; [injection El as Ek Eh; subst h; rewrite <- Ek in Hmodel; apply Hmodel; [reflexivity|lia]|]).
      destruct El.
    + destruct name as [|l [|l2 name]]; try discriminate.
      destruct (lower l =? 106) eqn:Ej; [discriminate|]. injection H as <- <-.
      split; [|split; [exact Hvr|exact Htok]]. cbn [zone_offset].
      cbn [forallb] in Halpha. apply andb_prop in Halpha. destruct Halpha as [Hl _].
      destruct (tolower_alpha l Hl) as [Htl Hrange].
      destruct (lower l =? 122) eqn:Ezz.
      * assert (Hz122 : lower l = 122) by lia. specialize (Hmodel 0). cbn [map] in Hmodel. rewrite Hz122 in Hmodel.
        apply Hmodel; [reflexivity|lia].
      * unfold timezone_offset_2822. rewrite Hlen. change (blen [l] >? 0) with true. cbv beta iota.
        rewrite Hs at 1. rewrite slice_to_app. cbv [bind]. rewrite Hs at 1. rewrite str_from_app by (apply utf8_valid_starts_ok; exact Hvr). cbv [bind].
        rewrite assoc_ic_lc. cbn [map]. rewrite Htl.
        assert (Hnone : assoc_lc [lower l] TZ2822_NAMES = None).
        { unfold TZ2822_NAMES. cbn [assoc_lc]. change (blen [lower l]) with 1.
          cbn [blen List.length Z.of_nat Pos.of_succ_nat Pos.succ Z.eqb Pos.eqb andb map all2].
          change (to_ascii_lowercase 122) with 122. replace (lower l =? 122) with false by lia. reflexivity. }
        rewrite Hnone. change (blen [l] =? 1) with true. cbv beta iota. change (index [l] 0) with (Val l). cbn [bind].
        replace (in_ranges l TZ2822_MILITARY) with true; [reflexivity|].
        unfold in_ranges, TZ2822_MILITARY. cbn [existsb].
        unfold is_ascii_alphabetic, is_ascii_uppercase, is_ascii_lowercase in Hl. unfold lower in Ej, Ezz.
        destruct ((65 <=? l) && (l <=? 90)) eqn:Eu; lia.
Qed.

(** * Comments: the recursive-descent recogniser of the specification and the relation *)
Lemma citems_sound : forall fuel l rest, citems fuel l = Some rest -> exists a, ccontent a /\ l = a ++ 41 :: rest.
Proof.
  induction fuel as [|f IH]; intros l rest H; [discriminate|].
  cbn [citems] in H. destruct l as [|c r]; [discriminate|].
  destruct (c =? 41) eqn:E1.
  { injection H as <-. assert (c = 41) by lia. subst. exists []. split; [constructor|reflexivity]. }
  destruct (c =? 92) eqn:E2.
  { assert (c = 92) by lia. subst c. destruct r as [|x r']; [discriminate|].
    destruct (IH r' rest H) as (a & Ha & ->). exists (92 :: x :: a). split; [apply cc_quoted; exact Ha|reflexivity]. }
  destruct (c =? 40) eqn:E3.
  { assert (c = 40) by lia. subst c. destruct (citems f r) as [r1|] eqn:Er; [|discriminate].
    destruct (IH r r1 Er) as (a1 & Ha1 & ->). destruct (IH r1 rest H) as (a2 & Ha2 & ->).
    exists (40 :: a1 ++ 41 :: a2). split; [apply cc_nested; assumption|]. cbn [app]. rewrite <- app_assoc. reflexivity. }
  destruct (IH r rest H) as (a & Ha & ->). exists (c :: a). split; [apply cc_text; [lia|lia|lia|exact Ha]|reflexivity].
Qed.
Lemma citems_complete a : ccontent a -> forall rest fuel, (List.length (a ++ 41%Z :: rest) <= fuel)%nat ->
  citems fuel (a ++ 41 :: rest) = Some rest.
Proof.
  induction 1 as [|c a H1 H2 H3 Ha IH|c a Ha IH|a a2 Ha IHa Ha2 IHa2]; intros rest fuel Hf.
  - cbn [app List.length] in *. destruct fuel as [|f]; [lia|]. reflexivity.
  - cbn [app List.length] in *. destruct fuel as [|f]; [lia|]. cbn [citems].
    replace (c =? 41) with false by lia. replace (c =? 92) with false by lia. replace (c =? 40) with false by lia.
    apply IH. lia.
  - cbn [app List.length] in *. destruct fuel as [|f]; [lia|]. cbn [citems]. cbn [Z.eqb Pos.eqb]. apply IH. lia.
  - cbn [app List.length] in *. destruct fuel as [|f]; [lia|]. cbn [citems]. cbn [Z.eqb Pos.eqb].
    rewrite <- app_assoc. cbn [app]. rewrite <- app_assoc in Hf. cbn [app] in Hf.
    rewrite IHa by (rewrite !app_length in *; cbn [List.length] in *; rewrite ?app_length in *; cbn [List.length] in *; lia).
    apply IHa2. rewrite !app_length in *. cbn [List.length] in *. rewrite ?app_length in *. cbn [List.length] in *. lia.
Qed.
(** the executable comment recogniser of the specification accepts exactly [is_comment]-shaped prefixes *)
Theorem comment_rest_exact s rest : comment_rest s = Some rest <-> exists a, ccontent a /\ s = 40 :: a ++ 41 :: rest.
Proof.
  unfold comment_rest. destruct s as [|c r]; [split; [discriminate|intros (a & _ & H); discriminate]|].
  destruct (c =? 40) eqn:E.
  - assert (c = 40) by lia. subst c. split.
    + intros H. destruct (citems_sound _ _ _ H) as (a & Ha & ->). exists a. split; [exact Ha|reflexivity].
    + intros (a & Ha & H). injection H as ->. apply citems_complete; [exact Ha|apply le_n].
  - split; [discriminate|]. intros (a & _ & H). injection H as -> _. lia.
Qed.

(** the comment loop of the reader consumes what the specification calls trailing comments *)
Lemma comments_scan : forall fuel s, utf8_valid s = true -> blen s <= u64_max ->
  comments_to_end fuel s = true -> comments_loop fuel s = Val [].
Proof.
  induction fuel as [|f IH]; intros s Hv Hl H; [discriminate|].
  cbn [comments_to_end] in H. destruct s as [|c0 s0]; [reflexivity|].
  set (s := c0 :: s0) in *.
  destruct (comment_rest (ws0 s)) as [r|] eqn:Ec; [|discriminate].
  pose proof Ec as Ec'. apply comment_rest_exact in Ec'. destruct Ec' as (a & Ha & Hs).
  assert (Ht : tok_start (ws0 s)) by (rewrite Hs; cbn [tok_start]; lia).
  assert (Hc : comment_2822 s = Val (POk (r, tt))).
  { apply comment_exact; [exact Hv|exact Hl|]. exists a. split; [exact Ha|]. rewrite ws0_trim by exact Ht. exact Hs. }
  cbn [comments_loop]. rewrite Hc. cbn [bind].
  pose proof (ws0_valid s Hv) as Hv0. rewrite Hs in Hv0.
  assert (Hvr : utf8_valid r = true).
  { change (40 :: a ++ 41 :: r) with ((40 :: a) ++ 41 :: r) in Hv0. eapply after_ascii_valid; [exact Hv0|lia]. }
  apply IH; [exact Hvr| |exact H].
  pose proof (fws_len s) as Hl0. unfold ws0 in Hs. rewrite Hs in Hl0.
  rewrite blen_cons, blen_app, blen_cons in Hl0. pose proof (blen_nonneg a). pose proof (blen_nonneg r). lia.
Qed.

(** * Day, year, seconds *)
Lemma day_scan s d r : utf8_valid s = true -> rec_day s = Some (d, r) ->
  number s 1 2 = Val (POk (r, d)) /\ utf8_valid r = true /\ tok_start s /\ 0 <= d <= 99.
Proof.
  intros Hv H. unfold rec_day in H. destruct (take_digits_spec s) as (ds & Hs & Hd & Hf & Hn).
  destruct (take_digits s) as [dv r'] eqn:Et. cbn [fst snd] in *.
  assert (Hlen : (blen ds = 1 \/ blen ds = 2) /\ d = digits_value ds 0 /\ r = r').
  { rewrite <- value_of_digits, <- Hf. destruct dv as [|x [|y [|z dv]]]; try discriminate; injection H as <- <-;
    (destruct ds as [|c1 [|c2 [|c3 ds]]]; try discriminate); repeat split; auto. }
  destruct Hlen as (Hlen & -> & ->).
  pose proof (all_digits_forall ds Hd) as Hascii.
  assert (Hvr : utf8_valid r' = true) by (rewrite Hs, utf8_valid_app_ascii in Hv by exact Hascii; exact Hv).
  pose proof (digits_value_bound ds 0 Hd ltac:(lia)) as Hb.
  pose proof (digits_value_mono ds 0 Hd ltac:(lia)) as Hm.
  assert (Hb2 : digits_value ds 0 < 100).
  { destruct Hlen as [E|E]; rewrite E in Hb; [change (10 ^ 1) with 10 in Hb|change (10 ^ 2) with 100 in Hb]; lia. }
  split.
  - rewrite Hs at 1. apply number_on_digits; [exact Hd|exact Hvr|lia|lia|intros _; exact Hn|unfold i64_max; lia].
  - split; [exact Hvr|]. split; [|lia].
    rewrite Hs. destruct ds as [|c ds]; [rewrite blen_nil in Hlen; lia|]. cbn [app tok_start].
    cbn [forallb] in Hd. apply andb_prop in Hd. pose proof (digit_range c (proj1 Hd)). lia.
Qed.
Lemma year_scan s yl yv r : utf8_valid s = true -> blen s <= u64_max -> rec_year s = Some (yl, yv, r) -> yv <= i64_max ->
  number s 2 R2_YEAR_MAX = Val (POk (r, yv)) /\ utf8_valid r = true /\ tok_start s /\
  blen s - blen r = yl /\ 2 <= yl /\ 0 <= yv < 10 ^ yl.
Proof.
  intros Hv Hl H Hy. unfold rec_year in H. destruct (take_digits_spec s) as (ds & Hs & Hd & Hf & Hn).
  destruct (take_digits s) as [dv r'] eqn:Et. cbn [fst snd] in *.
  destruct (2 <=? Z.of_nat (List.length dv)) eqn:E2; [|discriminate].
  assert (Hlen : Z.of_nat (List.length dv) = blen ds) by (rewrite Hf, map_length; reflexivity).
  assert (Hx : yl = blen ds /\ yv = digits_value ds 0 /\ r = r').
  { rewrite <- value_of_digits, <- Hf, <- Hlen. inversion H. auto. }
  destruct Hx as (-> & -> & ->).
  pose proof (all_digits_forall ds Hd) as Hascii.
  assert (Hvr : utf8_valid r' = true) by (rewrite Hs, utf8_valid_app_ascii in Hv by exact Hascii; exact Hv).
  pose proof (digits_value_bound ds 0 Hd ltac:(lia)) as Hb.
  pose proof (digits_value_mono ds 0 Hd ltac:(lia)) as Hm.
  assert (Hbl : blen s = blen ds + blen r') by (rewrite Hs at 1; apply blen_app).
  pose proof (blen_nonneg r').
  split.
  - rewrite Hs at 1. unfold R2_YEAR_MAX. apply number_on_digits; [exact Hd|exact Hvr|lia|unfold u64_max in Hl; lia|intros _; exact Hn|lia].
  - split; [exact Hvr|]. split; [|split; [lia|split; [lia|lia]]].
    rewrite Hs. destruct ds as [|c ds]; [rewrite blen_nil in *; lia|]. cbn [app tok_start].
    cbn [forallb] in Hd. apply andb_prop in Hd. pose proof (digit_range c (proj1 Hd)). lia.
Qed.

(** * Setters on a field that is still empty *)
Lemma set_checked_fresh fld lo hi cast p v : Parsed.pget fld p = None -> lo <= v <= hi ->
  Parsed.set_checked fld lo hi cast p v = (Parsed.pput fld (Some (cast v)) p, Parsed.Ok tt).
Proof.
  intros Hn Hr. unfold Parsed.set_checked, Parsed.contains. replace ((lo <=? v) && (v <=? hi)) with true by lia.
  cbn [negb]. unfold Parsed.set_if_consistent. rewrite Hn. reflexivity.
Qed.
Lemma set_ifc_fresh fld p v : Parsed.pget fld p = None ->
  Parsed.set_if_consistent fld p v = (Parsed.pput fld (Some v) p, Parsed.Ok tt).
Proof. intros Hn. unfold Parsed.set_if_consistent. rewrite Hn. reflexivity. Qed.
Lemma as_u32_small v : 0 <= v <= u32_max -> as_u32 v = v.
Proof. intros H. apply as_u32_id. unfold in_u32, in_range, u32_max in *. lia. Qed.
Lemma set_hour_fresh p v : 0 <= v <= 23 -> Parsed.pget Parsed.F_hour_div_12 p = None -> Parsed.pget Parsed.F_hour_mod_12 p = None ->
  Parsed.set_hour p v = Val (Parsed.pput Parsed.F_hour_mod_12 (Some (v mod 12))
                               (Parsed.pput Parsed.F_hour_div_12 (Some (v / 12)) p), Parsed.Ok tt).
Proof.
  intros Hv H1 H2. unfold Parsed.set_hour, Parsed.contains.
  assert (Hm : Parsed.pget Parsed.F_hour_mod_12 (Parsed.pput Parsed.F_hour_div_12 (Some (v / 12)) p) = None) by (destruct p; exact H2).
  destruct ((0 <=? v) && (v <=? 11)) eqn:E1.
  - cbn [bind]. rewrite as_u32_small by (unfold u32_max; lia).
    replace (v / 12) with 0 in * by lia. replace (v mod 12) with v by lia.
    rewrite set_ifc_fresh by exact H1. rewrite set_ifc_fresh by exact Hm. reflexivity.
  - replace ((12 <=? v) && (v <=? 23)) with true by lia. rewrite as_u32_small by (unfold u32_max; lia).
    unfold sub_u32. rewrite chk_in by (unfold in_u32, in_range, u32_max; lia). cbn [bind].
    assert (Hq : v / 12 = 1) by lia.
    assert (Hr : v mod 12 = v - 12) by lia.
    rewrite Hq in *. rewrite Hr. rewrite set_ifc_fresh by exact H1. rewrite set_ifc_fresh by exact Hm. reflexivity.
Qed.

(** the white-space step of the recogniser is idempotent *)
Lemma skip_fws_stop : forall n s, (List.length s <= n)%nat -> fst (skip_fws (snd (skip_fws s))) = false.
Proof.
  induction n as [|n IH]; intros s Hn.
  { destruct s; [reflexivity|cbn in Hn; lia]. }
  destruct s as [|c r]; [reflexivity|]. cbn [List.length] in Hn.
  cbn [skip_fws]. destruct (is_wsp c) eqn:Ec.
  - cbn [snd]. apply IH. lia.
  - destruct r as [|c2 [|c3 r']].
    + cbn [snd skip_fws]. rewrite Ec. reflexivity.
    + cbn [snd skip_fws]. rewrite Ec. reflexivity.
    + destruct ((c =? 13) && (c2 =? 10) && is_wsp c3) eqn:E.
      * cbn [snd]. apply IH. cbn [List.length] in Hn. lia.
      * cbn [snd skip_fws]. rewrite Ec, E. reflexivity.
Qed.
Lemma ws0_idem s : ws0 (ws0 s) = ws0 s.
Proof.
  unfold ws0. destruct (fws_decomp _ (snd (skip_fws s)) (le_n _)) as (w & Hw & _ & _ & Hf).
  rewrite (Hf (skip_fws_stop _ s (le_n _))) in Hw. cbn [app] in Hw. symmetry. exact Hw.
Qed.

(** [ day-name "," ] *)
Lemma dow_scan p s wd s1 : utf8_valid s = true -> ws0 s = s -> rec_dow s = (wd, s1) ->
  match ws0 s1 with c :: _ => is_ascii_digit c = true | [] => False end ->
  Parsed.pget Parsed.F_weekday p = None ->
  opt_weekday p s = Val (POk (match wd with Some w => Parsed.pput Parsed.F_weekday (Some w) p | None => p end, s1))
  /\ utf8_valid s1 = true /\ tok_start s /\ match wd with Some w => 0 <= w <= 6 | None => True end.
Proof.
  intros Hv Hidem H Hd Hp. unfold rec_dow in H. unfold opt_weekday.
  assert (Hnone : wd = None -> s1 = s ->
    Val (POk (p, s)) = Val (POk (match wd with Some w => Parsed.pput Parsed.F_weekday (Some w) p | None => p end, s1)) /\
    (exists e, short_weekday s = Val (PErr e)) /\ tok_start s).
  { intros -> ->. split; [reflexivity|]. rewrite Hidem in Hd. split; [apply short_weekday_digit; assumption|].
    destruct s as [|c r]; [destruct Hd|]. cbn [tok_start]. pose proof (digit_range c Hd). lia. }
  destruct (day_name s) as [[w r]|] eqn:Edn.
  - destruct (day_name_scan s w r Hv Edn) as (Hsw & Hvr & Ht & Hw).
    destruct (expect 44 r) as [r'|] eqn:Eex.
    + injection H as <- <-. rewrite Hsw. cbn [bind]. unfold expect in Eex. destruct r as [|x r0]; [discriminate|].
      destruct (x =? 44) eqn:Ex; [|discriminate]. injection Eex as <-. assert (x = 44) by lia. subst x.
      unfold R2_WEEKDAY_SEP. cbn [starts_with_byte Z.eqb Pos.eqb negb].
      destruct (utf8_valid_tail_ascii 44 r0 ltac:(lia) Hvr) as [Hv0 Hs0].
      rewrite str_from_1 by exact Hs0. cbn [bind]. unfold Parsed.set_weekday. rewrite set_ifc_fresh by exact Hp.
      cbn [pset pbind bind pok]. auto.
    + injection H as <- <-. destruct (Hnone eq_refl eq_refl) as (_ & (e & He) & _). rewrite He in Hsw. discriminate.
  - injection H as <- <-. destruct (Hnone eq_refl eq_refl) as (Heq & (e & He) & Ht). rewrite He. cbn [bind].
    split; [reflexivity|]. split; [exact Hv|]. split; [exact Ht|exact I].
Qed.

(** [ ":" second ] *)
Lemma second_scan p s sec r : utf8_valid s = true -> rec_second s = Some (sec, r) ->
  match sec with Some v => v <= 60 | None => True end ->
  Parsed.pget Parsed.F_second p = None ->
  (sec = None -> tok_start (ws0 s) /\ match ws0 s with c :: _ => c <> 58 | [] => True end) ->
  opt_second p s = Val (POk (match sec with Some v => Parsed.pput Parsed.F_second (Some v) p | None => p end, r))
  /\ utf8_valid r = true.
Proof.
  intros Hv H Hsec Hp Hnone. unfold rec_second in H. unfold opt_second, R2_TIME_SEP2.
  pose proof (ws0_valid s Hv) as Hv0.
  destruct (ws0 s) as [|c t] eqn:Ews.
  - injection H as <- <-. destruct (Hnone eq_refl) as [[] _].
  - destruct (c =? 58) eqn:Ec.
    + assert (c = 58) by lia. subst c. unfold obind in H.
      destruct (take2 (ws0 t)) as [[v r']|] eqn:Et; [|discriminate]. injection H as <- <-.
      assert (Ht : tok_start (ws0 s)) by (rewrite Ews; cbn [tok_start]; lia).
      rewrite ws0_trim by exact Ht. rewrite Ews. rewrite char_ok by (exact Hv0 || lia).
      cbn [Z.eqb Pos.eqb bind]. change (R2_SECOND_TRIM =? 1) with true. cbv iota.
      destruct (utf8_valid_tail_ascii 58 t ltac:(lia) Hv0) as [Hvt _].
      destruct (take2_number (ws0 t) v r' (ws0_valid t Hvt) Et) as (Hn & Hvr & Hrange & Htok).
      rewrite ws0_trim by exact Htok. unfold R2_SECOND_MIN, R2_SECOND_MAX. rewrite Hn. cbn [pbind bind].
      unfold Parsed.set_second. rewrite set_checked_fresh by (assumption || lia).
      rewrite as_u32_small by (unfold u32_max; lia). cbn [pset pbind bind pok]. auto.
    + injection H as <- <-. destruct (Hnone eq_refl) as [Ht Hne].
      rewrite ws0_trim by (rewrite Ews; exact Ht). rewrite Ews. rewrite char_ok by (exact Hv0 || lia).
      rewrite Ec. cbn [bind]. auto.
Qed.

(** * The remainders only get shorter *)
Lemma ws1_len s r : ws1 s = Some r -> blen r <= blen s.
Proof. intros H. rewrite (ws1_ws0 _ _ H). apply fws_len. Qed.
Lemma ws0_len s : blen (ws0 s) <= blen s.
Proof. apply fws_len. Qed.
Lemma take_digits_len s : blen (snd (take_digits s)) <= blen s.
Proof.
  destruct (take_digits_spec s) as (ds & Hs & _). rewrite Hs at 2. rewrite blen_app. pose proof (blen_nonneg ds). lia.
Qed.
Lemma rec_day_len s d r : rec_day s = Some (d, r) -> blen r <= blen s.
Proof.
  unfold rec_day. pose proof (take_digits_len s) as H. destruct (take_digits s) as [dv r']. cbn [snd] in H.
  destruct dv as [|x [|y [|z dv]]]; try discriminate; intros E; injection E as _ <-; exact H.
Qed.
Lemma rec_year_len s yl yv r : rec_year s = Some (yl, yv, r) -> blen r <= blen s.
Proof.
  unfold rec_year. pose proof (take_digits_len s) as H. destruct (take_digits s) as [dv r']. cbn [snd] in H.
  destruct (2 <=? Z.of_nat (List.length dv)); [|discriminate]. intros E. inversion E. subst. exact H.
Qed.
Lemma name3_len s k r : name3 s = Some (k, r) -> blen r <= blen s.
Proof.
  unfold name3. destruct s as [|a [|b [|c t]]]; try discriminate. intros E. injection E as _ <-.
  rewrite !blen_cons. lia.
Qed.
Lemma month_name_len s mo r : month_name s = Some (mo, r) -> blen r <= blen s.
Proof.
  unfold month_name, obind. destruct (name3 s) as [[k r']|] eqn:E; [|discriminate].
  destruct (lookup k month_names); [|discriminate]. intros H. injection H as _ <-. eapply name3_len; exact E.
Qed.
Lemma expect_len c s r : expect c s = Some r -> blen r <= blen s.
Proof.
  unfold expect. destruct s as [|x t]; [discriminate|]. destruct (x =? c); [|discriminate]. intros E. injection E as <-.
  rewrite blen_cons. lia.
Qed.
Lemma take2_len s v r : take2 s = Some (v, r) -> blen r <= blen s.
Proof.
  unfold take2. destruct s as [|a [|b t]]; try discriminate. destruct (is_digit a && is_digit b); [|discriminate].
  intros E. apply some_pair_inj in E. destruct E as [_ <-]. rewrite !blen_cons. lia.
Qed.
Lemma rec_dow_len s wd r : rec_dow s = (wd, r) -> blen r <= blen s.
Proof.
  unfold rec_dow, day_name, obind. destruct (name3 s) as [[k r']|] eqn:E.
  - destruct (lookup k day_names).
    + destruct (expect 44 r') as [r''|] eqn:Ee; intros H; injection H as _ <-; [|lia].
      pose proof (expect_len _ _ _ Ee). pose proof (name3_len _ _ _ E). lia.
    + intros H. injection H as _ <-. lia.
  - intros H. injection H as _ <-. lia.
Qed.
Lemma rec_second_len s sec r : rec_second s = Some (sec, r) -> blen r <= blen s.
Proof.
  unfold rec_second, obind. pose proof (ws0_len s) as H0. destruct (ws0 s) as [|c t].
  - intros E. injection E as _ <-. lia.
  - destruct (c =? 58).
    + destruct (take2 (ws0 t)) as [[v r']|] eqn:Et; [|discriminate]. intros E. injection E as _ <-.
      pose proof (take2_len _ _ _ Et). pose proof (ws0_len t). rewrite blen_cons in H0. lia.
    + intros E. injection E as _ <-. lia.
Qed.
Lemma rec_zone_len s z r : rec_zone s = Some (z, r) -> blen r <= blen s.
Proof.
  unfold rec_zone, obind. destruct s as [|c t]; [discriminate|].
  destruct ((c =? 43) || (c =? 45)).
  - destruct (take2 t) as [[hh t1]|] eqn:E1; [|discriminate]. destruct (take2 t1) as [[mm t2]|] eqn:E2; [|discriminate].
    intros E. injection E as _ <-. pose proof (take2_len _ _ _ E1). pose proof (take2_len _ _ _ E2). rewrite blen_cons. lia.
  - destruct (take_alpha_spec (c :: t)) as (name & Hs & _). destruct (take_alpha (c :: t)) as [name' rest]. cbn [snd] in Hs.
    assert (Hb : blen rest <= blen (c :: t)) by (rewrite Hs; rewrite blen_app; pose proof (blen_nonneg name); lia).
    destruct (lookup (map lower name') zone_names).
    + intros E. injection E as _ <-. exact Hb.
    + destruct name' as [|l [|l2 nm]]; try discriminate. destruct (lower l =? 106); [discriminate|].
      intros E. injection E as _ <-. exact Hb.
Qed.

(** * Assembly: the fields a string of the grammar sets *)
Definition parsed_of (f : fields) : Parsed.parsed :=
  let p := Parsed.parsed_new in
  let p := match f_wd f with Some w => Parsed.pput Parsed.F_weekday (Some w) p | None => p end in
  let p := Parsed.pput Parsed.F_day (Some (f_day f)) p in
  let p := Parsed.pput Parsed.F_month (Some (f_month f)) p in
  let p := Parsed.pput Parsed.F_year (Some (year_of f)) p in
  let p := Parsed.pput Parsed.F_hour_div_12 (Some (f_hour f / 12)) p in
  let p := Parsed.pput Parsed.F_hour_mod_12 (Some (f_hour f mod 12)) p in
  let p := Parsed.pput Parsed.F_minute (Some (f_minute f)) p in
  let p := match f_second f with Some v => Parsed.pput Parsed.F_second (Some v) p | None => p end in
  Parsed.pput Parsed.F_offset (Some (zone_offset (f_zone f))) p.

Lemma zone_start s z r : rec_zone s = Some (z, r) ->
  match s with c :: _ => 33 <= c <= 126 /\ c <> 58 | [] => False end.
Proof.
  unfold rec_zone. destruct s as [|c t]; [discriminate|].
  destruct ((c =? 43) || (c =? 45)) eqn:E; [intros _; lia|].
  destruct (take_alpha_spec (c :: t)) as (name & Hs & Hfst & Halpha & _).
  destruct (take_alpha (c :: t)) as [name' rest]. cbn [fst snd] in *. subst name'.
  intros H. destruct name as [|x name].
  - cbn in H. discriminate.
  - cbn [app] in Hs. injection Hs as <- _. cbn [forallb] in Halpha. apply andb_prop in Halpha. destruct Halpha as [Hx _].
    unfold is_ascii_alphabetic, is_ascii_uppercase, is_ascii_lowercase in Hx. lia.
Qed.
Lemma rec_day_digit s d r : rec_day s = Some (d, r) -> match s with c :: _ => is_ascii_digit c = true | [] => False end.
Proof.
  unfold rec_day. destruct (take_digits_spec s) as (ds & Hs & Hd & Hf & _).
  destruct (take_digits s) as [dv r'] eqn:Et. cbn [fst snd] in *. intros H.
  destruct ds as [|c ds]; [subst dv; discriminate|]. rewrite Hs. cbn [app forallb] in *. apply andb_prop in Hd. exact (proj1 Hd).
Qed.
Lemma two_digits_range s r v : two_digits s = POk (r, v) -> 0 <= v <= 99.
Proof.
  unfold two_digits. destruct s as [|a [|b t]]; try discriminate.
  destruct (is_ascii_digit a) eqn:Ea; [|discriminate]. destruct (is_ascii_digit b) eqn:Eb; [|discriminate].
  cbv [andb]. intros H. pose proof (digit_range a Ea). pose proof (digit_range b Eb).
  assert (v = 10 * (a - 48) + (b - 48)) by congruence. lia.
Qed.
Lemma zone_offset_range z : valid_zone z = true -> (exists s r, rec_zone s = Some (z, r)) -> -360000 < zone_offset z < 360000.
Proof.
  intros Hz (s & r & H). unfold rec_zone, obind in H. destruct s as [|c t]; [discriminate|].
  destruct ((c =? 43) || (c =? 45)).
  - destruct (take2 t) as [[hh t1]|] eqn:E1; [|discriminate]. destruct (take2 t1) as [[mm t2]|] eqn:E2; [|discriminate].
    apply some_pair_inj in H. destruct H as [<- _].
    rewrite take2_two in E1, E2.
    destruct (two_digits t) as [[r1 v1]|] eqn:T1; [|discriminate]. destruct (two_digits t1) as [[r2 v2]|] eqn:T2; [|discriminate].
    apply some_pair_inj in E1. apply some_pair_inj in E2. destruct E1 as [<- _]. destruct E2 as [<- _].
    pose proof (two_digits_range _ _ _ T1). pose proof (two_digits_range _ _ _ T2).
    unfold valid_zone in Hz. unfold zone_offset. destruct (c =? 45); lia.
  - destruct (take_alpha (c :: t)) as [name rest].
    destruct (lookup (map lower name) zone_names) as [hh|] eqn:El.
    + apply some_pair_inj in H. destruct H as [<- _]. apply lookup_in in El. rewrite zone_names_eq in El. cbn [In] in El.
      unfold zone_offset. repeat (destruct El as [El|El]; [inversion El; lia|]). destruct El.
    + destruct name as [|l [|l2 nm]]; try discriminate. destruct (lower l =? 106); [discriminate|].
      apply some_pair_inj in H. destruct H as [<- _]. cbv [zone_offset]. lia.
Qed.

Theorem scan_complete s f : utf8_valid s = true -> blen s <= u64_max ->
  recognise s = Some f -> valid f = true -> year_in_range (year_of f) = true ->
  parse_items_rfc2822 Parsed.parsed_new s = Val (POk (parsed_of f)).
Proof.
  intros Hv Hl Hr Hval Hyr. unfold recognise in Hr.
  destruct (rec_dow (ws0 s)) as [wd s1] eqn:Edow.
  unfold obind in Hr.
  destruct (rec_day (ws0 s1)) as [[d s2]|] eqn:Eday; [|discriminate].
  destruct (ws1 s2) as [s3|] eqn:Ews1; [|discriminate].
  destruct (month_name s3) as [[mo s4]|] eqn:Emon; [|discriminate].
  destruct (ws1 s4) as [s5|] eqn:Ews2; [|discriminate].
  destruct (rec_year s5) as [[[yl yv] s6]|] eqn:Eyear; [|discriminate].
  destruct (ws1 s6) as [s7|] eqn:Ews3; [|discriminate].
  destruct (take2 s7) as [[h s8]|] eqn:Eh; [|discriminate].
  destruct (expect 58 (ws0 s8)) as [s9|] eqn:Ecol; [|discriminate].
  destruct (take2 (ws0 s9)) as [[mi s10]|] eqn:Emi; [|discriminate].
  destruct (rec_second s10) as [[sec s11]|] eqn:Esec; [|discriminate].
  destruct (ws1 s11) as [s12|] eqn:Ews4; [|discriminate].
  destruct (rec_zone s12) as [[z s13]|] eqn:Ez; [|discriminate].
  destruct (comments_to_end (S (List.length s13)) s13) eqn:Ecom; [|discriminate].
  injection Hr as <-.
  (* what validity says about the fields *)
  unfold valid in Hval. cbn [f_month f_day f_hour f_minute f_second f_zone] in Hval.
  set (F := mk_fields wd d mo yl yv h mi sec z) in *.
  assert (Hfields : valid_ymd (year_of F) mo d = true /\ h <= 23 /\ mi <= 59 /\ second_of F <= 60 /\ valid_zone z = true).
  { repeat (apply andb_prop in Hval; destruct Hval as [Hval ?]). repeat split; try assumption; try lia. unfold valid_ymd. lia. }
  destruct Hfields as (Hymd & Hh & Hmi & Hsecv & Hzv).
  (* lengths *)
  pose proof (ws0_len s) as L0. pose proof (rec_dow_len _ _ _ Edow) as L1. pose proof (ws0_len s1) as L1'.
  pose proof (rec_day_len _ _ _ Eday) as L2. pose proof (ws1_len _ _ Ews1) as L3. pose proof (month_name_len _ _ _ Emon) as L4.
  pose proof (ws1_len _ _ Ews2) as L5. pose proof (rec_year_len _ _ _ _ Eyear) as L6. pose proof (ws1_len _ _ Ews3) as L7.
  pose proof (take2_len _ _ _ Eh) as L8. pose proof (ws0_len s8) as L8'. pose proof (expect_len _ _ _ Ecol) as L9.
  pose proof (ws0_len s9) as L9'. pose proof (take2_len _ _ _ Emi) as L10. pose proof (rec_second_len _ _ _ Esec) as L11.
  pose proof (ws1_len _ _ Ews4) as L12. pose proof (rec_zone_len _ _ _ Ez) as L13.
  (* forward: every intermediate string *)
  pose proof (ws0_valid s Hv) as Hv0.
  pose proof (rec_day_digit _ _ _ Eday) as Hdig.
  destruct (dow_scan Parsed.parsed_new (ws0 s) wd s1 Hv0 (ws0_idem s) Edow Hdig eq_refl) as (Ndow & Hv1 & Tdow & Rwd).
  destruct (day_scan (ws0 s1) d s2 (ws0_valid s1 Hv1) Eday) as (Nday & Hv2 & Tday & Rday).
  assert (Hv3 : utf8_valid s3 = true) by (rewrite (ws1_ws0 _ _ Ews1); apply ws0_valid; exact Hv2).
  destruct (month_name_scan s3 mo s4 Hv3 Emon) as (Nmon & Hv4 & Tmon & Rmon).
  assert (Hv5 : utf8_valid s5 = true) by (rewrite (ws1_ws0 _ _ Ews2); apply ws0_valid; exact Hv4).
  assert (Hyv' : yv <= 262142).
  { unfold year_in_range, MAX_YEAR, MIN_YEAR in Hyr. unfold year_of in Hyr. cbn [F f_ylen f_yval] in Hyr.
    destruct (yl =? 2); [destruct (yv <=? 49)|destruct (yl =? 3)]; lia. }
  assert (Hyv : yv <= i64_max) by (unfold i64_max; lia).
  destruct (year_scan s5 yl yv s6 Hv5 ltac:(lia) Eyear Hyv) as (Nyear & Hv6 & Tyear & Hyl & Hyl2 & Hyvr).
  assert (Hv7 : utf8_valid s7 = true) by (rewrite (ws1_ws0 _ _ Ews3); apply ws0_valid; exact Hv6).
  destruct (take2_number s7 h s8 Hv7 Eh) as (Nh & Hv8 & Rh & Th).
  pose proof (ws0_valid s8 Hv8) as Hv8'.
  assert (Hcol : ws0 s8 = 58 :: s9).
  { unfold expect in Ecol. destruct (ws0 s8) as [|x t]; [discriminate|]. destruct (x =? 58) eqn:Ex; [|discriminate].
    injection Ecol as ->. f_equal. lia. }
  assert (Hv9 : utf8_valid s9 = true) by (rewrite Hcol in Hv8'; destruct (utf8_valid_tail_ascii 58 s9 ltac:(lia) Hv8') as [H _]; exact H).
  destruct (take2_number (ws0 s9) mi s10 (ws0_valid s9 Hv9) Emi) as (Nmi & Hv10 & Rmi & Tmi).
  assert (Hs12 : s12 = ws0 s11) by (apply ws1_ws0; exact Ews4).
  pose proof (zone_start _ _ _ Ez) as Hzs.
  assert (Hp0 : Parsed.pget Parsed.F_weekday Parsed.parsed_new = None) by reflexivity.
  set (p1 := match wd with Some w => Parsed.pput Parsed.F_weekday (Some w) Parsed.parsed_new | None => Parsed.parsed_new end) in *.
  set (p2 := Parsed.pput Parsed.F_day (Some d) p1).
  set (p3 := Parsed.pput Parsed.F_month (Some mo) p2).
  set (p4 := Parsed.pput Parsed.F_year (Some (year_of F)) p3).
  set (p6 := Parsed.pput Parsed.F_hour_mod_12 (Some (h mod 12)) (Parsed.pput Parsed.F_hour_div_12 (Some (h / 12)) p4)).
  set (p7 := Parsed.pput Parsed.F_minute (Some mi) p6).
  destruct (second_scan p7 s10 sec s11 Hv10 Esec) as (Nsec & Hv11).
  { unfold second_of in Hsecv. cbn [F f_second] in Hsecv. destruct sec; [exact Hsecv|exact I]. }
  { destruct wd; reflexivity. }
  { intros ->. unfold rec_second in Esec. destruct (ws0 s10) as [|c t] eqn:E10.
    - injection Esec as <-. rewrite Hs12, E10 in Hzs. destruct Hzs.
    - destruct (c =? 58) eqn:Ec.
      + unfold obind in Esec. destruct (take2 (ws0 t)) as [[v r']|]; discriminate.
      + injection Esec as <-. rewrite Hs12, E10 in Hzs. cbn [tok_start]. split; [lia|lia]. }
  assert (Hv12 : utf8_valid s12 = true) by (rewrite Hs12; apply ws0_valid; exact Hv11).
  destruct (zone_scan s12 z s13 Hv12 Ez Hzv) as (Nz & Hv13 & Tz).
  pose proof (zone_offset_range z Hzv (ex_intro _ s12 (ex_intro _ s13 Ez))) as Hzr.
  pose proof (comments_scan _ s13 Hv13 ltac:(lia) Ecom) as Ncom.
  (* the model, step by step *)
  unfold parse_items_rfc2822, parse_rfc2822.
  rewrite (ws0_trim s Tdow). rewrite Ndow. cbv [pbind bind]. fold p1.
  rewrite (ws0_trim s1 Tday). unfold R2_DAY_MIN, R2_DAY_MAX. rewrite Nday. cbv [pbind bind].
  unfold Parsed.set_day. rewrite set_checked_fresh; [|destruct wd; reflexivity|].
  2:{ unfold valid_ymd in Hymd. assert (days_in_month (is_leap (year_of F)) mo <= 31) by (unfold days_in_month; destruct (mo =? 2); [destruct (is_leap (year_of F))|destruct ((mo =? 4) || (mo =? 6) || (mo =? 9) || (mo =? 11))]; lia). lia. }
  rewrite as_u32_small by (unfold u32_max; lia). cbv [pset pok pbind bind]. fold p2.
  rewrite (space_ws1 s2 s3 Hv2 Ews1 Tmon). cbv [pbind bind].
  rewrite Nmon. cbv [pbind bind].
  unfold add_i64, R2_MONTH_ADD. rewrite chk_in by (unfold in_i64, in_range, i64_min, i64_max; lia). cbv [bind].
  unfold Parsed.set_month. rewrite set_checked_fresh; [|destruct wd; reflexivity|lia].
  rewrite as_u32_small by (unfold u32_max; lia). replace (1 + (mo - 1)) with mo by lia. cbv [pset pok pbind bind]. fold p3.
  rewrite (space_ws1 s4 s5 Hv4 Ews2 Tyear). cbv [pbind bind].
  unfold R2_YEAR_MIN. rewrite Nyear. cbv [pbind bind].
  pose proof (blen_nonneg s6) as Hnn6. unfold sub_usize. rewrite chk_in by (unfold in_usize, in_u64, in_range, u64_max in *; lia). cbv [bind].
  rewrite Hyl. rewrite year_rule_ok by (unfold i64_max; lia).
  cbv [bind]. change (year_rule_spec yl yv) with (year_of F).
  unfold Parsed.set_year. rewrite set_checked_fresh; [|destruct wd; reflexivity|unfold year_in_range, MIN_YEAR, MAX_YEAR in Hyr; unfold i32_min, i32_max; lia].
  cbv [pset pok pbind bind]. fold p4.
  rewrite (space_ws1 s6 s7 Hv6 Ews3 Th). cbv [pbind bind].
  unfold R2_HOUR_MIN, R2_HOUR_MAX. rewrite Nh. cbv [pbind bind].
  rewrite set_hour_fresh; [|lia|destruct wd; reflexivity|destruct wd; reflexivity]. cbv [pset pok pbind bind]. fold p6.
  assert (Tcol : tok_start (ws0 s8)) by (rewrite Hcol; cbn [tok_start]; lia).
  rewrite (ws0_trim s8 Tcol). rewrite Hcol. unfold R2_TIME_SEP1. rewrite char_ok by (first [rewrite <- Hcol; exact Hv8' | lia]).
  cbn [Z.eqb Pos.eqb]. cbv [pbind bind].
  rewrite (ws0_trim s9 Tmi). unfold R2_MINUTE_MIN, R2_MINUTE_MAX. rewrite Nmi. cbv [pbind bind].
  unfold Parsed.set_minute. rewrite set_checked_fresh; [|destruct wd; reflexivity|lia].
  rewrite as_u32_small by (unfold u32_max; lia). cbv [pset pok pbind bind]. fold p7.
  rewrite Nsec. cbv [pbind bind].
  rewrite (space_ws1 s11 s12 Hv11 Ews4 Tz). cbv [pbind bind].
  rewrite Nz. cbv [pbind bind].
  unfold Parsed.set_offset. rewrite set_checked_fresh; [|destruct wd, sec; reflexivity|unfold i32_min, i32_max; lia].
  cbv [pset pok pbind bind]. rewrite Ncom. cbv [bind is_empty]. reflexivity.
Qed.

(** * timezone_offset_2822 never traps on a well-formed string *)
Lemma tz_tail_nocolon_total neg s : utf8_valid s = true -> exists r, tz_tail neg s (fun s => pok s) false = Val r.
Proof.
  intros Hv. unfold tz_tail. destruct s as [|h1 [|h2 s2]]; try (eexists; reflexivity). cbn [tz_digits].
  destruct (is_ascii_digit h1) eqn:E1; [|eexists; reflexivity]. destruct (is_ascii_digit h2) eqn:E2; [|eexists; reflexivity].
  cbn [andb]. pose proof (digit_range h1 E1). pose proof (digit_range h2 E2).
  rewrite two_digit_value_ok by assumption. cbv [plift bind pbind].
  assert (Hv2 : utf8_valid s2 = true) by (rewrite !utf8_valid_ascii in Hv by lia; exact Hv).
  rewrite str_from_2 by (apply utf8_valid_starts_ok; exact Hv2). cbv [bind pbind pok].
  destruct s2 as [|m1 [|m2 s4]]; try (eexists; reflexivity). cbn [tz_digits].
  change TZ_MIN_TENS_LO with 48. change TZ_MIN_TENS_HI with 53. change TZ_MIN_OOR_TENS_LO with 54. change TZ_MIN_OOR_TENS_HI with 57.
  destruct ((48 <=? m1) && (m1 <=? 53) && is_ascii_digit m2) eqn:Em.
  2:{ destruct ((54 <=? m1) && (m1 <=? 57) && is_ascii_digit m2); cbv [perr_ pbind bind]; eexists; reflexivity. }
  apply andb_prop in Em. destruct Em as [Em1 Em2]. pose proof (digit_range m2 Em2).
  assert (is_ascii_digit m1 = true) by (unfold is_ascii_digit; lia).
  rewrite two_digit_value_ok by assumption. cbv [plift bind pbind].
  rewrite !blen_cons. pose proof (blen_nonneg s4). replace (1 + (1 + blen s4) >=? 2) with true by lia.
  assert (Hv4 : utf8_valid s4 = true) by (rewrite !utf8_valid_ascii in Hv2 by lia; exact Hv2).
  rewrite str_from_2 by (apply utf8_valid_starts_ok; exact Hv4). cbv [plift bind pbind].
  change TZ_SECS_PER_HOUR with 3600. change TZ_SECS_PER_MINUTE with 60.
  unfold mul_i32, add_i32, neg_i32.
  rewrite chk_in by (unfold in_i32, in_range, i32_min, i32_max; lia). cbv [bind].
  rewrite chk_in by (unfold in_i32, in_range, i32_min, i32_max; lia). cbv [bind].
  rewrite chk_in by (unfold in_i32, in_range, i32_min, i32_max; lia). cbv [bind].
  destruct neg; [|eexists; reflexivity].
  rewrite chk_in by (unfold in_i32, in_range, i32_min, i32_max; lia). eexists; reflexivity.
Qed.
Lemma assoc_lc_range key t o : assoc_lc key t = Some o -> In o (map snd t).
Proof.
  induction t as [|[k v] t IH]; [discriminate|]. cbn [assoc_lc map snd].
  destruct ((blen key =? blen k) && all2 Z.eqb key (map to_ascii_lowercase k)).
  - intros H. injection H as ->. left. reflexivity.
  - intros H. right. apply IH. exact H.
Qed.
Theorem timezone_offset_2822_total s : utf8_valid s = true -> exists r, timezone_offset_2822 s = Val r.
Proof.
  intros Hv. unfold timezone_offset_2822.
  destruct (take_alpha_spec s) as (name & Hs & _ & Halpha & Hlen & _).
  rewrite Hlen. destruct (blen name >? 0) eqn:E.
  - pose proof (alpha_forall name Halpha) as Hascii.
    remember (snd (take_alpha s)) as rest eqn:Hrest. clear Hrest Hlen. subst s.
    assert (Hvr : utf8_valid rest = true) by (rewrite utf8_valid_app_ascii in Hv by exact Hascii; exact Hv).
    rewrite slice_to_app. cbv [bind].
    rewrite str_from_app by (apply utf8_valid_starts_ok; exact Hvr). cbv [bind].
    rewrite assoc_ic_lc. destruct (assoc_lc (map to_ascii_lowercase name) TZ2822_NAMES) as [o|] eqn:Eo.
    + apply assoc_lc_range in Eo. unfold TZ2822_NAMES in Eo. cbn [map snd In] in Eo.
      unfold mul_i32, TZ2822_SECS_PER_HOUR.
      rewrite chk_in by (unfold in_i32, in_range, i32_min, i32_max; repeat (destruct Eo as [<-|Eo]; [lia|]); destruct Eo).
      eexists; reflexivity.
    + destruct (blen name =? 1) eqn:E1; [|eexists; reflexivity].
      destruct name as [|l [|l2 nm]]; [cbv in E1; discriminate| |rewrite !blen_cons in E1; pose proof (blen_nonneg nm); lia].
      change (index [l] 0) with (Val l). cbv [bind]. destruct (in_ranges l TZ2822_MILITARY); eexists; reflexivity.
  - rewrite timezone_offset_unfold. cbn [andb].
    pose proof (ncp_valid s Hv) as Hn. destruct s as [|c r]; [rewrite Hn; eexists; reflexivity|].
    change (len_utf8 43) with 1. change (len_utf8 45) with 1. cbn [negb].
    destruct Hn as [[Hc Hn]|[Hc (cp & r' & Hn & Hcp & _)]]; rewrite Hn.
    + destruct (utf8_valid_tail_ascii c r Hc Hv) as [Hvr Hsr].
      destruct (c =? 43); [rewrite str_from_1 by exact Hsr; cbv [bind pbind pok]; apply tz_tail_nocolon_total; exact Hvr|].
      destruct (c =? 45); [rewrite str_from_1 by exact Hsr; cbv [bind pbind pok]; apply tz_tail_nocolon_total; exact Hvr|].
      destruct (c =? TZ_MINUS_SIGN); eexists; reflexivity.
    + replace (cp =? 43) with false by lia. replace (cp =? 45) with false by lia.
      destruct (cp =? TZ_MINUS_SIGN); eexists; reflexivity.
Qed.
