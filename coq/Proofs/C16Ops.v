(** C16 — every op of the dispatcher Model/C16.v [run]: which model function answers it, and what
    the answer of the op is in terms of the theorems about those functions (Proofs/C16.v).
    Statements are collected in Props/C16.v; the table is coverage/OPS_THEOREMS_C16.md. *)
From Coq Require Import ZArith List Bool Lia ZifyBool String.
From V Require Import Base.Int Base.IO Base.IntLemmas Spec.Gregorian Gen.TzInfo.
From V Require Import Model.TzParser Model.TzRule Model.TzLookup Model.C16.
From V Require Import Proofs.TzCommon Proofs.TzEval Proofs.TzGrammar Proofs.C16.
Import ListNotations.
Open Scope Z_scope.
Ltac Zify.zify_post_hook ::= Z.to_euclidean_division_equations.

(** ** the argument shapes of the dispatcher *)
Definition sh_bytes (f : bytes -> val) (args : list val) : val :=
  match args with [VStr b] => f b | _ => VBad end.
Definition sh_rule (f : bytes -> bool -> val) (args : list val) : val :=
  match args with
  | [VStr s; e] => match arg_flag e with Some ext => f s ext | None => VBad end
  | _ => VBad end.
Definition sh_bytes_list {X} (dec : val -> option X) (f : bytes -> list X -> val) (args : list val) : val :=
  match args with
  | [VStr b; VTup ts] => match all_some dec ts with Some ts => f b ts | None => VBad end
  | _ => VBad end.
Definition sh_rule_list {X} (dec : val -> option X) (f : bytes -> bool -> list X -> val) (args : list val) : val :=
  match args with
  | [VStr s; e; VTup ts] =>
      match arg_flag e, all_some dec ts with Some ext, Some ts => f s ext ts | _, _ => VBad end
  | _ => VBad end.

Definition at_val (z : timezone) (t : Z) : val := val_of_rr enc_ltt (find_local_time_type z t).
Definition atlocal_val (z : timezone) (p : Z * Z) : val :=
  let '(y, t) := p in val_of_rr enc_mlt (find_local_time_type_from_local z y t).
Definition rule_val (z : timezone) : val :=
  match extra_rule z with Some r => enc_rule r | None => VErr B"NORULE" end.

(** which model function answers which op (every op of the dispatcher; any other name: NOOP) *)
Theorem dispatch args :
  run (B"tz.parse") args = sh_bytes (fun b => val_of_rr enc_zone (parse b)) args /\
  run (B"tz.rule") args = sh_rule (fun s ext => val_of_rr rule_val (zone_of_tz_string s ext)) args /\
  run (B"tz.at") args = sh_bytes_list arg_i64 (fun b ts => lookups (parse b) ts at_val) args /\
  run (B"tz.rat") args = sh_rule_list arg_i64 (fun s ext ts => lookups (zone_of_tz_string s ext) ts at_val) args /\
  run (B"tz.atlocal") args = sh_bytes_list arg_ndt (fun b ns => lookups (parse b) ns atlocal_val) args /\
  run (B"tz.ratlocal") args = sh_rule_list arg_ndt (fun s ext ns => lookups (zone_of_tz_string s ext) ns atlocal_val) args.
Proof. repeat split. Qed.

(** ** an answer that is a value or an error name, never PANIC / FUEL *)
Definition answered {A} (x : R (res A)) : Prop := exists r, x = Val r.
Lemma val_of_rr_answered {A} (f : A -> val) (x : R (res A)) : answered x ->
  (exists a, x = Val (Ok a) /\ val_of_rr f x = f a) \/ (exists e, x = Val (Err e) /\ val_of_rr f x = enc_err e).
Proof. intros ([a|e] & ->); [left; exists a|right; exists e]; split; reflexivity. Qed.

(** ** tz.parse: the zone of [parse], well formed, or the name of [parse]'s error *)
Theorem op_parse b : data_ok b ->
  (exists z, parse b = Val (Ok z) /\ zone_wf z /\ run (B"tz.parse") [VStr b] = enc_zone z) \/
  (exists e, parse b = Val (Err e) /\ run (B"tz.parse") [VStr b] = enc_err e).
Proof.
  intros Hd. destruct (parse_spec b Hd) as (r & Hr & Hq).
  change (run (B"tz.parse") [VStr b]) with (val_of_rr enc_zone (parse b)). rewrite Hr.
  destruct r as [z|e]; [left; exists z|right; exists e; split; reflexivity].
  split; [reflexivity|]. split; [apply Hq|reflexivity].
Qed.

(** ** Zone::from_tz_string of the hook: never traps; an accepted zone is well formed, carries the
    rule [from_tz_string] returned, has no transition and no leap record, and its types are the
    types of the rule *)
Definition rule_types (r : trule) : list ltt :=
  match r with Fixed l => [l] | Alternate a => [a_std a; a_dst a] end.
Theorem zone_of_tz_string_spec s ext : data_ok s ->
  postr (zone_of_tz_string s ext)
        (fun z => zone_wf z /\ exists r, from_tz_string s ext = Val (Ok r) /\ rule_ok r /\
                                         z = mk_tz [] (rule_types r) [] (Some r)).
Proof.
  intros [Hl Hb]. unfold zone_of_tz_string.
  destruct (from_tz_string_spec s ext) as (rr & Hr & Hq); [unfold i64_max, u64_max in *; lia|exact Hb|].
  rewrite Hr. destruct rr as [r|e]; [|exists (Err e); split; [reflexivity|exact I]].
  cbn [rbind]. fold (rule_types r).
  eapply postr_weaken.
  - apply tz_new_spec.
    + constructor.
    + destruct r as [l|a]; cbn [rule_types rule_ok] in *.
      * constructor; [exact Hq|constructor].
      * destruct Hq as (H1 & H2 & _). constructor; [exact H1|constructor; [exact H2|constructor]].
    + constructor.
    + exact Hq.
    + change (zlen (@nil transition)) with 0. unfold i64_max. lia.
    + change (zlen (@nil leap)) with 0. unfold i64_max. lia.
  - intros z [Hz Hwf]. split; [exact Hwf|]. exists r. split; [reflexivity|]. split; [exact Hq|exact Hz].
Qed.

Theorem op_rule s e ext : data_ok s -> arg_flag e = Some ext ->
  (exists r, from_tz_string s ext = Val (Ok r) /\ rule_ok r /\
             zone_of_tz_string s ext = Val (Ok (mk_tz [] (rule_types r) [] (Some r))) /\
             run (B"tz.rule") [VStr s; e] = enc_rule r) \/
  (exists err, zone_of_tz_string s ext = Val (Err err) /\ run (B"tz.rule") [VStr s; e] = enc_err err).
Proof.
  intros Hd He. destruct (zone_of_tz_string_spec s ext Hd) as (rr & Hr & Hq).
  assert (E : run (B"tz.rule") [VStr s; e] = val_of_rr rule_val (zone_of_tz_string s ext)).
  { destruct (dispatch [VStr s; e]) as (_ & H & _). rewrite H. cbn [sh_rule]. rewrite He. reflexivity. }
  rewrite E, Hr. destruct rr as [z|err]; [left|right; exists err; split; reflexivity].
  destruct Hq as (Hwf & r & Hf & Hro & ->). exists r.
  split; [exact Hf|]. split; [exact Hro|]. split; reflexivity.
Qed.

(** ** the four lookup ops: the reader's error, or one answer per query, each the value or the
    error name of the lookup function on the accepted (well-formed) zone — never PANIC / FUEL *)
Lemma all_some_Forall {A X} (f : A -> option X) (P : X -> Prop) :
  (forall a x, f a = Some x -> P x) -> forall l xs, all_some f l = Some xs -> Forall P xs.
Proof.
  intros Hf. induction l as [|a r IH]; intros xs H; cbn [all_some] in H.
  - injection H as <-. constructor.
  - destruct (f a) as [x|] eqn:Ea; [|discriminate]. destruct (all_some f r) as [xr|] eqn:Er; [|discriminate].
    injection H as <-. constructor; [eapply Hf; exact Ea|apply IH; reflexivity].
Qed.
Lemma arg_i64_range v t : arg_i64 v = Some t -> in_i64 t = true.
Proof.
  destruct v; cbn [arg_i64]; try discriminate. destruct (in_i64 z) eqn:E; [|discriminate]. intros H. injection H as <-. exact E.
Qed.
Lemma arg_ndt_range v p : arg_ndt v = Some p -> -2147483650 <= fst p <= 2147483650.
Proof.
  unfold arg_ndt. intros H.
  repeat match type of H with
         | match ?x with _ => _ end = _ => destruct x eqn:?; try discriminate H
         end.
  injection H as <-. cbn [fst].
  match goal with E : (year_in_range ?y && _ && _ && _ && _ && _) = true |- _ =>
    unfold year_in_range, MIN_YEAR, MAX_YEAR in E; lia end.
Qed.

Definition lookup_answers {X} (zr : R (res timezone)) (xs : list X) (f : timezone -> X -> val)
                          (ans : timezone -> X -> Prop) (out : val) : Prop :=
  (exists z, zr = Val (Ok z) /\ zone_wf z /\ out = VTup (map (f z) xs) /\ Forall (ans z) xs) \/
  (exists e, zr = Val (Err e) /\ out = enc_err e).
Definition at_answered (z : timezone) (t : Z) : Prop := answered (find_local_time_type z t).
Definition atlocal_answered (z : timezone) (p : Z * Z) : Prop :=
  answered (find_local_time_type_from_local z (fst p) (snd p)).

Lemma lookups_at zr ts : postr zr zone_wf -> Forall (fun t => in_i64 t = true) ts ->
  lookup_answers zr ts at_val at_answered (lookups zr ts at_val).
Proof.
  intros (r & -> & Hq) Hts. unfold lookups, lookup_answers. cbn [val_of_rr].
  destruct r as [z|e]; [left; exists z|right; exists e; split; reflexivity].
  split; [reflexivity|]. split; [exact Hq|]. split; [reflexivity|]. eapply Forall_impl; [|exact Hts].
  intros t Ht. destruct (find_local_time_type_total z t Hq Ht) as (x & Hx & _). exists x. exact Hx.
Qed.
Lemma lookups_atlocal zr ns : postr zr zone_wf -> Forall (fun p => -2147483650 <= fst p <= 2147483650) ns ->
  lookup_answers zr ns atlocal_val atlocal_answered (lookups zr ns atlocal_val).
Proof.
  intros (r & -> & Hq) Hns. unfold lookups, lookup_answers. cbn [val_of_rr].
  destruct r as [z|e]; [left; exists z|right; exists e; split; reflexivity].
  split; [reflexivity|]. split; [exact Hq|]. split; [reflexivity|]. eapply Forall_impl; [|exact Hns].
  intros [y t] Hy. cbn [fst] in Hy. destruct (find_local_time_type_from_local_total z y t Hq Hy) as (x & Hx & _).
  exists x. exact Hx.
Qed.

Lemma parse_postr_wf b : data_ok b -> postr (parse b) zone_wf.
Proof. intros H. eapply postr_weaken; [apply parse_spec; exact H|]. intros z [Hz _]. exact Hz. Qed.
Lemma zone_of_tz_string_wf s ext : data_ok s -> postr (zone_of_tz_string s ext) zone_wf.
Proof. intros H. eapply postr_weaken; [apply zone_of_tz_string_spec; exact H|]. intros z [Hz _]. exact Hz. Qed.

Theorem op_at b vs ts : data_ok b -> all_some arg_i64 vs = Some ts ->
  lookup_answers (parse b) ts at_val at_answered (run (B"tz.at") [VStr b; VTup vs]).
Proof.
  intros Hd Hv. destruct (dispatch [VStr b; VTup vs]) as (_ & _ & H & _). rewrite H. cbn [sh_bytes_list]. rewrite Hv.
  apply lookups_at; [apply parse_postr_wf; exact Hd|]. eapply all_some_Forall; [|exact Hv]. exact arg_i64_range.
Qed.
Theorem op_rat s e ext vs ts : data_ok s -> arg_flag e = Some ext -> all_some arg_i64 vs = Some ts ->
  lookup_answers (zone_of_tz_string s ext) ts at_val at_answered (run (B"tz.rat") [VStr s; e; VTup vs]).
Proof.
  intros Hd He Hv. destruct (dispatch [VStr s; e; VTup vs]) as (_ & _ & _ & H & _). rewrite H. cbn [sh_rule_list]. rewrite He, Hv.
  apply lookups_at; [apply zone_of_tz_string_wf; exact Hd|]. eapply all_some_Forall; [|exact Hv]. exact arg_i64_range.
Qed.
Theorem op_atlocal b vs ns : data_ok b -> all_some arg_ndt vs = Some ns ->
  lookup_answers (parse b) ns atlocal_val atlocal_answered (run (B"tz.atlocal") [VStr b; VTup vs]).
Proof.
  intros Hd Hv. destruct (dispatch [VStr b; VTup vs]) as (_ & _ & _ & _ & H & _). rewrite H. cbn [sh_bytes_list]. rewrite Hv.
  apply lookups_atlocal; [apply parse_postr_wf; exact Hd|]. eapply all_some_Forall; [|exact Hv]. exact arg_ndt_range.
Qed.
Theorem op_ratlocal s e ext vs ns : data_ok s -> arg_flag e = Some ext -> all_some arg_ndt vs = Some ns ->
  lookup_answers (zone_of_tz_string s ext) ns atlocal_val atlocal_answered (run (B"tz.ratlocal") [VStr s; e; VTup vs]).
Proof.
  intros Hd He Hv. destruct (dispatch [VStr s; e; VTup vs]) as (_ & _ & _ & _ & _ & H). rewrite H. cbn [sh_rule_list]. rewrite He, Hv.
  apply lookups_atlocal; [apply zone_of_tz_string_wf; exact Hd|]. eapply all_some_Forall; [|exact Hv]. exact arg_ndt_range.
Qed.

(* an unknown op name is answered NOOP *)
Lemma unknown_op : run (B"tz.nosuch") [] = VErr B"NOOP".
Proof. reflexivity. Qed.
