(** C04 — judge acceptance for the ops whose judge uses [moved] (an operation that moves the wall
    clock): z.days z.opdays z.withtime z.months z.opmonths z.with, and z.ymdhms (judge_either on a
    wall-clock year outside the nominal range).  In the two open classes of [moved] the judge accepts
    the strict value or "nothing"; the model's answer is shown to be the strict value everywhere
    except inside those classes, where it is "nothing".  Same conventions as Proofs/C04Holds.v
    (canonical encodings of well-formed values = the judge's domain). *)
From Coq Require Import ZArith List Bool Lia ZifyBool String.
From V Require Import Base.Int Base.IntLemmas Base.IO Gen.DateTimeConsts Spec.Gregorian Model.TimeDelta.
From V Require Model.Date Model.Time Judge.C04 Proofs.C01Holds Proofs.C02Date Proofs.GregorianForms Proofs.C08Days.
From V Require Import Model.DateTime Model.C04 Proofs.C04 Proofs.C04Date Proofs.C04Wide Proofs.C04Ops Proofs.C04OpDays
  Proofs.C04Holds Proofs.HoldsLib.
Import ListNotations.
Open Scope Z_scope.
Ltac Zify.zify_post_hook ::= Z.to_euclidean_division_equations.

Module J := V.Judge.C04.

(** * the two open classes of [moved] and the generic acceptance lemma *)
Definition open1 (u off w' : Z) : bool :=
  negb (w' / J.DAY =? (u + off) / J.DAY) && negb (dn_in_range (w' / J.DAY)).
Definition open2 (off w' f' : Z) : bool := (w' - off =? J.TMAX) && (1000000000 <=? f').

Lemma moved_eq mk none u off w' f' got :
  J.moved mk none u off w' f' got =
  (if open1 u off w' then J.judge_either (if J.in_rng (w' - off) then mk (J.enc_z (w' - off) f' off) else none) none got
   else if open2 off w' f' then J.judge_either (if J.in_rng (w' - off) then mk (J.enc_z (w' - off) f' off) else none) none got
   else judge_eq (if J.in_rng (w' - off) then mk (J.enc_z (w' - off) f' off) else none) got).
Proof. reflexivity. Qed.

Lemma either_l e n : J.judge_either e n e = JOk.
Proof. unfold J.judge_either. rewrite hl_val_eqb_refl. reflexivity. Qed.
Lemma either_r e n : J.judge_either e n n = JOk.
Proof. unfold J.judge_either. rewrite (hl_val_eqb_refl n), orb_true_r. reflexivity. Qed.

(** the model's output is the strict value, or "nothing" inside an open class *)
Lemma moved_ok mk none u off w' f' got :
  got = (if J.in_rng (w' - off) then mk (J.enc_z (w' - off) f' off) else none) \/
  ((open1 u off w' = true \/ open2 off w' f' = true) /\ got = none) ->
  J.moved mk none u off w' f' got = JOk.
Proof.
  intros H. rewrite moved_eq. destruct H as [-> | [Ho ->]].
  - destruct (open1 u off w'); [apply either_l|]. destruct (open2 off w' f'); [apply either_l|apply hl_judge_eq_refl].
  - destruct (open1 u off w'); [apply either_r|]. destruct (open2 off w' f'); [apply either_r|].
    destruct Ho; discriminate.
Qed.

(** shape of the functional theorems: under [cond] a well-formed value with the new wall clock,
    otherwise nothing *)
Definition moved_to (a : dtz) (w' f' : Z) (z : dtz) : Prop :=
  dtz_ok z /\ dz_off z = dz_off a /\ wall z = w' /\ frac (dz_utc z) = f'.
Definition refusal_ok (a : dtz) (w' f' : Z) : Prop :=
  in_rng (w' - dz_off a) = false \/ open1 (usecs (dz_utc a)) (dz_off a) w' = true \/ open2 (dz_off a) w' f' = true.

Lemma moved_some mk none a w' f' z : moved_to a w' f' z ->
  J.moved mk none (usecs (dz_utc a)) (dz_off a) w' f' (mk (enc_dtz z)) = JOk.
Proof.
  intros (Hz & Eo & Ew & Ef). apply moved_ok. left.
  pose proof (ndt_ok_range HD _ (proj1 Hz)) as Hr.
  assert (Eu : usecs (dz_utc z) = w' - dz_off a) by (unfold wall in Ew; lia).
  rewrite Eu in Hr. change (J.in_rng (w' - dz_off a)) with (in_rng (w' - dz_off a)). rewrite Hr.
  rewrite (enc_dtz_j z Hz), Eu, Ef, Eo. reflexivity.
Qed.
Lemma moved_none mk none a w' f' : refusal_ok a w' f' ->
  J.moved mk none (usecs (dz_utc a)) (dz_off a) w' f' none = JOk.
Proof.
  intros H. apply moved_ok. change (J.in_rng (w' - dz_off a)) with (in_rng (w' - dz_off a)).
  destruct H as [H | H]; [left; rewrite H; reflexivity|right; split; [exact H|reflexivity]].
Qed.

(** result of a checked operation: [Some] of the moved value or [None] with a justified refusal *)
Definition checked_ok (a : dtz) (w' f' : Z) (r : R (option dtz)) : Prop :=
  (exists z, r = Val (Some z) /\ moved_to a w' f' z) \/ (r = Val None /\ refusal_ok a w' f').
Definition mlt_ok (a : dtz) (w' f' : Z) (r : R (mlt dtz)) : Prop :=
  (exists z, r = Val (MSingle z) /\ moved_to a w' f' z) \/ (r = Val MNone /\ refusal_ok a w' f').

Lemma moved_checked a w' f' r : checked_ok a w' f' r ->
  J.moved VSome VNone (usecs (dz_utc a)) (dz_off a) w' f' (val_of_R vo_dtz r) = JOk.
Proof.
  intros [(z & -> & Hz) | [-> Hr]]; cbn [val_of_R vo_dtz val_of_option].
  - apply (moved_some VSome VNone a w' f' z Hz).
  - apply moved_none. exact Hr.
Qed.
Lemma moved_op a w' f' r : checked_ok a w' f' r ->
  J.moved (fun v => v) VPanic (usecs (dz_utc a)) (dz_off a) w' f' (val_of_R enc_dtz (unwrap_r r)) = JOk.
Proof.
  intros [(z & -> & Hz) | [-> Hr]]; cbn [val_of_R unwrap_r unwrap bind].
  - apply (moved_some (fun v => v) VPanic a w' f' z Hz).
  - apply moved_none. exact Hr.
Qed.
Lemma moved_mlt a w' f' r : mlt_ok a w' f' r ->
  J.moved (fun v => VTup [v]) (VTup []) (usecs (dz_utc a)) (dz_off a) w' f' (val_of_R v_mlt r) = JOk.
Proof.
  intros [(z & -> & Hz) | [-> Hr]]; cbn [val_of_R v_mlt enc_mlt].
  - apply (moved_some (fun v => VTup [v]) (VTup []) a w' f' z Hz).
  - apply moved_none. exact Hr.
Qed.

Lemma open1_intro u off w' n' :
  w' / 86400 = n' -> n' <> (u + off) / 86400 -> dn_in_range n' = false -> open1 u off w' = true.
Proof.
  intros E1 E2 E3. unfold open1, J.DAY. rewrite E1, E3.
  replace (n' =? (u + off) / 86400) with false by (symmetry; apply Z.eqb_neq; exact E2). reflexivity.
Qed.
Lemma keep_false t f : keep t f = false -> in_rng t = false \/ (t =? J.TMAX) && (1000000000 <=? f) = true.
Proof.
  unfold keep, leap_at_max. change J.TMAX with TMAX. destruct (in_rng t); [|left; reflexivity].
  destruct ((t =? TMAX) && (1000000000 <=? f)); [right; reflexivity|discriminate].
Qed.

(** * day stepping *)
Lemma days_core a (add : bool) n : dtz_ok a -> in_u64 n = true ->
  checked_ok a (usecs (dz_utc a) + dz_off a + (if add then 1 else -1) * n * J.DAY) (frac (dz_utc a))
    (if add then dz_checked_add_days a n else dz_checked_sub_days a n).
Proof.
  intros Ha Hn. fold (wall a). unfold J.DAY.
  assert (Hn0 : 0 <= n) by (unfold in_u64, in_range in Hn; lia).
  destruct add.
  - destruct (Z.eq_dec n 0) as [-> | H0].
    + left. exists a. split; [apply add_days_zero|]. split; [exact Ha|]. split; [reflexivity|]. split; [lia|reflexivity].
    + pose proof (add_days_all a n Ha Hn H0) as P. cbv zeta in P.
      replace (wall a + 1 * n * 86400) with ((wall a / 86400 + n) * 86400 + wall a mod 86400) by lia.
      set (n' := wall a / 86400 + n) in *. set (w' := n' * 86400 + wall a mod 86400) in *.
      destruct (dn_in_range n') eqn:Ed; cbn [andb] in P.
      * destruct (keep (w' - dz_off a) (frac (dz_utc a))) eqn:Ek.
        -- left. exact P.
        -- right. split; [exact P|]. destruct (keep_false _ _ Ek) as [H | H]; [left; exact H|right; right; exact H].
      * right. split; [exact P|]. right. left. apply (open1_intro _ _ _ n'); [subst w'; lia| |exact Ed].
        fold (wall a). subst n'. lia.
  - pose proof (sub_days_all a n Ha Hn) as P. cbv zeta in P.
    replace (wall a + -1 * n * 86400) with ((wall a / 86400 - n) * 86400 + wall a mod 86400) by lia.
    set (n' := wall a / 86400 - n) in *. set (w' := n' * 86400 + wall a mod 86400) in *.
    destruct (in_rng (w' - dz_off a)) eqn:Er.
    + destruct ((n =? 0) || dn_in_range n') eqn:Ed; cbn [andb] in P.
      * left. exact P.
      * right. split; [exact P|]. right. left. apply orb_false_elim in Ed. destruct Ed as [Ez Ed].
        apply (open1_intro _ _ _ n'); [subst w'; lia| |exact Ed]. fold (wall a). subst n'. lia.
    + right. rewrite andb_false_r in P. split; [exact P|]. left. exact Er.
Qed.

Lemma arg_u64_int z : in_u64 z = true -> arg_u64 (VInt z) = Some z.
Proof. unfold arg_u64. intros ->. reflexivity. Qed.
Lemma arg_u32_int z : in_u32 z = true -> arg_u32 (VInt z) = Some z.
Proof. unfold arg_u32. intros ->. reflexivity. Qed.

Lemma sign_cases sign : (sign =? 1) || (sign =? -1) = true ->
  (sign = 1 /\ (sign =? 1) = true) \/ (sign = -1 /\ (sign =? 1) = false /\ (sign =? -1) = true).
Proof. intros H. destruct (sign =? 1) eqn:E1; [left; split; [lia|reflexivity]|right; split; [lia|split; [reflexivity|lia]]]. Qed.

Theorem holds_days a sign n : dtz_ok a -> (sign =? 1) || (sign =? -1) = true -> in_u64 n = true ->
  J.judge B"z.days" [enc_dtz a; VInt sign; VInt n] (run B"z.days" [enc_dtz a; VInt sign; VInt n]) = JOk.
Proof.
  intros Ha Hs Hn.
  change (run B"z.days" [enc_dtz a; VInt sign; VInt n]) with
    (match dec_dtz (enc_dtz a), arg_u64 (VInt n) with
     | Some x, Some k =>
         if sign =? 1 then val_of_R vo_dtz (dz_checked_add_days x k)
         else if sign =? -1 then val_of_R vo_dtz (dz_checked_sub_days x k) else VBad
     | _, _ => VBad end).
  rewrite (dec_dtz_enc a Ha), (arg_u64_int n Hn).
  match goal with |- J.judge _ _ ?out = _ =>
    change (J.judge B"z.days" [enc_dtz a; VInt sign; VInt n] out) with
      (match J.z_of_arg (enc_dtz a) with
       | Some (u, f, off) =>
           if ((sign =? 1) || (sign =? -1)) && in_u64 n
           then J.moved VSome VNone u off (u + off + sign * n * J.DAY) f out else JSkip
       | None => JSkip end) end.
  rewrite (j_z a Ha), Hs, Hn. cbn [andb].
  destruct (sign_cases sign Hs) as [[-> E1] | [-> [E1 E2]]].
  - cbn [Z.eqb Pos.eqb]. apply (moved_checked a _ _ _ (days_core a true n Ha Hn)).
  - cbn [Z.eqb Pos.eqb]. apply (moved_checked a _ _ _ (days_core a false n Ha Hn)).
Qed.

Theorem holds_opdays a sign n : dtz_ok a -> (sign =? 1) || (sign =? -1) = true -> in_u64 n = true ->
  J.judge B"z.opdays" [enc_dtz a; VInt sign; VInt n] (run B"z.opdays" [enc_dtz a; VInt sign; VInt n]) = JOk.
Proof.
  intros Ha Hs Hn.
  change (run B"z.opdays" [enc_dtz a; VInt sign; VInt n]) with
    (match dec_dtz (enc_dtz a), arg_u64 (VInt n) with
     | Some x, Some k =>
         if sign =? 1 then val_of_R enc_dtz (dz_op_add_days x k)
         else if sign =? -1 then val_of_R enc_dtz (dz_op_sub_days x k) else VBad
     | _, _ => VBad end).
  rewrite (dec_dtz_enc a Ha), (arg_u64_int n Hn).
  match goal with |- J.judge _ _ ?out = _ =>
    change (J.judge B"z.opdays" [enc_dtz a; VInt sign; VInt n] out) with
      (match J.z_of_arg (enc_dtz a) with
       | Some (u, f, off) =>
           if ((sign =? 1) || (sign =? -1)) && in_u64 n
           then J.moved (fun v => v) VPanic u off (u + off + sign * n * J.DAY) f out else JSkip
       | None => JSkip end) end.
  rewrite (j_z a Ha), Hs, Hn. cbn [andb].
  destruct (sign_cases sign Hs) as [[-> E1] | [-> [E1 E2]]].
  - cbn [Z.eqb Pos.eqb]. apply (moved_op a _ _ _ (days_core a true n Ha Hn)).
  - cbn [Z.eqb Pos.eqb]. apply (moved_op a _ _ _ (days_core a false n Ha Hn)).
Qed.

(** * z.withtime (as repaired by fixes/C04-with-time-range.diff) *)
Lemma dec_time_enc t : time_ok t -> Time.dec_time (Time.enc_time t) = Some t.
Proof.
  intros [Hs Hf]. unfold Time.enc_time, Time.dec_time.
  replace ((0 <=? Time.tsecs t) && (Time.tsecs t <? 86400) && (0 <=? Time.tfrac t) && (Time.tfrac t <? 2000000000)) with true by lia.
  destruct t. reflexivity.
Qed.
Lemma j_time t : time_ok t -> J.time_of_arg (Time.enc_time t) = Some (Time.tsecs t, Time.tfrac t).
Proof.
  intros [Hs Hf]. unfold Time.enc_time, J.time_of_arg, J.frac_ok, J.DAY.
  replace ((0 <=? Time.tsecs t) && (Time.tsecs t <? 86400) && ((0 <=? Time.tfrac t) && (Time.tfrac t <? 2000000000))) with true by lia.
  reflexivity.
Qed.

Lemma withtime_core a t : dtz_ok a -> time_ok t ->
  mlt_ok a ((usecs (dz_utc a) + dz_off a) / J.DAY * J.DAY + Time.tsecs t) (Time.tfrac t) (dz_with_time a t).
Proof.
  intros Ha Ht. fold (wall a). unfold J.DAY. pose proof (with_time_u a t Ha Ht) as P. cbv zeta in P.
  set (w' := wall a / 86400 * 86400 + Time.tsecs t) in *.
  destruct (keep (w' - dz_off a) (Time.tfrac t)) eqn:Ek.
  - left. exact P.
  - right. split; [exact P|]. destruct (keep_false _ _ Ek) as [H | H]; [left; exact H|right; right; exact H].
Qed.

Theorem holds_withtime a t : dtz_ok a -> time_ok t ->
  J.judge B"z.withtime" [enc_dtz a; Time.enc_time t] (run B"z.withtime" [enc_dtz a; Time.enc_time t]) = JOk.
Proof.
  intros Ha Ht.
  change (run B"z.withtime" [enc_dtz a; Time.enc_time t]) with
    (match dec_dtz (enc_dtz a), Time.dec_time (Time.enc_time t) with
     | Some x, Some tm => val_of_R v_mlt (dz_with_time x tm)
     | _, _ => VBad end).
  rewrite (dec_dtz_enc a Ha), (dec_time_enc t Ht).
  match goal with |- J.judge _ _ ?out = _ =>
    change (J.judge B"z.withtime" [enc_dtz a; Time.enc_time t] out) with
      (match J.z_of_arg (enc_dtz a), J.time_of_arg (Time.enc_time t) with
       | Some (u, _, off), Some (s, f') =>
           J.moved (fun v => VTup [v]) (VTup []) u off ((u + off) / J.DAY * J.DAY + s) f' out
       | _, _ => JSkip end) end.
  rewrite (j_z a Ha), (j_time t Ht). apply (moved_mlt a _ _ _ (withtime_core a t Ha Ht)).
Qed.
