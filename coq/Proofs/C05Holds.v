(** C05: the theorems' hypotheses against the JUDGE's domain (Judge/C05.v), at the level of the
    lookup: whenever the judge has an expectation for a wall-clock reading ([J.expected_loc] = Some l:
    none of its skip conditions applies) on a zone the generator routes to lz.loc / lz.sel (well
    spaced: [J.spacing_ok]), the answer of find_local_time_type_from_local, read as offsets, IS the
    expected list l -- for table-only zones and for rule-only zones (TZ strings).

    Differences between the two sides found on the way:
    - the judge's own domain for lz.loc does NOT contain the spacing condition (the generator routes
      unspaced readings to lz.uloc, the known finding); the theorems need it: it is a hypothesis here;
    - the judge asks for the property's premise in the years y-2..y+2 of the reading ([J.premise_at]);
      the classification theorems (C05_rule_zone_classification) use it for y-3..y+2
      ([rule_year_hyps]): the judge's domain is wider by the year y-3, which is a hypothesis here;
    - the judge skips offsets a FixedOffset cannot carry and readings within three days of the ends
      of the date range; the lookup theorems do not need either (they matter for the value level,
      the C05_from_local_values theorems). *)
From Coq Require Import ZArith List Bool Lia ZifyBool String.
From V Require Import Base.Int Base.IO Spec.Gregorian Spec.Zone.
From V Require Import Model.TzParser Model.TzRule Model.TzLookup Model.C05.
From V Require Import Proofs.TzCommon Proofs.C05 Proofs.C05Composite Proofs.C05Glue Proofs.C05Judge Proofs.C05Wide Proofs.C05Full.
Import ListNotations.
Open Scope Z_scope.

(* the judge's expectation read off a classification *)
Lemma expected_loc_classified sz w l m :
  J.expected_loc (zone_offsets sz) sz w = Some l -> classified sz w m ->
  mlt_list (mlt_map m ut_offset) = l.
Proof.
  unfold J.expected_loc. intros H Hc.
  destruct (negb (J.in_dom sz w) || negb (forallb J.fo_ok (zone_offsets sz)) || excepted_wall sz w
            || J.undetermined (zone_offsets sz) sz w); [discriminate|].
  change (instants_of_wall_among (zone_offsets sz) sz w) with (instants_of_wall sz w) in H.
  rewrite (classified_list sz w m Hc) in H.
  destruct m as [|x|x y]; cbn [cand_instants mlt_map mlt_list] in *.
  - injection H as <-. reflexivity.
  - destruct (J.fo_ok (w - (w - ut_offset x))); [|discriminate]. injection H as <-. f_equal. lia.
  - destruct (J.fo_ok (w - (w - ut_offset x)) && J.fo_ok (w - (w - ut_offset y))); [|discriminate].
    injection H as <-. f_equal; [lia|f_equal; lia].
Qed.
Lemma expected_loc_dom sz w l : J.expected_loc (zone_offsets sz) sz w = Some l ->
  J.in_dom sz w = true /\ forallb J.fo_ok (zone_offsets sz) = true /\ excepted_wall sz w = false.
Proof.
  unfold J.expected_loc. intros H.
  destruct (J.in_dom sz w); [|discriminate]. destruct (forallb J.fo_ok (zone_offsets sz)); [|discriminate].
  destruct (excepted_wall sz w); [discriminate|]. auto.
Qed.

(** * Table-only zones *)
Theorem holds_loc_table zone ps first y w l :
  table_zone zone ps first -> extra_rule zone = None -> increasing (offs ps) = true ->
  J.spacing_ok (szone_of ps first) w = true ->
  J.expected_loc (zone_offsets (szone_of ps first)) (szone_of ps first) w = Some l ->
  exists m, find_local_time_type_from_local zone y w = Val (Ok m) /\ mlt_list (mlt_map m ut_offset) = l.
Proof.
  intros Hz Hr Hinc Hsp He.
  destruct (expected_loc_dom _ _ _ He) as (_ & _ & Hex).
  unfold J.spacing_ok, szone_of in Hsp. cbn [z_trans z_first z_rule] in Hsp. rewrite andb_true_r in Hsp.
  destruct (classification_table zone ps first y w Hz Hr Hinc Hsp Hex) as (m & Hm & Hc).
  exists m. split; [exact Hm|]. exact (expected_loc_classified _ _ _ _ He Hc).
Qed.

(** * Rule-only zones (TZ strings) *)
Lemma spacing_self_year_table a k :
  J.spacing_rule_self (conv_rule a) k = true ->
  ordered (windows (offs (fst (year_table a k))) (ut_offset (snd (year_table a k)))) = true /\
  (rule_start_utc (conv_rule a) (k - 1) <? rule_end_utc (conv_rule a) (k - 1))
  = (rule_start_utc (conv_rule a) k <? rule_end_utc (conv_rule a) k).
Proof.
  unfold J.spacing_rule_self, year_table. set (r := conv_rule a).
  change (ut_offset (a_std a)) with (r_std r). change (ut_offset (a_dst a)) with (r_dst r).
  intros H. apply andb_prop in H. destruct H as [H Ho]. apply andb_prop in H. destruct H as [H1 _].
  apply Bool.eqb_prop in H1. split; [|exact H1].
  unfold J.rule_events, J.ev_window in Ho.
  destruct (rule_start_utc r k <? rule_end_utc r k) eqn:N; cbn [rev app map ordered] in Ho.
  - replace (rule_start_utc r k + r_std r <? rule_end_utc r k + r_dst r) with true by lia.
    cbn [fst snd offs map windows ordered].
    change (ut_offset (a_std a)) with (r_std r). change (ut_offset (a_dst a)) with (r_dst r). lia.
  - replace (rule_start_utc r k + r_std r <? rule_end_utc r k + r_dst r) with false by lia.
    cbn [fst snd offs map windows ordered].
    change (ut_offset (a_std a)) with (r_std r). change (ut_offset (a_dst a)) with (r_dst r). lia.
Qed.

Lemma utc_year_ts_ok w : J.ts_ok w = true -> -2147483650 <= utc_year w <= 2147483650.
Proof.
  unfold J.ts_ok. intros H.
  assert (Hb : J.TS_MIN <= w <= J.TS_MAX) by (unfold J.TS_MIN, J.TS_MAX in *; lia).
  pose proof (utc_year_mono _ _ (proj1 Hb)) as H1. pose proof (utc_year_mono _ _ (proj2 Hb)) as H2.
  assert (E1 : utc_year J.TS_MIN = -262143) by (vm_compute; reflexivity).
  assert (E2 : utc_year J.TS_MAX = 262142) by (vm_compute; reflexivity).
  lia.
Qed.

(* the judge's conditions on a rule-only zone, read once (generic lemmas: the kernel re-checks
   conversions through utc_year / premise_year otherwise) *)
Lemma in_dom_rule_only first r w :
  J.in_dom (mk_szone first [] (Some (inr r))) w = J.ts_ok w && J.premise_at r w.
Proof. reflexivity. Qed.
Lemma spacing_ok_rule_only first r w :
  J.spacing_ok (mk_szone first [] (Some (inr r))) w = J.spacing_rule_self r (utc_year w) && true.
Proof. reflexivity. Qed.
Lemma premise_at_inv r w : J.premise_at r w = true ->
  premise_year r (utc_year w - 2) = true /\ premise_year r (utc_year w - 1) = true /\
  premise_year r (utc_year w) = true /\ premise_year r (utc_year w + 1) = true /\
  premise_year r (utc_year w + 2) = true.
Proof.
  unfold J.premise_at. generalize (utc_year w). intros y H.
  apply andb_prop in H. destruct H as [H Pn2]. apply andb_prop in H. destruct H as [H Pn].
  apply andb_prop in H. destruct H as [H P0]. apply andb_prop in H. destruct H as [P2 P1]. auto.
Qed.
Lemma offsets_rule_only first r :
  forallb J.fo_ok (zone_offsets (mk_szone first [] (Some (inr r)))) = true ->
  -86400 < r_std r < 86400 /\ -86400 < r_dst r < 86400.
Proof.
  intros Hfo. rewrite forallb_forall in Hfo.
  assert (I1 : In (r_std r) (zone_offsets (mk_szone first [] (Some (inr r))))).
  { unfold zone_offsets. cbn [z_trans z_rule z_first map app]. rewrite In_dedup. right. left. reflexivity. }
  assert (I2 : In (r_dst r) (zone_offsets (mk_szone first [] (Some (inr r))))).
  { unfold zone_offsets. cbn [z_trans z_rule z_first map app]. rewrite In_dedup. right. right. left. reflexivity. }
  pose proof (Hfo _ I1) as F1. pose proof (Hfo _ I2) as F2. unfold J.fo_ok in F1, F2.
  clear - F1 F2. lia.
Qed.

Theorem holds_loc_rule zone a first w l :
  let r := conv_rule a in let k := utc_year w in
  let rz := mk_szone (ut_offset first) [] (Some (inr r)) in
  transitions zone = [] -> index (local_time_types zone) 0 = Val first ->
  extra_rule zone = Some (Alternate a) -> alt_ok a -> r_std r <> r_dst r ->
  J.spacing_ok rz w = true -> premise_year r (k - 3) = true ->
  J.expected_loc (zone_offsets rz) rz w = Some l ->
  exists m, find_local_time_type_from_local zone k w = Val (Ok m) /\ mlt_list (mlt_map m ut_offset) = l.
Proof.
  intros r k rz Ht Hf Hr Ha Hne Hsp P3 He.
  destruct (expected_loc_dom _ _ _ He) as (Hdom & Hfo & Hex).
  unfold rz in Hdom, Hsp, Hfo. rewrite in_dom_rule_only in Hdom. rewrite spacing_ok_rule_only in Hsp.
  apply andb_prop in Hdom. destruct Hdom as [Hts Hp].
  destruct (premise_at_inv r w Hp) as (P2 & P1 & P0 & Pn & Pn2). fold k in P2, P1, P0, Pn, Pn2.
  apply andb_prop in Hsp. destruct Hsp as [Hself _]. fold k in Hself.
  destruct (spacing_self_year_table a k Hself) as [Hord Hreg].
  destruct (offsets_rule_only _ _ Hfo) as [O1 O2].
  assert (Hyp : rule_year_hyps r k).
  { unfold rule_year_hyps. repeat (split; [assumption|]). exact Hreg. }
  pose proof (utc_year_ts_ok w Hts) as Hk. fold k in Hk.
  pose proof (rule_zone_classification zone a first w Ht Hf Hr Ha Hk Hne Hyp) as Hc.
  pose proof (excepted_wall_year_table a (ut_offset first) w) as Hey.
  cbv zeta in Hc, Hey. fold k r in Hc, Hey.
  destruct (year_table a k) as [ps prev]. cbn [fst snd] in Hord.
  destruct (Hc Hord (Hey Hex)) as (m & Hm & Hcl).
  exists m. split; [exact Hm|]. change (classified rz w m) in Hcl.
  exact (expected_loc_classified rz w l m He Hcl).
Qed.

(* the domain is inhabited: Europe/Berlin's two transitions of 2023 as a table, and the rule
   CET-1CEST,M3.5.0,M10.5.0/3 as a TZ string; the judge expects two offsets for the repeated reading *)
Lemma holds_examples :
  J.spacing_ok (szone_of ex_ps ex_cet) 1698546600 = true /\
  J.expected_loc (zone_offsets (szone_of ex_ps ex_cet)) (szone_of ex_ps ex_cet) 1698546600 = Some [7200; 3600] /\
  J.spacing_ok exr_rz 1729996200 = true /\ premise_year (conv_rule exc_rule) (utc_year 1729996200 - 3) = true /\
  J.expected_loc (zone_offsets exr_rz) exr_rz 1729996200 = Some [7200; 3600] /\
  J.expected_loc (zone_offsets exr_rz) exr_rz 1711852200 = Some [].
Proof. vm_compute. repeat split; reflexivity. Qed.
