(** C05: the theorems' hypotheses against the JUDGE's domain (Judge/C05.v), at the level of the
    lookup: whenever the judge has an expectation for a wall-clock reading ([J.expected_loc] = Some l:
    none of its skip conditions applies) on a zone the generator routes to lz.loc / lz.sel (well
    spaced: [J.spacing_ok]), the answer of find_local_time_type_from_local, read as offsets, IS the
    expected list l -- for table-only zones and for rule-only zones (TZ strings).

    Differences between the two sides found on the way:
    - the judge's own domain for lz.loc does NOT contain the spacing condition (the generator routes
      unspaced readings to lz.uloc, the known finding); the theorems need it: it is a hypothesis here;
    - the judge asks for the property's premise in the years y-2..y+2 of the reading ([J.premise_at]);
      the classification theorems (C05_rule_zone_classification) use it for y-3..y+2
      ([rule_year_hyps]): the judge's domain is wider by the year y-3; [holds_loc_rule] takes it as a
      hypothesis, [holds_loc_rule5] removes it (a rule transition of year y-3 lies more than two days
      before year y: [rule_end_crude]) and so speaks about exactly the judge's domain;
    - the judge skips offsets a FixedOffset cannot carry and readings within three days of the ends
      of the date range; the lookup theorems do not need either (they matter for the value level,
      the C05_from_local_values theorems). *)
From Coq Require Import ZArith List Bool Lia ZifyBool String.
From V Require Import Base.Int Base.IO Spec.Gregorian Spec.Zone.
From V Require Import Model.TzParser Model.TzRule Model.TzLookup Model.C05.
From V Require Import Proofs.TzCommon Proofs.TzEval Proofs.C05 Proofs.C05Composite Proofs.C05Glue Proofs.C05Judge Proofs.C05Wide Proofs.C05Full.
Import ListNotations.
Open Scope Z_scope.

(* the judge's expectation read off a classification *)
Lemma expected_loc_classified sz w l m :
  J.expected_loc (zone_offsets sz) sz w = Some l -> classified sz w m ->
  mlt_list (mlt_map m ut_offset) = l.
Proof.
  unfold J.expected_loc. intros H Hc.
  destruct (negb (J.in_dom sz w) || negb (forallb J.fo_ok (zone_offsets sz)) || excepted_wall sz w
            || J.undetermined (zone_offsets sz) sz w); [discriminate|].
  change (instants_of_wall_among (zone_offsets sz) sz w) with (instants_of_wall sz w) in H.
  rewrite (classified_list sz w m Hc) in H.
  destruct m as [|x|x y]; cbn [cand_instants mlt_map mlt_list] in *.
  - injection H as <-. reflexivity.
  - destruct (J.fo_ok (w - (w - ut_offset x))); [|discriminate]. injection H as <-. f_equal. lia.
  - destruct (J.fo_ok (w - (w - ut_offset x)) && J.fo_ok (w - (w - ut_offset y))); [|discriminate].
    injection H as <-. f_equal; [lia|f_equal; lia].
Qed.
Lemma expected_loc_dom sz w l : J.expected_loc (zone_offsets sz) sz w = Some l ->
  J.in_dom sz w = true /\ forallb J.fo_ok (zone_offsets sz) = true /\ excepted_wall sz w = false.
Proof.
  unfold J.expected_loc. intros H.
  destruct (J.in_dom sz w); [|discriminate]. destruct (forallb J.fo_ok (zone_offsets sz)); [|discriminate].
  destruct (excepted_wall sz w); [discriminate|]. auto.
Qed.

(** * Table-only zones *)
Theorem holds_loc_table zone ps first y w l :
  table_zone zone ps first -> extra_rule zone = None -> increasing (offs ps) = true ->
  J.spacing_ok (szone_of ps first) w = true ->
  J.expected_loc (zone_offsets (szone_of ps first)) (szone_of ps first) w = Some l ->
  exists m, find_local_time_type_from_local zone y w = Val (Ok m) /\ mlt_list (mlt_map m ut_offset) = l.
Proof.
  intros Hz Hr Hinc Hsp He.
  destruct (expected_loc_dom _ _ _ He) as (_ & _ & Hex).
  unfold J.spacing_ok, szone_of in Hsp. cbn [z_trans z_first z_rule] in Hsp. rewrite andb_true_r in Hsp.
  destruct (classification_table zone ps first y w Hz Hr Hinc Hsp Hex) as (m & Hm & Hc).
  exists m. split; [exact Hm|]. exact (expected_loc_classified _ _ _ _ He Hc).
Qed.

(** * Rule-only zones (TZ strings) *)
Lemma spacing_self_year_table a k :
  J.spacing_rule_self (conv_rule a) k = true ->
  ordered (windows (offs (fst (year_table a k))) (ut_offset (snd (year_table a k)))) = true /\
  (rule_start_utc (conv_rule a) (k - 1) <? rule_end_utc (conv_rule a) (k - 1))
  = (rule_start_utc (conv_rule a) k <? rule_end_utc (conv_rule a) k).
Proof.
  unfold J.spacing_rule_self, year_table. set (r := conv_rule a).
  change (ut_offset (a_std a)) with (r_std r). change (ut_offset (a_dst a)) with (r_dst r).
  intros H. apply andb_prop in H. destruct H as [H Ho]. apply andb_prop in H. destruct H as [H1 _].
  apply Bool.eqb_prop in H1. split; [|exact H1].
  unfold J.rule_events, J.ev_window in Ho.
  destruct (rule_start_utc r k <? rule_end_utc r k) eqn:N; cbn [rev app map ordered] in Ho.
  - replace (rule_start_utc r k + r_std r <? rule_end_utc r k + r_dst r) with true by lia.
    cbn [fst snd offs map windows ordered].
    change (ut_offset (a_std a)) with (r_std r). change (ut_offset (a_dst a)) with (r_dst r). lia.
  - replace (rule_start_utc r k + r_std r <? rule_end_utc r k + r_dst r) with false by lia.
    cbn [fst snd offs map windows ordered].
    change (ut_offset (a_std a)) with (r_std r). change (ut_offset (a_dst a)) with (r_dst r). lia.
Qed.

Lemma utc_year_ts_ok w : J.ts_ok w = true -> -2147483650 <= utc_year w <= 2147483650.
Proof.
  unfold J.ts_ok. intros H.
  assert (Hb : J.TS_MIN <= w <= J.TS_MAX) by (unfold J.TS_MIN, J.TS_MAX in *; lia).
  pose proof (utc_year_mono _ _ (proj1 Hb)) as H1. pose proof (utc_year_mono _ _ (proj2 Hb)) as H2.
  assert (E1 : utc_year J.TS_MIN = -262143) by (vm_compute; reflexivity).
  assert (E2 : utc_year J.TS_MAX = 262142) by (vm_compute; reflexivity).
  lia.
Qed.

(* the judge's conditions on a rule-only zone, read once (generic lemmas: the kernel re-checks
   conversions through utc_year / premise_year otherwise) *)
Lemma in_dom_rule_only first r w :
  J.in_dom (mk_szone first [] (Some (inr r))) w = J.ts_ok w && J.premise_at r w.
Proof. reflexivity. Qed.
Lemma spacing_ok_rule_only first r w :
  J.spacing_ok (mk_szone first [] (Some (inr r))) w = J.spacing_rule_self r (utc_year w) && true.
Proof. reflexivity. Qed.
Lemma premise_at_inv r w : J.premise_at r w = true ->
  premise_year r (utc_year w - 2) = true /\ premise_year r (utc_year w - 1) = true /\
  premise_year r (utc_year w) = true /\ premise_year r (utc_year w + 1) = true /\
  premise_year r (utc_year w + 2) = true.
Proof.
  unfold J.premise_at. generalize (utc_year w). intros y H.
  apply andb_prop in H. destruct H as [H Pn2]. apply andb_prop in H. destruct H as [H Pn].
  apply andb_prop in H. destruct H as [H P0]. apply andb_prop in H. destruct H as [P2 P1]. auto.
Qed.
Lemma offsets_rule_only first r :
  forallb J.fo_ok (zone_offsets (mk_szone first [] (Some (inr r)))) = true ->
  -86400 < r_std r < 86400 /\ -86400 < r_dst r < 86400.
Proof.
  intros Hfo. rewrite forallb_forall in Hfo.
  assert (I1 : In (r_std r) (zone_offsets (mk_szone first [] (Some (inr r))))).
  { unfold zone_offsets. cbn [z_trans z_rule z_first map app]. rewrite In_dedup. right. left. reflexivity. }
  assert (I2 : In (r_dst r) (zone_offsets (mk_szone first [] (Some (inr r))))).
  { unfold zone_offsets. cbn [z_trans z_rule z_first map app]. rewrite In_dedup. right. right. left. reflexivity. }
  pose proof (Hfo _ I1) as F1. pose proof (Hfo _ I2) as F2. unfold J.fo_ok in F1, F2.
  clear - F1 F2. lia.
Qed.

Theorem holds_loc_rule zone a first w l :
  let r := conv_rule a in let k := utc_year w in
  let rz := mk_szone (ut_offset first) [] (Some (inr r)) in
  transitions zone = [] -> index (local_time_types zone) 0 = Val first ->
  extra_rule zone = Some (Alternate a) -> alt_ok a -> r_std r <> r_dst r ->
  J.spacing_ok rz w = true -> premise_year r (k - 3) = true ->
  J.expected_loc (zone_offsets rz) rz w = Some l ->
  exists m, find_local_time_type_from_local zone k w = Val (Ok m) /\ mlt_list (mlt_map m ut_offset) = l.
Proof.
  intros r k rz Ht Hf Hr Ha Hne Hsp P3 He.
  destruct (expected_loc_dom _ _ _ He) as (Hdom & Hfo & Hex).
  unfold rz in Hdom, Hsp, Hfo. rewrite in_dom_rule_only in Hdom. rewrite spacing_ok_rule_only in Hsp.
  apply andb_prop in Hdom. destruct Hdom as [Hts Hp].
  destruct (premise_at_inv r w Hp) as (P2 & P1 & P0 & Pn & Pn2). fold k in P2, P1, P0, Pn, Pn2.
  apply andb_prop in Hsp. destruct Hsp as [Hself _]. fold k in Hself.
  destruct (spacing_self_year_table a k Hself) as [Hord Hreg].
  destruct (offsets_rule_only _ _ Hfo) as [O1 O2].
  assert (Hyp : rule_year_hyps r k).
  { unfold rule_year_hyps. repeat (split; [assumption|]). exact Hreg. }
  pose proof (utc_year_ts_ok w Hts) as Hk. fold k in Hk.
  pose proof (rule_zone_classification zone a first w Ht Hf Hr Ha Hk Hne Hyp) as Hc.
  pose proof (excepted_wall_year_table a (ut_offset first) w) as Hey.
  cbv zeta in Hc, Hey. fold k r in Hc, Hey.
  destruct (year_table a k) as [ps prev]. cbn [fst snd] in Hord.
  destruct (Hc Hord (Hey Hex)) as (m & Hm & Hcl).
  exists m. split; [exact Hm|]. change (classified rz w m) in Hcl.
  exact (expected_loc_classified rz w l m He Hcl).
Qed.

(* the domain is inhabited: Europe/Berlin's two transitions of 2023 as a table, and the rule
   CET-1CEST,M3.5.0,M10.5.0/3 as a TZ string; the judge expects two offsets for the repeated reading *)
Lemma holds_examples :
  J.spacing_ok (szone_of ex_ps ex_cet) 1698546600 = true /\
  J.expected_loc (zone_offsets (szone_of ex_ps ex_cet)) (szone_of ex_ps ex_cet) 1698546600 = Some [7200; 3600] /\
  J.spacing_ok exr_rz 1729996200 = true /\ premise_year (conv_rule exc_rule) (utc_year 1729996200 - 3) = true /\
  J.expected_loc (zone_offsets exr_rz) exr_rz 1729996200 = Some [7200; 3600] /\
  J.expected_loc (zone_offsets exr_rz) exr_rz 1711852200 = Some [].
Proof. vm_compute. repeat split; reflexivity. Qed.

(** * Closing the year y-3: a rule transition of year y lies within [year_start y - 8 days,
    year_start y + 375 days] for every rule the reader can produce *)
Lemma rday_crude d y : day_ok d -> -2147483650 <= y <= 2147483650 ->
  dn_of_ymd y 1 1 <= rday_dn y (conv_day d) <= dn_of_ymd y 1 1 + 366.
Proof.
  intros Hd Hy. destruct (transition_date_eq d y Hd Hy) as (m & md & _ & Hm & Hmd & <-).
  unfold dn_of_ymd, dn_of_yo, ordinal_of_md.
  assert (Hc1 : forall lp, cum_days lp 1 = 0) by (intros []; reflexivity). rewrite Hc1.
  assert (Hc : 0 <= cum_days (is_leap y) m <= 335).
  { apply in12 in Hm. destruct (is_leap y); repeat (destruct Hm as [->|Hm]); try subst m; cbn; lia. }
  lia.
Qed.

Lemma rule_is_dst_year_arith5 t k yt std dst
  (S3 E3 S2 E2 S1 E1 S0 E0 Sn En Sn2 En2 En3 : Z) (y2 y1 y0 yn yn2 yn3 : Z) :
  -86400 < std < 86400 -> -86400 < dst < 86400 ->
  E3 < y0 - 172800 ->
  (y2 + 86400 < S2 + std < y1 - 86400 /\ y2 + 86400 < S2 + dst < y1 - 86400 /\ y2 + 86400 < E2 + std < y1 - 86400 /\ y2 + 86400 < E2 + dst < y1 - 86400) ->
  (y1 + 86400 < S1 + std < y0 - 86400 /\ y1 + 86400 < S1 + dst < y0 - 86400 /\ y1 + 86400 < E1 + std < y0 - 86400 /\ y1 + 86400 < E1 + dst < y0 - 86400) ->
  (y0 + 86400 < S0 + std < yn - 86400 /\ y0 + 86400 < S0 + dst < yn - 86400 /\ y0 + 86400 < E0 + std < yn - 86400 /\ y0 + 86400 < E0 + dst < yn - 86400) ->
  (yn + 86400 < Sn + std < yn2 - 86400 /\ yn + 86400 < Sn + dst < yn2 - 86400 /\ yn + 86400 < En + std < yn2 - 86400 /\ yn + 86400 < En + dst < yn2 - 86400) ->
  (yn2 + 86400 < Sn2 + std < yn3 - 86400 /\ yn2 + 86400 < Sn2 + dst < yn3 - 86400 /\ yn2 + 86400 < En2 + std < yn3 - 86400 /\ yn2 + 86400 < En2 + dst < yn3 - 86400) ->
  S0 <> E0 -> (S1 <? E1) = (S0 <? E0) ->
  (y0 <= t + std < yn \/ y0 <= t + dst < yn) ->
  forall b : bool,
  (yt = k - 1 -> b = ((S3 <=? t) && (t <? (if S3 <? E3 then E3 else E2)) || (S2 <=? t) && (t <? (if S2 <? E2 then E2 else E1))
                      || (S1 <=? t) && (t <? (if S1 <? E1 then E1 else E0)) || (S0 <=? t) && (t <? (if S0 <? E0 then E0 else En)))) ->
  (yt = k -> b = ((S2 <=? t) && (t <? (if S2 <? E2 then E2 else E1)) || (S1 <=? t) && (t <? (if S1 <? E1 then E1 else E0))
                  || (S0 <=? t) && (t <? (if S0 <? E0 then E0 else En)) || (Sn <=? t) && (t <? (if Sn <? En then En else En2)))) ->
  (yt = k + 1 -> b = ((S1 <=? t) && (t <? (if S1 <? E1 then E1 else E0)) || (S0 <=? t) && (t <? (if S0 <? E0 then E0 else En))
                      || (Sn <=? t) && (t <? (if Sn <? En then En else En2)) || (Sn2 <=? t) && (t <? (if Sn2 <? En2 then En2 else En3)))) ->
  (yt = k - 1 \/ yt = k \/ yt = k + 1) ->
  b = (if S0 <? E0 then (S0 <=? t) && (t <? E0) else (t <? E0) || (S0 <=? t)).
Proof.
  intros Hs Hd B3 P2 P1 P0 Pn Pn2 Hne Hreg Hl b H1 H2 H3 Hy.
  destruct (S0 <? E0) eqn:B0;
  destruct Hy as [Hy|[Hy|Hy]]; [rewrite (H1 Hy)|rewrite (H2 Hy)|rewrite (H3 Hy)|rewrite (H1 Hy)|rewrite (H2 Hy)|rewrite (H3 Hy)];
  rewrite ?Hreg; clear H1 H2 H3;
  destruct (S3 <? E3) eqn:?, (S2 <? E2) eqn:?, (Sn <? En) eqn:?, (Sn2 <? En2) eqn:?; lia.
Qed.

(* the judge's premise (years k-2..k+2) with the regularity of the rule *)
Definition rule_year_hyps5 (r : srule) (k : Z) : Prop :=
  -86400 < r_std r < 86400 /\ -86400 < r_dst r < 86400 /\
  premise_year r (k - 2) = true /\ premise_year r (k - 1) = true /\
  premise_year r k = true /\ premise_year r (k + 1) = true /\ premise_year r (k + 2) = true /\
  (rule_start_utc r (k - 1) <? rule_end_utc r (k - 1)) = (rule_start_utc r k <? rule_end_utc r k).

Lemma rule_end_crude a y : alt_ok a -> -2147483650 <= y <= 2147483650 ->
  -86400 < ut_offset (a_dst a) < 86400 ->
  rule_end_utc (conv_rule a) y < year_start y + 375 * 86400.
Proof.
  intros (_ & _ & _ & Hde & _ & Het) Hy Hd.
  pose proof (rday_crude (dst_end a) y Hde Hy) as Hb.
  unfold rule_end_utc, year_start, conv_rule. cbn [r_end r_end_time r_dst]. lia.
Qed.

Lemma rule_is_dst_year5 a k t : alt_ok a -> -2147483640 <= k <= 2147483650 ->
  let r := conv_rule a in
  rule_year_hyps5 r k ->
  (year_start k <= t + r_std r < year_start (k + 1) \/ year_start k <= t + r_dst r < year_start (k + 1)) ->
  rule_is_dst r t = yform (rule_start_utc r k) (rule_end_utc r k) t.
Proof.
  intros Ha Hk r (Hs & Hd & P2 & P1 & P0 & Pn & Pn2 & Hreg) Hl.
  apply premise_year_prop in P2, P1, P0, Pn, Pn2.
  destruct P2 as [P2 _], P1 as [P1 _], P0 as [P0 N0], Pn as [Pn _], Pn2 as [Pn2 _].
  replace (k - 2 + 1) with (k - 1) in * by lia.
  replace (k - 1 + 1) with k in * by lia. replace (k + 1 + 1) with (k + 2) in * by lia.
  replace (k + 2 + 1) with (k + 3) in * by lia.
  assert (B3 : rule_end_utc r (k - 3) < year_start k - 172800).
  { pose proof (rule_end_crude a (k - 3) Ha ltac:(lia) Hd) as Hc. fold r in Hc.
    pose proof (year_start_succ (k - 3)). pose proof (year_start_succ (k - 2)). pose proof (year_start_succ (k - 1)).
    replace (k - 3 + 1) with (k - 2) in * by lia. replace (k - 2 + 1) with (k - 1) in * by lia.
    replace (k - 1 + 1) with k in * by lia. lia. }
  assert (Hnear : year_start k - 86400 < t < year_start (k + 1) + 86400) by lia.
  pose proof (utc_year_near k t Hnear) as Hy.
  unfold yform.
  apply (rule_is_dst_year_arith5 t k (utc_year t) (r_std r) (r_dst r)
           (rule_start_utc r (k - 3)) (rule_end_utc r (k - 3)) (rule_start_utc r (k - 2)) (rule_end_utc r (k - 2))
           (rule_start_utc r (k - 1)) (rule_end_utc r (k - 1)) (rule_start_utc r k) (rule_end_utc r k)
           (rule_start_utc r (k + 1)) (rule_end_utc r (k + 1)) (rule_start_utc r (k + 2)) (rule_end_utc r (k + 2))
           (rule_end_utc r (k + 3))
           (year_start (k - 2)) (year_start (k - 1)) (year_start k) (year_start (k + 1))
           (year_start (k + 2)) (year_start (k + 3)) Hs Hd B3 P2 P1 P0 Pn Pn2 N0 Hreg Hl).
  - intros E. rewrite rule_is_dst_unfold, E. cbv zeta.
    replace (k - 1 - 2) with (k - 3) by lia. replace (k - 3 + 1) with (k - 2) by lia.
    replace (k - 1 - 1) with (k - 2) by lia. replace (k - 2 + 1) with (k - 1) by lia.
    replace (k - 1 + 1) with k by lia. reflexivity.
  - intros E. rewrite rule_is_dst_unfold, E. cbv zeta.
    replace (k - 2 + 1) with (k - 1) by lia. replace (k - 1 + 1) with k by lia.
    replace (k + 1 + 1) with (k + 2) by lia. reflexivity.
  - intros E. rewrite rule_is_dst_unfold, E. cbv zeta.
    replace (k + 1 - 2) with (k - 1) by lia. replace (k - 1 + 1) with k by lia.
    replace (k + 1 - 1) with k by lia. replace (k + 1 + 1) with (k + 2) by lia. replace (k + 2 + 1) with (k + 3) by lia.
    reflexivity.
  - exact Hy.
Qed.

(* the classification of C05_rule_zone_classification from the year formula alone *)
Definition year_formula (r : srule) (k : Z) : Prop :=
  forall t, (year_start k <= t + r_std r < year_start (k + 1) \/ year_start k <= t + r_dst r < year_start (k + 1)) ->
  rule_is_dst r t = yform (rule_start_utc r k) (rule_end_utc r k) t.

Lemma year_table_off_gen a k t : year_formula (conv_rule a) k ->
  let r := conv_rule a in
  let '(ps, first) := year_table a k in
  ordered (windows (offs ps) (ut_offset first)) = true ->
  (year_start k <= t + r_std r < year_start (k + 1) \/ year_start k <= t + r_dst r < year_start (k + 1)) ->
  table_off (offs ps) (ut_offset first) t = (if rule_is_dst r t then r_dst r else r_std r).
Proof.
  intros H r. pose proof (H t) as Hd. fold r in Hd. unfold yform in Hd.
  unfold year_table. fold r.
  change (ut_offset (a_std a)) with (r_std r). change (ut_offset (a_dst a)) with (r_dst r).
  set (S := rule_start_utc r k) in *. set (E := rule_end_utc r k) in *.
  set (std := r_std r) in *. set (dst := r_dst r) in *.
  destruct (S + std <? E + dst) eqn:Ho; cbn [offs map fst snd windows ordered table_off];
    change (ut_offset (a_std a)) with std; change (ut_offset (a_dst a)) with dst;
    intros Hord Hl; rewrite (Hd Hl).
  - assert (S < E) by lia. replace (S <? E) with true by lia.
    destruct (S <=? t) eqn:C1; cbn [andb].
    + destruct (E <=? t) eqn:C2; [replace (t <? E) with false by lia|replace (t <? E) with true by lia]; reflexivity.
    + reflexivity.
  - assert (E < S) by lia. replace (S <? E) with false by lia.
    destruct (E <=? t) eqn:C1.
    + replace (t <? E) with false by lia. cbn [orb]. destruct (S <=? t); reflexivity.
    + replace (t <? E) with true by lia. reflexivity.
Qed.

Theorem rule_zone_classification_gen z a first l :
  let k := utc_year l in let r := conv_rule a in
  transitions z = [] -> index (local_time_types z) 0 = Val first -> extra_rule z = Some (Alternate a) ->
  alt_ok a -> -2147483650 <= k <= 2147483650 -> r_std r <> r_dst r -> year_formula r k ->
  let '(ps, prev) := year_table a k in
  ordered (windows (offs ps) (ut_offset prev)) = true ->
  excepted_table (offs ps) (ut_offset prev) l = false ->
  exists m, find_local_time_type_from_local z k l = Val (Ok m) /\
  classified (mk_szone (ut_offset first) [] (Some (inr r))) l m.
Proof.
  intros k r Ht Hf Hr Ha Hk Hne Hyp.
  pose proof (from_local_rule_zone z a first k l Ht Hf Hr Ha Hk Hne) as Hm.
  pose proof (fun t => year_table_off_gen a k t Hyp) as Hoff. cbv zeta in Hoff. fold r in Hoff.
  destruct (year_table a k) as [ps prev] eqn:Eyt. intros Hord Hex.
  exists (table_answer ps prev l). split; [exact (Hm Hord Hex)|].
  assert (Hinc : increasing (offs ps) = true).
  { unfold year_table in Eyt. destruct (_ <? _) in Eyt; injection Eyt as <- <-;
      cbn [offs map fst snd windows ordered increasing] in *; lia. }
  pose proof (table_classification ps prev l Hinc Hord Hex) as Hc. cbv zeta in *.
  pose proof (utc_year_bounds l) as Hlb. fold k in Hlb.
  assert (Hvals : forall t, table_off (offs ps) (ut_offset prev) t = r_std r \/ table_off (offs ps) (ut_offset prev) t = r_dst r).
  { intros t. unfold year_table in Eyt. destruct (_ <? _) in Eyt; injection Eyt as <- <-;
      cbn [offs map fst snd table_off]; repeat match goal with |- context [if ?c then _ else _] => destruct c end; auto. }
  assert (Hiff : forall t, In t (instants_of_wall (mk_szone (ut_offset first) [] (Some (inr r))) l)
                           <-> maps (offs ps) (ut_offset prev) t l).
  { intros t. rewrite instants_of_wall_spec. unfold zone_off. cbn [z_trans z_rule z_first last_trans rev rule_off].
    unfold maps. split.
    - intros [Hz _]. injection Hz as Hz.
      change (ut_offset (a_dst a)) with (r_dst r) in Hz. change (ut_offset (a_std a)) with (r_std r) in Hz.
      rewrite (Hoff t Hord); [lia|]. destruct (rule_is_dst r t); [right|left]; lia.
    - intros Hmaps. assert (Hw : year_start k <= t + r_std r < year_start (k + 1) \/ year_start k <= t + r_dst r < year_start (k + 1)).
      { destruct (Hvals t) as [E|E]; rewrite E in Hmaps; [left|right]; lia. }
      change (ut_offset (a_dst a)) with (r_dst r). change (ut_offset (a_std a)) with (r_std r).
      rewrite <- (Hoff t Hord Hw). split; [f_equal; lia|].
      unfold zone_offsets. cbn [z_trans z_rule z_first map app]. rewrite In_dedup.
      replace (l - t) with (table_off (offs ps) (ut_offset prev) t) by lia.
      destruct (Hvals t) as [E|E]; rewrite E; cbn; auto. }
  unfold classified. cbv zeta.
  destruct (table_answer ps prev l) as [|x|x y].
  - destruct (instants_of_wall _ l) as [|t rest] eqn:E; [reflexivity|].
    exfalso. apply (Hc t). apply Hiff. left. reflexivity.
  - destruct Hc as [Hx Hu]. intros t. rewrite Hiff. split; [apply Hu|intros ->; exact Hx].
  - destruct Hc as (Hx & Hy & Hlt & Hu). split; [exact Hlt|]. intros t. rewrite Hiff.
    split; [apply Hu|intros [->| ->]; assumption].
Qed.

(** * Rule-only zones on EXACTLY the judge's domain (premise in the years y-2..y+2 only) *)
Theorem holds_loc_rule5 zone a first w l :
  let r := conv_rule a in let k := utc_year w in
  let rz := mk_szone (ut_offset first) [] (Some (inr r)) in
  transitions zone = [] -> index (local_time_types zone) 0 = Val first ->
  extra_rule zone = Some (Alternate a) -> alt_ok a -> r_std r <> r_dst r ->
  J.spacing_ok rz w = true ->
  J.expected_loc (zone_offsets rz) rz w = Some l ->
  exists m, find_local_time_type_from_local zone k w = Val (Ok m) /\ mlt_list (mlt_map m ut_offset) = l.
Proof.
  intros r k rz Ht Hf Hr Ha Hne Hsp He.
  destruct (expected_loc_dom _ _ _ He) as (Hdom & Hfo & Hex).
  unfold rz in Hdom, Hsp, Hfo. rewrite in_dom_rule_only in Hdom. rewrite spacing_ok_rule_only in Hsp.
  apply andb_prop in Hdom. destruct Hdom as [Hts Hp].
  destruct (premise_at_inv r w Hp) as (P2 & P1 & P0 & Pn & Pn2). fold k in P2, P1, P0, Pn, Pn2.
  apply andb_prop in Hsp. destruct Hsp as [Hself _]. fold k in Hself.
  destruct (spacing_self_year_table a k Hself) as [Hord Hreg].
  destruct (offsets_rule_only _ _ Hfo) as [O1 O2].
  pose proof (utc_year_ts_ok w Hts) as Hk0.
  assert (Hk : -262143 <= utc_year w <= 262142).
  { unfold J.ts_ok in Hts.
    assert (Hb : J.TS_MIN <= w <= J.TS_MAX) by (unfold J.TS_MIN, J.TS_MAX in *; lia).
    pose proof (utc_year_mono _ _ (proj1 Hb)) as H1. pose proof (utc_year_mono _ _ (proj2 Hb)) as H2.
    assert (E1 : utc_year J.TS_MIN = -262143) by (vm_compute; reflexivity).
    assert (E2 : utc_year J.TS_MAX = 262142) by (vm_compute; reflexivity). lia. }
  fold k in Hk, Hk0.
  assert (Hyp : year_formula r k).
  { intros t Hw. apply (rule_is_dst_year5 a k t Ha ltac:(lia)); [|exact Hw].
    unfold rule_year_hyps5. fold r. repeat (split; [assumption|]). exact Hreg. }
  pose proof (rule_zone_classification_gen zone a first w Ht Hf Hr Ha Hk0 Hne Hyp) as Hc.
  pose proof (excepted_wall_year_table a (ut_offset first) w) as Hey.
  cbv zeta in Hc, Hey. fold k r in Hc, Hey.
  destruct (year_table a k) as [ps prev]. cbn [fst snd] in Hord.
  destruct (Hc Hord (Hey Hex)) as (m & Hm & Hcl).
  exists m. split; [exact Hm|]. exact (expected_loc_classified rz w l m He Hcl).
Qed.
