(** Local facts, part 3: day numbers.  [yo_of_dn] inverts [dn_of_yo] (one sweep over the 146097
    days of a 400-year cycle, lifted by periodicity), the model's cycle functions against it, and
    [NaiveDate::add_days] as addition on day numbers.  To be reconciled with Proofs/Gregorian.v and
    Proofs/Date.v (C01). *)
From Coq Require Import ZArith List Bool Lia ZifyBool.
From V Require Import Base.Int Base.IntLemmas Base.Bits Base.Lift Base.Table Gen.DateTables
  Spec.Gregorian Model.Date Proofs.C08Sweeps Proofs.C08Date.
Import ListNotations.
Open Scope Z_scope.
Ltac Zify.zify_post_hook ::= Z.to_euclidean_division_equations.

Lemma dby_succ y : days_before_year (y + 1) = days_before_year y + days_in_year y.
Proof. unfold days_before_year, days_in_year, is_leap. destruct (_ || _) eqn:E; lia. Qed.
Lemma dby_mono a b : a <= b -> 365 * (b - a) <= days_before_year b - days_before_year a <= 366 * (b - a).
Proof. unfold days_before_year. lia. Qed.

Lemma dn_inj y o y' o' : valid_yo y o = true -> valid_yo y' o' = true ->
  dn_of_yo y o = dn_of_yo y' o' -> y = y' /\ o = o'.
Proof.
  unfold valid_yo, dn_of_yo. intros H1 H2 E.
  destruct (Z_lt_dec y y') as [L|L].
  { pose proof (dby_mono (y + 1) y' ltac:(lia)). pose proof (dby_succ y). lia. }
  destruct (Z_lt_dec y' y) as [L'|L'].
  { pose proof (dby_mono (y' + 1) y ltac:(lia)). pose proof (dby_succ y'). lia. }
  assert (y = y') by lia. subst. lia.
Qed.

Lemma dn_le_iff y o y' o' : valid_yo y o = true -> valid_yo y' o' = true -> y < y' ->
  dn_of_yo y o < dn_of_yo y' o'.
Proof.
  unfold valid_yo, dn_of_yo. intros H1 H2 L.
  pose proof (dby_mono (y + 1) y' ltac:(lia)). pose proof (dby_succ y). lia.
Qed.

Lemma yo_of_dn_period n q : yo_of_dn (n + 146097 * q) = (fst (yo_of_dn n) + 400 * q, snd (yo_of_dn n)).
Proof.
  unfold yo_of_dn. cbv zeta.
  replace ((n + 146097 * q - 1) / 146097) with ((n - 1) / 146097 + q) by lia.
  replace ((n + 146097 * q - 1) mod 146097) with ((n - 1) mod 146097) by lia.
  cbn [fst snd]. f_equal. lia.
Qed.

Lemma dn_of_yo_period y o q : dn_of_yo (y + 400 * q) o = dn_of_yo y o + 146097 * q.
Proof. unfold dn_of_yo. rewrite (days_before_year_mod (y + 400 * q)), (days_before_year_mod y).
  replace ((y + 400 * q) mod 400) with (y mod 400) by lia. lia. Qed.
Lemma valid_yo_period y o q : valid_yo (y + 400 * q) o = valid_yo y o.
Proof. unfold valid_yo. rewrite (days_in_year_mod (y + 400 * q)), (days_in_year_mod y).
  replace ((y + 400 * q) mod 400) with (y mod 400) by lia. reflexivity. Qed.

(** the sweep over one cycle: chrono's cycle number [c] (0 = 0000-01-01) is day number [c - 365] *)
Definition cyc_ok (c : Z) : bool :=
  let '(y, o) := yo_of_dn (c - 365) in
  (0 <=? y) && (y <? 400) && valid_yo y o && (dn_of_yo y o =? c - 365)
  && match cycle_to_yo c with Val (r, o') => (r =? y) && (o' =? o) | _ => false end.
Lemma cyc_sweep : forall_range cyc_ok 0 146097 = true.
Proof. vm_compute. reflexivity. Qed.

Lemma cyc_facts c : 0 <= c < 146097 ->
  let y := fst (yo_of_dn (c - 365)) in let o := snd (yo_of_dn (c - 365)) in
  0 <= y < 400 /\ valid_yo y o = true /\ dn_of_yo y o = c - 365 /\ cycle_to_yo c = Val (y, o).
Proof.
  intros Hc. pose proof (forall_range_spec _ _ _ cyc_sweep c ltac:(lia)) as S. unfold cyc_ok in S.
  destruct (yo_of_dn (c - 365)) as [y o]. cbn [fst snd].
  repeat (apply andb_prop in S; destruct S as [S ?]).
  destruct (cycle_to_yo c) as [[r o']| |]; try discriminate.
  repeat split; try lia; try assumption. f_equal. f_equal; lia.
Qed.

Theorem yo_of_dn_valid n :
  valid_yo (fst (yo_of_dn n)) (snd (yo_of_dn n)) = true /\ dn_of_yo (fst (yo_of_dn n)) (snd (yo_of_dn n)) = n.
Proof.
  set (c := (n + 365) mod 146097). set (q := (n + 365) / 146097).
  destruct (cyc_facts c ltac:(unfold c; lia)) as (_ & Hv & Hd & _).
  replace n with ((c - 365) + 146097 * q) by (unfold c, q; lia).
  rewrite yo_of_dn_period. cbn [fst snd]. rewrite valid_yo_period, dn_of_yo_period. split; [assumption|lia].
Qed.
Theorem yo_of_dn_of_yo y o : valid_yo y o = true -> yo_of_dn (dn_of_yo y o) = (y, o).
Proof.
  intros H. destruct (yo_of_dn_valid (dn_of_yo y o)) as [Hv Hd].
  destruct (dn_inj _ _ _ _ Hv H Hd) as [E1 E2].
  destruct (yo_of_dn (dn_of_yo y o)). cbn [fst snd] in *. congruence.
Qed.

(** range of day numbers = range of years *)
Lemma dn_in_range_iff y o : valid_yo y o = true -> dn_in_range (dn_of_yo y o) = year_in_range y.
Proof.
  intros H. unfold dn_in_range, year_in_range.
  change DN_MIN with (dn_of_yo MIN_YEAR 1). change DN_MAX with (dn_of_yo MAX_YEAR 365).
  assert (V1 : valid_yo MIN_YEAR 1 = true) by reflexivity.
  assert (V2 : valid_yo MAX_YEAR 365 = true) by reflexivity.
  destruct (Z_lt_dec y MIN_YEAR) as [L|L].
  { pose proof (dn_le_iff _ _ _ _ H V1 L). lia. }
  destruct (Z_lt_dec MAX_YEAR y) as [L2|L2].
  { pose proof (dn_le_iff _ _ _ _ V2 H L2). lia. }
  replace ((MIN_YEAR <=? y) && (y <=? MAX_YEAR)) with true by lia.
  assert (dn_of_yo MIN_YEAR 1 <= dn_of_yo y o).
  { destruct (Z.eq_dec y MIN_YEAR) as [->|N]; [unfold valid_yo, dn_of_yo in *; lia|].
    pose proof (dn_le_iff _ _ _ _ V1 H ltac:(lia)). lia. }
  assert (dn_of_yo y o <= dn_of_yo MAX_YEAR 365).
  { destruct (Z.eq_dec y MAX_YEAR) as [->|N].
    - unfold valid_yo, dn_of_yo in *. change (days_in_year MAX_YEAR) with 365 in H. lia.
    - pose proof (dn_le_iff _ _ _ _ H V2 ltac:(lia)). lia. }
  lia.
Qed.

(** the model's cycle functions *)
Definition deltas_ok (r : Z) : bool :=
  match tget YEAR_DELTAS r with Val v => (0 <=? v) && (v <=? 100) && (r * 365 + v =? days_before_year r + 366) | _ => false end.
Lemma deltas_sweep : forall_range deltas_ok 0 401 = true.
Proof. vm_compute. reflexivity. Qed.

Lemma yo_to_cycle_spec r o : 0 <= r < 400 -> 1 <= o <= 366 ->
  yo_to_cycle r o = Val (dn_of_yo r o + 365).
Proof.
  intros Hr Ho. pose proof (forall_range_spec _ _ _ deltas_sweep r ltac:(lia)) as S. unfold deltas_ok in S.
  unfold yo_to_cycle. unfold mul_u32, chk. replace (in_u32 (r * 365)) with true by solve_in. cbn [bind].
  rewrite as_u64_id by solve_in.
  destruct (tget YEAR_DELTAS r) as [v| |]; try discriminate. cbn [bind].
  unfold add_u32, chk. replace (in_u32 (r * 365 + v)) with true by solve_in. cbn [bind].
  replace (in_u32 (r * 365 + v + o)) with true by solve_in. cbn [bind].
  unfold sub_u32, chk. replace (in_u32 (r * 365 + v + o - 1)) with true by solve_in.
  f_equal. unfold dn_of_yo. lia.
Qed.
