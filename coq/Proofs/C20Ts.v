(** C20 -- the sixteen timestamp helper modules, on top of the C02 theorems (Proofs/C02*.v):
    serialize writes floor(instant / unit) (nanoseconds: or an error when the count leaves i64),
    visit_i64 / visit_u64 give exactly the date-time at integer * unit when it is representable and
    the error [invalid_ts(value)] otherwise, never a trap; the option wrappers add None <-> none/unit.
    Vocabulary of Proofs/C02.v: [valid_ndt], [nonleap], [instant] (through Spec/Gregorian.v). *)
From Coq Require Import ZArith List Bool Lia ZifyBool.
From V Require Import Base.Int Base.IO Base.IntLemmas Spec.Gregorian Gen.SerdeConsts Model.TimeDelta Model.DateTime Model.Serde.
From V Require Model.Date Model.Time Model.C19.
From V Require Import Proofs.C02 Proofs.C02Date.
Import ListNotations.
Open Scope Z_scope.
Ltac Zify.zify_post_hook ::= Z.to_euclidean_division_equations.

(** nanoseconds per unit of module m = 8*z + 2*u + o *)
Definition unit_ns (m : Z) : Z :=
  let u := (m mod 8) / 2 in
  if u =? 0 then 1000000000 else if u =? 1 then 1000000 else if u =? 2 then 1000 else 1.
Definition plain_mods : list Z := [0; 2; 4; 6; 8; 10; 12; 14].
Definition option_mods : list Z := [1; 3; 5; 7; 9; 11; 13; 15].

Ltac units := change (unit_ns 0) with 1000000000; change (unit_ns 1) with 1000000000; change (unit_ns 2) with 1000000; change (unit_ns 3) with 1000000; change (unit_ns 4) with 1000; change (unit_ns 5) with 1000; change (unit_ns 6) with 1; change (unit_ns 7) with 1; change (unit_ns 8) with 1000000000; change (unit_ns 9) with 1000000000; change (unit_ns 10) with 1000000; change (unit_ns 11) with 1000000; change (unit_ns 12) with 1000; change (unit_ns 13) with 1000; change (unit_ns 14) with 1; change (unit_ns 15) with 1.

(** the reading of a visitor result: the date-time at instant [t], or invalid_ts(n) exactly when no
    date-time has that instant *)
Definition read_spec (t n : Z) (r : sres ndt) : Prop :=
  match r with
  | SOk a => valid_ndt a /\ nonleap a /\ instant a = t /\ NS_MIN <= t <= NS_MAX
  | SErr e => e = EInvalidTs n /\ ~ (NS_MIN <= t <= NS_MAX)
  end.

Lemma or_invalid_of_split n t : in_i64 (t / G) = true ->
  exists r, or_invalid_ts n (dt_from_timestamp (t / G) (t mod G)) = Val r /\ read_spec t n r.
Proof.
  intros Hi. destruct (from_timestamp_split date_facts_hold t Hi) as [o [Ho Hs]].
  unfold or_invalid_ts. rewrite Ho. cbn [bind]. destruct o as [a|].
  - exists (SOk a). split; [reflexivity|]. destruct Hs as (Hv & Hl & Hi'). cbn [read_spec].
    split; [exact Hv|split; [exact Hl|split; [exact Hi'|rewrite <- Hi'; apply (nonleap_instant_range date_facts_hold a Hv Hl)]]].
  - exists (SErr (EInvalidTs n)). split; [reflexivity|]. split; [reflexivity|exact Hs].
Qed.

(** ** the shapes of visit_i64 *)
(* from_timestamp(value.div_euclid(d), (value.rem_euclid(d) * k) as u32), d * k = 10^9 *)
Lemma visit_i64_form3 d k n :
  (d = 1000000000 /\ k = 1) \/ (d = 1000000 /\ k = 1000) \/ (d = 1000 /\ k = 1000000) -> in_i64 n = true ->
  exists r,
    (let* q := div_euclid in_i64 n d in
     let* rm := rem_euclid in_i64 n d in
     let* nn := mul_i64 rm k in
     or_invalid_ts n (dt_from_timestamp q (as_u32 nn))) = Val r /\ read_spec (n * k) n r.
Proof.
  intros Hdk Hi.
  assert (Hd : 0 < d) by lia.
  rewrite div_euclid_pos, rem_euclid_pos by exact Hd.
  assert (Hq : in_i64 (n / d) = true) by (ranges; lia).
  rewrite (chk_val _ _ Hq), Hq. cbv [bind]. unfold mul_i64.
  rewrite chk_val by (ranges; lia). cbv [bind].
  rewrite as_u32_id by (ranges; lia).
  replace (n / d) with ((n * k) / G) by (unfold G; lia).
  replace (n mod d * k) with ((n * k) mod G) by (unfold G; lia).
  apply or_invalid_of_split. replace ((n * k) / G) with (n / d) by (unfold G; lia). exact Hq.
Qed.

(* from_timestamp((value / d) as i64, ((value % d) * k) as u32) on a u64 *)
Lemma visit_u64_form3 d k n :
  (d = 1000000000 /\ k = 1) \/ (d = 1000000 /\ k = 1000) \/ (d = 1000 /\ k = 1000000) -> in_u64 n = true ->
  exists r,
    (let* q := div_u64 n d in
     let* rm := rem_u64 n d in
     let* nn := mul_u64 rm k in
     or_invalid_ts n (dt_from_timestamp (as_i64 q) (as_u32 nn))) = Val r /\ read_spec (n * k) n r.
Proof.
  intros Hdk Hi.
  assert (Hd : d <> 0) by lia.
  assert (Hn : 0 <= n <= 18446744073709551615) by (ranges; lia).
  unfold div_u64, rem_u64. rewrite div_t_nz, rem_t_nz by exact Hd.
  rewrite Z.quot_div_nonneg, Z.rem_mod_nonneg by lia.
  assert (Hq : in_u64 (n / d) = true) by (ranges; lia).
  rewrite (chk_val _ _ Hq), Hq. cbv [bind]. unfold mul_u64.
  rewrite chk_val by (ranges; lia). cbv [bind].
  rewrite as_u32_id by (ranges; lia).
  assert (Hq' : in_i64 (n / d) = true) by (ranges; lia).
  rewrite (as_i64_id _ Hq').
  replace (n / d) with ((n * k) / G) by (unfold G; lia).
  replace (n mod d * k) with ((n * k) mod G) by (unfold G; lia).
  apply or_invalid_of_split. replace ((n * k) / G) with (n / d) by (unfold G; lia). exact Hq'.
Qed.

Lemma visit_secs n : in_i64 n = true ->
  exists r, or_invalid_ts n (dt_from_timestamp n 0) = Val r /\ read_spec (n * 1000000000) n r.
Proof.
  intros Hi. pose proof (or_invalid_of_split n (n * 1000000000)) as H.
  replace ((n * 1000000000) / G) with n in H by (unfold G; lia).
  replace ((n * 1000000000) mod G) with 0 in H by (unfold G; lia).
  apply H. exact Hi.
Qed.
Lemma visit_millis n : in_i64 n = true ->
  exists r, or_invalid_ts n (dt_from_timestamp_millis n) = Val r /\ read_spec (n * 1000000) n r.
Proof.
  intros Hi. destruct (u_from_timestamp_millis_spec n Hi) as [o [Ho Hs]].
  unfold or_invalid_ts. rewrite Ho. cbn [bind]. destruct o as [a|].
  - exists (SOk a). split; [reflexivity|]. destruct Hs as (Hv & Hl & Hi'). cbn [read_spec].
    split; [exact Hv|split; [exact Hl|split; [exact Hi'|rewrite <- Hi'; apply (nonleap_instant_range date_facts_hold a Hv Hl)]]].
  - exists (SErr (EInvalidTs n)). split; [reflexivity|]. split; [reflexivity|exact Hs].
Qed.
Lemma visit_micros n : in_i64 n = true ->
  exists r, or_invalid_ts n (dt_from_timestamp_micros n) = Val r /\ read_spec (n * 1000) n r.
Proof.
  intros Hi. destruct (u_from_timestamp_micros_spec n Hi) as [o [Ho Hs]].
  unfold or_invalid_ts. rewrite Ho. cbn [bind]. destruct o as [a|].
  - exists (SOk a). split; [reflexivity|]. destruct Hs as (Hv & Hl & Hi'). cbn [read_spec].
    split; [exact Hv|split; [exact Hl|split; [exact Hi'|rewrite <- Hi'; apply (nonleap_instant_range date_facts_hold a Hv Hl)]]].
  - exists (SErr (EInvalidTs n)). split; [reflexivity|]. split; [reflexivity|exact Hs].
Qed.

(** ** visit_i64 / visit_u64 of every module's visitor *)
Theorem ts_visit_i64_spec b n : In b plain_mods -> in_i64 n = true ->
  exists r, ts_visit_i64 b n = Val r /\ read_spec (n * unit_ns b) n r.
Proof.
  intros Hb Hi. unfold plain_mods in Hb. cbn [In] in Hb.
  destruct Hb as [<-|[<-|[<-|[<-|[<-|[<-|[<-|[<-|[]]]]]]]]];
    unfold ts_visit_i64; cbn [C19.tab C19.lookup SD_I64 Z.eqb Pos.eqb unwrap bind]; cbv beta iota; cbn [Z.eqb Pos.eqb];
    change (unit_ns 0) with 1000000000; change (unit_ns 2) with 1000000; change (unit_ns 4) with 1000;
    change (unit_ns 6) with 1; change (unit_ns 8) with 1000000000; change (unit_ns 10) with 1000000;
    change (unit_ns 12) with 1000; change (unit_ns 14) with 1.
  - apply visit_secs; exact Hi.
  - apply visit_millis; exact Hi.
  - apply visit_micros; exact Hi.
  - apply (visit_i64_form3 1000000000 1 n); [left; split; reflexivity|exact Hi].
  - apply visit_secs; exact Hi.
  - apply visit_millis; exact Hi.
  - apply (visit_i64_form3 1000000 1000 n); [right; left; split; reflexivity|exact Hi].
  - apply (visit_i64_form3 1000000000 1 n); [left; split; reflexivity|exact Hi].
Qed.

Lemma visit_u64_secs n : in_u64 n = true ->
  exists r, (if n >? as_u64 i64_max then serr_ (EInvalidTs n) else or_invalid_ts n (dt_from_timestamp (as_i64 n) 0)) = Val r /\
            read_spec (n * 1000000000) n r.
Proof.
  intros Hi. change (as_u64 i64_max) with 9223372036854775807.
  destruct (n >? 9223372036854775807) eqn:E.
  - exists (SErr (EInvalidTs n)). split; [reflexivity|]. split; [reflexivity|]. consts. lia.
  - assert (Hi' : in_i64 n = true) by (ranges; lia). rewrite (as_i64_id _ Hi'). apply visit_secs. exact Hi'.
Qed.

Theorem ts_visit_u64_spec b n : In b plain_mods -> in_u64 n = true ->
  exists r, ts_visit_u64 b n = Val r /\ read_spec (n * unit_ns b) n r.
Proof.
  intros Hb Hi. unfold plain_mods in Hb. cbn [In] in Hb.
  destruct Hb as [<-|[<-|[<-|[<-|[<-|[<-|[<-|[<-|[]]]]]]]]];
    unfold ts_visit_u64; cbn [C19.tab C19.lookup SD_U64 Z.eqb Pos.eqb unwrap bind]; cbv beta iota; cbn [Z.eqb Pos.eqb];
    change (unit_ns 0) with 1000000000; change (unit_ns 2) with 1000000; change (unit_ns 4) with 1000;
    change (unit_ns 6) with 1; change (unit_ns 8) with 1000000000; change (unit_ns 10) with 1000000;
    change (unit_ns 12) with 1000; change (unit_ns 14) with 1.
  - apply visit_u64_secs; exact Hi.
  - apply (visit_u64_form3 1000 1000000 n); [right; right; split; reflexivity|exact Hi].
  - apply (visit_u64_form3 1000000 1000 n); [right; left; split; reflexivity|exact Hi].
  - apply (visit_u64_form3 1000000000 1 n); [left; split; reflexivity|exact Hi].
  - apply visit_u64_secs; exact Hi.
  - apply (visit_u64_form3 1000 1000000 n); [right; right; split; reflexivity|exact Hi].
  - apply (visit_u64_form3 1000000 1000 n); [right; left; split; reflexivity|exact Hi].
  - apply (visit_u64_form3 1000000000 1 n); [left; split; reflexivity|exact Hi].
Qed.

(** ** deserialize of the plain and the option modules *)
Lemma vis_plain m : In m plain_mods -> C19.tab SD_VIS m = Val m.
Proof.
  unfold plain_mods. cbn [In]. intros [<-|[<-|[<-|[<-|[<-|[<-|[<-|[<-|[]]]]]]]]]; reflexivity.
Qed.
Lemma vis_option m : In m option_mods -> C19.tab SD_VIS m = Val (m - 1) /\ In (m - 1) plain_mods /\ unit_ns (m - 1) = unit_ns m.
Proof.
  unfold option_mods, plain_mods. cbn [In].
  intros [<-|[<-|[<-|[<-|[<-|[<-|[<-|[<-|[]]]]]]]]]; (split; [reflexivity|split; [cbn; tauto|reflexivity]]).
Qed.

(* signed and unsigned input; anything else is not an integer *)
Theorem ts_deserialize_spec m n : In m plain_mods ->
  (in_i64 n = true -> exists r, ts_deserialize m (SI64 n) = Val r /\ read_spec (n * unit_ns m) n r) /\
  (in_u64 n = true -> exists r, ts_deserialize m (SU64 n) = Val r /\ read_spec (n * unit_ns m) n r).
Proof.
  intros Hm. unfold ts_deserialize. rewrite (vis_plain m Hm). cbn [bind ts_visit_int]. split; intros Hi.
  - apply ts_visit_i64_spec; assumption.
  - apply ts_visit_u64_spec; assumption.
Qed.

Definition lift_some (r : sres ndt) : sres (option ndt) :=
  match r with SOk a => SOk (Some a) | SErr e => SErr e end.
Lemma smap_some x r : x = Val r -> smap Some x = Val (lift_some r).
Proof. intros ->. destruct r; reflexivity. Qed.

Theorem ts_deserialize_option_spec m n : In m option_mods ->
  ts_deserialize_option m SNone = Val (SOk None) /\
  ts_deserialize_option m SUnit = Val (SOk None) /\
  (in_i64 n = true -> exists r, ts_deserialize_option m (SSome (SI64 n)) = Val (lift_some r) /\ read_spec (n * unit_ns m) n r) /\
  (in_u64 n = true -> exists r, ts_deserialize_option m (SSome (SU64 n)) = Val (lift_some r) /\ read_spec (n * unit_ns m) n r).
Proof.
  intros Hm. destruct (vis_option m Hm) as (Hv & Hp & Hu). unfold ts_deserialize_option. rewrite Hv. cbn [bind].
  split; [reflexivity|]. split; [reflexivity|]. rewrite <- Hu. split; intros Hi.
  - destruct (ts_visit_i64_spec (m - 1) n Hp Hi) as [r [Hr Hs]]. exists r. split; [|exact Hs].
    cbn [ts_visit_int]. apply smap_some. exact Hr.
  - destruct (ts_visit_u64_spec (m - 1) n Hp Hi) as [r [Hr Hs]]. exists r. split; [|exact Hs].
    cbn [ts_visit_int]. apply smap_some. exact Hr.
Qed.

(** ** serialize: the exact timestamp floor(instant / unit) *)
Lemma ser_tab m : In m (plain_mods ++ option_mods) -> C19.tab SD_SER m = Val ((m mod 8) / 2).
Proof.
  unfold plain_mods, option_mods. cbn [In app].
  intros [<-|[<-|[<-|[<-|[<-|[<-|[<-|[<-|[<-|[<-|[<-|[<-|[<-|[<-|[<-|[<-|[]]]]]]]]]]]]]]]]]; reflexivity.
Qed.

Definition written (m : Z) (a : ndt) : sres Z :=
  let w := instant a / unit_ns m in if in_i64 w then SOk w else SErr ESerNanos.

Lemma accessor_spec u a : 0 <= u <= 3 -> valid_ndt a -> nonleap a ->
  ts_accessor u a = Val (let w := instant a / (if u =? 0 then 1000000000 else if u =? 1 then 1000000 else if u =? 2 then 1000 else 1) in
                         if in_i64 w then SOk w else SErr ESerNanos).
Proof.
  intros Hu Hv Hl. pose proof (nonleap_instant_range date_facts_hold a Hv Hl) as Hr.
  assert (Hc : u = 0 \/ u = 1 \/ u = 2 \/ u = 3) by lia.
  destruct Hc as [->|[->|[->| ->]]]; unfold ts_accessor; cbn [Z.eqb Pos.eqb]; cbv zeta.
  - rewrite (u_timestamp_floor a Hv Hl). cbn [bind]. unfold sok, G.
    replace (in_i64 (instant a / 1000000000)) with true by (symmetry; ranges; consts; lia). reflexivity.
  - rewrite (u_timestamp_millis_floor a Hv Hl). cbn [bind]. unfold sok.
    replace (in_i64 (instant a / 1000000)) with true by (symmetry; ranges; consts; lia). reflexivity.
  - rewrite (u_timestamp_micros_floor a Hv Hl). cbn [bind]. unfold sok.
    replace (in_i64 (instant a / 1000)) with true by (symmetry; ranges; consts; lia). reflexivity.
  - rewrite (u_timestamp_nanos_opt_spec a Hv Hl). cbn [bind]. rewrite Z.div_1_r.
    destruct (in_i64 (instant a)); reflexivity.
Qed.

Lemma unit_ns_eq m : unit_ns m = (let u := (m mod 8) / 2 in if u =? 0 then 1000000000 else if u =? 1 then 1000000 else if u =? 2 then 1000 else 1).
Proof. reflexivity. Qed.

Theorem ts_serialize_spec m a : In m plain_mods -> valid_ndt a -> nonleap a ->
  ts_serialize m a = Val (match written m a with SOk w => SOk (SI64 w) | SErr e => SErr e end).
Proof.
  intros Hm Hv Hl. unfold ts_serialize. rewrite ser_tab by (apply in_or_app; left; exact Hm). cbn [bind].
  rewrite (accessor_spec ((m mod 8) / 2) a) by (try assumption; lia).
  unfold written. rewrite unit_ns_eq. cbv zeta.
  destruct (in_i64 _); reflexivity.
Qed.
Theorem ts_serialize_option_spec m a : In m option_mods -> valid_ndt a -> nonleap a ->
  ts_serialize_option m None = Val (SOk SNone) /\
  ts_serialize_option m (Some a) = Val (match written m a with SOk w => SOk (SSome (SI64 w)) | SErr e => SErr e end).
Proof.
  intros Hm Hv Hl. unfold ts_serialize_option. rewrite ser_tab by (apply in_or_app; right; exact Hm). cbn [bind].
  split; [reflexivity|].
  rewrite (accessor_spec ((m mod 8) / 2) a) by (try assumption; lia).
  unfold written. rewrite unit_ns_eq. cbv zeta.
  destruct (in_i64 _); reflexivity.
Qed.

(** the count overflows i64 only in the nanosecond modules, exactly outside the i64 window *)
Lemma written_ok m a : In m (plain_mods ++ option_mods) -> valid_ndt a -> nonleap a ->
  written m a = if (unit_ns m =? 1) && negb (in_i64 (instant a)) then SErr ESerNanos else SOk (instant a / unit_ns m).
Proof.
  intros Hm Hv Hl. pose proof (nonleap_instant_range date_facts_hold a Hv Hl) as Hr. unfold written. cbv zeta.
  unfold plain_mods, option_mods in Hm. cbn [In app] in Hm.
  destruct Hm as [<-|[<-|[<-|[<-|[<-|[<-|[<-|[<-|[<-|[<-|[<-|[<-|[<-|[<-|[<-|[<-|[]]]]]]]]]]]]]]]]];
    units; cbn [Z.eqb Pos.eqb andb]; cbv beta iota;
    match goal with
    | |- context [instant a / 1] => rewrite Z.div_1_r; destruct (in_i64 (instant a)); reflexivity
    | |- _ => idtac
    end.
  all: match goal with |- context [in_i64 ?w] => replace (in_i64 w) with true by (symmetry; ranges; consts; lia) end; reflexivity.
Qed.

(** ** round trip at the module's precision, through both formats *)
Lemma carry_i64 fmt w : carry fmt (SI64 w) = if (fmt =? 0) && (0 <=? w) then SU64 w else SI64 w.
Proof. unfold carry. destruct (fmt =? 0); cbn [carry_json andb]; [|reflexivity]. destruct (w <? 0) eqn:E; destruct (0 <=? w) eqn:E2; try reflexivity; lia. Qed.
Lemma carry_some fmt v : carry fmt (SSome v) = SSome (carry fmt v).
Proof. unfold carry. destruct (fmt =? 0); reflexivity. Qed.

Lemma floor_in_range t u : (u = 1000000000 \/ u = 1000000 \/ u = 1000 \/ u = 1) -> NS_MIN <= t <= NS_MAX ->
  NS_MIN <= t / u * u <= NS_MAX.
Proof. intros Hu Hr. consts. destruct Hu as [->|[->|[->| ->]]]; lia. Qed.
Lemma unit_cases m : In m (plain_mods ++ option_mods) ->
  unit_ns m = 1000000000 \/ unit_ns m = 1000000 \/ unit_ns m = 1000 \/ unit_ns m = 1.
Proof.
  unfold plain_mods, option_mods. cbn [In app].
  intros [<-|[<-|[<-|[<-|[<-|[<-|[<-|[<-|[<-|[<-|[<-|[<-|[<-|[<-|[<-|[<-|[]]]]]]]]]]]]]]]]]; cbn; tauto.
Qed.

(* what comes back is the date-time at floor(instant / unit) * unit: the same instant at the
   module's precision *)
Theorem ts_roundtrip m fmt a w : In m plain_mods -> valid_ndt a -> nonleap a -> written m a = SOk w ->
  ts_serialize m a = Val (SOk (SI64 w)) /\ w = instant a / unit_ns m /\
  exists a', ts_deserialize m (carry fmt (SI64 w)) = Val (SOk a') /\
             valid_ndt a' /\ nonleap a' /\ instant a' = instant a / unit_ns m * unit_ns m.
Proof.
  intros Hm Hv Hl Hw. pose proof (nonleap_instant_range date_facts_hold a Hv Hl) as Hr.
  rewrite (ts_serialize_spec m a Hm Hv Hl), Hw. split; [reflexivity|].
  assert (Ew : w = instant a / unit_ns m /\ in_i64 w = true).
  { unfold written in Hw. cbv zeta in Hw. destruct (in_i64 (instant a / unit_ns m)) eqn:E; [|discriminate].
    injection Hw as <-. split; [reflexivity|exact E]. }
  destruct Ew as [Ew Hi]. split; [exact Ew|].
  pose proof (floor_in_range (instant a) (unit_ns m) (unit_cases m (in_or_app _ _ _ (or_introl Hm))) Hr) as Hfl.
  rewrite <- Ew in Hfl.
  destruct (ts_deserialize_spec m w Hm) as [H64 Hu64]. rewrite carry_i64.
  destruct ((fmt =? 0) && (0 <=? w)) eqn:E.
  - assert (Hu : in_u64 w = true) by (ranges; lia).
    destruct (Hu64 Hu) as [r [Hr1 Hs]]. destruct r as [a'|e]; cbn [read_spec] in Hs.
    + exists a'. rewrite Hr1. destruct Hs as (A & B & C & _). rewrite <- Ew. auto.
    + destruct Hs as [_ Hs]. contradiction.
  - destruct (H64 Hi) as [r [Hr1 Hs]]. destruct r as [a'|e]; cbn [read_spec] in Hs.
    + exists a'. rewrite Hr1. destruct Hs as (A & B & C & _). rewrite <- Ew. auto.
    + destruct Hs as [_ Hs]. contradiction.
Qed.

Theorem ts_roundtrip_option m fmt a w : In m option_mods -> valid_ndt a -> nonleap a -> written m a = SOk w ->
  (ts_serialize_option m None = Val (SOk SNone) /\ ts_deserialize_option m (carry fmt SNone) = Val (SOk None)) /\
  ts_serialize_option m (Some a) = Val (SOk (SSome (SI64 w))) /\ w = instant a / unit_ns m /\
  exists a', ts_deserialize_option m (carry fmt (SSome (SI64 w))) = Val (SOk (Some a')) /\
             valid_ndt a' /\ nonleap a' /\ instant a' = instant a / unit_ns m * unit_ns m.
Proof.
  intros Hm Hv Hl Hw. pose proof (nonleap_instant_range date_facts_hold a Hv Hl) as Hr.
  destruct (ts_serialize_option_spec m a Hm Hv Hl) as [Hn Hs]. rewrite Hs, Hw.
  destruct (ts_deserialize_option_spec m w Hm) as (Dn & _ & D64 & Du64).
  split; [split; [exact Hn|]|].
  { unfold carry. destruct (fmt =? 0); exact Dn. }
  split; [reflexivity|].
  assert (Ew : w = instant a / unit_ns m /\ in_i64 w = true).
  { unfold written in Hw. cbv zeta in Hw. destruct (in_i64 (instant a / unit_ns m)) eqn:E; [|discriminate].
    injection Hw as <-. split; [reflexivity|exact E]. }
  destruct Ew as [Ew Hi]. split; [exact Ew|].
  pose proof (floor_in_range (instant a) (unit_ns m) (unit_cases m (in_or_app _ _ _ (or_intror Hm))) Hr) as Hfl.
  rewrite <- Ew in Hfl. rewrite carry_some, carry_i64.
  destruct ((fmt =? 0) && (0 <=? w)) eqn:E.
  - assert (Hu : in_u64 w = true) by (ranges; lia).
    destruct (Du64 Hu) as [r [Hr1 Hs']]. destruct r as [a'|e]; cbn [read_spec lift_some] in *.
    + exists a'. rewrite Hr1. destruct Hs' as (A & B & C & _). rewrite <- Ew. auto.
    + destruct Hs' as [_ Hs']. contradiction.
  - destruct (D64 Hi) as [r [Hr1 Hs']]. destruct r as [a'|e]; cbn [read_spec lift_some] in *.
    + exists a'. rewrite Hr1. destruct Hs' as (A & B & C & _). rewrite <- Ew. auto.
    + destruct Hs' as [_ Hs']. contradiction.
Qed.

(** hypotheses are inhabited: 1969-12-31T23:59:59.999999999 through ts_microseconds (module 12) *)
Example ts_example : exists a, dt_from_timestamp (-1) 999999999 = Val (Some a) /\ valid_ndt a /\ nonleap a /\
  instant a = -1 /\ written 12 a = SOk (-1) /\
  ts_deserialize 12 (carry 1 (SI64 (-1))) = ts_deserialize 12 (carry 0 (SI64 (-1))).
Proof.
  destruct (u_from_timestamp_spec (-1) 999999999 eq_refl eq_refl) as [r [Hr Hs]].
  destruct r as [a|].
  - exists a. destruct Hs as (Hv & Hsec & Hf & _).
    assert (Hl : nonleap a) by (unfold nonleap, G; lia).
    assert (Hi : instant a = -1) by (rewrite instant_secs, Hsec, Hf; reflexivity).
    split; [exact Hr|split; [exact Hv|split; [exact Hl|split; [exact Hi|split]]]].
    + unfold written. units. rewrite Hi. reflexivity.
    + reflexivity.
  - exfalso. apply Hs. consts. lia.
Qed.
