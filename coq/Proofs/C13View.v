(** C13 — composition infrastructure for the END-TO-END round trips (formatter, reader, Parsed
    resolution):
    1. segments: [item_rt] / [seg_ok] package "the formatter prints [t] for this item, the reader
       takes [t] back in front of [rest] with write [w], and the text stays well-formed"; segments
       compose by [seg_cons], so a family is assembled item by item;
    2. field views: a field record [F] lists the fields of the value being formatted; when every
       recognised write puts a field of [F] ([w_ok]) the real setters succeed on any record below
       [F] and the result stays below [F] ([run_view]) -- repeated and redundant items included;
    3. the value views: the fields of a date ([date_F]) are sound for it (C14 [date_sound]);
    4. from item lists to format strings ([sf_lift]). *)
From Coq Require Import ZArith List Bool Lia ZifyBool.
From V Require Import Base.Int Base.IntLemmas Base.IO Base.Utf8 Model.Scan Model.Items Gen.ParseTable Gen.Strftime
  Proofs.Utf8 Proofs.Scan Model.Parse Proofs.C13 Proofs.C13Reads Proofs.C13Fmt Proofs.C13Digits Proofs.C13Time
  Spec.StrftimeDoc.
From V Require Model.Parsed Model.Format Model.Strftime Model.Date Proofs.C12 Proofs.C14 Proofs.C14Date Proofs.C14Iso
  Proofs.C08Sweeps Proofs.C08 Proofs.DateIso.
Import ListNotations.
Open Scope Z_scope.
Ltac Zify.zify_post_hook ::= Z.to_euclidean_division_equations.

(** * 1. Segments *)
Definition ascii_b (l : bytes) : Prop := Forall (fun c => 0 <= c <= 127) l.

Lemma digits_ascii ds : forallb is_ascii_digit ds = true -> ascii_b ds.
Proof.
  induction ds as [|c r IH]; intros H; constructor; cbn [forallb] in H; apply andb_prop in H; destruct H as [Hc Hr].
  - pose proof (digit_range c Hc). lia.
  - exact (IH Hr).
Qed.
Lemma rep_ascii c k : 0 <= c <= 127 -> ascii_b (rep c k).
Proof. intros Hc. unfold rep. induction (Z.to_nat k) as [|m IH]; constructor; assumption. Qed.
Lemma ascii_app a b : ascii_b a -> ascii_b b -> ascii_b (a ++ b).
Proof. intros Ha Hb. apply Forall_app. split; assumption. Qed.

Lemma pad_num_ascii p w f v : ascii_b (pad_num p w f v).
Proof.
  unfold pad_num. change (digits (Z.abs v)) with (dec_nonneg (Z.abs v)).
  destruct (dec_nonneg_digits (Z.abs v) (Z.abs_nonneg v)) as (Hd & _).
  pose proof (digits_ascii _ Hd) as HD.
  assert (Hs : ascii_b (if v <? 0 then [45] else if f then [43] else [])).
  { destruct (v <? 0); [|destruct f]; repeat constructor; lia. }
  destruct p; repeat apply ascii_app; try assumption; apply rep_ascii; lia.
Qed.

Definition item_rt (a : Model.Format.fmt_args) (it : Item) (t : bytes) (w : write) (rest : bytes) : Prop :=
  renders a it t /\ reads_b it t rest = Some w /\ utf8_valid (t ++ rest) = true.
Definition seg_ok (a : Model.Format.fmt_args) (items : list Item) (texts : list bytes) (ws : list write)
    (tail : bytes) : Prop :=
  Forall2 (renders a) items texts /\ unambiguous_b (combine items texts) tail = Some ws /\
  utf8_valid (concat texts ++ tail) = true.

Lemma seg_nil a tail : utf8_valid tail = true -> seg_ok a [] [] [] tail.
Proof. intros H. split; [constructor|]. split; [reflexivity|exact H]. Qed.
Lemma seg_cons a it t w items texts ws tail :
  seg_ok a items texts ws tail -> item_rt a it t w (concat texts ++ tail) ->
  seg_ok a (it :: items) (t :: texts) (w :: ws) tail.
Proof.
  intros (Hr & Hu & Hv) (Ir & Iu & Iv). split; [constructor; assumption|]. split.
  - cbn [combine unambiguous_b]. rewrite text_of_combine by exact (F2_length _ _ _ Hr). rewrite Iu, Hu. reflexivity.
  - cbn [concat]. rewrite <- app_assoc. exact Iv.
Qed.

(** segments compose *)
Lemma text_of_app : forall l1 l2, text_of (l1 ++ l2) = text_of l1 ++ text_of l2.
Proof.
  induction l1 as [|[it t] r IH]; intros l2; [reflexivity|]. cbn [app text_of]. rewrite IH, app_assoc. reflexivity.
Qed.
Lemma unambiguous_app : forall l1 l2 tail w1 w2,
  unambiguous_b l1 (text_of l2 ++ tail) = Some w1 -> unambiguous_b l2 tail = Some w2 ->
  unambiguous_b (l1 ++ l2) tail = Some (w1 ++ w2).
Proof.
  induction l1 as [|[it t] r IH]; intros l2 tail w1 w2 H1 H2.
  - injection H1 as <-. exact H2.
  - cbn [unambiguous_b app] in *. rewrite text_of_app, <- app_assoc.
    destruct (reads_b it t (text_of r ++ text_of l2 ++ tail)) as [w|]; [|discriminate].
    destruct (unambiguous_b r (text_of l2 ++ tail)) as [ws|] eqn:Er; [|discriminate]. injection H1 as <-.
    rewrite (IH l2 tail ws w2 Er H2). reflexivity.
Qed.
Lemma combine_app_eq {X Y} : forall (a1 : list X) (b1 : list Y) a2 b2, List.length a1 = List.length b1 ->
  combine (a1 ++ a2) (b1 ++ b2) = combine a1 b1 ++ combine a2 b2.
Proof.
  induction a1 as [|x r IH]; intros [|y s] a2 b2 H; cbn in H; try discriminate; [reflexivity|].
  cbn [app combine]. f_equal. apply IH. lia.
Qed.
Lemma seg_app a i1 t1 w1 i2 t2 w2 tail :
  seg_ok a i2 t2 w2 tail -> seg_ok a i1 t1 w1 (concat t2 ++ tail) ->
  seg_ok a (i1 ++ i2) (t1 ++ t2) (w1 ++ w2) tail.
Proof.
  intros (R2 & U2 & V2) (R1 & U1 & V1). split; [apply Forall2_app; assumption|]. split.
  - rewrite combine_app_eq by exact (F2_length _ _ _ R1). apply unambiguous_app; [|exact U2].
    rewrite text_of_combine by exact (F2_length _ _ _ R2). exact U1.
  - rewrite concat_app, <- app_assoc. exact V1.
Qed.
Lemma seg_valid a items texts ws tail : seg_ok a items texts ws tail -> utf8_valid (concat texts ++ tail) = true.
Proof. intros (_ & _ & H). exact H. Qed.

(** the whole text: the formatter writes it, [parse] performs exactly the writes *)
Theorem seg_parse a items texts ws : seg_ok a items texts ws [] ->
  Model.Format.write_items a items [] = Model.Format.fok (concat texts) /\
  forall p, parse p (concat texts) items = run_writes ws p.
Proof.
  intros (Hr & Hu & _). split; [exact (write_items_texts a items texts [] Hr)|]. intros p.
  pose proof (F2_length _ _ _ Hr) as Hl.
  pose proof (unambiguous_parse (combine items texts) ws p Hu) as H.
  rewrite text_of_combine, map_fst_combine in H by exact Hl. exact H.
Qed.

(** ** the item kinds of the families *)
Lemma item_lit a l rest : ascii_b l -> utf8_valid rest = true -> item_rt a (Literal l) l W_none rest.
Proof.
  intros Hl Hr. split; [reflexivity|]. split.
  - cbn [reads_b]. rewrite (utf8_valid_starts_ok rest Hr).
    assert (E : bytes_eqb l l = true).
    { clear. induction l as [|c r IH]; [reflexivity|]. cbn [bytes_eqb]. rewrite Z.eqb_refl, IH. reflexivity. }
    rewrite E. reflexivity.
  - rewrite utf8_valid_app_ascii by exact Hl. exact Hr.
Qed.
Lemma item_space a s rest : forallb ws_byte s = true -> starts_ws rest = false -> utf8_valid rest = true ->
  item_rt a (Space s) s W_none rest.
Proof.
  intros Hs Hw Hr. split; [reflexivity|]. split.
  - cbn [reads_b]. rewrite Hs, Hw. reflexivity.
  - rewrite utf8_valid_app_ascii; [exact Hr|].
    pose proof (forallb_ws_byte s Hs) as H. unfold ascii_ws in H. clear - H.
    induction H as [|c r [Hc _] _ IH]; constructor; assumption.
Qed.

(* an unsigned field of [w] digits, zero padded, that fills the reader's width *)
Lemma item_num_full a spec code w v t rest :
  Model.Format.format_numeric a spec PadZero = Model.Format.fok t -> t = pad_num DZero w false v ->
  numeric_entry spec = Some (w, false, code) -> 1 <= w <= 18 -> 0 <= v < 10 ^ w ->
  utf8_valid rest = true ->
  item_rt a (INumeric spec PadZero) t (W_code code v) rest.
Proof.
  intros Hf -> He Hw Hv Hr. split; [exact Hf|]. split.
  - cbn [reads_b]. apply (pad_num_unsigned_reads spec w false code DZero w v rest He); try lia; try assumption.
    + assert (10 ^ w <= 10 ^ 18) by (apply Z.pow_le_mono_r; lia). change (10 ^ 18) with 1000000000000000000 in *.
      unfold i64_max. lia.
    + right. destruct (dec_nonneg_digits v ltac:(lia)) as (_ & Hl & _ & Hub & Hlb).
      assert (blen (dec_nonneg v) <= w).
      { destruct Hlb as [H1|Hlb]; [lia|].
        destruct (Z_le_gt_dec (blen (dec_nonneg v)) w) as [H|H]; [exact H|exfalso].
        assert (10 ^ w <= 10 ^ (blen (dec_nonneg v) - 1)) by (apply Z.pow_le_mono_r; lia). lia. }
      lia.
  - rewrite utf8_valid_app_ascii by apply pad_num_ascii. exact Hr.
Qed.
Lemma item_two a spec code v rest :
  Model.Format.format_numeric a spec PadZero = Model.Format.write_two v PadZero ->
  numeric_entry spec = Some (2, false, code) -> 0 <= v < 100 -> utf8_valid rest = true ->
  item_rt a (INumeric spec PadZero) (pad_num DZero 2 false v) (W_code code v) rest.
Proof.
  intros Hf He Hv Hr. apply (item_num_full a spec code 2 v _ rest); try assumption; try lia; [|reflexivity].
  rewrite Hf. exact (Proofs.C12.write_two_spec v DZero Hv).
Qed.
(* a one-digit field (quarter, weekday numbers), whatever the padding modifier *)
Lemma item_num1 a spec pd code p v rest :
  Model.Format.format_numeric a spec pd = Model.Format.write_one v ->
  numeric_entry spec = Some (1, false, code) -> 0 <= v < 10 -> utf8_valid rest = true ->
  item_rt a (INumeric spec pd) (pad_num p 1 false v) (W_code code v) rest.
Proof.
  intros Hf He Hv Hr. split; [|split].
  - unfold renders. cbn [Model.Format.format_item]. rewrite Hf. exact (Proofs.C12.write_one_spec v p Hv).
  - cbn [reads_b]. apply (pad_num_unsigned_reads spec 1 false code p 1 v rest He); try lia; try assumption.
    + unfold i64_max. lia.
    + right. destruct (dec_nonneg_digits v ltac:(lia)) as (_ & Hl & _ & Hub & Hlb).
      assert (blen (dec_nonneg v) = 1).
      { destruct Hlb as [H1|Hlb]; [exact H1|].
        destruct (Z_le_gt_dec (blen (dec_nonneg v)) 1) as [H|H]; [lia|exfalso].
        assert (10 ^ 1 <= 10 ^ (blen (dec_nonneg v) - 1)) by (apply Z.pow_le_mono_r; lia).
        change (10 ^ 1) with 10 in *. lia. }
      destruct p; lia.
  - rewrite utf8_valid_app_ascii by apply pad_num_ascii. exact Hr.
Qed.
(* a year (calendar or ISO) as the formatter prints it: 4 digits, explicit sign outside 0..=9999 *)
Lemma item_year a spec code y rest :
  Model.Format.format_numeric a spec PadZero = Model.Format.write_year y PadZero ->
  numeric_entry spec = Some (4, true, code) -> in_i32 y = true ->
  not_digit_start rest = true -> utf8_valid rest = true ->
  item_rt a (INumeric spec PadZero) (pad_num DZero 4 ((y <? 0) || (9999 <? y)) y) (W_code code y) rest.
Proof.
  intros Hf He Hy Hnd Hr. split; [|split].
  - unfold renders. cbn [Model.Format.format_item]. rewrite Hf. exact (Proofs.C12.write_year_spec y DZero Hy).
  - cbn [reads_b]. unfold in_i32, in_range, i32_min, i32_max in Hy.
    destruct ((y <? 0) || (9999 <? y)) eqn:E.
    + apply (pad_num_signed_reads spec 4 code DZero 4 y rest); try assumption; [lia|unfold i64_max; lia].
    + apply (pad_num_unsigned_reads spec 4 true code DZero 4 y rest); try assumption; try lia.
      * unfold i64_max. lia.
      * left. exact Hnd.
  - rewrite utf8_valid_app_ascii by apply pad_num_ascii. exact Hr.
Qed.

(** * 2. Field views *)
Import Model.Parsed.

Definition simple_code (c : Z) : option (field * Z * Z) :=
  if c =? 0 then Some (F_year, i32_min, i32_max) else
  if c =? 1 then Some (F_year_div_100, 0, i32_max) else
  if c =? 2 then Some (F_year_mod_100, 0, 99) else
  if c =? 3 then Some (F_isoyear, i32_min, i32_max) else
  if c =? 4 then Some (F_isoyear_div_100, 0, i32_max) else
  if c =? 5 then Some (F_isoyear_mod_100, 0, 99) else
  if c =? 6 then Some (F_quarter, 1, 4) else
  if c =? 7 then Some (F_month, 1, 12) else
  if c =? 8 then Some (F_week_from_sun, 0, 53) else
  if c =? 9 then Some (F_week_from_mon, 0, 53) else
  if c =? 10 then Some (F_isoweek, 1, 53) else
  if c =? 12 then Some (F_ordinal, 1, 366) else
  if c =? 13 then Some (F_day, 1, 31) else
  if c =? 17 then Some (F_minute, 0, 59) else
  if c =? 18 then Some (F_second, 0, 60) else
  if c =? 19 then Some (F_nanosecond, 0, 999999999) else
  if c =? 21 then Some (F_offset, i32_min, i32_max) else None.

(* the pure effect of a write on the field record *)
Definition apply_w (w : write) (p : parsed) : parsed :=
  match w with
  | W_none => p
  | W_code c v =>
      match simple_code c with
      | Some (f, _, _) => pput f (Some v) p
      | None =>
          if c =? 16 then pput F_hour_mod_12 (Some (v mod 12)) (pput F_hour_div_12 (Some (v / 12)) p)
          else if c =? 15 then pput F_hour_mod_12 (Some (v mod 12)) p
          else if c =? 20 then pput F_timestamp (Some v) p
          else if c =? 101 then pput F_weekday (Some (v - 1)) p
          else if c =? 100 then pput F_weekday (Some ((v + 6) mod 7)) p
          else p
      end
  | W_weekday wd => pput F_weekday (Some wd) p
  | W_ampm v => pput F_hour_div_12 (Some v) p
  end.
(* the write puts fields of [F], within the setter's range *)
Definition w_ok (F : parsed) (w : write) : Prop :=
  match w with
  | W_none => True
  | W_code c v =>
      match simple_code c with
      | Some (f, lo, hi) => lo <= v <= hi /\ pget f F = Some v
      | None =>
          if c =? 16 then 0 <= v <= 23 /\ pget F_hour_div_12 F = Some (v / 12) /\ pget F_hour_mod_12 F = Some (v mod 12)
          else if c =? 15 then 1 <= v <= 12 /\ pget F_hour_mod_12 F = Some (v mod 12)
          else if c =? 20 then pget F_timestamp F = Some v
          else if c =? 101 then 1 <= v <= 7 /\ pget F_weekday F = Some (v - 1)
          else if c =? 100 then 0 <= v <= 6 /\ pget F_weekday F = Some ((v + 6) mod 7)
          else False
      end
  | W_weekday wd => pget F_weekday F = Some wd
  | W_ampm v => pget F_hour_div_12 F = Some v
  end.

Lemma extends_new F : Proofs.C14.extends parsed_new F.
Proof. intros f v H. destruct f; discriminate. Qed.

Lemma sic_view F f p v : Proofs.C14.extends p F -> pget f F = Some v ->
  set_if_consistent f p v = (pput f (Some v) p, Ok tt) /\ Proofs.C14.extends (pput f (Some v) p) F.
Proof.
  intros E HF. split.
  - unfold set_if_consistent. destruct (pget f p) as [old|] eqn:Eo; [|reflexivity].
    pose proof (E f old Eo) as H. rewrite HF in H. injection H as ->. rewrite Z.eqb_refl. reflexivity.
  - intros g w Hg. destruct (Proofs.C14.field_eq_dec f g) as [->|Hne].
    + rewrite Proofs.C14.pget_pput_same in Hg. injection Hg as <-. exact HF.
    + rewrite Proofs.C14.pget_pput_other in Hg by exact Hne. exact (E g w Hg).
Qed.

Lemma simple_code_set c f lo hi p v : simple_code c = Some (f, lo, hi) -> lo <= v <= hi ->
  set_by_code c p v = setq (set_if_consistent f p v).
Proof.
  intros H Hr. unfold simple_code in H.
  repeat match type of H with
  | (if ?x =? ?k then _ else _) = _ =>
      destruct (Z.eqb_spec x k) as [->|_];
      [injection H as <- <- <-; unfold set_by_code; cbn [Z.eqb Pos.eqb];
       unfold set_year, set_year_div_100, set_year_mod_100, set_isoyear, set_isoyear_div_100, set_isoyear_mod_100,
         set_quarter, set_month, set_week_from_sun, set_week_from_mon, set_isoweek, set_ordinal, set_day,
         set_minute, set_second, set_nanosecond, set_offset;
       rewrite Proofs.C14.set_checked_in by exact Hr;
       try rewrite Proofs.C14.as_i32_small by (unfold i32_max in *; lia);
       try rewrite Proofs.C14.as_u32_small by (unfold u32_max; lia);
       reflexivity|]
  end.
  discriminate.
Qed.

Theorem eff_view F p w : Proofs.C14.extends p F -> w_ok F w ->
  eff_of w p = pok (apply_w w p) /\ Proofs.C14.extends (apply_w w p) F.
Proof.
  intros E Hw. destruct w as [|c v|wd|v]; cbn [eff_of apply_w w_ok] in *.
  - split; [reflexivity|exact E].
  - destruct (simple_code c) as [[[f lo] hi]|] eqn:Es.
    + destruct Hw as [Hr HF]. rewrite (simple_code_set c f lo hi p v Es Hr).
      destruct (sic_view F f p v E HF) as [-> E']. split; [reflexivity|exact E'].
    + destruct (Z.eqb_spec c 16) as [->|_]; [|destruct (Z.eqb_spec c 15) as [->|_];
        [|destruct (Z.eqb_spec c 20) as [->|_]; [|destruct (Z.eqb_spec c 101) as [->|_];
        [|destruct (Z.eqb_spec c 100) as [->|_]; [|contradiction]]]]].
      * destruct Hw as (Hr & Hd & Hm). unfold set_by_code. cbn [Z.eqb Pos.eqb].
        rewrite Proofs.C14.set_hour_value. unfold contains. replace ((0 <=? v) && (v <=? 23)) with true by lia.
        destruct (sic_view F F_hour_div_12 p (v / 12) E Hd) as [-> E1].
        destruct (sic_view F F_hour_mod_12 _ (v mod 12) E1 Hm) as [-> E2]. split; [reflexivity|exact E2].
      * destruct Hw as (Hr & Hm). unfold set_by_code. cbn [Z.eqb Pos.eqb]. unfold set_hour12, contains.
        replace (negb ((1 <=? v) && (v <=? 12))) with false by lia.
        assert (Ev : as_u32 (if v =? 12 then 0 else v) = v mod 12).
        { destruct (v =? 12) eqn:E12; rewrite Proofs.C14.as_u32_small by (unfold u32_max; lia); lia. }
        rewrite Ev. destruct (sic_view F F_hour_mod_12 p (v mod 12) E Hm) as [-> E1]. split; [reflexivity|exact E1].
      * unfold set_by_code. cbn [Z.eqb Pos.eqb]. unfold set_timestamp.
        destruct (sic_view F F_timestamp p v E Hw) as [-> E1]. split; [reflexivity|exact E1].
      * destruct Hw as (Hr & HF). unfold set_by_code. cbn [Z.eqb Pos.eqb]. unfold set_weekday_with_number_from_monday.
        assert (Ez : zassoc v PN_WD_FROM_MON = Some (v - 1)).
        { assert (Hc : v = 1 \/ v = 2 \/ v = 3 \/ v = 4 \/ v = 5 \/ v = 6 \/ v = 7) by lia.
          destruct Hc as [->|[->|[->|[->|[->|[->| ->]]]]]]; reflexivity. }
        rewrite Ez. unfold set_weekday. destruct (sic_view F F_weekday p (v - 1) E HF) as [-> E1]. split; [reflexivity|exact E1].
      * destruct Hw as (Hr & HF). unfold set_by_code. cbn [Z.eqb Pos.eqb]. unfold set_weekday_with_num_days_from_sunday.
        assert (Ez : zassoc v PN_WD_FROM_SUN = Some ((v + 6) mod 7)).
        { assert (Hc : v = 0 \/ v = 1 \/ v = 2 \/ v = 3 \/ v = 4 \/ v = 5 \/ v = 6) by lia.
          destruct Hc as [->|[->|[->|[->|[->|[->| ->]]]]]]; reflexivity. }
        rewrite Ez. unfold set_weekday. destruct (sic_view F F_weekday p _ E HF) as [-> E1]. split; [reflexivity|exact E1].
  - unfold set_weekday. destruct (sic_view F F_weekday p wd E Hw) as [-> E1]. split; [reflexivity|exact E1].
  - unfold set_ampm. destruct (sic_view F F_hour_div_12 p v E Hw) as [-> E1]. split; [reflexivity|exact E1].
Qed.

Definition apply_ws (ws : list write) (p : parsed) : parsed := fold_left (fun q w => apply_w w q) ws p.
Theorem run_view F : forall ws p, Proofs.C14.extends p F -> Forall (w_ok F) ws ->
  run_writes ws p = pok (apply_ws ws p) /\ Proofs.C14.extends (apply_ws ws p) F.
Proof.
  induction ws as [|w r IH]; intros p E H.
  - split; [reflexivity|exact E].
  - inversion H as [|? ? Hw Hr]; subst. destruct (eff_view F p w E Hw) as [Ee E1].
    cbn [run_writes]. rewrite Ee. cbn [pbind bind pok]. exact (IH _ E1 Hr).
Qed.

Lemma typed_mono p q : Proofs.C14.extends p q -> Proofs.C14.typed q -> Proofs.C14.typed p.
Proof. intros E T f v H. exact (T f v (E f v H)). Qed.

(** * 3. The fields of a date *)
Lemma Some_inj {A} (a b : A) : Some a = Some b -> a = b.
Proof. intros H. injection H as ->. reflexivity. Qed.
Definition date_F (y o iy iw wd : Z) : parsed :=
  mk_parsed (Some y) None None (Some iy) None None None (Some (Proofs.C08.month_of y o)) None None (Some iw) (Some wd)
            (Some o) (Some (Proofs.C08.day_of y o)) None None None None None None None.

Lemma date_F_sound y o d : Proofs.C08Sweeps.repr y o d ->
  exists iw, Model.Date.d_iso_week d = Val iw /\ in_i32 (Model.Date.iw_year iw) = true /\
    1 <= Model.Date.iw_week iw <= 53 /\
    let F := date_F y o (Model.Date.iw_year iw) (Model.Date.iw_week iw) (Spec.Gregorian.weekday_of_dn (Spec.Gregorian.dn_of_yo y o)) in
    Proofs.C14.typed F /\ Proofs.C14.date_sound F d.
Proof.
  intros H. destruct (Proofs.C08.repr_md y o d H) as (Ey & Eo & Em & Ed & Ew & _ & Hmb & Hdb & _).
  destruct (Proofs.C14Date.repr_year_i32 y o d H) as [Hyi Hyb].
  pose proof (Proofs.C14Date.repr_ordinal_bounds y o d H) as Hob.
  pose proof (Proofs.C14Date.weekday_bounds (Spec.Gregorian.dn_of_yo y o)) as Hwb.
  pose proof (Proofs.C08Date.days_in_month_bounds (Spec.Gregorian.is_leap y) (Proofs.C08.month_of y o)) as Hdm.
  destruct (Proofs.DateIso.d_iso_week_spec y o d H) as (Ei & Eiy & Eiw). cbv zeta in Ei, Eiy, Eiw.
  pose proof (Proofs.C14Iso.iso_year_i32 y o (proj1 H) (proj1 (proj2 H))) as Hiy.
  pose proof (Proofs.DateIso.iso_of_dn_bounds (Spec.Gregorian.dn_of_yo y o)) as Hiwb.
  eexists. split; [exact Ei|]. rewrite Eiy, Eiw. split; [exact Hiy|]. split; [exact Hiwb|]. cbv zeta. split.
  - intros f v Hf. unfold date_F in Hf.
    destruct f; cbn [pget p_year p_year_div_100 p_year_mod_100 p_isoyear p_isoyear_div_100 p_isoyear_mod_100
      p_quarter p_month p_week_from_sun p_week_from_mon p_isoweek p_weekday p_ordinal p_day p_hour_div_12
      p_hour_mod_12 p_minute p_second p_nanosecond p_timestamp p_offset] in Hf; try discriminate Hf;
      apply Some_inj in Hf; subst v; cbn [Proofs.C14.ftype]; try assumption; unfold u32_max; lia.
  - unfold Proofs.C14.date_sound, Proofs.C14.iso_sound, Proofs.C14.year_parts_sound, date_F.
    cbn [p_year p_year_div_100 p_year_mod_100 p_isoyear p_isoyear_div_100 p_isoyear_mod_100
      p_quarter p_month p_week_from_sun p_week_from_mon p_isoweek p_weekday p_ordinal p_day].
    split; [split; [intros v Hv; apply Some_inj in Hv; subst v; exact Ey|split; intros v Hv; discriminate Hv]|].
    split.
    { eexists. split; [exact Ei|]. rewrite Eiy, Eiw.
      split; [split; [intros v Hv; apply Some_inj in Hv; subst v; reflexivity|split; intros v Hv; discriminate Hv]|].
      intros v Hv. apply Some_inj in Hv; subst v. reflexivity. }
    split; [intros v Hv; discriminate Hv|].
    split; [intros v Hv; apply Some_inj in Hv; subst v; exact Em|].
    split; [intros v Hv; discriminate Hv|]. split; [intros v Hv; discriminate Hv|].
    split; [intros v Hv; apply Some_inj in Hv; subst v; exact Ew|].
    split; [intros v Hv; apply Some_inj in Hv; subst v; exact Eo|].
    intros v Hv. apply Some_inj in Hv; subst v. exact Ed.
Qed.

(* resolution of a date from any field record below a sound view: C14's completeness theorem *)
Lemma resolve_date_view y o d iw p F : Proofs.C08Sweeps.repr y o d -> Model.Date.d_iso_week d = Val iw ->
  Proofs.C14.typed F -> Proofs.C14.date_sound F d -> Proofs.C14.extends p F ->
  Proofs.C14Date.group_ok y (p_year p) (p_year_div_100 p) (p_year_mod_100 p) ->
  Proofs.C14Date.group_ok (Model.Date.iw_year iw) (p_isoyear p) (p_isoyear_div_100 p) (p_isoyear_mod_100 p) ->
  Proofs.C14Date.combination_present y (Model.Date.iw_year iw) p ->
  to_naive_date p = Val (Ok d).
Proof.
  intros H Hiw T DS E G1 G2 C.
  exact (Proofs.C14Iso.to_naive_date_complete y o d iw p H Hiw (typed_mono p F E T)
           (Proofs.C14.date_sound_mono p F d E DS) G1 G2 C).
Qed.

(** * 4. From item lists to format strings *)
Theorem sf_lift fmt items a text :
  Model.Strftime.sf_take (S (Model.Strftime.sf_bound fmt)) (Model.Strftime.sf_new fmt) [] = Val (Some items) ->
  (List.length items < S (Model.Strftime.sf_bound fmt))%nat ->
  Model.Format.write_items a items [] = Model.Format.fok text ->
  Model.Format.delayed_display a (Model.Strftime.sf_new fmt) = Model.Format.fok text /\
  parse_sf text fmt = parse parsed_new text items.
Proof.
  intros Ht Hlen Hw.
  destruct (sf_take_yields _ _ [] items Ht) as (l & Hl & Hy). cbn [rev app] in Hl. subst l.
  split.
  - unfold Model.Format.delayed_display. cbn [Model.Strftime.sf_remainder Model.Strftime.sf_queue Model.Strftime.sf_new List.length].
    rewrite Nat.add_0_r. rewrite (write_to_items items _ _ _ [] Hy Hlen). exact Hw.
  - unfold parse_sf, parse_internal_sf, parse, parse_internal.
    rewrite (parse_sf_loop_items items _ _ _ _ Hy Hlen). reflexivity.
Qed.
