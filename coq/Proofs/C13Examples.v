(** C13 — members of the generated family certified by computation ([family_member], sound by
    Proofs/C13Fmt.v), non-members rejected, and complete round trips through the formatter, the
    reader and the field resolution on boundary values. *)
From Coq Require Import ZArith List Bool String.
From V Require Import Base.Int Base.IO Model.Items Proofs.C13Reads Proofs.C13Fmt.
From V Require Model.Strftime Model.Format Model.C13.
Import ListNotations.
Open Scope Z_scope.
Open Scope string_scope.

Definition ex_items (fmt : string) : list Item :=
  match Model.Strftime.sf_collect (Model.Strftime.sf_new (bytes_of_string fmt)) with Val l => l | _ => [IError] end.
Definition ex_member (c : Z * val * string) : bool :=
  let '(kind, v, fmt) := c in
  match Model.C13.dec_fa kind v with
  | Some (Val a) => match family_member a (ex_items fmt) [] with Some _ => true | None => false end
  | _ => false
  end.
Definition ex_roundtrip (c : Z * val * string * val) : bool :=
  let '(kind, v, fmt, expected) := c in
  val_eqb (Model.C13.run (bytes_of_string "fp.rt") [VInt kind; v; VStr (bytes_of_string fmt)]) expected.

Local Open Scope Z_scope.
Definition d (y o : Z) := VTup [VInt y; VInt o].
Definition t (s f : Z) := VTup [VInt s; VInt f].
Definition n (y o s f : Z) := VTup [VInt y; VInt o; VInt s; VInt f].
Definition z (y o s f off : Z) := VTup [VInt y; VInt o; VInt s; VInt f; VInt off].

(* one member per documented sufficient combination / specifier class, on boundary values *)
Definition members : list (Z * val * string) := [
  (0, d 2001 189, "%Y-%m-%d"); (0, d (-262143) 1, "%Y-%m-%d"); (0, d 262142 365, "%F"); (0, d 10000 1, "%Y-%j");
  (0, d 5 60, "%-d.%-m.%-Y"); (0, d 5 60, "%_d %_m %_Y"); (0, d 2024 60, "%A, %d %B %Y"); (0, d 2024 366, "%a %h %e %Y");
  (0, d 2021 3, "%G-W%V-%u"); (0, d 2020 366, "%G-W%V-%a"); (0, d 2001 1, "%Y %U %a"); (0, d 2001 365, "%Y-%W-%w");
  (0, d 1999 365, "%C%y-%m-%d"); (0, d 2069 365, "%y-%m-%d"); (0, d 1970 1, "%D"); (0, d 2069 365, "%g-W%V-%u");
  (0, d 2001 189, "%Y%m%d"); (0, d 2001 189, "%v"); (0, d 2001 189, "%Y-%m-%d Q%q");
  (1, t 2094 0, "%H:%M:%S"); (1, t 86399 1000000005, "%T"); (1, t 0 0, "%I:%M:%S %p"); (1, t 43200 0, "%l:%M:%S %P");
  (1, t 2094 26490000, "%H:%M:%S%.f"); (1, t 2094 26490000, "%H:%M:%S%.3f"); (1, t 2094 26490000, "%H%M%S%6f");
  (1, t 2094 26490000, "%H:%M:%S.%f"); (1, t 2094 26490000, "%-H:%-M:%-S,%-f"); (1, t 82800 0, "%r"); (1, t 3540 0, "%R");
  (2, n 2001 189 2099 1026490000, "%c"); (2, n 1969 365 86399 0, "%s"); (2, n (-262143) 1 0 0, "%s");
  (2, n 2001 189 2094 26490000, "%Y-%m-%dT%H:%M:%S%.f"); (2, n 2001 189 2094 0, "%Y%m%d%H%M%S");
  (3, z 2001 188 54299 1026490000 34200, "%Y-%m-%dT%H:%M:%S%.f%:z"); (3, z 1969 365 86399 0 0, "%s %z");
  (3, z (-262143) 1 0 0 0, "%s%:z"); (3, z 2001 189 0 0 (-34200), "%a, %d %b %Y %H:%M:%S %z")
].
Example members_certified : forallb ex_member members = true.
Proof. vm_compute. reflexivity. Qed.

(* ambiguous, print-only or composite-only members are not certified *)
Definition non_members : list (Z * val * string) := [
  (0, d 10000 1, "%Y%m%d"); (0, d 2001 189, "%-d%-m%Y"); (1, t 2094 26490000, "%H:%M:%S%.f5");
  (3, z 2001 189 0 0 3600, "%F %T %Z"); (3, z 2001 189 0 0 3600, "%F %T%:::z"); (0, d 2001 189, "%Y-%Q")
].
Example non_members_rejected : forallb (fun c => negb (ex_member c)) non_members = true.
Proof. vm_compute. reflexivity. Qed.

(* complete round trips: format, parse, resolve; the value comes back truncated to the printed precision *)
Definition roundtrips : list (Z * val * string * val) := [
  (0, d (-262143) 1, "%Y-%m-%d", d (-262143) 1);
  (0, d 2021 3, "%G-W%V-%u", d 2021 3);
  (0, d 2069 365, "%y-%m-%d", d 2069 365);
  (1, t 86399 1000000005, "%H:%M:%S", t 86399 1000000000);
  (1, t 2094 26490123, "%H:%M:%S%.3f", t 2094 26000000);
  (2, n 2001 189 2099 1026490000, "%c", n 2001 189 2099 1000000000);
  (2, n 1969 365 86399 999999999, "%s", n 1969 365 86399 0);
  (2, n (-262143) 1 0 0, "%s", n (-262143) 1 0 0);
  (3, z 1969 365 86399 0 0, "%s %z", z 1969 365 86399 0 0);
  (3, z 2001 188 54299 1026490000 34200, "%+", z 2001 188 54299 1026490000 34200)
].
Example roundtrips_hold : forallb ex_roundtrip roundtrips = true.
Proof. vm_compute. reflexivity. Qed.
