(** The grammar of the TZif files the reader accepts, as a decidable predicate on the bytes
    (RFC 8536 section 3 as far as parser.rs / TimeZone::new enforce it).  Definitions only.

    Everything here is stated by offsets into the file ([sub d off len] = the [len] bytes at offset
    [off]) and by plain recursive functions on byte lists; nothing of the reader's cursor / monadic
    code (Model/TzParser.v [header_new], [state_new], [parse_ltt], [parse], [validate]) is used.
    Shared with the model: the data types (Model/TzTypes.v, the [header] record), big-endian value
    [be_uint], two's complement [as_i32] / [as_i64] (Base/Int.v), [is_name_char], [utf8_valid],
    [trim_ascii_ws]; the grammar of the POSIX TZ string inside a version 2 / 3 footer and the
    agreement of the footer rule with the last transition are NOT restated here: they are the
    reader's [from_tz_string] and the check [footer_consistent] (Proofs/TzWriterFull.v). *)
From Coq Require Import ZArith List Bool.
From V Require Import Base.Int Base.IO Model.TzParser Model.TzRule.
From V Require Import Proofs.TzWriterFull.
Import ListNotations.
Open Scope Z_scope.

(** ** bytes at an offset *)
Definition sub (d : bytes) (off len : Z) : bytes := firstn (Z.to_nat len) (skipn (Z.to_nat off) d).
Definition byte_at (d : bytes) (i : Z) : Z := nth (Z.to_nat i) d 0.
Definition u32_at (d : bytes) (off : Z) : Z := be_uint (sub d off 4).

(** ** header (44 bytes at [off]): magic, version byte, six counts *)
Definition ver_of_byte (b : Z) : option version :=
  if b =? 0 then Some V1 else if b =? 50 then Some V2 else if b =? 51 then Some V3 else None.
Definition counts_ok (uc sc yc cc : Z) : bool :=
  negb (yc =? 0) && negb (cc =? 0) && ((uc =? 0) || (uc =? yc)) && ((sc =? 0) || (sc =? yc)).
Definition header_ok_at (d : bytes) (off : Z) : bool :=
  (off + 44 <=? zlen d)
  && bytes_eqb (sub d off 4) [84; 90; 105; 102]
  && (match ver_of_byte (byte_at d (off + 4)) with Some _ => true | None => false end)
  && counts_ok (u32_at d (off + 20)) (u32_at d (off + 24)) (u32_at d (off + 36)) (u32_at d (off + 40)).
(* isutcnt, isstdcnt, leapcnt, timecnt, typecnt, charcnt at offsets 20, 24, 28, 32, 36, 40 *)
Definition hdr_at (d : bytes) (off : Z) : header :=
  mk_hdr (match ver_of_byte (byte_at d (off + 4)) with Some v => v | None => V1 end)
         (u32_at d (off + 20)) (u32_at d (off + 24)) (u32_at d (off + 28))
         (u32_at d (off + 32)) (u32_at d (off + 36)) (u32_at d (off + 40)).

(** ** data block after the header at [off], with [ts]-byte times: the seven sections *)
Definition block_len (h : header) (ts : Z) : Z :=
  44 + transition_count h * ts + transition_count h + type_count h * 6 + char_count h
  + leap_count h * (ts + 4) + std_wall_count h + ut_local_count h.
Definition o_times (off : Z) : Z := off + 44.
Definition o_types (h : header) (ts off : Z) : Z := o_times off + transition_count h * ts.
Definition o_ltts (h : header) (ts off : Z) : Z := o_types h ts off + transition_count h.
Definition o_names (h : header) (ts off : Z) : Z := o_ltts h ts off + type_count h * 6.
Definition o_leaps (h : header) (ts off : Z) : Z := o_names h ts off + char_count h.
Definition o_std (h : header) (ts off : Z) : Z := o_leaps h ts off + leap_count h * (ts + 4).
Definition o_ut (h : header) (ts off : Z) : Z := o_std h ts off + std_wall_count h.
Definition state_at (d : bytes) (off ts : Z) : state :=
  let h := hdr_at d off in
  mk_state h ts
    (sub d (o_times off) (transition_count h * ts))
    (sub d (o_types h ts off) (transition_count h))
    (sub d (o_ltts h ts off) (type_count h * 6))
    (sub d (o_names h ts off) (char_count h))
    (sub d (o_leaps h ts off) (leap_count h * (ts + 4)))
    (sub d (o_std h ts off) (std_wall_count h))
    (sub d (o_ut h ts off) (ut_local_count h)).

(** ** records: [k] consecutive groups of [n] bytes *)
Fixpoint groups (k n : nat) (l : bytes) : list bytes :=
  match k with
  | O => []
  | S k' => firstn n l :: groups k' n (skipn n l)
  end.
(* a 4-byte time is a 32-bit, an 8-byte time a 64-bit two's complement big-endian number *)
Definition time_val (ts : Z) (g : bytes) : Z := if ts =? 4 then as_i32 (be_uint g) else as_i64 (be_uint g).

(* transition i: time group i, type index = byte i of the type section *)
Definition blk_transitions (ts : Z) (times types : bytes) : list transition :=
  map (fun p => mk_tr (time_val ts (fst p)) (snd p))
      (combine (groups (List.length types) (Z.to_nat ts) times) types).

(* local time type record: utoff (4 bytes), isdst (1 byte), designation index (1 byte) *)
Definition rec_utoff (r : bytes) : Z := as_i32 (be_uint (firstn 4 r)).
Definition rec_dst (r : bytes) : Z := nth 4 r 0.
Definition rec_idx (r : bytes) : Z := nth 5 r 0.
Fixpoint until_nul (l : bytes) : bytes :=
  match l with
  | [] => []
  | x :: r => if x =? 0 then [] else x :: until_nul r
  end.
Definition has_nul (l : bytes) : bool := existsb (fun x => x =? 0) l.
(* a designation is empty (the type then has no name) or 3..7 characters of [0-9A-Za-z+-] *)
Definition desig_ok (n : bytes) : bool :=
  match n with
  | [] => true
  | _ => (3 <=? zlen n) && (zlen n <=? 7) && forallb is_name_char n
  end.
Definition rec_desig (names r : bytes) : bytes := until_nul (skipn (Z.to_nat (rec_idx r)) names).
Definition ltt_rec_ok (names r : bytes) : bool :=
  negb (rec_utoff r =? -2147483648)
  && ((rec_dst r =? 0) || (rec_dst r =? 1))
  && (rec_idx r <? zlen names)
  && has_nul (skipn (Z.to_nat (rec_idx r)) names)
  && desig_ok (rec_desig names r).
Definition ltt_of_rec (names r : bytes) : ltt :=
  mk_ltt (rec_utoff r) (rec_dst r =? 1)
         (match rec_desig names r with [] => None | n => Some n end).
(* the answer of the reader on one record, error included: the isdst byte, the index and the
   terminating NUL are examined (InvalidTzFile) before the offset and the characters (LocalTimeType) *)
Definition ltt_res (names r : bytes) : res ltt :=
  if negb ((rec_dst r =? 0) || (rec_dst r =? 1)) then Err EInvalidTzFile else
  if rec_idx r >=? zlen names then Err EInvalidTzFile else
  if negb (has_nul (skipn (Z.to_nat (rec_idx r)) names)) then Err EInvalidTzFile else
  if rec_utoff r =? -2147483648 then Err ELocalTimeType else
  if desig_ok (rec_desig names r) then Ok (ltt_of_rec names r) else Err ELocalTimeType.
Fixpoint mapr {A T} (f : A -> res T) (l : list A) : res (list T) :=
  match l with
  | [] => Ok []
  | a :: r => match f a with
              | Err e => Err e
              | Ok b => match mapr f r with Ok bs => Ok (b :: bs) | Err e => Err e end
              end
  end.

Definition blk_ltt_recs (ltts : bytes) : list bytes := groups (Z.to_nat (zlen ltts / 6)) 6 ltts.
Definition blk_types (names ltts : bytes) : list ltt := map (ltt_of_rec names) (blk_ltt_recs ltts).

(* leap-second record: occurrence time ([ts] bytes), correction (4 bytes) *)
Definition leap_of_rec (ts : Z) (g : bytes) : leap :=
  mk_leap (time_val ts (firstn (Z.to_nat ts) g)) (as_i32 (be_uint (skipn (Z.to_nat ts) g))).
Definition blk_leaps (ts : Z) (leaps : bytes) : list leap :=
  map (leap_of_rec ts) (groups (Z.to_nat (zlen leaps / (ts + 4))) (Z.to_nat (ts + 4)) leaps).

(* every UT/local indicator equal to 1 stands beside a standard/wall indicator that is present
   and not 0 *)
Fixpoint ut_implies_std (std ut : bytes) : bool :=
  match ut with
  | [] => true
  | u :: ut' => negb ((hd 0 std =? 0) && (u =? 1)) && ut_implies_std (tl std) ut'
  end.

(** ** what TimeZone::new demands of the decoded tables *)
Fixpoint strict_incr (l : list Z) : bool :=
  match l with
  | a :: ((b :: _) as r) => (a <? b) && strict_incr r
  | _ => true
  end.
Definition leap_first_ok (l : list leap) : bool :=
  match l with
  | [] => true
  | a :: _ => (0 <=? lp_time a) && ((lp_corr a =? 1) || (lp_corr a =? -1))
  end.
Fixpoint leaps_spaced_b (l : list leap) : bool :=
  match l with
  | a :: ((b :: _) as r) =>
      (lp_time a + 2419199 <=? lp_time b)
      && ((lp_corr b =? lp_corr a + 1) || (lp_corr b =? lp_corr a - 1))
      && leaps_spaced_b r
  | _ => true
  end.
Definition tables_ok (n_types : Z) (trs : list transition) (lps : list leap) : bool :=
  forallb (fun t => tr_idx t <? n_types) trs && strict_incr (map tr_time trs)
  && leap_first_ok lps && leaps_spaced_b lps.

(** ** a block: the records and tables of the state [st] cut out of the file *)
Definition st_transitions (st : state) : list transition :=
  blk_transitions (time_size st) (st_transition_times st) (st_transition_types st).
Definition st_types (st : state) : list ltt := blk_types (st_names st) (st_local_time_types st).
Definition st_leaps (st : state) : list leap := blk_leaps (time_size st) (st_leap_seconds st).
Definition st_zone (st : state) (rule : option trule) : timezone :=
  mk_tz (st_transitions st) (st_types st) (st_leaps st) rule.
Definition block_ok (st : state) : bool :=
  forallb (ltt_rec_ok (st_names st)) (blk_ltt_recs (st_local_time_types st))
  && ut_implies_std (st_std_walls st) (st_ut_locals st)
  && tables_ok (type_count (st_header st)) (st_transitions st) (st_leaps st).

(** ** version 1 file: one header with version byte 0, one block with 4-byte times, nothing after it *)
Definition tzif_v1_accepts (d : bytes) : bool :=
  header_ok_at d 0 && (byte_at d 4 =? 0)
  && (zlen d =? block_len (hdr_at d 0) 4)
  && block_ok (state_at d 0 4).
Definition tzif_v1_zone (d : bytes) : timezone := st_zone (state_at d 0 4) None.

(** ** version 2 / 3 file: header (version byte '2' or '3') and a 32-bit block of which only the
    lengths matter, a second header (version byte '2' or '3' again) with a block with 8-byte
    times, then the footer: valid UTF-8, first and last byte a newline, the text between (ASCII
    white space trimmed) does not begin with ':' and contains no NUL; blank = no rule *)
Definition off2 (d : bytes) : Z := block_len (hdr_at d 0) 4.
Definition footer_of (d : bytes) : bytes := skipn (Z.to_nat (off2 d + block_len (hdr_at d (off2 d)) 8)) d.
Definition footer_text_ok (f : bytes) : bool :=
  utf8_valid f && (hd 0 f =? 10) && (hd 0 (rev f) =? 10)
  && negb (hd 0 (trim_ascii_ws f) =? 58) && negb (existsb (fun x => x =? 0) (trim_ascii_ws f)).
Definition v23_layout_ok (d : bytes) : bool :=
  header_ok_at d 0 && negb (byte_at d 4 =? 0)
  && header_ok_at d (off2 d) && negb (byte_at d (off2 d + 4) =? 0)
  && (off2 d + block_len (hdr_at d (off2 d)) 8 <=? zlen d).
(* the rule of the footer: the reader's own TZ-string parser (extended rule times exactly when the
   SECOND header says version 3) *)
Definition footer_ext_of (d : bytes) : bool := byte_at d (off2 d + 4) =? 51.
Definition footer_rule_res (d : bytes) : R (res (option trule)) :=
  match trim_ascii_ws (footer_of d) with
  | [] => ok None
  | s => let+ r := from_tz_string s (footer_ext_of d) in ok (Some r)
  end.

(* version 2 / 3 file: accepted when the layout, the records and tables of the 64-bit block and the
   footer text are fine, the footer rule (if the text is not blank) is accepted by the TZ-string
   reader and agrees with the last transition *)
Definition tzif_v23_accepts (d : bytes) : bool :=
  v23_layout_ok d && block_ok (state_at d (off2 d) 8) && footer_text_ok (footer_of d)
  && match footer_rule_res d with
     | Val (Ok r) => footer_consistent (st_zone (state_at d (off2 d) 8) r)
     | _ => false
     end.
Definition tzif_v23_zone (d : bytes) : timezone :=
  st_zone (state_at d (off2 d) 8) (match footer_rule_res d with Val (Ok r) => r | _ => None end).

(** ** the accepted files, and the zone they denote *)
Definition tzif_accepts (d : bytes) : bool := tzif_v1_accepts d || tzif_v23_accepts d.
Definition tzif_zone (d : bytes) : timezone := if byte_at d 4 =? 0 then tzif_v1_zone d else tzif_v23_zone d.
