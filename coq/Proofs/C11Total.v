(** C11 -- DateTime::parse_from_rfc2822 never traps: for EVERY well-formed UTF-8 string (of a length
    a Rust string can have) the reader returns a value or a ParseError.  The scanner totality
    lemmas (Proofs/Scan.v, Proofs/C11.v, Proofs/C11Scan.v, Proofs/C13Safe.v) are composed through
    Model/Rfc2822.v [parse_rfc2822] with the slice-safety invariant: every remainder handed on is
    well-formed UTF-8 again (so every slice is on a char boundary) and not longer than the input
    (so the usize arithmetic of the year length and of the comment scanner stays in range); the
    field state stays typed, so Parsed::to_datetime returns by value (Proofs/C14Zoned.v). *)
From Coq Require Import ZArith List Bool Lia ZifyBool.
From V Require Import Base.Int Base.IntLemmas Base.IO Base.Utf8 Gen.ScanTables Gen.Rfc2822Consts Model.Scan
  Proofs.Utf8 Proofs.Scan.
From V Require Model.Parsed Model.DateTime Model.Rfc2822 Spec.Rfc2822.
From V Require Proofs.C11 Proofs.C11Scan Proofs.C14 Proofs.C14Zoned Proofs.C13Reads.
From V Require Import Proofs.C13Safe.
Import ListNotations.
Open Scope Z_scope.
Ltac Zify.zify_post_hook ::= Z.to_euclidean_division_equations.

Module P11 := V.Proofs.C11.
Module P11S := V.Proofs.C11Scan.
Module P14 := V.Proofs.C14.
Module P14Z := V.Proofs.C14Zoned.
Module P13R := V.Proofs.C13Reads.
Module R2 := V.Model.Rfc2822.

(** * Inversion of the monads, conjunction of postconditions *)
Lemma bind_inv {X Y} (x : R X) (f : X -> R Y) r : bind x f = Val r -> exists a, x = Val a /\ f a = Val r.
Proof. destruct x; cbn; intros H; try discriminate. eauto. Qed.
Lemma pbind_inv {X Y} (x : PR X) (f : X -> PR Y) r :
  pbind x f = Val (POk r) -> exists a, x = Val (POk a) /\ f a = Val (POk r).
Proof. destruct x as [[a|e]| |]; cbn; intros H; try discriminate. eauto. Qed.
Lemma safe_and {A} (r : PR A) (g1 g2 : A -> Prop) :
  safe r g1 -> (forall a, r = Val (POk a) -> g2 a) -> safe r (fun a => g1 a /\ g2 a).
Proof. destruct r as [[a|e]| |]; cbn; auto. Qed.
Lemma safe_pok {A} (a : A) (g : A -> Prop) : g a -> safe (pok a) g.
Proof. intros H. exact H. Qed.

(** * Remainders are not longer than the input *)
Lemma str_from_len s i r : str_from s i = Val r -> blen r <= blen s.
Proof.
  unfold str_from. destruct ((0 <=? i) && is_char_boundary s i); [|discriminate].
  intros H. injection H as <-. unfold blen. rewrite skipn_length. lia.
Qed.

(** ** number: well-formed remainder, not longer; the value is bounded by the digits consumed *)
Fixpoint ub (k : nat) (n : Z) : Z := match k with O => n | S k' => ub k' (n * 10 + 9) end.
Lemma ub_mono k : forall a b, a <= b -> ub k a <= ub k b.
Proof. induction k as [|k IH]; intros a b H; cbn [ub]; [exact H|]. apply IH. lia. Qed.
Lemma npl_bound : forall l i min max n r v, 0 <= n -> number_pure_loop l i min max n = POk (r, v) ->
  exists k, List.length l = (k + List.length r)%nat /\ n <= v <= ub k n.
Proof.
  induction l as [|c t IH]; intros i min max n r v Hn H; cbn [number_pure_loop] in H.
  - injection H as <- <-. exists O. cbn [ub]. split; [reflexivity|lia].
  - destruct (max <=? i). { injection H as <- <-. exists O. cbn [ub]. split; [reflexivity|lia]. }
    destruct (is_ascii_digit c) eqn:Ed; cbn [negb] in H.
    + destruct (i64_max <? n * 10 + (c - 48)); [discriminate|]. pose proof (digit_range c Ed) as Hc.
      assert (Hn' : 0 <= n * 10 + (c - 48)) by lia.
      destruct (IH _ _ _ _ _ _ Hn' H) as (k & Hk & Hv). exists (S k). split; [cbn [List.length]; lia|].
      cbn [ub]. pose proof (ub_mono k (n * 10 + (c - 48)) (n * 10 + 9) ltac:(lia)). lia.
    + destruct (i <? min); [discriminate|]. injection H as <- <-. exists O. cbn [ub]. split; [reflexivity|lia].
Qed.
Lemma number_safe_len s min max : wf s -> 0 <= min <= max ->
  safe (number s min max) (fun x => wf (fst x) /\ blen (fst x) <= blen s /\ 0 <= snd x /\
                                    (blen s - blen (fst x) = 3 -> snd x <= 999)).
Proof.
  intros Hv Hm. rewrite number_ok by assumption. unfold number_pure. destruct (blen s <? min); [exact I|].
  destruct (number_pure_loop s 0 min max 0) as [[r v]|e] eqn:E; [|exact I]. cbn [safe fst snd].
  split; [exact (number_pure_loop_valid _ _ _ _ _ _ _ Hv E)|].
  destruct (npl_bound _ _ _ _ _ _ _ (Z.le_refl 0) E) as (k & Hk & Hb). unfold blen. rewrite Hk.
  split; [lia|]. split; [lia|]. intros H3. assert (k = 3%nat) by lia. subst k. cbn [ub] in Hb. lia.
Qed.

(** ** the three-letter names *)
Lemma short_month0_len s r v : short_month0 s = Val (POk (r, v)) -> blen r <= blen s.
Proof.
  rewrite P13R.short_month0_unfold. destruct (blen s <? 3); [discriminate|]. intros H.
  apply bind_inv in H. destruct H as (key & _ & H).
  destruct (assoc_bytes key SHORT_MONTH_ARMS); [|discriminate].
  apply bind_inv in H. destruct H as (r' & Hr & H). injection H as <- <-. exact (str_from_len _ _ _ Hr).
Qed.
Lemma short_weekday_len s r v : short_weekday s = Val (POk (r, v)) -> blen r <= blen s.
Proof.
  rewrite P13R.short_weekday_unfold. destruct (blen s <? 3); [discriminate|]. intros H.
  apply bind_inv in H. destruct H as (key & _ & H).
  destruct (assoc_bytes key SHORT_WEEKDAY_ARMS); [|discriminate].
  apply bind_inv in H. destruct H as (r' & Hr & H). injection H as <- <-. exact (str_from_len _ _ _ Hr).
Qed.

Lemma short_month0_safe_len s : wf s ->
  safe (short_month0 s) (fun x => (wf (fst x) /\ 0 <= snd x <= 11) /\ blen (fst x) <= blen s).
Proof.
  intros Hv. apply safe_and; [apply short_month0_safe; exact Hv|intros [r v] E; exact (short_month0_len s r v E)].
Qed.

(** ** space, char *)
Lemma space_safe_len s : wf s -> safe (space s) (fun r => wf r /\ blen r <= blen s).
Proof.
  intros Hv. unfold space. destruct (P11.trim_start_valid s Hv) as [H1 H2].
  destruct (blen (trim_start s) <? blen s); [split; assumption|]. destruct (is_empty s); exact I.
Qed.
Lemma char_safe_len s c : wf s -> 0 <= c <= 127 -> safe (char s c) (fun r => wf r /\ blen r <= blen s).
Proof.
  intros Hv Hc. rewrite char_ok by assumption. destruct s as [|x r]; [exact I|].
  destruct (x =? c) eqn:E; [|exact I]. assert (x = c) by lia. subst x.
  destruct (utf8_valid_tail_ascii c r Hc Hv) as [H1 _]. cbn [safe]. split; [exact H1|rewrite blen_cons; lia].
Qed.

(** ** timezone_offset (any colon-consumer that does not lengthen) and timezone_offset_2822 *)
Lemma timezone_offset_len s cc az am ams r v :
  (forall t t', cc t = Val (POk t') -> blen t' <= blen t) ->
  timezone_offset s cc az am ams = Val (POk (r, v)) -> blen r <= blen s.
Proof.
  intros Hcc H. rewrite timezone_offset_unfold in H.
  destruct (az && match s with c :: _ => (c =? 90) || (c =? 122) | [] => false end).
  { apply bind_inv in H. destruct H as (r' & Hr & H). injection H as <- <-. exact (str_from_len _ _ _ Hr). }
  apply pbind_inv in H. destruct H as ([neg s1] & Hsign & H).
  assert (Hs1 : blen s1 <= blen s).
  { destruct (next_code_point s) as [[c t]|]; [|discriminate].
    repeat match type of Hsign with (if ?c then _ else _) = _ => destruct c end; try discriminate;
    apply bind_inv in Hsign; destruct Hsign as (r' & Hr & Hsign); injection Hsign as <- <-; exact (str_from_len _ _ _ Hr). }
  unfold tz_tail in H.
  apply pbind_inv in H. destruct H as (hours & _ & H).
  apply bind_inv in H. destruct H as (s2 & Hs2 & H). apply str_from_len in Hs2.
  apply pbind_inv in H. destruct H as (s3 & Hs3 & H). apply Hcc in Hs3.
  apply pbind_inv in H. destruct H as (minutes & _ & H).
  apply pbind_inv in H. destruct H as (s4 & Hs4 & H).
  assert (Hl4 : blen s4 <= blen s3).
  { cbv zeta in Hs4. destruct (blen s3 >=? 2).
    - unfold plift in Hs4. apply bind_inv in Hs4. destruct Hs4 as (r' & Hr & Hs4). injection Hs4 as <-. exact (str_from_len _ _ _ Hr).
    - destruct (blen s3 =? 0); [injection Hs4 as <-; lia|discriminate]. }
  apply bind_inv in H. destruct H as (hs & _ & H).
  apply bind_inv in H. destruct H as (ms & _ & H).
  apply bind_inv in H. destruct H as (secs & _ & H).
  destruct neg.
  - apply bind_inv in H. destruct H as (n & _ & H). injection H as <- <-. lia.
  - injection H as <- <-. lia.
Qed.

Lemma timezone_offset_2822_safe s : wf s ->
  safe (timezone_offset_2822 s) (fun x => wf (fst x) /\ blen (fst x) <= blen s).
Proof.
  intros Hv. apply safe_and.
  - unfold timezone_offset_2822.
    destruct (P11S.take_alpha_spec s) as (name & Hs & _ & Halpha & Hlen & _).
    rewrite Hlen. destruct (blen name >? 0) eqn:E.
    + pose proof (P11S.alpha_forall name Halpha) as Hascii.
      remember (snd (V.Spec.Rfc2822.take_alpha s)) as rest eqn:Hrest. clear Hrest Hlen. subst s.
      assert (Hvr : utf8_valid rest = true) by (unfold wf in Hv; rewrite utf8_valid_app_ascii in Hv by exact Hascii; exact Hv).
      rewrite P11S.slice_to_app. cbn [bind].
      rewrite str_from_app by (apply utf8_valid_starts_ok; exact Hvr). cbn [bind].
      rewrite P11S.assoc_ic_lc. destruct (P11S.assoc_lc (map to_ascii_lowercase name) TZ2822_NAMES) as [o|] eqn:Eo.
      * apply P11S.assoc_lc_range in Eo. unfold TZ2822_NAMES in Eo. cbn [map snd In] in Eo.
        unfold mul_i32, TZ2822_SECS_PER_HOUR.
        rewrite chk_in by (unfold in_i32, in_range, i32_min, i32_max; repeat (destruct Eo as [<-|Eo]; [lia|]); destruct Eo).
        exact Hvr.
      * destruct (blen name =? 1) eqn:E1; [|exact I].
        destruct name as [|l [|l2 nm]]; [cbv in E1; discriminate| |rewrite !blen_cons in E1; pose proof (blen_nonneg nm); lia].
        change (index [l] 0) with (Val l). cbn [bind]. destruct (in_ranges l TZ2822_MILITARY); [exact Hvr|exact I].
    + eapply safe_weaken; [apply timezone_offset_safe; [intros t Ht; exact Ht|exact Hv]|]. intros a Ha. exact Ha.
  - intros [r v] H. cbn [fst]. unfold timezone_offset_2822 in H. destruct (alpha_prefix_len s >? 0).
    + apply bind_inv in H. destruct H as (name & _ & H).
      apply bind_inv in H. destruct H as (s' & Hs' & H). apply str_from_len in Hs'.
      destruct (assoc_ignore_case name TZ2822_NAMES).
      * apply bind_inv in H. destruct H as (secs & _ & H). injection H as <- <-. exact Hs'.
      * destruct (blen name =? 1); [|discriminate].
        apply bind_inv in H. destruct H as (c & _ & H).
        destruct (in_ranges c TZ2822_MILITARY); [injection H as <- <-; exact Hs'|discriminate].
    + eapply timezone_offset_len; [|exact H]. intros t t' E. injection E as <-. lia.
Qed.

(** ** comment_2822 and the trailing-comment loop *)
Lemma cpure_suffix : forall l st r, P11.cpure l st = POk r -> exists pre, l = pre ++ 41 :: r.
Proof.
  induction l as [|c t IH]; intros st r H; cbn [P11.cpure] in H; [discriminate|].
  assert (Step : forall st', P11.cpure t st' = POk r -> exists pre, c :: t = pre ++ 41 :: r).
  { intros st' H'. destruct (IH _ _ H') as (pre & ->). exists (c :: pre). reflexivity. }
  destruct st as [|d|d].
  - destruct (c =? 40); [eapply Step; exact H|discriminate].
  - destruct ((d =? 1) && (c =? 41)) eqn:E.
    { injection H as <-. exists []. assert (c = 41) by lia. subst c. reflexivity. }
    destruct (c =? 92); [eapply Step; exact H|].
    destruct (c =? 40); [eapply Step; exact H|].
    destruct (c =? 41); eapply Step; exact H.
  - eapply Step; exact H.
Qed.
Lemma comment_2822_safe s : wf s -> blen s <= u64_max ->
  safe (comment_2822 s) (fun x => wf (fst x) /\ blen (fst x) < blen s).
Proof.
  intros Hv Hl. rewrite P11.comment_2822_ok by assumption. unfold P11.comment_pure.
  destruct (P11.trim_start_valid s Hv) as [Hv' Hl'].
  destruct (P11.cpure (trim_start s) CStart) as [r|e] eqn:E; cbn [P11.with_unit safe]; [|exact I]. cbn [fst].
  destruct (cpure_suffix _ _ _ E) as (pre & Hp). split.
  - apply (P11.after_ascii_valid pre 41 r); [rewrite <- Hp; exact Hv'|lia].
  - rewrite Hp in Hl'. rewrite blen_app, blen_cons in Hl'. pose proof (blen_nonneg pre). lia.
Qed.
Lemma comments_loop_safe : forall fuel s, wf s -> blen s <= u64_max -> (List.length s < fuel)%nat ->
  exists r, R2.comments_loop fuel s = Val r /\ wf r /\ blen r <= blen s.
Proof.
  induction fuel as [|fuel IH]; intros s Hv Hl Hf; [lia|]. cbn [R2.comments_loop].
  pose proof (comment_2822_safe s Hv Hl) as H.
  destruct (comment_2822 s) as [[[r u]|e]| |]; cbn [safe fst] in H; try contradiction; cbn [bind].
  - destruct H as [H1 H2].
    destruct (IH r H1 ltac:(lia) ltac:(unfold blen in *; lia)) as (r' & E & W & L).
    exists r'. split; [exact E|]. split; [exact W|lia].
  - exists s. split; [reflexivity|]. split; [exact Hv|lia].
Qed.

(** * The setters keep the field state typed *)
Ltac ftype_range :=
  let R := fresh "R" in
  intros R; cbn [P14.ftype]; rewrite ?P14.as_i32_small, ?P14.as_u32_small by (unfold i32_max, u32_max in *; lia);
  unfold in_i32, in_range, i32_min, i32_max, u32_max in *; lia.
Lemma pset_checked_safe f lo hi cast p v : P14.typed p -> (lo <= v <= hi -> P14.ftype f (cast v)) ->
  safe (R2.pset (Parsed.set_checked f lo hi cast p v)) P14.typed.
Proof.
  intros T Ht. destruct (Parsed.set_checked f lo hi cast p v) as [q [u|e]] eqn:E; cbn [R2.pset pok perr_ safe]; [|exact I].
  exact (proj1 (P14.set_checked_step _ _ _ _ _ _ _ _ T E Ht)).
Qed.
Lemma pset_ifc_safe f p v : P14.typed p -> P14.ftype f v ->
  safe (R2.pset (Parsed.set_if_consistent f p v)) P14.typed.
Proof.
  intros T Ht. destruct (Parsed.set_if_consistent f p v) as [q [u|e]] eqn:E; cbn [R2.pset pok perr_ safe]; [|exact I].
  exact (P14Z.set_ifc_typed _ _ _ _ _ T E Ht).
Qed.
Lemma set_hour_safe p v : P14.typed p ->
  exists sh, Parsed.set_hour p v = Val sh /\ safe (R2.pset sh) P14.typed.
Proof.
  intros T. destruct (P14.set_hour_no_panic p v) as [N1 N2].
  destruct (Parsed.set_hour p v) as [[q [u|e]]| |] eqn:E; try contradiction.
  - exists (q, Parsed.Ok u). split; [reflexivity|]. cbn [R2.pset pok safe]. exact (proj1 (P14.set_hour_step p v q u T E)).
  - exists (q, Parsed.Err e). split; [reflexivity|]. exact I.
Qed.

(** * parse_rfc2822 *)
(** the invariant: typed field state, well-formed remainder not longer than the original input *)
Definition G (s0 : bytes) (x : Parsed.parsed * bytes) : Prop :=
  P14.typed (fst x) /\ wf (snd x) /\ blen (snd x) <= blen s0.

Lemma opt_weekday_safe p s s0 : P14.typed p -> wf s -> blen s <= blen s0 -> safe (R2.opt_weekday p s) (G s0).
Proof.
  intros T Hv Hl. unfold R2.opt_weekday.
  pose proof (short_weekday_safe s Hv) as Hw. pose proof (short_weekday_len s) as Hlen.
  destruct (short_weekday s) as [[[s_ wd]|e]| |]; cbn [safe] in Hw; try contradiction; cbn [bind].
  - destruct Hw as [Hw1 Hw2]. cbn [fst snd] in Hw1, Hw2. specialize (Hlen s_ wd eq_refl).
    change R2_WEEKDAY_SEP with 44.
    destruct s_ as [|c r]; cbn [starts_with_byte negb]; [exact I|].
    destruct (c =? 44) eqn:Ec; cbn [negb]; [|exact I]. assert (c = 44) by lia. subst c.
    destruct (str_from_safe_ascii 44 r ltac:(lia) Hw1) as [Hs Hr]. rewrite Hs. cbn [bind].
    eapply safe_pbind; [apply pset_ifc_safe; [exact T|cbn [P14.ftype]; lia]|].
    intros p' T'. apply safe_pok. rewrite blen_cons in Hlen. split; [exact T'|split; [exact Hr|cbn [snd]; lia]].
  - apply safe_pok. split; [exact T|split; [exact Hv|exact Hl]].
Qed.

Lemma opt_second_safe p s s0 : P14.typed p -> wf s -> blen s <= blen s0 -> safe (R2.opt_second p s) (G s0).
Proof.
  intros T Hv Hl. unfold R2.opt_second.
  destruct (P11.trim_start_valid s Hv) as [Hv1 Hl1].
  pose proof (char_safe_len (trim_start s) R2_TIME_SEP2 Hv1 ltac:(unfold R2_TIME_SEP2; lia)) as Hc.
  destruct (char (trim_start s) R2_TIME_SEP2) as [[s_|e]| |]; cbn [safe] in Hc; try contradiction; cbn [bind].
  - destruct Hc as [Hc1 Hc2]. cbv zeta.
    set (s3 := if R2_SECOND_TRIM =? 1 then trim_start s_ else s_).
    assert (H3 : wf s3 /\ blen s3 <= blen s_).
    { unfold s3. destruct (R2_SECOND_TRIM =? 1); [apply P11.trim_start_valid; exact Hc1|split; [exact Hc1|lia]]. }
    eapply safe_pbind; [apply number_safe_len; [exact (proj1 H3)|unfold R2_SECOND_MIN, R2_SECOND_MAX; lia]|].
    intros [s4 v] (W & L & _). cbn [fst snd] in W, L.
    eapply safe_pbind; [apply pset_checked_safe; [exact T|ftype_range]|].
    intros p' T'. apply safe_pok. split; [exact T'|split; [exact W|cbn [snd]; lia]].
  - apply safe_pok. split; [exact T|split; [exact Hv|exact Hl]].
Qed.

Lemma year_rule_total yearlen year : 0 <= year -> (yearlen = 3 -> year <= 999) ->
  exists y, R2.year_rule yearlen year = Val y.
Proof.
  intros H0 H3. unfold R2.year_rule, R2_YEAR_ARM1_LEN, R2_YEAR_ARM1_LO, R2_YEAR_ARM1_HI, R2_YEAR_ARM1_ADD,
    R2_YEAR_ARM2_LEN, R2_YEAR_ARM2_LO, R2_YEAR_ARM2_HI, R2_YEAR_ARM2_ADD, R2_YEAR_ARM3_LEN, R2_YEAR_ARM3_ADD.
  destruct ((yearlen =? 2) && (0 <=? year) && (year <=? 49)) eqn:E1.
  { unfold add_i64. rewrite chk_in by (unfold in_i64, in_range, i64_min, i64_max; lia). eauto. }
  destruct ((yearlen =? 2) && (50 <=? year) && (year <=? 99)) eqn:E2.
  { unfold add_i64. rewrite chk_in by (unfold in_i64, in_range, i64_min, i64_max; lia). eauto. }
  destruct (yearlen =? 3) eqn:E3; [|eauto].
  unfold add_i64. rewrite chk_in by (unfold in_i64, in_range, i64_min, i64_max; lia). eauto.
Qed.

(** SLICE SAFETY of parse_rfc2822: no slice off a char boundary, no index out of bounds, no
    arithmetic trap, the comment loop does not run out of fuel; the invariant holds at the end *)
Theorem parse_rfc2822_safe p s : P14.typed p -> wf s -> blen s <= u64_max ->
  safe (R2.parse_rfc2822 p s) (G s).
Proof.
  intros T Hv Hl. unfold R2.parse_rfc2822. cbv zeta.
  destruct (P11.trim_start_valid s Hv) as [Hv1 Hl1].
  eapply safe_pbind; [apply (opt_weekday_safe p (trim_start s) s T Hv1 Hl1)|].
  intros [p1 s2] (T1 & Hv2 & Hl2). cbn [fst snd] in T1, Hv2, Hl2.
  destruct (P11.trim_start_valid s2 Hv2) as [Hv3 Hl3].
  (* day *)
  eapply safe_pbind; [apply number_safe_len; [exact Hv3|unfold R2_DAY_MIN, R2_DAY_MAX; lia]|].
  intros [s4 v4] (Hv4 & Hl4 & _). cbn [fst snd] in Hv4, Hl4.
  eapply safe_pbind; [apply pset_checked_safe; [exact T1|ftype_range]|]. intros p2 T2.
  eapply safe_pbind; [apply space_safe_len; exact Hv4|]. intros s5 [Hv5 Hl5].
  (* month *)
  eapply safe_pbind; [apply short_month0_safe_len; exact Hv5|].
  intros [s6 m0] ([Hv6 Hm] & Hl6). cbn [fst snd] in Hv6, Hm, Hl6.
  unfold R2_MONTH_ADD. rewrite P13R.add_i64_small by lia. cbn [bind].
  eapply safe_pbind; [apply pset_checked_safe; [exact T2|ftype_range]|]. intros p3 T3.
  eapply safe_pbind; [apply space_safe_len; exact Hv6|]. intros s7 [Hv7 Hl7].
  (* year *)
  eapply safe_pbind; [apply number_safe_len; [exact Hv7|unfold R2_YEAR_MIN, R2_YEAR_MAX; lia]|].
  intros [s8 year] (Hv8 & Hl8 & Hy0 & Hy3). cbn [fst snd] in Hv8, Hl8, Hy0, Hy3.
  pose proof (blen_nonneg s8) as Hn8.
  unfold sub_usize. rewrite chk_in by (unfold in_usize, in_u64, in_range, u64_max in *; lia). cbn [bind].
  destruct (year_rule_total (blen s7 - blen s8) year Hy0 Hy3) as (y & Hy). rewrite Hy. cbn [bind].
  eapply safe_pbind; [apply pset_checked_safe; [exact T3|ftype_range]|]. intros p4 T4.
  eapply safe_pbind; [apply space_safe_len; exact Hv8|]. intros s9 [Hv9 Hl9].
  (* hour *)
  eapply safe_pbind; [apply number_safe_len; [exact Hv9|unfold R2_HOUR_MIN, R2_HOUR_MAX; lia]|].
  intros [s10 hour] (Hv10 & Hl10 & _). cbn [fst snd] in Hv10, Hl10.
  destruct (set_hour_safe p4 hour T4) as (sh & Hsh & Hshs). rewrite Hsh. cbn [bind].
  eapply safe_pbind; [exact Hshs|]. intros p5 T5.
  destruct (P11.trim_start_valid s10 Hv10) as [Hv11 Hl11].
  eapply safe_pbind; [apply char_safe_len; [exact Hv11|unfold R2_TIME_SEP1; lia]|]. intros s12 [Hv12 Hl12].
  destruct (P11.trim_start_valid s12 Hv12) as [Hv13 Hl13].
  (* minute *)
  eapply safe_pbind; [apply number_safe_len; [exact Hv13|unfold R2_MINUTE_MIN, R2_MINUTE_MAX; lia]|].
  intros [s14 minute] (Hv14 & Hl14 & _). cbn [fst snd] in Hv14, Hl14.
  eapply safe_pbind; [apply pset_checked_safe; [exact T5|ftype_range]|]. intros p6 T6.
  (* second *)
  eapply safe_pbind; [apply (opt_second_safe p6 s14 s14 T6 Hv14); lia|].
  intros [p7 s15] (T7 & Hv15 & Hl15). cbn [fst snd] in T7, Hv15, Hl15.
  eapply safe_pbind; [apply space_safe_len; exact Hv15|]. intros s16 [Hv16 Hl16].
  (* zone *)
  eapply safe_pbind; [apply timezone_offset_2822_safe; exact Hv16|].
  intros [s17 off] [Hv17 Hl17]. cbn [fst snd] in Hv17, Hl17.
  eapply safe_pbind; [apply pset_checked_safe; [exact T7|ftype_range]|]. intros p8 T8.
  (* comments *)
  destruct (comments_loop_safe (S (List.length s17)) s17 Hv17 ltac:(lia) ltac:(lia)) as (s18 & Hc & Hv18 & Hl18).
  rewrite Hc. cbn [bind]. apply safe_pok. split; [exact T8|split; [exact Hv18|cbn [snd]; lia]].
Qed.

(** * DateTime::parse_from_rfc2822 *)
Theorem parse_items_rfc2822_safe p s : P14.typed p -> wf s -> blen s <= u64_max ->
  safe (R2.parse_items_rfc2822 p s) P14.typed.
Proof.
  intros T Hv Hl. unfold R2.parse_items_rfc2822.
  eapply safe_pbind; [apply parse_rfc2822_safe; assumption|].
  intros [p' rest] (T' & _). cbn [fst] in T'. destruct (is_empty rest); [exact T'|exact I].
Qed.

(** NEVER PANIC: for every well-formed UTF-8 string, parse_from_rfc2822 returns Ok or Err *)
Theorem parse_from_rfc2822_never_panics s : utf8_valid s = true -> blen s <= u64_max ->
  exists r, R2.parse_from_rfc2822 s = Val r.
Proof.
  intros Hv Hl. unfold R2.parse_from_rfc2822.
  pose proof (parse_items_rfc2822_safe Parsed.parsed_new s P14.typed_new Hv Hl) as H.
  destruct (R2.parse_items_rfc2822 Parsed.parsed_new s) as [[p|e]| |]; cbn [safe] in H; try contradiction; cbn [pbind bind].
  - destruct (P14Z.to_datetime_never_panics p H) as (r & Hr & _). rewrite Hr. cbn [bind]. eexists; reflexivity.
  - eexists; reflexivity.
Qed.
