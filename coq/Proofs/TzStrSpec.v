(** The POSIX TZ strings the reader accepts, as a decidable grammar on bytes, and the rule each
    accepted string denotes.  Definitions only, written from the POSIX description of TZ
    (std offset [dst [offset] ,start[/time],end[/time]]) and the ranges documented in rule.rs;
    none of the reader's code (Model/TzRule.v, the cursor and the trapping monad of Model/TzTypes.v)
    is used.  Shared with the model: the data types [ltt], [rule_day], [alt_time], [trule] and the
    three character classes [is_ascii_digit], [is_ascii_alphabetic], [is_name_char] of
    Model/TzTypes.v.

    The grammar (bytes; "digits" = a maximal, non-empty run of ASCII digits read as a decimal
    number of any length, leading zeros allowed):
      name    = ALPHA*  (maximal run)   |   '<' (any byte but '>')* '>'
                afterwards required: 3..7 bytes, each of [0-9A-Za-z+-]
      hms(H)  = digits<=H [ ':' digits<=59 [ ':' digits<=59 ] ]
      offset  = ['+' | '-'] hms(24)                      value sign*(h*3600+m*60+s)
      time    = hms(24)                                  (version 2 footer / plain)
              | ['+' | '-'] hms(167)                     (version 3 footer / extended)
      day     = 'M' digits(1..12) '.' digits(1..5) '.' digits(0..6)
              | 'J' digits(1..365)  |  digits(0..365)
      string  = name offset                                           -> Fixed
              | name offset name [offset] ',' day ['/' time] ',' day ['/' time]   -> Alternate
    with UT offset = - offset, default DST offset = std offset - 3600, default time 02:00:00. *)
From Coq Require Import ZArith List Bool.
From V Require Import Base.Int Base.IO Model.TzTypes.
Import ListNotations.
Open Scope Z_scope.

Definition obind {A T} (x : option A) (f : A -> option T) : option T :=
  match x with Some a => f a | None => None end.
Notation "'let?' x ':=' e 'in' k" := (obind e (fun x => k))
  (at level 200, x name, e at level 100, k at level 200).
Notation "'let?' ' p ':=' e 'in' k" := (obind e (fun p => k))
  (at level 200, p pattern, e at level 100, k at level 200).

(** the longest prefix whose bytes satisfy [f], and what follows it *)
Fixpoint span (f : Z -> bool) (s : bytes) : bytes * bytes :=
  match s with
  | x :: r => if f x then (x :: fst (span f r), snd (span f r)) else ([], s)
  | [] => ([], [])
  end.
Definition dec_value (l : bytes) : Z := fold_left (fun a b => a * 10 + (b - 48)) l 0.
(* the byte [t], if it comes next *)
Definition eat (t : Z) (s : bytes) : option bytes :=
  match s with x :: r => if x =? t then Some r else None | [] => None end.

(** digits: a maximal non-empty run of digits; [g_num hi]: with value at most [hi] *)
Definition g_nat (s : bytes) : option (Z * bytes) :=
  match fst (span is_ascii_digit s) with
  | [] => None
  | ds => Some (dec_value ds, snd (span is_ascii_digit s))
  end.
Definition g_num (hi : Z) (s : bytes) : option (Z * bytes) :=
  let? '(v, r) := g_nat s in if v <=? hi then Some (v, r) else None.

(** name (validity of the characters and of the length is asked at the end, [name_valid]) *)
Definition g_name (s : bytes) : option (bytes * bytes) :=
  match s with
  | x :: r =>
      if x =? 60 then
        let? r' := eat 62 (snd (span (fun b => negb (b =? 62)) r)) in
        Some (fst (span (fun b => negb (b =? 62)) r), r')
      else Some (span is_ascii_alphabetic s)
  | [] => Some ([], [])
  end.
Definition name_valid (n : bytes) : bool :=
  (3 <=? zlen n) && (zlen n <=? 7) && forallb is_name_char n.

(** hh[:mm[:ss]] with the three upper bounds *)
Definition g_hms (bh bm bs : Z) (s : bytes) : option (Z * Z * Z * bytes) :=
  let? '(h, s1) := g_num bh s in
  match eat 58 s1 with
  | None => Some (h, 0, 0, s1)
  | Some s2 =>
      let? '(m, s3) := g_num bm s2 in
      match eat 58 s3 with
      | None => Some (h, m, 0, s3)
      | Some s4 => let? '(sec, s5) := g_num bs s4 in Some (h, m, sec, s5)
      end
  end.
Definition g_sign (s : bytes) : Z * bytes :=
  match s with
  | x :: r => if x =? 43 then (1, r) else if x =? 45 then (-1, r) else (1, s)
  | [] => (1, s)
  end.
Definition g_signed_hms (bh : Z) (s : bytes) : option (Z * bytes) :=
  let? '(h, m, sec, r) := g_hms bh 59 59 (snd (g_sign s)) in
  Some (fst (g_sign s) * (h * 3600 + m * 60 + sec), r).
Definition g_offset (s : bytes) : option (Z * bytes) := g_signed_hms 24 s.
(* [ext]: the extended range of a version 3 footer, -167..167 hours, sign allowed *)
Definition g_time (ext : bool) (s : bytes) : option (Z * bytes) :=
  if ext then g_signed_hms 167 s
  else let? '(h, m, sec, r) := g_hms 24 59 59 s in Some (h * 3600 + m * 60 + sec, r).

(** m.w.d with the three upper bounds *)
Definition g_mwd (bm bw bd : Z) (s : bytes) : option (Z * Z * Z * bytes) :=
  let? '(m, s1) := g_num bm s in
  let? s2 := eat 46 s1 in
  let? '(w, s3) := g_num bw s2 in
  let? s4 := eat 46 s3 in
  let? '(d, s5) := g_num bd s4 in
  Some (m, w, d, s5).
Definition g_day (s : bytes) : option (rule_day * bytes) :=
  match s with
  | x :: r =>
      if x =? 77 then
        let? '(m, w, d, r') := g_mwd 12 5 6 r in
        if (1 <=? m) && (1 <=? w) then Some (MonthWeekday m w d, r') else None
      else if x =? 74 then
        let? '(n, r') := g_num 365 r in if 1 <=? n then Some (Julian1WithoutLeap n, r') else None
      else let? '(n, r') := g_num 365 s in Some (Julian0WithLeap n, r')
  | [] => None
  end.
(* day[/time]; the time defaults to 02:00:00 *)
Definition g_day_time (ext : bool) (s : bytes) : option (rule_day * Z * bytes) :=
  let? '(d, s1) := g_day s in
  match eat 47 s1 with
  | None => Some (d, 7200, s1)
  | Some s2 => let? '(t, s3) := g_time ext s2 in Some (d, t, s3)
  end.

(* the DST offset: absent (a comma follows) = one hour ahead of standard time *)
Definition g_dst_offset (std_offset : Z) (s : bytes) : option (Z * bytes) :=
  match s with
  | x :: _ => if x =? 44 then Some (std_offset - 3600, s) else g_offset s
  | [] => None
  end.

(** the whole string *)
Definition tzstr_parse (ext : bool) (s : bytes) : option trule :=
  let? '(sn, s1) := g_name s in
  let? '(so, s2) := g_offset s1 in
  match s2 with
  | [] => if name_valid sn then Some (Fixed (mk_ltt (- so) false (Some sn))) else None
  | _ =>
      let? '(dn, s3) := g_name s2 in
      let? '(dof, s4) := g_dst_offset so s3 in
      let? s5 := eat 44 s4 in
      let? '(d1, t1, s6) := g_day_time ext s5 in
      let? s7 := eat 44 s6 in
      let? '(d2, t2, s8) := g_day_time ext s7 in
      match s8 with
      | [] =>
          if name_valid sn && name_valid dn then
            Some (Alternate (mk_alt (mk_ltt (- so) false (Some sn)) (mk_ltt (- dof) true (Some dn)) d1 t1 d2 t2))
          else None
      | _ => None
      end
  end.

Definition tzstr_accepts (ext : bool) (s : bytes) : bool :=
  match tzstr_parse ext s with Some _ => true | None => false end.
Definition tzstr_value (ext : bool) (s : bytes) : trule :=
  match tzstr_parse ext s with Some r => r | None => Fixed (mk_ltt 0 false None) end.
