(** C11 -- reader completeness, resolution half: the fields a string of the RFC 2822 grammar sets
    (day, month, year, hour, minute, [second], offset, [weekday]) resolve, through
    Parsed::to_datetime (Model/Parsed.v), to exactly the value the specification denotes; a
    weekday that contradicts the date is refused with IMPOSSIBLE. *)
From Coq Require Import ZArith List Bool Lia ZifyBool.
From V Require Import Base.Int Base.IntLemmas Base.IO Spec.Gregorian Model.TimeDelta.
From V Require Model.Date Model.Time.
From V Require Import Model.DateTime Model.Parsed.
From V Require Import Proofs.C08Sweeps Proofs.C08Date Proofs.C08Days Proofs.C08 Proofs.Date Proofs.DateIso
  Proofs.GregorianForms Proofs.C14 Proofs.C14Date Proofs.C04.
From V Require Import Spec.Rfc2822.
Import ListNotations.
Open Scope Z_scope.
Ltac Zify.zify_post_hook ::= Z.to_euclidean_division_equations.

Definition resolve_fields (f : fields) : parsed :=
  let p := parsed_new in
  let p := match f_wd f with Some w => pput F_weekday (Some w) p | None => p end in
  let p := pput F_day (Some (f_day f)) p in
  let p := pput F_month (Some (f_month f)) p in
  let p := pput F_year (Some (year_of f)) p in
  let p := pput F_hour_div_12 (Some (f_hour f / 12)) p in
  let p := pput F_hour_mod_12 (Some (f_hour f mod 12)) p in
  let p := pput F_minute (Some (f_minute f)) p in
  let p := match f_second f with Some v => pput F_second (Some v) p | None => p end in
  pput F_offset (Some (zone_offset (f_zone f))) p.

(** * ISO year of a supported date fits i32 *)
Lemma iso_year_i32 n : dn_in_range n = true -> in_i32 (fst (iso_of_dn n)) = true.
Proof.
  intros H. unfold iso_of_dn. set (th := n - weekday_of_dn n + 3).
  assert (Hth : DN_MIN - 3 <= th <= DN_MAX + 3).
  { unfold th, weekday_of_dn. unfold dn_in_range in H. lia. }
  destruct (yo_of_dn th) as [y o] eqn:E. cbn [fst].
  assert (Hy : y = fst (yo_of_dn th)) by (rewrite E; reflexivity).
  pose proof (yo_of_dn_mono (DN_MIN - 3) th ltac:(lia)) as M1.
  pose proof (yo_of_dn_mono th (DN_MAX + 3) ltac:(lia)) as M2.
  rewrite <- Hy in M1, M2.
  assert (E1 : fst (yo_of_dn (DN_MIN - 3)) = -262144) by (vm_compute; reflexivity).
  assert (E2 : fst (yo_of_dn (DN_MAX + 3)) = 262143) by (vm_compute; reflexivity).
  rewrite E1 in M1. rewrite E2 in M2. unfold in_i32, in_range, i32_min, i32_max. lia.
Qed.

(** * The two verifiers on a field set without ISO / ordinal / week fields *)
Lemma opt_eqb_refl a : opt_eqb a a = true.
Proof. destruct a; cbn [opt_eqb]; [lia|reflexivity]. Qed.
Lemma verify_iso_weekday y o d p : repr y o d ->
  p_isoyear p = None -> p_isoyear_div_100 p = None -> p_isoyear_mod_100 p = None -> p_isoweek p = None ->
  verify_isoweekdate p d =
  Val (match p_weekday p with Some w => w =? weekday_of_dn (dn_of_yo y o) | None => true end).
Proof.
  intros H H1 H2 H3 H4. unfold verify_isoweekdate.
  destruct (d_iso_week_spec y o d H) as (Hiw & Hy & Hw). rewrite Hiw. cbn [bind]. rewrite Hy, Hw.
  rewrite (d_weekday_spec y o d H). cbn [bind].
  rewrite parts_block by (apply iso_year_i32; eapply repr_dn_in_range; exact H). cbn [bind].
  rewrite H1, H2, H3, H4. cbn [unwrap_or opt_or].
  destruct (if fst (iso_of_dn (dn_of_yo y o)) >=? 0 then _ else _) as [a b].
  rewrite !opt_eqb_refl, !Z.eqb_refl. cbn [andb].
  destruct (p_weekday p) as [w|]; cbn [unwrap_or]; [reflexivity|rewrite Z.eqb_refl; reflexivity].
Qed.

(** * from_local_datetime on a valid date: the UTC reading by day-number arithmetic *)
Lemma from_local_repr y o d t off : repr y o d -> time_ok t -> off_ok off ->
  let n := dn_of_yo y o + (Time.tsecs t - off) / 86400 in
  dn_in_range n = true ->
  from_local_datetime off (mk_ndt d t) =
  Val (MSingle (mk_dtz (mk_ndt (date_of_dn n) (Time.mk_time ((Time.tsecs t - off) mod 86400) (Time.tfrac t))) off)).
Proof.
  intros H Ht Ho n Hn. unfold from_local_datetime, ndt_checked_sub_offset. cbn [nd_time nd_date].
  rewrite overflowing_sub_offset_spec by assumption. cbv [bind].
  set (days := (Time.tsecs t - off) / 86400) in *.
  assert (Hd : -1 <= days <= 1) by (unfold days; destruct Ht as [Hs _]; unfold off_ok in Ho; lia).
  unfold shift_date_checked.
  destruct (days =? -1) eqn:E1.
  - rewrite (pred_opt_spec y o d H). replace (dn_of_yo y o - 1) with n by (unfold n; lia). rewrite Hn.
    cbv [obind bind date_if]. reflexivity.
  - destruct (days =? 1) eqn:E2.
    + rewrite (succ_opt_spec y o d H). replace (dn_of_yo y o + 1) with n by (unfold n; lia). rewrite Hn.
      cbv [obind bind date_if]. reflexivity.
    + cbv [obind bind]. replace n with (dn_of_yo y o) by (unfold n; lia). rewrite (date_of_dn_of_repr y o d H). reflexivity.
Qed.

Lemma date_of_dn_acc n : dn_in_range n = true ->
  Date.d_year (date_of_dn n) = fst (yo_of_dn n) /\ Date.d_ordinal (date_of_dn n) = snd (yo_of_dn n).
Proof.
  intros Hn. pose proof (date_of_dn_repr n Hn) as H. destruct (repr_md _ _ _ H) as (H1 & H2 & _). auto.
Qed.

(** * Resolution of the RFC 2822 field set *)
Definition fields_nonneg (f : fields) : Prop :=
  0 <= f_hour f /\ 0 <= f_minute f /\ 0 <= second_of f /\ 0 <= f_yval f.

Section Resolve.
  Variable f : fields.
  Hypothesis Hvalid : valid f = true.
  Hypothesis Hrep : representable f = true.
  Hypothesis Hnn : fields_nonneg f.

  Let Y := year_of f.
  Let m := f_month f.
  Let dd := f_day f.
  Let o := ordinal_of_md (is_leap Y) m dd.
  Let date := mkdate Y o.
  Let s := second_of f.
  Let lsecs := f_hour f * 3600 + f_minute f * 60 + (if s =? 60 then 59 else s).
  Let lfrac := if s =? 60 then 1000000000 else 0.
  Let off := zone_offset (f_zone f).

  Lemma valid_parts : valid_ymd Y m dd = true /\ f_hour f <= 23 /\ f_minute f <= 59 /\ s <= 60 /\ year_in_range Y = true
    /\ -86400 < off < 86400 /\ dn_in_range (local_dn f + utc_shift f / 86400) = true.
  Proof.
    pose proof Hvalid as V. pose proof Hrep as R0. unfold valid in V. unfold representable in R0.
    apply andb_prop in V. destruct V as [V V5]. apply andb_prop in V. destruct V as [V V4].
    apply andb_prop in V. destruct V as [V V3]. apply andb_prop in V. destruct V as [V1 V2].
    apply andb_prop in R0. destruct R0 as [R0 R4]. apply andb_prop in R0. destruct R0 as [R0 R3].
    apply andb_prop in R0. destruct R0 as [R1 R2].
    unfold Y, m, dd, s, off. repeat split; try assumption; try lia.
  Qed.
  Lemma date_repr : repr Y o date.
  Proof.
    destruct valid_parts as (Hymd & _ & _ & _ & Hy & _). unfold valid_ymd in Hymd.
    destruct (ordinal_of_md_valid (is_leap Y) m dd ltac:(lia) ltac:(lia)) as [Ho _].
    split; [exact Hy|]. split; [|reflexivity]. unfold valid_yo, days_in_year. fold o in Ho. destruct (is_leap Y); lia.
  Qed.
  Lemma local_dn_eq : local_dn f = dn_of_yo Y o.
  Proof. reflexivity. Qed.

  Let P := resolve_fields f.
  Lemma rf_date_fields :
    p_year P = Some Y /\ p_year_div_100 P = None /\ p_year_mod_100 P = None /\ p_isoyear P = None /\
    p_isoyear_div_100 P = None /\ p_isoyear_mod_100 P = None /\ p_quarter P = None /\ p_month P = Some m /\
    p_week_from_sun P = None /\ p_week_from_mon P = None /\ p_isoweek P = None /\ p_weekday P = f_wd f /\
    p_ordinal P = None /\ p_day P = Some dd.
  Proof. unfold P, resolve_fields. destruct (f_wd f), (f_second f); repeat split; reflexivity. Qed.
  Lemma rf_time_fields :
    p_hour_div_12 P = Some (f_hour f / 12) /\ p_hour_mod_12 P = Some (f_hour f mod 12) /\ p_minute P = Some (f_minute f) /\
    p_second P = f_second f /\ p_nanosecond P = None /\ p_timestamp P = None /\ p_offset P = Some off.
  Proof. unfold P, resolve_fields. destruct (f_wd f), (f_second f); repeat split; reflexivity. Qed.

  Lemma to_naive_date_fields : to_naive_date P = Val (if weekday_ok f then Ok date else Err Impossible).
  Proof.
    destruct rf_date_fields as (F1 & F2 & F3 & F4 & F5 & F6 & F7 & F8 & F9 & F10 & F11 & F12 & F13 & F14).
    destruct valid_parts as (Hymd & _ & _ & _ & Hy & _).
    pose proof date_repr as Hr.
    unfold to_naive_date. rewrite F1, F2, F3, F4, F5, F6, F7, F8, F9, F10, F13, F14.
    change (resolve_year (Some Y) None None) with (Val (Ok (Some Y))).
    change (resolve_year None None None) with (Val (Ok (@None Z))).
    cbv [ebind bind].
    assert (HYi : in_i32 Y = true) by (unfold year_in_range, MIN_YEAR, MAX_YEAR in Hy; unfold in_i32, in_range, i32_min, i32_max; lia).
    unfold valid_ymd in Hymd.
    pose proof (days_in_month_bounds (is_leap Y) m) as Hdim.
    rewrite from_ymd_opt_spec by (try exact HYi; unfold in_u32, in_range, u32_max; lia).
    rewrite Hy. replace (valid_ymd Y m dd) with true by (unfold valid_ymd; lia).
    cbv [andb date_if ok_or_r ok_or bind]. change (mk_ymd Y m dd) with date.
    rewrite (verify_iso_weekday Y o date P Hr F4 F5 F6 F11).
    rewrite (verify_ordinal_complete Y o date P Hr) by (rewrite ?F13, ?F9, ?F10; discriminate).
    rewrite F12. unfold weekday_ok. rewrite local_dn_eq.
    destruct (f_wd f) as [w|]; cbv [andr bind].
    - destruct (w =? weekday_of_dn (dn_of_yo Y o)); reflexivity.
    - reflexivity.
  Qed.

  Lemma to_naive_time_fields : to_naive_time P = Val (Ok (Time.mk_time lsecs lfrac)).
  Proof.
    destruct rf_time_fields as (T1 & T2 & T3 & T4 & T5 & _).
    destruct valid_parts as (_ & Hh & Hmi & Hs & _). destruct Hnn as (N1 & N2 & N3 & _). fold s in N3.
    unfold to_naive_time. rewrite T1, T2, T3, T4, T5. unfold contains.
    replace ((0 <=? f_hour f / 12) && (f_hour f / 12 <=? 1)) with true by lia.
    replace ((0 <=? f_hour f mod 12) && (f_hour f mod 12 <=? 11)) with true by lia.
    cbv [ebind bind]. unfold mul_u32, add_u32.
    rewrite chk_in by (unfold in_u32, in_range, u32_max; lia). cbv [bind].
    rewrite chk_in by (unfold in_u32, in_range, u32_max; lia). cbv [bind].
    replace ((0 <=? f_minute f) && (f_minute f <=? 59)) with true by lia. cbv iota beta.
    change (unwrap_or (f_second f) 0) with s.
    replace (f_hour f / 12 * 12 + f_hour f mod 12) with (f_hour f) by lia.
    unfold lsecs, lfrac.
    destruct ((0 <=? s) && (s <=? 59)) eqn:E59.
    - replace (s =? 60) with false by lia. cbv iota beta.
      rewrite chk_in by (unfold in_u32, in_range, u32_max; lia). cbv [bind].
      rewrite from_hms_nano_ok by lia. reflexivity.
    - replace (s =? 60) with true by lia. cbv iota beta.
      rewrite chk_in by (unfold in_u32, in_range, u32_max; lia). cbv [bind].
      rewrite from_hms_nano_ok by lia. reflexivity.
  Qed.

  Lemma lsecs_range : 0 <= lsecs < 86400.
  Proof.
    destruct valid_parts as (_ & Hh & Hmi & Hs & _). destruct Hnn as (N1 & N2 & N3 & _). fold s in N3.
    unfold lsecs. destruct (s =? 60) eqn:E; lia.
  Qed.
  Lemma utc_shift_eq : utc_shift f = lsecs - off.
  Proof. unfold utc_shift, lsecs, off, s. reflexivity. Qed.

  Theorem to_datetime_weekday_contradiction : weekday_ok f = false -> to_datetime P = Val (Err Impossible).
  Proof.
    intros Hw. destruct rf_time_fields as (_ & _ & _ & _ & _ & T6 & T7).
    unfold to_datetime. rewrite T7, ?T6. cbv [ebind bind]. unfold to_naive_datetime_with_offset.
    rewrite to_naive_date_fields, to_naive_time_fields, Hw, T6. reflexivity.
  Qed.

  Theorem to_datetime_fields : weekday_ok f = true ->
    exists z, to_datetime P = Val (Ok z) /\
      enc_dtz z = (let '(y, o, sd, fr, of_) := denote f in VTup [VInt y; VInt o; VInt sd; VInt fr; VInt of_]).
  Proof.
    intros Hw. destruct rf_time_fields as (_ & _ & _ & _ & _ & T6 & T7).
    destruct valid_parts as (_ & _ & _ & _ & _ & Hoff & Hdn).
    pose proof date_repr as Hr. pose proof lsecs_range as Hls.
    unfold to_datetime. rewrite T7, ?T6. cbv [ebind bind]. unfold to_naive_datetime_with_offset.
    rewrite to_naive_date_fields, to_naive_time_fields, Hw. cbv [bind].
    destruct (dt_timestamp_total date (Time.mk_time lsecs lfrac)) as (ts & Hts & Htsr).
    { exists Y, o. exact Hr. } { cbn [Time.tsecs]. exact Hls. }
    rewrite Hts. cbv [bind]. unfold sub_i64. rewrite chk_in by (unfold in_i64, in_range, i64_min, i64_max; lia). cbv [bind].
    rewrite T6. cbv [ebind bind ok_or].
    rewrite east_opt_spec by (unfold in_i32, in_range, i32_min, i32_max; lia).
    replace ((-86400 <? off) && (off <? 86400)) with true by lia. cbv [bind].
    assert (Htok : time_ok (Time.mk_time lsecs lfrac)).
    { unfold time_ok. cbn [Time.tsecs Time.tfrac]. split; [exact Hls|]. unfold lfrac. destruct (s =? 60); lia. }
    rewrite local_dn_eq, utc_shift_eq in Hdn.
    rewrite (from_local_repr Y o date _ off Hr Htok Hoff) by (cbn [Time.tsecs]; exact Hdn).
    cbn [Time.tsecs Time.tfrac]. eexists. split; [reflexivity|].
    unfold enc_dtz. cbn [dz_utc dz_off nd_date nd_time Time.tsecs Time.tfrac].
    destruct (date_of_dn_acc _ Hdn) as [A1 A2]. rewrite A1, A2.
    unfold denote. rewrite local_dn_eq, utc_shift_eq.
    destruct (yo_of_dn (dn_of_yo Y o + (lsecs - off) / 86400)) as [y' o']. cbn [fst snd].
    fold s. fold lfrac. fold off. reflexivity.
  Qed.
End Resolve.
