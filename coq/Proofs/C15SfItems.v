(** C15 -- every item the STRICT format-string iterator (StrftimeItems::new, the one behind every
    `parse_from_str` / `parse_and_remainder` / `format`) yields is a well-formed item: a [Literal] carries a
    well-formed UTF-8 string (a run of the format string cut at character boundaries, or a constant of the
    specifier table), which is what [Item::Literal(&str)] guarantees in Rust and what the slice-safety theorem
    of the item reader (Proofs/C13Total.v [item_wf]) asks of an item list.
    Partial correctness by inversion of Model/Strftime.v; the constants are checked on the translated tables. *)
From Coq Require Import ZArith List Bool Lia ZifyBool.
From V Require Import Base.Int Base.IO Model.Items Gen.Strftime Model.Strftime Proofs.C15Strftime.
From V Require Base.Utf8 Proofs.C15Utf8 Proofs.C13Time Proofs.C13Total.
Import ListNotations.
Open Scope Z_scope.

Notation valid := utf8_valid.
Definition iwf (it : Item) : bool := match it with Literal l => valid l | _ => true end.
Lemma iwf_item_wf it : iwf it = Proofs.C13Total.item_wf it.
Proof. destruct it; try reflexivity. cbn [iwf Proofs.C13Total.item_wf]. apply Proofs.C15Utf8.utf8_valid_eq. Qed.

Lemma bind_inv {X Y} (x : R X) (f : X -> R Y) r : bind x f = Val r -> exists a, x = Val a /\ f a = Val r.
Proof. destruct x; cbn; intros H; try discriminate. eauto. Qed.

(** the items of the specifier table *)
Fixpoint arm_wf (a : sf_arm) : bool :=
  match a with
  | ArmItem i => iwf i
  | ArmQueue h t => iwf h && forallb iwf t
  | ArmAlt alt plain => iwf alt && iwf plain
  | ArmPrefixes l => forallb (fun pi => iwf (snd pi)) l
  | ArmNext l => (fix go (l : list (Z * sf_arm)) : bool := match l with [] => true | (_, s) :: r => arm_wf s && go r end) l
  end.
Definition subs_wf (l : list (Z * sf_arm)) : bool :=
  (fix go (l : list (Z * sf_arm)) : bool := match l with [] => true | (_, s) :: r => arm_wf s && go r end) l.
Lemma arms_wf : forallb (fun ca => arm_wf (snd ca)) SF_ARMS = true.
Proof. vm_compute. reflexivity. Qed.
Lemma assoc_arm_wf c a : assoc c SF_ARMS = Some a -> arm_wf a = true.
Proof.
  pose proof arms_wf as H. revert H. generalize SF_ARMS. induction l as [|[k v] l IH]; cbn [assoc forallb snd]; [discriminate|].
  intros H E. apply andb_prop in H. destruct H as [H1 H2]. destruct (c =? k); [injection E as <-; exact H1|exact (IH H2 E)].
Qed.

(** strict mode: error() yields the Error item *)
Lemma sf_error_strict_item orig el ch el' rm it : sf_error false orig el ch = Val (el', (rm, it)) -> it = IError.
Proof.
  unfold sf_error. cbn [negb]. destruct SF_ERROR_CONSUMES.
  - intros H. injection H as _ _ <-. reflexivity.
  - intros H. apply bind_inv in H. destruct H as (r & _ & H). injection H as _ _ <-. reflexivity.
Qed.
Lemma sf_error_strict_res {A} orig el ch (k : Z * (bytes * Item) -> R A) r :
  (let* x := sf_error false orig el ch in k x) = Val r ->
  exists el' rm, k (el', (rm, IError)) = Val r.
Proof.
  intros H. apply bind_inv in H. destruct H as ([el' [rm it]] & E & H).
  rewrite (sf_error_strict_item _ _ _ _ _ _ E) in H. eauto.
Qed.
Lemma sf_next_char_strict_item orig rem el rm it : sf_next_char false orig rem el = Val (inl (rm, it)) -> it = IError.
Proof.
  unfold sf_next_char. destruct (next_char rem).
  - intros H. apply bind_inv in H. destruct H as (r & _ & H). cbn [bind] in H. discriminate.
  - intros H. apply sf_error_strict_res in H. destruct H as (el' & rm' & H). injection H as _ <-. reflexivity.
Qed.

Definition res_wf (r : arm_res) : Prop :=
  match r with
  | ARet (_, it) q => iwf it = true /\ forallb iwf q = true
  | ACont it _ _ q => iwf it = true /\ forallb iwf q = true
  end.
Lemma run_arm_wf_n alt orig : forall n a rem el q r, (arm_size a <= n)%nat -> arm_wf a = true -> forallb iwf q = true ->
  run_arm false alt orig a rem el q = Val r -> res_wf r.
Proof.
  induction n as [|n IH]; intros a rem el q r Hn Ha Hq H.
  { destruct a; cbn [arm_size] in Hn; lia. }
  destruct a as [i|h t|ia ip|l|l]; cbn [run_arm] in H; cbn [arm_wf] in Ha.
  - injection H as <-. split; assumption.
  - injection H as <-. apply andb_prop in Ha. exact Ha.
  - injection H as <-. apply andb_prop in Ha. destruct Ha. split; [destruct alt; assumption|exact Hq].
  - clear Hn. induction l as [|[p it] l IHl].
    + apply sf_error_strict_res in H. destruct H as (el' & rm & H). injection H as <-. split; [reflexivity|exact Hq].
    + cbn [forallb snd] in Ha. apply andb_prop in Ha. destruct Ha as [Hit Hl].
      destruct (strip_prefix p rem); [|exact (IHl Hl H)].
      apply bind_inv in H. destruct H as (rm & _ & H). injection H as <-. split; assumption.
  - apply bind_inv in H. destruct H as (nx & En & H). destruct nx as [[rm it]|[[x rm] el']].
    + injection H as <-. rewrite (sf_next_char_strict_item _ _ _ _ _ En). split; [reflexivity|exact Hq].
    + change (arm_wf (ArmNext l)) with (subs_wf l) in Ha.
      assert (Hsz : (subs_size l <= n)%nat) by (cbn [arm_size] in Hn; unfold subs_size; lia). clear Hn En.
      induction l as [|[c sub] l IHl].
      * apply sf_error_strict_res in H. destruct H as (el2 & rm2 & H). injection H as <-. split; [reflexivity|exact Hq].
      * cbn [subs_wf] in Ha. apply andb_prop in Ha. destruct Ha as [Hsub Hl'].
        cbn [subs_size] in Hsz. fold (subs_size l) in Hsz.
        destruct (x =? c); [|apply IHl; [exact Hl'|exact H|lia]].
        apply (IH sub rm el' q r); [lia|exact Hsub|exact Hq|exact H].
Qed.

(* the [Some('%')] branch *)
Lemma parse_spec_wf q orig o q' : forallb iwf q = true -> parse_spec false q orig = Val (o, q') ->
  forallb iwf q' = true /\ forall rm it, o = Some (rm, it) -> iwf it = true.
Proof.
  intros Hq H. unfold parse_spec in H.
  apply bind_inv in H. destruct H as (rem & _ & H). cbn [bind] in H.
  apply bind_inv in H. destruct H as (n1 & E1 & H). destruct n1 as [[rm it]|[[spec rem1] el1]].
  { injection H as <- <-. split; [exact Hq|]. intros rm' it' [= _ <-]. rewrite (sf_next_char_strict_item _ _ _ _ _ E1). reflexivity. }
  apply bind_inv in H. destruct H as (n2 & E2 & H). destruct n2 as [[rm it]|[[spec2 rem2] el2]].
  { injection H as <- <-. split; [exact Hq|]. intros rm' it' [= _ <-].
    destruct (is_some (assoc spec SF_PAD_OVERRIDE) || (spec =? SF_ALT_CHAR)); [|discriminate].
    rewrite (sf_next_char_strict_item _ _ _ _ _ E2). reflexivity. }
  clear E1 E2.
  destruct ((spec =? SF_ALT_CHAR) && negb (contains_char SF_HAVE_ALTERNATES spec2)).
  { apply sf_error_strict_res in H. destruct H as (e3 & rm3 & H). injection H as <- <-. split; [exact Hq|]. intros rm' it' [= _ <-]. reflexivity. }
  apply bind_inv in H. destruct H as (ar & Ear & H).
  assert (Har : res_wf ar).
  { destruct (assoc spec2 SF_ARMS) as [arm|] eqn:Ea.
    - exact (run_arm_wf_n _ _ _ arm _ _ _ _ (le_n _) (assoc_arm_wf _ _ Ea) Hq Ear).
    - apply sf_error_strict_res in Ear. destruct Ear as (e3 & rm3 & Ear). injection Ear as <-. split; [reflexivity|exact Hq]. }
  clear Ear. destruct ar as [[rm3 it3] q3|item rm3 el3 q3]; cbn [res_wf] in Har; destruct Har as [Hi Hq3].
  { injection H as <- <-. split; [exact Hq3|]. intros rm' it' [= _ <-]. exact Hi. }
  assert (Herr : forall o' q'', (let* '(_, res) := sf_error false orig el3 None in Val (Some res, q3)) = Val (o', q'') ->
                 forallb iwf q'' = true /\ forall rm it, o' = Some (rm, it) -> iwf it = true).
  { intros o' q'' He. apply sf_error_strict_res in He. destruct He as (e4 & rm4 & He). injection He as <- <-.
    split; [exact Hq3|]. intros rm' it' [= _ <-]. reflexivity. }
  destruct (assoc spec SF_PAD_OVERRIDE) as [new_pad|].
  - destruct item; try exact (Herr _ _ H).
    destruct (is_nil q3); [|exact (Herr _ _ H)].
    injection H as <- <-. split; [exact Hq3|]. intros rm' it' [= _ <-]. reflexivity.
  - injection H as <- <-. split; [exact Hq3|]. intros rm' it' [= _ <-]. exact Hi.
Qed.

Lemma parse_next_item_wf q r o q' : valid r = true -> forallb iwf q = true -> parse_next_item false q r = Val (o, q') ->
  forallb iwf q' = true /\ forall rm it, o = Some (rm, it) -> iwf it = true.
Proof.
  intros Hv Hq H. unfold parse_next_item in H. destruct (next_char r) as [c0|] eqn:Ec.
  2:{ injection H as <- <-. split; [exact Hq|]. intros rm it E. discriminate. }
  assert (Hne : r <> []) by (intros ->; discriminate).
  destruct (c0 =? 37) eqn:E37; [exact (parse_spec_wf _ _ _ _ Hq H)|].
  destruct (is_whitespace c0) eqn:Ew.
  - apply bind_inv in H. destruct H as (u & _ & H). apply bind_inv in H. destruct H as (it & _ & H).
    apply bind_inv in H. destruct H as (rm & _ & H). injection H as <- <-. split; [exact Hq|]. intros rm' it' [= _ <-]. reflexivity.
  - destruct (run_split (fun c => is_whitespace c || (c =? 37)) r Hv Hne) as (a & b & Es & Ha & Hb & En & Hpos & Hsh).
    { intros x Hx. rewrite Ec in Hx. injection Hx as <-. rewrite Ew, E37. reflexivity. }
    cbv zeta in En. rewrite En in H.
    apply bind_inv in H. destruct H as (u & _ & H). apply bind_inv in H. destruct H as (it & Eit & H).
    apply bind_inv in H. destruct H as (rm & _ & H). injection H as <- <-. split; [exact Hq|]. intros rm' it' [= _ <-].
    rewrite Es, str_to_app in Eit by exact Hb. injection Eit as <-. exact Ha.
Qed.

(** the iterator state of a strict iterator: well-formed remainder, well-formed queued items *)
Definition st_ok (st : sfi) : Prop := sf_lenient st = false /\ rem_ok (sf_remainder st) /\ forallb iwf (sf_queue st) = true.
Lemma sf_next_wf st o st' : st_ok st -> sf_next st = Val (o, st') ->
  st_ok st' /\ forall it, o = Some it -> iwf it = true.
Proof.
  intros (Hl & Hr & Hq) H. destruct (sf_next_ok st Hr) as (o2 & st2 & E2 & Hr2). rewrite H in E2. injection E2 as <- <-.
  unfold sf_next in H. destruct (sf_queue st) as [|item rest] eqn:Eq.
  - rewrite Hl in H. apply bind_inv in H. destruct H as ([ro q] & E & H).
    destruct (parse_next_item_wf [] _ _ _ (proj1 Hr) eq_refl E) as [Hq' Hit].
    destruct ro as [[rm item]|].
    + injection H as <- <-. split; [split; [reflexivity|split; [exact Hr2|exact Hq']]|]. intros it [= <-]. exact (Hit _ _ eq_refl).
    + injection H as <- <-. split; [split; [reflexivity|split; [exact Hr2|exact Hq']]|]. intros it E'. discriminate.
  - injection H as <- <-. cbn [forallb] in Hq. apply andb_prop in Hq. destruct Hq as [Hi Hrest].
    split; [split; [exact Hl|split; [exact Hr2|exact Hrest]]|]. intros it [= <-]. exact Hi.
Qed.
Lemma st_ok_new fmt : valid fmt = true -> blen fmt <= u64_max -> st_ok (sf_new fmt).
Proof. intros Hv Hl. split; [reflexivity|split; [split; assumption|reflexivity]]. Qed.

Theorem yields_wf : forall items st, st_ok st -> Proofs.C13Time.yields st items -> forallb Proofs.C13Total.item_wf items = true.
Proof.
  induction items as [|it r IH]; intros st Hst Hy; [reflexivity|].
  inversion Hy as [|? ? st' ? Hn Hr]; subst. destruct (sf_next_wf _ _ _ Hst Hn) as [Hst' Hit].
  cbn [forallb]. rewrite <- iwf_item_wf, (Hit it eq_refl). exact (IH st' Hst' Hr).
Qed.
