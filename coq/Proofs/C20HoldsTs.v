(** C20 -- the judge accepts the model's output on EVERY case of sd.ts (serialize, carry, deserialize
    through each of the sixteen timestamp modules, both formats, plain values and Option values) and
    sd.tsnone; plus the value form of the round trip: what comes back is the SAME value with its
    fraction cut to the module's precision -- the identity on every value that is a whole number of
    units. *)
From Coq Require Import ZArith List Bool Lia ZifyBool String.
From V Require Import Base.Int Base.IO Base.IntLemmas Spec.Gregorian Model.TimeDelta Model.DateTime Model.Serde Model.C20.
From V Require Model.Date Model.Time Model.C19 Judge.C20 Judge.C09 Proofs.C06 Proofs.C08Sweeps Proofs.C09Holds.
From V Require Import Proofs.HoldsLib Proofs.C02 Proofs.C02Holds Proofs.C02Date Proofs.C20Delta Proofs.C20Ts Proofs.C20Holds.
Import ListNotations.
Open Scope Z_scope.
Ltac Zify.zify_post_hook ::= Z.to_euclidean_division_equations.
Module J := Judge.C20.

(** * the value that comes back: the fraction cut to the unit *)
Definition cut (m : Z) (a : ndt) : ndt := with_frac a (dfrac a - dfrac a mod unit_ns m).

Lemma cut_spec m a : In m (plain_mods ++ option_mods) -> valid_ndt a -> nonleap a ->
  valid_ndt (cut m a) /\ nonleap (cut m a) /\ instant (cut m a) = instant a / unit_ns m * unit_ns m.
Proof.
  intros Hm Hv Hl. pose proof (unit_cases m Hm) as Hu.
  assert (Hf : 0 <= dfrac a < G) by (destruct Hv as [_ [_ Hf]]; unfold nonleap in Hl; lia).
  assert (Hc : 0 <= dfrac a - dfrac a mod unit_ns m < G) by (unfold G in *; destruct Hu as [-> |[-> |[-> | ->]]]; lia).
  destruct (with_frac_valid a _ Hv Hc) as [Hv2 Hl2]. split; [exact Hv2|split; [exact Hl2|]].
  rewrite !instant_secs. unfold cut, with_frac, secs_of, dsecs, dfrac. cbn [nd_date nd_time Time.tsecs Time.tfrac].
  fold (dsecs a). fold (dfrac a). set (S := unix_secs (date_dn (nd_date a)) (dsecs a)).
  unfold G in *. destruct Hu as [-> |[-> |[-> | ->]]]; lia.
Qed.

(* serialize . deserialize on every non-leap value: the value itself, fraction cut to the unit *)
Theorem ts_roundtrip_value m fmt a w : In m plain_mods -> valid_ndt a -> nonleap a -> written m a = SOk w ->
  ts_serialize m a = Val (SOk (SI64 w)) /\ ts_deserialize m (carry fmt (SI64 w)) = Val (SOk (cut m a)).
Proof.
  intros Hm Hv Hl Hw. destruct (ts_roundtrip m fmt a w Hm Hv Hl Hw) as (Hs & _ & a' & Hd & Hv' & Hl' & Hi).
  split; [exact Hs|]. rewrite Hd. do 2 f_equal.
  destruct (cut_spec m a (in_or_app _ _ _ (or_introl Hm)) Hv Hl) as (Hv2 & Hl2 & Hi2).
  apply u_instant_inj; try assumption. rewrite Hi, Hi2. reflexivity.
Qed.
Theorem ts_roundtrip_option_value m fmt a w : In m option_mods -> valid_ndt a -> nonleap a -> written m a = SOk w ->
  ts_serialize_option m (Some a) = Val (SOk (SSome (SI64 w))) /\
  ts_deserialize_option m (carry fmt (SSome (SI64 w))) = Val (SOk (Some (cut m a))) /\
  ts_serialize_option m None = Val (SOk SNone) /\ ts_deserialize_option m (carry fmt SNone) = Val (SOk None).
Proof.
  intros Hm Hv Hl Hw. destruct (ts_roundtrip_option m fmt a w Hm Hv Hl Hw) as ((Hn1 & Hn2) & Hs & _ & a' & Hd & Hv' & Hl' & Hi).
  split; [exact Hs|]. split; [|split; assumption]. rewrite Hd. do 3 f_equal.
  destruct (cut_spec m a (in_or_app _ _ _ (or_intror Hm)) Hv Hl) as (Hv2 & Hl2 & Hi2).
  apply u_instant_inj; try assumption. rewrite Hi, Hi2. reflexivity.
Qed.
(* the identity on every value that is a whole number of units *)
Corollary ts_roundtrip_identity m fmt a w : In m plain_mods -> valid_ndt a -> nonleap a -> written m a = SOk w ->
  dfrac a mod unit_ns m = 0 -> ts_deserialize m (carry fmt (SI64 w)) = Val (SOk a).
Proof.
  intros Hm Hv Hl Hw H0. destruct (ts_roundtrip_value m fmt a w Hm Hv Hl Hw) as [_ Hd]. rewrite Hd.
  unfold cut. rewrite H0, Z.sub_0_r. destruct a as [d [s f]]. reflexivity.
Qed.
Corollary ts_roundtrip_option_identity m fmt a w : In m option_mods -> valid_ndt a -> nonleap a -> written m a = SOk w ->
  dfrac a mod unit_ns m = 0 -> ts_deserialize_option m (carry fmt (SSome (SI64 w))) = Val (SOk (Some a)).
Proof.
  intros Hm Hv Hl Hw H0. destruct (ts_roundtrip_option_value m fmt a w Hm Hv Hl Hw) as (_ & Hd & _). rewrite Hd.
  unfold cut. rewrite H0, Z.sub_0_r. destruct a as [d [s f]]. reflexivity.
Qed.

(** * decoding a case line of the judge's domain *)
Lemma jvalid_time_c09 s f : J.valid_time s f = true -> Judge.C09.valid_time s f = true.
Proof. unfold J.valid_time, Judge.C09.valid_time, J.G. lia. Qed.

Lemma dec_ndt_j y o s f : J.valid_date y o = true -> J.valid_time s f = true ->
  let a := mk_ndt (C08Sweeps.mkdate y o) (Time.mk_time s f) in
  dec_ndt (VTup [VInt y; VInt o; VInt s; VInt f]) = Some a /\ valid_ndt a /\
  instant a = unix_nanos (dn_of_yo y o) s f /\
  (forall f', enc_ndt (with_frac a f') = VTup [VInt y; VInt o; VInt s; VInt f']).
Proof.
  intros Hd Ht a. pose proof (jvalid_time_c09 s f Ht) as Ht9.
  destruct (C09Holds.dec_date_valid y o Hd) as (_ & Hr & _).
  destruct (repr_valid _ _ _ Hr) as [Hvd Hdn]. destruct (repr_fields _ _ _ Hr) as (E1 & E2 & _).
  split; [exact (C09Holds.dec_ndt_valid y o s f Hd Ht9)|]. split.
  - split; [exact Hvd|]. unfold dsecs, dfrac, a, G. cbn [nd_time Time.tsecs Time.tfrac]. unfold Judge.C09.valid_time in Ht9. lia.
  - split.
    + unfold instant, a, dsecs, dfrac. cbn [nd_date nd_time Time.tsecs Time.tfrac]. rewrite Hdn. reflexivity.
    + intros f'. unfold enc_ndt, with_frac, a, dsecs. cbn [nd_date nd_time Time.tsecs Time.tfrac]. rewrite E1, E2. reflexivity.
Qed.

Lemma mods_all m : J.mod_ok m = true -> (In m plain_mods /\ is_option_mod m = false /\ J.is_opt m = false) \/
                                         (In m option_mods /\ is_option_mod m = true /\ J.is_opt m = true).
Proof.
  intros H. assert (Hm : 0 <= m <= 15) by (unfold J.mod_ok in H; lia).
  destruct (mod_cases m Hm) as [Hp|Ho]; [left|right]; (split; [assumption|]).
  - apply plain_not_option; exact Hp.
  - apply option_is_option; exact Ho.
Qed.

(** * sd.ts *)
Lemma judge_ts_eq m fmt v out : J.judge B"sd.ts" [VInt m; VInt fmt; v] out =
  if J.is_badargs out then JSkip
  else if J.mod_ok m && ((fmt =? 0) || (fmt =? 1)) then J.j_ts m v out else JSkip.
Proof. reflexivity. Qed.
Lemma run_ts_eq m fmt v : run B"sd.ts" [VInt m; VInt fmt; v] = if mod_ok m && fmt_ok fmt then ts m fmt v else VBad.
Proof. reflexivity. Qed.

(* one value through one module: what the judge asks of it *)
Lemma j_ts_value_ok m (wrapv : val -> val) (out : val) y o s f :
  In m (plain_mods ++ option_mods) ->
  J.valid_date y o = true -> J.valid_time s f = true -> f < 1000000000 ->
  let a := mk_ndt (C08Sweeps.mkdate y o) (Time.mk_time s f) in
  (forall w, written m a = SOk w -> out = VTup [wrapv (VInt w); wrapv (enc_ndt (cut m a))]) ->
  (written m a = SErr ESerNanos -> out = VErr (serr_name ESerNanos)) ->
  J.j_ts_value m wrapv (VTup [VInt y; VInt o; VInt s; VInt f]) out = JOk.
Proof.
  intros Hm Hd Ht Hf a Hok Herr.
  destruct (dec_ndt_j y o s f Hd Ht) as (_ & Hv & Hi & Henc). fold a in Hv, Hi, Henc.
  unfold J.j_ts_value. rewrite Hd, Ht. cbn [andb]. unfold J.G. replace (f <? 1000000000) with true by lia.
  rewrite unit_of_eq, <- Hi. unfold written in Hok, Herr. cbv zeta in Hok, Herr.
  destruct (in_i64 (instant a / unit_ns m)) eqn:E.
  - rewrite (Hok _ eq_refl). apply hl_judge_eq_of. unfold cut. rewrite Henc. reflexivity.
  - rewrite (Herr eq_refl). reflexivity.
Qed.

Lemma j_ts_value_dom m wrapv v out : J.j_ts_value m wrapv v out <> JSkip ->
  exists y o s f, v = VTup [VInt y; VInt o; VInt s; VInt f] /\ J.valid_date y o = true /\ J.valid_time s f = true /\ f < 1000000000.
Proof.
  unfold J.j_ts_value.
  destruct v as [|?|?|?|[|[y| | | | | | | |] [|[o| | | | | | | |] [|[s| | | | | | | |] [|[f| | | | | | | |] [|? ?]]]]]|?|?|?|?]; try congruence.
  destruct (J.valid_date y o && J.valid_time s f) eqn:Ev; [|congruence].
  destruct (f <? J.G) eqn:Ef; [|congruence]. intros _. unfold J.G in Ef.
  apply andb_prop in Ev. exists y, o, s, f. repeat split; try tauto. lia.
Qed.

Theorem holds_ts m fmt v :
  J.judge B"sd.ts" [VInt m; VInt fmt; v] (run B"sd.ts" [VInt m; VInt fmt; v]) <> JSkip ->
  J.judge B"sd.ts" [VInt m; VInt fmt; v] (run B"sd.ts" [VInt m; VInt fmt; v]) = JOk.
Proof.
  rewrite judge_ts_eq, run_ts_eq.
  destruct (J.is_badargs (if mod_ok m && fmt_ok fmt then ts m fmt v else VBad)) eqn:Eb; [congruence|].
  destruct (J.mod_ok m && ((fmt =? 0) || (fmt =? 1))) eqn:Ed; [|congruence].
  apply andb_prop in Ed. destruct Ed as [Hm Hfmt].
  assert (Hr1 : mod_ok m && fmt_ok fmt = true) by (unfold mod_ok, fmt_ok; unfold J.mod_ok in Hm; lia).
  rewrite Hr1 in *. unfold ts in *.
  destruct (mods_all m Hm) as [(Hp & E1 & E2)|(Hop & E1 & E2)]; rewrite E1 in *; unfold J.j_ts; rewrite E2.
  - (* a plain module *)
    intros Hns. destruct (j_ts_value_dom _ _ _ _ Hns) as (y & o & s & f & -> & Hd & Ht & Hf).
    destruct (dec_ndt_j y o s f Hd Ht) as (Hdec & Hv & Hi & Henc). rewrite Hdec.
    assert (Hl : nonleap (mk_ndt (C08Sweeps.mkdate y o) (Time.mk_time s f))) by (unfold nonleap, dfrac, G; cbn; lia).
    apply (j_ts_value_ok m (fun x => x) _ y o s f (in_or_app _ _ _ (or_introl Hp)) Hd Ht Hf).
    + intros w Hw. destruct (ts_roundtrip_value m fmt _ w Hp Hv Hl Hw) as [Hs Hdd].
      unfold round_trip. rewrite Hs, Hdd. reflexivity.
    + intros Hw. unfold round_trip. rewrite (ts_serialize_spec m _ Hp Hv Hl), Hw. reflexivity.
  - (* an option module *)
    destruct v as [?|?| |x|?|?|?|?|?]; try congruence.
    + intros _. apply hl_judge_eq_of.
      assert (Hn : ts_serialize_option m None = Val (SOk SNone)).
      { unfold ts_serialize_option. rewrite ser_tab by (apply in_or_app; right; exact Hop). reflexivity. }
      destruct (ts_deserialize_option_spec m 0 Hop) as (Dn & _).
      unfold round_trip. rewrite Hn. cbn [enc_payload]. unfold carry. destruct (fmt =? 0); cbn [carry_json]; rewrite Dn; reflexivity.
    + intros Hns. destruct (j_ts_value_dom _ _ _ _ Hns) as (y & o & s & f & -> & Hd & Ht & Hf).
      destruct (dec_ndt_j y o s f Hd Ht) as (Hdec & Hv & Hi & Henc). rewrite Hdec.
      assert (Hl : nonleap (mk_ndt (C08Sweeps.mkdate y o) (Time.mk_time s f))) by (unfold nonleap, dfrac, G; cbn; lia).
      apply (j_ts_value_ok m VSome _ y o s f (in_or_app _ _ _ (or_intror Hop)) Hd Ht Hf).
      * intros w Hw. destruct (ts_roundtrip_option_value m fmt _ w Hop Hv Hl Hw) as (Hs & Hdd & _).
        unfold round_trip. rewrite Hs, Hdd. reflexivity.
      * intros Hw. unfold round_trip. rewrite (proj2 (ts_serialize_option_spec m _ Hop Hv Hl)), Hw. reflexivity.
Qed.

(** * sd.tsnone *)
Theorem holds_tsnone m fmt kind :
  J.judge B"sd.tsnone" [VInt m; VInt fmt; VInt kind] (run B"sd.tsnone" [VInt m; VInt fmt; VInt kind]) <> JSkip ->
  J.judge B"sd.tsnone" [VInt m; VInt fmt; VInt kind] (run B"sd.tsnone" [VInt m; VInt fmt; VInt kind]) = JOk.
Proof.
  change (J.judge B"sd.tsnone" [VInt m; VInt fmt; VInt kind] (run B"sd.tsnone" [VInt m; VInt fmt; VInt kind])) with
    (let out := if mod_ok m then tsnone m fmt kind else VBad in
     if J.is_badargs out then JSkip
     else if J.mod_ok m && J.is_opt m && (0 <=? fmt) && (fmt <=? 2) && ((kind =? 0) || (kind =? 1))
          then judge_eq VNone out else JSkip).
  cbv zeta. destruct (J.is_badargs (if mod_ok m then tsnone m fmt kind else VBad)) eqn:Eb; [congruence|].
  destruct (J.mod_ok m && J.is_opt m && (0 <=? fmt) && (fmt <=? 2) && ((kind =? 0) || (kind =? 1))) eqn:Ed; [|congruence].
  intros _. apply hl_judge_eq_of.
  assert (Hm : J.mod_ok m = true) by (destruct (J.mod_ok m); [reflexivity|discriminate Ed]).
  destruct (mods_all m Hm) as [(Hp & E1 & E2)|(Hop & E1 & E2)]; [rewrite Hm, E2 in Ed; discriminate Ed|].
  replace (mod_ok m) with true in * by (unfold mod_ok; unfold J.mod_ok in Hm; lia).
  unfold tsnone in *. rewrite E1 in *. cbn [negb] in *.
  destruct (ts_deserialize_option_spec m 0 Hop) as (Dn & Du & _).
  destruct ((kind =? 0) && ((fmt =? 0) || (fmt =? 1) || (fmt =? 2))) eqn:K0; [rewrite Dn; reflexivity|].
  destruct ((kind =? 1) && (fmt =? 2)) eqn:K1; [rewrite Du; reflexivity|]. discriminate Eb.
Qed.
