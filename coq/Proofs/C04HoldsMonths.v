(** C04 — judge acceptance for month stepping (z.months, z.opmonths): the judge's calendar month
    arithmetic against [month_target_id]; a target year outside the nominal range is the first open
    class of [moved].  Continues Proofs/C04HoldsMoved.v. *)
From Coq Require Import ZArith List Bool Lia ZifyBool String.
From V Require Import Base.Int Base.IntLemmas Base.IO Gen.DateTimeConsts Spec.Gregorian Model.TimeDelta.
From V Require Model.Date Model.Time Judge.C04 Proofs.GregorianForms Proofs.C08Days.
From V Require Import Model.DateTime Model.C04 Proofs.C04 Proofs.C04Date Proofs.C04Wide Proofs.C04Ops
  Proofs.C04Holds Proofs.HoldsLib Proofs.C04HoldsMoved.
Import ListNotations.
Open Scope Z_scope.
Ltac Zify.zify_post_hook ::= Z.to_euclidean_division_equations.

Module J := V.Judge.C04.

(** * month stepping *)
Lemma dn_of_ymd_range y m d : valid_ymd y m d = true -> dn_in_range (dn_of_ymd y m d) = year_in_range y.
Proof.
  intros Hv. unfold valid_ymd in Hv. unfold dn_of_ymd.
  destruct (GregorianForms.ordinal_of_md_valid (is_leap y) m d ltac:(lia) ltac:(lia)) as [Ho _].
  apply C08Days.dn_in_range_iff. unfold valid_yo, days_in_year. destruct (is_leap y); lia.
Qed.
Lemma dim_ge l m : 28 <= days_in_month l m.
Proof. unfold days_in_month. destruct (m =? 2); [destruct l; lia|]. destruct ((m =? 4) || (m =? 6) || (m =? 9) || (m =? 11)); lia. Qed.

Lemma mt_unfold q n k y mo d : ymd_of_dn q = (y, mo, d) ->
  month_target_id q n k =
  if n =? 0 then Some q
  else if year_in_range ((12 * y + (mo - 1) + k) / 12)
       then Some (dn_of_ymd ((12 * y + (mo - 1) + k) / 12) ((12 * y + (mo - 1) + k) mod 12 + 1)
                   (Z.min d (days_in_month (is_leap ((12 * y + (mo - 1) + k) / 12)) ((12 * y + (mo - 1) + k) mod 12 + 1))))
       else None.
Proof. intros E. unfold month_target_id, month_target. rewrite E. reflexivity. Qed.

Lemma months_core a (add : bool) n y mo d : dtz_ok a -> in_u32 n = true ->
  ymd_of_dn (wall a / 86400) = (y, mo, d) ->
  let tot := y * 12 + (mo - 1) + (if add then 1 else -1) * n in
  let y' := tot / 12 in let m' := tot mod 12 + 1 in
  let d' := Z.min d (days_in_month (is_leap y') m') in
  checked_ok a (dn_of_ymd y' m' d' * 86400 + wall a mod 86400) (frac (dz_utc a))
    (if add then dz_checked_add_months a n else dz_checked_sub_months a n).
Proof.
  intros Ha Hn Ey. cbv zeta.
  assert (Hn0 : 0 <= n) by (unfold in_u32, in_range in Hn; lia).
  pose proof (GregorianForms.ymd_of_dn_valid (wall a / 86400)) as V. rewrite Ey in V. destruct V as [Vv Vd].
  pose proof Vv as Vb. unfold valid_ymd in Vb.
  pose proof (months_all add a n Ha Hn) as P. cbv zeta in P.
  rewrite (mt_unfold _ n (if add then n else - n) y mo d Ey) in P.
  assert (Et : 12 * y + (mo - 1) + (if add then n else - n) = y * 12 + (mo - 1) + (if add then 1 else -1) * n)
    by (destruct add; lia).
  rewrite Et in P. clear Et.
  remember (y * 12 + (mo - 1) + (if add then 1 else -1) * n) as tot eqn:Et.
  remember (tot / 12) as y' eqn:Ey'. remember (tot mod 12 + 1) as m' eqn:Em'.
  remember (Z.min d (days_in_month (is_leap y') m')) as d' eqn:Ed'.
  destruct (n =? 0) eqn:E0.
  - assert (n = 0) by lia. subst n.
    assert (Hy : y' = y) by (clear - Et Ey' Vb; destruct add; lia).
    assert (Hm : m' = mo) by (clear - Et Em' Vb; destruct add; lia).
    rewrite Hy, Hm in Ed'. assert (Hd : d' = d) by (clear - Ed' Vb; lia).
    rewrite Hy, Hm, Hd, Vd.
    assert (Hr : in_rng (wall a / 86400 * 86400 + wall a mod 86400 - dz_off a) = true).
    { replace (wall a / 86400 * 86400 + wall a mod 86400 - dz_off a) with (usecs (dz_utc a)) by (unfold wall; lia).
      apply (ndt_ok_range HD _ (proj1 Ha)). }
    rewrite Hr in P. left. exact P.
  - destruct (year_in_range y') eqn:Eyr.
    + destruct (in_rng (dn_of_ymd y' m' d' * 86400 + wall a mod 86400 - dz_off a)) eqn:Er.
      * left. exact P.
      * right. split; [exact P|]. left. exact Er.
    + right. split; [exact P|]. right. left.
      assert (Hm' : 1 <= m' <= 12) by (clear - Em'; lia).
      pose proof (dim_ge (is_leap y') m') as Hdim.
      assert (Hv' : valid_ymd y' m' d' = true) by (unfold valid_ymd; clear - Hm' Hdim Ed' Vb; lia).
      apply (open1_intro _ _ _ (dn_of_ymd y' m' d')); [lia| |rewrite (dn_of_ymd_range _ _ _ Hv'); exact Eyr].
      fold (wall a). intros E.
      pose proof (GregorianForms.ymd_of_dn_of_ymd y' m' d' Hv') as R. rewrite E, Ey in R.
      injection R as R1 R2 R3. clear - R1 R2 Et Ey' Em' E0 Hn0 Vb. destruct add; lia.
Qed.

Theorem holds_months a sign n : dtz_ok a -> (sign =? 1) || (sign =? -1) = true -> in_u32 n = true ->
  J.judge B"z.months" [enc_dtz a; VInt sign; VInt n] (run B"z.months" [enc_dtz a; VInt sign; VInt n]) = JOk.
Proof.
  intros Ha Hs Hn.
  change (run B"z.months" [enc_dtz a; VInt sign; VInt n]) with
    (match dec_dtz (enc_dtz a), arg_u32 (VInt n) with
     | Some x, Some k =>
         if sign =? 1 then val_of_R vo_dtz (dz_checked_add_months x k)
         else if sign =? -1 then val_of_R vo_dtz (dz_checked_sub_months x k) else VBad
     | _, _ => VBad end).
  rewrite (dec_dtz_enc a Ha), (arg_u32_int n Hn).
  match goal with |- J.judge _ _ ?out = _ =>
    change (J.judge B"z.months" [enc_dtz a; VInt sign; VInt n] out) with
      (match J.z_of_arg (enc_dtz a) with
       | Some (u, f, off) =>
           if ((sign =? 1) || (sign =? -1)) && in_u32 n then
             let w := u + off in
             let '(y, m, d) := ymd_of_dn (w / J.DAY) in
             let tot := y * 12 + (m - 1) + sign * n in
             let y' := tot / 12 in let m' := tot mod 12 + 1 in
             let d' := Z.min d (days_in_month (is_leap y') m') in
             J.moved VSome VNone u off (dn_of_ymd y' m' d' * J.DAY + w mod J.DAY) f out
           else JSkip
       | None => JSkip end) end.
  rewrite (j_z a Ha), Hs, Hn. cbn [andb]. cbv zeta. fold (wall a). unfold J.DAY.
  destruct (ymd_of_dn (wall a / 86400)) as [[y mo] d] eqn:Ey.
  destruct (sign_cases sign Hs) as [[-> E1] | [-> [E1 E2]]].
  - cbn [Z.eqb Pos.eqb]. apply (moved_checked a _ _ _ (months_core a true n y mo d Ha Hn Ey)).
  - cbn [Z.eqb Pos.eqb]. apply (moved_checked a _ _ _ (months_core a false n y mo d Ha Hn Ey)).
Qed.

Theorem holds_opmonths a sign n : dtz_ok a -> (sign =? 1) || (sign =? -1) = true -> in_u32 n = true ->
  J.judge B"z.opmonths" [enc_dtz a; VInt sign; VInt n] (run B"z.opmonths" [enc_dtz a; VInt sign; VInt n]) = JOk.
Proof.
  intros Ha Hs Hn.
  change (run B"z.opmonths" [enc_dtz a; VInt sign; VInt n]) with
    (match dec_dtz (enc_dtz a), arg_u32 (VInt n) with
     | Some x, Some k =>
         if sign =? 1 then val_of_R enc_dtz (dz_op_add_months x k)
         else if sign =? -1 then val_of_R enc_dtz (dz_op_sub_months x k) else VBad
     | _, _ => VBad end).
  rewrite (dec_dtz_enc a Ha), (arg_u32_int n Hn).
  match goal with |- J.judge _ _ ?out = _ =>
    change (J.judge B"z.opmonths" [enc_dtz a; VInt sign; VInt n] out) with
      (match J.z_of_arg (enc_dtz a) with
       | Some (u, f, off) =>
           if ((sign =? 1) || (sign =? -1)) && in_u32 n then
             let w := u + off in
             let '(y, m, d) := ymd_of_dn (w / J.DAY) in
             let tot := y * 12 + (m - 1) + sign * n in
             let y' := tot / 12 in let m' := tot mod 12 + 1 in
             let d' := Z.min d (days_in_month (is_leap y') m') in
             J.moved (fun v => v) VPanic u off (dn_of_ymd y' m' d' * J.DAY + w mod J.DAY) f out
           else JSkip
       | None => JSkip end) end.
  rewrite (j_z a Ha), Hs, Hn. cbn [andb]. cbv zeta. fold (wall a). unfold J.DAY.
  destruct (ymd_of_dn (wall a / 86400)) as [[y mo] d] eqn:Ey.
  destruct (sign_cases sign Hs) as [[-> E1] | [-> [E1 E2]]].
  - cbn [Z.eqb Pos.eqb]. apply (moved_op a _ _ _ (months_core a true n y mo d Ha Hn Ey)).
  - cbn [Z.eqb Pos.eqb]. apply (moved_op a _ _ _ (months_core a false n y mo d Ha Hn Ey)).
Qed.
