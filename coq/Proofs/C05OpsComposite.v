(** C05: the lookup contract of Proofs/C05Ops.v for COMPOSITE zones (a transition table followed by
    a footer rule).  Zone-level hypotheses: the wide continuity condition [footer_continues_wide]
    with the property's premise in the (at most two) calendar years met by the last table
    transition (C05_judge_spacing_footer_wide derives the condition from the judge's
    [spacing_rule_table]).  Per reading: ONLY what the judge itself asks -- in particular, past the
    last table window, the premise in the judge's years y-2..y+2 ([composite_classification_join5]
    replaces the y-3..y+2 of C05_composite_classification_wide by the year formula of
    C05_rule_is_dst_year_judge_premise). *)
From Coq Require Import ZArith List Bool Lia ZifyBool String.
From V Require Import Base.Int Base.IO Spec.Gregorian Spec.Zone.
From V Require Import Model.TzParser Model.TzRule Model.TzLookup Model.C05.
From V Require Import Proofs.TzCommon Proofs.TzEval Proofs.C05 Proofs.C05Composite Proofs.C05Glue Proofs.C05Judge Proofs.C05Wide Proofs.C05Full Proofs.C05Holds Proofs.C05Ops Proofs.C05OpsZones.
Import ListNotations.
Open Scope Z_scope.
Ltac Zify.zify_post_hook ::= Z.to_euclidean_division_equations.

(* what is needed of a reading past the last table window: the judge's premise gives it *)
Definition rule_reading_hyps5 (a : alt_time) (l : Z) : Prop :=
  let k := utc_year l in
  -2147483650 <= k <= 2147483650 /\ year_formula (conv_rule a) k /\
  ordered (windows (offs (fst (year_table a k))) (ut_offset (snd (year_table a k)))) = true.

Theorem composite_classification_join5 z ps first a tl pv ol l :
  let k := utc_year l in let r := conv_rule a in
  let cz := mk_szone (ut_offset first) (offs ps) (Some (inr r)) in
  table_zone z ps first -> extra_rule z = Some (Alternate a) -> alt_ok a -> r_std r <> r_dst r ->
  increasing (offs ps) = true -> spacing_table (offs ps) (ut_offset first) = true ->
  last_window (offs ps) (ut_offset first) = Some (tl, pv, ol) -> join_facts r tl pv ol ->
  (tl + Z.max pv ol < l -> rule_reading_hyps5 a l) ->
  excepted_wall cz l = false ->
  exists m, find_local_time_type_from_local z k l = Val (Ok m) /\ classified cz l m.
Proof.
  intros k r cz Hz Hr Ha Hne Hinc Hsp Hlw Hjoin Hrl Hex.
  unfold spacing_table in Hsp.
  destruct (composite_instants_join (ut_offset first) (offs ps) r tl pv ol l Hinc Hsp Hlw Hjoin) as [HA HB].
  unfold excepted_wall, cz in Hex. cbn [z_trans z_first z_rule] in Hex. apply orb_false_elim in Hex.
  destruct Hex as [Hext Hexr].
  rewrite (from_local_scan z ps first k l Hz), Hr.
  destruct (scanL ps first l) as [m|last] eqn:Es.
  - exists m. split; [reflexivity|].
    pose proof (scanL_inl _ _ _ _ _ _ _ Hsp Es Hlw) as Hl.
    apply (classified_ext cz (mk_szone (ut_offset first) (offs ps) None)); [exact (HA Hl)|].
    pose proof (table_classification ps first l Hinc Hsp Hext) as H. cbv zeta in H.
    unfold table_answer in H. rewrite Es in H. unfold classified. cbv zeta.
    destruct m as [|x|x y].
    + destruct (instants_of_wall (mk_szone (ut_offset first) (offs ps) None) l) as [|t rest] eqn:E; [reflexivity|].
      exfalso. apply (H t). apply instants_of_wall_table. rewrite E. left. reflexivity.
    + destruct H as [Hx Hu]. intros t. rewrite instants_of_wall_table. split; [apply Hu|intros ->; exact Hx].
    + destruct H as (Hx & Hy & Hlt & Hu). split; [exact Hlt|]. intros t. rewrite instants_of_wall_table.
      split; [apply Hu|intros [-> | ->]; assumption].
  - destruct (scanL_inr _ _ _ _ _ _ _ Es Hlw) as [Hl _].
    destruct (Hrl Hl) as (Hk & Hyk & Hyo). fold k in Hk, Hyk, Hyo.
    set (z0 := mk_tz [] [first] [] (Some (Alternate a))).
    pose proof (rule_zone_classification_gen z0 a first l eq_refl eq_refl eq_refl Ha Hk Hne Hyk) as Hc.
    pose proof (from_local_rule_zone z0 a first k l eq_refl eq_refl eq_refl Ha Hk Hne) as Hm0.
    pose proof (rule_local_as_table a k l Ha Hk Hne) as Hm.
    pose proof (excepted_wall_year_table a (ut_offset first) l) as Hey.
    cbv zeta in Hc, Hey. fold k r in Hc, Hey.
    destruct (year_table a k) as [yps yprev]. cbn [fst snd] in Hyo.
    assert (Hexy : excepted_table (offs yps) (ut_offset yprev) l = false).
    { apply Hey. unfold excepted_wall. cbn [z_trans z_first z_rule excepted_table orb]. exact Hexr. }
    specialize (Hc Hyo Hexy). specialize (Hm0 Hyo Hexy). specialize (Hm Hyo Hexy).
    destruct Hc as (m & Hm0' & Hcl). rewrite Hm0 in Hm0'. injection Hm0' as <-.
    exists (table_answer yps yprev l). split.
    + cbn [rule_find_local_time_type_from_local]. rewrite Hm. reflexivity.
    + apply (classified_ext cz (mk_szone (ut_offset first) [] (Some (inr r)))); [exact (HB Hl)|exact Hcl].
Qed.

(* the judge's conditions on a composite zone, read once *)
Lemma in_dom_composite first tr r tl pv ol x : last_window tr first = Some (tl, pv, ol) ->
  J.in_dom (mk_szone first tr (Some (inr r))) x =
  J.ts_ok x && (if x + 259200 <? tl then true else J.premise_at r x).
Proof.
  intros H. unfold J.in_dom, J.rule_dom. cbn [z_rule z_trans].
  rewrite (last_window_last_trans _ _ _ _ _ H). reflexivity.
Qed.
Lemma spacing_ok_composite first tr r w :
  J.spacing_ok (mk_szone first tr (Some (inr r))) w =
  spacing_table tr first && (J.spacing_rule_self r (utc_year w) && J.spacing_rule_table (mk_szone first tr (Some (inr r))) r).
Proof. reflexivity. Qed.

Lemma rt_excepted_composite first tr r l tl pv ol : last_window tr first = Some (tl, pv, ol) ->
  rt_excepted (mk_szone first tr (Some (inr r))) l = excepted_wall (mk_szone first tr (Some (inr r))) l.
Proof. intros H. unfold rt_excepted. cbn [z_trans z_rule]. destruct tr; [discriminate|reflexivity]. Qed.

(* a classification decides the round trip *)
Lemma classified_rt sz l m t : classified sz l m -> In t (instants_of_wall sz l) ->
  contains m (l - t) /\ (forall o', contains m o' -> In o' (zone_offsets sz)) /\
  (forall a b, m = MAmbiguous a b -> ut_offset a > ut_offset b).
Proof.
  unfold classified. cbv zeta. intros Hc Hin.
  assert (Hoff : forall x, In (l - ut_offset x) (instants_of_wall sz l) -> In (ut_offset x) (zone_offsets sz)).
  { intros x Hx. apply instants_of_wall_spec in Hx. destruct Hx as [_ Hx].
    replace (l - (l - ut_offset x)) with (ut_offset x) in Hx by lia. exact Hx. }
  destruct m as [|x|x y]; cbn [contains].
  - rewrite Hc in Hin. contradiction.
  - split; [apply Hc in Hin; lia|]. split; [|intros a b E; discriminate].
    intros o' <-. apply Hoff. apply Hc. reflexivity.
  - destruct Hc as [Hlt Hc]. split; [apply Hc in Hin; lia|]. split.
    + intros o' [<- | <-]; apply Hoff; apply Hc; auto.
    + intros a b E. injection E as <- <-. lia.
Qed.

Section Composite.
  Variables (zone : timezone) (ps : list (Z * ltt)) (first : ltt) (a : alt_time).
  Let r := conv_rule a.
  Let cz := mk_szone (ut_offset first) (offs ps) (Some (inr r)).
  Hypothesis Hz : table_zone zone ps first.
  Hypothesis Hl : leap_seconds zone = [].
  Hypothesis Hr : extra_rule zone = Some (Alternate a).
  Hypothesis Ha : alt_ok a.
  Hypothesis Hne : r_std r <> r_dst r.
  Hypothesis Hinc : increasing (offs ps) = true.
  Hypothesis Hlen : zlen (transitions zone) < 4611686018427387904.
  Hypothesis Hfc : footer_continues_wide cz = true.
  Hypothesis Hy1 : rule_year_hyps r (footer_year_lo cz).
  Hypothesis Hy2 : rule_year_hyps r (footer_year_hi cz).

  Lemma comp_offs : J.fo_ok (r_std r) = true /\ J.fo_ok (r_dst r) = true.
  Proof. destruct Hy1 as (O1 & O2 & _). unfold J.fo_ok. lia. Qed.

  (* wall reading -> classified answer, on the judge's domain *)
  Lemma comp_classified w : J.spacing_ok cz w = true -> J.in_dom cz w = true ->
    excepted_wall cz w = false ->
    exists m, find_local_time_type_from_local zone (utc_year w) w = Val (Ok m) /\ classified cz w m.
  Proof.
    intros Hsp Hdom Hex.
    destruct (footer_continues_wide_last _ _ _ Hfc) as (tl & pv & ol & Hlw).
    pose proof (footer_facts_wide _ _ _ _ _ _ Hlw Hfc Hy1 Hy2) as Hjoin.
    unfold cz in Hsp, Hdom. rewrite spacing_ok_composite in Hsp. rewrite (in_dom_composite _ _ _ _ _ _ _ Hlw) in Hdom.
    apply andb_prop in Hsp. destruct Hsp as [Hst Hsp]. apply andb_prop in Hsp. destruct Hsp as [Hself _].
    apply andb_prop in Hdom. destruct Hdom as [Hts Hp].
    apply (composite_classification_join5 zone ps first a tl pv ol w Hz Hr Ha Hne Hinc Hst Hlw Hjoin); [|exact Hex].
    intros Hpast.
    assert (Hol : -86400 < ol < 86400).
    { destruct Hjoin as (Hc & _). destruct Hy1 as (O1 & O2 & _). fold r in Hc. unfold roff in Hc.
      destruct (rule_is_dst r tl); lia. }
    replace (w + 259200 <? tl) with false in Hp by lia.
    destruct comp_offs as [O1 O2].
    exact (judge_rule_reading a w Ha Hts Hp Hself (fo_ok_bounds _ O1) (fo_ok_bounds _ O2)).
  Qed.

  Theorem lookup_composite : lookup_ok zone cz.
  Proof.
    destruct (footer_continues_wide_last _ _ _ Hfc) as (tl & pv & ol & Hlw).
    pose proof (footer_facts_wide _ _ _ _ _ _ Hlw Hfc Hy1 Hy2) as Hjoin.
    destruct comp_offs as [O1 O2].
    split.
    - intros t o Hsp Hd Ho. unfold at_spaced, cz in Hsp. cbn [z_rule] in Hsp.
      unfold cz in Hd. rewrite (in_dom_composite _ _ _ _ _ _ _ Hlw) in Hd.
      apply andb_prop in Hd. destruct Hd as [Hts Hp].
      assert (Hh : tl <= t -> rule_hyps a t).
      { intros Hle. replace (t + 259200 <? tl) with false in Hp by lia.
        exact (judge_rule_instant a t Ha Hts Hp Hsp O1 O2). }
      destruct (offset_at_composite_full zone ps first a tl pv ol t Hz Hl Hr Hinc Hlen Hlw Hh) as (lt & Hlt & _ & Hzo).
      exists lt. split; [exact Hlt|]. fold r cz in Hzo. destruct Hzo as [Hzo|(_ & Hzo & _)]; rewrite Ho in Hzo.
      + injection Hzo as ->. reflexivity.
      + discriminate.
    - intros w l Hsp He. destruct (expected_loc_dom _ _ _ He) as (Hdom & _ & Hex).
      destruct (comp_classified w Hsp Hdom Hex) as (m & Hm & Hc).
      exists m. split; [exact Hm|]. exact (expected_loc_classified cz w l m He Hc).
    - intros t o Hsp _ Ho Hd2 _ Hexc.
      assert (Hex : excepted_wall cz (t + o) = false).
      { unfold cz in Hexc |- *. rewrite (rt_excepted_composite _ _ _ _ _ _ _ Hlw) in Hexc. exact Hexc. }
      destruct (comp_classified (t + o) Hsp Hd2 Hex) as (m & Hm & Hc).
      exists m. split; [exact Hm|].
      assert (Hin : In t (instants_of_wall cz (t + o))).
      { apply instants_of_wall_spec. replace (t + o - t) with o by lia. split; [exact Ho|].
        destruct Hjoin as (Hc1 & _). fold r in Hc1.
        unfold cz in Ho. rewrite (zone_off_composite _ _ _ _ _ _ t Hinc Hlw Hc1) in Ho. injection Ho as <-.
        destruct (t <? tl); [apply table_off_in_composite|apply roff_in_offsets]. }
      pose proof (classified_rt cz (t + o) m t Hc Hin) as K.
      replace (t + o - t) with o in K by lia. exact K.
  Qed.
End Composite.
