(** Local facts about the shared calendar model (Model/Date.v) that the C08 theorems need, part 1:
    bit lemmas for packed words, periodicity of the calendar in the year, the year-flags table, and
    the finite sweeps (complete enumerations, lifted with Base/Lift.v) over the low 13 bits of a
    date word and over the month/day/flags words.  To be reconciled with Proofs/Date.v (C01). *)
From Coq Require Import ZArith List Bool Lia ZifyBool.
From V Require Import Base.Int Base.IntLemmas Base.Bits Base.Lift Base.Table Gen.DateTables
  Spec.Gregorian Model.Date.
Import ListNotations.
Open Scope Z_scope.
Ltac Zify.zify_post_hook ::= Z.to_euclidean_division_equations.

(** * Bits: [land] of a packed word splits into the two parts *)
Lemma testbit_small lo k n : 0 <= lo < 2 ^ k -> k <= n -> Z.testbit lo n = false.
Proof.
  intros Hlo Hn. destruct (Z.eq_dec lo 0) as [->|Hne]; [apply Z.bits_0|].
  apply Z.bits_above_log2; [lia|]. apply Z.lt_le_trans with k; [|lia]. apply Z.log2_lt_pow2; lia.
Qed.
Lemma land_split hi lo k m : 0 <= k -> 0 <= lo < 2 ^ k ->
  Z.land (hi * 2 ^ k + lo) m = Z.land hi (Z.shiftr m k) * 2 ^ k + Z.land lo (m mod 2 ^ k).
Proof.
  intros Hk Hlo.
  assert (Hp : 0 < 2 ^ k) by (apply Z.pow_pos_nonneg; lia).
  assert (Hl2 : 0 <= Z.land lo (m mod 2 ^ k) < 2 ^ k).
  { assert (Hm : 0 <= m mod 2 ^ k) by (apply Z.mod_pos_bound; lia).
    assert (H0 : 0 <= Z.land lo (m mod 2 ^ k)) by (apply Z.land_nonneg; lia).
    split; [exact H0|].
    destruct (Z.eq_dec (Z.land lo (m mod 2 ^ k)) 0) as [->|Hne]; [lia|].
    destruct (Z.eq_dec lo 0) as [->|Hne2]; [rewrite Z.land_0_l in Hne; lia|].
    apply Z.log2_lt_pow2; [lia|].
    pose proof (Z.log2_land lo (m mod 2 ^ k) ltac:(lia) Hm) as Hl.
    assert (Z.log2 lo < k) by (apply Z.log2_lt_pow2; lia). lia. }
  rewrite <- !lor_disjoint by assumption.
  apply Z.bits_inj'. intros n Hn.
  rewrite Z.land_spec, !Z.lor_spec, Z.land_spec.
  destruct (Z_lt_dec n k) as [Hlt|Hge].
  - rewrite !Z.shiftl_spec_low by lia. cbn [orb].
    rewrite Z.mod_pow2_bits_low by lia. reflexivity.
  - rewrite !Z.shiftl_spec_high by lia.
    rewrite (testbit_small lo k n) by lia. cbn [andb].
    rewrite !orb_false_r, Z.land_spec, Z.shiftr_spec by lia.
    replace (n - k + k) with n by lia. reflexivity.
Qed.

(** * Periodicity of the calendar in the year *)
Lemma is_leap_mod y : is_leap y = is_leap (y mod 400).
Proof. unfold is_leap. lia. Qed.
Lemma days_before_year_mod y : days_before_year y = days_before_year (y mod 400) + 146097 * (y / 400).
Proof. unfold days_before_year. lia. Qed.
Lemma days_in_year_mod y : days_in_year y = days_in_year (y mod 400).
Proof. unfold days_in_year. rewrite is_leap_mod. reflexivity. Qed.

(** * Year flags *)
Definition yflags (y : Z) : Z := match tfind YEAR_TO_FLAGS (y mod 400) with Some f => f | None => 0 end.

Definition flags_ok (r : Z) : bool :=
  let f := yflags r in
  match tfind YEAR_TO_FLAGS r with Some f' => f' =? f | None => false end
  && (1 <=? f) && (f <=? 15) && negb (Z.land f 7 =? 0)
  && Bool.eqb (Z.land f 8 =? 0) (is_leap r)
  && ((1 + Z.land f 7) mod 7 =? weekday_of_dn (dn_of_yo r 1)).
Lemma flags_sweep : forall_range flags_ok 0 400 = true.
Proof. vm_compute. reflexivity. Qed.
Lemma flags_ok_r r : 0 <= r < 400 -> flags_ok r = true.
Proof. intros H. apply (forall_range_spec _ _ _ flags_sweep). lia. Qed.

Lemma yflags_mod y : yflags y = yflags (y mod 400).
Proof. unfold yflags. rewrite Z.mod_mod by lia. reflexivity. Qed.

Lemma yflags_facts y :
  let f := yflags y in
  tfind YEAR_TO_FLAGS (y mod 400) = Some f /\ 1 <= f <= 15 /\ Z.land f 7 <> 0 /\
  (Z.land f 8 =? 0) = is_leap y /\
  forall o, (o + Z.land f 7) mod 7 = weekday_of_dn (dn_of_yo y o).
Proof.
  intros f. pose proof (flags_ok_r (y mod 400) ltac:(lia)) as H.
  unfold flags_ok in H. rewrite <- yflags_mod in H. fold f in H.
  destruct (tfind YEAR_TO_FLAGS (y mod 400)) as [f'|] eqn:E; [|discriminate H].
  repeat (apply andb_prop in H; destruct H as [H ?]).
  assert (f' = f) by lia. subst f'.
  split; [reflexivity|]. split; [lia|]. split; [lia|]. split.
  - rewrite is_leap_mod. apply eqb_prop. assumption.
  - intros o. unfold weekday_of_dn, dn_of_yo in *. rewrite days_before_year_mod.
    set (b := days_before_year (y mod 400)) in *. set (w := Z.land f 7) in *. lia.
Qed.

Lemma yf_from_year_spec y : in_i32 y = true -> yf_from_year y = Val (yflags y).
Proof.
  intros Hy. unfold yf_from_year. rewrite rem_euclid_pos by lia.
  replace (in_i32 (y / 400)) with true by (unfold in_i32, in_range, i32_min, i32_max in *; lia).
  cbv [bind]. unfold yf_from_year_mod_400, tget.
  rewrite as_u64_id by (unfold in_u64, in_range, u64_max; lia).
  destruct (yflags_facts y) as [E _]. rewrite E. reflexivity.
Qed.

(** * The packed word as arithmetic *)
Definition mkdate (y o : Z) : Z := y * 8192 + (o * 16 + yflags y).
Definition repr (y o d : Z) : Prop :=
  year_in_range y = true /\ valid_yo y o = true /\ d = mkdate y o.

Lemma land_lo y lo m : 0 <= lo < 8192 -> 0 <= m < 8192 -> Z.land (y * 8192 + lo) m = Z.land lo m.
Proof.
  intros Hlo Hm. change 8192 with (2 ^ 13). rewrite land_split by (change (2 ^ 13) with 8192; lia).
  rewrite Z.shiftr_div_pow2 by lia. change (2 ^ 13) with 8192.
  rewrite Z.div_small, Z.land_0_r, Z.mod_small by lia. reflexivity.
Qed.
Lemma land_lnot_lo y lo m : 0 <= lo < 8192 -> 0 <= m < 8192 ->
  Z.land (y * 8192 + lo) (Z.lnot m) = y * 8192 + Z.land lo (8191 - m).
Proof.
  intros Hlo Hm. change 8192 with (2 ^ 13). rewrite land_split by (change (2 ^ 13) with 8192; lia).
  rewrite Z.shiftr_div_pow2 by lia. change (2 ^ 13) with 8192.
  unfold Z.lnot, Z.pred. replace ((- m + -1) / 8192) with (-1) by lia.
  rewrite Z.land_m1_r. replace ((- m + -1) mod 8192) with (8191 - m) by lia. reflexivity.
Qed.
Lemma lor_bound a b k : 0 <= k -> 0 <= a < 2 ^ k -> 0 <= b < 2 ^ k -> 0 <= Z.lor a b < 2 ^ k.
Proof.
  intros Hk Ha Hb. assert (H0 : 0 <= Z.lor a b) by (apply Z.lor_nonneg; lia).
  split; [exact H0|].
  destruct (Z.eq_dec (Z.lor a b) 0) as [->|Hne]; [lia|].
  assert (Hl : forall x, 0 <= x < 2 ^ k -> 0 < k -> Z.log2 x < k).
  { intros x Hx Hk0. destruct (Z.eq_dec x 0) as [->|Hx0]; [cbn; lia|]. apply Z.log2_lt_pow2; lia. }
  destruct (Z.eq_dec k 0) as [->|Hk0].
  { change (2 ^ 0) with 1 in *. assert (a = 0) by lia. assert (b = 0) by lia. subst. cbn in Hne. lia. }
  apply Z.log2_lt_pow2; [lia|]. rewrite Z.log2_lor by lia.
  pose proof (Hl a Ha ltac:(lia)). pose proof (Hl b Hb ltac:(lia)). lia.
Qed.
Lemma lor_lo y a b : 0 <= a < 8192 -> 0 <= b < 8192 -> Z.lor (y * 8192 + a) b = y * 8192 + Z.lor a b.
Proof.
  intros Ha Hb.
  pose proof (lor_bound a b 13 ltac:(lia) ltac:(change (2 ^ 13) with 8192; lia) ltac:(change (2 ^ 13) with 8192; lia)) as Hab.
  change (y * 8192) with (y * 2 ^ 13).
  rewrite <- !lor_disjoint by (change (2 ^ 13) with 8192 in *; lia).
  rewrite Z.lor_assoc. reflexivity.
Qed.

(** * Sweeps over the low 13 bits (ordinal and flags) and over the month/day/flags words *)
Definition rz_is (r : R Z) (z : Z) : bool := match r with Val v => v =? z | _ => false end.
Definition roz_is (r : R (option Z)) (z : option Z) : bool :=
  match r, z with Val (Some v), Some w => v =? w | Val None, None => true | _, _ => false end.
Definition oz_is (r : option Z) (z : option Z) : bool :=
  match r, z with Some v, Some w => v =? w | None, None => true | _, _ => false end.
Lemma rz_is_eq r z : rz_is r z = true -> r = Val z.
Proof. destruct r; cbn; try discriminate. intros H. f_equal. lia. Qed.
Lemma roz_is_eq r z : roz_is r z = true -> r = Val z.
Proof. destruct r as [[v|]| |]; destruct z; cbn; try discriminate; intros H; repeat f_equal; lia. Qed.
Lemma oz_is_eq r z : oz_is r z = true -> r = z.
Proof. destruct r; destruct z; cbn; try discriminate; intros H; repeat f_equal; lia. Qed.

Definition f_leap (f : Z) : bool := Z.land f 8 =? 0.
Definition ylen_f (f : Z) : Z := if f_leap f then 366 else 365.
Definition valid_md (leap : bool) (m dd : Z) : bool :=
  (1 <=? m) && (m <=? 12) && (1 <=? dd) && (dd <=? days_in_month leap m).

Definition lo_valid (lo : Z) : bool :=
  let o := lo / 16 in let f := lo mod 16 in
  (1 <=? o) && (o <=? ylen_f f) && negb (Z.land f 7 =? 0).
Definition acc_ok (lo : Z) : bool :=
  let o := lo / 16 in let f := lo mod 16 in
  if lo_valid lo then
    let '(m, dd) := md_of_ordinal (f_leap f) o in
    (Z.shiftr (Z.land lo 8176) 4 =? o) && (Z.land lo 15 =? f) && (Z.land lo 8184 =? o * 16 + Z.land f 8)
    && (Z.land lo 7 =? Z.land f 7) && (Z.land lo 8 =? Z.land f 8)
    && rz_is (from_yof lo) lo
    && rz_is (d_mdf lo) (m * 512 + dd * 16 + f)
    && rz_is (d_weekday lo) ((o + Z.land f 7) mod 7)
    && valid_md (f_leap f) m dd && (ordinal_of_md (f_leap f) m dd =? o)
  else true.
Lemma acc_sweep : forall_range acc_ok 0 8192 = true.
Proof. vm_compute. reflexivity. Qed.

Definition mdf_ok (i : Z) : bool :=
  let f := i mod 16 in let dd := (i / 16) mod 32 in let m := i / 512 in
  let leap := f_leap f in
  let v := valid_md leap m dd in
  let o := ordinal_of_md leap m dd in
  oz_is (mdf_new m dd f) (Some i)
  && roz_is (mdf_ordinal i) (if v then Some o else None)
  && roz_is (mdf_ordinal_and_flags i) (if v then Some (o * 16 + f) else None)
  && (mdf_year_flags i =? f) && (mdf_month i =? m) && (mdf_day i =? dd)
  && (if v then (1 <=? o) && (o <=? ylen_f f)
              && (let '(m', d') := md_of_ordinal leap o in (m' =? m) && (d' =? dd)) else true).
Lemma mdf_sweep : forall_range mdf_ok 0 6656 = true.
Proof. vm_compute. reflexivity. Qed.

Definition mdfw_ok (i : Z) : bool :=
  let mdf := i / 32 in let x := i mod 32 in
  oz_is (mdf_with_day mdf x) (Some (mdf / 512 * 512 + x * 16 + mdf mod 16))
  && (if x <=? 12 then oz_is (mdf_with_month mdf x) (Some (x * 512 + mdf mod 512)) else true)
  && (if x <=? 15 then mdf_with_flags mdf x =? mdf / 16 * 16 + x else true).
Lemma mdfw_sweep : forall_range mdfw_ok 0 212992 = true.
Proof. vm_compute. reflexivity. Qed.

