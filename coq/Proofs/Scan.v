(** Reusable lemmas about the scanners of Model/Scan.v on well-formed UTF-8 input:
    they never trap (every slice index is a char boundary) and compute a slicing-free function. *)
From Coq Require Import ZArith List Bool Lia ZifyBool String.
From V Require Import Base.Int Base.IntLemmas Base.IO Base.Utf8 Gen.ScanTables Model.Scan Proofs.Utf8.
Import ListNotations.
Open Scope Z_scope.

(** * the ParseResult monad *)
Lemma pbind_ok {X Y} (x : X) (f : X -> PR Y) : pbind (Val (POk x)) f = f x.
Proof. reflexivity. Qed.
Lemma pbind_err {X Y} e (f : X -> PR Y) : pbind (Val (PErr e)) f = Val (PErr e).
Proof. reflexivity. Qed.
Lemma bind_val {X Y} (x : X) (f : X -> R Y) : bind (Val x) f = f x.
Proof. reflexivity. Qed.

Lemma digit_range c : is_ascii_digit c = true -> 48 <= c <= 57.
Proof. unfold is_ascii_digit. lia. Qed.
Lemma is_digit_ascii_digit c : is_digit c = is_ascii_digit c.
Proof. reflexivity. Qed.

(** * number *)
Fixpoint number_pure_loop (l : bytes) (i min max n : Z) : presult (bytes * Z) :=
  match l with
  | [] => POk ([], n)
  | c :: r =>
    if max <=? i then POk (l, n) else
    if negb (is_ascii_digit c) then (if i <? min then PErr Invalid else POk (l, n))
    else if i64_max <? n * 10 + (c - 48) then PErr OutOfRange
    else number_pure_loop r (i + 1) min max (n * 10 + (c - 48))
  end.
Definition number_pure (s : bytes) (min max : Z) : presult (bytes * Z) :=
  if blen s <? min then PErr TooShort else number_pure_loop s 0 min max 0.

Lemma number_loop_ok : forall l pre i min max n,
  utf8_valid l = true -> blen pre = i -> i <= max -> 0 <= n <= i64_max ->
  number_loop (pre ++ l) l i min max n = Val (number_pure_loop l i min max n).
Proof.
  induction l as [|c r IH]; intros pre i min max n Hv Hi Himax Hn.
  - cbn [number_loop number_pure_loop]. unfold number_end.
    replace (Z.min max (blen (pre ++ []))) with (blen pre) by (rewrite blen_app, blen_nil; lia).
    rewrite str_from_app by reflexivity. reflexivity.
  - cbn [number_loop number_pure_loop].
    pose proof (utf8_valid_starts_ok _ Hv) as Hs.
    destruct (max <=? i) eqn:Emax.
    + unfold number_end.
      replace (Z.min max (blen (pre ++ c :: r))) with (blen pre).
      2:{ rewrite blen_app, blen_cons. pose proof (blen_nonneg r). lia. }
      rewrite str_from_app by exact Hs. reflexivity.
    + destruct (is_ascii_digit c) eqn:Ed; cbn [negb].
      2:{ destruct (i <? min); [reflexivity|]. subst i. rewrite str_from_app by exact Hs. reflexivity. }
      pose proof (digit_range c Ed) as Hc.
      unfold checked_mul, checked_add, chko, sub_u8, chk.
      unfold i64_max in *.
      destruct (in_i64 (n * 10)) eqn:E1.
      2:{ unfold in_i64, in_range, i64_min, i64_max in E1.
          replace (9223372036854775807 <? n * 10 + (c - 48)) with true by lia. reflexivity. }
      replace (in_u8 (c - 48)) with true by (unfold in_u8, in_range, u8_max; lia).
      cbn [bind].
      destruct (in_i64 (n * 10 + (c - 48))) eqn:E2.
      2:{ unfold in_i64, in_range, i64_min, i64_max in E2.
          replace (9223372036854775807 <? n * 10 + (c - 48)) with true by lia. reflexivity. }
      unfold in_i64, in_range, i64_min, i64_max in E2.
      replace (9223372036854775807 <? n * 10 + (c - 48)) with false by lia.
      replace (pre ++ c :: r) with ((pre ++ [c]) ++ r) by (rewrite <- app_assoc; reflexivity).
      apply IH.
      * rewrite utf8_valid_ascii in Hv by lia. exact Hv.
      * rewrite blen_app, blen_cons, blen_nil. lia.
      * lia.
      * unfold i64_max. lia.
Qed.

(** [number] never traps on a well-formed string and computes [number_pure] *)
Lemma number_ok s min max : utf8_valid s = true -> 0 <= min <= max ->
  number s min max = Val (number_pure s min max).
Proof.
  intros Hv Hm. unfold number, number_pure, rassert.
  replace (min <=? max) with true by lia. cbn [bind].
  destruct (blen s <? min); [reflexivity|].
  apply (number_loop_ok s [] 0 min max 0); try assumption; try reflexivity; unfold i64_max; lia.
Qed.

(** value of a digit string, most significant first, continuing from [acc] *)
Fixpoint digits_value (ds : bytes) (acc : Z) : Z :=
  match ds with [] => acc | c :: r => digits_value r (acc * 10 + (c - 48)) end.
Lemma digits_value_mono ds : forall acc, forallb is_ascii_digit ds = true -> 0 <= acc -> acc <= digits_value ds acc.
Proof.
  induction ds as [|c r IH]; intros acc Hd Ha; cbn [digits_value]; [lia|].
  cbn [forallb] in Hd. apply andb_prop in Hd. destruct Hd as [Hc Hr].
  pose proof (digit_range c Hc). specialize (IH (acc * 10 + (c - 48)) Hr). lia.
Qed.
Definition not_digit_start (s : bytes) : bool :=
  match s with [] => true | c :: _ => negb (is_ascii_digit c) end.

(** [number] on printed digits: the scan of [ds ++ rest] returns [rest] and the value of [ds] *)
Lemma number_pure_loop_digits : forall ds rest i min max n,
  forallb is_ascii_digit ds = true -> i + blen ds <= max ->
  (i + blen ds < max -> not_digit_start rest = true) ->
  min <= i + blen ds -> 0 <= n -> digits_value ds n <= i64_max ->
  number_pure_loop (ds ++ rest) i min max n = POk (rest, digits_value ds n).
Proof.
  induction ds as [|c r IH]; intros rest i min max n Hd Hlen Hrest Hmin Hn Hv.
  - cbn [app digits_value]. rewrite blen_nil in *. destruct rest as [|c rest]; [reflexivity|].
    cbn [number_pure_loop]. destruct (max <=? i) eqn:E; [reflexivity|].
    cbn [not_digit_start] in Hrest. rewrite Hrest by lia.
    replace (i <? min) with false by lia. reflexivity.
  - cbn [app digits_value number_pure_loop]. rewrite blen_cons in *. pose proof (blen_nonneg r).
    cbn [forallb] in Hd. apply andb_prop in Hd. destruct Hd as [Hc Hr].
    replace (max <=? i) with false by lia. rewrite Hc. cbn [negb].
    pose proof (digit_range c Hc).
    pose proof (digits_value_mono r (n * 10 + (c - 48)) Hr ltac:(lia)).
    cbn [digits_value] in Hv. unfold i64_max in *.
    replace (9223372036854775807 <? n * 10 + (c - 48)) with false by lia.
    apply IH; try assumption; try lia.
    all: try (intros; apply Hrest; lia).
Qed.
Theorem number_on_digits ds rest min max :
  forallb is_ascii_digit ds = true -> utf8_valid rest = true ->
  0 <= min <= blen ds -> blen ds <= max ->
  (blen ds < max -> not_digit_start rest = true) -> digits_value ds 0 <= i64_max ->
  number (ds ++ rest) min max = Val (POk (rest, digits_value ds 0)).
Proof.
  intros Hd Hv Hmin Hmax Hrest Hval.
  rewrite number_ok; [|rewrite utf8_valid_app_ascii; [exact Hv|]|lia].
  2:{ clear - Hd. induction ds as [|c r IH]; constructor.
      - cbn [forallb] in Hd. apply andb_prop in Hd. pose proof (digit_range c (proj1 Hd)). lia.
      - apply IH. cbn [forallb] in Hd. apply andb_prop in Hd. exact (proj2 Hd). }
  unfold number_pure. rewrite blen_app. pose proof (blen_nonneg rest).
  replace (blen ds + blen rest <? min) with false by lia.
  rewrite number_pure_loop_digits; try assumption; try lia. reflexivity.
Qed.

(** * char *)
Lemma char_ok s c : utf8_valid s = true -> 0 <= c <= 127 ->
  char s c = Val (match s with
                  | x :: r => if x =? c then POk r else PErr Invalid
                  | [] => PErr TooShort end).
Proof.
  intros Hv Hc. unfold char. destruct s as [|x r]; [reflexivity|].
  destruct (x =? c) eqn:E; [|reflexivity].
  assert (x = c) by lia. subst x.
  destruct (utf8_valid_tail_ascii c r Hc Hv) as [_ Hs]. rewrite str_from_1 by exact Hs. reflexivity.
Qed.

(** * fixed-width numbers: number(s, 2, 2) and number(s, 4, 4) *)
Lemma npl_stop l i min n : number_pure_loop l i min i n = POk (l, n).
Proof. destruct l; cbn [number_pure_loop]; [reflexivity|]. rewrite Z.leb_refl. reflexivity. Qed.
Lemma npl_nondigit c r i min max n : i < max -> is_ascii_digit c = false ->
  number_pure_loop (c :: r) i min max n = if i <? min then PErr Invalid else POk (c :: r, n).
Proof. intros H Hc. cbn [number_pure_loop]. replace (max <=? i) with false by lia. rewrite Hc. reflexivity. Qed.
Lemma npl_digit c r i min max n : i < max -> is_ascii_digit c = true -> n * 10 + (c - 48) <= i64_max ->
  number_pure_loop (c :: r) i min max n = number_pure_loop r (i + 1) min max (n * 10 + (c - 48)).
Proof.
  intros H Hc Hn. cbn [number_pure_loop]. replace (max <=? i) with false by lia. rewrite Hc. cbn [negb].
  replace (i64_max <? n * 10 + (c - 48)) with false by lia. reflexivity.
Qed.

Definition two_digits (s : bytes) : presult (bytes * Z) :=
  match s with
  | a :: b :: r => if is_ascii_digit a && is_ascii_digit b then POk (r, 10 * (a - 48) + (b - 48)) else PErr Invalid
  | _ => PErr TooShort
  end.
Definition four_digits (s : bytes) : presult (bytes * Z) :=
  match s with
  | a :: b :: c :: d :: r =>
      if is_ascii_digit a && is_ascii_digit b && is_ascii_digit c && is_ascii_digit d
      then POk (r, 1000 * (a - 48) + 100 * (b - 48) + 10 * (c - 48) + (d - 48)) else PErr Invalid
  | _ => PErr TooShort
  end.

Lemma number_2 s : utf8_valid s = true -> number s 2 2 = Val (two_digits s).
Proof.
  intros Hv. rewrite number_ok by (assumption || lia). f_equal. unfold number_pure, two_digits.
  destruct s as [|a [|b r]]; try reflexivity.
  rewrite !blen_cons. pose proof (blen_nonneg r). replace (1 + (1 + blen r) <? 2) with false by lia.
  destruct (is_ascii_digit a) eqn:Ea.
  2:{ rewrite npl_nondigit by (assumption || lia). reflexivity. }
  pose proof (digit_range a Ea). rewrite npl_digit by (try assumption; unfold i64_max; lia).
  destruct (is_ascii_digit b) eqn:Eb.
  2:{ rewrite npl_nondigit by (assumption || lia). reflexivity. }
  pose proof (digit_range b Eb). rewrite npl_digit by (try assumption; unfold i64_max; lia).
  change (0 + 1 + 1) with 2. rewrite npl_stop. cbn [andb]. do 2 f_equal. lia.
Qed.
Lemma number_4 s : utf8_valid s = true -> number s 4 4 = Val (four_digits s).
Proof.
  intros Hv. rewrite number_ok by (assumption || lia). f_equal. unfold number_pure, four_digits.
  destruct s as [|a [|b [|c [|d r]]]]; try reflexivity.
  rewrite !blen_cons. pose proof (blen_nonneg r). replace (1 + (1 + (1 + (1 + blen r))) <? 4) with false by lia.
  destruct (is_ascii_digit a) eqn:Ea.
  2:{ rewrite npl_nondigit by (assumption || lia). reflexivity. }
  pose proof (digit_range a Ea). rewrite npl_digit by (try assumption; unfold i64_max; lia).
  destruct (is_ascii_digit b) eqn:Eb.
  2:{ rewrite npl_nondigit by (assumption || lia). reflexivity. }
  pose proof (digit_range b Eb). rewrite npl_digit by (try assumption; unfold i64_max; lia).
  destruct (is_ascii_digit c) eqn:Ec.
  2:{ rewrite npl_nondigit by (assumption || lia). reflexivity. }
  pose proof (digit_range c Ec). rewrite npl_digit by (try assumption; unfold i64_max; lia).
  destruct (is_ascii_digit d) eqn:Ed.
  2:{ rewrite npl_nondigit by (assumption || lia). reflexivity. }
  pose proof (digit_range d Ed). rewrite npl_digit by (try assumption; unfold i64_max; lia).
  change (0 + 1 + 1 + 1 + 1) with 4. rewrite npl_stop. cbn [andb]. do 2 f_equal. lia.
Qed.
(** what is left after a fixed-width number is again well-formed *)
Lemma two_digits_valid s r v : utf8_valid s = true -> two_digits s = POk (r, v) ->
  utf8_valid r = true /\ 0 <= v <= 99.
Proof.
  unfold two_digits. destruct s as [|a [|b r']]; try discriminate.
  destruct (is_ascii_digit a) eqn:Ea; [|discriminate]. destruct (is_ascii_digit b) eqn:Eb; [|discriminate].
  cbn [andb]. intros Hv H. set (w := 10 * (a - 48) + (b - 48)) in *. injection H as <- <-. subst w.
  pose proof (digit_range a Ea). pose proof (digit_range b Eb).
  rewrite !utf8_valid_ascii in Hv by lia. split; [exact Hv|lia].
Qed.
Lemma four_digits_valid s r v : utf8_valid s = true -> four_digits s = POk (r, v) ->
  utf8_valid r = true /\ 0 <= v <= 9999.
Proof.
  unfold four_digits. destruct s as [|a [|b [|c [|d r']]]]; try discriminate.
  destruct (is_ascii_digit a) eqn:Ea; [|discriminate]. destruct (is_ascii_digit b) eqn:Eb; [|discriminate].
  destruct (is_ascii_digit c) eqn:Ec; [|discriminate]. destruct (is_ascii_digit d) eqn:Ed; [|discriminate].
  cbn [andb]. intros Hv H. set (w := 1000 * (a - 48) + 100 * (b - 48) + 10 * (c - 48) + (d - 48)) in *. injection H as <- <-. subst w.
  pose proof (digit_range a Ea). pose proof (digit_range b Eb). pose proof (digit_range c Ec). pose proof (digit_range d Ed).
  rewrite !utf8_valid_ascii in Hv by lia. split; [exact Hv|lia].
Qed.

(** * trimming leading ASCII characters *)
Definition first_cp_fails (p : Z -> bool) (s : bytes) : Prop :=
  match next_code_point s with Some (c, _) => p c = false | None => True end.
Lemma trim_fuel_prefix p : forall ds rest fuel,
  Forall (fun c => 0 <= c <= 127 /\ p c = true) ds -> first_cp_fails p rest ->
  (List.length ds + List.length rest <= fuel)%nat ->
  trim_start_matches_fuel fuel p (ds ++ rest) = rest.
Proof.
  induction ds as [|c ds IH]; intros rest fuel Hd Hr Hf.
  - cbn [app]. destruct fuel as [|f]; [reflexivity|]. cbn [trim_start_matches_fuel].
    unfold first_cp_fails in Hr. destruct (next_code_point rest) as [[c r]|]; [|reflexivity].
    rewrite Hr. reflexivity.
  - inversion Hd as [|? ? [Hc Hp] Hd']; subst.
    destruct fuel as [|f]; [cbn in Hf; lia|]. cbn [app trim_start_matches_fuel].
    rewrite next_code_point_ascii by lia. rewrite Hp. apply IH; try assumption. cbn in Hf. lia.
Qed.
Lemma trim_prefix p ds rest :
  Forall (fun c => 0 <= c <= 127 /\ p c = true) ds -> first_cp_fails p rest ->
  trim_start_matches p (ds ++ rest) = rest.
Proof.
  intros Hd Hr. unfold trim_start_matches. apply trim_fuel_prefix; try assumption.
  rewrite app_length. lia.
Qed.
Lemma first_cp_not_digit t : utf8_valid t = true -> not_digit_start t = true ->
  first_cp_fails is_ascii_digit t.
Proof.
  intros Hv Hn. unfold first_cp_fails. pose proof (ncp_valid t Hv) as H.
  destruct t as [|x r]; [rewrite H; exact I|].
  destruct H as [[Hx ->]|[Hx (cp & r' & -> & Hcp & _)]].
  - cbn [not_digit_start] in Hn. destruct (is_ascii_digit x); [discriminate|reflexivity].
  - unfold is_ascii_digit. lia.
Qed.

(** * nanosecond *)
Fixpoint digit_run (s : bytes) : bytes * bytes :=
  match s with
  | c :: r => if is_ascii_digit c then let '(d, t) := digit_run r in (c :: d, t) else ([], s)
  | [] => ([], [])
  end.
Lemma digit_run_spec s : s = fst (digit_run s) ++ snd (digit_run s)
  /\ forallb is_ascii_digit (fst (digit_run s)) = true /\ not_digit_start (snd (digit_run s)) = true.
Proof.
  induction s as [|c r IH]; [cbn; auto|]. cbn [digit_run].
  destruct (is_ascii_digit c) eqn:E.
  - destruct (digit_run r) as [d t]. cbn [fst snd] in *. destruct IH as (H1 & H2 & H3).
    cbn [app forallb]. rewrite E, H2. cbn [andb]. repeat split; [f_equal; exact H1|exact H3].
  - cbn [fst snd app forallb not_digit_start]. rewrite E. auto.
Qed.
Lemma all_digits_ascii ds : forallb is_ascii_digit ds = true ->
  Forall (fun c => 0 <= c <= 127 /\ is_ascii_digit c = true) ds.
Proof.
  induction ds as [|c r IH]; intros H; constructor; cbn [forallb] in H; apply andb_prop in H; destruct H as [Hc Hr].
  - pose proof (digit_range c Hc). split; [lia|exact Hc].
  - exact (IH Hr).
Qed.
Lemma all_digits_firstn n ds : forallb is_ascii_digit ds = true -> forallb is_ascii_digit (firstn n ds) = true.
Proof.
  revert ds. induction n as [|n IH]; intros ds H; [reflexivity|]. destruct ds as [|c r]; [reflexivity|].
  cbn [firstn forallb] in *. apply andb_prop in H. destruct H as [-> Hr]. cbn [andb]. exact (IH r Hr).
Qed.
Lemma all_digits_skipn n ds : forallb is_ascii_digit ds = true -> forallb is_ascii_digit (skipn n ds) = true.
Proof.
  revert ds. induction n as [|n IH]; intros ds H; [exact H|]. destruct ds as [|c r]; [reflexivity|].
  cbn [skipn forallb] in *. apply andb_prop in H. destruct H as [_ Hr]. exact (IH r Hr).
Qed.
(** value bound: k digits after [acc] stay below (acc + 1) * 10^k *)
Lemma digits_value_bound ds : forall acc, forallb is_ascii_digit ds = true -> 0 <= acc ->
  digits_value ds acc < (acc + 1) * 10 ^ blen ds.
Proof.
  induction ds as [|c r IH]; intros acc Hd Ha.
  - cbn [digits_value]. rewrite blen_nil. change (10 ^ 0) with 1. lia.
  - cbn [digits_value forallb] in *. apply andb_prop in Hd. destruct Hd as [Hc Hr].
    pose proof (digit_range c Hc). specialize (IH (acc * 10 + (c - 48)) Hr ltac:(lia)).
    rewrite blen_cons. pose proof (blen_nonneg r).
    replace (1 + blen r) with (Z.succ (blen r)) by lia. rewrite Z.pow_succ_r by lia.
    assert (0 < 10 ^ blen r) by (apply Z.pow_pos_nonneg; lia).
    set (P := 10 ^ blen r) in *. clearbody P.
    assert ((acc * 10 + (c - 48) + 1) * P <= (acc + 1) * (10 * P)).
    { replace ((acc + 1) * (10 * P)) with ((acc * 10 + 10) * P) by ring.
      apply Z.mul_le_mono_nonneg_r; lia. }
    lia.
Qed.

Definition nanosecond_pure (s : bytes) : presult (bytes * Z) :=
  let '(d, t) := digit_run s in
  match d with
  | [] => PErr (if is_empty s then TooShort else Invalid)
  | _ => POk (t, digits_value (firstn 9 d) 0 * 10 ^ (9 - blen (firstn 9 d)))
  end.

Lemma scale_index k : 1 <= k <= 9 -> index SCALE k = Val (10 ^ (9 - k)).
Proof.
  intros H. assert (k = 1 \/ k = 2 \/ k = 3 \/ k = 4 \/ k = 5 \/ k = 6 \/ k = 7 \/ k = 8 \/ k = 9) as Hk by lia.
  destruct Hk as [->|[->|[->|[->|[->|[->|[->|[->| ->]]]]]]]]; reflexivity.
Qed.
Lemma blen_firstn_le n (ds : bytes) : blen (firstn n ds) <= Z.of_nat n.
Proof. unfold blen. rewrite firstn_length. lia. Qed.

Theorem nanosecond_ok s : utf8_valid s = true -> nanosecond s = Val (nanosecond_pure s).
Proof.
  intros Hv. unfold nanosecond, nanosecond_pure.
  change NANOSECOND_MIN_DIGITS with 1. change NANOSECOND_MAX_DIGITS with 9.
  destruct (digit_run_spec s) as (Hs & Hd & Ht). destruct (digit_run s) as [d t]. cbn [fst snd] in *.
  destruct d as [|c0 d0].
  - (* no digit *)
    cbn [app] in Hs. subst t. rewrite number_ok by (assumption || lia). unfold number_pure.
    destruct s as [|c r]; [reflexivity|]. rewrite blen_cons. pose proof (blen_nonneg r).
    replace (1 + blen r <? 1) with false by lia.
    cbn [not_digit_start] in Ht.
    assert (Hc : is_ascii_digit c = false) by (destruct (is_ascii_digit c); [discriminate|reflexivity]).
    rewrite npl_nondigit by (assumption || lia).
    reflexivity.
  - set (d := c0 :: d0) in *.
    assert (Hsplit : d = firstn 9 d ++ skipn 9 d) by (symmetry; apply firstn_skipn).
    set (d9 := firstn 9 d) in *. set (dm := skipn 9 d) in *.
    assert (Hd9 : forallb is_ascii_digit d9 = true) by (apply all_digits_firstn; exact Hd).
    assert (Hdm : forallb is_ascii_digit dm = true) by (apply all_digits_skipn; exact Hd).
    assert (Hlen9 : 1 <= blen d9 <= 9).
    { split; [|exact (blen_firstn_le 9 d)]. subst d9 d. change (firstn 9 (c0 :: d0)) with (c0 :: firstn 8 d0). rewrite blen_cons.
      pose proof (blen_nonneg (firstn 8 d0)). lia. }
    assert (Hvt : utf8_valid t = true).
    { rewrite Hs in Hv. rewrite utf8_valid_app_ascii in Hv; [exact Hv|].
      eapply Forall_impl; [|apply all_digits_ascii; exact Hd]. cbn. intros a [Ha _]. exact Ha. }
    assert (Hvm : utf8_valid (dm ++ t) = true).
    { rewrite utf8_valid_app_ascii; [exact Hvt|].
      eapply Forall_impl; [|apply all_digits_ascii; exact Hdm]. cbn. intros a [Ha _]. exact Ha. }
    assert (Hs' : s = d9 ++ (dm ++ t)) by (rewrite app_assoc, <- Hsplit; exact Hs).
    pose proof (digits_value_bound d9 0 Hd9 ltac:(lia)) as Hb. change ((0 + 1) * 10 ^ blen d9) with (1 * 10 ^ blen d9) in Hb.
    assert (Hpow : 10 ^ blen d9 <= 10 ^ 9) by (apply Z.pow_le_mono_r; lia).
    change (10 ^ 9) with 1000000000 in Hpow.
    pose proof (digits_value_mono d9 0 Hd9 ltac:(lia)) as Hnn.
    rewrite Hs' at 1.
    rewrite number_on_digits; try assumption; try lia.
    2:{ intros Hlt. assert (dm = []) as ->.
        { subst dm d9. clear - Hlt. unfold blen in Hlt. rewrite firstn_length in Hlt.
          apply skipn_all2. lia. }
        exact Ht. }
    2:{ unfold i64_max. lia. }
    cbn [pbind bind].
    assert (Hcons : blen s - blen (dm ++ t) = blen d9) by (rewrite Hs', blen_app; lia).
    unfold sub_usize. rewrite Hcons.
    rewrite chk_in by (unfold in_usize, in_u64, in_range, u64_max; lia). cbn [bind].
    rewrite scale_index by lia. cbn [bind].
    assert (Hprod : 0 <= digits_value d9 0 * 10 ^ (9 - blen d9) < 1000000000).
    { assert (Hk : blen d9 = 1 \/ blen d9 = 2 \/ blen d9 = 3 \/ blen d9 = 4 \/ blen d9 = 5 \/ blen d9 = 6 \/ blen d9 = 7 \/ blen d9 = 8 \/ blen d9 = 9) by lia.
      destruct Hk as [Hk|[Hk|[Hk|[Hk|[Hk|[Hk|[Hk|[Hk|Hk]]]]]]]]; rewrite Hk in *;
        match goal with |- context [10 ^ ?e] => let v := eval compute in (10 ^ e) in change (10 ^ e) with v end;
        match type of Hb with context [10 ^ ?e] => let v := eval compute in (10 ^ e) in change (10 ^ e) with v in Hb end; lia. }
    unfold checked_mul. rewrite chko_in by (unfold in_i64, in_range, i64_min, i64_max; lia).
    rewrite trim_prefix; [reflexivity| |apply first_cp_not_digit; assumption].
    apply all_digits_ascii. exact Hdm.
Qed.

(** * timezone_offset with a mandatory colon, 'Z'/'z' and U+2212 allowed (the RFC 3339 call) *)
Definition tz_sign (s : bytes) : option (bool * bytes) :=
  match s with
  | c :: r =>
      if c =? 43 then Some (false, r) else if c =? 45 then Some (true, r)
      else match r with
           | c2 :: c3 :: r' => if (c =? 226) && (c2 =? 136) && (c3 =? 146) then Some (true, r') else None
           | _ => None
           end
  | [] => None
  end.
Definition tz_tail_pure (neg : bool) (s1 : bytes) : presult (bytes * Z) :=
  match s1 with
  | h1 :: h2 :: s2 =>
    if is_ascii_digit h1 && is_ascii_digit h2 then
      match s2 with
      | [] => PErr TooShort
      | x :: s3 =>
        if x =? 58 then
          match s3 with
          | m1 :: m2 :: s4 =>
              if (48 <=? m1) && (m1 <=? 53) && is_ascii_digit m2 then
                let secs := ((h1 - 48) * 10 + (h2 - 48)) * 3600 + ((m1 - 48) * 10 + (m2 - 48)) * 60 in
                POk (s4, if neg then - secs else secs)
              else if (54 <=? m1) && (m1 <=? 57) && is_ascii_digit m2 then PErr OutOfRange
              else PErr Invalid
          | _ => PErr TooShort
          end
        else PErr Invalid
      end
    else PErr Invalid
  | _ => PErr TooShort
  end.
Definition tz_colon_pure (s : bytes) : presult (bytes * Z) :=
  match s with
  | [] => PErr TooShort
  | c :: r =>
    if (c =? 90) || (c =? 122) then POk (r, 0) else
    match tz_sign s with
    | None => PErr Invalid
    | Some (neg, s1) => tz_tail_pure neg s1
    end
  end.

(* the part of timezone_offset after the sign *)
Definition tz_tail (negative : bool) (s : bytes) (consume_colon : bytes -> PR bytes) (allow_missing_minutes : bool)
  : PR (bytes * Z) :=
  let+ hours :=
    match tz_digits s with
    | PErr e => perr_ e
    | POk (h1, h2) =>
        if is_ascii_digit h1 && is_ascii_digit h2 then plift (two_digit_value h1 h2)
        else perr_ Invalid
    end in
  let* s := str_from s 2 in
  let+ s := consume_colon s in
  let+ minutes :=
    match tz_digits s with
    | POk (m1, m2) =>
        if (TZ_MIN_TENS_LO <=? m1) && (m1 <=? TZ_MIN_TENS_HI) && is_ascii_digit m2
        then plift (two_digit_value m1 m2)
        else if (TZ_MIN_OOR_TENS_LO <=? m1) && (m1 <=? TZ_MIN_OOR_TENS_HI) && is_ascii_digit m2
        then perr_ OutOfRange
        else perr_ Invalid
    | PErr _ => if allow_missing_minutes then pok 0 else perr_ TooShort
    end in
  let+ s :=
    (let len := blen s in
     if len >=? 2 then plift (str_from s 2)
     else if len =? 0 then pok s
     else perr_ TooShort) in
  let* hs := mul_i32 hours TZ_SECS_PER_HOUR in
  let* ms := mul_i32 minutes TZ_SECS_PER_MINUTE in
  let* seconds := add_i32 hs ms in
  if (negative : bool) then let* n := neg_i32 seconds in pok (s, n) else pok (s, seconds).

Lemma timezone_offset_unfold s cc az am at_ :
  timezone_offset s cc az am at_ =
  if az && match s with c :: _ => (c =? 90) || (c =? 122) | [] => false end
  then (let* r := str_from s 1 in pok (r, 0)) else
  let+ '(negative, s) :=
    match next_code_point s with
    | Some (c, _) =>
        if c =? 43 then let* r := str_from s (len_utf8 43) in pok (false, r)
        else if c =? 45 then let* r := str_from s (len_utf8 45) in pok (true, r)
        else if c =? TZ_MINUS_SIGN then
          if negb at_ then perr_ Invalid
          else let* r := str_from s (len_utf8 TZ_MINUS_SIGN) in pok (true, r)
        else perr_ Invalid
    | None => perr_ TooShort
    end in
  tz_tail negative s cc am.
Proof. reflexivity. Qed.

Lemma two_digit_value_ok a b : is_ascii_digit a = true -> is_ascii_digit b = true ->
  two_digit_value a b = Val ((a - 48) * 10 + (b - 48)).
Proof.
  intros Ha Hb. pose proof (digit_range a Ha). pose proof (digit_range b Hb).
  unfold two_digit_value, sub_u8, mul_u8, add_u8.
  rewrite chk_in by (unfold in_u8, in_range, u8_max; lia). cbn [bind].
  rewrite chk_in by (unfold in_u8, in_range, u8_max; lia). cbn [bind].
  rewrite chk_in by (unfold in_u8, in_range, u8_max; lia). cbn [bind].
  rewrite chk_in by (unfold in_u8, in_range, u8_max; lia). reflexivity.
Qed.

Lemma tz_tail_ok neg s1 : utf8_valid s1 = true ->
  tz_tail neg s1 (fun s => char s 58) false = Val (tz_tail_pure neg s1).
Proof.
  intros Hv. unfold tz_tail, tz_tail_pure.
  destruct s1 as [|h1 [|h2 s2]]; try reflexivity. cbn [tz_digits].
  destruct (is_ascii_digit h1) eqn:E1; [|reflexivity]. destruct (is_ascii_digit h2) eqn:E2; [|reflexivity].
  cbn [andb]. pose proof (digit_range h1 E1). pose proof (digit_range h2 E2).
  rewrite two_digit_value_ok by assumption. cbn [plift bind pbind].
  assert (Hv2 : utf8_valid s2 = true) by (rewrite !utf8_valid_ascii in Hv by lia; exact Hv).
  rewrite str_from_2 by (apply utf8_valid_starts_ok; exact Hv2). cbn [bind].
  rewrite char_ok by (assumption || lia).
  destruct s2 as [|x s3]; [reflexivity|]. destruct (x =? 58) eqn:Ex; [|reflexivity].
  assert (x = 58) by lia. subst x. cbn [pbind bind].
  assert (Hv3 : utf8_valid s3 = true) by (rewrite utf8_valid_ascii in Hv2 by lia; exact Hv2).
  destruct s3 as [|m1 [|m2 s4]]; try reflexivity. cbn [tz_digits].
  change TZ_MIN_TENS_LO with 48. change TZ_MIN_TENS_HI with 53.
  change TZ_MIN_OOR_TENS_LO with 54. change TZ_MIN_OOR_TENS_HI with 57.
  destruct ((48 <=? m1) && (m1 <=? 53) && is_ascii_digit m2) eqn:Em.
  2:{ destruct ((54 <=? m1) && (m1 <=? 57) && is_ascii_digit m2); reflexivity. }
  apply andb_prop in Em. destruct Em as [Em1 Em2]. pose proof (digit_range m2 Em2).
  assert (is_ascii_digit m1 = true) by (unfold is_ascii_digit; lia).
  rewrite two_digit_value_ok by assumption. cbn [plift bind pbind].
  rewrite !blen_cons. pose proof (blen_nonneg s4). replace (1 + (1 + blen s4) >=? 2) with true by lia.
  assert (Hv4 : utf8_valid s4 = true) by (rewrite !utf8_valid_ascii in Hv3 by lia; exact Hv3).
  rewrite str_from_2 by (apply utf8_valid_starts_ok; exact Hv4). cbn [plift bind pbind].
  change TZ_SECS_PER_HOUR with 3600. change TZ_SECS_PER_MINUTE with 60.
  unfold mul_i32, add_i32, neg_i32.
  rewrite chk_in by (unfold in_i32, in_range, i32_min, i32_max; lia). cbn [bind].
  rewrite chk_in by (unfold in_i32, in_range, i32_min, i32_max; lia). cbn [bind].
  rewrite chk_in by (unfold in_i32, in_range, i32_min, i32_max; lia). cbn [bind].
  destruct neg; [|reflexivity].
  rewrite chk_in by (unfold in_i32, in_range, i32_min, i32_max; lia). reflexivity.
Qed.

Theorem timezone_offset_colon_ok s : utf8_valid s = true ->
  timezone_offset s (fun s => char s 58) true false true = Val (tz_colon_pure s).
Proof.
  intros Hv. rewrite timezone_offset_unfold. unfold tz_colon_pure.
  pose proof (ncp_valid s Hv) as Hn. destruct s as [|c r]; [rewrite Hn; reflexivity|].
  cbn [andb]. change TZ_MINUS_SIGN with 8722. change (len_utf8 43) with 1. change (len_utf8 45) with 1. change (len_utf8 8722) with 3.
  cbn [negb].
  destruct Hn as [[Hc Hn]|[Hc (cp & r' & Hn & Hcp & Hminus)]]; rewrite Hn.
  - (* ASCII first byte *)
    destruct (utf8_valid_tail_ascii c r Hc Hv) as [Hvr Hsr].
    destruct ((c =? 90) || (c =? 122)) eqn:Ez.
    { rewrite str_from_1 by exact Hsr. reflexivity. }
    unfold tz_sign.
    destruct (c =? 43) eqn:E43.
    { rewrite str_from_1 by exact Hsr. cbn [bind pbind pok]. apply tz_tail_ok; exact Hvr. }
    destruct (c =? 45) eqn:E45.
    { rewrite str_from_1 by exact Hsr. cbn [bind pbind pok]. apply tz_tail_ok; exact Hvr. }
    replace (c =? 8722) with false by lia.
    replace (c =? 226) with false by lia. cbn [andb].
    destruct r as [|c2 [|c3 r'']]; reflexivity.
  - (* multi-byte first scalar value *)
    replace ((c =? 90) || (c =? 122)) with false by lia.
    replace (cp =? 43) with false by lia. replace (cp =? 45) with false by lia.
    unfold tz_sign. replace (c =? 43) with false by lia. replace (c =? 45) with false by lia.
    destruct (cp =? 8722) eqn:Em.
    + assert (Hcp' : cp = 8722) by lia. specialize (Hminus Hcp'). injection Hminus as -> ->.
      rewrite utf8_valid_minus in Hv.
      rewrite str_from_3 by (apply utf8_valid_starts_ok; exact Hv). cbn [bind pbind pok].
      cbn. apply tz_tail_ok; exact Hv.
    + cbn [pbind bind perr_].
      destruct r as [|c2 [|c3 r'']]; try reflexivity.
      destruct ((c =? 226) && (c2 =? 136) && (c3 =? 146)) eqn:E; [|reflexivity].
      exfalso. assert (c = 226 /\ c2 = 136 /\ c3 = 146) as (-> & -> & ->) by lia.
      rewrite next_code_point_minus in Hn. injection Hn as <- _. lia.
Qed.
