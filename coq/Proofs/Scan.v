(** Reusable lemmas about the scanners of Model/Scan.v on well-formed UTF-8 input:
    they never trap (every slice index is a char boundary) and compute a slicing-free function. *)
From Coq Require Import ZArith List Bool Lia ZifyBool String.
From V Require Import Base.Int Base.IntLemmas Base.IO Base.Utf8 Gen.ScanTables Model.Scan Proofs.Utf8.
Import ListNotations.
Open Scope Z_scope.

(** * the ParseResult monad *)
Lemma pbind_ok {X Y} (x : X) (f : X -> PR Y) : pbind (Val (POk x)) f = f x.
Proof. reflexivity. Qed.
Lemma pbind_err {X Y} e (f : X -> PR Y) : pbind (Val (PErr e)) f = Val (PErr e).
Proof. reflexivity. Qed.
Lemma bind_val {X Y} (x : X) (f : X -> R Y) : bind (Val x) f = f x.
Proof. reflexivity. Qed.

Lemma digit_range c : is_ascii_digit c = true -> 48 <= c <= 57.
Proof. unfold is_ascii_digit. lia. Qed.
Lemma is_digit_ascii_digit c : is_digit c = is_ascii_digit c.
Proof. reflexivity. Qed.

(** * number *)
Fixpoint number_pure_loop (l : bytes) (i min max n : Z) : presult (bytes * Z) :=
  match l with
  | [] => POk ([], n)
  | c :: r =>
    if max <=? i then POk (l, n) else
    if negb (is_ascii_digit c) then (if i <? min then PErr Invalid else POk (l, n))
    else if i64_max <? n * 10 + (c - 48) then PErr OutOfRange
    else number_pure_loop r (i + 1) min max (n * 10 + (c - 48))
  end.
Definition number_pure (s : bytes) (min max : Z) : presult (bytes * Z) :=
  if blen s <? min then PErr TooShort else number_pure_loop s 0 min max 0.

Lemma number_loop_ok : forall l pre i min max n,
  utf8_valid l = true -> blen pre = i -> i <= max -> 0 <= n <= i64_max ->
  number_loop (pre ++ l) l i min max n = Val (number_pure_loop l i min max n).
Proof.
  induction l as [|c r IH]; intros pre i min max n Hv Hi Himax Hn.
  - cbn [number_loop number_pure_loop]. unfold number_end.
    replace (Z.min max (blen (pre ++ []))) with (blen pre) by (rewrite blen_app, blen_nil; lia).
    rewrite str_from_app by reflexivity. reflexivity.
  - cbn [number_loop number_pure_loop].
    pose proof (utf8_valid_starts_ok _ Hv) as Hs.
    destruct (max <=? i) eqn:Emax.
    + unfold number_end.
      replace (Z.min max (blen (pre ++ c :: r))) with (blen pre).
      2:{ rewrite blen_app, blen_cons. pose proof (blen_nonneg r). lia. }
      rewrite str_from_app by exact Hs. reflexivity.
    + destruct (is_ascii_digit c) eqn:Ed; cbn [negb].
      2:{ destruct (i <? min); [reflexivity|]. subst i. rewrite str_from_app by exact Hs. reflexivity. }
      pose proof (digit_range c Ed) as Hc.
      unfold checked_mul, checked_add, chko, sub_u8, chk.
      unfold i64_max in *.
      destruct (in_i64 (n * 10)) eqn:E1.
      2:{ unfold in_i64, in_range, i64_min, i64_max in E1.
          replace (9223372036854775807 <? n * 10 + (c - 48)) with true by lia. reflexivity. }
      replace (in_u8 (c - 48)) with true by (unfold in_u8, in_range, u8_max; lia).
      cbn [bind].
      destruct (in_i64 (n * 10 + (c - 48))) eqn:E2.
      2:{ unfold in_i64, in_range, i64_min, i64_max in E2.
          replace (9223372036854775807 <? n * 10 + (c - 48)) with true by lia. reflexivity. }
      unfold in_i64, in_range, i64_min, i64_max in E2.
      replace (9223372036854775807 <? n * 10 + (c - 48)) with false by lia.
      replace (pre ++ c :: r) with ((pre ++ [c]) ++ r) by (rewrite <- app_assoc; reflexivity).
      apply IH.
      * rewrite utf8_valid_ascii in Hv by lia. exact Hv.
      * rewrite blen_app, blen_cons, blen_nil. lia.
      * lia.
      * unfold i64_max. lia.
Qed.

(** [number] never traps on a well-formed string and computes [number_pure] *)
Lemma number_ok s min max : utf8_valid s = true -> 0 <= min <= max ->
  number s min max = Val (number_pure s min max).
Proof.
  intros Hv Hm. unfold number, number_pure, rassert.
  replace (min <=? max) with true by lia. cbn [bind].
  destruct (blen s <? min); [reflexivity|].
  apply (number_loop_ok s [] 0 min max 0); try assumption; try reflexivity; unfold i64_max; lia.
Qed.

(** value of a digit string, most significant first, continuing from [acc] *)
Fixpoint digits_value (ds : bytes) (acc : Z) : Z :=
  match ds with [] => acc | c :: r => digits_value r (acc * 10 + (c - 48)) end.
Lemma digits_value_mono ds : forall acc, forallb is_ascii_digit ds = true -> 0 <= acc -> acc <= digits_value ds acc.
Proof.
  induction ds as [|c r IH]; intros acc Hd Ha; cbn [digits_value]; [lia|].
  cbn [forallb] in Hd. apply andb_prop in Hd. destruct Hd as [Hc Hr].
  pose proof (digit_range c Hc). specialize (IH (acc * 10 + (c - 48)) Hr). lia.
Qed.
Definition not_digit_start (s : bytes) : bool :=
  match s with [] => true | c :: _ => negb (is_ascii_digit c) end.

(** [number] on printed digits: the scan of [ds ++ rest] returns [rest] and the value of [ds] *)
Lemma number_pure_loop_digits : forall ds rest i min max n,
  forallb is_ascii_digit ds = true -> i + blen ds <= max ->
  (i + blen ds < max -> not_digit_start rest = true) ->
  min <= i + blen ds -> 0 <= n -> digits_value ds n <= i64_max ->
  number_pure_loop (ds ++ rest) i min max n = POk (rest, digits_value ds n).
Proof.
  induction ds as [|c r IH]; intros rest i min max n Hd Hlen Hrest Hmin Hn Hv.
  - cbn [app digits_value]. rewrite blen_nil in *. destruct rest as [|c rest]; [reflexivity|].
    cbn [number_pure_loop]. destruct (max <=? i) eqn:E; [reflexivity|].
    cbn [not_digit_start] in Hrest. rewrite Hrest by lia.
    replace (i <? min) with false by lia. reflexivity.
  - cbn [app digits_value number_pure_loop]. rewrite blen_cons in *. pose proof (blen_nonneg r).
    cbn [forallb] in Hd. apply andb_prop in Hd. destruct Hd as [Hc Hr].
    replace (max <=? i) with false by lia. rewrite Hc. cbn [negb].
    pose proof (digit_range c Hc).
    pose proof (digits_value_mono r (n * 10 + (c - 48)) Hr ltac:(lia)).
    cbn [digits_value] in Hv. unfold i64_max in *.
    replace (9223372036854775807 <? n * 10 + (c - 48)) with false by lia.
    apply IH; try assumption; try lia.
Qed.
Theorem number_on_digits ds rest min max :
  forallb is_ascii_digit ds = true -> utf8_valid rest = true ->
  0 <= min <= blen ds -> blen ds <= max ->
  (blen ds < max -> not_digit_start rest = true) -> digits_value ds 0 <= i64_max ->
  number (ds ++ rest) min max = Val (POk (rest, digits_value ds 0)).
Proof.
  intros Hd Hv Hmin Hmax Hrest Hval.
  rewrite number_ok; [|rewrite utf8_valid_app_ascii; [exact Hv|]|lia].
  2:{ clear - Hd. induction ds as [|c r IH]; constructor.
      - cbn [forallb] in Hd. apply andb_prop in Hd. pose proof (digit_range c (proj1 Hd)). lia.
      - apply IH. cbn [forallb] in Hd. apply andb_prop in Hd. exact (proj2 Hd). }
  unfold number_pure. rewrite blen_app. pose proof (blen_nonneg rest).
  replace (blen ds + blen rest <? min) with false by lia.
  rewrite number_pure_loop_digits; try assumption; try lia. reflexivity.
Qed.

(** * char *)
Lemma char_ok s c : utf8_valid s = true -> 0 <= c <= 127 ->
  char s c = Val (match s with
                  | x :: r => if x =? c then POk r else PErr Invalid
                  | [] => PErr TooShort end).
Proof.
  intros Hv Hc. unfold char. destruct s as [|x r]; [reflexivity|].
  destruct (x =? c) eqn:E; [|reflexivity].
  assert (x = c) by lia. subst x.
  destruct (utf8_valid_tail_ascii c r Hc Hv) as [_ Hs]. rewrite str_from_1 by exact Hs. reflexivity.
Qed.
