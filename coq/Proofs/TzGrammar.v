(** The POSIX TZ string reader of Model/TzRule.v never traps, and an accepted string yields a
    well-formed rule ([rule_ok]: offsets inside i32 and not i32::MIN, names of 3..7 characters
    from the permitted set, rule days in their ranges, switch times below one week). *)
From Coq Require Import ZArith List Bool Lia ZifyBool.
From V Require Import Base.Int Base.IO Base.IntLemmas Gen.TzInfo.
From V Require Import Model.TzParser Model.TzRule.
From V Require Import Proofs.TzCommon.
Import ListNotations.
Open Scope Z_scope.

Lemma name_loop_spec : forall input i, 0 <= i -> i + zlen input <= 7 ->
  postr (name_loop input i) (fun _ => Forall (fun b => is_name_char b = true) input).
Proof.
  induction input as [|b r IH]; intros i Hi Hl; cbn [name_loop].
  - apply postr_ok. constructor.
  - rewrite zlen_cons in Hl. pose proof (zlen_nonneg r).
    destruct (is_name_char b) eqn:E; [|apply postr_fail].
    unfold rassert. replace (i + 1 <? 8) with true by lia. cbv [bind].
    eapply postr_weaken; [apply IH; lia|]. intros u HF. constructor; assumption.
Qed.
Lemma tz_name_new_spec input : postr (tz_name_new input) (fun n => n = input /\ name_ok (Some n)).
Proof.
  unfold tz_name_new, TZ_NAME_MIN, TZ_NAME_MAX.
  destruct (negb ((3 <=? zlen input) && (zlen input <=? 7))) eqn:E; [apply postr_fail|].
  eapply postr_rbind; [apply (name_loop_spec input 0); lia|].
  intros u HF. apply postr_ok. split; [reflexivity|]. cbn [name_ok]. split; [lia|exact HF].
Qed.
Lemma ltt_new_spec off dst nm : in_i32 off = true ->
  postr (ltt_new off dst nm) (fun l => ltt_ok l /\ ut_offset l = off /\ is_dst l = dst /\ name l = nm).
Proof.
  intros Ho. unfold ltt_new. destruct (off =? i32_min) eqn:E; [apply postr_fail|].
  destruct nm as [n|].
  - eapply postr_rbind; [apply tz_name_new_spec|]. intros n' (-> & Hn). apply postr_ok.
    unfold ltt_ok. cbn [ut_offset name is_dst]. cbn [name_ok] in Hn. destruct Hn as [Hn1 Hn2].
    repeat split; try assumption; try lia.
  - apply postr_ok. unfold ltt_ok. cbn [ut_offset name is_dst name_ok]. repeat split; try assumption; lia.
Qed.

Lemma parse_name_spec N c : cur_ok N c -> postr (parse_name c) (fun '(_, c') => cur_ok N c').
Proof.
  intros Hc. unfold parse_name.
  destruct (peek c) as [x|].
  2:{ eapply postr_weaken; [apply read_while_spec; exact Hc|]. intros [b c'] (H & _). exact H. }
  destruct (Z.eq_dec x 60) as [->|Hne].
  - eapply postr_rbind; [apply read_exact_spec; exact Hc|]. intros [b1 c1] (Hc1 & _).
    eapply postr_rbind; [apply read_until_spec; exact Hc1|]. intros [b2 c2] (Hc2 & _).
    eapply postr_rbind; [apply read_exact_spec; exact Hc2|]. intros [b3 c3] (Hc3 & _).
    apply postr_ok. exact Hc3.
  - assert (E : forall (X : Type) (a b0 : X), match x with 60 => a | _ => b0 end = b0).
    { intros X a b0. destruct x as [|p|p]; try reflexivity.
      repeat (destruct p as [p|p|]; try reflexivity). lia. }
    rewrite E.
    eapply postr_weaken; [apply read_while_spec; exact Hc|]. intros [b c'] (H & _). exact H.
Qed.

Lemma parse_hhmmss_spec N c : cur_ok N c ->
  postr (parse_hhmmss c) (fun '(h, m, s, c') => cur_ok N c' /\ 0 <= h <= i32_max /\ 0 <= m <= i32_max /\ 0 <= s <= i32_max).
Proof.
  intros Hc. unfold parse_hhmmss.
  eapply postr_rbind; [apply read_int_spec; exact Hc|]. intros [h c1] (Hc1 & Hh).
  eapply postr_rbind; [apply read_optional_tag_spec; exact Hc1|]. intros [colon c2] Hc2.
  destruct colon.
  - eapply postr_rbind; [apply read_int_spec; exact Hc2|]. intros [m c3] (Hc3 & Hm).
    eapply postr_rbind; [apply read_optional_tag_spec; exact Hc3|]. intros [colon2 c4] Hc4.
    destruct colon2.
    + eapply postr_rbind; [apply read_int_spec; exact Hc4|]. intros [s c5] (Hc5 & Hs).
      apply postr_ok. unfold i32_max in *. split; [assumption|]. lia.
    + apply postr_ok. unfold i32_max in *. split; [assumption|]. lia.
  - apply postr_ok. unfold i32_max in *. split; [assumption|]. lia.
Qed.

Lemma parse_signed_hhmmss_spec N c : cur_ok N c ->
  postr (parse_signed_hhmmss c)
        (fun '(sg, h, m, s, c') => cur_ok N c' /\ (sg = 1 \/ sg = -1) /\ 0 <= h <= i32_max /\ 0 <= m <= i32_max /\ 0 <= s <= i32_max).
Proof.
  intros Hc. unfold parse_signed_hhmmss.
  eapply postr_rbind with (P := fun '(sg, c') => cur_ok N c' /\ (sg = 1 \/ sg = -1)).
  - destruct (peek c) as [ch|]; [|apply postr_ok; auto].
    destruct ((ch =? 43) || (ch =? 45)); [|apply postr_ok; auto].
    eapply postr_rbind; [apply read_exact_spec; exact Hc|]. intros [b c1] (Hc1 & _).
    apply postr_ok. split; [exact Hc1|]. destruct (ch =? 45); auto.
  - intros [sg c1] (Hc1 & Hsg).
    eapply postr_rbind; [apply parse_hhmmss_spec; exact Hc1|]. intros [[[h m] s] c2] (Hc2 & Hh & Hm & Hs).
    apply postr_ok. auto.
Qed.

Lemma hms_secs_spec sg h m s : (sg = 1 \/ sg = -1) -> 0 <= h <= 167 -> 0 <= m <= 59 -> 0 <= s <= 59 ->
  post (hms_secs sg h m s) (fun v => v = sg * (h * 3600 + m * 60 + s)).
Proof.
  intros Hsg Hh Hm Hs. unfold hms_secs. unfold_ops.
  repeat chk_next'. cbv [bind]. repeat chk_next'.
  apply post_val. reflexivity.
Qed.

Lemma parse_offset_spec N c : cur_ok N c ->
  postr (parse_offset c) (fun '(v, c') => cur_ok N c' /\ -89999 <= v <= 89999).
Proof.
  intros Hc. unfold parse_offset, TZR_OFFSET_HOUR_MAX, TZR_MINSEC_MAX.
  eapply postr_rbind; [apply parse_signed_hhmmss_spec; exact Hc|].
  intros [[[[sg h] m] s] c1] (Hc1 & Hsg & Hh & Hm & Hs).
  destruct (negb ((0 <=? h) && (h <=? 24))) eqn:E1; [apply postr_fail|].
  destruct (negb ((0 <=? m) && (m <=? 59))) eqn:E2; [apply postr_fail|].
  destruct (negb ((0 <=? s) && (s <=? 59))) eqn:E3; [apply postr_fail|].
  eapply postr_bind; [apply hms_secs_spec; try assumption; lia|].
  intros v ->. apply postr_ok. split; [exact Hc1|]. destruct Hsg; subst sg; lia.
Qed.
Lemma parse_rule_time_spec N c : cur_ok N c ->
  postr (parse_rule_time c) (fun '(v, c') => cur_ok N c' /\ -604799 <= v <= 604799).
Proof.
  intros Hc. unfold parse_rule_time, TZR_RULE_HOUR_MAX, TZR_MINSEC_MAX.
  eapply postr_rbind; [apply parse_hhmmss_spec; exact Hc|].
  intros [[[h m] s] c1] (Hc1 & Hh & Hm & Hs).
  destruct (negb ((0 <=? h) && (h <=? 24))) eqn:E1; [apply postr_fail|].
  destruct (negb ((0 <=? m) && (m <=? 59))) eqn:E2; [apply postr_fail|].
  destruct (negb ((0 <=? s) && (s <=? 59))) eqn:E3; [apply postr_fail|].
  eapply postr_bind; [apply hms_secs_spec; try (left; reflexivity); lia|].
  intros v ->. apply postr_ok. split; [exact Hc1|]. lia.
Qed.
Lemma parse_rule_time_extended_spec N c : cur_ok N c ->
  postr (parse_rule_time_extended c) (fun '(v, c') => cur_ok N c' /\ -604799 <= v <= 604799).
Proof.
  intros Hc. unfold parse_rule_time_extended, TZR_RULE_EXT_HOUR_MIN, TZR_RULE_EXT_HOUR_MAX, TZR_MINSEC_MAX.
  eapply postr_rbind; [apply parse_signed_hhmmss_spec; exact Hc|].
  intros [[[[sg h] m] s] c1] (Hc1 & Hsg & Hh & Hm & Hs).
  destruct (negb ((-167 <=? h) && (h <=? 167))) eqn:E1; [apply postr_fail|].
  destruct (negb ((0 <=? m) && (m <=? 59))) eqn:E2; [apply postr_fail|].
  destruct (negb ((0 <=? s) && (s <=? 59))) eqn:E3; [apply postr_fail|].
  eapply postr_bind; [apply hms_secs_spec; try assumption; lia|].
  intros v ->. apply postr_ok. split; [exact Hc1|]. destruct Hsg; subst sg; lia.
Qed.

Lemma rule_day_parse_spec N c ext : cur_ok N c ->
  postr (rule_day_parse c ext) (fun '(d, t, c') => cur_ok N c' /\ day_ok d /\ -604799 <= t <= 604799).
Proof.
  intros Hc. unfold rule_day_parse.
  eapply postr_rbind with (P := fun '(d, c') => cur_ok N c' /\ day_ok d).
  - assert (Hj0 : postr (let+ '(n, c0) := read_int c u16_max in let+ d := Val (julian_0 n) in ok (d, c0))
                        (fun '(d, c') => cur_ok N c' /\ day_ok d)).
    { eapply postr_rbind; [apply read_int_spec; exact Hc|]. intros [n c1] (Hc1 & Hn).
      unfold julian_0, TZR_JULIAN0_MAX. destruct (n >? 365) eqn:E; [apply postr_fail|].
      cbn [rbind]. apply postr_ok. split; [exact Hc1|]. cbn [day_ok]. lia. }
    destruct (peek c) as [x|]; [|exact Hj0].
    destruct (Z.eq_dec x 77) as [->|Hn77].
    + eapply postr_rbind; [apply read_exact_spec; exact Hc|]. intros [b1 c1] (Hc1 & _).
      eapply postr_rbind; [apply read_int_spec; exact Hc1|]. intros [mo c2] (Hc2 & Hmo).
      eapply postr_rbind; [apply read_tag_spec; exact Hc2|]. intros c3 Hc3.
      eapply postr_rbind; [apply read_int_spec; exact Hc3|]. intros [w c4] (Hc4 & Hw).
      eapply postr_rbind; [apply read_tag_spec; exact Hc4|]. intros c5 Hc5.
      eapply postr_rbind; [apply read_int_spec; exact Hc5|]. intros [wd c6] (Hc6 & Hwd).
      unfold month_weekday.
      destruct (negb ((1 <=? mo) && (mo <=? 12))) eqn:E1; [apply postr_fail|].
      destruct (negb ((1 <=? w) && (w <=? 5))) eqn:E2; [apply postr_fail|].
      destruct (wd >? 6) eqn:E3; [apply postr_fail|].
      cbn [rbind]. apply postr_ok. split; [exact Hc6|]. cbn [day_ok]. lia.
    + destruct (Z.eq_dec x 74) as [->|Hn74].
      * eapply postr_rbind; [apply read_exact_spec; exact Hc|]. intros [b1 c1] (Hc1 & _).
        eapply postr_rbind; [apply read_int_spec; exact Hc1|]. intros [n c2] (Hc2 & Hn).
        unfold julian_1, TZR_JULIAN1_MIN, TZR_JULIAN1_MAX.
        destruct (negb ((1 <=? n) && (n <=? 365))) eqn:E; [apply postr_fail|].
        cbn [rbind]. apply postr_ok. split; [exact Hc2|]. cbn [day_ok]. lia.
      * assert (E : forall (X : Type) (a b0 d0 : X), match x with 77 => a | 74 => b0 | _ => d0 end = d0).
        { intros X a b0 d0. destruct x as [|p|p]; try reflexivity.
          repeat (destruct p as [p|p|]; try reflexivity); lia. }
        rewrite E. exact Hj0.
  - intros [d c1] (Hc1 & Hd).
    eapply postr_rbind; [apply read_optional_tag_spec; exact Hc1|]. intros [slash c2] Hc2.
    destruct slash; cbn [negb].
    + destruct ext.
      * eapply postr_rbind; [apply parse_rule_time_extended_spec; exact Hc2|]. intros [t c3] (Hc3 & Ht).
        apply postr_ok. auto.
      * eapply postr_rbind; [apply parse_rule_time_spec; exact Hc2|]. intros [t c3] (Hc3 & Ht).
        apply postr_ok. auto.
    + apply postr_ok. unfold TZR_DEFAULT_RULE_TIME. split; [assumption|]. split; [assumption|lia].
Qed.

Lemma cur_new_ok (s : bytes) : zlen s <= u64_max -> Forall byte s -> cur_ok (zlen s) (cur_new s).
Proof.
  intros H HF. unfold cur_ok, cur_new. cbn [remaining read_count]. repeat split; try assumption; lia.
Qed.

Theorem from_tz_string_spec s ext : zlen s <= u64_max -> Forall byte s ->
  postr (from_tz_string s ext) rule_ok.
Proof.
  intros Hl HF. unfold from_tz_string. pose proof (cur_new_ok s Hl HF) as Hc0.
  set (N := zlen s) in *. clearbody N.
  eapply postr_rbind; [apply parse_name_spec; exact Hc0|]. intros [std_name c1] Hc1.
  eapply postr_rbind; [apply parse_offset_spec; exact Hc1|]. intros [so c2] (Hc2 & Hso).
  destruct (cur_is_empty c2).
  { unfold_ops. rewrite chk_in by range_solver. cbv [bind].
    eapply postr_rbind; [apply ltt_new_spec; range_solver|]. intros l (Hl0 & _). apply postr_ok. exact Hl0. }
  eapply postr_rbind; [apply parse_name_spec; exact Hc2|]. intros [dst_name c3] Hc3.
  eapply postr_rbind with (P := fun '(v, c') => cur_ok N c' /\ -100000 <= v <= 100000).
  { destruct (peek c3) as [x|]; [|apply postr_fail].
    destruct (Z.eq_dec x 44) as [->|Hne].
    - unfold_ops. unfold TZR_DEFAULT_DST_SHIFT. rewrite chk_in by range_solver. cbv [bind].
      apply postr_ok. split; [exact Hc3|lia].
    - assert (E : forall (X : Type) (a b0 : X), match x with 44 => a | _ => b0 end = b0).
      { intros X a b0. destruct x as [|p|p]; try reflexivity.
        repeat (destruct p as [p|p|]; try reflexivity); lia. }
      rewrite E. eapply postr_weaken; [apply parse_offset_spec; exact Hc3|].
      intros [v c'] (H1 & H2). split; [exact H1|lia]. }
  intros [dof c4] (Hc4 & Hdo).
  destruct (cur_is_empty c4); [apply postr_fail|].
  eapply postr_rbind; [apply read_tag_spec; exact Hc4|]. intros c5 Hc5.
  eapply postr_rbind; [apply rule_day_parse_spec; exact Hc5|]. intros [[ds dst_] c6] (Hc6 & Hds & Hdst).
  eapply postr_rbind; [apply read_tag_spec; exact Hc6|]. intros c7 Hc7.
  eapply postr_rbind; [apply rule_day_parse_spec; exact Hc7|]. intros [[de det] c8] (Hc8 & Hde & Hdet).
  destruct (negb (cur_is_empty c8)); [apply postr_fail|].
  unfold_ops. rewrite chk_in by range_solver. cbv [bind].
  eapply postr_rbind; [apply ltt_new_spec; range_solver|]. intros std (Hstd & _).
  rewrite chk_in by range_solver. cbv beta iota.
  eapply postr_rbind; [apply ltt_new_spec; range_solver|]. intros dst (Hdst' & _).
  unfold alt_new, TZ_SECONDS_PER_WEEK.
  destruct (negb ((Z.abs dst_ <? 604800) && (Z.abs det <? 604800))) eqn:E; [apply postr_fail|].
  cbn [rbind]. apply postr_ok. cbn [rule_ok]. unfold alt_ok.
  cbn [a_std a_dst dst_start dst_end dst_start_time dst_end_time].
  split; [exact Hstd|]. split; [exact Hdst'|]. split; [exact Hds|]. split; [exact Hde|]. lia.
Qed.
