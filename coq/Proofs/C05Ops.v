(** C05 at the level of the DISPATCHER (Model/C05.v [run]) against the JUDGE (Judge/C05.v [judge]):
    for the ops lz.at / lz.loc / lz.sel / lz.rt / lz.env, every zone source, every judge-side zone
    model and every batch of arguments, the judge accepts the model's output whenever it has an
    opinion.  The proof is done once, against a CONTRACT between a model zone [zone] (what the
    reader produced from the case's bytes) and the judge's zone [sz] (what dec_zone read from the
    case's structured model):  [lookup_ok zone sz]  = the two lookups answer what the oracle
    prescribes on the judge's domain.  The contract is then discharged for table-only zones,
    rule-only zones and composite zones (Proofs/C05OpsZones.v).

    The pieces below the contract:
    - [arg_secs_spec]: an argument x the dispatcher accepts is a supported NaiveDateTime whose second
      count is x (C02: from_timestamp) -- C04's [ndt_ok] with [wsecs] = x;
    - [ts_ok_supported]: the judge's range condition (three days inside chrono's range) makes every
      candidate instant supported (C04's in_rng);
    - the encoders: [enc_mlt] / [enc_opt] of the values are the judge's expected tuples;
    - [walk_core]: the batch.

    Spacing.  The judge's lz.at / lz.loc / lz.sel / lz.rt branches do not test the spacing
    condition themselves: the generator routes a reading at which the zone is not well spaced to
    the known-finding ops lz.uat / lz.uloc / lz.usel / lz.urt, whose judge skips exactly the well
    spaced readings.  [spaced_elem] is that routing condition, element by element; it is a
    hypothesis of the theorem (without it the statement is false: C05_unspaced_refuted). *)
From Coq Require Import ZArith List Bool Lia ZifyBool String.
From V Require Import Base.Int Base.IO Spec.Gregorian Spec.Zone.
From V Require Import Model.TzParser Model.TzRule Model.TzLookup Model.C05.
From V Require Model.Date Model.Time Model.DateTime Model.C16.
From V Require Import Proofs.TzCommon Proofs.C05 Proofs.C05Composite Proofs.C05Glue Proofs.C05Judge Proofs.C05Holds Proofs.HoldsLib.
Import ListNotations.
Open Scope Z_scope.
Ltac Zify.zify_post_hook ::= Z.to_euclidean_division_equations.

(** * Arguments *)
Lemma arg_secs_spec x n : arg_secs (VInt x) = Some n -> P4.ndt_ok n /\ wsecs n = x.
Proof.
  unfold arg_secs. destruct (in_i64 x) eqn:Hx; [|discriminate].
  destruct (P2D.u_from_timestamp_spec x 0 Hx eq_refl) as (r & Hr & Hs). rewrite Hr.
  destruct r as [a|]; [|discriminate]. intros E; injection E as <-.
  destruct Hs as (Hv & Hsec & Hf & _).
  assert (Hok : P4.ndt_ok a).
  { destruct Hv as (Hd & Hs' & Hf'). split; [exact Hd|]. unfold P4.time_ok, P2.dsecs, P2.dfrac, P2.G in *. lia. }
  split; [exact Hok|].
  pose proof (ts_wall a Hok) as H1. rewrite (P2D.u_timestamp_spec a Hv) in H1. injection H1 as H1. lia.
Qed.

Lemma ts_ok_supported x o : J.ts_ok x = true -> -259200 <= o <= 259200 -> supported (x - o) = true.
Proof. unfold J.ts_ok, J.TS_MIN, J.TS_MAX, supported, P4.in_rng, P4.TMIN, P4.TMAX, EPOCH_DN. lia. Qed.

Lemma fo_ok_off o : J.fo_ok o = true <-> off_ok o.
Proof. unfold J.fo_ok, off_ok. lia. Qed.

(** * The batch *)
Definition ev_fine (e : J.ev) : Prop := match e with J.EBad _ => False | _ => True end.

Lemma walk_fine j xs outs : Forall2 (fun x o => ev_fine (j x o)) xs outs ->
  forall i any, J.walk j i xs outs any = JOk \/ J.walk j i xs outs any = JSkip.
Proof.
  induction 1 as [|x o xs outs Hx _ IH]; intros i any; cbn [J.walk].
  - destruct any; auto.
  - destruct (j x o); [apply IH|apply IH|contradiction].
Qed.

Lemma ints_all_some : forall l zs ns, J.ints l = Some zs -> C16.all_some arg_secs l = Some ns ->
  Forall2 (fun x n => arg_secs (VInt x) = Some n) zs ns.
Proof.
  induction l as [|v l IH]; intros zs ns Hi Ha; cbn [J.ints C16.all_some] in *.
  - injection Hi as <-. injection Ha as <-. constructor.
  - destruct v; try discriminate. destruct (J.ints l) as [zs'|]; [|discriminate]. injection Hi as <-.
    destruct (arg_secs (VInt z)) eqn:E; [|discriminate].
    destruct (C16.all_some arg_secs l); [|discriminate]. injection Ha as <-.
    constructor; [exact E|apply IH; reflexivity].
Qed.

Lemma Forall2_map_in {TA TB TC} (R : TA -> TB -> Prop) (Q : TA -> TC -> Prop) (g : TB -> TC) xs ns :
  Forall2 R xs ns -> (forall x n, In x xs -> R x n -> Q x (g n)) -> Forall2 Q xs (map g ns).
Proof.
  induction 1 as [|x n xs ns Hx _ IH]; intros H; cbn [map]; constructor.
  - apply H; [left; reflexivity|exact Hx].
  - apply IH. intros y m Hy. apply H. right. exact Hy.
Qed.

(* the elements of a batch as the judge reads them *)
Definition elems (xs : val) : list Z :=
  match xs with VTup l => match J.ints l with Some zs => zs | None => [] end | _ => [] end.

Lemma walk_core j (g : DateTime.ndt -> val) l zs ns :
  J.ints l = Some zs -> C16.all_some arg_secs l = Some ns ->
  (forall x n, In x zs -> arg_secs (VInt x) = Some n -> ev_fine (j x (g n))) ->
  J.walk j 0 zs (map g ns) false = JOk \/ J.walk j 0 zs (map g ns) false = JSkip.
Proof.
  intros Hi Ha H. apply walk_fine.
  apply (Forall2_map_in (fun x n => arg_secs (VInt x) = Some n)); [exact (ints_all_some l zs ns Hi Ha)|exact H].
Qed.

Lemma batch_holds src xs zone (f : timezone -> DateTime.ndt -> val) j :
  zone_of_src src = Some (Val (Ok zone)) ->
  (forall x n, In x (elems xs) -> arg_secs (VInt x) = Some n -> ev_fine (j x (f zone n))) ->
  J.batch j xs (batch src xs f) <> JSkip -> J.batch j xs (batch src xs f) = JOk.
Proof.
  intros Hz H. unfold J.batch, batch, elems in *. rewrite Hz.
  destruct xs as [| | | |l| | | |]; try (intros K; exfalso; apply K; reflexivity).
  destruct (J.ints l) as [zs|] eqn:Ei; [|intros K; exfalso; apply K; reflexivity].
  unfold arg_list. destruct (C16.all_some arg_secs l) as [ns|] eqn:Ea.
  - destruct (walk_core j (f zone) l zs ns Ei Ea H) as [E|E]; rewrite E; [reflexivity|intros K; exfalso; apply K; reflexivity].
  - unfold VBad. intros K; exfalso; apply K; reflexivity.
Qed.

(** * The contract between the model zone and the judge's zone *)
(* the routing condition for an instant: the rule is regular around its year (the judge's lz.uat
   takes the others) *)
Definition at_spaced (sz : szone) (t : Z) : bool :=
  match z_rule sz with Some (inr a) => J.spacing_rule_self a (utc_year t) | _ => true end.

(* lz.rt on a table followed by a rule: the round trip is proved off the excepted seconds only (the
   judge's lz.rt does not except them; on table-only and rule-only zones neither do the theorems) *)
Definition rt_excepted (sz : szone) (l : Z) : bool :=
  match z_trans sz, z_rule sz with _ :: _, Some (inr _) => excepted_wall sz l | _, _ => false end.

Record lookup_ok (zone : timezone) (sz : szone) : Prop := {
  lk_at : forall t o, at_spaced sz t = true -> J.in_dom sz t = true -> zone_off sz t = Some o ->
          exists lt, find_local_time_type zone t = Val (Ok lt) /\ ut_offset lt = o;
  lk_loc : forall w l, J.spacing_ok sz w = true -> J.expected_loc (zone_offsets sz) sz w = Some l ->
          exists m, find_local_time_type_from_local zone (utc_year w) w = Val (Ok m) /\
                    mlt_list (mlt_map m ut_offset) = l;
  lk_rt : forall t o, J.spacing_ok sz (t + o) = true -> J.in_dom sz t = true -> zone_off sz t = Some o ->
          J.in_dom sz (t + o) = true -> J.offsets_ok sz = true -> rt_excepted sz (t + o) = false ->
          exists m, find_local_time_type_from_local zone (utc_year (t + o)) (t + o) = Val (Ok m) /\
                    contains m o /\ (forall o', contains m o' -> In o' (zone_offsets sz)) /\
                    (forall a b, m = MAmbiguous a b -> ut_offset a > ut_offset b) }.

(** * Elements *)
Lemma in_dom_ts sz x : J.in_dom sz x = true -> J.ts_ok x = true.
Proof. unfold J.in_dom. intros H. apply andb_prop in H. tauto. Qed.

(* lz.at *)
Lemma el_at zone sz x n : lookup_ok zone sz -> arg_secs (VInt x) = Some n -> at_spaced sz x = true ->
  ev_fine (J.j_at sz x (op_at zone n)).
Proof.
  intros L Ha Hsp. destruct (arg_secs_spec x n Ha) as [Hn Hw].
  unfold J.j_at. destruct (J.in_dom sz x) eqn:Hd; cbn [negb]; [|exact I].
  destruct (zone_off sz x) as [o|] eqn:Ho; [|exact I].
  destruct (J.fo_ok o) eqn:Hf; cbn [negb]; [|exact I].
  destruct (lk_at zone sz L x o Hsp Hd Ho) as (lt & Hlt & Ho'). rewrite <- Hw in Hlt.
  apply fo_ok_off in Hf. rewrite <- Ho' in Hf.
  destruct (proj1 (from_utc_values zone n lt Hn Hlt) Hf) as [Hv _].
  unfold op_at. rewrite Hv. cbn [val_of_R off_of DateTime.dz_off]. rewrite Ho', hl_val_eqb_refl. exact I.
Qed.

(* the judge's expected offsets can all be carried *)
Lemma expected_loc_offs sz w l : J.expected_loc (zone_offsets sz) sz w = Some l -> Forall off_ok l.
Proof.
  unfold J.expected_loc.
  destruct (negb (J.in_dom sz w) || negb (forallb J.fo_ok (zone_offsets sz)) || excepted_wall sz w
            || J.undetermined (zone_offsets sz) sz w); [discriminate|].
  destruct (instants_of_wall_among (zone_offsets sz) sz w) as [|t1 [|t2 [|t3 r]]]; try discriminate.
  - intros E; injection E as <-. constructor.
  - destruct (J.fo_ok (w - t1)) eqn:F; [|discriminate]. intros E; injection E as <-.
    constructor; [apply fo_ok_off; exact F|constructor].
  - destruct (J.fo_ok (w - t1)) eqn:F1; [|discriminate]. destruct (J.fo_ok (w - t2)) eqn:F2; [|discriminate].
    cbn [andb]. intros E; injection E as <-.
    constructor; [apply fo_ok_off; exact F1|constructor; [apply fo_ok_off; exact F2|constructor]].
Qed.

Lemma contains_in_list (m : mlt ltt) o : contains m o -> In o (mlt_list (mlt_map m ut_offset)).
Proof. destruct m as [|a|a b]; cbn [contains mlt_map mlt_list In]; tauto. Qed.

Lemma cand_supported w m : J.ts_ok w = true -> (forall o, contains m o -> off_ok o) ->
  forallb supported (cand_instants w m) = true.
Proof.
  intros Hts H. destruct m as [|a|a b]; cbn [cand_instants forallb contains] in *.
  - reflexivity.
  - rewrite (ts_ok_supported w (ut_offset a) Hts); [reflexivity|]. pose proof (H _ eq_refl) as K. unfold off_ok in K. lia.
  - rewrite (ts_ok_supported w (ut_offset a) Hts), (ts_ok_supported w (ut_offset b) Hts); [reflexivity| |].
    + pose proof (H _ (or_intror eq_refl)) as K. unfold off_ok in K. lia.
    + pose proof (H _ (or_introl eq_refl)) as K. unfold off_ok in K. lia.
Qed.

(* the values Local.from_local_datetime returns at a reading the judge has an expectation for *)
Lemma loc_values zone sz w n l : lookup_ok zone sz -> arg_secs (VInt w) = Some n ->
  J.spacing_ok sz w = true -> J.expected_loc (zone_offsets sz) sz w = Some l ->
  exists r, from_local_datetime zone n = Val r /\ map DateTime.dz_off (mlt_list r) = l.
Proof.
  intros L Ha Hsp He. destruct (arg_secs_spec w n Ha) as [Hn Hw].
  destruct (lk_loc zone sz L w l Hsp He) as (m & Hm & Hl).
  pose proof (expected_loc_offs sz w l He) as Hoffs. rewrite Forall_forall in Hoffs.
  assert (Hc : forall o, contains m o -> off_ok o).
  { intros o Ho. apply Hoffs. rewrite <- Hl. apply contains_in_list. exact Ho. }
  destruct (expected_loc_dom sz w l He) as (Hdom & _ & _).
  rewrite <- Hw in Hm.
  destruct (from_local_values zone n m Hn Hm Hc) as (r & Hr & H). cbv zeta in H.
  rewrite Hw in H. rewrite (cand_supported w m (in_dom_ts _ _ Hdom) Hc) in H.
  destruct H as (_ & _ & H3). exists r. split; [exact Hr|]. rewrite H3. exact Hl.
Qed.

Lemma enc_mlt_offs (r : mlt DateTime.dtz) :
  enc_mlt off_of r = VTup (map VInt (map DateTime.dz_off (mlt_list r))).
Proof. destruct r; reflexivity. Qed.

(* lz.loc *)
Lemma el_loc zone sz w n : lookup_ok zone sz -> arg_secs (VInt w) = Some n -> J.spacing_ok sz w = true ->
  ev_fine (J.j_loc (zone_offsets sz) sz w (op_loc zone n)).
Proof.
  intros L Ha Hsp. unfold J.j_loc. destruct (J.expected_loc (zone_offsets sz) sz w) as [l|] eqn:He; [|exact I].
  destruct (loc_values zone sz w n l L Ha Hsp He) as (r & Hr & Hl).
  unfold op_loc. rewrite Hr. cbn [val_of_R]. rewrite enc_mlt_offs, Hl, hl_val_eqb_refl. exact I.
Qed.

(* lz.sel *)
Lemma el_sel zone sz w n : lookup_ok zone sz -> arg_secs (VInt w) = Some n -> J.spacing_ok sz w = true ->
  ev_fine (J.j_sel (zone_offsets sz) sz w (op_sel zone n)).
Proof.
  intros L Ha Hsp. unfold J.j_sel. destruct (J.expected_loc (zone_offsets sz) sz w) as [l|] eqn:He; [|exact I].
  destruct (loc_values zone sz w n l L Ha Hsp He) as (r & Hr & Hl).
  unfold op_sel. rewrite Hr. cbn [val_of_R]. subst l.
  destruct r as [|a|a b]; cbn [mlt_list map mlt_earliest mlt_latest mlt_single enc_opt off_of];
    rewrite hl_val_eqb_refl; exact I.
Qed.

(* the wall-clock reading of the value Local.from_utc_datetime returns *)
Lemma utc_wall zone n lt : P4.ndt_ok n -> find_local_time_type zone (wsecs n) = Val (Ok lt) ->
  off_ok (ut_offset lt) -> supported (wsecs n + ut_offset lt) = true ->
  exists w, from_utc_datetime zone n = Val (DateTime.mk_dtz n (ut_offset lt)) /\
            DateTime.naive_local (DateTime.mk_dtz n (ut_offset lt)) = Val w /\
            P4.ndt_ok w /\ wsecs w = wsecs n + ut_offset lt.
Proof.
  intros Hn Hl Ho Hsup.
  destruct (proj1 (from_utc_values zone n lt Hn Hl) Ho) as [Hv Hvok].
  set (v := DateTime.mk_dtz n (ut_offset lt)) in *.
  pose proof (P4D.naive_local_panics_iff v Hvok) as Hnl.
  assert (Hw : P4.wall v = wsecs n + ut_offset lt + EPOCH_DN * 86400).
  { unfold P4.wall, v, wsecs. cbn [DateTime.dz_utc DateTime.dz_off]. lia. }
  unfold supported in Hsup. rewrite Hw, Hsup in Hnl. destruct Hnl as (w & Hnw & Hwok & Hwu & _).
  exists w. split; [exact Hv|]. split; [exact Hnw|]. split; [exact Hwok|]. unfold wsecs in *. lia.
Qed.

Lemma ts_of_value local off v : value_at local off v -> ts_of v = Val (VInt (dz_unix v)).
Proof.
  intros ((Hok & _) & _). unfold ts_of. rewrite (ts_wall _ Hok). reflexivity.
Qed.

(* lz.rt *)
Lemma el_rt zone sz t n : lookup_ok zone sz -> arg_secs (VInt t) = Some n ->
  at_spaced sz t = true ->
  (forall o, zone_off sz t = Some o -> J.spacing_ok sz (t + o) = true /\ rt_excepted sz (t + o) = false) ->
  ev_fine (J.j_rt sz t (op_rt zone n)).
Proof.
  intros L Ha Hsa Hsp. destruct (arg_secs_spec t n Ha) as [Hn Hw].
  unfold J.j_rt. destruct (J.in_dom sz t) eqn:Hd; cbn [negb orb]; [|exact I].
  destruct (J.offsets_ok sz) eqn:Hoo; cbn [negb]; [|exact I].
  destruct (zone_off sz t) as [o|] eqn:Ho; [|exact I].
  destruct (J.fo_ok o) eqn:Hf; cbn [negb andb]; [|exact I].
  destruct (J.in_dom sz (t + o)) eqn:Hd2; cbn [negb]; [|exact I].
  destruct (Hsp o eq_refl) as [Hsp' Hexc]. clear Hsp. rename Hsp' into Hsp.
  destruct (lk_at zone sz L t o Hsa Hd Ho) as (lt & Hlt & Ho'). rewrite <- Hw in Hlt.
  apply fo_ok_off in Hf.
  pose proof (in_dom_ts _ _ Hd2) as Hts2.
  assert (Hsup : supported (wsecs n + ut_offset lt) = true).
  { rewrite Hw, Ho'. replace (t + o) with (t + o - 0) by lia. apply ts_ok_supported; [exact Hts2|lia]. }
  rewrite <- Ho' in Hf.
  destruct (utc_wall zone n lt Hn Hlt Hf Hsup) as (w & Hv & Hnw & Hwok & Hww).
  rewrite Hw, Ho' in Hww.
  destruct (lk_rt zone sz L t o Hsp Hd Ho Hd2 Hoo Hexc) as (m & Hm & Hc & Hin & Hord).
  assert (Hoffs : forall o', contains m o' -> off_ok o').
  { intros o' Hc'. apply fo_ok_off. unfold J.offsets_ok in Hoo. rewrite forallb_forall in Hoo. apply Hoo, Hin, Hc'. }
  rewrite <- Hww in Hm.
  destruct (from_local_values zone w m Hwok Hm Hoffs) as (r & Hr & H). cbv zeta in H.
  rewrite Hww in H. rewrite (cand_supported (t + o) m Hts2 Hoffs) in H. destruct H as (H1 & H2 & _).
  unfold op_rt. rewrite Hv. cbn [bind]. rewrite Hnw. cbn [bind]. rewrite (ts_wall w Hwok), Hww. cbn [bind].
  rewrite Hr. cbn [bind].
  destruct m as [|x|x y]; cbn [contains cand_instants] in Hc, H1.
  - contradiction.
  - destruct r as [|a|a b]; cbn [mlt_list map] in H1, H2; try discriminate.
    injection H1 as H1. pose proof (Forall_inv H2) as Hva. cbv beta in Hva.
    rewrite (ts_of_value _ _ _ Hva). cbn [bind val_of_R]. rewrite H1.
    replace ((t + o =? t + o) && (t + o - ut_offset x =? t)) with true by lia. exact I.
  - destruct r as [|a|a b]; cbn [mlt_list map] in H1, H2; try discriminate.
    injection H1 as H1a H1b. pose proof (Forall_inv H2) as Hva. pose proof (Forall_inv (Forall_inv_tail H2)) as Hvb. cbv beta in Hva, Hvb.
    rewrite (ts_of_value _ _ _ Hva). cbn [bind]. rewrite (ts_of_value _ _ _ Hvb). cbn [bind val_of_R].
    rewrite H1a, H1b. pose proof (Hord x y eq_refl) as Hgt.
    replace ((t + o =? t + o) && (t + o - ut_offset x <? t + o - ut_offset y)
             && ((t + o - ut_offset x =? t) || (t + o - ut_offset y =? t))) with true by lia.
    exact I.
Qed.

(** * The dispatcher *)
Definition covered_op (op : bytes) : bool :=
  op_is op "lz.at" || op_is op "lz.loc" || op_is op "lz.sel" || op_is op "lz.rt".
Definition spaced_elem (op : bytes) (sz : szone) (x : Z) : bool :=
  if op_is op "lz.at" then at_spaced sz x
  else if op_is op "lz.rt" then
    at_spaced sz x && match zone_off sz x with
                      | Some o => J.spacing_ok sz (x + o) && negb (rt_excepted sz (x + o))
                      | None => true end
  else J.spacing_ok sz x.

Ltac opis := repeat match goal with |- context [op_is ?a ?s] =>
  let v := eval vm_compute in (op_is a s) in change (op_is a s) with v end.
Lemma run_at src zm xs : run B"lz.at" [src; zm; xs] = batch src xs op_at. Proof. unfold run. opis. destruct xs; reflexivity. Qed.
Lemma run_loc src zm xs : run B"lz.loc" [src; zm; xs] = batch src xs op_loc. Proof. unfold run. opis. destruct xs; reflexivity. Qed.
Lemma run_sel src zm xs : run B"lz.sel" [src; zm; xs] = batch src xs op_sel. Proof. unfold run. opis. destruct xs; reflexivity. Qed.
Lemma run_rt src zm xs : run B"lz.rt" [src; zm; xs] = batch src xs op_rt. Proof. unfold run. opis. destruct xs; reflexivity. Qed.

Lemma judge_at src zm xs sz out : J.dec_zone src zm = Some sz ->
  J.judge B"lz.at" [src; zm; xs] out = J.batch (J.j_at sz) xs out.
Proof. intros H. unfold J.judge. destruct xs; rewrite H; opis; reflexivity. Qed.
Lemma judge_loc src zm xs sz out : J.dec_zone src zm = Some sz ->
  J.judge B"lz.loc" [src; zm; xs] out = J.batch (J.j_loc (zone_offsets sz) sz) xs out.
Proof. intros H. unfold J.judge. destruct xs; rewrite H; opis; reflexivity. Qed.
Lemma judge_sel src zm xs sz out : J.dec_zone src zm = Some sz ->
  J.judge B"lz.sel" [src; zm; xs] out = J.batch (J.j_sel (zone_offsets sz) sz) xs out.
Proof. intros H. unfold J.judge. destruct xs; rewrite H; opis; reflexivity. Qed.
Lemma judge_rt src zm xs sz out : J.dec_zone src zm = Some sz ->
  J.judge B"lz.rt" [src; zm; xs] out = J.batch (J.j_rt sz) xs out.
Proof. intros H. unfold J.judge. destruct xs; rewrite H; opis; reflexivity. Qed.

Theorem holds_ops op src zm xs zone sz :
  lookup_ok zone sz -> zone_of_src src = Some (Val (Ok zone)) -> J.dec_zone src zm = Some sz ->
  covered_op op = true -> (forall x, In x (elems xs) -> spaced_elem op sz x = true) ->
  J.judge op [src; zm; xs] (run op [src; zm; xs]) <> JSkip ->
  J.judge op [src; zm; xs] (run op [src; zm; xs]) = JOk.
Proof.
  intros L Hz Hd Hop Hsp. unfold covered_op in Hop.
  destruct (op_is op "lz.at") eqn:E1.
  { apply hl_op_is_eq in E1. subst op. rewrite run_at, (judge_at _ _ _ sz _ Hd).
    apply (batch_holds _ _ zone); [exact Hz|]. intros x n Hx Ha. apply (el_at zone sz x n L Ha).
    exact (Hsp x Hx). }
  destruct (op_is op "lz.loc") eqn:E2.
  { apply hl_op_is_eq in E2. subst op. rewrite run_loc, (judge_loc _ _ _ sz _ Hd).
    apply (batch_holds _ _ zone); [exact Hz|]. intros x n Hx Ha. apply (el_loc zone sz x n L Ha).
    exact (Hsp x Hx). }
  destruct (op_is op "lz.sel") eqn:E3.
  { apply hl_op_is_eq in E3. subst op. rewrite run_sel, (judge_sel _ _ _ sz _ Hd).
    apply (batch_holds _ _ zone); [exact Hz|]. intros x n Hx Ha. apply (el_sel zone sz x n L Ha).
    exact (Hsp x Hx). }
  destruct (op_is op "lz.rt") eqn:E4; [|discriminate].
  apply hl_op_is_eq in E4. subst op. rewrite run_rt, (judge_rt _ _ _ sz _ Hd).
  apply (batch_holds _ _ zone); [exact Hz|]. intros x n Hx Ha.
  pose proof (Hsp x Hx) as K. change (spaced_elem B"lz.rt" sz x) with
    (at_spaced sz x && match zone_off sz x with
                       | Some o => J.spacing_ok sz (x + o) && negb (rt_excepted sz (x + o))
                       | None => true end) in K.
  apply andb_prop in K. destruct K as [K1 K2].
  apply (el_rt zone sz x n L Ha K1). intros o Ho. rewrite Ho in K2. apply andb_prop in K2.
  destruct K2 as [K2 K3]. split; [exact K2|]. destruct (rt_excepted sz (x + o)); [discriminate|reflexivity].
Qed.

(* lz.env: lz.at (direction 0) / lz.loc (direction 1) through the public route *)
Theorem holds_env b zm dir xs zone sz :
  lookup_ok zone sz -> parse b = Val (Ok zone) -> J.dec_zone (VStr b) zm = Some sz ->
  (forall x, In x (elems xs) -> (if dir =? 0 then at_spaced sz x else J.spacing_ok sz x) = true) ->
  J.judge B"lz.env" [VStr b; zm; VInt dir; xs] (run B"lz.env" [VStr b; zm; VInt dir; xs]) <> JSkip ->
  J.judge B"lz.env" [VStr b; zm; VInt dir; xs] (run B"lz.env" [VStr b; zm; VInt dir; xs]) = JOk.
Proof.
  intros L Hz Hd Hsp.
  assert (Hb : zone_of_src (VStr b) = Some (Val (Ok zone))) by (cbn [zone_of_src]; rewrite Hz; reflexivity).
  assert (Hj : forall out, J.judge B"lz.env" [VStr b; zm; VInt dir; xs] out =
               if dir =? 0 then J.batch (J.j_at sz) xs out
               else if dir =? 1 then J.batch (J.j_loc (zone_offsets sz) sz) xs out else JSkip).
  { intros out. unfold J.judge. rewrite Hd. opis. reflexivity. }
  destruct (dir =? 0) eqn:D0.
  - assert (Hr : run B"lz.env" [VStr b; zm; VInt dir; xs] = batch (VStr b) xs op_at).
    { change (run B"lz.env" [VStr b; zm; VInt dir; xs]) with
        (match env_zone (VStr b), arg_list xs with
         | Some z, Some ns =>
             if (dir =? 0) || (dir =? 1) then
               match z with
               | Val (Ok z) => VTup (map (if dir =? 0 then op_at z else op_loc z) ns)
               | Val (Err e) => enc_err e | Panic => VPanic | OutOfFuel => VFuel end
             else VBad
         | _, _ => VBad end).
      unfold batch. cbn [env_zone zone_of_src]. rewrite Hz, D0. cbn [orb]. reflexivity. }
    rewrite Hr, Hj, ?D0. cbv iota. apply (batch_holds _ _ zone); [exact Hb|]. intros x n Hx Ha. apply (el_at zone sz x n L Ha).
    exact (Hsp x Hx).
  - destruct (dir =? 1) eqn:D1.
    + assert (Hr : run B"lz.env" [VStr b; zm; VInt dir; xs] = batch (VStr b) xs op_loc).
      { change (run B"lz.env" [VStr b; zm; VInt dir; xs]) with
          (match env_zone (VStr b), arg_list xs with
           | Some z, Some ns =>
               if (dir =? 0) || (dir =? 1) then
                 match z with
                 | Val (Ok z) => VTup (map (if dir =? 0 then op_at z else op_loc z) ns)
                 | Val (Err e) => enc_err e | Panic => VPanic | OutOfFuel => VFuel end
               else VBad
           | _, _ => VBad end).
        unfold batch. cbn [env_zone zone_of_src]. rewrite Hz, D0, D1. cbn [orb]. reflexivity. }
      rewrite Hr, Hj, ?D0, ?D1. cbv iota. apply (batch_holds _ _ zone); [exact Hb|]. intros x n Hx Ha. apply (el_loc zone sz x n L Ha).
      exact (Hsp x Hx).
    + rewrite Hj, ?D0, ?D1. cbv iota. intros K. exfalso. apply K. reflexivity.
Qed.
