(** C05: the continuity condition of the composite-zone theorems ([footer_continues],
    Proofs/C05Composite.v) against the judge's own domain condition for composite zones
    ([spacing_rule_table], Judge/C05.v): wherever the last table transition, read on the clocks
    involved, lies in one calendar year and the offset after it is the rule's offset there, a zone
    the judge calls well spaced satisfies [footer_continues] -- so the readings the judge judges
    under lz.loc / lz.sel / lz.rt on such zones are readings the theorems speak about. *)
From Coq Require Import ZArith List Bool Lia ZifyBool.
From V Require Import Base.Int Base.IO Spec.Gregorian Spec.Zone.
From V Require Import Model.TzParser Model.TzRule Model.TzLookup.
From V Require Import Proofs.TzCommon Proofs.C05 Proofs.C05Composite.
From V Require Judge.C05.
Import ListNotations.
Open Scope Z_scope.

Module J := V.Judge.C05.

Lemma before_last_window : forall tr cur tl pv ol,
  last_window tr cur = Some (tl, pv, ol) -> J.before_last tr cur = pv.
Proof.
  induction tr as [|[t o] rest IH]; intros cur tl pv ol H; [discriminate|].
  destruct rest as [|p rest'].
  - cbn in H. injection H as _ <- _. reflexivity.
  - change (J.before_last ((t, o) :: p :: rest') cur) with (J.before_last (p :: rest') o).
    change (last_window ((t, o) :: p :: rest') cur) with
      (match last_window (p :: rest') o with Some w => Some w | None => Some (t, cur, o) end) in H.
    destruct (last_window (p :: rest') o) as [w|] eqn:E.
    + injection H as ->. exact (IH o tl pv ol E).
    + apply last_window_none in E. discriminate.
Qed.

(* the judge's test of one rule transition (r, before, after) against the last table window *)
Definition jcond (tl pv ol : Z) (ev : Z * Z * Z) : bool :=
  let '(r, before, after) := ev in
  let '(lo, hi) := J.ev_window ev in
  if r =? tl then before =? pv
  else if r <? tl then hi <? tl + Z.min pv ol
  else tl + Z.max pv ol <? lo.

Lemma judge_arith (b : Z -> bool) S E std dst ys ye tl pv ol :
  (forall t, ys <= t + std < ye \/ ys <= t + dst < ye ->
     b t = (if S <? E then (S <=? t) && (t <? E) else (t <? E) || (S <=? t))) ->
  (ys <=? tl + Z.min std dst) = true -> (tl + Z.max (Z.max std dst) pv <? ye) = true ->
  (if b tl then dst else std) = ol -> S <> E ->
  jcond tl pv ol (S, std, dst) = true -> jcond tl pv ol (E, dst, std) = true ->
  (if S <=? tl then S + Z.max std dst <=? tl + Z.max pv ol else tl + Z.max pv ol <? S + Z.min std dst) = true /\
  (if E <=? tl then E + Z.max std dst <=? tl + Z.max pv ol else tl + Z.max pv ol <? E + Z.min std dst) = true.
Proof.
  intros Hd H1 H2 H3 Hne HS HE. unfold jcond, J.ev_window in HS, HE. cbv beta iota in HS, HE.
  pose proof (Hd tl) as Htl.
  rewrite !ite_bool in HS, HE. rewrite ite_bool in Htl. rewrite !ite_bool.
  destruct (b tl) eqn:Btl; lia.
Qed.

Theorem judge_spacing_footer_continues first tr r tl pv ol :
  let cz := mk_szone first tr (Some (inr r)) in
  let k := utc_year (tl + ol) in
  increasing tr = true -> last_window tr first = Some (tl, pv, ol) ->
  J.spacing_rule_table cz r = true ->
  utc_year tl = k ->
  (year_start k <=? tl + Z.min (r_std r) (r_dst r)) = true ->
  (tl + Z.max (Z.max (r_std r) (r_dst r)) pv <? year_start (k + 1)) = true ->
  roff r tl = ol -> rule_year_hyps r k ->
  footer_continues cz = true.
Proof.
  intros cz k Hinc Hlw Hj Hy H1 H2 Hc Hyp.
  (* the two events of year k pass the judge's test *)
  assert (Hev : jcond tl pv ol (rule_start_utc r k, r_std r, r_dst r) = true /\
                jcond tl pv ol (rule_end_utc r k, r_dst r, r_std r) = true).
  { unfold J.spacing_rule_table, cz in Hj. cbn [z_trans z_first] in Hj.
    rewrite (last_window_last_trans _ _ _ _ _ Hlw) in Hj.
    rewrite (before_last_window _ _ _ _ _ Hlw) in Hj.
    rewrite (proj2 (last_window_after _ _ _ _ _ Hinc Hlw) tl (Z.le_refl _)) in Hj.
    rewrite Hy in Hj. rewrite !forallb_app in Hj.
    apply andb_prop in Hj. destruct Hj as [_ Hj]. apply andb_prop in Hj. destruct Hj as [Hj _].
    unfold J.rule_events in Hj. cbn [forallb] in Hj. rewrite andb_true_r in Hj.
    apply andb_prop in Hj. exact Hj. }
  destruct Hev as [HS HE].
  pose proof (fun t => rule_is_dst_year r k t Hyp) as Hd.
  assert (Hne : rule_start_utc r k <> rule_end_utc r k).
  { destruct Hyp as (_ & _ & _ & _ & _ & P0 & _). apply premise_year_prop in P0. apply P0. }
  destruct (judge_arith (rule_is_dst r) _ _ _ _ _ _ tl pv ol Hd H1 H2 Hc Hne HS HE) as [G1 G2].
  unfold footer_continues, cz. cbn [z_trans z_first z_rule]. rewrite Hlw. cbv zeta. fold k.
  rewrite H1, H2, Hc, Z.eqb_refl. cbn [andb forallb]. rewrite G1, G2. reflexivity.
Qed.

(* inhabited: the Berlin-like composite zone of Proofs/C05Composite.v is well spaced for the judge *)
Lemma exc_judge :
  J.spacing_rule_table exc_cz (conv_rule exc_rule) = true /\
  J.spacing_ok exc_cz 1729996200 = true /\
  utc_year 1698541200 = utc_year (1698541200 + 3600).
Proof. vm_compute. repeat split; reflexivity. Qed.
