(** C06 — the text form of a duration: the model's [td_display] prints exactly [duration_text] of the
    nanosecond count (Spec/DurationText.v), the reader [read_duration_text] inverts it, hence the text
    determines the value; the judge's [exp_display] is the same text. *)
From Coq Require Import ZArith List Bool Lia ZifyBool String.
From V Require Import Base.Int Base.IntLemmas Base.IO Base.Utf8 Gen.TimeDelta Model.C06 Model.Rfc3339
  Spec.DurationText Proofs.Scan Proofs.Decimal Proofs.C06.
From V Require Judge.C06.
Import ListNotations.
Open Scope Z_scope.
Ltac Zify.zify_post_hook ::= Z.to_euclidean_division_equations.

(** * the specification's own digit functions are the shared ones *)
Lemma fixed_low k : forall n, fixed_digits k n = low_digits k n.
Proof. induction k as [|k IH]; intros n; cbn [fixed_digits low_digits]; [reflexivity|]. rewrite IH. reflexivity. Qed.
Lemma digits_val_value ds : forall acc, digits_val ds acc = digits_value ds acc.
Proof. induction ds as [|c r IH]; intros acc; cbn [digits_val digits_value]; [reflexivity|apply IH]. Qed.
Lemma is_dig_ascii c : is_dig c = is_ascii_digit c.
Proof. reflexivity. Qed.

Lemma take_digits_app ds : forall rest, forallb is_dig ds = true ->
  match rest with [] => True | c :: _ => is_dig c = false end ->
  take_digits (ds ++ rest) = (ds, rest).
Proof.
  induction ds as [|c ds IH]; intros rest Hd Hr.
  - cbn [app]. destruct rest as [|c r]; [reflexivity|]. cbn [take_digits]. rewrite Hr. reflexivity.
  - cbn [forallb] in Hd. apply andb_prop in Hd. destruct Hd as [Hc Hd].
    cbn [app take_digits]. rewrite Hc, (IH rest Hd Hr). reflexivity.
Qed.

(** * trailing zeros *)
Lemma repeat_snoc {A} (a : A) n : repeat a n ++ [a] = a :: repeat a n.
Proof. induction n as [|n IH]; [reflexivity|]. cbn [repeat app]. rewrite IH. reflexivity. Qed.
Lemma rev_repeat' {A} (a : A) n : rev (repeat a n) = repeat a n.
Proof. induction n as [|n IH]; [reflexivity|]. cbn [repeat rev]. rewrite IH. apply repeat_snoc. Qed.
Lemma drop_zeros_cons c m : drop_zeros (c :: m) = if c =? 48 then drop_zeros m else c :: m.
Proof.
  cbn [drop_zeros]. destruct c as [|p|p]; try reflexivity.
  repeat (destruct p as [p|p|]; try reflexivity).
Qed.
Lemma drop_zeros_split m : exists z, m = repeat 48 z ++ drop_zeros m /\
  match drop_zeros m with 48 :: _ => False | _ => True end.
Proof.
  induction m as [|c m IH].
  - exists 0%nat. split; [reflexivity|exact I].
  - destruct (Z.eq_dec c 48) as [->|Hc].
    + destruct IH as (z & E & H). exists (S z). cbn [drop_zeros repeat app]. split; [congruence|exact H].
    + exists 0%nat. assert (E : drop_zeros (c :: m) = c :: m).
      { rewrite drop_zeros_cons. replace (c =? 48) with false by lia. reflexivity. }
      rewrite E. split; [reflexivity|].
      destruct c as [|p|p]; try exact I. repeat (destruct p as [p|p|]; try exact I). lia.
Qed.
(* the trimmed string is the string without a block of zeros at its end, and does not end in a zero *)
Lemma trim_split l : exists z, l = trim_zeros l ++ repeat 48 z /\
  (forall p, trim_zeros l <> p ++ [48]).
Proof.
  unfold trim_zeros. destruct (drop_zeros_split (rev l)) as (z & E & H). exists z. split.
  - rewrite <- (rev_involutive l) at 1. rewrite E at 1. rewrite rev_app_distr, rev_repeat'. reflexivity.
  - intros p Hp. apply (f_equal (@rev Z)) in Hp. rewrite rev_involutive, rev_app_distr in Hp. cbn [rev app] in Hp.
    rewrite Hp in H. exact H.
Qed.
Lemma digits_value_zeros z : forall acc, digits_value (repeat 48 z) acc = acc * 10 ^ Z.of_nat z.
Proof.
  induction z as [|z IH]; intros acc.
  - cbn [repeat digits_value]. change (10 ^ Z.of_nat 0) with 1. lia.
  - cbn [repeat digits_value]. rewrite IH. replace (Z.of_nat (S z)) with (Z.succ (Z.of_nat z)) by lia.
    rewrite Z.pow_succ_r by lia. ring.
Qed.
Lemma forallb_repeat48 z : forallb is_dig (repeat 48 z) = true.
Proof. induction z as [|z IH]; [reflexivity|]. cbn [repeat forallb]. rewrite IH. reflexivity. Qed.

(* the fraction digits F of 0 < r < 10^9: between one and nine digits, the last one not a zero, and
   F read as a number and scaled back to nine places is r *)
Lemma frac_digits_facts r : 0 < r < 1000000000 ->
  let F := trim_zeros (fixed_digits 9 r) in
  forallb is_dig F = true /\ (1 <= List.length F <= 9)%nat /\ (forall p, F <> p ++ [48]) /\
  digits_val F 0 * 10 ^ (9 - Z.of_nat (List.length F)) = r /\
  exists z, fixed_digits 9 r = F ++ repeat 48 z.
Proof.
  intros Hr F. destruct (trim_split (fixed_digits 9 r)) as (z & E & Hl). fold F in E, Hl.
  pose proof (low_digits_digits 9 r) as Hd. pose proof (low_digits_length 9 r) as Hlen.
  pose proof (low_digits_value0 9 r ltac:(change (10 ^ Z.of_nat 9) with 1000000000; lia)) as Hv.
  rewrite <- fixed_low in Hd, Hlen, Hv. rewrite E in Hd, Hlen, Hv.
  rewrite forallb_app in Hd. apply andb_prop in Hd. destruct Hd as [Hd _].
  rewrite app_length, repeat_length in Hlen.
  rewrite digits_value_app, digits_value_zeros in Hv.
  assert (Hne : F <> []).
  { intros E0. rewrite E0 in Hv. cbn [digits_value] in Hv. lia. }
  split; [exact Hd|]. split.
  { destruct F; [congruence|]. cbn [List.length] in *. lia. }
  split; [exact Hl|]. split.
  { rewrite digits_val_value. replace (9 - Z.of_nat (List.length F)) with (Z.of_nat z) by lia. exact Hv. }
  exists z. exact E.
Qed.

(** * the reader inverts the text, for every integer *)
Lemma dec_nonneg_facts q : 0 <= q ->
  forallb is_dig (dec_nonneg q) = true /\ dec_nonneg q <> [] /\ digits_val (dec_nonneg q) 0 = q.
Proof.
  intros Hq. destruct (dec_nonneg_low q Hq) as (k & Hk & -> & Hb & _).
  split; [apply low_digits_digits|]. split.
  - destruct k; [lia|]. cbn [low_digits]. intros E. apply app_eq_nil in E. destruct E; discriminate.
  - rewrite digits_val_value. apply low_digits_value0. lia.
Qed.

Lemma read_unsigned_text a : 0 <= a -> read_unsigned (duration_text a) = Some a.
Proof.
  intros Ha. unfold duration_text. replace (a <? 0) with false by lia. rewrite Z.abs_eq by lia. cbn [app].
  destruct (a =? 0) eqn:E0; [replace a with 0 by lia; reflexivity|].
  set (q := a / 1000000000). set (r := a mod 1000000000).
  assert (Hq : 0 <= q) by (unfold q; lia). assert (Hr : 0 <= r < 1000000000) by (unfold r; lia).
  assert (Ea : a = q * 1000000000 + r) by (unfold q, r; lia).
  destruct (dec_nonneg_facts q Hq) as (Hd & Hne & Hv).
  unfold read_unsigned. cbn [app].
  unfold frac_text. destruct (r =? 0) eqn:Er.
  - cbn [app]. rewrite (take_digits_app (dec_nonneg q) [83] Hd eq_refl).
    destruct (dec_nonneg q) as [|c i] eqn:Ei; [congruence|]. rewrite Hv. f_equal. lia.
  - destruct (frac_digits_facts r ltac:(lia)) as (Fd & Fl & _ & Fv & _).
    set (F := trim_zeros (fixed_digits 9 r)) in *.
    change ((46 :: F) ++ [83]) with (46 :: (F ++ [83])).
    rewrite (take_digits_app (dec_nonneg q) (46 :: F ++ [83]) Hd eq_refl).
    destruct (dec_nonneg q) as [|c i] eqn:Ei; [congruence|].
    rewrite (take_digits_app F [83] Fd eq_refl).
    destruct F as [|c' f'] eqn:EF; [cbn [List.length] in Fl; lia|].
    replace (Z.of_nat (List.length (c' :: f')) <=? 9) with true by lia.
    rewrite Hv, Fv. f_equal. lia.
Qed.

Lemma duration_text_neg n : n < 0 -> duration_text n = 45 :: duration_text (- n).
Proof.
  intros Hn. unfold duration_text. replace (n <? 0) with true by lia. replace (- n <? 0) with false by lia.
  rewrite Z.abs_opp. reflexivity.
Qed.
Lemma duration_text_head a : 0 <= a -> exists t, duration_text a = 80 :: t.
Proof.
  intros Ha. unfold duration_text. replace (a <? 0) with false by lia. cbn [app].
  destruct (Z.abs a =? 0); eexists; reflexivity.
Qed.

Theorem read_duration_text_spec n : read_duration_text (duration_text n) = Some n.
Proof.
  destruct (Z_lt_le_dec n 0) as [Hn|Hn].
  - rewrite duration_text_neg by exact Hn. cbn [read_duration_text].
    rewrite read_unsigned_text by lia. cbn [option_map]. f_equal. lia.
  - destruct (duration_text_head n Hn) as [t Et]. unfold read_duration_text.
    rewrite Et. rewrite <- Et. apply read_unsigned_text. exact Hn.
Qed.

Theorem duration_text_injective n m : duration_text n = duration_text m -> n = m.
Proof.
  intros E. pose proof (read_duration_text_spec n) as H1. rewrite E, read_duration_text_spec in H1. congruence.
Qed.

(** * the model prints that text *)
Lemma pad0_low w fd : 0 < fd < 10 ^ w -> 0 <= w -> pad0 w (dec_of_Z fd) = low_digits (Z.to_nat w) fd.
Proof.
  intros Hfd Hw. unfold dec_of_Z. replace (fd <? 0) with false by lia.
  destruct (dec_nonneg_low fd ltac:(lia)) as (k & Hk & -> & Hb & Hl).
  unfold pad0. rewrite low_digits_length.
  assert (Hkw : Z.of_nat k <= w).
  { destruct Hl as [-> | Hl]; [destruct (Z.eq_dec w 0) as [->|]; [change (10 ^ 0) with 1 in Hfd; lia|lia]|].
    destruct (Z_le_gt_dec (Z.of_nat k) w) as [Hle|Hgt]; [exact Hle|exfalso].
    assert (10 ^ w <= 10 ^ (Z.of_nat k - 1)) by (apply Z.pow_le_mono_r; lia). lia. }
  replace (Z.to_nat w) with ((Z.to_nat (w - Z.of_nat k)) + k)%nat by lia.
  rewrite low_digits_pad by lia. reflexivity.
Qed.

Lemma trim_snoc_zero l : trim_zeros (l ++ [48]) = trim_zeros l.
Proof. unfold trim_zeros. rewrite rev_app_distr. reflexivity. Qed.
Lemma trim_snoc_nz l c : c <> 48 -> trim_zeros (l ++ [c]) = l ++ [c].
Proof.
  intros Hc. unfold trim_zeros. rewrite rev_app_distr. cbn [rev app].
  assert (E : drop_zeros (c :: rev l) = c :: rev l).
  { rewrite drop_zeros_cons. replace (c =? 48) with false by lia. reflexivity. }
  rewrite E. cbn [rev]. rewrite rev_involutive. reflexivity.
Qed.

Lemma strip_loop_exact : forall f d g, 0 < d < 10 ^ Z.of_nat f -> d < 10 ^ g -> Z.of_nat f <= g <= 9 ->
  exists fd fg, strip_loop (S f) d g = Val (fd, fg) /\ 0 < fd < 10 ^ fg /\ 0 <= fg <= 9 /\
    low_digits (Z.to_nat fg) fd = trim_zeros (low_digits (Z.to_nat g) d).
Proof.
  induction f as [|f IH]; intros d g Hd Hdg Hf.
  - cbn in Hd. lia.
  - rewrite strip_loop_S. unfold div_i32, rem_i32. rewrite div_t_nz, rem_t_nz by lia.
    assert (Hp : 10 ^ Z.of_nat (S f) = 10 * 10 ^ Z.of_nat f) by (rewrite Nat2Z.inj_succ, Z.pow_succ_r by lia; reflexivity).
    assert (Hpb : 10 ^ Z.of_nat (S f) <= 10 ^ 9) by (apply Z.pow_le_mono_r; lia).
    change (10 ^ 9) with 1000000000 in Hpb.
    rewrite (chk_in in_i32 (Z.quot d 10)) by (unfold in_i32, in_range, i32_min, i32_max; lia).
    cbn [bind]. replace (in_i32 (Z.quot d 10)) with true by (symmetry; unfold in_i32, in_range, i32_min, i32_max; lia).
    cbn [bind].
    assert (Hg1 : 1 <= g) by lia.
    assert (Eg : Z.to_nat g = S (Z.to_nat (g - 1))) by lia.
    assert (Hpg : 10 ^ g = 10 * 10 ^ (g - 1)).
    { replace g with (Z.succ (g - 1)) at 1 by lia. rewrite Z.pow_succ_r by lia. reflexivity. }
    destruct (negb (Z.rem d 10 =? 0)) eqn:E.
    + exists d, g. split; [reflexivity|]. split; [lia|]. split; [lia|].
      rewrite Eg. cbn [low_digits]. rewrite trim_snoc_nz by lia. reflexivity.
    + unfold sub_usize. rewrite chk_in by (unfold in_usize, in_u64, in_range, u64_max; lia). cbn [bind].
      assert (Hq : Z.quot d 10 = d / 10) by lia. rewrite Hq.
      destruct (IH (d / 10) (g - 1)) as (fd & fg & Es & Hfd & Hfg & Hlow); [lia|lia|lia|].
      exists fd, fg. split; [exact Es|]. split; [exact Hfd|]. split; [lia|].
      rewrite Hlow. rewrite Eg. cbn [low_digits]. replace (48 + d mod 10) with 48 by lia.
      rewrite trim_snoc_zero. reflexivity.
Qed.

Lemma nonneg_parts ab : valid ab -> 0 <= ns ab ->
  secs ab = ns ab / 1000000000 /\ nanos ab = ns ab mod 1000000000 /\ 0 <= secs ab.
Proof. intros [H1 H2] H3. unfold ns, G in *. lia. Qed.

Theorem td_display_exact a : valid a -> td_display a = Val (duration_text (ns a)).
Proof.
  intros Ha. unfold td_display.
  assert (Hab : exists ab, (if secs a <? 0 then let* n := td_neg a in Val (n, B"-") else Val (a, [])) =
      Val (ab, if ns a <? 0 then [45] else []) /\ valid ab /\ ns ab = Z.abs (ns a)).
  { pose proof Ha as [Ha1 Ha2]. unfold G in Ha1.
    assert (Hs : (secs a <? 0) = (ns a <? 0)) by (unfold ns, G; lia). rewrite Hs.
    destruct (ns a <? 0) eqn:En.
    - destruct (neg_spec a Ha) as [d [E [Hn Hv]]]. rewrite E. cbn [bind]. exists d. split; [reflexivity|].
      split; [exact Hv|lia].
    - exists a. split; [reflexivity|]. split; [exact Ha|lia]. }
  destruct Hab as (ab & E & Hv & Hn). rewrite E. cbn [bind]. clear E.
  destruct (nonneg_parts ab Hv ltac:(lia)) as (Es & En & Hs0). rewrite Hn in Es, En.
  unfold duration_text. set (sign := if ns a <? 0 then [45] else []).
  set (A := Z.abs (ns a)) in *.
  assert (Hz : ((secs ab =? 0) && (nanos ab =? 0)) = (A =? 0)) by lia. rewrite Hz.
  destruct (A =? 0) eqn:EA.
  { rewrite <- app_assoc. reflexivity. }
  unfold frac_text. rewrite <- En, <- Es.
  assert (Hd : dec_of_Z (secs ab) = dec_nonneg (secs ab)) by (unfold dec_of_Z; replace (secs ab <? 0) with false by lia; reflexivity).
  rewrite Hd. destruct Hv as [Hnb _]. unfold G in Hnb.
  destruct (nanos ab >? 0) eqn:Ep.
  - replace (nanos ab =? 0) with false by lia.
    destruct (strip_loop_exact 9 (nanos ab) 9) as (fd & fg & Esl & Hfd & Hfg & Hlow);
      [change (10 ^ Z.of_nat 9) with 1000000000; lia | change (10 ^ 9) with 1000000000; lia | change (Z.of_nat 9) with 9; lia |].
    rewrite Esl. cbn [bind]. rewrite pad0_low by lia. rewrite Hlow.
    change (Z.to_nat 9) with 9%nat. rewrite <- fixed_low.
    f_equal. rewrite <- !app_assoc. reflexivity.
  - replace (nanos ab =? 0) with true by lia. f_equal. rewrite <- !app_assoc. reflexivity.
Qed.

(* equal texts, equal durations *)
Lemma valid_ns_inj a b : valid a -> valid b -> ns a = ns b -> a = b.
Proof.
  intros [Ha _] [Hb _] E. destruct a as [sa na], b as [sb nb]. unfold ns, G in *. cbn [secs nanos] in *.
  assert (sa = sb) by lia. assert (na = nb) by lia. congruence.
Qed.
Theorem td_display_injective a b : valid a -> valid b -> td_display a = td_display b -> a = b.
Proof.
  intros Ha Hb E. rewrite (td_display_exact a Ha), (td_display_exact b Hb) in E.
  apply valid_ns_inj; try assumption. apply duration_text_injective. congruence.
Qed.
Theorem td_display_read a : valid a ->
  exists s, td_display a = Val s /\ read_duration_text s = Some (ns a).
Proof. intros Ha. eexists. split; [apply td_display_exact; exact Ha|apply read_duration_text_spec]. Qed.

(* the shape of the text, spelled out *)
Theorem duration_text_shape n :
  let a := Z.abs n in
  let sign := if n <? 0 then [45] else [] in
  exists I, forallb is_dig I = true /\ digits_val I 0 = a / 1000000000 /\
            (I = [48] \/ exists c r, I = c :: r /\ c <> 48) /\
  ((a = 0 /\ duration_text n = [80; 48; 68]) \/
   (a <> 0 /\ a mod 1000000000 = 0 /\ duration_text n = sign ++ [80; 84] ++ I ++ [83]) \/
   (a mod 1000000000 <> 0 /\ exists F, duration_text n = sign ++ [80; 84] ++ I ++ [46] ++ F ++ [83] /\
      forallb is_dig F = true /\ (1 <= List.length F <= 9)%nat /\ (forall p, F <> p ++ [48]) /\
      digits_val F 0 * 10 ^ (9 - Z.of_nat (List.length F)) = a mod 1000000000)).
Proof.
  cbv zeta. set (a := Z.abs n). assert (Ha : 0 <= a) by (unfold a; lia).
  set (q := a / 1000000000). assert (Hq : 0 <= q) by (unfold q; lia).
  destruct (dec_nonneg_facts q Hq) as (Hd & Hne & Hv).
  exists (dec_nonneg q). split; [exact Hd|]. split; [exact Hv|]. split.
  { destruct (dec_nonneg_low q Hq) as (k & Hk & Ek & Hb & Hl).
    destruct Hl as [-> | Hl].
    - destruct (Z.eq_dec q 0) as [->|Hq0]; [left; reflexivity|right].
      rewrite Ek. cbn [low_digits app]. change (10 ^ Z.of_nat 1) with 10 in Hb.
      eexists _, _. split; [reflexivity|]. lia.
    - right. destruct (dec_nonneg q) as [|c r] eqn:Ed; [congruence|].
      exists c, r. split; [reflexivity|]. intros ->.
      (* a leading zero would make the value too small *)
      clear Ed. symmetry in Ek. rename Ek into Ed.
      assert (Hr : List.length r = (k - 1)%nat).
      { apply (f_equal (@List.length Z)) in Ed. rewrite low_digits_length in Ed. cbn [List.length] in Ed. lia. }
      assert (Hrd : forallb is_ascii_digit r = true).
      { pose proof (low_digits_digits k q) as Hx. rewrite Ed in Hx. cbn [forallb] in Hx. apply andb_prop in Hx. tauto. }
      pose proof (low_digits_value0 k q ltac:(lia)) as Hx. rewrite Ed in Hx. cbn [digits_value] in Hx.
      pose proof (digits_value_bound r 0 Hrd ltac:(lia)) as Hlt.
      unfold blen in Hlt. rewrite Hr in Hlt. replace (Z.of_nat (k - 1)) with (Z.of_nat k - 1) in Hlt by lia.
      change (0 * 10 + (48 - 48)) with 0 in Hx. lia. }
  unfold duration_text. fold a q.
  destruct (a =? 0) eqn:E0.
  { left. split; [lia|]. assert (n = 0) by (unfold a in E0; lia). subst n. reflexivity. }
  right. unfold frac_text. destruct (a mod 1000000000 =? 0) eqn:Er.
  { left. split; [lia|]. split; [lia|]. reflexivity. }
  right. split; [lia|].
  destruct (frac_digits_facts (a mod 1000000000) ltac:(lia)) as (Fd & Fl & Fz & Fv & _).
  eexists. split; [reflexivity|]. repeat split; try assumption; lia.
Qed.

(** * the judge's expected text is the same text *)
Lemma strip_zeros_rev_eq l : Judge.C06.strip_zeros_rev l = drop_zeros l.
Proof. reflexivity. Qed.
Lemma pad9_low r : 0 <= r < 1000000000 -> Judge.C06.pad9 (dec_of_Z r) = low_digits 9 r.
Proof.
  intros Hr. unfold dec_of_Z. replace (r <? 0) with false by lia.
  destruct (dec_nonneg_low r ltac:(lia)) as (k & Hk & -> & Hb & Hl).
  unfold Judge.C06.pad9. rewrite low_digits_length.
  assert (Hk9 : (k <= 9)%nat).
  { destruct Hl as [-> | Hl]; [lia|].
    destruct (le_gt_dec k 9) as [Hle|Hgt]; [exact Hle|exfalso].
    assert (10 ^ 9 <= 10 ^ (Z.of_nat k - 1)) by (apply Z.pow_le_mono_r; lia).
    change (10 ^ 9) with 1000000000 in *. lia. }
  replace 9%nat with ((9 - k) + k)%nat at 2 by lia. rewrite low_digits_pad by lia. reflexivity.
Qed.
Theorem exp_display_text n : Judge.C06.exp_display n = duration_text n.
Proof.
  unfold Judge.C06.exp_display, duration_text. cbv zeta. change (B"-") with [45].
  f_equal. destruct (Z.abs n =? 0) eqn:E0; [reflexivity|].
  set (a := Z.abs n) in *. assert (Ha : 0 < a) by (unfold a in *; lia).
  change Judge.C06.G with 1000000000.
  assert (Hd : dec_of_Z (a / 1000000000) = dec_nonneg (a / 1000000000)).
  { unfold dec_of_Z. replace (a / 1000000000 <? 0) with false by lia. reflexivity. }
  rewrite Hd. set (r := a mod 1000000000). assert (Hr : 0 <= r < 1000000000) by (unfold r; lia).
  rewrite pad9_low by exact Hr. rewrite strip_zeros_rev_eq. fold (trim_zeros (low_digits 9 r)).
  rewrite <- fixed_low. unfold frac_text. change (B"PT") with [80; 84]. change (B"S") with [83]. change (B".") with [46].
  destruct (r =? 0) eqn:Er.
  - replace r with 0 by lia. reflexivity.
  - destruct (frac_digits_facts r ltac:(lia)) as (_ & Fl & _).
    destruct (trim_zeros (fixed_digits 9 r)) as [|c f]; [cbn [List.length] in Fl; lia|]. reflexivity.
Qed.

Lemma display_examples :
  td_display (mk_td TD_MIN_secs TD_MIN_nanos) = Val (B"-PT9223372036854775.807S") /\
  td_display (mk_td TD_MAX_secs TD_MAX_nanos) = Val (B"PT9223372036854775.807S") /\
  td_display (mk_td 0 0) = Val (B"P0D") /\ td_display (mk_td (-1) 999999999) = Val (B"-PT0.000000001S") /\
  td_display (mk_td 5 0) = Val (B"PT5S") /\ read_duration_text (B"-PT0.5S") = Some (-500000000).
Proof. vm_compute. repeat split. Qed.
