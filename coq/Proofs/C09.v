(** C09 -- proofs about the default text forms (Model/Show.v) and the FromStr readers
    (Model/FromStr.v on Model/Parse.v). *)
From Coq Require Import ZArith List Bool Lia ZifyBool String.
From V Require Import Base.Int Base.IO Base.Utf8 Base.Lift Model.Scan Model.Parse Model.FromStr Model.Show Model.DateTime.
From V Require Model.Date Model.Time Model.C19 Model.Parsed Proofs.C19.
Import ListNotations.
Open Scope Z_scope.

(** * FixedOffset: every whole-minute offset, by complete enumeration *)
Definition PRZ_eqb (r : PR Z) (v : Z) : bool :=
  match r with Val (POk x) => x =? v | _ => false end.
Definition fixed_rt_b (dbg : bool) (m : Z) : bool :=
  match to_text (if dbg then fixed_debug [] (60 * m) else fixed_display [] (60 * m)) with
  | Val s => PRZ_eqb (fixed_offset_from_str s) (60 * m)
  | _ => false
  end.
Lemma fixed_rt_sweep : forall_range (fun m => fixed_rt_b false m && fixed_rt_b true m) (-1439) 2879 = true.
Proof. vm_compute. reflexivity. Qed.

Theorem fixed_roundtrip off : -86400 < off < 86400 -> off mod 60 = 0 ->
  (exists s, to_text (fixed_display [] off) = Val s /\ fixed_offset_from_str s = Val (POk off)) /\
  (exists s, to_text (fixed_debug [] off) = Val s /\ fixed_offset_from_str s = Val (POk off)).
Proof.
  intros Hr Hm.
  assert (E : off = 60 * (off / 60)) by (rewrite (Z.div_mod off 60) at 1 by lia; lia).
  pose proof (forall_range_spec _ _ _ fixed_rt_sweep (off / 60) ltac:(lia)) as H.
  cbv beta in H. apply andb_prop in H. destruct H as [H0 H1].
  unfold fixed_rt_b in H0, H1. rewrite <- E in H0, H1.
  split.
  - destruct (to_text (fixed_display [] off)) as [s| |]; try discriminate.
    exists s. split; [reflexivity|].
    unfold PRZ_eqb in H0. destruct (fixed_offset_from_str s) as [[x|e]| |]; try discriminate.
    apply Z.eqb_eq in H0. rewrite H0. reflexivity.
  - destruct (to_text (fixed_debug [] off)) as [s| |]; try discriminate.
    exists s. split; [reflexivity|].
    unfold PRZ_eqb in H1. destruct (fixed_offset_from_str s) as [[x|e]| |]; try discriminate.
    apply Z.eqb_eq in H1. rewrite H1. reflexivity.
Qed.

(** * Weekday / Month: the derived Debug text is the Display / name text, which parses back (C19) *)
Lemma wd_debug_is_display : forall_range (fun w =>
  match wd_debug [] w, wd_display [] w with Val (Some a), Val (Some b) => bytes_eqb a b | _, _ => false end) 0 7 = true.
Proof. vm_compute. reflexivity. Qed.
Definition wd_rt_b (w : Z) : bool :=
  match to_text (wd_display [] w), to_text (wd_debug [] w) with
  | Val a, Val b =>
      match C19.wd_from_str a, C19.wd_from_str b with
      | Val (Some x), Val (Some y) => (x =? w) && (y =? w)
      | _, _ => false end
  | _, _ => false end.
Lemma wd_rt_sweep : forall_range wd_rt_b 0 7 = true.
Proof. vm_compute. reflexivity. Qed.
Theorem weekday_roundtrip w : 0 <= w < 7 ->
  (exists s, to_text (wd_display [] w) = Val s /\ C19.wd_from_str s = Val (Some w)) /\
  (exists s, to_text (wd_debug [] w) = Val s /\ C19.wd_from_str s = Val (Some w)).
Proof.
  intros Hw. pose proof (forall_range_spec _ _ _ wd_rt_sweep w ltac:(lia)) as H.
  unfold wd_rt_b in H.
  destruct (to_text (wd_display [] w)) as [a| |]; try discriminate.
  destruct (to_text (wd_debug [] w)) as [b| |]; try discriminate.
  destruct (C19.wd_from_str a) as [[x|]| |] eqn:Ea; try discriminate.
  destruct (C19.wd_from_str b) as [[y|]| |] eqn:Eb; try discriminate.
  apply andb_prop in H. destruct H as [H1 H2]. apply Z.eqb_eq in H1, H2. subst x y.
  split; [exists a|exists b]; split; auto.
Qed.
Definition mo_rt_b (m : Z) : bool :=
  match to_text (mo_debug [] m) with
  | Val a => match C19.mo_from_str a with Val (Some x) => x =? m | _ => false end
  | _ => false end.
Lemma mo_rt_sweep : forall_range mo_rt_b 0 12 = true.
Proof. vm_compute. reflexivity. Qed.
Theorem month_roundtrip m : 0 <= m < 12 ->
  exists s, to_text (mo_debug [] m) = Val s /\ C19.mo_from_str s = Val (Some m).
Proof.
  intros Hm. pose proof (forall_range_spec _ _ _ mo_rt_sweep m ltac:(lia)) as H.
  unfold mo_rt_b in H.
  destruct (to_text (mo_debug [] m)) as [a| |]; try discriminate.
  destruct (C19.mo_from_str a) as [[x|]| |] eqn:Ea; try discriminate.
  apply Z.eqb_eq in H. subst. exists a. split; auto.
Qed.

(** * The recorded finding: NaiveDateTime's Display text is refused by its FromStr *)
Definition ndt_witness : ndt := Eval vm_compute in
  mk_ndt (match Date.from_ymd_opt 2012 12 12 with Val (Some d) => d | _ => 0 end) (Time.mk_time 43932 0).
Definition ndt_witness_text : bytes := Eval vm_compute in B"2012-12-12 12:12:12".
Theorem ndt_display_refuted :
  exists v s, dec_ndt (enc_ndt v) = Some v /\
    to_text (ndt_display [] v) = Val s /\ naive_datetime_from_str s = Val (PErr Invalid).
Proof. exists ndt_witness, ndt_witness_text. vm_compute. repeat split. Qed.
