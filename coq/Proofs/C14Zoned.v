(** C14, date-time level: absence of traps in [to_datetime] / [to_datetime_with_timezone] (the last
    [from_local_datetime] step, with the C04 theorem about construction from a wall clock) for every
    typed field state, and completeness: the fields of one real date-time (a documented sufficient
    date combination, hour / minute [/ second [/ nanosecond]], the offset, optionally the timestamp)
    resolve to exactly that date-time. *)
From Coq Require Import ZArith List Bool Lia ZifyBool.
From V Require Import Base.Int Base.IntLemmas Base.IO Spec.Gregorian Model.TimeDelta.
From V Require Model.Date Model.Time.
From V Require Import Model.DateTime Model.Parsed.
From V Require Import Proofs.C08Sweeps Proofs.C08Date Proofs.C08 Proofs.Date Proofs.C14 Proofs.C14Date Proofs.C14Iso.
From V Require Proofs.C04 Proofs.C04Date.
Import ListNotations.
Open Scope Z_scope.
Ltac Zify.zify_post_hook ::= Z.to_euclidean_division_equations.

Module P4 := V.Proofs.C04.
Module P4D := V.Proofs.C04Date.

(** * Shape of a value returned by to_naive_datetime_with_offset *)
(** on both paths the value is the date and the time resolved from one typed field state (the
    given one, or the one completed from the timestamp) *)
Lemma naive_datetime_shape p off v : typed p ->
  to_naive_datetime_with_offset p off = Val (Ok v) ->
  exists q, typed q /\ to_naive_date q = Val (Ok (nd_date v)) /\ to_naive_time q = Val (Ok (nd_time v)).
Proof.
  intros T H. unfold to_naive_datetime_with_offset in H.
  apply bind_val in H. destruct H as (date & Hdate & H).
  apply bind_val in H. destruct H as (time & Htime & H).
  assert (PathB : forall timestamp, p_timestamp p = Some timestamp ->
    (if is_err_kind date OutOfRange || is_err_kind time OutOfRange then Val (Err OutOfRange)
     else if is_err_kind date Impossible || is_err_kind time Impossible then Val (Err Impossible)
     else
      let! ts := ok_or (checked_add in_i64 timestamp off) OutOfRange in
      let! datetime := ok_or_r (dt_from_timestamp ts 0) OutOfRange in
      let! '(datetime, parsed) :=
        (if opt_eqb (p_second p) (Some 60) then
           let sec := Time.second (nd_time datetime) in
           if sec =? 59 then Val (Ok (datetime, p))
           else if sec =? 0 then
             let* one := unwrap (try_seconds 1) in
             let! d := ok_or_r (ndt_checked_sub_signed datetime one) OutOfRange in
             Val (Ok (d, p))
           else Val (Err Impossible)
         else
           let! p1 := tryset (Parsed.set_second p (Time.second (nd_time datetime))) in
           Val (Ok (datetime, p1))) in
      let! parsed := tryset (Parsed.set_year parsed (Date.d_year (nd_date datetime))) in
      let! parsed := tryset (Parsed.set_ordinal parsed (Date.d_ordinal (nd_date datetime))) in
      let* sh := Parsed.set_hour parsed (Time.hour (nd_time datetime)) in
      let! parsed := tryset sh in
      let! parsed := tryset (Parsed.set_minute parsed (Time.minute (nd_time datetime))) in
      let! date := to_naive_date parsed in
      let! time := to_naive_time parsed in
      Val (Ok (mk_ndt date time))) = Val (Ok v) ->
    exists q, typed q /\ to_naive_date q = Val (Ok (nd_date v)) /\ to_naive_time q = Val (Ok (nd_time v))).
  { intros g Hg HB.
    destruct (is_err_kind date OutOfRange || is_err_kind time OutOfRange); [discriminate|].
    destruct (is_err_kind date Impossible || is_err_kind time Impossible); [discriminate|].
    apply ebind_ok in HB. destruct HB as (ts & Hts & HB).
    apply ebind_ok in HB. destruct HB as (dtm0 & Hdtm0 & HB).
    apply ebind_ok in HB. destruct HB as ([dtm p1] & Hstep & HB).
    apply ebind_ok in HB. destruct HB as (p2 & Hp2 & HB).
    apply ebind_ok in HB. destruct HB as (p3 & Hp3 & HB).
    apply bind_val in HB. destruct HB as (sh & Hsh & HB).
    apply ebind_ok in HB. destruct HB as (p4 & Hp4 & HB).
    apply ebind_ok in HB. destruct HB as (p5 & Hp5 & HB).
    apply ebind_ok in HB. destruct HB as (d' & Hd' & HB).
    apply ebind_ok in HB. destruct HB as (t' & Ht' & HB). inversion HB; subst v. clear HB.
    cbn [nd_date nd_time].
    assert (T1 : typed p1).
    { destruct (opt_eqb (p_second p) (Some 60)).
      - cbv zeta in Hstep. destruct (Time.second (nd_time dtm0) =? 59); [inversion Hstep; subst; exact T|].
        destruct (Time.second (nd_time dtm0) =? 0); [|discriminate].
        apply bind_val in Hstep. destruct Hstep as (one & _ & Hstep).
        apply ebind_ok in Hstep. destruct Hstep as (dd & _ & Hstep). inversion Hstep; subst. exact T.
      - apply ebind_ok in Hstep. destruct Hstep as (q & Hq & Hstep). inversion Hstep; subst.
        apply tryset_ok in Hq. destruct Hq as (u & Hq). unfold Parsed.set_second in Hq.
        apply set_checked_step in Hq; [tauto|exact T|].
        intros R. rewrite as_u32_small by (unfold u32_max; lia). unfold ftype, u32_max; lia. }
    apply tryset_ok in Hp2. destruct Hp2 as (u2 & Hp2). unfold Parsed.set_year in Hp2.
    apply set_checked_step in Hp2; [|exact T1|intros R; unfold ftype, in_i32, in_range; lia].
    destruct Hp2 as (T2 & _).
    apply tryset_ok in Hp3. destruct Hp3 as (u3 & Hp3). unfold Parsed.set_ordinal in Hp3.
    apply set_checked_step in Hp3; [|exact T2|intros R; rewrite as_u32_small by (unfold u32_max; lia); unfold ftype, u32_max; lia].
    destruct Hp3 as (T3 & _).
    apply tryset_ok in Hp4. destruct Hp4 as (u4 & Hp4). subst sh.
    apply set_hour_step in Hsh; [|exact T3]. destruct Hsh as (T4 & _).
    apply tryset_ok in Hp5. destruct Hp5 as (u5 & Hp5). unfold Parsed.set_minute in Hp5.
    apply set_checked_step in Hp5; [|exact T4|intros R; rewrite as_u32_small by (unfold u32_max; lia); unfold ftype, u32_max; lia].
    destruct Hp5 as (T5 & _).
    exists p5. split; [exact T5|]. split; assumption. }
  destruct date as [d|ed], time as [t|et].
  - apply bind_val in H. destruct H as (ts0 & Hts0 & H).
    apply bind_val in H. destruct H as (timestamp & Htimestamp & H).
    assert (v = mk_ndt d t).
    { destruct (p_timestamp p) as [g|].
      - apply bind_val in H. destruct H as (bad & _ & H). destruct bad; inversion H. reflexivity.
      - inversion H. reflexivity. }
    subst v. exists p. cbn [nd_date nd_time]. split; [exact T|]. split; assumption.
  - destruct (p_timestamp p) as [g|] eqn:Eg; [eapply PathB; eauto|discriminate].
  - destruct (p_timestamp p) as [g|] eqn:Eg; [eapply PathB; eauto|discriminate].
  - destruct (p_timestamp p) as [g|] eqn:Eg; [eapply PathB; eauto|discriminate].
Qed.

Lemma time_of_fields_ok p hd hm mi : time_fields_ok p hd hm mi ->
  P4.time_ok (time_of_fields hd hm mi (unwrap_or (p_second p) 0) (unwrap_or (p_nanosecond p) 0)).
Proof.
  intros (_ & _ & _ & R1 & R2 & R3 & R4 & R5 & _). unfold P4.time_ok, time_of_fields. cbn [Time.tsecs Time.tfrac].
  destruct (unwrap_or (p_second p) 0 =? 60) eqn:E; lia.
Qed.

(** a value returned by [to_naive_datetime_with_offset] is a supported date with a time of day *)
Theorem naive_datetime_ok p off v : typed p ->
  to_naive_datetime_with_offset p off = Val (Ok v) -> P4.ndt_ok v.
Proof.
  intros T H. destruct (naive_datetime_shape p off v T H) as (q & Tq & Hd & Ht).
  split.
  - destruct (to_naive_date_never_panics q Tq) as (r & Hr & Hrepr). rewrite Hd in Hr. inversion Hr; subst r.
    destruct (Hrepr _ eq_refl) as (y & o & R). exact (P4D.nominal_of_repr y o _ R).
  - destruct (typed_time q Tq) as (U1 & U2 & U3 & U4 & U5).
    destruct (to_naive_time_spec q U1 U2 U3 U4 U5) as (r & Hr & Hs). rewrite Ht in Hr. inversion Hr; subst r.
    destruct Hs as (hd & hm & mi & F & ->). apply time_of_fields_ok. exact F.
Qed.

Theorem to_naive_datetime_never_panics_ok p off : typed p -> in_i32 off = true ->
  exists r, to_naive_datetime_with_offset p off = Val r /\ forall v, r = Ok v -> P4.ndt_ok v.
Proof.
  intros T Hoff. destruct (to_naive_datetime_never_panics p off T Hoff) as (r & Hr). exists r. split; [exact Hr|].
  intros v ->. exact (naive_datetime_ok p off v T Hr).
Qed.

(** * from_local_datetime on a supported wall clock: a value, never a trap (C04) *)
Lemma from_local_total off l : P4.ndt_ok l -> P4.off_ok off ->
  exists m, from_local_datetime off l = Val m /\
    (m = MNone \/ exists z, m = MSingle z /\ P4.dtz_ok z /\ dz_off z = off).
Proof.
  intros Hl Ho. pose proof (P4D.from_local_fails_iff off l Hl Ho) as H.
  destruct (P4.in_rng (P4.usecs l - off)).
  - destruct H as (z & Hz & Hok & Hzo & _). exists (MSingle z). split; [exact Hz|]. right. exists z. auto.
  - exists MNone. split; [exact H|]. left. reflexivity.
Qed.

Lemma off_ok_i32 off : P4.off_ok off -> in_i32 off = true.
Proof. unfold P4.off_ok, in_i32, in_range, i32_min, i32_max. lia. Qed.

(** * ABSENCE OF TRAPS in to_datetime for every typed field state; a returned value is well formed *)
Theorem to_datetime_never_panics p : typed p ->
  exists r, to_datetime p = Val r /\ forall z, r = Ok z -> P4.dtz_ok z.
Proof.
  intros T. unfold to_datetime.
  assert (Main : forall offset, in_i32 offset = true ->
    exists r, (let! datetime := to_naive_datetime_with_offset p offset in
               let! offset0 := ok_or (east_opt offset) OutOfRange in
               let* m := from_local_datetime offset0 datetime in
               match m with
               | MNone => Val (Err Impossible)
               | MSingle t => Val (Ok t)
               | MAmbiguous _ _ => Val (Err NotEnough)
               end) = Val r /\ forall z, r = Ok z -> P4.dtz_ok z).
  { intros offset Hi. destruct (to_naive_datetime_never_panics_ok p offset T Hi) as (r & Hr & Hok). rewrite Hr.
    destruct r as [l|e]; cbn [ebind bind]; [|eexists; split; [reflexivity|intros; discriminate]].
    specialize (Hok l eq_refl). unfold ok_or. rewrite east_opt_spec.
    destruct ((-86400 <? offset) && (offset <? 86400)) eqn:Er; cbn [ebind bind]; [|eexists; split; [reflexivity|intros; discriminate]].
    assert (Ho : P4.off_ok offset) by (unfold P4.off_ok; lia).
    destruct (from_local_total offset l Hok Ho) as (m & Hm & Hcases). rewrite Hm. cbn [bind].
    destruct Hcases as [->|(z & -> & Hz & _)].
    - eexists; split; [reflexivity|intros; discriminate].
    - eexists; split; [reflexivity|]. intros z' E. inversion E; subst. exact Hz. }
  destruct (p_offset p) as [off|] eqn:Eo.
  - cbn [ebind bind]. apply Main. exact (T F_offset off Eo).
  - destruct (p_timestamp p) as [g|]; cbn [ebind bind].
    + apply Main. reflexivity.
    + eexists; split; [reflexivity|intros; discriminate].
Qed.

(** * to_datetime_with_timezone for a fixed-offset zone *)
Lemma dt_from_timestamp_total_any ts ns : in_i64 ts = true -> exists r, dt_from_timestamp ts ns = Val r.
Proof.
  intros Hts. unfold dt_from_timestamp, DateTimeConsts.DT_SECS_PER_DAY, DateTimeConsts.UNIX_EPOCH_DAY.
  rewrite div_euclid_pos by lia. rewrite rem_euclid_pos by lia.
  unfold add_i64, chk, in_i64, in_range, i64_min, i64_max in *.
  replace ((-9223372036854775808 <=? ts / 86400) && (ts / 86400 <=? 9223372036854775807)) with true by lia.
  cbn [bind].
  replace ((-9223372036854775808 <=? ts / 86400 + 719163) && (ts / 86400 + 719163 <=? 9223372036854775807)) with true by lia.
  cbn [bind].
  destruct ((ts / 86400 + 719163 <? i32_min) || (i32_max <? ts / 86400 + 719163)) eqn:E; [eexists; reflexivity|].
  assert (Hi : in_i32 (ts / 86400 + 719163) = true) by (unfold in_i32, in_range, i32_min, i32_max in *; lia).
  rewrite as_i32_id by exact Hi. rewrite from_num_days_from_ce_opt_spec by exact Hi. unfold obind. cbn [bind].
  unfold date_if. destruct (dn_in_range (ts / 86400 + 719163)); [|eexists; reflexivity].
  destruct (Time.from_num_seconds_from_midnight_opt (as_u32 (ts mod 86400)) ns); eexists; reflexivity.
Qed.

(** ABSENCE OF TRAPS in to_datetime_with_timezone for every typed field state and every
    FixedOffset zone (an offset strictly between -24 h and +24 h) *)
Theorem to_datetime_with_timezone_never_panics p tz : typed p -> -86400 < tz < 86400 ->
  exists r, to_datetime_with_timezone p tz = Val r /\ forall z, r = Ok z -> P4.dtz_ok z /\ dz_off z = tz.
Proof.
  intros T Htz. unfold to_datetime_with_timezone.
  assert (Ho : P4.off_ok tz) by exact Htz.
  assert (Main : forall guessed, in_i32 guessed = true ->
    exists r, (let! datetime := to_naive_datetime_with_offset p guessed in
               let* m := from_local_datetime tz datetime in
               match m with
               | MNone => Val (Err Impossible)
               | MSingle t =>
                   if match p_offset p with Some offset => dz_off t =? offset | None => true end
                   then Val (Ok t) else Val (Err Impossible)
               | MAmbiguous mn mx =>
                   match match p_offset p with Some offset => dz_off mn =? offset | None => true end,
                         match p_offset p with Some offset => dz_off mx =? offset | None => true end with
                   | false, false => Val (Err Impossible)
                   | false, true => Val (Ok mx)
                   | true, false => Val (Ok mn)
                   | true, true => Val (Err NotEnough)
                   end
               end) = Val r /\ forall z, r = Ok z -> P4.dtz_ok z /\ dz_off z = tz).
  { intros guessed Hi. destruct (to_naive_datetime_never_panics_ok p guessed T Hi) as (r & Hr & Hok). rewrite Hr.
    destruct r as [l|e]; cbn [ebind bind]; [|eexists; split; [reflexivity|intros; discriminate]].
    specialize (Hok l eq_refl).
    destruct (from_local_total tz l Hok Ho) as (m & Hm & Hcases). rewrite Hm. cbn [bind].
    destruct Hcases as [->|(z & -> & Hz & Hzo)].
    - eexists; split; [reflexivity|intros; discriminate].
    - destruct (match p_offset p with Some offset => dz_off z =? offset | None => true end).
      + eexists; split; [reflexivity|]. intros z' E. inversion E; subst. auto.
      + eexists; split; [reflexivity|intros; discriminate]. }
  destruct (p_timestamp p) as [g|] eqn:Eg.
  - destruct (dt_from_timestamp_total_any g (unwrap_or (p_nanosecond p) 0) (T F_timestamp g Eg)) as (r0 & Hr0).
    unfold ok_or_r, ok_or. rewrite Hr0. cbn [bind ebind].
    destruct r0 as [dt|]; cbn [bind]; [|eexists; split; [reflexivity|intros; discriminate]].
    apply Main. apply off_ok_i32. exact Ho.
  - cbn [ebind bind]. apply Main. reflexivity.
Qed.

(** * COMPLETENESS at date-time level *)
(** the supplied timestamp (if any) is the value's own count of non-leap seconds, or one more for a
    leap-second value (the first alternative of [ts_sound]) *)
Definition ts_direct (p : parsed) (v : ndt) (off : Z) : Prop :=
  forall g, p_timestamp p = Some g ->
  exists t0, dt_timestamp v = Val t0 /\
    (g = t0 - off \/ (Time.nanosecond (nd_time v) >= 1000000000 /\ g = t0 - off + 1)).

(** date fields of the date [d] in a documented sufficient combination (hypotheses of
    C14_to_naive_date_complete_iso), time fields hour / minute [/ second [/ nanosecond]] in range,
    the timestamp absent or that of the value: the resolution is exactly the date [d] with the
    time of those fields *)
Theorem to_naive_datetime_complete y o d p hd hm mi off :
  repr y o d -> typed p -> date_sound p d ->
  group_ok y (p_year p) (p_year_div_100 p) (p_year_mod_100 p) ->
  group_ok (fst (iso_of_dn (dn_of_yo y o))) (p_isoyear p) (p_isoyear_div_100 p) (p_isoyear_mod_100 p) ->
  combination_present y (fst (iso_of_dn (dn_of_yo y o))) p ->
  time_fields_ok p hd hm mi -> in_i32 off = true ->
  ts_direct p (mk_ndt d (time_of_fields hd hm mi (unwrap_or (p_second p) 0) (unwrap_or (p_nanosecond p) 0))) off ->
  to_naive_datetime_with_offset p off =
  Val (Ok (mk_ndt d (time_of_fields hd hm mi (unwrap_or (p_second p) 0) (unwrap_or (p_nanosecond p) 0)))).
Proof.
  intros H T DS Gy Gi Comb F Hoff Hts.
  set (t := time_of_fields hd hm mi (unwrap_or (p_second p) 0) (unwrap_or (p_nanosecond p) 0)) in *.
  unfold to_naive_datetime_with_offset.
  rewrite (to_naive_date_complete_iso y o d p H T DS Gy Gi Comb). cbn [bind].
  rewrite (to_naive_time_complete p hd hm mi F). fold t. cbn [bind].
  pose proof (time_of_fields_ok p hd hm mi F) as Ht. fold t in Ht.
  assert (Hr : is_repr d) by (exists y, o; exact H).
  destruct (dt_timestamp_total d t Hr (proj1 Ht)) as (ts0 & Hts0 & Hb). rewrite Hts0. cbn [bind].
  assert (Ho : -2147483648 <= off <= 2147483647) by (unfold in_i32, in_range, i32_min, i32_max in Hoff; lia).
  unfold sub_i64, chk. replace (in_i64 (ts0 - off)) with true by (unfold in_i64, in_range, i64_min, i64_max; lia).
  cbn [bind]. destruct (p_timestamp p) as [g|] eqn:Eg; [|reflexivity].
  destruct (Hts g Eg) as (t0 & Ht0 & Hg). rewrite Hts0 in Ht0. inversion Ht0; subst t0. clear Ht0.
  destruct (g =? ts0 - off) eqn:E1; cbn [negb bind]; [reflexivity|].
  destruct Hg as [Hg|[Hl Hg]]; [lia|]. cbn [nd_time] in *.
  replace (Time.nanosecond t >=? 1000000000) with true by lia.
  unfold add_i64, chk. replace (in_i64 (ts0 - off + 1)) with true by (unfold in_i64, in_range, i64_min, i64_max; lia).
  cbn [bind]. replace (g =? ts0 - off + 1) with true by lia. reflexivity.
Qed.

(** [z] is a date-time with wall clock [l] on a supported date; the fields are those of [l] as above,
    the offset field is the offset of [z], the timestamp field is absent or the timestamp of [z]:
    [to_datetime] returns exactly [z] *)
Theorem to_datetime_complete z l y o p hd hm mi :
  P4.dtz_ok z -> overflowing_naive_local z = Val l -> repr y o (nd_date l) ->
  typed p -> date_sound p (nd_date l) ->
  group_ok y (p_year p) (p_year_div_100 p) (p_year_mod_100 p) ->
  group_ok (fst (iso_of_dn (dn_of_yo y o))) (p_isoyear p) (p_isoyear_div_100 p) (p_isoyear_mod_100 p) ->
  combination_present y (fst (iso_of_dn (dn_of_yo y o))) p ->
  time_fields_ok p hd hm mi ->
  nd_time l = time_of_fields hd hm mi (unwrap_or (p_second p) 0) (unwrap_or (p_nanosecond p) 0) ->
  p_offset p = Some (dz_off z) -> ts_direct p l (dz_off z) ->
  to_datetime p = Val (Ok z).
Proof.
  intros Hz Hl H T DS Gy Gi Comb F Ht Hoff Hts.
  assert (El : l = mk_ndt (nd_date l) (time_of_fields hd hm mi (unwrap_or (p_second p) 0) (unwrap_or (p_nanosecond p) 0))).
  { rewrite <- Ht. destruct l; reflexivity. }
  destruct Hz as [Hu Ho]. pose proof (off_ok_i32 _ Ho) as Hi.
  unfold to_datetime. rewrite Hoff. cbn [ebind bind].
  rewrite El in Hts.
  rewrite (to_naive_datetime_complete y o (nd_date l) p hd hm mi (dz_off z) H T DS Gy Gi Comb F Hi Hts).
  cbn [ebind bind]. rewrite <- El. unfold ok_or. rewrite east_opt_spec.
  unfold P4.off_ok in Ho. replace ((-86400 <? dz_off z) && (dz_off z <? 86400)) with true by lia. cbn [ebind bind].
  rewrite (P4D.utc_local_utc_u z l (conj Hu Ho) Hl). reflexivity.
Qed.

(** the same for [to_datetime_with_timezone] with the zone of [z]; the offset field may be absent;
    no timestamp field (with a timestamp the guessed offset is the zone's own, same proof, but the
    early [from_timestamp] range check needs the timestamp in range) *)
Theorem to_datetime_with_timezone_complete z l y o p hd hm mi :
  P4.dtz_ok z -> overflowing_naive_local z = Val l -> repr y o (nd_date l) ->
  typed p -> date_sound p (nd_date l) ->
  group_ok y (p_year p) (p_year_div_100 p) (p_year_mod_100 p) ->
  group_ok (fst (iso_of_dn (dn_of_yo y o))) (p_isoyear p) (p_isoyear_div_100 p) (p_isoyear_mod_100 p) ->
  combination_present y (fst (iso_of_dn (dn_of_yo y o))) p ->
  time_fields_ok p hd hm mi ->
  nd_time l = time_of_fields hd hm mi (unwrap_or (p_second p) 0) (unwrap_or (p_nanosecond p) 0) ->
  (p_offset p = None \/ p_offset p = Some (dz_off z)) -> p_timestamp p = None ->
  to_datetime_with_timezone p (dz_off z) = Val (Ok z).
Proof.
  intros Hz Hl H T DS Gy Gi Comb F Ht Hoff Hts.
  assert (El : l = mk_ndt (nd_date l) (time_of_fields hd hm mi (unwrap_or (p_second p) 0) (unwrap_or (p_nanosecond p) 0))).
  { rewrite <- Ht. destruct l; reflexivity. }
  unfold to_datetime_with_timezone. rewrite Hts. cbn [ebind bind].
  assert (Hd : ts_direct p (mk_ndt (nd_date l) (time_of_fields hd hm mi (unwrap_or (p_second p) 0) (unwrap_or (p_nanosecond p) 0))) 0).
  { intros g Hg. congruence. }
  rewrite (to_naive_datetime_complete y o (nd_date l) p hd hm mi 0 H T DS Gy Gi Comb F eq_refl Hd).
  cbn [ebind bind]. rewrite <- El.
  rewrite (P4D.utc_local_utc_u z l Hz Hl). cbn [bind].
  destruct Hoff as [-> | ->]; [reflexivity|]. rewrite Z.eqb_refl. reflexivity.
Qed.

(** * The fields of a real date-time resolve to that date-time *)
(** the fields year, month, day, hour (as am/pm flag and 12-hour value), minute, second (60 for a
    leap second), nanosecond, offset and optionally the timestamp, read off the wall clock
    (date of year [y] / ordinal [o], time [t]) of a date-time with offset [off] *)
Definition fields_of_local (y o : Z) (t : Time.ntime) (off : Z) (ts : option Z) : parsed :=
  mk_parsed (Some y) None None None None None None (Some (month_of y o)) None None None None None (Some (day_of y o))
            (Some (Time.hour t / 12)) (Some (Time.hour t mod 12)) (Some (Time.minute t))
            (Some (Time.second t + (if Time.tfrac t >=? 1000000000 then 1 else 0)))
            (Some (Time.tfrac t mod 1000000000)) ts (Some off).

Lemma time_fields_of_time t ts y o off :
  P4.time_ok t -> (Time.tfrac t < 1000000000 \/ Time.tsecs t mod 60 = 59) ->
  let p := fields_of_local y o t off ts in
  time_fields_ok p (Time.hour t / 12) (Time.hour t mod 12) (Time.minute t) /\
  t = time_of_fields (Time.hour t / 12) (Time.hour t mod 12) (Time.minute t)
                     (unwrap_or (p_second p) 0) (unwrap_or (p_nanosecond p) 0).
Proof.
  intros [Hs Hf] Hleap p. unfold p, fields_of_local, time_fields_ok, time_of_fields.
  cbn [p_hour_div_12 p_hour_mod_12 p_minute p_second p_nanosecond unwrap_or].
  destruct t as [s f]. unfold Time.hour, Time.minute, Time.second, Time.hms, Time.udiv, Time.urem.
  cbn [Time.tsecs Time.tfrac] in *.
  rewrite !Z.quot_div_nonneg, !Z.rem_mod_nonneg by lia.
  destruct (f >=? 1000000000) eqn:Ef.
  - assert (s mod 60 = 59) by lia. replace (s mod 60 + 1 =? 60) with true by lia.
    split; [repeat split; try lia; discriminate|]. f_equal; lia.
  - replace (s mod 60 + 0 =? 60) with false by lia.
    split; [repeat split; try lia; discriminate|]. f_equal; lia.
Qed.

Theorem to_datetime_of_fields z l y o ts :
  P4.dtz_ok z -> overflowing_naive_local z = Val l -> repr y o (nd_date l) ->
  (Time.tfrac (nd_time l) < 1000000000 \/ Time.tsecs (nd_time l) mod 60 = 59) ->
  (forall g, ts = Some g -> in_i64 g = true /\ exists t0, dt_timestamp l = Val t0 /\ g = t0 - dz_off z) ->
  to_datetime (fields_of_local y o (nd_time l) (dz_off z) ts) = Val (Ok z).
Proof.
  intros Hz Hl H Hleap Hts.
  destruct (P4D.overflowing_naive_local_u z Hz) as (l' & Hl' & Hw & _). rewrite Hl in Hl'. inversion Hl'; subst l'. clear Hl'.
  destruct Hw as [_ Htok].
  destruct (time_fields_of_time (nd_time l) ts y o (dz_off z) Htok Hleap) as [F Et]. cbv zeta in F, Et.
  set (p := fields_of_local y o (nd_time l) (dz_off z) ts) in *.
  destruct (repr_md _ _ _ H) as (Ey & Eo & Em & Ed & _ & _ & Hmb & Hdb & _).
  destruct (repr_year_i32 _ _ _ H) as [Hyi _].
  pose proof (days_in_month_bounds (is_leap y) (month_of y o)) as Hdim.
  pose proof F as (_ & _ & _ & R1 & R2 & R3 & R4 & R5 & _).
  apply (to_datetime_complete z l y o p (Time.hour (nd_time l) / 12) (Time.hour (nd_time l) mod 12) (Time.minute (nd_time l)) Hz Hl H).
  - (* typed *)
    unfold p, fields_of_local in R4, R5. cbn [p_second p_nanosecond unwrap_or] in R4, R5.
    intros f v Hf. unfold p, fields_of_local in Hf.
    destruct f; cbn [pget p_year p_year_div_100 p_year_mod_100 p_isoyear p_isoyear_div_100 p_isoyear_mod_100 p_quarter
      p_month p_week_from_sun p_week_from_mon p_isoweek p_weekday p_ordinal p_day p_hour_div_12 p_hour_mod_12 p_minute
      p_second p_nanosecond p_timestamp p_offset] in Hf; try discriminate; try (injection Hf as <-); cbn [ftype]; unfold u32_max; try lia.
    + exact Hyi.
    + exact (proj1 (Hts _ Hf)).
    + apply off_ok_i32. exact (proj2 Hz).
  - (* date_sound *)
    destruct (fact_iso_week_total _ _ _ H) as (iw & Hiw & _).
    unfold date_sound, year_parts_sound, iso_sound. cbn.
    split; [split; [intros v E; injection E as <-; exact Ey|split; intros; discriminate]|].
    split; [exists iw; split; [exact Hiw|]; split; [split; [|split]|]; intros; discriminate|].
    split; [intros; discriminate|]. split; [intros v E; injection E as <-; exact Em|].
    split; [intros; discriminate|]. split; [intros; discriminate|]. split; [intros; discriminate|].
    split; [intros; discriminate|]. intros v E; injection E as <-; exact Ed.
  - right. left. discriminate.
  - left. auto.
  - left. split; [left; discriminate|]. split; discriminate.
  - exact F.
  - exact Et.
  - reflexivity.
  - intros g Hg. cbn in Hg. destruct (Hts g Hg) as (_ & t0 & Ht0 & Eg). exists t0. split; [exact Ht0|left; exact Eg].
Qed.

(** the hypotheses are inhabited: 2014-12-31 04:26:40 +09:30 with its timestamp, and a leap second *)
Definition ex_zoned : dtz := mk_dtz (mk_ndt (mkdate 2014 364) (Time.mk_time 68200 0)) 34200.
Lemma ex_zoned_complete :
  P4.dtz_ok ex_zoned /\
  overflowing_naive_local ex_zoned = Val (mk_ndt (mkdate 2014 365) (Time.mk_time 16000 0)) /\
  repr 2014 365 (mkdate 2014 365) /\
  to_datetime (fields_of_local 2014 365 (Time.mk_time 16000 0) 34200 (Some 1419965800)) = Val (Ok ex_zoned).
Proof.
  assert (Hz : P4.dtz_ok ex_zoned).
  { split; [split|]; [apply (P4D.nominal_of_repr 2014 364); apply repr_mk; reflexivity| |];
    unfold P4.time_ok, P4.off_ok; cbn; lia. }
  assert (Hl : overflowing_naive_local ex_zoned = Val (mk_ndt (mkdate 2014 365) (Time.mk_time 16000 0)))
    by (vm_compute; reflexivity).
  assert (H : repr 2014 365 (mkdate 2014 365)) by (apply repr_mk; reflexivity).
  split; [exact Hz|]. split; [exact Hl|]. split; [exact H|].
  apply (to_datetime_of_fields ex_zoned _ 2014 365 (Some 1419965800) Hz Hl H).
  - left. cbn. lia.
  - intros g E. inversion E; subst g. split; [reflexivity|]. exists 1420000000. split; [vm_compute; reflexivity|reflexivity].
Qed.

(** * The setters keep a field state typed *)
Lemma set_ifc_typed f p v q u : typed p -> set_if_consistent f p v = (q, Ok u) -> ftype f v -> typed q.
Proof.
  intros T H Hv. rewrite (unit_tt u) in H. apply set_if_consistent_inv in H. destruct H as [-> _].
  apply typed_pput; assumption.
Qed.
Ltac chk_typed T H :=
  apply (set_checked_step _ _ _ _ _ _ _ _ T) in H;
  [exact (proj1 H)
  |intros R; cbn [ftype]; rewrite ?as_i32_small, ?as_u32_small by (unfold i32_max, u32_max in *; lia);
   unfold in_i32, in_range, i32_min, i32_max, u32_max in *; lia].
Lemma apply_setter_typed k p v q u :
  typed p -> apply_setter k p v = Some (Val (q, Ok u)) -> typed q.
Proof.
  intros T. unfold apply_setter. destruct (negb (in_i64 v)) eqn:Ev; [discriminate|].
  assert (Hv : in_i64 v = true) by (destruct (in_i64 v); [reflexivity|discriminate]).
  repeat match goal with
  | |- (if ?c then _ else _) = Some _ -> _ => destruct c eqn:?
  end; try discriminate; intros H; injection H as H.
  - unfold Parsed.set_year in H. chk_typed T H.
  - unfold Parsed.set_year_div_100 in H. chk_typed T H.
  - unfold Parsed.set_year_mod_100 in H. chk_typed T H.
  - unfold Parsed.set_isoyear in H. chk_typed T H.
  - unfold Parsed.set_isoyear_div_100 in H. chk_typed T H.
  - unfold Parsed.set_isoyear_mod_100 in H. chk_typed T H.
  - unfold Parsed.set_quarter in H. chk_typed T H.
  - unfold Parsed.set_month in H. chk_typed T H.
  - unfold Parsed.set_week_from_sun in H. chk_typed T H.
  - unfold Parsed.set_week_from_mon in H. chk_typed T H.
  - unfold Parsed.set_isoweek in H. chk_typed T H.
  - unfold Parsed.set_weekday in H. apply (set_ifc_typed _ _ _ _ _ T H). cbn [ftype]. unfold contains in *. lia.
  - unfold Parsed.set_ordinal in H. chk_typed T H.
  - unfold Parsed.set_day in H. chk_typed T H.
  - unfold Parsed.set_ampm in H. apply (set_ifc_typed _ _ _ _ _ T H). cbn [ftype]. unfold contains, u32_max in *. lia.
  - unfold Parsed.set_hour12 in H. destruct (contains 1 12 v) eqn:Ec; cbn [negb] in H; [|discriminate].
    apply (set_ifc_typed _ _ _ _ _ T H). cbn [ftype]. unfold contains in Ec.
    destruct (v =? 12); rewrite as_u32_small by (unfold u32_max; lia); unfold u32_max; lia.
  - apply set_hour_step in H; [exact (proj1 H)|exact T].
  - unfold Parsed.set_minute in H. chk_typed T H.
  - unfold Parsed.set_second in H. chk_typed T H.
  - unfold Parsed.set_nanosecond in H. chk_typed T H.
  - unfold Parsed.set_timestamp in H. apply (set_ifc_typed _ _ _ _ _ T H). exact Hv.
  - unfold Parsed.set_offset in H. chk_typed T H.
Qed.
