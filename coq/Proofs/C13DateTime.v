(** C13 — format_parse_roundtrip END TO END for NaiveDateTime with "%Y-%m-%dT%H:%M:%S" and
    "%Y-%m-%d %H:%M:%S" (also written %FT%T / %F %T): for EVERY in-range date and EVERY time of day
    (leap second on :59 included)
        NaiveDateTime::parse_from_str(&v.format(f).to_string(), f) = Ok(v truncated to whole seconds)
    through the formatter, the reader and Parsed::to_naive_datetime_with_offset (date and time
    resolved by C14's completeness theorems, the timestamp cross-check by the shared calendar
    lemmas).  The date and time segments are stated for arbitrary formatter arguments and an
    arbitrary tail so that the zoned family reuses them. *)
From Coq Require Import ZArith List Bool Lia ZifyBool.
From V Require Import Base.Int Base.IntLemmas Base.IO Base.Utf8 Model.Scan Model.Items Gen.ParseTable Gen.Strftime
  Proofs.Utf8 Proofs.Scan Model.Parse Proofs.C13 Proofs.C13Reads Proofs.C13Fmt Proofs.C13Digits Proofs.C13Time
  Proofs.C13Date Proofs.C13View Spec.StrftimeDoc.
From V Require Model.Parsed Model.Format Model.Date Model.Time Model.DateTime Model.Strftime Proofs.C12 Proofs.C14
  Proofs.C14Date Proofs.C14Iso Proofs.C08Sweeps Proofs.C08 Proofs.C09DateTime.
Import ListNotations.
Open Scope Z_scope.
Ltac Zify.zify_post_hook ::= Z.to_euclidean_division_equations.

Ltac seg_step S :=
  let V := fresh "V" in
  pose proof (seg_valid _ _ _ _ _ S) as V; apply (seg_cons _ _ _ _ _ _ _ _ S).

(** * the date segment %Y-%m-%d, for any formatter arguments that carry the date *)
Definition ymd_texts (y o : Z) : list bytes :=
  [pad_num DZero 4 ((y <? 0) || (9999 <? y)) y; [45]; pad_num DZero 2 false (Proofs.C08.month_of y o); [45];
   pad_num DZero 2 false (Proofs.C08.day_of y o)].
Definition ymd_ws (y o : Z) : list write :=
  [W_code 0 y; W_none; W_code 7 (Proofs.C08.month_of y o); W_none; W_code 13 (Proofs.C08.day_of y o)].

Lemma ascii1 c : 0 <= c <= 127 -> ascii_b [c].
Proof. intros H. constructor; [exact H|constructor]. Qed.

Lemma ymd_seg a y o d tail : Model.Format.fa_date a = Some d -> Proofs.C08Sweeps.repr y o d ->
  utf8_valid tail = true -> seg_ok a YMD_FMT (ymd_texts y o) (ymd_ws y o) tail.
Proof.
  intros Ha H Ht. destruct a as [od ot oo]. cbn [Model.Format.fa_date] in Ha. subst od.
  destruct (Proofs.C08.repr_md y o d H) as (Ey & Eo & Em & Ed & _ & _ & Hmb & Hdb & _).
  destruct (Proofs.C14Date.repr_year_i32 y o d H) as [Hyi Hyb].
  pose proof (Proofs.C08Date.days_in_month_bounds (Spec.Gregorian.is_leap y) (Proofs.C08.month_of y o)) as Hdm.
  unfold YMD_FMT, ymd_texts, ymd_ws, num0.
  pose proof (seg_nil (Model.Format.mk_fa (Some d) ot oo) tail Ht) as S5.
  eassert (S4 : seg_ok _ [_] [_] [_] tail).
  { seg_step S5. apply (item_two _ N_Day 13 (Proofs.C08.day_of y o)); [|reflexivity|lia|exact V].
    cbn [Model.Format.format_numeric Model.Format.fa_date Model.Format.fa_time]. rewrite Ed. cbn [bind].
    rewrite Proofs.C12.as_u8_small by lia. reflexivity. }
  eassert (S3 : seg_ok _ [_; _] [_; _] [_; _] tail).
  { seg_step S4. apply (item_lit _ [45]); [apply ascii1; lia|exact V]. }
  eassert (S2 : seg_ok _ [_; _; _] [_; _; _] [_; _; _] tail).
  { seg_step S3. apply (item_two _ N_Month 7 (Proofs.C08.month_of y o)); [|reflexivity|lia|exact V].
    cbn [Model.Format.format_numeric Model.Format.fa_date Model.Format.fa_time]. rewrite Em. cbn [bind].
    rewrite Proofs.C12.as_u8_small by lia. reflexivity. }
  eassert (S1 : seg_ok _ [_; _; _; _] [_; _; _; _] [_; _; _; _] tail).
  { seg_step S2. apply (item_lit _ [45]); [apply ascii1; lia|exact V]. }
  seg_step S1. apply (item_year _ N_Year 0 y); [|reflexivity|exact Hyi|reflexivity|exact V].
  cbn [Model.Format.format_numeric Model.Format.fa_date Model.Format.fa_time]. rewrite Ey. reflexivity.
Qed.

(** * the time segment %H:%M:%S, for any formatter arguments that carry the time *)
Definition hms_texts (t : Model.Time.ntime) : list bytes :=
  [pad_num DZero 2 false (hh t); [58]; pad_num DZero 2 false (mm t); [58]; pad_num DZero 2 false (ss t)].
Definition hms_ws (t : Model.Time.ntime) : list write :=
  [W_code 16 (hh t); W_none; W_code 17 (mm t); W_none; W_code 18 (ss t)].

Lemma hms_seg a t tail : Model.Format.fa_time a = Some t -> valid_time t ->
  utf8_valid tail = true -> seg_ok a SF_T_FMT (hms_texts t) (hms_ws t) tail.
Proof.
  intros Ha Hvt Ht. destruct a as [od ot oo]. cbn [Model.Format.fa_time] in Ha. subst ot.
  destruct (time_parts t Hvt) as (Hh & Hm & Hs & Rh & Rm & Rs). destruct Hvt as [Hsec Hfrac].
  unfold SF_T_FMT, hms_texts, hms_ws, num0.
  pose proof (seg_nil (Model.Format.mk_fa od (Some t) oo) tail Ht) as S5.
  eassert (S4 : seg_ok _ [_] [_] [_] tail).
  { seg_step S5. apply (item_two _ N_Second 18 (ss t)); [|reflexivity|lia|exact V].
    assert (E : Model.Format.format_numeric (Model.Format.mk_fa od (Some t) oo) N_Second PadZero =
                (let* s := add_u32 (Model.Time.second t) (Z.quot (Model.Time.nanosecond t) 1000000000) in
                 Model.Format.write_two (as_u8 s) PadZero)) by (destruct od; reflexivity).
    rewrite E. rewrite Hs. unfold add_u32. rewrite chk_in.
    2:{ unfold in_u32, in_range, u32_max. unfold Model.Time.nanosecond. lia. }
    cbn [bind]. unfold Model.Time.nanosecond.
    replace (Z.quot (Model.Time.tfrac t) 1000000000) with (Model.Time.tfrac t / 1000000000) by lia.
    fold (ss t). rewrite Proofs.C12.as_u8_small by lia. reflexivity. }
  eassert (S3 : seg_ok _ [_; _] [_; _] [_; _] tail).
  { seg_step S4. apply (item_lit _ [58]); [apply ascii1; lia|exact V]. }
  eassert (S2 : seg_ok _ [_; _; _] [_; _; _] [_; _; _] tail).
  { seg_step S3. apply (item_two _ N_Minute 17 (mm t)); [|reflexivity|lia|exact V].
    assert (E : Model.Format.format_numeric (Model.Format.mk_fa od (Some t) oo) N_Minute PadZero =
                Model.Format.write_two (as_u8 (Model.Time.minute t)) PadZero) by (destruct od; reflexivity).
    rewrite E, Hm. rewrite Proofs.C12.as_u8_small by lia. reflexivity. }
  eassert (S1 : seg_ok _ [_; _; _; _] [_; _; _; _] [_; _; _; _] tail).
  { seg_step S2. apply (item_lit _ [58]); [apply ascii1; lia|exact V]. }
  seg_step S1. apply (item_two _ N_Hour 16 (hh t)); [|reflexivity|lia|exact V].
  assert (E : Model.Format.format_numeric (Model.Format.mk_fa od (Some t) oo) N_Hour PadZero =
              Model.Format.write_two (as_u8 (Model.Time.hour t)) PadZero) by (destruct od; reflexivity).
  rewrite E, Hh. rewrite Proofs.C12.as_u8_small by lia. reflexivity.
Qed.

(* the text of a time starts with a digit: not white space, and not a digit-free start *)
Lemma hms_text_starts t rest : valid_time t ->
  exists c r, concat (hms_texts t) ++ rest = c :: r /\ is_ascii_digit c = true.
Proof.
  intros Hvt. destruct (time_parts t Hvt) as (_ & _ & _ & Rh & _ & _).
  unfold hms_texts. cbn [concat]. rewrite pad2_eq by lia. cbn [app]. eexists; eexists. split; [reflexivity|].
  unfold is_ascii_digit. lia.
Qed.
Lemma digit_start_not_ws c r : is_ascii_digit c = true -> starts_ws (c :: r) = false.
Proof.
  intros H. pose proof (digit_range c H). unfold starts_ws. rewrite next_code_point_ascii by lia.
  unfold is_whitespace. lia.
Qed.

(** * the field views of a time of day (whole seconds) and the resolution *)
Import Model.Parsed.

Definition time_F0 (t : Model.Time.ntime) (F : parsed) : parsed :=
  pput F_second (Some (ss t)) (pput F_minute (Some (mm t))
    (pput F_hour_mod_12 (Some (hh t mod 12)) (pput F_hour_div_12 (Some (hh t / 12)) F))).

Definition time_field (f : field) : Prop :=
  match f with
  | F_hour_div_12 | F_hour_mod_12 | F_minute | F_second | F_nanosecond | F_timestamp | F_offset => True
  | _ => False
  end.
Lemma date_sound_pput f v p d : time_field f -> Proofs.C14.date_sound p d -> Proofs.C14.date_sound (pput f v p) d.
Proof. destruct f; intros []; exact (fun H => H). Qed.

Lemma time_F0_typed t F : valid_time t -> Proofs.C14.typed F -> Proofs.C14.typed (time_F0 t F).
Proof.
  intros Hvt T. destruct (time_parts t Hvt) as (_ & _ & _ & Rh & Rm & Rs). unfold time_F0.
  repeat apply Proofs.C14.typed_pput; try exact T; cbn [Proofs.C14.ftype]; unfold u32_max; lia.
Qed.
Lemma time_F0_date_sound t F d : Proofs.C14.date_sound F d -> Proofs.C14.date_sound (time_F0 t F) d.
Proof. intros H. unfold time_F0. repeat apply date_sound_pput; try exact I. exact H. Qed.
Lemma hms_ws_ok t F : valid_time t -> Forall (w_ok (time_F0 t F)) (hms_ws t).
Proof.
  intros Hvt. destruct (time_parts t Hvt) as (_ & _ & _ & Rh & Rm & Rs).
  unfold hms_ws. repeat constructor; cbn [w_ok simple_code Z.eqb Pos.eqb]; try lia; reflexivity.
Qed.

Lemma time_of_fields_trunc t : valid_time t ->
  Proofs.C14.time_of_fields (hh t / 12) (hh t mod 12) (mm t) (ss t) 0 = trunc_secs t.
Proof.
  intros [Hsec Hfrac]. unfold Proofs.C14.time_of_fields, trunc_secs, hh, mm, ss.
  destruct Hfrac as [Hf|[H59 Hf]].
  - assert (Hq : Model.Time.tfrac t / 1000000000 = 0) by (clear - Hf; lia).
    assert (Hge : (Model.Time.tfrac t >=? 1000000000) = false) by (rewrite Z.geb_leb; apply Z.leb_gt; clear - Hf; lia).
    rewrite Hq, Hge.
    assert (He : (Model.Time.tsecs t mod 60 + 0 =? 60) = false) by (clear - Hsec; lia).
    rewrite He. f_equal; clear - Hsec; lia.
  - assert (Hq : Model.Time.tfrac t / 1000000000 = 1) by (clear - Hf; lia).
    assert (Hge : (Model.Time.tfrac t >=? 1000000000) = true) by (rewrite Z.geb_leb; apply Z.leb_le; clear - Hf; lia).
    rewrite Hq, Hge.
    assert (He : (Model.Time.tsecs t mod 60 + 1 =? 60) = true) by (clear - H59; lia).
    rewrite He. f_equal; clear - Hsec H59; lia.
Qed.

(* date: year, month and day present, no ISO-year field *)
Lemma resolve_date_ymd y o d p F : Proofs.C08Sweeps.repr y o d ->
  Proofs.C14.typed F -> Proofs.C14.date_sound F d -> Proofs.C14.extends p F ->
  p_year p <> None -> p_month p <> None -> p_day p <> None ->
  p_isoyear p = None -> p_isoyear_div_100 p = None -> p_isoyear_mod_100 p = None ->
  to_naive_date p = Val (Ok d).
Proof.
  intros H T DS E Hy Hm Hd I1 I2 I3.
  destruct (Proofs.C14Iso.fact_iso_week_total y o d H) as (iw & Hiw & _).
  apply (Proofs.C14Iso.to_naive_date_complete y o d iw p H Hiw).
  - exact (typed_mono p F E T).
  - exact (Proofs.C14.date_sound_mono p F d E DS).
  - right. left. exact Hy.
  - left. auto.
  - left. split; [left; exact Hy|split; assumption].
Qed.

(* date and time resolved, no timestamp field: the date-time *)
Lemma resolve_ndt y o d t p off : Proofs.C08Sweeps.repr y o d -> 0 <= Model.Time.tsecs t < 86400 ->
  -86400 < off < 86400 ->
  to_naive_date p = Val (Ok d) -> to_naive_time p = Val (Ok t) -> p_timestamp p = None ->
  to_naive_datetime_with_offset p off = Val (Ok (Model.DateTime.mk_ndt d t)).
Proof.
  intros H Ht Ho Ed Et Ets. unfold to_naive_datetime_with_offset. rewrite Ed, Et. cbn [bind].
  destruct (Proofs.C09DateTime.dt_timestamp_ok y o d t off H Ht Ho) as (ts & E1 & E2).
  rewrite E1. cbn [bind]. rewrite E2. cbn [bind]. rewrite Ets. reflexivity.
Qed.

(** * NaiveDateTime: date, a separator ('T' literal or a space), time *)
Definition trunc_ndt (v : Model.DateTime.ndt) : Model.DateTime.ndt :=
  Model.DateTime.mk_ndt (Model.DateTime.nd_date v) (trunc_secs (Model.DateTime.nd_time v)).
Definition NDT_T_FMT : list Item := YMD_FMT ++ Literal [84] :: SF_T_FMT.
Definition NDT_SP_FMT : list Item := YMD_FMT ++ Space [32] :: SF_T_FMT.
Definition sep_of (it : Item) : bytes := match it with Literal l | Space l => l | _ => [] end.
Definition is_dt_sep (it : Item) : Prop := it = Literal [84] \/ it = Space [32].

Lemma sep_item a it rest : is_dt_sep it -> utf8_valid rest = true -> starts_ws rest = false ->
  item_rt a it (sep_of it) W_none rest.
Proof.
  intros [-> | ->] Hv Hw; cbn [sep_of].
  - apply item_lit; [apply ascii1; lia|exact Hv].
  - apply item_space; [reflexivity|exact Hw|exact Hv].
Qed.

(* date + separator + time as one segment, for any arguments carrying both and any tail *)
Lemma ndt_seg a y o d t sep tail :
  Model.Format.fa_date a = Some d -> Model.Format.fa_time a = Some t ->
  Proofs.C08Sweeps.repr y o d -> valid_time t -> is_dt_sep sep -> utf8_valid tail = true ->
  seg_ok a (YMD_FMT ++ sep :: SF_T_FMT) (ymd_texts y o ++ sep_of sep :: hms_texts t)
         (ymd_ws y o ++ W_none :: hms_ws t) tail.
Proof.
  intros Hd Ht H Hvt Hsep Hv.
  pose proof (hms_seg a t tail Ht Hvt Hv) as S2.
  assert (S1 : seg_ok a (sep :: SF_T_FMT) (sep_of sep :: hms_texts t) (W_none :: hms_ws t) tail).
  { seg_step S2. apply sep_item; [exact Hsep|exact V|].
    destruct (hms_text_starts t tail Hvt) as (c & r & -> & Hc). apply digit_start_not_ws. exact Hc. }
  apply (seg_app a _ _ _ _ _ _ tail S1). apply (ymd_seg a y o d _ Hd H). exact (seg_valid _ _ _ _ _ S1).
Qed.

(* the field view of a date-time truncated to seconds *)
Definition ndt_F (y o iy iw wd : Z) (t : Model.Time.ntime) : parsed := time_F0 t (date_F y o iy iw wd).

Lemma ndt_ws_ok y o iy iw wd t :
  in_i32 y = true -> 1 <= Proofs.C08.month_of y o <= 12 -> 1 <= Proofs.C08.day_of y o <= 31 -> valid_time t ->
  Forall (w_ok (ndt_F y o iy iw wd t)) (ymd_ws y o ++ W_none :: hms_ws t).
Proof.
  intros Hy Hm Hd Hvt. apply Forall_app. split.
  - unfold ymd_ws, ndt_F, time_F0, date_F. unfold in_i32, in_range in Hy.
    repeat constructor; cbn [w_ok simple_code Z.eqb Pos.eqb]; try lia; reflexivity.
  - constructor; [exact I|]. apply hms_ws_ok. exact Hvt.
Qed.

Theorem ndt_resolution y o d t : Proofs.C08Sweeps.repr y o d -> valid_time t ->
  exists p, run_writes (ymd_ws y o ++ W_none :: hms_ws t) parsed_new = pok p /\
    to_naive_date p = Val (Ok d) /\ to_naive_time p = Val (Ok (trunc_secs t)) /\
    p_timestamp p = None /\ p_offset p = None /\
    exists F, Proofs.C14.typed F /\ Proofs.C14.date_sound F d /\ Proofs.C14.extends p F /\ pget F_offset F = None.
Proof.
  intros H Hvt.
  destruct (Proofs.C08.repr_md y o d H) as (_ & _ & _ & _ & _ & _ & Hmb & Hdb & _).
  destruct (Proofs.C14Date.repr_year_i32 y o d H) as [Hyi Hyb].
  pose proof (Proofs.C08Date.days_in_month_bounds (Spec.Gregorian.is_leap y) (Proofs.C08.month_of y o)) as Hdm.
  destruct (date_F_sound y o d H) as (iw & Hiw & Hiy & Hiwb & TF & DS). cbv zeta in TF, DS.
  set (FD := date_F y o (Model.Date.iw_year iw) (Model.Date.iw_week iw)
               (Spec.Gregorian.weekday_of_dn (Spec.Gregorian.dn_of_yo y o))) in *.
  set (F := time_F0 t FD).
  assert (T : Proofs.C14.typed F) by (apply time_F0_typed; assumption).
  assert (DSF : Proofs.C14.date_sound F d) by (apply time_F0_date_sound; exact DS).
  destruct (run_view F (ymd_ws y o ++ W_none :: hms_ws t) parsed_new (extends_new F)) as [Hrun E].
  { apply ndt_ws_ok; try assumption; lia. }
  set (p := apply_ws (ymd_ws y o ++ W_none :: hms_ws t) parsed_new) in *.
  exists p. split; [exact Hrun|].
  assert (Hp : p = time_F0 t (pput F_day (Some (Proofs.C08.day_of y o)) (pput F_month (Some (Proofs.C08.month_of y o))
                 (pput F_year (Some y) parsed_new)))) by reflexivity.
  destruct (time_parts t Hvt) as (_ & _ & _ & Rh & Rm & Rs).
  split; [|split; [|split; [|split]]].
  - apply (resolve_date_ymd y o d p F H T DSF E); rewrite Hp; cbn; try discriminate; reflexivity.
  - rewrite <- (time_of_fields_trunc t Hvt).
    assert (Hok : Proofs.C14.time_fields_ok p (hh t / 12) (hh t mod 12) (mm t)).
    { rewrite Hp. unfold Proofs.C14.time_fields_ok, time_F0. cbn. repeat split; try lia. intros Hc; contradiction. }
    rewrite (Proofs.C14.to_naive_time_complete p _ _ _ Hok). rewrite Hp. reflexivity.
  - rewrite Hp. reflexivity.
  - rewrite Hp. reflexivity.
  - exists F. split; [exact T|split; [exact DSF|split; [exact E|reflexivity]]].
Qed.

Theorem ndt_roundtrip y o v items :
  Proofs.C08Sweeps.repr y o (Model.DateTime.nd_date v) -> valid_time (Model.DateTime.nd_time v) ->
  In items [NDT_T_FMT; NDT_SP_FMT] ->
  exists text,
    Model.Format.write_items (Model.Format.fa_of_ndt v) items [] = Model.Format.fok text /\
    (let+ p := parse parsed_new text items in pr_of (to_naive_datetime_with_offset p 0)) = pok (trunc_ndt v).
Proof.
  intros H Hvt Hin. destruct v as [d t]. cbn [Model.DateTime.nd_date Model.DateTime.nd_time] in *.
  assert (Hs : exists sep, is_dt_sep sep /\ items = YMD_FMT ++ sep :: SF_T_FMT).
  { cbn in Hin. destruct Hin as [<-|[<-|[]]]; eexists; (split; [|reflexivity]); [left|right]; reflexivity. }
  destruct Hs as (sep & Hsep & ->).
  pose proof (ndt_seg (Model.Format.fa_of_ndt (Model.DateTime.mk_ndt d t)) y o d t sep [] eq_refl eq_refl H Hvt Hsep eq_refl) as S.
  destruct (seg_parse _ _ _ _ S) as [Hw Hp].
  eexists. split; [exact Hw|]. rewrite Hp.
  destruct (ndt_resolution y o d t H Hvt) as (p & Hrun & Ed & Et & Ets & _).
  rewrite Hrun. cbn [pbind bind pok]. unfold pr_of.
  rewrite (resolve_ndt y o d (trunc_secs t) p 0 H); try assumption; [reflexivity| |lia].
  destruct Hvt as [Hsec _]. exact Hsec.
Qed.

Example ndt_roundtrip_inhabited :
  Proofs.C08Sweeps.repr 2015 181 (Proofs.C08Sweeps.mkdate 2015 181) /\ valid_time (Model.Time.mk_time 86399 1999999999).
Proof. split; [repeat split; reflexivity|]. split; [cbn; lia|right; cbn; lia]. Qed.

(** NaiveDateTime::parse_from_str(&v.format(f).to_string(), f) = Ok(trunc v) for the four spellings *)
Definition ndt_formats : list bytes :=
  [[37; 89; 45; 37; 109; 45; 37; 100; 84; 37; 72; 58; 37; 77; 58; 37; 83];   (* %Y-%m-%dT%H:%M:%S *)
   [37; 89; 45; 37; 109; 45; 37; 100; 32; 37; 72; 58; 37; 77; 58; 37; 83];   (* %Y-%m-%d %H:%M:%S *)
   [37; 70; 84; 37; 84];                                                     (* %FT%T *)
   [37; 70; 32; 37; 84]].                                                    (* %F %T *)
Theorem ndt_sep_parse_from_str y o v fmt :
  Proofs.C08Sweeps.repr y o (Model.DateTime.nd_date v) -> valid_time (Model.DateTime.nd_time v) ->
  In fmt ndt_formats ->
  exists text,
    Model.Format.delayed_display (Model.Format.fa_of_ndt v) (Model.Strftime.sf_new fmt) = Model.Format.fok text /\
    ndt_parse_from_str text fmt = pok (trunc_ndt v).
Proof.
  intros H Hvt Hin.
  assert (Hit : exists items, In items [NDT_T_FMT; NDT_SP_FMT] /\
            Model.Strftime.sf_take (S (Model.Strftime.sf_bound fmt)) (Model.Strftime.sf_new fmt) [] = Val (Some items) /\
            (List.length items < S (Model.Strftime.sf_bound fmt))%nat).
  { cbn in Hin. destruct Hin as [<-|[<-|[<-|[<-|[]]]]].
    - exists NDT_T_FMT. split; [left; reflexivity|]. split; [vm_compute; reflexivity|cbn; lia].
    - exists NDT_SP_FMT. split; [right; left; reflexivity|]. split; [vm_compute; reflexivity|cbn; lia].
    - exists NDT_T_FMT. split; [left; reflexivity|]. split; [vm_compute; reflexivity|cbn; lia].
    - exists NDT_SP_FMT. split; [right; left; reflexivity|]. split; [vm_compute; reflexivity|cbn; lia]. }
  destruct Hit as (items & Hi & Htake & Hlen).
  destruct (ndt_roundtrip y o v items H Hvt Hi) as (text & Hw & Hp).
  destruct (sf_lift fmt items _ text Htake Hlen Hw) as [Hd Hps].
  exists text. split; [exact Hd|]. unfold ndt_parse_from_str. rewrite Hps. exact Hp.
Qed.
