(** C20 -- the string forms through serde: reductions to the C09 / C10 / C19 theorems.
    Serialize = collect_str of the Debug / Display / name text (Model/Show.v, Model/Rfc3339.v),
    Deserialize = visit_str: value.parse() (Model/FromStr.v, Model/C19.v); a string is carried
    unchanged by both formats. *)
From Coq Require Import ZArith List Bool Lia ZifyBool String.
From V Require Import Base.Int Base.IntLemmas Base.IO Base.Utf8 Base.Lift Gen.ScanTables Gen.SerdeConsts
  Model.Scan Model.Rfc3339 Model.Parse Model.FromStr Model.Show Model.DateTime Model.Serde Spec.Gregorian
  Proofs.Decimal Proofs.C09Show Proofs.C09Time Proofs.C09Date Proofs.C09DateTime Proofs.C09Zoned Proofs.C09.
From V Require Model.Date Model.Time Model.C19 Proofs.Date Proofs.C08 Proofs.C14 Proofs.C10Writer Proofs.C12 Proofs.C09Parse Spec.Rfc3339.
Import ListNotations.
Open Scope Z_scope.
Ltac Zify.zify_post_hook ::= Z.to_euclidean_division_equations.
Import Proofs.Date.

(** * generic: a text that parses back, through serde *)
Lemma carry_str fmt s : carry fmt (SStr s) = SStr s.
Proof. unfold carry. destruct (fmt =? 0); reflexivity. Qed.

Lemma string_roundtrip {A} (w : W) (parse : bytes -> PR A) (v : A) fmt s :
  to_text w = Val s -> parse s = Val (POk v) ->
  collect_str w = Val (SOk (SStr s)) /\ de_str parse (carry fmt (SStr s)) = Val (SOk v).
Proof.
  intros Hw Hp. unfold collect_str. rewrite Hw. cbn [bind]. split; [reflexivity|].
  rewrite carry_str. unfold de_str. rewrite Hp. reflexivity.
Qed.

(** * NaiveDate, NaiveTime, NaiveDateTime (C09) *)
Theorem serde_roundtrip_date fmt y o d : repr y o d ->
  exists s, ser_date d = Val (SOk (SStr s)) /\ de_date (carry fmt (SStr s)) = Val (SOk d).
Proof.
  intros H. destruct (date_roundtrip y o d H) as (s & Hd & _ & Hp). exists s.
  unfold ser_date, de_date. change (SD_DATE_WRITER =? 1) with true. cbv iota.
  apply string_roundtrip; assumption.
Qed.
Theorem serde_roundtrip_time fmt t : time_dom t ->
  exists s, ser_time t = Val (SOk (SStr s)) /\ de_time (carry fmt (SStr s)) = Val (SOk t).
Proof.
  intros H. destruct (time_roundtrip t H) as (s & _ & Hd & Hp). exists s.
  unfold ser_time, de_time. change (SD_TIME_WRITER =? 1) with false. cbv iota.
  apply string_roundtrip; assumption.
Qed.
Theorem serde_roundtrip_ndt fmt a : ndt_dom a ->
  exists s, ser_ndt a = Val (SOk (SStr s)) /\ de_ndt (carry fmt (SStr s)) = Val (SOk a).
Proof.
  intros H. destruct (ndt_debug_roundtrip a H) as (s & Hd & Hp). exists s.
  unfold ser_ndt, de_ndt. change (SD_NDT_WRITER =? 1) with true. cbv iota.
  apply string_roundtrip; assumption.
Qed.

(** * Weekday, Month (C19 readers) *)
Theorem serde_roundtrip_weekday fmt w : 0 <= w < 7 ->
  exists s, ser_wd w = Val (SOk (SStr s)) /\ de_wd (carry fmt (SStr s)) = Val (SOk w).
Proof.
  intros H. destruct (weekday_roundtrip w H) as [(s & Hd & Hp) _]. exists s.
  unfold ser_wd, collect_str. rewrite Hd. cbn [bind]. split; [reflexivity|].
  rewrite carry_str. unfold de_wd, de_name. rewrite Hp. reflexivity.
Qed.
Definition mo_name_rt_b (m : Z) : bool :=
  match C19.mo_name m with
  | Val a => match C19.mo_from_str a with Val (Some x) => x =? m | _ => false end
  | _ => false end.
Lemma mo_name_rt_sweep : forall_range mo_name_rt_b 0 12 = true.
Proof. vm_compute. reflexivity. Qed.
Theorem serde_roundtrip_month fmt m : 0 <= m < 12 ->
  exists s, ser_mo m = Val (SOk (SStr s)) /\ de_mo (carry fmt (SStr s)) = Val (SOk m).
Proof.
  intros Hm. pose proof (forall_range_spec _ _ _ mo_name_rt_sweep m ltac:(lia)) as H.
  unfold mo_name_rt_b in H. unfold ser_mo.
  destruct (C19.mo_name m) as [a| |]; try discriminate.
  destruct (C19.mo_from_str a) as [[x|]| |] eqn:Ea; try discriminate.
  apply Z.eqb_eq in H. subst x. exists a. cbn [bind]. split; [reflexivity|].
  rewrite carry_str. unfold de_mo, de_name. rewrite Ea. reflexivity.
Qed.

(** * DateTime<Tz>: the text written by write_rfc3339(local, offset, AutoSi, use_z) *)
Lemma write_rfc3339_text w y o d t off uz : repr y o d -> tvalid t ->
  write_rfc3339 w (mk_ndt d t) off 4 uz =
  offset_format_format (mk_of 1 1 uz 1)
    (w ++ ndt_txt 84 y (C08.month_of y o) (C08.day_of y o) (Time.tsecs t) (Time.tfrac t)) off.
Proof.
  intros H [Hs Hf]. pose proof (C08.repr_md y o d H) as (E1 & _ & E3 & E4 & _ & _ & Hm & Hd & _).
  pose proof H as (Hy & _). pose proof (year_range_bounds y Hy) as Hyb.
  assert (Hdd : 1 <= C08.day_of y o <= 31).
  { pose proof (days_in_month_bounds (is_leap y) (C08.month_of y o)). lia. }
  unfold write_rfc3339. cbn [nd_date nd_time]. rewrite E1, E3, E4.
  unfold Time.nanosecond, Time.hms, Time.udiv, Time.urem.
  set (s := Time.tsecs t) in *. set (f := Time.tfrac t) in *.
  change W3_YEAR_LO with 0. change W3_YEAR_HI with 9999. change W3_LEAP_NANO with 1000000000.
  change W3_AUTO_MILLIS_MOD with 1000000. change W3_AUTO_MILLIS_WIDTH with 3. change W3_AUTO_MILLIS_DIV with 1000000.
  change W3_AUTO_MICROS_MOD with 1000. change W3_AUTO_MICROS_WIDTH with 6. change W3_AUTO_MICROS_DIV with 1000.
  change W3_NANOS_WIDTH with 9.
  cbn [Z.eqb Pos.eqb].
  rewrite !Z.quot_div_nonneg, !Z.rem_mod_nonneg by lia.
  replace (s / 60 / 60) with (s / 3600) by lia.
  assert (Hh : 0 <= s / 3600 < 24) by lia.
  assert (Hmi : 0 <= s / 60 mod 60 < 60) by lia.
  assert (Hsec : 0 <= s mod 60 < 60) by lia.
  (* the date part *)
  assert (Edate : forall k : bytes -> W,
    (let* wy := (if (0 <=? y) && (y <=? 9999) then
         let* q := div_i32 y 100 in let* r := rem_i32 y 100 in
         Val (match write_hundreds w (as_u8 q) with None => None | Some w0 => write_hundreds w0 (as_u8 r) end)
       else Val (Some (w ++ fmt_plus_05 y))) in
     let! w0 := wy in k w0) = k (w ++ year_txt y)).
  { intros k. unfold year_txt. destruct ((0 <=? y) && (y <=? 9999)) eqn:E.
    - rewrite C14.div_i32_100, C14.rem_i32_100 by (unfold in_i32, in_range, i32_min, i32_max; lia). cbn [bind].
      rewrite Z.quot_div_nonneg, Z.rem_mod_nonneg by lia.
      rewrite !as_u8_small by lia.
      rewrite write_hundreds_two by lia. rewrite write_hundreds_two by lia. cbn [bind obind_].
      rewrite <- low_digits_4_split by lia. rewrite <- !app_assoc. reflexivity.
    - cbn [bind obind_]. unfold fmt_plus_05. reflexivity. }
  rewrite Edate. unfold write_char. cbn [obind_ bind].
  rewrite !as_u8_small by lia.
  rewrite write_hundreds_two by lia. cbn [obind_ bind].
  rewrite write_hundreds_two by lia. cbn [obind_ bind].
  replace (f >=? 1000000000) with (1000000000 <=? f) by lia.
  unfold ndt_txt, date_txt, time_txt. fold s f. cbv zeta.
  destruct (1000000000 <=? f) eqn:El.
  - unfold add_u32, sub_u32. rewrite !chk_in by (unfold in_u32, in_range, u32_max; lia). cbn [bind].
    set (sub := f - 1000000000). assert (Hsub : 0 <= sub < 1000000000) by lia.
    rewrite !as_u8_small by lia.
    rewrite write_hundreds_two by lia. cbn [obind_ bind].
    rewrite write_hundreds_two by lia. cbn [obind_ bind].
    rewrite write_hundreds_two by lia. cbn [obind_ bind].
    unfold frac_part, write_frac.
    rewrite !Z.rem_mod_nonneg by lia. rewrite !Z.quot_div_nonneg by lia.
    destruct (sub =? 0); [cbn [obind_ bind]; rewrite app_nil_r, <- !app_assoc; reflexivity|].
    destruct (sub mod 1000000 =? 0) eqn:F1.
    { rewrite fmt_zero_pad_low by lia. cbn [obind_ bind]. rewrite <- !app_assoc. reflexivity. }
    destruct (sub mod 1000 =? 0) eqn:F2.
    { rewrite fmt_zero_pad_low by lia. cbn [obind_ bind]. rewrite <- !app_assoc. reflexivity. }
    rewrite fmt_zero_pad_low by lia. cbn [obind_ bind]. rewrite <- !app_assoc. reflexivity.
  - cbn [bind]. assert (Hsub : 0 <= f < 1000000000) by lia.
    rewrite !as_u8_small by lia.
    rewrite write_hundreds_two by lia. cbn [obind_ bind].
    rewrite write_hundreds_two by lia. cbn [obind_ bind].
    rewrite write_hundreds_two by lia. cbn [obind_ bind].
    unfold frac_part, write_frac. rewrite Z.add_0_r.
    rewrite !Z.rem_mod_nonneg by lia. rewrite !Z.quot_div_nonneg by lia.
    destruct (f =? 0); [cbn [obind_ bind]; rewrite app_nil_r, <- !app_assoc; reflexivity|].
    destruct (f mod 1000000 =? 0) eqn:F1.
    { rewrite fmt_zero_pad_low by lia. cbn [obind_ bind]. rewrite <- !app_assoc. reflexivity. }
    destruct (f mod 1000 =? 0) eqn:F2.
    { rewrite fmt_zero_pad_low by lia. cbn [obind_ bind]. rewrite <- !app_assoc. reflexivity. }
    rewrite fmt_zero_pad_low by lia. cbn [obind_ bind]. rewrite <- !app_assoc. reflexivity.
Qed.

(** the zone suffix serde writes for a whole-minute offset: "Z" for +00:00, else +hh:mm / -hh:mm *)
Definition serde_zone (off : Z) : bytes := if off =? 0 then Gen.TextForms.SH_UTC_DEBUG else off_txt off.
Lemma serde_zone_sweep : forall_range (fun m =>
  bytes_eqb (Spec.Rfc3339.render_zone (C10Writer.zone_of (60 * m) true)) (serde_zone (60 * m))) (-1439) 2879 = true.
Proof. vm_compute. reflexivity. Qed.
Lemma offset_format_serde w off : -86400 < off < 86400 -> off mod 60 = 0 ->
  offset_format_format (mk_of 1 1 true 1) w off = Val (Some (w ++ serde_zone off)).
Proof.
  intros Hr Hm. rewrite C10Writer.offset_format_rfc3339 by assumption.
  pose proof (forall_range_spec _ _ _ serde_zone_sweep (off / 60) ltac:(lia)) as H. cbv beta in H.
  replace (60 * (off / 60)) with off in H by lia.
  apply C12.bytes_eqb_eq in H. rewrite H. reflexivity.
Qed.

Section Zoned.
  Variables (yu ou du su fu off : Z).
  Hypothesis Hrepr : repr yu ou du.
  Hypothesis Htime : time_dom (Time.mk_time su fu).
  Hypothesis Hoff : -86400 < off < 86400.
  Hypothesis Hmin : off mod 60 = 0.
  Hypothesis Hwall : dn_in_range (dn_of_yo yu ou + (su + off) / 86400) = true.
  Let a := mk_dtz (mk_ndt du (Time.mk_time su fu)) off.

  Lemma ser_dtz_text : SD_DT_LOCAL_OVERFLOWING = 1 -> SD_DT_SECFORM = 4 -> SD_DT_USE_Z = 1 ->
    ser_dtz a = Val (SOk (SStr (zoned_txt yu ou su fu off 84 (serde_zone off)))).
  Proof.
    intros F1 F2 F3. unfold ser_dtz. rewrite F1, F2, F3. cbn [Z.eqb Pos.eqb].
    unfold a. rewrite (local_of yu ou du su fu off Hrepr Htime Hoff Hmin Hwall). cbn [bind dz_off].
    rewrite (write_rfc3339_text [] _ _ _ _ off true (local_repr yu ou su off Hwall)
               (proj1 (local_time_dom yu ou su fu off Htime Hmin))).
    rewrite offset_format_serde by assumption. cbn [app Time.tsecs Time.tfrac].
    unfold collect_str, to_text, unwrap_r, unwrap. cbn [bind]. reflexivity.
  Qed.

  Lemma read_serde_text : datetime_from_str (zoned_txt yu ou su fu off 84 (serde_zone off)) = Val (POk a).
  Proof.
    unfold serde_zone. destruct (off =? 0) eqn:E.
    - assert (off = 0) by lia. subst off.
      apply (read_zoned yu ou du su fu 0 Hrepr Htime Hoff Hmin Hwall 84
               Gen.TextForms.SH_UTC_DEBUG Gen.TextForms.SH_UTC_DEBUG 0);
        [left; reflexivity|apply utc_dbg_stop| |apply tail_scan_z|reflexivity].
      intros. apply C09Parse.parse_item_space. apply utc_dbg_nows.
    - apply (read_zoned yu ou du su fu off Hrepr Htime Hoff Hmin Hwall 84 (off_txt off) (off_txt off) off);
        [left; reflexivity|apply off_txt_stop| |apply tail_scan_off; assumption|reflexivity].
      intros. apply C09Parse.parse_item_space. apply off_txt_nows.
  Qed.
End Zoned.

(* the serializer shape read from the source: wall clock through overflowing_naive_local (the
   repaired code), SecondsFormat::AutoSi, use_z = true *)
Lemma serde_dt_shape : SD_DT_LOCAL_OVERFLOWING = 1 /\ SD_DT_SECFORM = 4 /\ SD_DT_USE_Z = 1.
Proof. repeat split; reflexivity. Qed.

(* DateTime<FixedOffset> -> DateTime<FixedOffset>: the value itself (instant and offset), for every
   whole-minute offset with the wall-clock date inside the date range *)
Theorem serde_roundtrip_dt_fixed fmt a : dtz_dom a ->
  exists s, ser_dtz a = Val (SOk (SStr s)) /\ de_dt_fixed (carry fmt (SStr s)) = Val (SOk a).
Proof.
  intros (yu & ou & Hr & Ht & Ho & Hm & Hw). destruct a as [[du [su fu]] off].
  cbn [dz_utc dz_off nd_date nd_time Time.tsecs] in *.
  destruct serde_dt_shape as (F1 & F2 & F3).
  eexists. split; [apply (ser_dtz_text yu ou du su fu off Hr Ht Ho Hm Hw F1 F2 F3)|].
  rewrite carry_str. unfold de_dt_fixed, de_str, datetime_fixed_from_str.
  rewrite (read_serde_text yu ou du su fu off Hr Ht Ho Hm Hw). reflexivity.
Qed.
(* ... -> DateTime<Utc> / DateTime<Local>: the same instant, offset dropped *)
Theorem serde_roundtrip_dt_to_utc fmt a : dtz_dom a ->
  exists s, ser_dtz a = Val (SOk (SStr s)) /\
            de_dt_utc (carry fmt (SStr s)) = Val (SOk (with_timezone a 0)) /\
            de_dt_local (carry fmt (SStr s)) = Val (SOk (with_timezone a 0)).
Proof.
  intros H. destruct (serde_roundtrip_dt_fixed fmt a H) as (s & Hs & Hd). exists s. split; [exact Hs|].
  unfold de_dt_utc, de_dt_local. rewrite Hd. split; reflexivity.
Qed.
(* DateTime<Utc>: every value of the domain (the wall clock is the UTC reading) *)
Theorem serde_roundtrip_dt_utc fmt y o d t : repr y o d -> time_dom t ->
  let a := mk_dtz (mk_ndt d t) 0 in
  exists s, ser_dtz a = Val (SOk (SStr s)) /\ de_dt_utc (carry fmt (SStr s)) = Val (SOk a).
Proof.
  intros Hr Ht a. destruct (serde_roundtrip_dt_to_utc fmt a (dtz_dom_utc y o d t Hr Ht)) as (s & Hs & Hd & _).
  exists s. split; [exact Hs|exact Hd].
Qed.
