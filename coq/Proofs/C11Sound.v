(** C11 -- reader soundness, scanning half: whenever the hand-written scanner sequence
    parse_rfc2822 (followed by the TOO_LONG check of format::parse::parse) succeeds on a
    well-formed string, the string is a string of the RFC 2822 grammar read with Unicode white
    space (Spec/Rfc2822Lenient.v [recognise_u]), the field state returned is exactly the one the
    recognised fields prescribe, and every field passed its setter's range check.
    This is the converse of Proofs/C11Scan.v [scan_complete]. *)
From Coq Require Import ZArith List Bool Lia ZifyBool String.
From V Require Model.Date Model.Time Model.Parsed.
From V Require Import Base.Int Base.IntLemmas Base.IO Base.Utf8 Gen.ScanTables Gen.Rfc2822Consts Model.Scan Model.DateTime
  Model.Rfc2822 Spec.Gregorian Spec.Rfc2822 Spec.Rfc2822Lenient Proofs.Utf8 Proofs.Scan Proofs.C11 Proofs.C11Scan Proofs.C11Inv.
From V Require Proofs.C13Safe Proofs.C11Total.
Import ListNotations.
Open Scope Z_scope.

(** what the setters of [Parsed] checked *)
Definition setter_ok (f : fields) : Prop :=
  1 <= f_day f <= 31 /\ 1 <= f_month f <= 12 /\ i32_min <= year_of f <= i32_max /\ 0 <= f_hour f <= 23 /\
  0 <= f_minute f <= 59 /\ 0 <= second_of f <= 60 /\ valid_zone (f_zone f) = true /\ 0 <= f_yval f /\
  i32_min <= zone_offset (f_zone f) <= i32_max.

Lemma year_rule_inv yl yv y : 2 <= yl -> 0 <= yv < 10 ^ yl -> year_rule yl yv = Val y -> y = year_rule_spec yl yv.
Proof.
  intros Hl Hy H. destruct (Z_le_dec yv (i64_max - 2000)) as [L|L].
  - rewrite year_rule_ok in H by assumption. injection H as <-. reflexivity.
  - assert (4 <= yl).
    { destruct (Z.eq_dec yl 2) as [->|]; [change (10 ^ 2) with 100 in Hy; unfold i64_max in L; lia|].
      destruct (Z.eq_dec yl 3) as [->|]; [change (10 ^ 3) with 1000 in Hy; unfold i64_max in L; lia|]. lia. }
    unfold year_rule, R2_YEAR_ARM1_LEN, R2_YEAR_ARM2_LEN, R2_YEAR_ARM3_LEN in H.
    replace (yl =? 2) with false in H by lia. replace (yl =? 3) with false in H by lia. cbn [andb] in H. injection H as <-.
    unfold year_rule_spec, year_of. cbn [f_ylen f_yval]. replace (yl =? 2) with false by lia. replace (yl =? 3) with false by lia.
    reflexivity.
Qed.

Theorem scan_sound s p : utf8_valid s = true -> blen s <= u64_max ->
  parse_items_rfc2822 Parsed.parsed_new s = Val (POk p) ->
  exists f, recognise_u s = Some f /\ p = parsed_of f /\ setter_ok f.
Proof.
  intros Hv Hl H. unfold parse_items_rfc2822 in H.
  apply pbind_inv_ in H. destruct H as ([p0 rest0] & H & Hend).
  destruct rest0 as [|x0 rest0]; [|cbn [is_empty perr_] in Hend; discriminate].
  cbn [is_empty pok] in Hend. injection Hend as ->.
  unfold parse_rfc2822 in H. cbv zeta in H.
  destruct (trim_start_valid s Hv) as [Hv0 L0].
  (* weekday *)
  apply pbind_inv_ in H. destruct H as ([p1 s1] & Hwd & H).
  destruct (opt_weekday_inv Parsed.parsed_new _ _ _ Hv0 eq_refl Hwd) as (wd & Edow & -> & Hv1).
  pose proof (rec_dow_len _ _ _ Edow) as L1.
  destruct (trim_start_valid s1 Hv1) as [Hv1' L1'].
  set (p1 := match wd with Some w => Parsed.pput Parsed.F_weekday (Some w) Parsed.parsed_new | None => Parsed.parsed_new end) in *.
  (* day *)
  apply pbind_inv_ in H. destruct H as ([s2 d] & Hday & H). unfold R2_DAY_MIN, R2_DAY_MAX in Hday.
  pose proof (V.Proofs.C11Total.number_safe_len (trim_start s1) 1 2 Hv1' ltac:(lia)) as Sday.
  rewrite Hday in Sday. cbn [V.Proofs.C13Safe.safe fst snd] in Sday. destruct Sday as (Hv2 & L2 & _).
  apply pbind_inv_ in H. destruct H as (p2 & Hsd & H).
  unfold Parsed.set_day in Hsd.
  edestruct pset_checked_inv as [Rd Ep]; [|exact Hsd|]; [subst p1; destruct wd; reflexivity|]. subst p2.
  rewrite as_u32_small in H by (unfold u32_max; lia).
  apply pbind_inv_ in H. destruct H as (s3 & Hsp1 & H). apply space_inv in Hsp1.
  pose proof (uws1_not_digit _ _ Hsp1) as Nd2. pose proof (day_inv _ _ _ Hv1' Hday Nd2) as Eday.
  pose proof (uws1_trim _ _ Hsp1) as E3. destruct (trim_start_valid s2 Hv2) as [Hv3 L3]. rewrite <- E3 in Hv3, L3.
  (* month *)
  apply pbind_inv_ in H. destruct H as ([s4 m0] & Hmon & H).
  destruct (month_inv _ _ _ Hv3 Hmon) as [Emon Hv4]. pose proof (month_name_len _ _ _ Emon) as L4.
  apply bind_inv_ in H. destruct H as (month & Hadd & H).
  unfold add_i64, R2_MONTH_ADD, chk in Hadd. destruct (in_i64 (1 + m0)); [|discriminate].
  apply (f_equal (fun r => match r with Val x => x | _ => 0 end)) in Hadd. cbv beta iota in Hadd.
  assert (Hm1 : month = m0 + 1) by lia. clear Hadd. subst month.
  apply pbind_inv_ in H. destruct H as (p3 & Hsm & H).
  unfold Parsed.set_month in Hsm.
  edestruct pset_checked_inv as [Rm Ep]; [|exact Hsm|]; [subst p1; destruct wd; reflexivity|]. subst p3.
  rewrite as_u32_small in H by (unfold u32_max; lia).
  apply pbind_inv_ in H. destruct H as (s5 & Hsp2 & H). apply space_inv in Hsp2.
  pose proof (uws1_trim _ _ Hsp2) as E5. destruct (trim_start_valid s4 Hv4) as [Hv5 L5]. rewrite <- E5 in Hv5, L5.
  (* year *)
  apply pbind_inv_ in H. destruct H as ([s6 year] & Hyear & H). unfold R2_YEAR_MIN in Hyear.
  destruct (year_inv _ _ _ Hv5 ltac:(lia) Hyear) as (Eyear & Hyl2 & Hyv & Hv6 & L6).
  apply bind_inv_ in H. destruct H as (yearlen & Hsub & H).
  unfold sub_usize, chk in Hsub. destruct (in_usize (blen s5 - blen s6)); [|discriminate]. injection Hsub as <-.
  apply bind_inv_ in H. destruct H as (y & Hyr & H).
  apply year_rule_inv in Hyr; [|lia|lia]. subst y.
  apply pbind_inv_ in H. destruct H as (p4 & Hsy & H).
  unfold Parsed.set_year in Hsy.
  edestruct pset_checked_inv as [Ry Ep]; [|exact Hsy|]; [subst p1; destruct wd; reflexivity|]. subst p4. cbv beta in H.
  apply pbind_inv_ in H. destruct H as (s7 & Hsp3 & H). apply space_inv in Hsp3.
  pose proof (uws1_trim _ _ Hsp3) as E7. destruct (trim_start_valid s6 Hv6) as [Hv7 L7]. rewrite <- E7 in Hv7, L7.
  (* hour *)
  apply pbind_inv_ in H. destruct H as ([s8 h] & Hh & H). unfold R2_HOUR_MIN, R2_HOUR_MAX in Hh.
  destruct (two_inv _ _ _ Hv7 Hh) as (Eh & Hv8 & Rh0). pose proof (take2_len _ _ _ Eh) as L8.
  apply bind_inv_ in H. destruct H as (sh & Hsh & H).
  apply pbind_inv_ in H. destruct H as (p6 & Hp6 & H).
  edestruct set_hour_inv as [Rh Ep]; [| |exact Hsh|exact Hp6|]; [subst p1; destruct wd; reflexivity|subst p1; destruct wd; reflexivity|]. subst p6.
  (* colon *)
  destruct (trim_start_valid s8 Hv8) as [Hv8' L8'].
  apply pbind_inv_ in H. destruct H as (s9 & Hcol & H). unfold R2_TIME_SEP1 in Hcol.
  rewrite char_ok in Hcol by (exact Hv8' || lia).
  destruct (trim_start s8) as [|x8 t8] eqn:E8; [discriminate|]. destruct (x8 =? 58) eqn:Ex8; [|discriminate].
  injection Hcol as ->. assert (x8 = 58) by lia. subst x8.
  destruct (utf8_valid_tail_ascii 58 s9 ltac:(lia) Hv8') as [Hv9 _]. rewrite blen_cons in L8'.
  destruct (trim_start_valid s9 Hv9) as [Hv9' L9'].
  (* minute *)
  apply pbind_inv_ in H. destruct H as ([s10 mi] & Hmi & H). unfold R2_MINUTE_MIN, R2_MINUTE_MAX in Hmi.
  destruct (two_inv _ _ _ Hv9' Hmi) as (Emi & Hv10 & Rmi0). pose proof (take2_len _ _ _ Emi) as L10.
  apply pbind_inv_ in H. destruct H as (p7 & Hsmi & H).
  unfold Parsed.set_minute in Hsmi.
  edestruct pset_checked_inv as [Rmi Ep]; [|exact Hsmi|]; [subst p1; destruct wd; reflexivity|]. subst p7.
  rewrite as_u32_small in H by (unfold u32_max; lia).
  (* second *)
  apply pbind_inv_ in H. destruct H as ([p8 s11] & Hsec & H).
  edestruct opt_second_inv as (sec & Esec & Ep & Rsec & Hv11 & L11); [exact Hv10| |exact Hsec|]; [subst p1; destruct wd; reflexivity|]. subst p8.
  apply pbind_inv_ in H. destruct H as (s12 & Hsp4 & H). apply space_inv in Hsp4.
  pose proof (uws1_trim _ _ Hsp4) as E12. destruct (trim_start_valid s11 Hv11) as [Hv12 L12]. rewrite <- E12 in Hv12, L12.
  (* zone *)
  apply pbind_inv_ in H. destruct H as ([s13 off] & Hz & H).
  destruct (zone_inv _ _ _ Hv12 Hz) as (z & Ez & Vz & Eoff & Hv13). pose proof (rec_zone_len _ _ _ Ez) as L13.
  apply pbind_inv_ in H. destruct H as (p9 & Hso & H).
  unfold Parsed.set_offset in Hso.
  edestruct pset_checked_inv as [Ro Ep]; [|exact Hso|]; [subst p1; destruct wd, sec; reflexivity|]. subst p9. cbv beta in H.
  (* comments *)
  apply bind_inv_ in H. destruct H as (rest & Hcom & H). cbv [pok] in H. injection H as Hp Hrest. subst p rest.
  pose proof (comments_inv _ s13 Hv13 ltac:(lia) Hcom) as Ecom.
  set (F := mk_fields wd d (m0 + 1) (blen s5 - blen s6) year h mi sec z).
  exists F. split; [|split].
  - unfold recognise_u, uws0. rewrite Edow. cbv beta iota zeta. unfold obind.
    rewrite Eday, Hsp1, Emon, Hsp2, Eyear, Hsp3, Eh, E8. cbn [expect Z.eqb Pos.eqb].
    rewrite Emi, Esec, Hsp4, Ez, Ecom. reflexivity.
  - unfold parsed_of. cbn [F f_wd f_day f_month f_hour f_minute f_second f_zone].
    change (year_rule_spec (blen s5 - blen s6) year) with (year_of F).
    rewrite Eoff. subst p1. destruct wd, sec; reflexivity.
  - unfold setter_ok. cbn [F f_day f_month f_hour f_minute f_zone f_yval].
    change (year_rule_spec (blen s5 - blen s6) year) with (year_of F) in Ry.
    unfold second_of. cbn [F f_second]. rewrite Eoff. repeat split; try lia; try exact Vz; destruct sec; lia.
Qed.
