(** C14, the timestamp path of [to_naive_datetime_with_offset] (the [(_, _)] arm: the date / time
    fields alone do not resolve, the value is rebuilt from the [timestamp] field and the remaining
    fields are cross-checked): COMPLETENESS.  For every supported date-time value -- whole seconds
    or with the nanosecond field, and the leap-second form -- a field state holding its timestamp
    (and any other fields of the value) resolves to exactly that value, through
    [to_naive_datetime_with_offset], [to_datetime] and [to_datetime_with_timezone] (fixed offset);
    and the exact outcome of a state that holds just the timestamp [, second [, nanosecond]]:
    in particular when [second = 60] together with a timestamp is accepted. *)
From Coq Require Import ZArith List Bool Lia ZifyBool.
From V Require Import Base.Int Base.IntLemmas Base.IO Spec.Gregorian Model.TimeDelta.
From V Require Model.Date Model.Time.
From V Require Import Model.DateTime Model.Parsed.
From V Require Import Proofs.C08Sweeps Proofs.C08Date Proofs.C08 Proofs.C08AddDays Proofs.Date Proofs.C14 Proofs.C14Date Proofs.C14Iso
  Proofs.C14Zoned.
From V Require Proofs.C04 Proofs.C04Date.
Import ListNotations.
Open Scope Z_scope.
Ltac Zify.zify_post_hook ::= Z.to_euclidean_division_equations.

Module P4 := V.Proofs.C04.
Module P4D := V.Proofs.C04Date.

(** * The timestamp arm as a function of its own *)
Definition ts_tail (parsed : parsed) (datetime : ndt) : R (res ndt) :=
  let! parsed := tryset (Parsed.set_year parsed (Date.d_year (nd_date datetime))) in
  let! parsed := tryset (Parsed.set_ordinal parsed (Date.d_ordinal (nd_date datetime))) in
  let* sh := Parsed.set_hour parsed (Time.hour (nd_time datetime)) in
  let! parsed := tryset sh in
  let! parsed := tryset (Parsed.set_minute parsed (Time.minute (nd_time datetime))) in
  let! date := to_naive_date parsed in
  let! time := to_naive_time parsed in
  Val (Ok (mk_ndt date time)).

Definition ts_second_step (p : parsed) (datetime : ndt) : R (res (ndt * parsed)) :=
  if opt_eqb (p_second p) (Some 60) then
    let sec := Time.second (nd_time datetime) in
    if sec =? 59 then Val (Ok (datetime, p))
    else if sec =? 0 then
      let* one := unwrap (try_seconds 1) in
      let! d := ok_or_r (ndt_checked_sub_signed datetime one) OutOfRange in
      Val (Ok (d, p))
    else Val (Err Impossible)
  else
    let! p1 := tryset (Parsed.set_second p (Time.second (nd_time datetime))) in
    Val (Ok (datetime, p1)).

Definition ts_arm (p : parsed) (timestamp offset : Z) : R (res ndt) :=
  let! ts := ok_or (checked_add in_i64 timestamp offset) OutOfRange in
  let! datetime := ok_or_r (dt_from_timestamp ts 0) OutOfRange in
  ebind (ts_second_step p datetime) (fun '(datetime, parsed) => ts_tail parsed datetime).

(** the first attempt (date and time from the fields alone) fails softly: not both resolve, and
    neither reports 'out of range' or 'impossible' (what is left is 'not enough') *)
Definition soft (rd : res Z) (rt : res Time.ntime) : bool :=
  match rd, rt with
  | Ok _, Ok _ => false
  | _, _ => negb (is_err_kind rd OutOfRange || is_err_kind rt OutOfRange ||
                  is_err_kind rd Impossible || is_err_kind rt Impossible)
  end.

Lemma ts_arm_taken p off rd rt g :
  to_naive_date p = Val rd -> to_naive_time p = Val rt -> soft rd rt = true -> p_timestamp p = Some g ->
  to_naive_datetime_with_offset p off = ts_arm p g off.
Proof.
  intros Hd Ht Hs Hg. unfold to_naive_datetime_with_offset. rewrite Hd, Ht. cbn [bind]. rewrite Hg.
  destruct rd as [d|ed], rt as [t|et]; unfold soft in Hs; try discriminate.
  - destruct et; cbn in Hs; try discriminate; reflexivity.
  - destruct ed; cbn in Hs; try discriminate; reflexivity.
  - destruct ed, et; cbn in Hs; try discriminate; reflexivity.
Qed.

(** * Seconds of the local reading *)
Definition day_of_secs (L : Z) : Z := L / 86400 + 719163.
Definition ndt_at (L f : Z) : ndt := mk_ndt (date_of_dn (day_of_secs L)) (Time.mk_time (L mod 86400) f).
(** the count of non-leap seconds of the value (date (y, o), second of day s) *)
Definition secs_at (y o s : Z) : Z := (dn_of_yo y o - 719163) * 86400 + s.

Lemma secs_at_day y o s : 0 <= s < 86400 -> day_of_secs (secs_at y o s) = dn_of_yo y o /\ secs_at y o s mod 86400 = s.
Proof. intros H. unfold day_of_secs, secs_at. lia. Qed.

Lemma dt_timestamp_val y o d t : repr y o d -> 0 <= Time.tsecs t < 86400 ->
  dt_timestamp (mk_ndt d t) = Val (secs_at y o (Time.tsecs t)).
Proof.
  intros H Ht. unfold dt_timestamp. cbn [nd_date nd_time]. rewrite (num_days_from_ce_spec _ _ _ H). cbn [bind].
  pose proof (repr_dn_in_range _ _ _ H) as R. unfold dn_in_range, DN_MIN, DN_MAX in R.
  unfold Time.num_seconds_from_midnight, DateTimeConsts.UNIX_EPOCH_DAY, sub_i64, mul_i64, add_i64, secs_at.
  rewrite chk_in by (unfold in_i64, in_range, i64_min, i64_max; lia). cbn [bind].
  rewrite chk_in by (unfold in_i64, in_range, i64_min, i64_max; lia). cbn [bind].
  rewrite chk_in by (unfold in_i64, in_range, i64_min, i64_max; lia). reflexivity.
Qed.

(** [from_timestamp] for every i64 count and every nanosecond argument a time of day admits *)
Lemma dt_from_timestamp_val L f : in_i64 L = true ->
  0 <= f -> (f < 1000000000 \/ (f < 2000000000 /\ L mod 60 = 59)) ->
  dt_from_timestamp L f = Val (if dn_in_range (day_of_secs L) then Some (ndt_at L f) else None).
Proof.
  intros Hts Hf0 Hf. unfold dt_from_timestamp, DateTimeConsts.DT_SECS_PER_DAY, DateTimeConsts.UNIX_EPOCH_DAY, ndt_at, day_of_secs.
  rewrite div_euclid_pos by lia. rewrite rem_euclid_pos by lia.
  unfold add_i64. unfold in_i64, in_range, i64_min, i64_max in Hts.
  rewrite chk_in by (unfold in_i64, in_range, i64_min, i64_max; lia). cbn [bind].
  rewrite chk_in by (unfold in_i64, in_range, i64_min, i64_max; lia). cbn [bind].
  replace (in_i64 (L / 86400)) with true by (unfold in_i64, in_range, i64_min, i64_max; lia). cbn [bind].
  destruct ((L / 86400 + 719163 <? i32_min) || (i32_max <? L / 86400 + 719163)) eqn:E.
  { replace (dn_in_range (L / 86400 + 719163)) with false; [reflexivity|].
    unfold dn_in_range, DN_MIN, DN_MAX, i32_min, i32_max in *. lia. }
  assert (Hi : in_i32 (L / 86400 + 719163) = true) by (unfold in_i32, in_range, i32_min, i32_max in *; lia).
  rewrite as_i32_id by exact Hi. rewrite from_num_days_from_ce_opt_spec by exact Hi. unfold obind. cbn [bind].
  unfold date_if. destruct (dn_in_range (L / 86400 + 719163)) eqn:Er; [|reflexivity].
  rewrite as_u32_small by (unfold u32_max; lia).
  unfold Time.from_num_seconds_from_midnight_opt, Time.urem.
  rewrite Z.rem_mod_nonneg by lia.
  replace ((L mod 86400 >=? 86400) || (f >=? 2000000000) || (f >=? 1000000000) && negb ((L mod 86400) mod 60 =? 59))
    with false by lia.
  reflexivity.
Qed.

Lemma ndt_at_repr L f : dn_in_range (day_of_secs L) = true ->
  repr (fst (yo_of_dn (day_of_secs L))) (snd (yo_of_dn (day_of_secs L))) (nd_date (ndt_at L f)) /\
  dn_of_yo (fst (yo_of_dn (day_of_secs L))) (snd (yo_of_dn (day_of_secs L))) = day_of_secs L.
Proof. intros H. exact (C08.date_of_dn_repr _ H). Qed.

(** hour, minute, second of a time of day *)
Lemma hms_vals s f : 0 <= s < 86400 ->
  Time.hour (Time.mk_time s f) = s / 3600 /\ Time.minute (Time.mk_time s f) = (s / 60) mod 60 /\
  Time.second (Time.mk_time s f) = s mod 60.
Proof.
  intros H. unfold Time.hour, Time.minute, Time.second, Time.hms, Time.udiv, Time.urem. cbn [Time.tsecs].
  rewrite !Z.quot_div_nonneg, !Z.rem_mod_nonneg by lia. repeat split; lia.
Qed.

(** * One accepted setter call, as an equation *)
Lemma set_checked_accept f lo hi cast p v :
  lo <= v <= hi -> (pget f p = None \/ pget f p = Some (cast v)) ->
  set_checked f lo hi cast p v = (pput f (Some (cast v)) p, Ok tt).
Proof.
  intros R C. rewrite set_checked_in by exact R. unfold set_if_consistent.
  destruct C as [-> | ->]; [reflexivity|]. rewrite Z.eqb_refl. reflexivity.
Qed.
Lemma set_checked_clash f lo hi cast p v old :
  lo <= v <= hi -> pget f p = Some old -> old <> cast v ->
  set_checked f lo hi cast p v = (p, Err Impossible).
Proof.
  intros R C N. rewrite set_checked_in by exact R. unfold set_if_consistent. rewrite C.
  replace (old =? cast v) with false by lia. reflexivity.
Qed.
Lemma set_ifc_accept f p v : (pget f p = None \/ pget f p = Some v) ->
  set_if_consistent f p v = (pput f (Some v) p, Ok tt).
Proof. unfold set_if_consistent. intros [-> | ->]; [reflexivity|]. rewrite Z.eqb_refl. reflexivity. Qed.

(** * The completed field state *)
(** the fields the timestamp arm adds: year, ordinal, hour (both halves), minute *)
Definition completed (p : parsed) (y o s : Z) : parsed :=
  pput F_minute (Some ((s / 60) mod 60))
    (pput F_hour_mod_12 (Some ((s / 3600) mod 12))
      (pput F_hour_div_12 (Some ((s / 3600) / 12))
        (pput F_ordinal (Some o) (pput F_year (Some y) p)))).

(** the fields of [p] that the arm writes are absent or already those of the value *)
Definition agrees (o : option Z) (v : Z) : Prop := o = None \/ o = Some v.
Definition ts_consistent (p : parsed) (y o s : Z) : Prop :=
  agrees (p_year p) y /\ agrees (p_ordinal p) o /\ agrees (p_hour_div_12 p) ((s / 3600) / 12) /\
  agrees (p_hour_mod_12 p) ((s / 3600) mod 12) /\ agrees (p_minute p) ((s / 60) mod 60).

Lemma ts_tail_completed p y o d s : repr y o d -> 0 <= s < 86400 -> ts_consistent p y o s ->
  ts_tail p (mk_ndt d (Time.mk_time s 0)) =
  (let! date := to_naive_date (completed p y o s) in
   let! time := to_naive_time (completed p y o s) in
   Val (Ok (mk_ndt date time))).
Proof.
  intros H Hs (C1 & C2 & C3 & C4 & C5).
  destruct (repr_md _ _ _ H) as (Ey & Eo & _). destruct (repr_year_i32 _ _ _ H) as [Hyi _].
  pose proof (repr_ordinal_bounds _ _ _ H) as Hob.
  destruct (hms_vals s 0 Hs) as (Eh & Em & _).
  unfold ts_tail. cbn [nd_date nd_time]. rewrite Ey, Eo, Eh, Em.
  unfold Parsed.set_year. rewrite set_checked_accept;
    [|unfold in_i32, in_range in Hyi; lia|exact C1].
  cbn [tryset ebind bind].
  unfold Parsed.set_ordinal. rewrite set_checked_accept;
    [|lia|rewrite as_u32_small by (unfold u32_max; lia); rewrite pget_pput_other by discriminate; exact C2].
  cbn [tryset ebind bind]. rewrite as_u32_small by (unfold u32_max; lia).
  rewrite set_hour_value. replace (contains 0 23 (s / 3600)) with true by (unfold contains; lia).
  rewrite set_ifc_accept by (rewrite !pget_pput_other by discriminate; exact C3).
  rewrite set_ifc_accept by (rewrite !pget_pput_other by discriminate; exact C4).
  cbn [tryset ebind bind].
  unfold Parsed.set_minute. rewrite set_checked_accept;
    [|lia|rewrite as_u32_small by (unfold u32_max; lia); rewrite !pget_pput_other by discriminate; exact C5].
  cbn [tryset ebind bind]. rewrite as_u32_small by (unfold u32_max; lia). reflexivity.
Qed.

(** * Resolution of the completed state *)
Lemma completed_typed p y o s : typed p -> in_i32 y = true -> 1 <= o <= 366 -> 0 <= s < 86400 -> typed (completed p y o s).
Proof.
  intros T Hy Ho Hs. unfold completed.
  repeat (apply typed_pput; [|cbn [ftype]; unfold u32_max; try assumption; try lia]). exact T.
Qed.

Lemma completed_date y o d s p :
  repr y o d -> 0 <= s < 86400 -> typed p -> date_sound p d ->
  group_ok (fst (iso_of_dn (dn_of_yo y o))) (p_isoyear p) (p_isoyear_div_100 p) (p_isoyear_mod_100 p) ->
  to_naive_date (completed p y o s) = Val (Ok d).
Proof.
  intros H Hs T DS Gi.
  destruct (repr_md _ _ _ H) as (Ey & Eo & _). destruct (repr_year_i32 _ _ _ H) as [Hyi _].
  pose proof (repr_ordinal_bounds _ _ _ H) as Hob.
  apply (to_naive_date_complete_iso y o d (completed p y o s) H).
  - apply completed_typed; assumption.
  - destruct DS as ((A1 & A2 & A3) & S2 & S3 & S4 & S5 & S6 & S7 & S8 & S9).
    unfold date_sound. split.
    { split; [intros v E; cbn in E; injection E as <-; exact Ey|]. split; [exact A2|exact A3]. }
    split; [exact S2|]. split; [exact S3|]. split; [exact S4|]. split; [exact S5|]. split; [exact S6|].
    split; [exact S7|]. split; [|exact S9]. intros v E. cbn in E. injection E as <-. exact Eo.
  - right. left. cbn. discriminate.
  - exact Gi.
  - right. left. split; [left; cbn; discriminate|cbn; discriminate].
Qed.

Lemma completed_time p y o s sec :
  0 <= s < 86400 -> p_second p = Some sec -> (sec = s mod 60 \/ (sec = 60 /\ s mod 60 = 59)) ->
  0 <= unwrap_or (p_nanosecond p) 0 <= 999999999 ->
  to_naive_time (completed p y o s) =
  Val (Ok (Time.mk_time s ((if sec =? 60 then 1000000000 else 0) + unwrap_or (p_nanosecond p) 0))).
Proof.
  intros Hs Esec Hsec Hn.
  assert (F : time_fields_ok (completed p y o s) ((s / 3600) / 12) ((s / 3600) mod 12) ((s / 60) mod 60)).
  { unfold time_fields_ok.
    change (p_second (completed p y o s)) with (p_second p).
    change (p_nanosecond (completed p y o s)) with (p_nanosecond p).
    rewrite Esec. cbn [unwrap_or].
    split; [reflexivity|]. split; [reflexivity|]. split; [reflexivity|].
    repeat (split; [lia|]). intros _. discriminate. }
  rewrite (to_naive_time_complete _ _ _ _ F).
  change (p_second (completed p y o s)) with (p_second p).
  change (p_nanosecond (completed p y o s)) with (p_nanosecond p).
  rewrite Esec. cbn [unwrap_or]. unfold time_of_fields. do 2 f_equal.
  destruct Hsec as [-> | [-> E59]].
  - replace (s mod 60 =? 60) with false by lia. f_equal; lia.
  - change (60 =? 60) with true. cbv iota. f_equal; lia.
Qed.

(** [datetime - 1 s] in the leap-second branch, as a value *)
Lemma sub_one_second_at L : dn_in_range (day_of_secs L) = true ->
  ndt_checked_sub_signed (ndt_at L 0) (mk_td 1 0) =
  Val (if dn_in_range (day_of_secs (L - 1)) then Some (ndt_at (L - 1) 0) else None).
Proof.
  intros Hr. destruct (ndt_at_repr L 0 Hr) as [H Hdn].
  set (y := fst (yo_of_dn (day_of_secs L))) in *. set (o := snd (yo_of_dn (day_of_secs L))) in *.
  unfold ndt_at in *. cbn [nd_date] in H. set (d := date_of_dn (day_of_secs L)) in *.
  set (s := L mod 86400). assert (Hs : 0 <= s < 86400) by (unfold s; lia).
  unfold ndt_checked_sub_signed. cbn [nd_date nd_time].
  unfold Time.overflowing_sub_signed.
  change (td_neg (mk_td 1 0)) with (Val (mk_td (-1) 0)). cbn [bind].
  unfold Time.overflowing_add_signed. cbn [Time.tsecs Time.tfrac].
  change (num_seconds (mk_td (-1) 0)) with (Val (-1)). change (subsec_nanos (mk_td (-1) 0)) with (Val 0). cbn [bind].
  rewrite (as_i64_id s) by (unfold in_i64, in_range, i64_min, i64_max; lia).
  change (as_i32 0) with 0. change (0 >=? 1000000000) with false. cbv iota. cbn [bind].
  unfold add_i64 at 1. unfold chk. replace (in_i64 (s + -1)) with true by (unfold in_i64, in_range, i64_min, i64_max; lia).
  cbn [bind]. change (add_i32 0 0) with (Val 0). cbn [bind]. change (0 <? 0) with false. cbv iota.
  change (0 >=? 1000000000) with false. cbv iota. cbn [bind].
  rewrite rem_euclid_pos by lia. replace (in_i64 ((s + -1) / 86400)) with true by (unfold in_i64, in_range, i64_min, i64_max; lia).
  cbn [bind]. unfold sub_i64, chk.
  replace (in_i64 (s + -1 - (s + -1) mod 86400)) with true by (unfold in_i64, in_range, i64_min, i64_max; lia).
  cbn [bind]. unfold neg_i64, chk.
  replace (in_i64 (- (s + -1 - (s + -1) mod 86400))) with true by (unfold in_i64, in_range, i64_min, i64_max; lia).
  cbn [bind]. set (nr := - (s + -1 - (s + -1) mod 86400)).
  assert (Hnr : (s = 0 /\ nr = 86400) \/ (0 < s /\ nr = 0)) by (unfold nr; lia).
  rewrite try_seconds_small by lia.
  unfold Date.checked_sub_signed, num_days, num_seconds. cbn [secs nanos].
  replace ((nr <? 0) && (0 >? 0)) with false by lia. cbn [bind].
  unfold div_i64, Gen.TimeDelta.TD_SECS_PER_DAY. rewrite div_t_nz by lia. unfold chk.
  replace (in_i64 (nr ÷ 86400)) with true by (unfold in_i64, in_range, i64_min, i64_max; lia). cbn [bind].
  unfold neg_i64, chk. replace (in_i64 (- (nr ÷ 86400))) with true by (unfold in_i64, in_range, i64_min, i64_max; lia).
  cbn [bind]. replace ((- (nr ÷ 86400) <? i32_min) || (i32_max <? - (nr ÷ 86400))) with false by (unfold i32_min, i32_max; lia).
  rewrite (add_days_spec _ _ _ _ H) by (rewrite as_i32_id; unfold in_i32, in_range, i32_min, i32_max; lia).
  rewrite as_i32_id by (unfold in_i32, in_range, i32_min, i32_max; lia).
  rewrite Hdn. rewrite !as_u32_small by (unfold u32_max; lia).
  assert (Ed : day_of_secs L + - (nr ÷ 86400) = day_of_secs (L - 1)) by (unfold day_of_secs, s in *; lia).
  assert (Et : (s + -1) mod 86400 = (L - 1) mod 86400) by (unfold s; lia).
  rewrite Ed, Et. unfold obind, date_if. cbn [bind].
  destruct (dn_in_range (day_of_secs (L - 1))); reflexivity.
Qed.

(** * COMPLETENESS of the timestamp arm *)
Lemma sound_consistent y o d s f p : repr y o d -> 0 <= s < 86400 ->
  date_sound p d -> time_sound p (Time.mk_time s f) -> ts_consistent p y o s.
Proof.
  intros H Hs ((A1 & _) & _ & _ & _ & _ & _ & _ & S8 & _) (T1 & T2 & T3 & _).
  destruct (repr_md _ _ _ H) as (Ey & Eo & _). destruct (hms_vals s f Hs) as (Eh & Em & _).
  rewrite Eh in T1, T2. rewrite Em in T3. unfold ts_consistent, agrees.
  split; [destruct (p_year p) as [v|]; [right; rewrite <- (A1 v eq_refl), Ey; reflexivity|left; reflexivity]|].
  split; [destruct (p_ordinal p) as [v|]; [right; rewrite <- (S8 v eq_refl), Eo; reflexivity|left; reflexivity]|].
  split; [destruct (p_hour_div_12 p) as [v|]; [right; rewrite (T1 v eq_refl); reflexivity|left; reflexivity]|].
  split; [destruct (p_hour_mod_12 p) as [v|]; [right; rewrite (T2 v eq_refl); reflexivity|left; reflexivity]|].
  destruct (p_minute p) as [v|]; [right; rewrite (T3 v eq_refl); reflexivity|left; reflexivity].
Qed.

(** the tail of the arm on a state whose second field is already that of the value *)
Lemma ts_tail_resolves y o d s p sec :
  repr y o d -> 0 <= s < 86400 -> typed p -> date_sound p d -> ts_consistent p y o s ->
  group_ok (fst (iso_of_dn (dn_of_yo y o))) (p_isoyear p) (p_isoyear_div_100 p) (p_isoyear_mod_100 p) ->
  p_second p = Some sec -> (sec = s mod 60 \/ (sec = 60 /\ s mod 60 = 59)) ->
  0 <= unwrap_or (p_nanosecond p) 0 <= 999999999 ->
  ts_tail p (mk_ndt d (Time.mk_time s 0)) =
  Val (Ok (mk_ndt d (Time.mk_time s ((if sec =? 60 then 1000000000 else 0) + unwrap_or (p_nanosecond p) 0)))).
Proof.
  intros H Hs T DS C Gi Esec Hsec Hn.
  rewrite (ts_tail_completed p y o d s H Hs C).
  rewrite (completed_date y o d s p H Hs T DS Gi). cbn [ebind bind].
  rewrite (completed_time p y o s sec Hs Esec Hsec Hn). reflexivity.
Qed.

Lemma secs_at_i64 y o d s : repr y o d -> 0 <= s < 86400 ->
  -8400000000000 <= secs_at y o s <= 8400000000000.
Proof.
  intros H Hs. pose proof (repr_dn_in_range _ _ _ H) as R. unfold dn_in_range, DN_MIN, DN_MAX in R.
  unfold secs_at. lia.
Qed.

Lemma ndt_at_secs y o d s f : repr y o d -> 0 <= s < 86400 ->
  ndt_at (secs_at y o s) f = mk_ndt d (Time.mk_time s f).
Proof.
  intros H Hs. destruct (secs_at_day y o s Hs) as [E1 E2]. unfold ndt_at. rewrite E1, E2.
  rewrite (date_of_dn_of_repr _ _ _ H). reflexivity.
Qed.

(** the arm from the value's own count of seconds: both second-forms *)
Lemma ts_arm_own y o d s f p g off :
  repr y o d -> 0 <= s < 86400 -> 0 <= f < 2000000000 -> (1000000000 <= f -> s mod 60 = 59) ->
  typed p -> date_sound p d -> time_sound p (Time.mk_time s f) ->
  group_ok (fst (iso_of_dn (dn_of_yo y o))) (p_isoyear p) (p_isoyear_div_100 p) (p_isoyear_mod_100 p) ->
  (1000000000 <= f -> p_second p = Some 60) ->
  unwrap_or (p_nanosecond p) 0 = f mod 1000000000 ->
  (g + off = secs_at y o s \/
   (1000000000 <= f /\ g + off = secs_at y o s + 1 /\ dn_in_range (day_of_secs (secs_at y o s + 1)) = true)) ->
  ts_arm p g off = Val (Ok (mk_ndt d (Time.mk_time s f))).
Proof.
  intros H Hs Hf Hleap T DS TS Gi Hsec60 Hnano Hg.
  pose proof (secs_at_i64 y o d s H Hs) as HL. set (L := secs_at y o s) in *.
  pose proof (sound_consistent y o d s f p H Hs DS TS) as C.
  pose proof (repr_dn_in_range _ _ _ H) as Hr.
  destruct (secs_at_day y o s Hs) as [Eday Emod]. fold L in Eday, Emod.
  assert (Hn : 0 <= unwrap_or (p_nanosecond p) 0 <= 999999999) by lia.
  destruct (hms_vals s 0 Hs) as (_ & _ & Esecond).
  assert (Plain : f < 1000000000 ->
    ebind (ts_second_step p (mk_ndt d (Time.mk_time s 0))) (fun '(datetime, parsed) => ts_tail parsed datetime)
    = Val (Ok (mk_ndt d (Time.mk_time s f)))).
  { intros Hlt. destruct TS as (_ & _ & _ & T4 & _). cbn [Time.nanosecond Time.tfrac] in T4.
    replace (f >=? 1000000000) with false in T4 by lia.
    assert (E4 : agrees (p_second p) (s mod 60)).
    { destruct (hms_vals s f Hs) as (_ & _ & Es'). rewrite Es' in T4. unfold agrees.
      destruct (p_second p) as [v|]; [right; rewrite (T4 v eq_refl); f_equal; lia|left; reflexivity]. }
    unfold ts_second_step. cbn [nd_time]. rewrite Esecond.
    replace (opt_eqb (p_second p) (Some 60)) with false
      by (destruct E4 as [-> | ->]; cbn [opt_eqb]; [reflexivity|lia]).
    unfold Parsed.set_second. rewrite set_checked_accept;
      [|lia|rewrite as_u32_small by (unfold u32_max; lia); exact E4].
    rewrite as_u32_small by (unfold u32_max; lia). cbn [tryset ebind bind].
    rewrite (ts_tail_resolves y o d s (pput F_second (Some (s mod 60)) p) (s mod 60) H Hs).
    - replace (s mod 60 =? 60) with false by lia.
      change (p_nanosecond (pput F_second (Some (s mod 60)) p)) with (p_nanosecond p).
      do 4 f_equal. lia.
    - apply typed_pput; [exact T|cbn [ftype]; unfold u32_max; lia].
    - exact DS.
    - exact C.
    - exact Gi.
    - reflexivity.
    - left; reflexivity.
    - exact Hn. }
  assert (Leap59 : 1000000000 <= f ->
    ts_tail p (mk_ndt d (Time.mk_time s 0)) = Val (Ok (mk_ndt d (Time.mk_time s f)))).
  { intros Hge. rewrite (ts_tail_resolves y o d s p 60 H Hs T DS C Gi (Hsec60 Hge)); [|right; split; [reflexivity|exact (Hleap Hge)]|exact Hn].
    change (60 =? 60) with true. cbv iota. do 4 f_equal. lia. }
  unfold ts_arm, ok_or, checked_add, chko.
  destruct Hg as [Eg|(Hge & Eg & Hr1)]; rewrite Eg.
  - replace (in_i64 L) with true by (unfold in_i64, in_range, i64_min, i64_max; lia). cbn [ebind bind].
    unfold ok_or_r, ok_or.
    rewrite dt_from_timestamp_val by (try (unfold in_i64, in_range, i64_min, i64_max); lia).
    rewrite Eday, Hr. unfold L. rewrite (ndt_at_secs y o d s 0 H Hs). cbn [bind ebind].
    destruct (Z_lt_dec f 1000000000) as [Hlt|Hge]; [exact (Plain Hlt)|].
    assert (Hge' : 1000000000 <= f) by lia.
    unfold ts_second_step. rewrite (Hsec60 Hge'). cbn [opt_eqb]. change (60 =? 60) with true. cbv iota zeta.
    cbn [nd_time]. rewrite Esecond. replace (s mod 60 =? 59) with true by (pose proof (Hleap Hge'); lia).
    cbn [ebind bind]. exact (Leap59 Hge').
  - replace (in_i64 (L + 1)) with true by (unfold in_i64, in_range, i64_min, i64_max; lia). cbn [ebind bind].
    unfold ok_or_r, ok_or.
    rewrite dt_from_timestamp_val by (try (unfold in_i64, in_range, i64_min, i64_max); lia).
    rewrite Hr1. cbn [bind ebind].
    unfold ts_second_step. rewrite (Hsec60 Hge). cbn [opt_eqb]. change (60 =? 60) with true. cbv iota zeta.
    pose proof (Hleap Hge) as H59.
    assert (Esec1 : Time.second (nd_time (ndt_at (L + 1) 0)) = 0).
    { unfold ndt_at. cbn [nd_time]. assert (Hs1 : 0 <= (L + 1) mod 86400 < 86400) by lia.
      destruct (hms_vals ((L + 1) mod 86400) 0 Hs1) as (_ & _ & ->). lia. }
    fold L. rewrite !Esec1. change (0 =? 59) with false. change (0 =? 0) with true. cbv iota.
    rewrite try_seconds_small by lia. cbn [unwrap bind].
    unfold ok_or_r, ok_or. rewrite (sub_one_second_at (L + 1) Hr1).
    replace (L + 1 - 1) with L by lia. rewrite Eday, Hr. cbn [bind ebind].
    unfold L. rewrite (ndt_at_secs y o d s 0 H Hs). exact (Leap59 Hge).
Qed.

(** the supplied timestamp is the value's own count of non-leap seconds (less the offset), or -- for
    a leap-second value that is not the last second of the supported range -- one more *)
Definition ts_of_value (p : parsed) (y o : Z) (v : ndt) (off : Z) : Prop :=
  exists g t0, p_timestamp p = Some g /\ dt_timestamp v = Val t0 /\
    (g = t0 - off \/
     (1000000000 <= Time.tfrac (nd_time v) /\ g = t0 - off + 1 /\
      (Time.tsecs (nd_time v) < 86399 \/ dn_in_range (dn_of_yo y o + 1) = true))).

(** the time-of-day side conditions: a time of day whose leap-second form sits on second 59; a
    leap second needs [second = 60]; the nanosecond field (absent = 0) is the fraction *)
Definition stamp_time_ok (p : parsed) (t : Time.ntime) : Prop :=
  P4.time_ok t /\ (1000000000 <= Time.tfrac t -> Time.tsecs t mod 60 = 59 /\ p_second p = Some 60) /\
  unwrap_or (p_nanosecond p) 0 = Time.tfrac t mod 1000000000.

(** COMPLETENESS of the timestamp arm (reduction form): the fields alone do not resolve (softly),
    every supplied field is that of the value [v], the ISO year group is absent or determinate, the
    timestamp is that of [v]: the result is exactly [v], for every offset argument *)
Theorem naive_datetime_by_timestamp y o v p off rd rt :
  repr y o (nd_date v) -> typed p ->
  to_naive_date p = Val rd -> to_naive_time p = Val rt -> soft rd rt = true ->
  date_sound p (nd_date v) -> time_sound p (nd_time v) -> stamp_time_ok p (nd_time v) ->
  group_ok (fst (iso_of_dn (dn_of_yo y o))) (p_isoyear p) (p_isoyear_div_100 p) (p_isoyear_mod_100 p) ->
  ts_of_value p y o v off ->
  to_naive_datetime_with_offset p off = Val (Ok v).
Proof.
  destruct v as [d [s f]]. unfold ts_of_value, stamp_time_ok. cbn [nd_date nd_time Time.tsecs Time.tfrac].
  intros H T Hrd Hrt Hsoft DS TS ((Hs & Hf) & Hleap & Hnano) Gi (g & t0 & Eg & Et0 & Hg).
  cbn [Time.tsecs Time.tfrac] in *.
  rewrite (ts_arm_taken p off rd rt g Hrd Hrt Hsoft Eg).
  rewrite (dt_timestamp_val y o d _ H) in Et0 by (cbn [Time.tsecs]; exact Hs). cbn [Time.tsecs] in Et0.
  injection Et0 as <-.
  apply (ts_arm_own y o d s f p g off H Hs Hf); try assumption.
  - intros Hge. exact (proj1 (Hleap Hge)).
  - intros Hge. exact (proj2 (Hleap Hge)).
  - destruct Hg as [->|(Hge & -> & Hlast)]; [left; lia|]. right. split; [exact Hge|]. split; [lia|].
    destruct (secs_at_day y o s Hs) as [Eday _]. unfold day_of_secs in *.
    pose proof (repr_dn_in_range _ _ _ H) as Hr.
    destruct Hlast as [Hlt|Hr1].
    + replace ((secs_at y o s + 1) / 86400 + 719163) with (dn_of_yo y o) by (unfold secs_at in *; lia). exact Hr.
    + unfold dn_in_range, DN_MIN, DN_MAX in *. unfold secs_at in *. lia.
Qed.

(** * A state that holds just the timestamp [, second [, nanosecond]] [, offset] *)
Definition stamp_fields (g : Z) (sec nano ofs : option Z) : parsed :=
  mk_parsed None None None None None None None None None None None None None None None None None sec nano (Some g) ofs.

Lemma stamp_fields_first_try g sec nano ofs :
  to_naive_date (stamp_fields g sec nano ofs) = Val (Err NotEnough) /\
  to_naive_time (stamp_fields g sec nano ofs) = Val (Err NotEnough).
Proof. split; reflexivity. Qed.

Lemma stamp_fields_typed g sec nano ofs : in_i64 g = true ->
  (forall v, sec = Some v -> 0 <= v <= 60) -> (forall n, nano = Some n -> 0 <= n <= 999999999) ->
  (forall v, ofs = Some v -> in_i32 v = true) -> typed (stamp_fields g sec nano ofs).
Proof.
  intros Hg Hs Hn Ho f v E. destruct f; cbn in E; try discriminate; cbn [ftype]; unfold u32_max.
  - specialize (Hs _ E). lia.
  - specialize (Hn _ E). lia.
  - injection E as <-. exact Hg.
  - exact (Ho _ E).
Qed.

Lemma stamp_fields_date_sound g sec nano ofs y o d : repr y o d -> date_sound (stamp_fields g sec nano ofs) d.
Proof.
  intros H. destruct (fact_iso_week_total _ _ _ H) as (iw & Hiw & _).
  unfold date_sound, year_parts_sound, iso_sound. cbn.
  split; [split; [|split]; intros; discriminate|].
  split; [exists iw; split; [exact Hiw|]; split; [split; [|split]|]; intros; discriminate|].
  repeat (split; [intros; discriminate|]). intros; discriminate.
Qed.

(** the outcome for the local count of seconds [L] = timestamp + offset argument *)
Definition stamp_value (L lp : Z) (nano : option Z) : ndt := ndt_at L (lp + unwrap_or nano 0).
Definition stamp_outcome (L : Z) (sec nano : option Z) : res ndt :=
  if negb (in_i64 L) || negb (dn_in_range (day_of_secs L)) then Err OutOfRange
  else match sec with
       | None => Ok (stamp_value L 0 nano)
       | Some sv =>
         if sv =? 60 then
           if L mod 60 =? 59 then Ok (stamp_value L 1000000000 nano)
           else if L mod 60 =? 0 then
             if dn_in_range (day_of_secs (L - 1)) then Ok (stamp_value (L - 1) 1000000000 nano) else Err OutOfRange
           else Err Impossible
         else if sv =? L mod 60 then Ok (stamp_value L 0 nano) else Err Impossible
       end.

(** the exact outcome, for every i64 timestamp, every offset argument, the second and nanosecond
    fields anywhere in their setters' ranges.  In particular [second = 60] with a timestamp is accepted
    exactly when the local second count ends on :59 (the leap second follows it) or on :00 (it
    precedes it; not at the very first second of the range); otherwise 'impossible' *)
Theorem stamp_fields_spec g sec nano ofs off : in_i64 g = true ->
  (forall v, sec = Some v -> 0 <= v <= 60) -> (forall n, nano = Some n -> 0 <= n <= 999999999) ->
  (forall v, ofs = Some v -> in_i32 v = true) ->
  to_naive_datetime_with_offset (stamp_fields g sec nano ofs) off = Val (stamp_outcome (g + off) sec nano).
Proof.
  intros Hg Hsec Hnano Hofs. set (p := stamp_fields g sec nano ofs).
  pose proof (stamp_fields_typed g sec nano ofs Hg Hsec Hnano Hofs) as T. fold p in T.
  destruct (stamp_fields_first_try g sec nano ofs) as [Hd Ht]. fold p in Hd, Ht.
  rewrite (ts_arm_taken p off _ _ g Hd Ht eq_refl eq_refl).
  set (L := g + off). unfold stamp_outcome.
  assert (Hn9 : 0 <= unwrap_or nano 0 <= 999999999) by (destruct nano as [n|]; [exact (Hnano n eq_refl)|cbn; lia]).
  (* the accepted cases, through the completeness lemma *)
  assert (Acc : forall L0 lp, dn_in_range (day_of_secs L0) = true ->
            (lp = 0 \/ lp = 1000000000 /\ L0 mod 60 = 59 /\ sec = Some 60) ->
            (lp = 0 -> forall sv, sec = Some sv -> sv = L0 mod 60) ->
            (g + off = L0 \/ (lp = 1000000000 /\ g + off = L0 + 1 /\ dn_in_range (day_of_secs (L0 + 1)) = true)) ->
            ts_arm p g off = Val (Ok (stamp_value L0 lp nano))).
  { intros L0 lp Hr Hlp Hsv HL0. destruct (ndt_at_repr L0 0 Hr) as [H Hdn].
    set (y := fst (yo_of_dn (day_of_secs L0))) in *. set (o := snd (yo_of_dn (day_of_secs L0))) in *.
    cbn [ndt_at nd_date] in H.
    assert (Hs : 0 <= L0 mod 86400 < 86400) by lia.
    assert (EL : secs_at y o (L0 mod 86400) = L0) by (unfold secs_at; rewrite Hdn; unfold day_of_secs; lia).
    unfold stamp_value, ndt_at.
    apply (ts_arm_own y o _ (L0 mod 86400) (lp + unwrap_or nano 0) p g off H Hs); try exact T.
    - destruct Hlp as [->|(-> & _)]; lia.
    - intros Hge. destruct Hlp as [->|(-> & E59 & _)]; lia.
    - apply (stamp_fields_date_sound g sec nano ofs y o). exact H.
    - unfold time_sound. cbn [p p_hour_div_12 p_hour_mod_12 p_minute p_second p_nanosecond stamp_fields].
      split; [intros; discriminate|]. split; [intros; discriminate|]. split; [intros; discriminate|].
      destruct (hms_vals (L0 mod 86400) (lp + unwrap_or nano 0) Hs) as (_ & _ & ->). cbn [Time.nanosecond Time.tfrac].
      split.
      + intros sv Esv. destruct Hlp as [->|(-> & E59 & E60)].
        * replace (0 + unwrap_or nano 0 >=? 1000000000) with false by lia. rewrite (Hsv eq_refl sv Esv). lia.
        * replace (1000000000 + unwrap_or nano 0 >=? 1000000000) with true by lia. rewrite E60 in Esv. injection Esv as <-. lia.
      + intros n En. subst nano. cbn [unwrap_or] in *. destruct Hlp as [->|(-> & _)]; lia.
    - left. auto.
    - intros Hge. destruct Hlp as [->|(-> & _ & E60)]; [lia|exact E60].
    - cbn [p p_nanosecond stamp_fields]. destruct Hlp as [->|(-> & _)]; lia.
    - rewrite EL. destruct HL0 as [E|(-> & E & Hr1)]; [left; exact E|right]. split; [lia|]. split; assumption. }
  unfold ts_arm at 1, ok_or, checked_add, chko. fold L.
  destruct (in_i64 L) eqn:EiL; cbn [negb orb ebind bind]; [|reflexivity].
  unfold ok_or_r, ok_or. rewrite dt_from_timestamp_val by (try exact EiL; lia).
  destruct (dn_in_range (day_of_secs L)) eqn:Er; cbn [negb bind ebind]; [|reflexivity].
  assert (Hs : 0 <= L mod 86400 < 86400) by lia.
  assert (Esecond : Time.second (nd_time (ndt_at L 0)) = L mod 60).
  { unfold ndt_at. cbn [nd_time]. destruct (hms_vals (L mod 86400) 0 Hs) as (_ & _ & ->). lia. }
  (* refold the arm for the accepted cases *)
  assert (Arm : ts_arm p g off =
                ebind (ts_second_step p (ndt_at L 0)) (fun '(datetime, parsed) => ts_tail parsed datetime)).
  { unfold ts_arm, ok_or, checked_add, chko. fold L. rewrite EiL. cbn [ebind bind].
    unfold ok_or_r, ok_or. rewrite dt_from_timestamp_val by (try exact EiL; lia). rewrite Er. reflexivity. }
  destruct sec as [sv|] eqn:Esec.
  - destruct (sv =? 60) eqn:E60.
    + assert (sv = 60) by lia. subst sv.
      destruct (L mod 60 =? 59) eqn:E59.
      * rewrite <- Arm. apply Acc; [exact Er|right; repeat split; lia|intros; lia|left; reflexivity].
      * destruct (L mod 60 =? 0) eqn:E0.
        -- destruct (dn_in_range (day_of_secs (L - 1))) eqn:Er1.
           ++ rewrite <- Arm. apply Acc; [exact Er1|right; repeat split; lia|intros; lia|].
              right. split; [reflexivity|]. split; [lia|]. replace (L - 1 + 1) with L by lia. exact Er.
           ++ unfold ts_second_step. cbn [p p_second stamp_fields opt_eqb]. change (60 =? 60) with true. cbv iota zeta.
              rewrite Esecond, E59, E0. rewrite try_seconds_small by lia. cbn [unwrap bind].
              unfold ok_or_r, ok_or. rewrite (sub_one_second_at L Er), Er1. reflexivity.
        -- unfold ts_second_step. cbn [p p_second stamp_fields opt_eqb]. change (60 =? 60) with true. cbv iota zeta.
           rewrite Esecond, E59, E0. reflexivity.
    + destruct (sv =? L mod 60) eqn:Esv.
      * rewrite <- Arm. apply Acc; [exact Er|left; reflexivity| |left; reflexivity].
        intros _ sv' E'. injection E' as <-. lia.
      * unfold ts_second_step. cbn [p p_second stamp_fields opt_eqb]. rewrite E60. cbv iota.
        rewrite Esecond. unfold Parsed.set_second.
        rewrite (set_checked_clash F_second 0 60 as_u32 _ (L mod 60) sv); [reflexivity|lia|reflexivity|].
        rewrite as_u32_small by (unfold u32_max; lia). lia.
  - rewrite <- Arm. apply Acc; [exact Er|left; reflexivity|intros; discriminate|left; reflexivity].
Qed.

(** * Date-time level *)
(** the timestamp of the wall clock is the (UTC) timestamp of the date-time plus its offset *)
Lemma local_timestamp z l y o : P4.dtz_ok z -> overflowing_naive_local z = Val l -> repr y o (nd_date l) ->
  exists tu, dt_timestamp (dz_utc z) = Val tu /\ dt_timestamp l = Val (tu + dz_off z) /\
             P4.time_ok (nd_time l) /\ Time.tfrac (nd_time l) = Time.tfrac (nd_time (dz_utc z)) /\
             in_i64 tu = true /\ dn_in_range (day_of_secs tu) = true /\
             tu mod 60 = Time.tsecs (nd_time (dz_utc z)) mod 60.
Proof.
  intros Hz Hl H. destruct (P4D.overflowing_naive_local_u z Hz) as (l' & Hl' & Hw & Hu & Hf).
  rewrite Hl in Hl'. injection Hl' as <-. destruct Hw as [_ Htl].
  destruct Hz as [[Hnom Htu] Ho]. destruct (P4D.repr_of_nominal _ Hnom) as (yu & ou & Hru).
  destruct (dz_utc z) as [du tu] eqn:Eu. destruct l as [dl tl]. cbn [nd_date nd_time] in *.
  unfold P4.wall, P4.usecs, P4.frac in Hu, Hf. rewrite Eu in Hu. cbn [nd_date nd_time] in Hu, Hf.
  rewrite (P4D.dn_of_repr _ _ _ H), (P4D.dn_of_repr _ _ _ Hru) in Hu.
  destruct Htu as [Hsu Hfu]. destruct Htl as [Hsl Hfl].
  exists (secs_at yu ou (Time.tsecs tu)).
  rewrite (dt_timestamp_val yu ou du tu Hru Hsu), (dt_timestamp_val y o dl tl H Hsl).
  pose proof (secs_at_i64 yu ou du _ Hru Hsu) as Hb.
  destruct (secs_at_day yu ou (Time.tsecs tu) Hsu) as [Ed Em].
  split; [reflexivity|]. split; [f_equal; unfold secs_at; lia|]. split; [split; assumption|]. split; [exact Hf|].
  split; [unfold in_i64, in_range, i64_min, i64_max; lia|]. split; [rewrite Ed; exact (repr_dn_in_range _ _ _ Hru)|].
  unfold secs_at. lia.
Qed.

Definition offset_field_ok (ofs : option Z) (off : Z) : Prop := ofs = Some off \/ (ofs = None /\ off = 0).

(** COMPLETENESS of [to_datetime] through the timestamp arm: [z] a well-formed date-time whose wall
    clock [l] lies on a supported date; the fields alone do not resolve (softly), every supplied
    field is that of the wall clock, the timestamp field is the timestamp of [z], the offset field
    is the offset of [z] (or absent for offset 0): the result is exactly [z] *)
Theorem datetime_by_timestamp z l y o p rd rt g :
  P4.dtz_ok z -> overflowing_naive_local z = Val l -> repr y o (nd_date l) -> typed p ->
  to_naive_date p = Val rd -> to_naive_time p = Val rt -> soft rd rt = true ->
  date_sound p (nd_date l) -> time_sound p (nd_time l) -> stamp_time_ok p (nd_time l) ->
  group_ok (fst (iso_of_dn (dn_of_yo y o))) (p_isoyear p) (p_isoyear_div_100 p) (p_isoyear_mod_100 p) ->
  p_timestamp p = Some g -> dt_timestamp (dz_utc z) = Val g ->
  offset_field_ok (p_offset p) (dz_off z) ->
  to_datetime p = Val (Ok z).
Proof.
  intros Hz Hl H T Hrd Hrt Hsoft DS TS ST Gi Eg Hg Hofs.
  destruct (local_timestamp z l y o Hz Hl H) as (tu & Htu & Htl & _). rewrite Hg in Htu. injection Htu as <-.
  assert (N : to_naive_datetime_with_offset p (dz_off z) = Val (Ok l)).
  { apply (naive_datetime_by_timestamp y o l p (dz_off z) rd rt H T Hrd Hrt Hsoft DS TS ST Gi).
    exists g, (g + dz_off z). split; [exact Eg|]. split; [exact Htl|]. left. lia. }
  unfold to_datetime.
  assert (Eoff : match p_offset p, p_timestamp p with
                 | Some off, _ => Ok off | None, Some _ => Ok 0 | None, None => Err NotEnough end = Ok (dz_off z)).
  { rewrite Eg. destruct Hofs as [-> | [-> ->]]; reflexivity. }
  rewrite Eoff. cbn [ebind bind]. rewrite N. cbn [ebind bind].
  unfold ok_or. rewrite east_opt_spec. pose proof (proj2 Hz) as Ho. unfold P4.off_ok in Ho.
  replace ((-86400 <? dz_off z) && (dz_off z <? 86400)) with true by lia. cbn [ebind bind].
  rewrite (P4D.utc_local_utc_u z l Hz Hl). reflexivity.
Qed.

(** ... and of [to_datetime_with_timezone] with the zone of [z] (offset field absent or equal) *)
Theorem datetime_with_timezone_by_timestamp z l y o p rd rt g :
  P4.dtz_ok z -> overflowing_naive_local z = Val l -> repr y o (nd_date l) -> typed p ->
  to_naive_date p = Val rd -> to_naive_time p = Val rt -> soft rd rt = true ->
  date_sound p (nd_date l) -> time_sound p (nd_time l) -> stamp_time_ok p (nd_time l) ->
  group_ok (fst (iso_of_dn (dn_of_yo y o))) (p_isoyear p) (p_isoyear_div_100 p) (p_isoyear_mod_100 p) ->
  p_timestamp p = Some g -> dt_timestamp (dz_utc z) = Val g ->
  (p_offset p = None \/ p_offset p = Some (dz_off z)) ->
  to_datetime_with_timezone p (dz_off z) = Val (Ok z).
Proof.
  intros Hz Hl H T Hrd Hrt Hsoft DS TS ST Gi Eg Hg Hofs.
  destruct (local_timestamp z l y o Hz Hl H) as (tu & Htu & Htl & _ & _ & Hi & Hr & _). rewrite Hg in Htu. injection Htu as <-.
  assert (N : to_naive_datetime_with_offset p (dz_off z) = Val (Ok l)).
  { apply (naive_datetime_by_timestamp y o l p (dz_off z) rd rt H T Hrd Hrt Hsoft DS TS ST Gi).
    exists g, (g + dz_off z). split; [exact Eg|]. split; [exact Htl|]. left. lia. }
  unfold to_datetime_with_timezone. rewrite Eg.
  destruct ST as (_ & _ & Hnano).
  unfold ok_or_r, ok_or. rewrite dt_from_timestamp_val by (try exact Hi; lia). rewrite Hr. cbn [bind ebind].
  rewrite N. cbn [ebind bind]. rewrite (P4D.utc_local_utc_u z l Hz Hl). cbn [bind].
  destruct Hofs as [-> | ->]; [reflexivity|]. rewrite Z.eqb_refl. reflexivity.
Qed.

(** * The corollaries for a state that holds just the timestamp [, second [, nanosecond]] [, offset] *)
(** the second field: 60 for a leap-second value; otherwise absent or the value's second *)
Definition second_field_ok (sec : option Z) (t : Time.ntime) : Prop :=
  if Time.tfrac t >=? 1000000000 then sec = Some 60 else (sec = None \/ sec = Some (Time.tsecs t mod 60)).
(** the nanosecond field: the value's fraction (absent: the fraction is 0) *)
Definition nano_field_ok (nano : option Z) (t : Time.ntime) : Prop :=
  unwrap_or nano 0 = Time.tfrac t mod 1000000000.
(** the leap-second form sits on second 59 *)
Definition leap_on_59 (t : Time.ntime) : Prop := 1000000000 <= Time.tfrac t -> Time.tsecs t mod 60 = 59.

Lemma stamp_fields_sound g sec nano ofs y o d t : repr y o d -> P4.time_ok t -> leap_on_59 t ->
  second_field_ok sec t -> nano_field_ok nano t ->
  date_sound (stamp_fields g sec nano ofs) d /\ time_sound (stamp_fields g sec nano ofs) t /\
  stamp_time_ok (stamp_fields g sec nano ofs) t /\
  group_ok (fst (iso_of_dn (dn_of_yo y o))) None None None.
Proof.
  intros H [Hs Hf] Hl Hsec Hnano. split; [exact (stamp_fields_date_sound g sec nano ofs y o d H)|].
  unfold second_field_ok, nano_field_ok, leap_on_59 in *.
  destruct t as [s f]. cbn [Time.tsecs Time.tfrac] in *. destruct (hms_vals s f Hs) as (_ & _ & Esec).
  split; [|split].
  - unfold time_sound. cbn [p_hour_div_12 p_hour_mod_12 p_minute p_second p_nanosecond stamp_fields].
    split; [intros; discriminate|]. split; [intros; discriminate|]. split; [intros; discriminate|].
    rewrite Esec. cbn [Time.nanosecond Time.tfrac]. split.
    + intros v ->. destruct (f >=? 1000000000) eqn:Ef.
      * injection Hsec as ->. assert (Hge : 1000000000 <= f) by lia. specialize (Hl Hge). lia.
      * destruct Hsec as [E|E]; [discriminate|injection E as <-; lia].
    + intros n ->. cbn [unwrap_or] in Hnano. exact Hnano.
  - unfold stamp_time_ok. cbn [Time.tsecs Time.tfrac p_second p_nanosecond stamp_fields].
    split; [split; assumption|]. split; [|exact Hnano].
    intros Hge. split; [exact (Hl Hge)|]. replace (f >=? 1000000000) with true in Hsec by lia. exact Hsec.
  - left. auto.
Qed.

(** every supported NaiveDateTime [v] -- whole seconds, with a fraction, or the leap-second form --
    and every offset argument: the state holding [timestamp = v's timestamp - offset] resolves to [v] *)
Theorem naive_datetime_of_stamp y o v off g sec nano ofs :
  repr y o (nd_date v) -> P4.time_ok (nd_time v) -> leap_on_59 (nd_time v) ->
  dt_timestamp v = Val (g + off) -> in_i64 g = true ->
  second_field_ok sec (nd_time v) -> nano_field_ok nano (nd_time v) ->
  (forall x, ofs = Some x -> in_i32 x = true) ->
  to_naive_datetime_with_offset (stamp_fields g sec nano ofs) off = Val (Ok v).
Proof.
  intros H Ht Hl Hts Hg Hsec Hnano Hofs.
  destruct (stamp_fields_sound g sec nano ofs y o _ _ H Ht Hl Hsec Hnano) as (DS & TS & ST & Gi).
  destruct (stamp_fields_first_try g sec nano ofs) as [Hd Htm].
  apply (naive_datetime_by_timestamp y o v _ off (Err NotEnough) (Err NotEnough) H); try assumption.
  - apply stamp_fields_typed; try assumption.
    + unfold second_field_ok in Hsec. intros x ->. destruct (Time.tfrac (nd_time v) >=? 1000000000).
      * injection Hsec as ->. lia.
      * destruct Hsec as [E|E]; [discriminate|injection E as ->; lia].
    + unfold nano_field_ok in Hnano. intros n ->. cbn [unwrap_or] in Hnano. lia.
  - reflexivity.
  - exists g, (g + off). split; [reflexivity|]. split; [exact Hts|]. left. lia.
Qed.

(** [z] a well-formed DateTime<FixedOffset> with wall clock [l] on a supported date (the second and
    the leap-second form are those of the wall clock: an offset need not be a whole minute): the
    state holding the timestamp of [z] [, second [, nanosecond]] and its offset resolves to [z] *)
Theorem datetime_of_stamp z l y o g sec nano ofs :
  P4.dtz_ok z -> overflowing_naive_local z = Val l -> repr y o (nd_date l) -> leap_on_59 (nd_time l) ->
  dt_timestamp (dz_utc z) = Val g ->
  second_field_ok sec (nd_time l) -> nano_field_ok nano (nd_time l) -> offset_field_ok ofs (dz_off z) ->
  to_datetime (stamp_fields g sec nano ofs) = Val (Ok z).
Proof.
  intros Hz Hl H Hleap Hg Hsec Hnano Hofs.
  destruct (local_timestamp z l y o Hz Hl H) as (tu & Htu & _ & Htl & _ & Hi & _). rewrite Hg in Htu. injection Htu as <-.
  destruct (stamp_fields_sound g sec nano ofs y o _ _ H Htl Hleap Hsec Hnano) as (DS & TS & ST & Gi).
  destruct (stamp_fields_first_try g sec nano ofs) as [Hd Htm].
  apply (datetime_by_timestamp z l y o _ (Err NotEnough) (Err NotEnough) g Hz Hl H); try assumption; try reflexivity.
  apply stamp_fields_typed; try assumption.
  - unfold second_field_ok in Hsec. intros x ->. destruct (Time.tfrac (nd_time l) >=? 1000000000).
    + injection Hsec as ->. lia.
    + destruct Hsec as [E|E]; [discriminate|injection E as ->; lia].
  - unfold nano_field_ok in Hnano. intros n ->. cbn [unwrap_or] in Hnano. lia.
  - intros x ->. destruct Hofs as [E|[E _]]; [|discriminate]. injection E as ->. apply off_ok_i32. exact (proj2 Hz).
Qed.

Theorem datetime_with_timezone_of_stamp z l y o g sec nano ofs :
  P4.dtz_ok z -> overflowing_naive_local z = Val l -> repr y o (nd_date l) -> leap_on_59 (nd_time l) ->
  dt_timestamp (dz_utc z) = Val g ->
  second_field_ok sec (nd_time l) -> nano_field_ok nano (nd_time l) -> (ofs = None \/ ofs = Some (dz_off z)) ->
  to_datetime_with_timezone (stamp_fields g sec nano ofs) (dz_off z) = Val (Ok z).
Proof.
  intros Hz Hl H Hleap Hg Hsec Hnano Hofs.
  destruct (local_timestamp z l y o Hz Hl H) as (tu & Htu & _ & Htl & _ & Hi & _). rewrite Hg in Htu. injection Htu as <-.
  destruct (stamp_fields_sound g sec nano ofs y o _ _ H Htl Hleap Hsec Hnano) as (DS & TS & ST & Gi).
  destruct (stamp_fields_first_try g sec nano ofs) as [Hd Htm].
  apply (datetime_with_timezone_by_timestamp z l y o _ (Err NotEnough) (Err NotEnough) g Hz Hl H); try assumption; try reflexivity.
  apply stamp_fields_typed; try assumption.
  - unfold second_field_ok in Hsec. intros x ->. destruct (Time.tfrac (nd_time l) >=? 1000000000).
    + injection Hsec as ->. lia.
    + destruct Hsec as [E|E]; [discriminate|injection E as ->; lia].
  - unfold nano_field_ok in Hnano. intros n ->. cbn [unwrap_or] in Hnano. lia.
  - intros x ->. destruct Hofs as [E|E]; [discriminate|]. injection E as ->. apply off_ok_i32. exact (proj2 Hz).
Qed.

(** DateTime<Utc>: the wall clock is the value itself *)
Lemma utc_local v : P4.ndt_ok v -> overflowing_naive_local (mk_dtz v 0) = Val v.
Proof.
  intros Hv. assert (Hz : P4.dtz_ok (mk_dtz v 0)) by (split; [exact Hv|unfold P4.off_ok; cbn; lia]).
  destruct (P4D.overflowing_naive_local_u _ Hz) as (l & Hl & Hw & Hu & Hf). rewrite Hl. f_equal.
  apply (P4.ndt_wide_inj P4D.HD); [exact Hw|apply P4.ndt_ok_wide; exact Hv| |exact Hf].
  unfold P4.wall in Hu. cbn [dz_utc dz_off] in Hu. lia.
Qed.

Theorem utc_datetime_of_stamp y o v g sec nano ofs :
  repr y o (nd_date v) -> P4.time_ok (nd_time v) -> leap_on_59 (nd_time v) ->
  dt_timestamp v = Val g ->
  second_field_ok sec (nd_time v) -> nano_field_ok nano (nd_time v) -> (ofs = None \/ ofs = Some 0) ->
  to_datetime (stamp_fields g sec nano ofs) = Val (Ok (mk_dtz v 0)) /\
  to_datetime_with_timezone (stamp_fields g sec nano ofs) 0 = Val (Ok (mk_dtz v 0)).
Proof.
  intros H Ht Hleap Hg Hsec Hnano Hofs.
  assert (Hv : P4.ndt_ok v) by (split; [exact (P4D.nominal_of_repr _ _ _ H)|exact Ht]).
  assert (Hz : P4.dtz_ok (mk_dtz v 0)) by (split; [exact Hv|unfold P4.off_ok; cbn; lia]).
  pose proof (utc_local v Hv) as Hl. split.
  - apply (datetime_of_stamp (mk_dtz v 0) v y o g sec nano ofs Hz Hl H Hleap Hg Hsec Hnano).
    unfold offset_field_ok. cbn [dz_off]. destruct Hofs as [-> | ->]; [right; auto|left; reflexivity].
  - apply (datetime_with_timezone_of_stamp (mk_dtz v 0) v y o g sec nano ofs Hz Hl H Hleap Hg Hsec Hnano).
    cbn [dz_off]. exact Hofs.
Qed.

(** * The hypotheses are inhabited *)
(** 1969-12-31T23:59:59 (timestamp -1), 2012-06-30T23:59:59 + leap second with half a second, and a
    date-time with the offset +05:30:15 whose wall-clock second differs from the UTC second *)
Definition ex_neg : ndt := mk_ndt (mkdate 1969 365) (Time.mk_time 86399 0).
Definition ex_leap : ndt := mk_ndt (mkdate 2012 182) (Time.mk_time 86399 1500000000).
Definition ex_odd_zone : dtz := mk_dtz (mk_ndt (mkdate 2014 364) (Time.mk_time 68200 0)) 19815.
Lemma ex_stamp_inhabited :
  repr 1969 365 (nd_date ex_neg) /\ P4.time_ok (nd_time ex_neg) /\ leap_on_59 (nd_time ex_neg) /\
  dt_timestamp ex_neg = Val (-1) /\ second_field_ok None (nd_time ex_neg) /\ nano_field_ok None (nd_time ex_neg) /\
  to_datetime (stamp_fields (-1) None None None) = Val (Ok (mk_dtz ex_neg 0)) /\
  repr 2012 182 (nd_date ex_leap) /\ P4.time_ok (nd_time ex_leap) /\ leap_on_59 (nd_time ex_leap) /\
  second_field_ok (Some 60) (nd_time ex_leap) /\ nano_field_ok (Some 500000000) (nd_time ex_leap) /\
  to_naive_datetime_with_offset (stamp_fields 1341100799 (Some 60) (Some 500000000) None) 0 = Val (Ok ex_leap) /\
  to_naive_datetime_with_offset (stamp_fields 1341100800 (Some 60) (Some 500000000) None) 0 = Val (Ok ex_leap) /\
  to_naive_datetime_with_offset (stamp_fields 1341100801 (Some 60) None None) 0 = Val (Err Impossible) /\
  P4.dtz_ok ex_odd_zone /\
  to_datetime (stamp_fields 1419965800 (Some 55) None (Some 19815)) = Val (Ok ex_odd_zone).
Proof.
  assert (R1 : repr 1969 365 (nd_date ex_neg)) by (apply repr_mk; reflexivity).
  assert (R2 : repr 2012 182 (nd_date ex_leap)) by (apply repr_mk; reflexivity).
  split; [exact R1|]. split; [unfold P4.time_ok; cbn; lia|]. split; [unfold leap_on_59; cbn; lia|].
  split; [vm_compute; reflexivity|]. split; [cbn; left; reflexivity|]. split; [reflexivity|].
  split; [vm_compute; reflexivity|].
  split; [exact R2|]. split; [unfold P4.time_ok; cbn; lia|]. split; [unfold leap_on_59; cbn; lia|].
  split; [reflexivity|]. split; [reflexivity|].
  split; [vm_compute; reflexivity|]. split; [vm_compute; reflexivity|]. split; [vm_compute; reflexivity|].
  split; [|vm_compute; reflexivity].
  split; [split; [apply (P4D.nominal_of_repr 2014 364); apply repr_mk; reflexivity|]|]; unfold P4.time_ok, P4.off_ok; cbn; lia.
Qed.
