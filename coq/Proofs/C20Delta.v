(** C20 -- TimeDelta through serde: the (secs, nanos) pair reads back as the same duration, and a
    written pair is accepted exactly when it denotes a duration of the documented range.
    On top of Proofs/C06.v ([td_new_spec]). *)
From Coq Require Import ZArith List Bool Lia ZifyBool.
From V Require Import Base.Int Base.IO Base.IntLemmas Model.TimeDelta Model.Serde.
From V Require Proofs.C06.
Import ListNotations.
Open Scope Z_scope.
Ltac Zify.zify_post_hook ::= Z.to_euclidean_division_equations.

Notation NPS9 := 1000000000 (only parsing).

Lemma prim_int_carry fmt inr z : inr z = true ->
  prim_int inr (carry fmt (SI64 z)) = sok z /\ prim_int inr (carry fmt (SI32 z)) = sok z.
Proof.
  intros H. unfold carry. destruct (fmt =? 0); cbn [carry_json prim_int].
  - destruct (z <? 0); cbn [prim_int]; rewrite H; split; reflexivity.
  - rewrite H. split; reflexivity.
Qed.
Lemma carry_pair fmt a b : carry fmt (STup [a; b]) = STup [carry fmt a; carry fmt b].
Proof. unfold carry. destruct (fmt =? 0); reflexivity. Qed.

Lemma in_i32_u32 n : in_i32 n = true -> in_u32 (as_u32 n) = true.
Proof.
  intros _. unfold as_u32, wrap_u, in_u32, in_range, u32_max. change (2 ^ 32) with 4294967296.
  pose proof (Z.mod_pos_bound n 4294967296 ltac:(lia)). lia.
Qed.

(* reading any written pair (secs : i64, nanos : i32), through either format *)
Theorem delta_read_spec fmt s n : in_i64 s = true -> in_i32 n = true ->
  de_td (carry fmt (STup [SI64 s; SI32 n])) =
    Val (if (0 <=? n) && (n <? NPS9) && (C06.RMIN <=? s * NPS9 + n) && (s * NPS9 + n <=? C06.RMAX)
         then SOk (mk_td s n) else SErr ETdBounds).
Proof.
  intros Hs Hn. rewrite carry_pair. unfold de_td.
  rewrite (proj1 (prim_int_carry fmt in_i64 s Hs)). cbn [sbind sok bind].
  rewrite (proj2 (prim_int_carry fmt in_i32 n Hn)). cbn [sbind sok bind].
  pose proof (C06.td_new_spec s (as_u32 n) Hs (in_i32_u32 n Hn)) as Hnew.
  destruct (0 <=? n) eqn:E0.
  - assert (Eu : as_u32 n = n).
    { apply as_u32_id. unfold in_i32, in_u32, in_range, i32_min, i32_max, u32_max in *. lia. }
    rewrite Eu in *. destruct (td_new s n) as [d|] eqn:En.
    + destruct Hnew as (H1 & H2 & (H3 & H4)). unfold C06.in_rng, C06.ns, C06.G, C06.RMIN, C06.RMAX in *.
      rewrite H1, H2 in *.
      replace ((true && (n <? 1000000000) && (-9223372036854775807000000 <=? s * 1000000000 + n) &&
                (s * 1000000000 + n <=? 9223372036854775807000000))) with true by lia.
      destruct d as [ds dn]. cbn [secs nanos] in *. subst. reflexivity.
    + unfold C06.in_rng, C06.G, C06.RMIN, C06.RMAX in *.
      replace ((true && (n <? 1000000000) && (-9223372036854775807000000 <=? s * 1000000000 + n) &&
                (s * 1000000000 + n <=? 9223372036854775807000000))) with false by lia.
      reflexivity.
  - cbn [andb].
    assert (Eu : as_u32 n = n + 4294967296).
    { unfold as_u32, wrap_u. change (2 ^ 32) with 4294967296.
      unfold in_i32, in_range, i32_min, i32_max in Hn. lia. }
    rewrite Eu in *. destruct (td_new s (n + 4294967296)) as [d|] eqn:En.
    + destruct Hnew as (H1 & H2 & (H3 & H4)). unfold C06.G, in_i32, in_range, i32_min, i32_max in *. lia.
    + reflexivity.
Qed.

(* every duration of the range: serialize, carry, deserialize gives the duration back *)
Theorem delta_roundtrip fmt d : C06.valid d ->
  exists p, ser_td d = Val (SOk p) /\ de_td (carry fmt p) = Val (SOk d).
Proof.
  intros (Hn & Hr). eexists. split; [reflexivity|].
  unfold C06.in_rng, C06.ns, C06.G, C06.RMIN, C06.RMAX in *.
  rewrite delta_read_spec.
  - replace ((0 <=? nanos d) && (nanos d <? 1000000000) && (C06.RMIN <=? secs d * 1000000000 + nanos d) &&
             (secs d * 1000000000 + nanos d <=? C06.RMAX)) with true by (unfold C06.RMIN, C06.RMAX; lia).
    destruct d; reflexivity.
  - unfold in_i64, in_range, i64_min, i64_max. lia.
  - unfold in_i32, in_range, i32_min, i32_max. lia.
Qed.

(* never a trap, and an out-of-range pair is an error value *)
Theorem delta_read_rejects fmt s n : in_i64 s = true -> in_i32 n = true ->
  ~ (0 <= n < NPS9 /\ C06.in_rng (s * NPS9 + n)) ->
  de_td (carry fmt (STup [SI64 s; SI32 n])) = Val (SErr ETdBounds).
Proof.
  intros Hs Hn Hbad. rewrite (delta_read_spec fmt s n Hs Hn).
  unfold C06.in_rng, C06.RMIN, C06.RMAX in *.
  replace ((0 <=? n) && (n <? 1000000000) && (-9223372036854775807000000 <=? s * 1000000000 + n) &&
           (s * 1000000000 + n <=? 9223372036854775807000000)) with false by lia.
  reflexivity.
Qed.

Example delta_example : C06.valid (mk_td (-9223372036854776) 193000000) /\
  de_td (carry 0 (STup [SI64 9223372036854776; SI32 0])) = Val (SErr ETdBounds).
Proof.
  split.
  - unfold C06.valid, C06.in_rng, C06.ns, C06.G, C06.RMIN, C06.RMAX. cbn [secs nanos]. lia.
  - vm_compute. reflexivity.
Qed.
