(** C14: the constructor facts of Proofs/C14.v discharged with the shared calendar lemmas
    (Proofs/C08*.v, Proofs/Date.v), and the theorems that build on them: unconditional soundness
    statements (up to the ISO-week constructor, whose lemmas are not available yet), absence of
    traps and completeness of [to_naive_date] on the documented combinations. *)
From Coq Require Import ZArith List Bool Lia ZifyBool.
From V Require Import Base.Int Base.IntLemmas Base.IO Spec.Gregorian Model.TimeDelta.
From V Require Model.Date Model.Time.
From V Require Import Model.DateTime Model.Parsed.
From V Require Import Proofs.C08Sweeps Proofs.C08Date Proofs.C08 Proofs.Date Proofs.C14.
Import ListNotations.
Open Scope Z_scope.
Ltac Zify.zify_post_hook ::= Z.to_euclidean_division_equations.

Lemma in_u32_of z : 0 <= z <= u32_max -> in_u32 z = true.
Proof. unfold in_u32, in_range, u32_max. lia. Qed.

(** [from_ymd_opt] returns the date with exactly that year, month and day *)
Theorem fact_from_ymd : Fact_from_ymd.
Proof.
  intros y m d dt Hy Hm Hd H.
  rewrite (from_ymd_opt_spec y m d Hy (in_u32_of _ Hm) (in_u32_of _ Hd)) in H.
  unfold date_if in H. destruct (year_in_range y && valid_ymd y m d) eqn:E; inversion H; subst dt. clear H.
  apply andb_prop in E. destruct E as [Ey Ev].
  destruct (mk_ymd_fields y m d Ey Ev) as (Hr & Hmo & Hda).
  destruct (repr_md _ _ _ Hr) as (A1 & A2 & A3 & A4 & _).
  rewrite A3, A4, Hmo, Hda. auto.
Qed.

(** soundness theorems, now depending on the ISO-week constructor fact only *)
Theorem to_naive_date_sound_modulo_isoywd : Fact_from_isoywd ->
  forall p d, date_fields_typed p -> to_naive_date p = Val (Ok d) -> date_sound p d.
Proof. intros Hi. exact (to_naive_date_sound_modulo_date fact_from_ymd Hi). Qed.
Theorem to_naive_datetime_sound_modulo_isoywd : Fact_from_isoywd ->
  forall p off v, typed p -> in_i32 off = true ->
  to_naive_datetime_with_offset p off = Val (Ok v) ->
  date_sound p (nd_date v) /\ time_sound p (nd_time v) /\ ts_sound p v off.
Proof. intros Hi. exact (to_naive_datetime_sound_modulo_date fact_from_ymd Hi). Qed.
Theorem to_datetime_sound_modulo_isoywd : Fact_from_isoywd ->
  forall p z, typed p -> to_datetime p = Val (Ok z) ->
  zoned_sound p z /\ (p_offset p = None -> dz_off z = 0 /\ p_timestamp p <> None).
Proof. intros Hi. exact (to_datetime_sound_modulo_date fact_from_ymd Hi). Qed.
Theorem to_datetime_with_timezone_sound_modulo_isoywd : Fact_from_isoywd ->
  forall p tz z, typed p -> -86400 < tz < 86400 -> to_datetime_with_timezone p tz = Val (Ok z) ->
  zoned_sound p z /\ dz_off z = tz.
Proof. intros Hi. exact (to_datetime_with_timezone_sound_modulo_date fact_from_ymd Hi). Qed.

(** * Accessors on represented dates: exact values, no traps *)
Lemma repr_year_i32 y o d : repr y o d -> in_i32 y = true /\ -262143 <= y <= 262142.
Proof.
  intros (Hy & _ & _). pose proof (year_range_bounds y Hy). split; [|lia].
  unfold in_i32, in_range, i32_min, i32_max. lia.
Qed.
Lemma repr_ordinal_bounds y o d : repr y o d -> 1 <= o <= 366.
Proof.
  intros (_ & Ho & _). unfold valid_yo, days_in_year in Ho. destruct (is_leap y); lia.
Qed.
Lemma weekday_bounds n : 0 <= weekday_of_dn n <= 6.
Proof. unfold weekday_of_dn. lia. Qed.

Lemma wd_days_since_spec a b : 0 <= a <= 6 -> 0 <= b <= 6 -> Date.wd_days_since a b = Val ((a - b) mod 7).
Proof.
  intros Ha Hb. unfold Date.wd_days_since, add_u32, sub_u32, chk, in_u32, in_range, u32_max.
  destruct (a <? b) eqn:E.
  - replace ((0 <=? 7 + a) && (7 + a <=? 4294967295)) with true by lia. cbn [bind].
    replace ((0 <=? 7 + a - b) && (7 + a - b <=? 4294967295)) with true by lia. f_equal. lia.
  - replace ((0 <=? a - b) && (a - b <=? 4294967295)) with true by lia. f_equal. lia.
Qed.

Definition weeks_of (o wd day : Z) : Z := (o - (wd - day) mod 7 + 6) / 7.
Lemma weeks_from_spec y o d day : repr y o d -> 0 <= day <= 6 ->
  Date.weeks_from d day = Val (weeks_of o (weekday_of_dn (dn_of_yo y o)) day).
Proof.
  intros H Hd. destruct (repr_md _ _ _ H) as (_ & Ho & _ & _ & Hw & _).
  pose proof (repr_ordinal_bounds _ _ _ H) as Hob. pose proof (weekday_bounds (dn_of_yo y o)) as Hwb.
  unfold Date.weeks_from. rewrite Hw. cbn [bind]. rewrite wd_days_since_spec by lia. cbn [bind].
  rewrite Ho. set (ds := (weekday_of_dn (dn_of_yo y o) - day) mod 7).
  assert (0 <= ds <= 6) by (unfold ds; lia).
  rewrite (as_i32_small o) by (unfold i32_max; lia). rewrite (as_i32_small ds) by (unfold i32_max; lia).
  unfold sub_i32, add_i32, chk, in_i32, in_range, i32_min, i32_max.
  replace ((-2147483648 <=? o - ds) && (o - ds <=? 2147483647)) with true by lia. cbn [bind].
  replace ((-2147483648 <=? o - ds + 6) && (o - ds + 6 <=? 2147483647)) with true by lia. cbn [bind].
  unfold div_i32. rewrite div_t_nz by lia. unfold chk, in_i32, in_range, i32_min, i32_max.
  replace ((-2147483648 <=? (o - ds + 6) ÷ 7) && ((o - ds + 6) ÷ 7 <=? 2147483647)) with true by lia.
  f_equal. unfold weeks_of. fold ds. rewrite Z.quot_div_nonneg by lia. reflexivity.
Qed.

Lemma d_quarter_total y o d : repr y o d -> exists q, Date.d_quarter d = Val q.
Proof.
  intros H. destruct (repr_md _ _ _ H) as (_ & _ & Hm & _ & _ & _ & Hmb & _).
  unfold Date.d_quarter. rewrite Hm. cbn [bind]. unfold sub_u32, chk.
  replace (in_u32 (month_of y o - 1)) with true by (unfold in_u32, in_range, u32_max; lia). cbn [bind].
  rewrite div_euclid_pos by lia. unfold chk.
  replace (in_u32 ((month_of y o - 1) / 3)) with true by (unfold in_u32, in_range, u32_max; lia). cbn [bind].
  unfold add_u32, chk. replace (in_u32 ((month_of y o - 1) / 3 + 1)) with true by (unfold in_u32, in_range, u32_max; lia).
  eauto.
Qed.

(** the year-parts block of the two verifiers *)
Lemma parts_block Y : in_i32 Y = true ->
  (if Y >=? 0 then let* a := div_i32 Y 100 in let* b := rem_i32 Y 100 in Val (Some a, Some b)
   else Val (None, None)) =
  Val (if Y >=? 0 then (Some (Y / 100), Some (Y mod 100)) else (None, None)).
Proof.
  intros H. destruct (Y >=? 0) eqn:E; [|reflexivity].
  rewrite div_i32_100, rem_i32_100 by assumption. cbn [bind].
  destruct (quot_rem_nonneg Y ltac:(lia)) as [-> ->]. reflexivity.
Qed.
Lemma parts_check_complete y q r Y : year_parts_sound y q r Y ->
  let '(a, b) := (if Y >=? 0 then (Some (Y / 100), Some (Y mod 100)) else (None, None)) in
  (unwrap_or y Y =? Y) && opt_eqb (opt_or q a) a && opt_eqb (opt_or r b) b = true.
Proof.
  intros (A1 & A2 & A3). destruct (Y >=? 0) eqn:E.
  - destruct y as [yv|], q as [qv|], r as [rv|]; cbn [unwrap_or opt_or opt_eqb];
    try (specialize (A1 _ eq_refl)); try (specialize (A2 _ eq_refl)); try (specialize (A3 _ eq_refl)); lia.
  - destruct q as [qv|]; [specialize (A2 _ eq_refl); lia|].
    destruct r as [rv|]; [specialize (A3 _ eq_refl); lia|].
    destruct y as [yv|]; cbn [unwrap_or opt_or opt_eqb]; try (specialize (A1 _ eq_refl)); lia.
Qed.

Lemma verify_ymd_total y o d p : repr y o d -> exists b, verify_ymd p d = Val b.
Proof.
  intros H. destruct (repr_md _ _ _ H) as (Hy & _ & Hm & Hd & _). destruct (repr_year_i32 _ _ _ H) as [Hi _].
  unfold verify_ymd. rewrite Hy, parts_block by assumption. cbn [bind].
  destruct (if y >=? 0 then _ else _) as [a b]. rewrite Hm, Hd. cbn [bind]. eauto.
Qed.
Lemma verify_ymd_complete y o d p : repr y o d ->
  year_parts_sound (p_year p) (p_year_div_100 p) (p_year_mod_100 p) y ->
  (forall v, p_month p = Some v -> Date.d_month d = Val v) ->
  (forall v, p_day p = Some v -> Date.d_day d = Val v) ->
  verify_ymd p d = Val true.
Proof.
  intros H Hp Hmo Hda. destruct (repr_md _ _ _ H) as (Hy & _ & Hm & Hd & _). destruct (repr_year_i32 _ _ _ H) as [Hi _].
  unfold verify_ymd. rewrite Hy, parts_block by assumption. cbn [bind].
  pose proof (parts_check_complete _ _ _ _ Hp) as Hc.
  destruct (if y >=? 0 then _ else _) as [a b]. rewrite Hm, Hd. cbn [bind]. rewrite Hc. cbn [andb].
  f_equal. apply andb_true_intro. split.
  - destruct (p_month p) as [v|]; cbn [unwrap_or]; [|lia]. specialize (Hmo _ eq_refl). rewrite Hm in Hmo. inversion Hmo. lia.
  - destruct (p_day p) as [v|]; cbn [unwrap_or]; [|lia]. specialize (Hda _ eq_refl). rewrite Hd in Hda. inversion Hda. lia.
Qed.

Lemma verify_ordinal_total y o d p : repr y o d -> exists b, verify_ordinal p d = Val b.
Proof.
  intros H. unfold verify_ordinal. rewrite (weeks_from_spec _ _ _ WD_SUN H), (weeks_from_spec _ _ _ WD_MON H) by (unfold WD_SUN, WD_MON; lia).
  cbn [bind]. eauto.
Qed.
Lemma verify_ordinal_complete y o d p : repr y o d ->
  (forall v, p_ordinal p = Some v -> Date.d_ordinal d = v) ->
  (forall v, p_week_from_sun p = Some v -> Date.weeks_from d WD_SUN = Val (as_i32 v)) ->
  (forall v, p_week_from_mon p = Some v -> Date.weeks_from d WD_MON = Val (as_i32 v)) ->
  verify_ordinal p d = Val true.
Proof.
  intros H Ho Hs Hm. unfold verify_ordinal.
  pose proof (weeks_from_spec _ _ _ WD_SUN H ltac:(unfold WD_SUN; lia)) as Ws.
  pose proof (weeks_from_spec _ _ _ WD_MON H ltac:(unfold WD_MON; lia)) as Wm.
  rewrite Ws, Wm. cbn [bind]. f_equal. apply andb_true_intro. split; [apply andb_true_intro; split|].
  - destruct (p_ordinal p) as [v|]; cbn [unwrap_or]; [|lia]. specialize (Ho _ eq_refl). lia.
  - destruct (p_week_from_sun p) as [v|]; [|lia]. specialize (Hs _ eq_refl). rewrite Ws in Hs. inversion Hs. lia.
  - destruct (p_week_from_mon p) as [v|]; [|lia]. specialize (Hm _ eq_refl). rewrite Wm in Hm. inversion Hm. lia.
Qed.

(** * resolve_week_date: the day [weekday] of week [week] (weeks starting on [start], week 1 at the
    first such day of the year), by value for all arguments *)
Definition week_ordinal (y week wd start : Z) : Z :=
  1 + (start - weekday_of_dn (dn_of_yo y 1)) mod 7 + (week - 1) * 7 + (wd - start) mod 7.
Theorem resolve_week_date_spec y week wd start :
  in_i32 y = true -> 0 <= week <= u32_max -> 0 <= wd <= 6 -> 0 <= start <= 6 ->
  resolve_week_date y week wd start =
  Val (if week >? 53 then Err OutOfRange
       else if negb (year_in_range y) then Err OutOfRange
       else if week_ordinal y week wd start <=? 0 then Err Impossible
       else if valid_yo y (week_ordinal y week wd start) then Ok (mkdate y (week_ordinal y week wd start))
       else Err Impossible).
Proof.
  intros Hy Hw Hwd Hs. unfold resolve_week_date. destruct (week >? 53) eqn:E53; [reflexivity|].
  rewrite from_yo_opt_spec by (assumption || reflexivity).
  assert (V1 : valid_yo y 1 = true) by (rewrite valid_yo_iff; destruct (is_leap y); reflexivity).
  rewrite V1, andb_true_r. unfold ok_or_r. cbn [bind]. unfold date_if, ok_or.
  destruct (year_in_range y) eqn:Ey; cbn [negb ebind bind]; [|reflexivity].
  pose proof (repr_mk y 1 Ey V1) as R1.
  destruct (repr_md _ _ _ R1) as (_ & _ & _ & _ & Hwd1 & _). rewrite Hwd1. cbn [bind].
  pose proof (weekday_bounds (dn_of_yo y 1)) as Hb.
  rewrite wd_days_since_spec by lia. cbn [bind].
  set (ds := (start - weekday_of_dn (dn_of_yo y 1)) mod 7). assert (0 <= ds <= 6) by (unfold ds; lia).
  rewrite (as_i32_small ds) by (unfold i32_max; lia).
  unfold add_i32 at 1. unfold chk. replace (in_i32 (1 + ds)) with true by (unfold in_i32, in_range, i32_min, i32_max; lia).
  cbn [bind]. rewrite wd_days_since_spec by lia. cbn [bind].
  set (wn := (wd - start) mod 7). assert (0 <= wn <= 6) by (unfold wn; lia).
  rewrite (as_i32_small wn) by (unfold i32_max; lia). rewrite (as_i32_small week) by (unfold i32_max; lia).
  unfold sub_i32, mul_i32, add_i32, chk, in_i32, in_range, i32_min, i32_max.
  replace ((-2147483648 <=? week - 1) && (week - 1 <=? 2147483647)) with true by lia. cbn [bind].
  replace ((-2147483648 <=? (week - 1) * 7) && ((week - 1) * 7 <=? 2147483647)) with true by lia. cbn [bind].
  replace ((-2147483648 <=? 1 + ds + (week - 1) * 7) && (1 + ds + (week - 1) * 7 <=? 2147483647)) with true by lia. cbn [bind].
  replace ((-2147483648 <=? 1 + ds + (week - 1) * 7 + wn) && (1 + ds + (week - 1) * 7 + wn <=? 2147483647)) with true by lia.
  cbn [bind]. fold ds wn. unfold week_ordinal. fold ds wn.
  set (ord := 1 + ds + (week - 1) * 7 + wn).
  destruct (ord <=? 0) eqn:Eo; [reflexivity|].
  rewrite (as_u32_small ord) by (unfold u32_max; lia).
  rewrite (with_ordinal_spec y 1 _ R1 ord) by (unfold in_u32, in_range, u32_max; lia). cbn [bind].
  unfold date_if. destruct (valid_yo y ord); reflexivity.
Qed.

(** the week number and weekday of a date lead back to its ordinal *)
Lemma week_ordinal_of_date y o start :
  1 <= o <= 366 -> 0 <= start <= 6 ->
  week_ordinal y (weeks_of o (weekday_of_dn (dn_of_yo y o)) start) (weekday_of_dn (dn_of_yo y o)) start = o.
Proof.
  intros Ho Hs. unfold week_ordinal, weeks_of, weekday_of_dn, dn_of_yo. 
  set (b := days_before_year y). clearbody b. lia.
Qed.

(** * to_naive_date: completeness on the documented combinations, and absence of traps *)
Lemma as_i32_u32 v : 0 <= v <= u32_max -> as_i32 v = if v <? 2147483648 then v else v - 4294967296.
Proof.
  intros H. unfold as_i32, wrap_s, u32_max in *. change (2 ^ 32) with 4294967296. change (2 ^ (32 - 1)) with 2147483648.
  rewrite Z.mod_small by lia. reflexivity.
Qed.
Lemma iw_week_u32 iw : 0 <= Date.iw_week iw <= u32_max.
Proof. unfold Date.iw_week, as_u32, wrap_u, u32_max. change (2 ^ 32) with 4294967296. lia. Qed.

(** a year group: absent, or determinate for the actual year *)
Definition group_ok (Y : Z) (y q r : option Z) : Prop :=
  (y = None /\ q = None /\ r = None) \/ determinate Y y q r.
Lemma parts_group_of y q r Y : year_parts_sound y q r Y -> group_of Y y q r.
Proof.
  intros (A1 & A2 & A3). unfold group_of.
  split; [intros v Hv; symmetry; auto|]. split; intros v Hv; [destruct (A2 _ Hv)|destruct (A3 _ Hv)]; auto.
Qed.
Lemma resolve_group Y y q r : in_i32 Y = true -> year_parts_sound y q r Y -> group_ok Y y q r ->
  resolve_year y q r = Val (Ok (if match y, q, r with None, None, None => true | _, _, _ => false end then None else Some Y)).
Proof.
  intros HY Hp [(-> & -> & ->)|D]; [reflexivity|].
  rewrite (resolve_year_complete Y y q r HY (parts_group_of _ _ _ _ Hp) D).
  destruct y, q, r; try reflexivity. exfalso. destruct D as [D|[[D _]|(_ & D & _)]]; congruence.
Qed.

Lemma arm_ok (X : R (res Z)) (V : Z -> R bool) d :
  X = Val (Ok d) -> V d = Val true ->
  (let! date := X in let* v := V date in Val (Ok (v, date))) = Val (Ok (true, d)).
Proof. intros -> HV. cbn [ebind bind]. rewrite HV. reflexivity. Qed.
Lemma andr_intro a b : a = Val true -> b = Val true -> andr a b = Val true.
Proof. intros -> ->. reflexivity. Qed.

Section IsoFacts.
  (** Facts about the ISO-week functions of Model/Date.v that the shared calendar library does not
      provide yet (C01: "iso week, from_isoywd_opt_spec"). *)
  Hypothesis Hyp_iso_total : forall y o d, repr y o d ->
    exists iw, Date.d_iso_week d = Val iw /\ in_i32 (Date.iw_year iw) = true.
  Hypothesis Hyp_isoywd_total : forall y w wd, in_i32 y = true -> 0 <= w <= u32_max -> 0 <= wd <= 6 ->
    exists r, Date.from_isoywd_opt y w wd = Val r /\ (forall d, r = Some d -> exists y' o', repr y' o' d).
  Hypothesis Hyp_isoywd_roundtrip : forall y o d iw, repr y o d -> Date.d_iso_week d = Val iw ->
    Date.from_isoywd_opt (Date.iw_year iw) (Date.iw_week iw) (weekday_of_dn (dn_of_yo y o)) = Val (Some d).

  Lemma verify_iso_total y o d p : repr y o d -> exists b, verify_isoweekdate p d = Val b.
  Proof.
    intros H. destruct (Hyp_iso_total _ _ _ H) as (iw & Hiw & Hi). destruct (repr_md _ _ _ H) as (_ & _ & _ & _ & Hw & _).
    unfold verify_isoweekdate. rewrite Hiw. cbn [bind]. rewrite Hw. cbn [bind]. rewrite parts_block by assumption.
    cbn [bind]. destruct (if Date.iw_year iw >=? 0 then _ else _) as [a b]. eauto.
  Qed.
  Lemma verify_iso_complete y o d p : repr y o d -> iso_sound p d ->
    (forall v, p_weekday p = Some v -> Date.d_weekday d = Val v) ->
    verify_isoweekdate p d = Val true.
  Proof.
    intros H (iw & Hiw & Hp & Hwk) Hwd.
    destruct (Hyp_iso_total _ _ _ H) as (iw' & Hiw' & Hi). rewrite Hiw in Hiw'. inversion Hiw'; subst iw'. clear Hiw'.
    destruct (repr_md _ _ _ H) as (_ & _ & _ & _ & Hw & _).
    unfold verify_isoweekdate. rewrite Hiw. cbn [bind]. rewrite Hw. cbn [bind]. rewrite parts_block by assumption.
    cbn [bind]. pose proof (parts_check_complete _ _ _ _ Hp) as Hc.
    destruct (if Date.iw_year iw >=? 0 then _ else _) as [a b]. rewrite Hc. cbn [andb]. f_equal.
    apply andb_true_intro. split.
    - destruct (p_isoweek p) as [v|]; cbn [unwrap_or]; [|lia]. specialize (Hwk _ eq_refl). lia.
    - destruct (p_weekday p) as [v|]; cbn [unwrap_or]; [|lia]. specialize (Hwd _ eq_refl). rewrite Hw in Hwd. inversion Hwd. lia.
  Qed.

  (** one of the documented sufficient combinations is present *)
  Definition year_determinate (Y : Z) (p : parsed) : Prop :=
    determinate Y (p_year p) (p_year_div_100 p) (p_year_mod_100 p).
  Definition combination_present (y iy : Z) (p : parsed) : Prop :=
    (year_determinate y p /\ p_month p <> None /\ p_day p <> None) \/
    (year_determinate y p /\ p_ordinal p <> None) \/
    (year_determinate y p /\ p_week_from_sun p <> None /\ p_weekday p <> None) \/
    (year_determinate y p /\ p_week_from_mon p <> None /\ p_weekday p <> None) \/
    (determinate iy (p_isoyear p) (p_isoyear_div_100 p) (p_isoyear_mod_100 p) /\ p_isoweek p <> None /\ p_weekday p <> None).

  (** COMPLETENESS: all supplied fields are those of the date [d], each year group is absent or
      determinate, one documented combination is present: the resolution is exactly [d]. *)
  Theorem to_naive_date_complete_modulo_iso y o d iw p :
    repr y o d -> Date.d_iso_week d = Val iw -> typed p -> date_sound p d ->
    group_ok y (p_year p) (p_year_div_100 p) (p_year_mod_100 p) ->
    group_ok (Date.iw_year iw) (p_isoyear p) (p_isoyear_div_100 p) (p_isoyear_mod_100 p) ->
    combination_present y (Date.iw_year iw) p ->
    to_naive_date p = Val (Ok d).
  Proof.
    intros H Hiw T DS Gy Gi Comb.
    destruct (repr_md _ _ _ H) as (Ey & Eo & Em & Ed & Ew & _ & Hmb & Hdb & Hord).
    destruct (repr_year_i32 _ _ _ H) as [Hyi Hyb]. pose proof (repr_ordinal_bounds _ _ _ H) as Hob.
    destruct (Hyp_iso_total _ _ _ H) as (iw' & Hiw' & Hiyi). rewrite Hiw in Hiw'. inversion Hiw'; subst iw'. clear Hiw'.
    pose proof DS as (S1 & S2 & S3 & S4 & S5 & S6 & S7 & S8 & S9). rewrite Ey in S1.
    assert (S2' : year_parts_sound (p_isoyear p) (p_isoyear_div_100 p) (p_isoyear_mod_100 p) (Date.iw_year iw) /\
                  (forall v, p_isoweek p = Some v -> Date.iw_week iw = v)).
    { destruct S2 as (iw2 & Hiw2 & A & A'). rewrite Hiw in Hiw2. inversion Hiw2; subst iw2. auto. }
    destruct S2' as [S2a S2b].
    pose proof (verify_ymd_complete _ _ _ p H S1 S4 S9) as V1.
    pose proof (verify_iso_complete _ _ _ p H S2 S7) as V2.
    pose proof (verify_ordinal_complete _ _ _ p H S8 S5 S6) as V3.
    pose proof (weekday_bounds (dn_of_yo y o)) as Hwb.
    (* the tail of the function *)
    assert (Tail : forall X, X = Val (Ok (true, d)) ->
              (let! '(verified, parsed_date) := X in
               if negb verified then Val (Err Impossible) else
               match p_quarter p with
               | Some q => let* dq := Date.d_quarter parsed_date in
                           if negb (q =? dq) then Val (Err Impossible) else Val (Ok parsed_date)
               | None => Val (Ok parsed_date)
               end) = Val (Ok d)).
    { intros X ->. cbn [ebind bind negb]. destruct (p_quarter p) as [q|] eqn:Eq; [|reflexivity].
      rewrite (S3 _ eq_refl). cbn [bind]. rewrite Z.eqb_refl. reflexivity. }
    (* the five arms *)
    assert (Aymd : forall m dd, p_month p = Some m -> p_day p = Some dd ->
              ok_or_r (Date.from_ymd_opt y m dd) OutOfRange = Val (Ok d)).
    { intros m dd Hm Hd. specialize (S4 _ Hm). specialize (S9 _ Hd). rewrite Em in S4. rewrite Ed in S9.
      inversion S4; inversion S9; subst m dd.
      rewrite from_ymd_opt_spec by (try assumption; apply in_u32_of; unfold u32_max;
        pose proof (days_in_month_bounds (is_leap y) (month_of y o)); lia).
      destruct H as (Hy & Hvo & ->).
      replace (valid_ymd y (month_of y o) (day_of y o)) with true by (unfold valid_ymd; lia).
      rewrite Hy. cbn [andb date_if]. unfold month_of, day_of. rewrite mk_ymd_self by assumption. reflexivity. }
    assert (Ayo : forall ord, p_ordinal p = Some ord -> ok_or_r (Date.from_yo_opt y ord) OutOfRange = Val (Ok d)).
    { intros ord Hord'. specialize (S8 _ Hord'). rewrite Eo in S8. subst ord.
      rewrite from_yo_opt_spec by (try assumption; apply in_u32_of; unfold u32_max; lia).
      destruct H as (Hy & Hvo & ->). rewrite Hy, Hvo. reflexivity. }
    assert (Aweek : forall start week wd, (start = WD_SUN \/ start = WD_MON) ->
              0 <= week <= u32_max -> Date.weeks_from d start = Val (as_i32 week) -> p_weekday p = Some wd ->
              resolve_week_date y week wd start = Val (Ok d)).
    { intros start week wd Hst Hwk Hwf Hwd. specialize (S7 _ Hwd). rewrite Ew in S7. inversion S7; subst wd.
      assert (Hs6 : 0 <= start <= 6) by (unfold WD_SUN, WD_MON in Hst; lia).
      rewrite (weeks_from_spec _ _ _ start H Hs6) in Hwf. inversion Hwf as [Hwf'].
      assert (Hwo : 0 <= weeks_of o (weekday_of_dn (dn_of_yo y o)) start <= 53) by (unfold weeks_of; lia).
      rewrite as_i32_u32 in Hwf' by assumption.
      assert (week = weeks_of o (weekday_of_dn (dn_of_yo y o)) start) by (unfold u32_max in Hwk; destruct (week <? 2147483648) eqn:?; lia).
      rewrite resolve_week_date_spec by (assumption || lia).
      replace (week >? 53) with false by lia. destruct H as (Hy & Hvo & ->). rewrite Hy. cbn [negb].
      subst week. rewrite week_ordinal_of_date by lia. replace (o <=? 0) with false by lia. rewrite Hvo. reflexivity. }
    assert (Aiso : forall iy w wd, p_isoweek p = Some w -> p_weekday p = Some wd -> iy = Date.iw_year iw ->
              ok_or_r (Date.from_isoywd_opt iy w wd) OutOfRange = Val (Ok d)).
    { intros iy w wd Hw' Hwd ->. specialize (S7 _ Hwd). rewrite Ew in S7. inversion S7; subst wd.
      specialize (S2b _ Hw'). subst w. rewrite (Hyp_isoywd_roundtrip _ _ _ _ H Hiw). reflexivity. }
    assert (All3 : andr (verify_ymd p d) (andr (verify_isoweekdate p d) (verify_ordinal p d)) = Val true)
      by (repeat apply andr_intro; assumption).
    (* year groups *)
    unfold to_naive_date. cbv zeta.
    rewrite (resolve_group y _ _ _ Hyi S1 Gy). cbn [ebind bind].
    rewrite (resolve_group _ _ _ _ Hiyi S2a Gi). cbn [ebind bind].
    apply Tail.
    assert (Tws : forall v, p_week_from_sun p = Some v -> 0 <= v <= u32_max) by (intros v Hv; apply (T F_week_from_sun _ Hv)).
    assert (Twm : forall v, p_week_from_mon p = Some v -> 0 <= v <= u32_max) by (intros v Hv; apply (T F_week_from_mon _ Hv)).
    set (gy_none := match p_year p, p_year_div_100 p, p_year_mod_100 p with None, None, None => true | _, _, _ => false end).
    set (gi_none := match p_isoyear p, p_isoyear_div_100 p, p_isoyear_mod_100 p with None, None, None => true | _, _, _ => false end).
    assert (Iso_arm : p_isoweek p <> None -> p_weekday p <> None -> gi_none = false ->
              match (if gi_none then None else Some (Date.iw_year iw)), p_isoweek p, p_weekday p with
              | Some isoyear, Some isoweek, Some weekday =>
                  let! date := ok_or_r (Date.from_isoywd_opt isoyear isoweek weekday) OutOfRange in
                  let* v := andr (verify_ymd p date) (verify_ordinal p date) in Val (Ok (v, date))
              | _, _, _ => Val (Err NotEnough)
              end = Val (Ok (true, d))).
    { intros Hw' Hwd' ->. destruct (p_isoweek p) as [w|] eqn:E1; [|congruence].
      destruct (p_weekday p) as [wd|] eqn:E2; [|congruence].
      apply arm_ok; [eapply Aiso; eauto|apply andr_intro; assumption]. }
    assert (Ydet : year_determinate y p -> gy_none = false).
    { unfold year_determinate, gy_none. intros [D|[[D _]|(_ & D & _)]];
      destruct (p_year p), (p_year_div_100 p), (p_year_mod_100 p); congruence. }
    assert (Idet : determinate (Date.iw_year iw) (p_isoyear p) (p_isoyear_div_100 p) (p_isoyear_mod_100 p) -> gi_none = false).
    { unfold gi_none. intros [D|[[D _]|(_ & D & _)]];
      destruct (p_isoyear p), (p_isoyear_div_100 p), (p_isoyear_mod_100 p); congruence. }
    destruct gy_none eqn:Egy.
    - (* no year group: only the ISO combination can be the one present *)
      destruct Comb as [(D & _)|[(D & _)|[(D & _)|[(D & _)|(D & Hw' & Hwd')]]]];
        try (apply Ydet in D; congruence).
      apply Iso_arm; auto; try congruence.
    - destruct (p_month p) as [m|] eqn:Emo; [destruct (p_day p) as [dd|] eqn:Eda|].
      + apply arm_ok; [eapply Aymd; eauto|apply andr_intro; assumption].
      + destruct (p_ordinal p) as [ord|] eqn:Eor; [apply arm_ok; [eapply Ayo; eauto|exact All3]|].
        destruct (p_week_from_sun p) as [ws|] eqn:Ews, (p_weekday p) as [wd|] eqn:Ewd.
        * apply arm_ok; [|exact All3]. eapply (Aweek WD_SUN); eauto.
        * destruct (p_week_from_mon p) as [wm|] eqn:Ewm.
          -- exfalso. destruct Comb as [(_ & _ & X)|[(_ & X)|[(_ & _ & X)|[(_ & _ & X)|(_ & _ & X)]]]]; congruence.
          -- exfalso. destruct Comb as [(_ & _ & X)|[(_ & X)|[(_ & _ & X)|[(_ & X & _)|(_ & _ & X)]]]]; congruence.
        * destruct (p_week_from_mon p) as [wm|] eqn:Ewm.
          -- apply arm_ok; [|exact All3]. eapply (Aweek WD_MON); eauto.
          -- destruct Comb as [(_ & _ & X)|[(_ & X)|[(_ & X & _)|[(_ & X & _)|(D & Hw' & Hwd')]]]]; try congruence.
             apply Iso_arm; auto; try congruence.
        * destruct (p_week_from_mon p) as [wm|] eqn:Ewm.
          -- exfalso. destruct Comb as [(_ & _ & X)|[(_ & X)|[(_ & X & _)|[(_ & _ & X)|(_ & _ & X)]]]]; congruence.
          -- exfalso. destruct Comb as [(_ & _ & X)|[(_ & X)|[(_ & X & _)|[(_ & X & _)|(_ & _ & X)]]]]; congruence.
      + destruct (p_ordinal p) as [ord|] eqn:Eor; [apply arm_ok; [eapply Ayo; eauto|exact All3]|].
        destruct (p_week_from_sun p) as [ws|] eqn:Ews, (p_weekday p) as [wd|] eqn:Ewd.
        * apply arm_ok; [|exact All3]. eapply (Aweek WD_SUN); eauto.
        * destruct (p_week_from_mon p) as [wm|] eqn:Ewm.
          -- exfalso. destruct Comb as [(_ & X & _)|[(_ & X)|[(_ & _ & X)|[(_ & _ & X)|(_ & _ & X)]]]]; congruence.
          -- exfalso. destruct Comb as [(_ & X & _)|[(_ & X)|[(_ & _ & X)|[(_ & X & _)|(_ & _ & X)]]]]; congruence.
        * destruct (p_week_from_mon p) as [wm|] eqn:Ewm.
          -- apply arm_ok; [|exact All3]. eapply (Aweek WD_MON); eauto.
          -- destruct Comb as [(_ & X & _)|[(_ & X)|[(_ & X & _)|[(_ & X & _)|(D & Hw' & Hwd')]]]]; try congruence.
             apply Iso_arm; auto; try congruence.
        * destruct (p_week_from_mon p) as [wm|] eqn:Ewm.
          -- exfalso. destruct Comb as [(_ & X & _)|[(_ & X)|[(_ & X & _)|[(_ & _ & X)|(_ & _ & X)]]]]; congruence.
          -- exfalso. destruct Comb as [(_ & X & _)|[(_ & X)|[(_ & X & _)|[(_ & X & _)|(_ & _ & X)]]]]; congruence.
  Qed.

  (** ABSENCE OF TRAPS: for every typed field state [to_naive_date] returns by value, and a
      returned date is a represented (valid, in range) date *)
  Definition is_repr (d : Z) : Prop := exists y o, repr y o d.
  Lemma andr_total a b : (exists x, a = Val x) -> (exists x, b = Val x) -> exists x, andr a b = Val x.
  Proof. intros [x ->] [z ->]. unfold andr. cbn [bind]. destruct x; eauto. Qed.
  Lemma arm_total (X : R (res Z)) (V : Z -> R bool) :
    (exists r, X = Val r /\ forall d, r = Ok d -> is_repr d) ->
    (forall d, is_repr d -> exists b, V d = Val b) ->
    exists r', (let! date := X in let* v := V date in Val (Ok (v, date))) = Val r' /\
               forall v d, r' = Ok (v, d) -> is_repr d.
  Proof.
    intros (r & -> & Hr) HV. destruct r as [d|e]; cbn [ebind bind].
    - destruct (HV d (Hr d eq_refl)) as [b ->]. cbn [bind]. eexists; split; [reflexivity|].
      intros v d' E. inversion E; subst. apply Hr. reflexivity.
    - eexists; split; [reflexivity|]. intros; discriminate.
  Qed.
  Lemma ok_or_r_total (x : R (option Z)) e :
    (exists r, x = Val r /\ forall d, r = Some d -> is_repr d) ->
    exists r, ok_or_r x e = Val r /\ forall d, r = Ok d -> is_repr d.
  Proof.
    intros (r & -> & Hr). unfold ok_or_r, ok_or. cbn [bind]. eexists; split; [reflexivity|].
    intros d E. destruct r; inversion E; subst. apply Hr. reflexivity.
  Qed.

  Theorem to_naive_date_total_modulo_iso p : typed p ->
    exists r, to_naive_date p = Val r /\ forall d, r = Ok d -> is_repr d.
  Proof.
    intros T. pose proof (typed_date p T) as (T1 & T2 & T3 & T4 & T5 & T6 & T7 & T8 & T9 & T10).
    unfold to_naive_date. cbv zeta.
    destruct (resolve_year_no_panic _ _ _ T1 T2 T3) as (ry & Hry). rewrite Hry.
    destruct ry as [gy|e]; cbn [ebind bind]; [|eexists; split; [reflexivity|intros; discriminate]].
    destruct (resolve_year_no_panic _ _ _ T4 T5 T6) as (ri & Hri). rewrite Hri.
    destruct ri as [gi|e]; cbn [ebind bind]; [|eexists; split; [reflexivity|intros; discriminate]].
    (* the verifiers are total on represented dates *)
    assert (Vy : forall d, is_repr d -> exists b, verify_ymd p d = Val b)
      by (intros d (y & o & H); eapply verify_ymd_total; eauto).
    assert (Vi : forall d, is_repr d -> exists b, verify_isoweekdate p d = Val b)
      by (intros d (y & o & H); eapply verify_iso_total; eauto).
    assert (Vo : forall d, is_repr d -> exists b, verify_ordinal p d = Val b)
      by (intros d (y & o & H); eapply verify_ordinal_total; eauto).
    assert (V3 : forall d, is_repr d -> exists b,
              andr (verify_ymd p d) (andr (verify_isoweekdate p d) (verify_ordinal p d)) = Val b)
      by (intros d H; apply andr_total; [auto|apply andr_total; auto]).
    (* the tail: verified flag and quarter *)
    assert (Tail : forall X, (exists r', X = Val r' /\ forall v d, r' = Ok (v, d) -> is_repr d) ->
              exists r, (let! '(verified, parsed_date) := X in
                         if negb verified then Val (Err Impossible) else
                         match p_quarter p with
                         | Some q => let* dq := Date.d_quarter parsed_date in
                                     if negb (q =? dq) then Val (Err Impossible) else Val (Ok parsed_date)
                         | None => Val (Ok parsed_date)
                         end) = Val r /\ forall d, r = Ok d -> is_repr d).
    { intros X (r' & -> & Hr'). destruct r' as [[v d]|e]; cbn [ebind bind];
        [|eexists; split; [reflexivity|intros; discriminate]].
      pose proof (Hr' v d eq_refl) as Hd.
      destruct v; cbn [negb]; [|eexists; split; [reflexivity|intros; discriminate]].
      destruct (p_quarter p) as [q|].
      - destruct Hd as (y & o & Hd). destruct (d_quarter_total _ _ _ Hd) as (dq & ->). cbn [bind].
        destruct (negb (q =? dq)); eexists; (split; [reflexivity|]); intros d' E; inversion E; subst; exists y, o; exact Hd.
      - eexists; split; [reflexivity|]. intros d' E; inversion E; subst. exact Hd. }
    apply Tail.
    (* constructors *)
    assert (Cymd : forall y m dd, gy = Some y -> p_month p = Some m -> p_day p = Some dd ->
              exists r, ok_or_r (Date.from_ymd_opt y m dd) OutOfRange = Val r /\ forall d, r = Ok d -> is_repr d).
    { intros y m dd -> Hm Hd. apply ok_or_r_total.
      pose proof (resolve_year_i32 _ _ _ _ T1 T2 T3 Hry) as Hy.
      rewrite Hm in T7. rewrite Hd in T8. cbn in T7, T8.
      rewrite from_ymd_opt_spec by (try assumption; apply in_u32_of; assumption).
      eexists; split; [reflexivity|]. intros d E. unfold date_if in E.
      destruct (year_in_range y && valid_ymd y m dd) eqn:Ec; inversion E; subst.
      apply andb_prop in Ec. destruct Ec. eexists; eexists. apply mk_ymd_repr; assumption. }
    assert (Cyo : forall y ord, gy = Some y -> p_ordinal p = Some ord ->
              exists r, ok_or_r (Date.from_yo_opt y ord) OutOfRange = Val r /\ forall d, r = Ok d -> is_repr d).
    { intros y ord -> Ho. apply ok_or_r_total.
      pose proof (resolve_year_i32 _ _ _ _ T1 T2 T3 Hry) as Hy.
      pose proof (T F_ordinal _ Ho) as To. cbn in To.
      rewrite from_yo_opt_spec by (try assumption; apply in_u32_of; assumption).
      eexists; split; [reflexivity|]. intros d E. unfold date_if in E.
      destruct (year_in_range y && valid_yo y ord) eqn:Ec; inversion E; subst.
      apply andb_prop in Ec. destruct Ec. eexists; eexists. apply repr_mk; assumption. }
    assert (Cweek : forall y week wd start, gy = Some y -> 0 <= week <= u32_max -> p_weekday p = Some wd ->
              (start = WD_SUN \/ start = WD_MON) ->
              exists r, resolve_week_date y week wd start = Val r /\ forall d, r = Ok d -> is_repr d).
    { intros y week wd start -> Hw Hwd Hst.
      pose proof (resolve_year_i32 _ _ _ _ T1 T2 T3 Hry) as Hy. specialize (T10 _ Hwd).
      rewrite resolve_week_date_spec by (try assumption; unfold WD_SUN, WD_MON in Hst; lia).
      eexists; split; [reflexivity|]. intros d E.
      destruct (week >? 53); [discriminate|]. destruct (year_in_range y) eqn:Ey; cbn [negb] in E; [|discriminate].
      destruct (week_ordinal y week wd start <=? 0); [discriminate|].
      destruct (valid_yo y (week_ordinal y week wd start)) eqn:Ev; inversion E; subst.
      eexists; eexists. apply repr_mk; assumption. }
    assert (Ciso : exists r',
              match gi, p_isoweek p, p_weekday p with
              | Some isoyear, Some isoweek, Some weekday =>
                  let! date := ok_or_r (Date.from_isoywd_opt isoyear isoweek weekday) OutOfRange in
                  let* v := andr (verify_ymd p date) (verify_ordinal p date) in Val (Ok (v, date))
              | _, _, _ => Val (Err NotEnough)
              end = Val r' /\ forall v d, r' = Ok (v, d) -> is_repr d).
    { destruct gi as [iy|]; [|eexists; split; [reflexivity|intros; discriminate]].
      destruct (p_isoweek p) as [w|] eqn:Ew; [|eexists; split; [reflexivity|intros; discriminate]].
      destruct (p_weekday p) as [wd|] eqn:Ewd; [|eexists; split; [reflexivity|intros; discriminate]].
      apply arm_total; [|intros d H; apply andr_total; auto].
      apply ok_or_r_total.
      pose proof (resolve_year_i32 _ _ _ _ T4 T5 T6 Hri) as Hy. cbn in T9. specialize (T10 _ eq_refl).
      destruct (Hyp_isoywd_total iy w wd Hy T9 T10) as (r & Hr & Hrepr). eexists; split; [exact Hr|]. exact Hrepr. }
    destruct gy as [y|]; [|exact Ciso].
    assert (Rest : exists r',
      match p_ordinal p with
      | Some ordinal =>
          let! date := ok_or_r (Date.from_yo_opt y ordinal) OutOfRange in
          let* v := andr (verify_ymd p date) (andr (verify_isoweekdate p date) (verify_ordinal p date)) in
          Val (Ok (v, date))
      | None =>
          match p_week_from_sun p, p_weekday p with
          | Some week, Some weekday =>
              let! date := resolve_week_date y week weekday WD_SUN in
              let* v := andr (verify_ymd p date) (andr (verify_isoweekdate p date) (verify_ordinal p date)) in
              Val (Ok (v, date))
          | _, _ =>
              match p_week_from_mon p, p_weekday p with
              | Some week, Some weekday =>
                  let! date := resolve_week_date y week weekday WD_MON in
                  let* v := andr (verify_ymd p date) (andr (verify_isoweekdate p date) (verify_ordinal p date)) in
                  Val (Ok (v, date))
              | _, _ =>
                  match gi, p_isoweek p, p_weekday p with
                  | Some isoyear, Some isoweek, Some weekday =>
                      let! date := ok_or_r (Date.from_isoywd_opt isoyear isoweek weekday) OutOfRange in
                      let* v := andr (verify_ymd p date) (verify_ordinal p date) in Val (Ok (v, date))
                  | _, _, _ => Val (Err NotEnough)
                  end
              end
          end
      end = Val r' /\ forall v d, r' = Ok (v, d) -> is_repr d).
    { destruct (p_ordinal p) as [ord|] eqn:Eo; [apply arm_total; [eapply Cyo; eauto|exact V3]|].
      destruct (p_week_from_sun p) as [ws|] eqn:Ews, (p_weekday p) as [wd|] eqn:Ewd.
      - apply arm_total; [|exact V3]. eapply Cweek; eauto. apply (T F_week_from_sun _ Ews).
      - destruct (p_week_from_mon p); exact Ciso.
      - destruct (p_week_from_mon p) as [wm|] eqn:Ewm; [|exact Ciso].
        apply arm_total; [|exact V3]. eapply Cweek; eauto. apply (T F_week_from_mon _ Ewm).
      - destruct (p_week_from_mon p); exact Ciso. }
    destruct (p_month p) as [m|] eqn:Em; [destruct (p_day p) as [dd|] eqn:Ed|]; try exact Rest.
    apply arm_total; [eapply Cymd; eauto|intros d H; apply andr_total; auto].
  Qed.
End IsoFacts.

(** * The ISO-week facts as named propositions (to be supplied by Proofs/Date.v) *)
Definition Fact_iso_week_total : Prop := forall y o d, repr y o d ->
  exists iw, Date.d_iso_week d = Val iw /\ in_i32 (Date.iw_year iw) = true.
Definition Fact_isoywd_total : Prop := forall y w wd, in_i32 y = true -> 0 <= w <= u32_max -> 0 <= wd <= 6 ->
  exists r, Date.from_isoywd_opt y w wd = Val r /\ (forall d, r = Some d -> exists y' o', repr y' o' d).
Definition Fact_isoywd_roundtrip : Prop := forall y o d iw, repr y o d -> Date.d_iso_week d = Val iw ->
  Date.from_isoywd_opt (Date.iw_year iw) (Date.iw_week iw) (weekday_of_dn (dn_of_yo y o)) = Val (Some d).

(** the hypotheses of the completeness theorem are inhabited: the documentation example *)
Definition ex_date_fields : parsed :=
  pput F_year (Some 2014) (pput F_month (Some 12) (pput F_day (Some 31) (pput F_weekday (Some 2) parsed_new))).
Lemma ex_complete_inhabited :
  repr 2014 365 (mkdate 2014 365) /\ typed ex_date_fields /\
  group_ok 2014 (p_year ex_date_fields) (p_year_div_100 ex_date_fields) (p_year_mod_100 ex_date_fields) /\
  group_ok 2015 (p_isoyear ex_date_fields) (p_isoyear_div_100 ex_date_fields) (p_isoyear_mod_100 ex_date_fields) /\
  combination_present 2014 2015 ex_date_fields /\
  to_naive_date ex_date_fields = Val (Ok (mkdate 2014 365)).
Proof.
  split; [apply repr_mk; reflexivity|]. split.
  { unfold ex_date_fields. repeat (apply typed_pput; [|cbn; unfold in_i32, in_range, i32_min, i32_max, u32_max; lia]).
    apply typed_new. }
  split; [right; left; discriminate|]. split; [left; auto|]. split.
  - left. split; [left; discriminate|]. split; discriminate.
  - vm_compute. reflexivity.
Qed.

(** * Date-time level: absence of traps in to_naive_datetime_with_offset *)
Lemma is_repr_dn d : is_repr d -> exists y o, repr y o d /\ -96000000 <= dn_of_yo y o <= 96000000.
Proof.
  intros (y & o & H). exists y, o. split; [exact H|].
  pose proof (repr_dn_in_range _ _ _ H) as R. unfold dn_in_range, DN_MIN, DN_MAX in R. lia.
Qed.

Lemma dt_timestamp_total d t : is_repr d -> 0 <= Time.tsecs t < 86400 ->
  exists ts, dt_timestamp (mk_ndt d t) = Val ts /\ -8400000000000 <= ts <= 8400000000000.
Proof.
  intros Hd Ht. destruct (is_repr_dn d Hd) as (y & o & H & Hb).
  unfold dt_timestamp. cbn [nd_date nd_time]. rewrite (num_days_from_ce_spec _ _ _ H). cbn [bind].
  unfold Time.num_seconds_from_midnight, DateTimeConsts.UNIX_EPOCH_DAY, sub_i64, mul_i64, add_i64, chk, in_i64, in_range, i64_min, i64_max.
  replace ((-9223372036854775808 <=? dn_of_yo y o - 719163) && (dn_of_yo y o - 719163 <=? 9223372036854775807)) with true by lia.
  cbn [bind].
  replace ((-9223372036854775808 <=? (dn_of_yo y o - 719163) * 86400) && ((dn_of_yo y o - 719163) * 86400 <=? 9223372036854775807)) with true by lia.
  cbn [bind].
  replace ((-9223372036854775808 <=? (dn_of_yo y o - 719163) * 86400 + Time.tsecs t) &&
           ((dn_of_yo y o - 719163) * 86400 + Time.tsecs t <=? 9223372036854775807)) with true by lia.
  eexists. split; [reflexivity|lia].
Qed.

(** a date-time whose date is valid and whose time is a whole second of the day *)
Definition plain_ndt (v : ndt) : Prop :=
  is_repr (nd_date v) /\ 0 <= Time.tsecs (nd_time v) < 86400 /\ Time.tfrac (nd_time v) = 0.

Lemma dt_from_timestamp_total ts : in_i64 ts = true ->
  exists r, dt_from_timestamp ts 0 = Val r /\ forall v, r = Some v -> plain_ndt v.
Proof.
  intros Hts. unfold dt_from_timestamp, DateTimeConsts.DT_SECS_PER_DAY, DateTimeConsts.UNIX_EPOCH_DAY.
  rewrite div_euclid_pos by lia. rewrite rem_euclid_pos by lia.
  unfold add_i64, chk, in_i64, in_range, i64_min, i64_max in *.
  replace ((-9223372036854775808 <=? ts / 86400) && (ts / 86400 <=? 9223372036854775807)) with true by lia.
  cbn [bind].
  replace ((-9223372036854775808 <=? ts / 86400 + 719163) && (ts / 86400 + 719163 <=? 9223372036854775807)) with true by lia.
  cbn [bind].
  destruct ((ts / 86400 + 719163 <? i32_min) || (i32_max <? ts / 86400 + 719163)) eqn:E;
    [eexists; split; [reflexivity|intros; discriminate]|].
  assert (Hi : in_i32 (ts / 86400 + 719163) = true) by (unfold in_i32, in_range, i32_min, i32_max in *; lia).
  rewrite as_i32_id by exact Hi. rewrite from_num_days_from_ce_opt_spec by exact Hi. unfold obind. cbn [bind].
  unfold date_if. destruct (dn_in_range (ts / 86400 + 719163)) eqn:Er; [|eexists; split; [reflexivity|intros; discriminate]].
  rewrite as_u32_small by (unfold u32_max; lia).
  unfold Time.from_num_seconds_from_midnight_opt, Time.urem.
  replace ((ts mod 86400 >=? 86400) || (0 >=? 2000000000) || (0 >=? 1000000000) && negb (Z.rem (ts mod 86400) 60 =? 59))
    with false by lia.
  eexists. split; [reflexivity|]. intros v E'. inversion E'; subst v. unfold plain_ndt. cbn [nd_date nd_time Time.tsecs Time.tfrac].
  split; [|lia]. eexists; eexists. apply date_of_dn_repr. exact Er.
Qed.

Lemma try_seconds_small n : -100000 <= n <= 100000 -> try_seconds n = Some (mk_td n 0).
Proof.
  intros H. unfold try_seconds, td_new, Gen.TimeDelta.TD_MIN_secs, Gen.TimeDelta.TD_MAX_secs, Gen.TimeDelta.TD_NEW_NANOS_BOUND.
  match goal with |- (if ?c then _ else _) = _ => replace c with false by lia end. reflexivity.
Qed.

(** the leap-second step [datetime - 1 s] of the timestamp path never traps *)
Lemma sub_one_second_total v one : plain_ndt v -> try_seconds 1 = Some one ->
  exists r, ndt_checked_sub_signed v one = Val r.
Proof.
  intros (Hd & Hs & Hf) Hone. rewrite try_seconds_small in Hone by lia. inversion Hone; subst one. clear Hone.
  destruct v as [d [s f]]. cbn [nd_date nd_time Time.tsecs Time.tfrac] in *. subst f.
  unfold ndt_checked_sub_signed. cbn [nd_date nd_time].
  unfold Time.overflowing_sub_signed.
  change (td_neg (mk_td 1 0)) with (Val (mk_td (-1) 0)). cbn [bind].
  unfold Time.overflowing_add_signed. cbn [Time.tsecs Time.tfrac].
  change (num_seconds (mk_td (-1) 0)) with (Val (-1)). change (subsec_nanos (mk_td (-1) 0)) with (Val 0). cbn [bind].
  rewrite (as_i64_id s) by (unfold in_i64, in_range, i64_min, i64_max; lia).
  change (as_i32 0) with 0. change (0 >=? 1000000000) with false. cbv iota. cbn [bind].
  unfold add_i64 at 1. unfold chk. replace (in_i64 (s + -1)) with true by (unfold in_i64, in_range, i64_min, i64_max; lia).
  cbn [bind]. change (add_i32 0 0) with (Val 0). cbn [bind]. change (0 <? 0) with false. cbv iota.
  change (0 >=? 1000000000) with false. cbv iota. cbn [bind].
  rewrite rem_euclid_pos by lia. replace (in_i64 ((s + -1) / 86400)) with true by (unfold in_i64, in_range, i64_min, i64_max; lia).
  cbn [bind]. unfold sub_i64, chk.
  replace (in_i64 (s + -1 - (s + -1) mod 86400)) with true by (unfold in_i64, in_range, i64_min, i64_max; lia).
  cbn [bind]. unfold neg_i64, chk.
  replace (in_i64 (- (s + -1 - (s + -1) mod 86400))) with true by (unfold in_i64, in_range, i64_min, i64_max; lia).
  cbn [bind]. set (nr := - (s + -1 - (s + -1) mod 86400)).
  assert (Hnr : nr = 0 \/ nr = 86400) by (unfold nr; lia).
  rewrite try_seconds_small by lia.
  unfold Date.checked_sub_signed, num_days, num_seconds. cbn [secs nanos].
  replace ((nr <? 0) && (0 >? 0)) with false by lia. cbn [bind].
  unfold div_i64, Gen.TimeDelta.TD_SECS_PER_DAY. rewrite div_t_nz by lia. unfold chk.
  replace (in_i64 (nr ÷ 86400)) with true by (unfold in_i64, in_range, i64_min, i64_max; lia). cbn [bind].
  unfold neg_i64, chk. replace (in_i64 (- (nr ÷ 86400))) with true by (unfold in_i64, in_range, i64_min, i64_max; lia).
  cbn [bind]. replace ((- (nr ÷ 86400) <? i32_min) || (i32_max <? - (nr ÷ 86400))) with false by (unfold i32_min, i32_max; lia).
  destruct Hd as (y & o & H).
  rewrite (add_days_spec _ _ _ _ H) by (rewrite as_i32_id; unfold in_i32, in_range, i32_min, i32_max; lia).
  unfold obind. cbn [bind]. destruct (date_if _ _); eexists; reflexivity.
Qed.

Definition total {X} (x : R X) : Prop := exists r, x = Val r.
Lemma total_val {X} (a : X) : total (Val a).
Proof. eexists; reflexivity. Qed.
Lemma bind_total {X Y} (x : R X) (f : X -> R Y) :
  total x -> (forall a, x = Val a -> total (f a)) -> total (bind x f).
Proof. intros [a Ha] Hf. specialize (Hf a Ha). rewrite Ha. exact Hf. Qed.
Lemma ebind_total {X Y} (x : R (res X)) (f : X -> R (res Y)) :
  total x -> (forall a, x = Val (Ok a) -> total (f a)) -> total (ebind x f).
Proof.
  intros [r Hr] Hf. unfold ebind. rewrite Hr. cbn [bind]. destruct r as [a|e]; [apply Hf; exact Hr|apply total_val].
Qed.
Lemma tryset_total r : total (tryset r).
Proof. unfold tryset. apply total_val. Qed.

Section DateTimeTotal.
  Hypothesis Hyp_iso_total : Fact_iso_week_total.
  Hypothesis Hyp_isoywd_total : Fact_isoywd_total.
  Hypothesis Hyp_isoywd_roundtrip : Fact_isoywd_roundtrip.

  Lemma date_total p : typed p -> exists r, to_naive_date p = Val r /\ forall d, r = Ok d -> is_repr d.
  Proof. apply (to_naive_date_total_modulo_iso Hyp_iso_total Hyp_isoywd_total Hyp_isoywd_roundtrip). Qed.
  Lemma time_total p : typed p ->
    exists r, to_naive_time p = Val r /\ forall t, r = Ok t -> 0 <= Time.tsecs t < 86400.
  Proof.
    intros T. destruct (typed_time p T) as (U1 & U2 & U3 & U4 & U5).
    destruct (to_naive_time_spec p U1 U2 U3 U4 U5) as (r & Hr & Hs). exists r. split; [exact Hr|].
    intros t ->. destruct Hs as (hd & hm & mi & F & ->). destruct F as (_ & _ & _ & R1 & R2 & R3 & R4 & _).
    unfold time_of_fields. cbn [Time.tsecs]. destruct (unwrap_or (p_second p) 0 =? 60) eqn:E; lia.
  Qed.

  (** ABSENCE OF TRAPS in to_naive_datetime_with_offset (repaired code) for every typed field
      state and every i32 offset: both paths, the leap-second step, and the unreachable!() arm *)
  Theorem to_naive_datetime_total_modulo_iso p off : typed p -> in_i32 off = true ->
    total (to_naive_datetime_with_offset p off).
  Proof.
    intros T Hoff. unfold to_naive_datetime_with_offset.
    destruct (date_total p T) as (rd & Hrd & Hrepr). destruct (time_total p T) as (rt & Hrt & Htr).
    rewrite Hrd, Hrt. cbn [bind].
    assert (PathB : forall ts, p_timestamp p = Some ts -> total (
      if is_err_kind rd OutOfRange || is_err_kind rt OutOfRange then Val (Err OutOfRange)
      else if is_err_kind rd Impossible || is_err_kind rt Impossible then Val (Err Impossible)
      else
        let! ts := ok_or (checked_add in_i64 ts off) OutOfRange in
        let! datetime := ok_or_r (dt_from_timestamp ts 0) OutOfRange in
        let! '(datetime, parsed) :=
          (if opt_eqb (p_second p) (Some 60) then
             let sec := Time.second (nd_time datetime) in
             if sec =? 59 then Val (Ok (datetime, p))
             else if sec =? 0 then
               let* one := unwrap (try_seconds 1) in
               let! d := ok_or_r (ndt_checked_sub_signed datetime one) OutOfRange in
               Val (Ok (d, p))
             else Val (Err Impossible)
           else
             let! p1 := tryset (Parsed.set_second p (Time.second (nd_time datetime))) in
             Val (Ok (datetime, p1))) in
        let! parsed := tryset (Parsed.set_year parsed (Date.d_year (nd_date datetime))) in
        let! parsed := tryset (Parsed.set_ordinal parsed (Date.d_ordinal (nd_date datetime))) in
        let* sh := Parsed.set_hour parsed (Time.hour (nd_time datetime)) in
        let! parsed := tryset sh in
        let! parsed := tryset (Parsed.set_minute parsed (Time.minute (nd_time datetime))) in
        let! date := to_naive_date parsed in
        let! time := to_naive_time parsed in
        Val (Ok (mk_ndt date time)))).
    { intros g Hg.
      destruct (is_err_kind rd OutOfRange || is_err_kind rt OutOfRange); [apply total_val|].
      destruct (is_err_kind rd Impossible || is_err_kind rt Impossible); [apply total_val|].
      apply ebind_total; [apply total_val|]. intros ts Hts.
      assert (Hi : in_i64 ts = true).
      { unfold ok_or, checked_add, chko in Hts. destruct (in_i64 (g + off)) eqn:E; inversion Hts; subst. exact E. }
      destruct (dt_from_timestamp_total ts Hi) as (r0 & Hr0 & Hplain).
      apply ebind_total; [unfold ok_or_r, ok_or; rewrite Hr0; apply total_val|].
      intros dtm0 Hdtm0. apply ok_or_r_ok in Hdtm0. rewrite Hr0 in Hdtm0. inversion Hdtm0 as [Hr0']. 
      pose proof (Hplain dtm0 Hr0') as Hp0.
      apply ebind_total.
      { destruct (opt_eqb (p_second p) (Some 60)).
        - cbv zeta. destruct (Time.second (nd_time dtm0) =? 59); [apply total_val|].
          destruct (Time.second (nd_time dtm0) =? 0); [|apply total_val].
          rewrite try_seconds_small by lia. cbn [unwrap bind].
          destruct (sub_one_second_total dtm0 (mk_td 1 0) Hp0 (try_seconds_small 1 ltac:(lia))) as (r1 & Hr1).
          unfold ebind, ok_or_r, ok_or. rewrite Hr1. cbn [bind]. destruct r1; apply total_val.
        - apply ebind_total; [apply tryset_total|]. intros; apply total_val. }
      intros [dtm p1] Hstep.
      assert (T1 : typed p1).
      { destruct (opt_eqb (p_second p) (Some 60)).
        - cbv zeta in Hstep. destruct (Time.second (nd_time dtm0) =? 59); [inversion Hstep; subst; exact T|].
          destruct (Time.second (nd_time dtm0) =? 0); [|discriminate].
          apply bind_val in Hstep. destruct Hstep as (one & _ & Hstep).
          apply ebind_ok in Hstep. destruct Hstep as (dd & _ & Hstep). inversion Hstep; subst. exact T.
        - apply ebind_ok in Hstep. destruct Hstep as (q & Hq & Hstep). inversion Hstep; subst.
          apply tryset_ok in Hq. destruct Hq as (u & Hq). unfold Parsed.set_second in Hq.
          apply set_checked_step in Hq; [tauto|exact T|].
          intros R. rewrite as_u32_small by (unfold u32_max; lia). unfold ftype, u32_max; lia. }
      apply ebind_total; [apply tryset_total|]. intros p2 Hp2.
      apply tryset_ok in Hp2. destruct Hp2 as (u2 & Hp2). unfold Parsed.set_year in Hp2.
      apply set_checked_step in Hp2; [|exact T1|intros R; unfold ftype, in_i32, in_range; lia].
      destruct Hp2 as (T2 & _).
      apply ebind_total; [apply tryset_total|]. intros p3 Hp3.
      apply tryset_ok in Hp3. destruct Hp3 as (u3 & Hp3). unfold Parsed.set_ordinal in Hp3.
      apply set_checked_step in Hp3; [|exact T2|intros R; rewrite as_u32_small by (unfold u32_max; lia); unfold ftype, u32_max; lia].
      destruct Hp3 as (T3 & _).
      apply bind_total; [rewrite set_hour_value; apply total_val|]. intros sh Hsh.
      apply ebind_total; [apply tryset_total|]. intros p4 Hp4.
      apply tryset_ok in Hp4. destruct Hp4 as (u4 & Hp4). subst sh.
      apply set_hour_step in Hsh; [|exact T3]. destruct Hsh as (T4 & _).
      apply ebind_total; [apply tryset_total|]. intros p5 Hp5.
      apply tryset_ok in Hp5. destruct Hp5 as (u5 & Hp5). unfold Parsed.set_minute in Hp5.
      apply set_checked_step in Hp5; [|exact T4|intros R; rewrite as_u32_small by (unfold u32_max; lia); unfold ftype, u32_max; lia].
      destruct Hp5 as (T5 & _).
      destruct (date_total p5 T5) as (rd5 & Hrd5 & _). destruct (time_total p5 T5) as (rt5 & Hrt5 & _).
      apply ebind_total; [rewrite Hrd5; apply total_val|]. intros d5 _.
      apply ebind_total; [rewrite Hrt5; apply total_val|]. intros t5 _. apply total_val. }
    destruct rd as [d|ed], rt as [t|et].
    - (* from date and time fields: the timestamp arithmetic stays in i64 *)
      destruct (dt_timestamp_total d t (Hrepr d eq_refl) (Htr t eq_refl)) as (ts0 & Hts0 & Hb).
      rewrite Hts0. cbn [bind]. unfold sub_i64, chk.
      assert (Ho : -2147483648 <= off <= 2147483647) by (unfold in_i32, in_range, i32_min, i32_max in Hoff; lia).
      replace (in_i64 (ts0 - off)) with true by (unfold in_i64, in_range, i64_min, i64_max; lia). cbn [bind].
      destruct (p_timestamp p) as [g|]; [|apply total_val].
      destruct (negb (g =? ts0 - off)); cbn [bind]; [|apply total_val].
      cbn [nd_time]. destruct (Time.nanosecond t >=? 1000000000); cbn [bind]; [|apply total_val].
      unfold add_i64, chk. replace (in_i64 (ts0 - off + 1)) with true by (unfold in_i64, in_range, i64_min, i64_max; lia).
      cbn [bind]. destruct (negb (g =? ts0 - off + 1)); apply total_val.
    - destruct (p_timestamp p) as [g|] eqn:Eg; [exact (PathB g eq_refl)|apply total_val].
    - destruct (p_timestamp p) as [g|] eqn:Eg; [exact (PathB g eq_refl)|apply total_val].
    - destruct (p_timestamp p) as [g|] eqn:Eg; [exact (PathB g eq_refl)|apply total_val].
  Qed.
End DateTimeTotal.
