(** Decimal digit strings: the printers [low_digits] / [fmt_zero_pad] (Model/Rfc3339.v: core::fmt
    "{:0w$}"), [dec_nonneg] (Base/IO.v) and the reader-side value [digits_value] (Proofs/Scan.v).
    All lemmas hold for every non-negative integer: nothing is swept.  Shared (C09, C13). *)
From Coq Require Import ZArith List Bool Lia ZifyBool.
From V Require Import Base.Int Base.IO Base.Utf8 Model.Scan Model.Rfc3339 Proofs.Utf8 Proofs.Scan.
Import ListNotations.
Open Scope Z_scope.

Lemma digit_char n : is_ascii_digit (48 + n mod 10) = true.
Proof. unfold is_ascii_digit. pose proof (Z.mod_pos_bound n 10 ltac:(lia)). lia. Qed.

Lemma forallb_app {A} (f : A -> bool) a b : forallb f (a ++ b) = forallb f a && forallb f b.
Proof. induction a as [|x a IH]; cbn [app forallb]; [reflexivity|]. rewrite IH. apply andb_assoc. Qed.

Lemma digits_value_app a b acc : digits_value (a ++ b) acc = digits_value b (digits_value a acc).
Proof. revert acc. induction a as [|c a IH]; intros acc; cbn [app digits_value]; [reflexivity|apply IH]. Qed.

Lemma low_digits_length k n : List.length (low_digits k n) = k.
Proof.
  revert n. induction k as [|k IH]; intros n; cbn [low_digits]; [reflexivity|].
  rewrite app_length, IH. cbn. lia.
Qed.
Lemma low_digits_blen k n : blen (low_digits k n) = Z.of_nat k.
Proof. unfold blen. rewrite low_digits_length. reflexivity. Qed.
Lemma low_digits_digits k n : forallb is_ascii_digit (low_digits k n) = true.
Proof.
  revert n. induction k as [|k IH]; intros n; cbn [low_digits]; [reflexivity|].
  rewrite forallb_app, IH. cbn [forallb]. rewrite digit_char. reflexivity.
Qed.
Lemma low_digits_value k : forall n acc, 0 <= n ->
  digits_value (low_digits k n) acc = acc * 10 ^ Z.of_nat k + n mod 10 ^ Z.of_nat k.
Proof.
  induction k as [|k IH]; intros n acc Hn.
  - cbn [low_digits digits_value]. change (10 ^ Z.of_nat 0) with 1. rewrite Z.mod_1_r. lia.
  - cbn [low_digits]. rewrite digits_value_app, IH by (apply Z.div_pos; lia).
    cbn [digits_value].
    replace (Z.of_nat (S k)) with (Z.succ (Z.of_nat k)) by lia.
    rewrite Z.pow_succ_r by lia.
    assert (Hp : 0 < 10 ^ Z.of_nat k) by (apply Z.pow_pos_nonneg; lia).
    rewrite (Z.rem_mul_r n 10 (10 ^ Z.of_nat k)) by lia.
    set (P := 10 ^ Z.of_nat k) in *. set (q := (n / 10) mod P). set (r := n mod 10).
    ring.
Qed.
Lemma low_digits_value0 k n : 0 <= n < 10 ^ Z.of_nat k -> digits_value (low_digits k n) 0 = n.
Proof. intros H. rewrite low_digits_value by lia. rewrite Z.mod_small by lia. lia. Qed.

(* leading zeros *)
Lemma low_digits_zero k : low_digits k 0 = repeat 48 k.
Proof.
  induction k as [|k IH]; [reflexivity|]. cbn [low_digits]. change (0 / 10) with 0. rewrite IH.
  change (48 + 0 mod 10) with 48. clear IH. induction k as [|k IH]; [reflexivity|].
  cbn [repeat app]. rewrite IH. reflexivity.
Qed.
Lemma low_digits_pad j : forall k n, 0 <= n < 10 ^ Z.of_nat j ->
  low_digits (k + j) n = repeat 48 k ++ low_digits j n.
Proof.
  induction j as [|j IH]; intros k n Hn.
  - change (10 ^ Z.of_nat 0) with 1 in Hn. assert (n = 0) by lia. subst n.
    rewrite Nat.add_0_r. cbn [low_digits]. rewrite app_nil_r. apply low_digits_zero.
  - replace (k + S j)%nat with (S (k + j)) by lia. cbn [low_digits].
    rewrite IH. { rewrite app_assoc. reflexivity. }
    replace (Z.of_nat (S j)) with (Z.succ (Z.of_nat j)) in Hn by lia.
    rewrite Z.pow_succ_r in Hn by lia.
    split; [apply Z.div_pos; lia|]. apply Z.div_lt_upper_bound; lia.
Qed.

(** [dec_fuel] with enough fuel prints the minimal digit string *)
Lemma dec_fuel_low : forall fuel n acc, 0 <= n < 10 ^ Z.of_nat fuel -> (1 <= fuel)%nat ->
  exists k, (1 <= k)%nat /\ dec_fuel fuel n acc = low_digits k n ++ acc
            /\ n < 10 ^ Z.of_nat k /\ (k = 1%nat \/ 10 ^ (Z.of_nat k - 1) <= n).
Proof.
  induction fuel as [|f IH]; intros n acc Hn Hf; [lia|].
  cbn [dec_fuel]. destruct (n <? 10) eqn:E.
  - exists 1%nat. split; [lia|]. split; [reflexivity|]. split; [change (10 ^ Z.of_nat 1) with 10; lia|left; reflexivity].
  - replace (Z.of_nat (S f)) with (Z.succ (Z.of_nat f)) in Hn by lia.
    rewrite Z.pow_succ_r in Hn by lia.
    assert (Hf1 : (1 <= f)%nat).
    { destruct f; [|lia]. change (10 ^ Z.of_nat 0) with 1 in Hn. lia. }
    assert (Hq : 0 <= n / 10 < 10 ^ Z.of_nat f).
    { split; [apply Z.div_pos; lia|apply Z.div_lt_upper_bound; lia]. }
    destruct (IH (n / 10) ((48 + n mod 10) :: acc) Hq Hf1) as (k & Hk & He & Hb & Hl).
    exists (S k). split; [lia|]. split.
    { rewrite He. cbn [low_digits]. rewrite <- app_assoc. reflexivity. }
    replace (Z.of_nat (S k)) with (Z.succ (Z.of_nat k)) by lia.
    rewrite Z.pow_succ_r by lia.
    split; [lia|]. right.
    replace (Z.succ (Z.of_nat k) - 1) with (Z.of_nat k) by lia.
    destruct Hl as [->|Hl]; [change (10 ^ Z.of_nat 1) with 10; lia|].
    replace (Z.of_nat k) with (Z.succ (Z.of_nat k - 1)) by lia.
    rewrite Z.pow_succ_r by lia. lia.
Qed.
Lemma dec_nonneg_low n : 0 <= n ->
  exists k, (1 <= k)%nat /\ dec_nonneg n = low_digits k n
            /\ n < 10 ^ Z.of_nat k /\ (k = 1%nat \/ 10 ^ (Z.of_nat k - 1) <= n).
Proof.
  intros Hn. unfold dec_nonneg.
  destruct (dec_fuel_low (S (Z.to_nat (Z.log2 n))) n []) as (k & H1 & H2 & H3 & H4).
  - split; [lia|]. destruct (Z.eq_dec n 0) as [->|Hne]; [reflexivity|].
    pose proof (Z.log2_spec n ltac:(lia)) as [_ Hl]. pose proof (Z.log2_nonneg n).
    replace (Z.of_nat (S (Z.to_nat (Z.log2 n)))) with (Z.succ (Z.log2 n)) by lia.
    apply Z.lt_le_trans with (2 ^ Z.succ (Z.log2 n)); [exact Hl|].
    apply Z.pow_le_mono_l. lia.
  - lia.
  - exists k. rewrite app_nil_r in H2. auto.
Qed.
(* the number of digits is determined by the value *)
Lemma digits_unique j k n : 0 <= n < 10 ^ Z.of_nat j -> (j = 1%nat \/ 10 ^ (Z.of_nat j - 1) <= n) -> (1 <= j)%nat ->
  n < 10 ^ Z.of_nat k -> (k = 1%nat \/ 10 ^ (Z.of_nat k - 1) <= n) -> (1 <= k)%nat -> j = k.
Proof.
  intros Hj Hjl Hj1 Hk Hkl Hk1.
  destruct (Nat.lt_trichotomy j k) as [Hlt|[->|Hgt]]; [|reflexivity|]; exfalso.
  - destruct Hkl as [->|Hkl]; [lia|].
    assert (10 ^ Z.of_nat j <= 10 ^ (Z.of_nat k - 1)) by (apply Z.pow_le_mono_r; lia). lia.
  - destruct Hjl as [->|Hjl]; [lia|].
    assert (10 ^ Z.of_nat k <= 10 ^ (Z.of_nat j - 1)) by (apply Z.pow_le_mono_r; lia). lia.
Qed.

(** [fmt_zero_pad w n]: at least [w] digits, value [n], only digits *)
Lemma fmt_zero_pad_facts w n : 0 <= w -> 0 <= n ->
  forallb is_ascii_digit (fmt_zero_pad w n) = true
  /\ digits_value (fmt_zero_pad w n) 0 = n
  /\ w <= blen (fmt_zero_pad w n)
  /\ (n < 10 ^ w -> blen (fmt_zero_pad w n) = w).
Proof.
  intros Hw Hn. unfold fmt_zero_pad. destruct (n <? 10 ^ w) eqn:E.
  - rewrite low_digits_digits, low_digits_blen, low_digits_value0 by (rewrite Z2Nat.id by lia; lia).
    rewrite Z2Nat.id by lia. repeat split; lia.
  - destruct (dec_nonneg_low n Hn) as (k & Hk & -> & Hb & Hl).
    rewrite low_digits_digits, low_digits_blen, low_digits_value0 by lia.
    repeat split; try lia.
    destruct (Z_lt_le_dec (Z.of_nat k) w) as [Hlt|Hge]; [|lia].
    assert (10 ^ Z.of_nat k <= 10 ^ w) by (apply Z.pow_le_mono_r; lia). lia.
Qed.
Lemma fmt_zero_pad_blen_le w n j : 0 <= w <= j -> 0 <= n < 10 ^ j -> blen (fmt_zero_pad w n) <= j.
Proof.
  intros Hw Hn. unfold fmt_zero_pad. destruct (n <? 10 ^ w) eqn:E.
  - rewrite low_digits_blen. lia.
  - destruct (dec_nonneg_low n ltac:(lia)) as (k & Hk & -> & Hb & Hl). rewrite low_digits_blen.
    assert (Hw0 : 0 < 10 ^ w) by (apply Z.pow_pos_nonneg; lia).
    assert (Hj : j <> 0) by (intros ->; change (10 ^ 0) with 1 in Hn; lia).
    destruct Hl as [-> | Hl]; [lia|].
    destruct (Z_le_gt_dec (Z.of_nat k) j) as [Hle|Hgt]; [exact Hle|exfalso].
    assert (10 ^ j <= 10 ^ (Z.of_nat k - 1)) by (apply Z.pow_le_mono_r; lia). lia.
Qed.
