(** C13 — format_parse_roundtrip at FULL strength for one sub-family in which every numeric item
    is followed by a literal: NaiveTime with the items of %T / %X / "%H:%M:%S"
    ([SF_T_FMT] of Gen/Strftime.v).  For every time of day, including leap seconds,
        NaiveTime::parse_from_str(&t.format("%H:%M:%S").to_string(), "%H:%M:%S") = Ok(trunc t)
    through the formatter (Model/Format.v), the reader (Model/Parse.v) and the field resolution
    (Model/Parsed.v); [trunc] drops the sub-second digits the format does not print and keeps the
    leap-second flag. *)
From Coq Require Import ZArith List Bool Lia ZifyBool.
From V Require Import Base.Int Base.IntLemmas Base.IO Base.Utf8 Model.Scan Model.Items Gen.ParseTable Gen.Strftime
  Proofs.Utf8 Proofs.Scan Model.Parse Proofs.C13 Proofs.C13Reads Proofs.C13Fmt Proofs.C13Digits Spec.StrftimeDoc.
From V Require Model.Parsed Model.Format Model.Time Proofs.C12 Proofs.C14.
Import ListNotations.
Open Scope Z_scope.
Ltac Zify.zify_post_hook ::= Z.to_euclidean_division_equations.

Definition valid_time (t : Model.Time.ntime) : Prop :=
  0 <= Model.Time.tsecs t < 86400 /\
  (0 <= Model.Time.tfrac t < 1000000000 \/
   (Model.Time.tsecs t mod 60 = 59 /\ 1000000000 <= Model.Time.tfrac t < 2000000000)).
(* whole seconds, leap-second flag kept *)
Definition trunc_secs (t : Model.Time.ntime) : Model.Time.ntime :=
  Model.Time.mk_time (Model.Time.tsecs t) (if Model.Time.tfrac t >=? 1000000000 then 1000000000 else 0).

(* the three printed numbers *)
Definition hh (t : Model.Time.ntime) := Model.Time.tsecs t / 3600.
Definition mm (t : Model.Time.ntime) := Model.Time.tsecs t / 60 mod 60.
Definition ss (t : Model.Time.ntime) := Model.Time.tsecs t mod 60 + Model.Time.tfrac t / 1000000000.

Lemma time_parts t : valid_time t ->
  Model.Time.hour t = hh t /\ Model.Time.minute t = mm t /\ Model.Time.second t = Model.Time.tsecs t mod 60 /\
  0 <= hh t <= 23 /\ 0 <= mm t <= 59 /\ 0 <= ss t <= 60.
Proof.
  intros [Hs Hf]. unfold Model.Time.hour, Model.Time.minute, Model.Time.second, Model.Time.hms, Model.Time.udiv, Model.Time.urem, hh, mm, ss.
  repeat split; try lia.
Qed.

(* a two-digit zero-padded field *)
Lemma two_digit_render a spec v :
  Model.Format.format_numeric a spec PadZero = Model.Format.write_two v PadZero -> 0 <= v < 100 ->
  renders a (INumeric spec PadZero) (pad_num DZero 2 false v).
Proof.
  intros Hf Hv. unfold renders. cbn [Model.Format.format_item]. rewrite Hf.
  exact (Proofs.C12.write_two_spec v DZero Hv).
Qed.
Lemma two_digit_reads spec code v rest :
  numeric_entry spec = Some (2, false, code) -> 0 <= v < 100 -> utf8_valid rest = true ->
  reads_b (INumeric spec PadZero) (pad_num DZero 2 false v) rest = Some (W_code code v).
Proof.
  intros He Hv Hr. cbn [reads_b].
  apply (pad_num_unsigned_reads spec 2 false code DZero 2 v rest He); try lia; try assumption.
  - unfold i64_max. lia.
  - right. destruct (dec_nonneg_digits v ltac:(lia)) as (_ & Hl & _ & _ & Hlb).
    assert (blen (dec_nonneg v) <= 2).
    { destruct Hlb as [H1|Hlb]; [lia|].
      destruct (Z_le_gt_dec (blen (dec_nonneg v)) 2) as [H|H]; [exact H|exfalso].
      assert (10 ^ 2 <= 10 ^ (blen (dec_nonneg v) - 1)) by (apply Z.pow_le_mono_r; lia).
      change (10 ^ 2) with 100 in *. lia. }
    lia.
Qed.
Lemma pad2_eq v : 0 <= v < 100 -> pad_num DZero 2 false v = [48 + v / 10; 48 + v mod 10].
Proof.
  intros Hv. destruct (v <? 10) eqn:E.
  - rewrite Proofs.C12.pad2_small by lia. replace (v / 10) with 0 by lia. replace (v mod 10) with v by lia. reflexivity.
  - unfold pad_num. rewrite Z.abs_eq by lia. replace (v <? 0) with false by lia.
    change (digits v) with (dec_nonneg v). rewrite (Proofs.C12.two_digits v Hv), E. reflexivity.
Qed.
Lemma pad2_valid v rest : 0 <= v < 100 -> utf8_valid rest = true -> utf8_valid (pad_num DZero 2 false v ++ rest) = true.
Proof.
  intros Hv Hr. rewrite pad2_eq by exact Hv. cbn [app].
  rewrite !utf8_valid_ascii by lia. exact Hr.
Qed.

Theorem time_hms_roundtrip t : valid_time t ->
  exists text,
    Model.Format.write_items (Model.Format.fa_of_time t) SF_T_FMT [] = Model.Format.fok text /\
    (let+ p := parse Model.Parsed.parsed_new text SF_T_FMT in pr_of (Model.Parsed.to_naive_time p))
    = pok (trunc_secs t).
Proof.
  intros Hvt. destruct (time_parts t Hvt) as (Hh & Hm & Hs & Rh & Rm & Rs).
  destruct Hvt as [Hsec Hfrac].
  set (a := Model.Format.fa_of_time t).
  set (texts := [pad_num DZero 2 false (hh t); [58]; pad_num DZero 2 false (mm t); [58]; pad_num DZero 2 false (ss t)]).
  assert (Hr : Forall2 (renders a) SF_T_FMT texts).
  { unfold SF_T_FMT, texts, num0.
    constructor; [|constructor; [reflexivity|constructor; [|constructor; [reflexivity|constructor; [|constructor]]]]].
    - apply two_digit_render; [|lia]. unfold a, Model.Format.fa_of_time.
      cbn [Model.Format.format_numeric Model.Format.fa_date Model.Format.fa_time].
      rewrite Hh. rewrite Proofs.C12.as_u8_small by lia. reflexivity.
    - apply two_digit_render; [|lia]. unfold a, Model.Format.fa_of_time.
      cbn [Model.Format.format_numeric Model.Format.fa_date Model.Format.fa_time].
      rewrite Hm. rewrite Proofs.C12.as_u8_small by lia. reflexivity.
    - apply two_digit_render; [|lia]. unfold a, Model.Format.fa_of_time.
      cbn [Model.Format.format_numeric Model.Format.fa_date Model.Format.fa_time].
      rewrite Hs. unfold add_u32. rewrite chk_in.
      2:{ unfold in_u32, in_range, u32_max. unfold Model.Time.nanosecond. lia. }
      cbn [bind]. unfold Model.Time.nanosecond.
      replace (Z.quot (Model.Time.tfrac t) 1000000000) with (Model.Time.tfrac t / 1000000000) by lia.
      fold (ss t). rewrite Proofs.C12.as_u8_small by lia. reflexivity. }
  set (ws := [W_code 16 (hh t); W_none; W_code 17 (mm t); W_none; W_code 18 (ss t)]).
  assert (Hu : unambiguous_ws_b (combine SF_T_FMT texts) [] = Some ws).
  { unfold unambiguous_ws_b, SF_T_FMT, texts, num0. cbn [combine absorb unambiguous_b text_of app].
    rewrite !app_nil_r.
    rewrite (two_digit_reads N_Hour 16 (hh t)); [|reflexivity|lia|].
    2:{ change (utf8_valid ([58] ++ pad_num DZero 2 false (mm t) ++ [58] ++ pad_num DZero 2 false (ss t)) = true).
        rewrite utf8_valid_app_ascii by (repeat constructor; lia).
        apply pad2_valid; [lia|]. change (utf8_valid ([58] ++ pad_num DZero 2 false (ss t)) = true).
        rewrite utf8_valid_app_ascii by (repeat constructor; lia).
        rewrite <- (app_nil_r (pad_num DZero 2 false (ss t))). apply pad2_valid; [lia|reflexivity]. }
    assert (Hlit : forall rest, utf8_valid rest = true -> reads_b (Literal [58]) [58] rest = Some W_none).
    { intros rest Hv. cbn [reads_b bytes_eqb]. rewrite (utf8_valid_starts_ok rest Hv). reflexivity. }
    rewrite Hlit.
    2:{ apply pad2_valid; [lia|]. change (utf8_valid ([58] ++ pad_num DZero 2 false (ss t)) = true).
        rewrite utf8_valid_app_ascii by (repeat constructor; lia).
        rewrite <- (app_nil_r (pad_num DZero 2 false (ss t))). apply pad2_valid; [lia|reflexivity]. }
    rewrite (two_digit_reads N_Minute 17 (mm t)); [|reflexivity|lia|].
    2:{ change (utf8_valid ([58] ++ pad_num DZero 2 false (ss t)) = true).
        rewrite utf8_valid_app_ascii by (repeat constructor; lia).
        rewrite <- (app_nil_r (pad_num DZero 2 false (ss t))). apply pad2_valid; [lia|reflexivity]. }
    rewrite Hlit.
    2:{ rewrite <- (app_nil_r (pad_num DZero 2 false (ss t))). apply pad2_valid; [lia|reflexivity]. }
    rewrite (two_digit_reads N_Second 18 (ss t)); [reflexivity|reflexivity|lia|reflexivity]. }
  destruct (format_parse_partial a SF_T_FMT texts ws Model.Parsed.parsed_new Hr Hu) as [Hw Hp].
  exists (List.concat texts). split; [exact Hw|]. rewrite Hp.
  (* the three setters on the empty field record *)
  unfold ws. cbn [run_writes eff_of].
  assert (Hset16 : set_by_code 16 Model.Parsed.parsed_new (hh t) =
                   pok (Model.Parsed.pput Model.Parsed.F_hour_mod_12 (Some (hh t mod 12))
                          (Model.Parsed.pput Model.Parsed.F_hour_div_12 (Some (hh t / 12)) Model.Parsed.parsed_new))).
  { change (set_by_code 16 Model.Parsed.parsed_new (hh t)) with
      (let* r := Model.Parsed.set_hour Model.Parsed.parsed_new (hh t) in setq r).
    rewrite Proofs.C14.set_hour_value. unfold Model.Parsed.contains.
    replace ((0 <=? hh t) && (hh t <=? 23)) with true by lia. reflexivity. }
  rewrite Hset16. cbn [pbind bind pok].
  set (p1 := Model.Parsed.pput Model.Parsed.F_hour_mod_12 (Some (hh t mod 12))
               (Model.Parsed.pput Model.Parsed.F_hour_div_12 (Some (hh t / 12)) Model.Parsed.parsed_new)).
  assert (Hset17 : set_by_code 17 p1 (mm t) = pok (Model.Parsed.pput Model.Parsed.F_minute (Some (mm t)) p1)).
  { change (set_by_code 17 p1 (mm t)) with (setq (Model.Parsed.set_minute p1 (mm t))).
    unfold Model.Parsed.set_minute, Model.Parsed.set_checked, Model.Parsed.contains.
    replace ((0 <=? mm t) && (mm t <=? 59)) with true by lia. cbn [negb].
    rewrite Proofs.C14.as_u32_small by (unfold u32_max; lia). reflexivity. }
  rewrite Hset17. cbn [pbind bind pok].
  set (p2 := Model.Parsed.pput Model.Parsed.F_minute (Some (mm t)) p1).
  assert (Hset18 : set_by_code 18 p2 (ss t) = pok (Model.Parsed.pput Model.Parsed.F_second (Some (ss t)) p2)).
  { change (set_by_code 18 p2 (ss t)) with (setq (Model.Parsed.set_second p2 (ss t))).
    unfold Model.Parsed.set_second, Model.Parsed.set_checked, Model.Parsed.contains.
    replace ((0 <=? ss t) && (ss t <=? 60)) with true by lia. cbn [negb].
    rewrite Proofs.C14.as_u32_small by (unfold u32_max; lia). reflexivity. }
  rewrite Hset18. cbn [pbind bind pok].
  set (p3 := Model.Parsed.pput Model.Parsed.F_second (Some (ss t)) p2).
  (* resolution *)
  assert (Hok : Proofs.C14.time_fields_ok p3 (hh t / 12) (hh t mod 12) (mm t)).
  { unfold Proofs.C14.time_fields_ok, p3, p2, p1. cbn. repeat split; try lia. intros H; contradiction. }
  unfold pr_of. rewrite (Proofs.C14.to_naive_time_complete p3 _ _ _ Hok). cbn [bind pres_of pok].
  f_equal. f_equal. unfold Proofs.C14.time_of_fields, trunc_secs, p3, p2, p1. cbn [Model.Parsed.p_second Model.Parsed.p_nanosecond Model.Parsed.pput Model.Parsed.parsed_new Model.Parsed.unwrap_or].
  unfold hh, mm, ss in *.
  destruct Hfrac as [Hf|[H59 Hf]].
  - assert (Hq : Model.Time.tfrac t / 1000000000 = 0) by (clear - Hf; lia).
    assert (Hge : (Model.Time.tfrac t >=? 1000000000) = false) by (rewrite Z.geb_leb; apply Z.leb_gt; clear - Hf; lia).
    rewrite Hq, Hge.
    assert (He : (Model.Time.tsecs t mod 60 + 0 =? 60) = false) by (clear - Hsec; lia).
    rewrite He. unfold pok. f_equal. f_equal. f_equal; clear - Hsec; lia.
  - assert (Hq : Model.Time.tfrac t / 1000000000 = 1) by (clear - Hf; lia).
    assert (Hge : (Model.Time.tfrac t >=? 1000000000) = true) by (rewrite Z.geb_leb; apply Z.leb_le; clear - Hf; lia).
    rewrite Hq, Hge.
    assert (He : (Model.Time.tsecs t mod 60 + 1 =? 60) = true) by (clear - H59; lia).
    rewrite He. unfold pok. f_equal. f_equal. f_equal; clear - Hsec H59; lia.
Qed.

Example time_hms_roundtrip_inhabited :
  valid_time (Model.Time.mk_time 86399 1999999999) /\ valid_time (Model.Time.mk_time 2094 26490000).
Proof. split; (split; [cbn; lia|]); [right|left]; cbn; lia. Qed.

(** * From item lists to format strings: the lazily driven [StrftimeItems] loops of the entry points
    coincide with the loops over the item list the iterator yields *)
Inductive yields : Model.Strftime.sfi -> list Item -> Prop :=
| y_nil st st' : Model.Strftime.sf_next st = Val (None, st') -> yields st []
| y_cons st it st' r : Model.Strftime.sf_next st = Val (Some it, st') -> yields st' r -> yields st (it :: r).

Lemma sf_take_yields : forall fuel st acc items,
  Model.Strftime.sf_take fuel st acc = Val (Some items) -> exists l, items = rev acc ++ l /\ yields st l.
Proof.
  induction fuel as [|f IH]; intros st acc items H; cbn [Model.Strftime.sf_take] in H; [discriminate|].
  destruct (Model.Strftime.sf_next st) as [[o st']| |] eqn:En; cbn [bind] in H; try discriminate.
  destruct o as [it|].
  - destruct (IH st' (it :: acc) items H) as (l & -> & Hy). exists (it :: l). split.
    + cbn [rev]. rewrite <- app_assoc. reflexivity.
    + exact (y_cons st it st' l En Hy).
  - injection H as <-. exists []. split; [rewrite app_nil_r; reflexivity|exact (y_nil st st' En)].
Qed.

Lemma parse_sf_loop_items : forall items fuel p s st, yields st items -> (List.length items < fuel)%nat ->
  parse_sf_loop fuel p s st = parse_items parse_rfc3339_relaxed p s items.
Proof.
  induction items as [|it r IH]; intros fuel p s st Hy Hf.
  - inversion Hy as [? st' Hn|]; subst.
    destruct fuel as [|f]; [cbn in Hf; lia|]. cbn [parse_sf_loop parse_items]. rewrite Hn. reflexivity.
  - inversion Hy as [|? ? st' ? Hn Hr]; subst.
    destruct fuel as [|f]; [cbn in Hf; lia|]. cbn [parse_sf_loop parse_items]. rewrite Hn. cbn [bind].
    destruct (parse_item parse_rfc3339_relaxed p s it) as [[[p' s']|e]| |]; cbn [pbind bind]; try reflexivity.
    apply IH; [exact Hr|cbn in Hf; lia].
Qed.
Lemma write_to_items : forall items fuel a st acc, yields st items -> (List.length items < fuel)%nat ->
  Model.Format.write_to fuel a st acc = Model.Format.write_items a items acc.
Proof.
  induction items as [|it r IH]; intros fuel a st acc Hy Hf.
  - inversion Hy as [? st' Hn|]; subst.
    destruct fuel as [|f]; [cbn in Hf; lia|]. cbn [Model.Format.write_to Model.Format.write_items]. rewrite Hn. reflexivity.
  - inversion Hy as [|? ? st' ? Hn Hr]; subst.
    destruct fuel as [|f]; [cbn in Hf; lia|]. cbn [Model.Format.write_to Model.Format.write_items]. rewrite Hn. cbn [bind].
    unfold Model.Format.fseq. destruct (Model.Format.format_item a it) as [[t|]| |]; cbn [bind]; try reflexivity.
    apply IH; [exact Hr|cbn in Hf; lia].
Qed.

(** NaiveTime::parse_from_str(&t.format(f).to_string(), f) = Ok(trunc t) for f = "%H:%M:%S", "%T", "%X" *)
Definition hms_formats : list bytes := [[37; 72; 58; 37; 77; 58; 37; 83]; [37; 84]; [37; 88]].
Theorem time_hms_parse_from_str t fmt : valid_time t -> In fmt hms_formats ->
  exists text,
    Model.Format.delayed_display (Model.Format.fa_of_time t) (Model.Strftime.sf_new fmt) = Model.Format.fok text /\
    time_parse_from_str text fmt = pok (trunc_secs t).
Proof.
  intros Hv Hin. destruct (time_hms_roundtrip t Hv) as (text & Hw & Hp).
  assert (Hy : yields (Model.Strftime.sf_new fmt) SF_T_FMT /\ (List.length SF_T_FMT < S (Model.Strftime.sf_bound fmt))%nat).
  { cbn in Hin. destruct Hin as [<-|[<-|[<-|[]]]];
      (split; [|cbn; lia]);
      (match goal with |- yields (Model.Strftime.sf_new ?f) _ =>
         destruct (sf_take_yields (S (Model.Strftime.sf_bound f)) (Model.Strftime.sf_new f) [] SF_T_FMT) as (l & Hl & Hyl);
         [vm_compute; reflexivity|cbn [rev app] in Hl; subst l; exact Hyl] end). }
  destruct Hy as [Hy Hlen].
  exists text. split.
  - unfold Model.Format.delayed_display. cbn [Model.Strftime.sf_remainder Model.Strftime.sf_queue Model.Strftime.sf_new List.length].
    rewrite Nat.add_0_r. rewrite (write_to_items SF_T_FMT _ _ _ [] Hy Hlen). exact Hw.
  - unfold time_parse_from_str, parse_sf, parse_internal_sf.
    rewrite (parse_sf_loop_items SF_T_FMT _ _ _ _ Hy Hlen). exact Hp.
Qed.
