(** C14: the four ISO-week facts that Proofs/C14.v / Proofs/C14Date.v carried as premises
    ([Fact_from_isoywd], [Fact_iso_week_total], [Fact_isoywd_total], [Fact_isoywd_roundtrip]),
    proved from the shared ISO-week lemmas (Proofs/DateIso.v, Proofs/Gregorian.v), and the
    resulting premise-free soundness / completeness / absence-of-traps theorems. *)
From Coq Require Import ZArith List Bool Lia ZifyBool.
From V Require Import Base.Int Base.IntLemmas Base.IO Spec.Gregorian Model.TimeDelta.
From V Require Model.Date Model.Time.
From V Require Import Model.DateTime Model.Parsed.
From V Require Import Proofs.C08Sweeps Proofs.C08Date Proofs.C08 Proofs.Date Proofs.DateIso Proofs.C14 Proofs.C14Date.
Import ListNotations.
Open Scope Z_scope.
Ltac Zify.zify_post_hook ::= Z.to_euclidean_division_equations.

(** the ISO year of a supported date is the calendar year or a neighbour: an [i32] *)
Lemma iso_year_i32 y o : year_in_range y = true -> valid_yo y o = true ->
  in_i32 (fst (iso_of_dn (dn_of_yo y o))) = true.
Proof.
  intros Hy Ho. pose proof (year_range_bounds y Hy) as B. rewrite iso_of_dn_yo by assumption. cbv zeta.
  destruct ((o + iso_delta y) / 7 <? 1); [cbn [fst]; solve_in|].
  destruct (iso_weeks_in_year y <? (o + iso_delta y) / 7); cbn [fst]; solve_in.
Qed.

(** [iso_week] of a supported date never traps; its year is an [i32] *)
Theorem fact_iso_week_total : Fact_iso_week_total.
Proof.
  intros y o d H. destruct (d_iso_week_spec y o d H) as (E & Ey & _). cbv zeta in E, Ey.
  eexists. split; [exact E|]. rewrite Ey. destruct H as (Hy & Ho & _). apply iso_year_i32; assumption.
Qed.

(** [from_isoywd_opt] never traps, for every [i32] year, [u32] week and weekday; a returned date
    is a supported date *)
Theorem fact_isoywd_total : Fact_isoywd_total.
Proof.
  intros y w wd Hy Hw Hwd. rewrite from_isoywd_opt_spec by (try assumption; apply in_u32_of; assumption).
  eexists. split; [reflexivity|]. intros d E. unfold date_if in E.
  destruct (valid_isoywd y w wd && dn_in_range (dn_of_isoywd y w wd)) eqn:C; [|discriminate].
  inversion E; subst d. apply andb_prop in C. destruct C as [_ C].
  eexists; eexists. apply date_of_dn_repr. exact C.
Qed.

(** ISO year, ISO week and weekday of a supported date lead back to that date *)
Theorem fact_isoywd_roundtrip : Fact_isoywd_roundtrip.
Proof.
  intros y o d iw H Hiw. destruct (d_iso_week_spec y o d H) as (E & Ey & Ew). cbv zeta in E, Ey, Ew.
  rewrite E in Hiw. apply Val_inj in Hiw. subst iw. rewrite Ey, Ew.
  pose proof (iso_year_i32 y o (proj1 H) (proj1 (proj2 H))) as Hi.
  pose proof (iso_of_dn_bounds (dn_of_yo y o)) as Hb. pose proof (weekday_bounds (dn_of_yo y o)) as Hw.
  destruct (isoywd_of_dn (dn_of_yo y o)) as [Hv Hn].
  rewrite from_isoywd_opt_spec by (try assumption; apply in_u32_of; unfold u32_max; lia).
  rewrite Hv, Hn, (repr_dn_in_range _ _ _ H), (date_of_dn_of_repr _ _ _ H). reflexivity.
Qed.

(** a date returned by [from_isoywd_opt] has exactly that ISO year, ISO week and weekday *)
Theorem fact_from_isoywd : Fact_from_isoywd.
Proof.
  intros y w wd dt Hy Hw Hwd H.
  rewrite from_isoywd_opt_spec in H by (try assumption; apply in_u32_of; assumption).
  unfold date_if in H.
  destruct (valid_isoywd y w wd && dn_in_range (dn_of_isoywd y w wd)) eqn:C; [|discriminate].
  inversion H; subst dt. clear H. apply andb_prop in C. destruct C as [Cv Cr].
  pose proof (date_of_dn_repr _ Cr) as R. destruct (yo_of_dn_valid (dn_of_isoywd y w wd)) as [_ Hd].
  destruct (d_iso_week_spec _ _ _ R) as (E & Ey & Ew). cbv zeta in E, Ey, Ew.
  pose proof (d_weekday_spec _ _ _ R) as Ewd.
  rewrite Hd in E, Ey, Ew, Ewd.
  destruct (iso_of_isoywd y w wd Cv) as [I Wd]. rewrite I in E, Ey, Ew. cbn [fst snd] in E, Ey, Ew.
  eexists. split; [exact E|]. split; [exact Ey|]. split; [exact Ew|]. rewrite Ewd, Wd. reflexivity.
Qed.

(** * The premise-free theorems *)
Theorem to_naive_date_sound p d :
  date_fields_typed p -> to_naive_date p = Val (Ok d) -> date_sound p d.
Proof. exact (to_naive_date_sound_modulo_isoywd fact_from_isoywd p d). Qed.
Theorem to_naive_datetime_sound p off v : typed p -> in_i32 off = true ->
  to_naive_datetime_with_offset p off = Val (Ok v) ->
  date_sound p (nd_date v) /\ time_sound p (nd_time v) /\ ts_sound p v off.
Proof. exact (to_naive_datetime_sound_modulo_isoywd fact_from_isoywd p off v). Qed.
Theorem to_datetime_sound p z : typed p -> to_datetime p = Val (Ok z) ->
  zoned_sound p z /\ (p_offset p = None -> dz_off z = 0 /\ p_timestamp p <> None).
Proof. exact (to_datetime_sound_modulo_isoywd fact_from_isoywd p z). Qed.
Theorem to_datetime_with_timezone_sound p tz z : typed p -> -86400 < tz < 86400 ->
  to_datetime_with_timezone p tz = Val (Ok z) -> zoned_sound p z /\ dz_off z = tz.
Proof. exact (to_datetime_with_timezone_sound_modulo_isoywd fact_from_isoywd p tz z). Qed.

Theorem to_naive_date_complete y o d iw p :
  repr y o d -> Date.d_iso_week d = Val iw -> typed p -> date_sound p d ->
  group_ok y (p_year p) (p_year_div_100 p) (p_year_mod_100 p) ->
  group_ok (Date.iw_year iw) (p_isoyear p) (p_isoyear_div_100 p) (p_isoyear_mod_100 p) ->
  combination_present y (Date.iw_year iw) p ->
  to_naive_date p = Val (Ok d).
Proof.
  exact (to_naive_date_complete_modulo_iso fact_iso_week_total fact_isoywd_total fact_isoywd_roundtrip y o d iw p).
Qed.
Theorem to_naive_date_never_panics p : typed p ->
  exists r, to_naive_date p = Val r /\ forall d, r = Ok d -> is_repr d.
Proof.
  exact (to_naive_date_total_modulo_iso fact_iso_week_total fact_isoywd_total fact_isoywd_roundtrip p).
Qed.
Theorem to_naive_datetime_never_panics p off : typed p -> in_i32 off = true ->
  exists r, to_naive_datetime_with_offset p off = Val r.
Proof.
  exact (to_naive_datetime_total_modulo_iso fact_iso_week_total fact_isoywd_total fact_isoywd_roundtrip p off).
Qed.

(** the ISO-week date of the completeness theorem is determined by the date: a corollary that does
    not mention the packed week word *)
Corollary to_naive_date_complete_iso y o d p :
  repr y o d -> typed p -> date_sound p d ->
  group_ok y (p_year p) (p_year_div_100 p) (p_year_mod_100 p) ->
  group_ok (fst (iso_of_dn (dn_of_yo y o))) (p_isoyear p) (p_isoyear_div_100 p) (p_isoyear_mod_100 p) ->
  combination_present y (fst (iso_of_dn (dn_of_yo y o))) p ->
  to_naive_date p = Val (Ok d).
Proof.
  intros H T DS Gy Gi Comb. destruct (d_iso_week_spec y o d H) as (E & Ey & _). cbv zeta in E, Ey.
  apply (to_naive_date_complete y o d _ p H E T DS Gy); rewrite Ey; assumption.
Qed.
