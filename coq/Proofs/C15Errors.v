(** C15 -- Display / Debug of the error types and the two small Debug impls with arguments (ops c15.errtext,
    c15.isoweek.dbg, c15.wdset.dbg of Model/C15.v): there is a text for every value of every error type (ParseError:
    all seven kinds; OutOfRange, ParseMonthError, ParseWeekdayError: Display and Debug; RoundingError: all three
    variants; OutOfRangeError), it is a non-empty well-formed string (the literal of the impl, Gen/ErrText.v);
    Debug of IsoWeek returns for the ISO week of every date; Debug of WeekdaySet is a plain function of the seven
    bits.  to_string() / format!("{:?}") of these values therefore cannot panic on a writer error. *)
From Coq Require Import ZArith List Bool Lia ZifyBool String.
From V Require Import Base.Int Base.IO.
From V Require Base.Utf8 Model.Date Model.Format Model.C15 Gen.ErrText Proofs.C14Date Proofs.C08Sweeps.
From V Require Import Proofs.C15 Proofs.C15Owners.
Import ListNotations.
Open Scope Z_scope.

(** the values of the error types, as (which, variant) selectors of [Model.C15.err_text] *)
Definition err_dom (which variant : Z) : bool :=
  ((which =? 0) && (0 <=? variant) && (variant <=? 6)) ||
  ((which =? 7) && (0 <=? variant) && (variant <=? 2)) ||
  (((1 <=? which) && (which <=? 6) || (which =? 8)) && (variant =? 0)).
Definition text_ok (o : option bytes) : bool :=
  match o with Some t => Base.Utf8.utf8_valid t && negb (Base.Utf8.is_empty t) | None => false end.
Lemma error_texts_total which variant : err_dom which variant = true ->
  exists t, Model.C15.err_text which variant = Some t /\ Base.Utf8.utf8_valid t = true /\ t <> [].
Proof.
  intros H.
  assert (E : text_ok (Model.C15.err_text which variant) = true).
  { unfold err_dom in H.
    assert (C : (which = 0 /\ (variant = 0 \/ variant = 1 \/ variant = 2 \/ variant = 3 \/ variant = 4 \/ variant = 5 \/ variant = 6)) \/
                (which = 7 /\ (variant = 0 \/ variant = 1 \/ variant = 2)) \/
                ((which = 1 \/ which = 2 \/ which = 3 \/ which = 4 \/ which = 5 \/ which = 6 \/ which = 8) /\ variant = 0)) by lia.
    clear H. repeat match goal with H : _ \/ _ |- _ => destruct H | H : _ /\ _ |- _ => destruct H end; subst; vm_compute; reflexivity. }
  unfold text_ok in E. destruct (Model.C15.err_text which variant) as [t|]; [|discriminate].
  apply andb_prop in E. destruct E as [E1 E2]. exists t. split; [reflexivity|]. split; [exact E1|].
  intros ->. discriminate.
Qed.
(* outside that domain there is no such value: the selector is refused *)
Lemma error_texts_domain which variant : err_dom which variant = false -> Model.C15.err_text which variant = None.
Proof.
  intros H. unfold err_dom in H. unfold Model.C15.err_text.
  destruct (which =? 0) eqn:E0.
  { destruct (variant <? 0) eqn:Ev; [reflexivity|]. assert (7 <= variant) by lia.
    assert (L : (List.length Gen.ErrText.ET_PARSE_ERROR <= Z.to_nat variant)%nat) by (vm_compute List.length; lia).
    apply nth_error_None. exact L. }
  Ltac one_value := match goal with |- (if ?v =? 0 then _ else _) = None => destruct (v =? 0) eqn:?; [lia|reflexivity] end.
  destruct (which =? 1) eqn:E1; [one_value|]. destruct (which =? 2) eqn:E2; [one_value|].
  destruct (which =? 3) eqn:E3; [one_value|]. destruct (which =? 4) eqn:E4; [one_value|].
  destruct (which =? 5) eqn:E5; [one_value|]. destruct (which =? 6) eqn:E6; [one_value|].
  destruct (which =? 7) eqn:E7.
  { destruct (variant <? 0) eqn:Ev; [reflexivity|]. assert (3 <= variant) by lia.
    apply nth_error_None. vm_compute List.length. lia. }
  destruct (which =? 8) eqn:E8; [one_value|]. reflexivity.
Qed.

(** Debug of IsoWeek: for the ISO week of every valid date *)
Lemma isoweek_debug_total d : date_valid d -> returns (Model.C15.isoweek_debug d).
Proof.
  intros (y & o & H). destruct (fact_iso_week_total y o d H) as (iw & E & _).
  unfold Model.C15.isoweek_debug. rewrite E. cbn [bind].
  destruct ((Gen.ErrText.ET_ISOWEEK_LO <=? Model.Date.iw_year iw) && (Model.Date.iw_year iw <=? Gen.ErrText.ET_ISOWEEK_HI)); split; discriminate.
Qed.
(** Debug of WeekdaySet: the prefix, exactly seven binary digits, the suffix *)
Lemma bin_digits_len n v : List.length (Model.C15.bin_digits n v) = n.
Proof. induction n as [|n IH]; cbn [Model.C15.bin_digits List.length]; [reflexivity|]. rewrite IH. reflexivity. Qed.
Lemma bin_digits_ascii n v : Forall (fun c => c = 48 \/ c = 49) (Model.C15.bin_digits n v).
Proof.
  induction n as [|n IH]; cbn [Model.C15.bin_digits]; constructor; [|exact IH].
  pose proof (Z.land_nonneg (Z.shiftr v (Z.of_nat n)) 1) as H0.
  assert (H1 : Z.land (Z.shiftr v (Z.of_nat n)) 1 = Z.shiftr v (Z.of_nat n) mod 2) by (change 1 with (Z.ones 1); rewrite Z.land_ones by lia; reflexivity).
  rewrite H1. lia.
Qed.
Lemma wdset_debug_total bits :
  exists ds, Model.C15.wdset_debug bits = Gen.ErrText.ET_WDSET_PRE ++ ds ++ Gen.ErrText.ET_WDSET_POST /\
             List.length ds = 7%nat /\ Forall (fun c => c = 48 \/ c = 49) ds.
Proof.
  eexists. split; [reflexivity|]. split; [apply bin_digits_len|apply bin_digits_ascii].
Qed.

Lemma errors_hypotheses_inhabited :
  err_dom 0 6 = true /\ err_dom 8 1 = false /\ date_valid Model.Date.D_MAX /\
  Model.C15.wdset_debug 5 = B"WeekdaySet(0000101)".
Proof.
  split; [reflexivity|]. split; [reflexivity|]. split; [exact (proj1 hypotheses_inhabited)|]. vm_compute. reflexivity.
Qed.
