(** C13 — format_parse_roundtrip at FULL strength for the date-only family "%Y-%m-%d" / %F:
    for EVERY NaiveDate d (all years -262143..=262142, the sign the formatter prints for years
    outside 0..=9999 included)
        NaiveDate::parse_from_str(&d.format("%Y-%m-%d").to_string(), "%Y-%m-%d") = Ok(d)
    through the formatter (Model/Format.v), the reader (Model/Parse.v) and the field resolution
    (Model/Parsed.v).  The last step is C14's completeness theorem of to_naive_date (premise-free
    since the ISO-week facts are proved, Proofs/C14Iso.v); the calendar reading of the date is the
    shared library's (Proofs/C08.v [repr_md]). *)
From Coq Require Import ZArith List Bool Lia ZifyBool.
From V Require Import Base.Int Base.IntLemmas Base.IO Base.Utf8 Model.Scan Model.Items Gen.ParseTable Gen.Strftime
  Proofs.Utf8 Proofs.Scan Model.Parse Proofs.C13 Proofs.C13Reads Proofs.C13Fmt Proofs.C13Digits Proofs.C13Time
  Spec.StrftimeDoc.
From V Require Model.Parsed Model.Format Model.Date Proofs.C12 Proofs.C14 Proofs.C14Date Proofs.C14Iso
  Proofs.C08Sweeps Proofs.C08.
Import ListNotations.
Open Scope Z_scope.
Ltac Zify.zify_post_hook ::= Z.to_euclidean_division_equations.

(** the items of "%Y-%m-%d" (and of %F) *)
Definition YMD_FMT : list Item := [num0 N_Year; Literal [45]; num0 N_Month; Literal [45]; num0 N_Day].

(** the year as the formatter prints it (4 digits; explicit sign outside 0..=9999) is read back *)
Lemma year_reads y rest : in_i32 y = true -> not_digit_start rest = true -> utf8_valid rest = true ->
  reads_b (INumeric N_Year PadZero) (pad_num DZero 4 ((y <? 0) || (9999 <? y)) y) rest = Some (W_code 0 y).
Proof.
  intros Hy Hnd Hv. cbn [reads_b]. unfold in_i32, in_range, i32_min, i32_max in Hy.
  destruct ((y <? 0) || (9999 <? y)) eqn:E.
  - apply (pad_num_signed_reads N_Year 4 0 DZero 4 y rest); try assumption; [reflexivity|lia|unfold i64_max; lia].
  - apply (pad_num_unsigned_reads N_Year 4 true 0 DZero 4 y rest); try assumption; try lia.
    + reflexivity.
    + unfold i64_max. lia.
    + left. exact Hnd.
Qed.

Ltac pcbn := cbn [Model.Parsed.pput Model.Parsed.parsed_new
  Model.Parsed.p_year Model.Parsed.p_year_div_100 Model.Parsed.p_year_mod_100
  Model.Parsed.p_isoyear Model.Parsed.p_isoyear_div_100 Model.Parsed.p_isoyear_mod_100
  Model.Parsed.p_quarter Model.Parsed.p_month Model.Parsed.p_week_from_sun Model.Parsed.p_week_from_mon
  Model.Parsed.p_isoweek Model.Parsed.p_weekday Model.Parsed.p_ordinal Model.Parsed.p_day
  Model.Parsed.p_hour_div_12 Model.Parsed.p_hour_mod_12 Model.Parsed.p_minute Model.Parsed.p_second
  Model.Parsed.p_nanosecond Model.Parsed.p_timestamp Model.Parsed.p_offset].

Theorem date_ymd_roundtrip y o d : Proofs.C08Sweeps.repr y o d ->
  exists text,
    Model.Format.write_items (Model.Format.fa_of_date d) YMD_FMT [] = Model.Format.fok text /\
    (let+ p := parse Model.Parsed.parsed_new text YMD_FMT in pr_of (Model.Parsed.to_naive_date p)) = pok d.
Proof.
  intros H. destruct (Proofs.C08.repr_md y o d H) as (Ey & Eo & Em & Ed & _ & _ & Hmb & Hdb & _).
  destruct (Proofs.C14Date.repr_year_i32 y o d H) as [Hyi Hyb].
  set (m := Proofs.C08.month_of y o) in *. set (dd := Proofs.C08.day_of y o) in *.
  assert (Hdd : 1 <= dd <= 31).
  { pose proof (Proofs.C08Date.days_in_month_bounds (Spec.Gregorian.is_leap y) m). lia. }
  set (a := Model.Format.fa_of_date d).
  set (sg := (y <? 0) || (9999 <? y)).
  set (texts := [pad_num DZero 4 sg y; [45]; pad_num DZero 2 false m; [45]; pad_num DZero 2 false dd]).
  assert (Hr : Forall2 (renders a) YMD_FMT texts).
  { unfold YMD_FMT, texts, num0.
    constructor; [|constructor; [reflexivity|constructor; [|constructor; [reflexivity|constructor; [|constructor]]]]].
    - unfold renders. cbn [Model.Format.format_item]. unfold a, Model.Format.fa_of_date.
      cbn [Model.Format.format_numeric Model.Format.fa_date Model.Format.fa_time]. rewrite Ey.
      exact (Proofs.C12.write_year_spec y DZero Hyi).
    - apply two_digit_render; [|lia]. unfold a, Model.Format.fa_of_date.
      cbn [Model.Format.format_numeric Model.Format.fa_date Model.Format.fa_time].
      rewrite Em. cbn [bind]. rewrite Proofs.C12.as_u8_small by lia. reflexivity.
    - apply two_digit_render; [|lia]. unfold a, Model.Format.fa_of_date.
      cbn [Model.Format.format_numeric Model.Format.fa_date Model.Format.fa_time].
      rewrite Ed. cbn [bind]. rewrite Proofs.C12.as_u8_small by lia. reflexivity. }
  set (ws := [W_code 0 y; W_none; W_code 7 m; W_none; W_code 13 dd]).
  assert (V3 : utf8_valid (pad_num DZero 2 false dd) = true).
  { rewrite <- (app_nil_r (pad_num DZero 2 false dd)). apply pad2_valid; [lia|reflexivity]. }
  assert (V2 : utf8_valid ([45] ++ pad_num DZero 2 false dd) = true).
  { rewrite utf8_valid_app_ascii by (repeat constructor; lia). exact V3. }
  assert (V1 : utf8_valid (pad_num DZero 2 false m ++ [45] ++ pad_num DZero 2 false dd) = true).
  { apply pad2_valid; [lia|exact V2]. }
  assert (V0 : utf8_valid ([45] ++ pad_num DZero 2 false m ++ [45] ++ pad_num DZero 2 false dd) = true).
  { rewrite utf8_valid_app_ascii by (repeat constructor; lia). exact V1. }
  assert (Hu : unambiguous_ws_b (combine YMD_FMT texts) [] = Some ws).
  { unfold unambiguous_ws_b, YMD_FMT, texts, num0. cbn [combine absorb unambiguous_b text_of app].
    rewrite !app_nil_r. fold sg.
    rewrite (year_reads y _ Hyi); [|reflexivity|exact V0].
    assert (Hlit : forall rest, utf8_valid rest = true -> reads_b (Literal [45]) [45] rest = Some W_none).
    { intros rest Hv. cbn [reads_b bytes_eqb]. rewrite (utf8_valid_starts_ok rest Hv). reflexivity. }
    rewrite Hlit by exact V1.
    rewrite (two_digit_reads N_Month 7 m); [|reflexivity|lia|exact V2].
    rewrite Hlit by exact V3.
    rewrite (two_digit_reads N_Day 13 dd); [reflexivity|reflexivity|lia|reflexivity]. }
  destruct (format_parse_partial a YMD_FMT texts ws Model.Parsed.parsed_new Hr Hu) as [Hw Hp].
  exists (List.concat texts). split; [exact Hw|]. rewrite Hp.
  (* the three setters on the empty field record *)
  unfold ws. cbn [run_writes eff_of].
  assert (Hset0 : set_by_code 0 Model.Parsed.parsed_new y =
                  pok (Model.Parsed.pput Model.Parsed.F_year (Some y) Model.Parsed.parsed_new)).
  { change (set_by_code 0 Model.Parsed.parsed_new y) with (setq (Model.Parsed.set_year Model.Parsed.parsed_new y)).
    unfold Model.Parsed.set_year, Model.Parsed.set_checked, Model.Parsed.contains.
    unfold in_i32, in_range in Hyi. rewrite Hyi. cbn [negb]. reflexivity. }
  rewrite Hset0. cbn [pbind bind pok].
  set (p1 := Model.Parsed.pput Model.Parsed.F_year (Some y) Model.Parsed.parsed_new).
  assert (Hset7 : set_by_code 7 p1 m = pok (Model.Parsed.pput Model.Parsed.F_month (Some m) p1)).
  { change (set_by_code 7 p1 m) with (setq (Model.Parsed.set_month p1 m)).
    unfold Model.Parsed.set_month, Model.Parsed.set_checked, Model.Parsed.contains.
    replace ((1 <=? m) && (m <=? 12)) with true by lia. cbn [negb].
    rewrite Proofs.C14.as_u32_small by (unfold u32_max; lia). reflexivity. }
  rewrite Hset7. cbn [pbind bind pok].
  set (p2 := Model.Parsed.pput Model.Parsed.F_month (Some m) p1).
  assert (Hset13 : set_by_code 13 p2 dd = pok (Model.Parsed.pput Model.Parsed.F_day (Some dd) p2)).
  { change (set_by_code 13 p2 dd) with (setq (Model.Parsed.set_day p2 dd)).
    unfold Model.Parsed.set_day, Model.Parsed.set_checked, Model.Parsed.contains.
    replace ((1 <=? dd) && (dd <=? 31)) with true by lia. cbn [negb].
    rewrite Proofs.C14.as_u32_small by (unfold u32_max; lia). reflexivity. }
  rewrite Hset13. cbn [pbind bind pok].
  set (p3 := Model.Parsed.pput Model.Parsed.F_day (Some dd) p2).
  (* resolution: C14's completeness theorem *)
  assert (Hres : Model.Parsed.to_naive_date p3 = Val (Model.Parsed.Ok d)).
  { apply (Proofs.C14Iso.to_naive_date_complete_iso y o d p3 H).
    - unfold p3, p2, p1.
      apply Proofs.C14.typed_pput; [apply Proofs.C14.typed_pput; [apply Proofs.C14.typed_pput; [apply Proofs.C14.typed_new|]|]|];
        cbn [Proofs.C14.ftype]; [exact Hyi|unfold u32_max; lia|unfold u32_max; lia].
    - destruct (Proofs.C14Iso.fact_iso_week_total y o d H) as (iw & Hiw & _).
      unfold Proofs.C14.date_sound, Proofs.C14.iso_sound, Proofs.C14.year_parts_sound, p3, p2, p1. pcbn.
      split; [split; [intros v Hv; injection Hv as <-; exact Ey|split; intros v Hv; discriminate Hv]|].
      split; [exists iw; split; [exact Hiw|]; split; [split; [|split]; intros v Hv; discriminate Hv|intros v Hv; discriminate Hv]|].
      split; [intros v Hv; discriminate Hv|].
      split; [intros v Hv; injection Hv as <-; exact Em|].
      split; [intros v Hv; discriminate Hv|]. split; [intros v Hv; discriminate Hv|].
      split; [intros v Hv; discriminate Hv|]. split; [intros v Hv; discriminate Hv|].
      intros v Hv. injection Hv as <-. exact Ed.
    - unfold p3, p2, p1. pcbn. right. left. discriminate.
    - unfold p3, p2, p1. pcbn. left. auto.
    - unfold p3, p2, p1. left. unfold Proofs.C14Date.year_determinate. pcbn.
      split; [left; discriminate|split; discriminate]. }
  unfold pr_of. rewrite Hres. reflexivity.
Qed.

Example date_ymd_roundtrip_inhabited :
  Proofs.C08Sweeps.repr 2014 365 (Proofs.C08Sweeps.mkdate 2014 365) /\
  Proofs.C08Sweeps.repr (-262143) 1 (Proofs.C08Sweeps.mkdate (-262143) 1) /\
  Proofs.C08Sweeps.repr 262142 365 (Proofs.C08Sweeps.mkdate 262142 365).
Proof. repeat split; reflexivity. Qed.

(** NaiveDate::parse_from_str(&d.format(f).to_string(), f) = Ok(d) for f = "%Y-%m-%d" and "%F" *)
Definition ymd_formats : list bytes := [[37; 89; 45; 37; 109; 45; 37; 100]; [37; 70]].
Theorem date_ymd_parse_from_str y o d fmt : Proofs.C08Sweeps.repr y o d -> In fmt ymd_formats ->
  exists text,
    Model.Format.delayed_display (Model.Format.fa_of_date d) (Model.Strftime.sf_new fmt) = Model.Format.fok text /\
    date_parse_from_str text fmt = pok d.
Proof.
  intros Hv Hin. destruct (date_ymd_roundtrip y o d Hv) as (text & Hw & Hp).
  assert (Hy : yields (Model.Strftime.sf_new fmt) YMD_FMT /\ (List.length YMD_FMT < S (Model.Strftime.sf_bound fmt))%nat).
  { cbn in Hin. destruct Hin as [<-|[<-|[]]];
      (split; [|cbn; lia]);
      (match goal with |- yields (Model.Strftime.sf_new ?f) _ =>
         destruct (sf_take_yields (S (Model.Strftime.sf_bound f)) (Model.Strftime.sf_new f) [] YMD_FMT) as (l & Hl & Hyl);
         [vm_compute; reflexivity|cbn [rev app] in Hl; subst l; exact Hyl] end). }
  destruct Hy as [Hy Hlen].
  exists text. split.
  - unfold Model.Format.delayed_display. cbn [Model.Strftime.sf_remainder Model.Strftime.sf_queue Model.Strftime.sf_new List.length].
    rewrite Nat.add_0_r. rewrite (write_to_items YMD_FMT _ _ _ [] Hy Hlen). exact Hw.
  - unfold date_parse_from_str, parse_sf, parse_internal_sf.
    rewrite (parse_sf_loop_items YMD_FMT _ _ _ _ Hy Hlen). exact Hp.
Qed.
