(** Local facts, part 4: [NaiveDate::add_days] is addition on day numbers, refused exactly when the
    sum leaves the range of dates.  To be reconciled with Proofs/Date.v (C01). *)
From Coq Require Import ZArith List Bool Lia ZifyBool.
From V Require Import Base.Int Base.IntLemmas Base.Bits Base.Lift Base.Table Gen.DateTables
  Spec.Gregorian Model.Date Proofs.C08Sweeps Proofs.C08Date Proofs.C08Days.
Import ListNotations.
Open Scope Z_scope.
Ltac Zify.zify_post_hook ::= Z.to_euclidean_division_equations.

Definition date_of_dn (n : Z) : Z := mkdate (fst (yo_of_dn n)) (snd (yo_of_dn n)).

Lemma foaf_spec y o : in_i32 y = true -> in_u32 o = true ->
  from_ordinal_and_flags y o (yflags y) = Val (date_if (year_in_range y && valid_yo y o) (mkdate y o)).
Proof.
  intros Hy Ho. pose proof (from_yo_opt_spec y o Hy Ho) as S. unfold from_yo_opt in S.
  rewrite yf_from_year_spec in S by assumption. exact S.
Qed.

Lemma repr_ordbits y o d : repr y o d -> Z.shiftr (Z.land d D_ORDINAL_MASK) 4 = o.
Proof.
  intros (Hy & Ho & ->). pose proof (lo_facts_of y o Ho) as [_ _ Fdiv Fmod Frng Fleap Fvalid].
  pose proof (acc_ok_lo _ Frng) as A. unfold acc_ok in A. rewrite Fvalid, Fdiv, Fmod in A.
  destruct (md_of_ordinal _ o). repeat (apply andb_prop in A; destruct A as [A ?]).
  unfold mkdate, D_ORDINAL_MASK. rewrite land_lo by lia. lia.
Qed.

Lemma set_ordinal_i y o d o' : repr y o d -> 1 <= o' <= 366 ->
  Z.lor (Z.land d (not_i32 D_ORDINAL_MASK)) (shl_i32 o' 4) = y * 8192 + (o' * 16 + yflags y).
Proof.
  intros H Ho'. rewrite <- (set_ordinal y o d o' H Ho'). f_equal.
  unfold shl_i32. rewrite shl_u32_small by (unfold u32_max; lia).
  rewrite Z.shiftl_mul_pow2 by lia. reflexivity.
Qed.

Lemma dn_bounds y o : year_in_range y = true -> valid_yo y o = true ->
  -95746311 <= dn_of_yo y o <= 95745580.
Proof.
  intros Hy Ho. pose proof (dn_in_range_iff y o Ho) as R. rewrite Hy in R.
  unfold dn_in_range, DN_MIN, DN_MAX in R. lia.
Qed.

Lemma cyc_bounds r o : 0 <= r < 400 -> valid_yo r o = true -> 0 <= dn_of_yo r o + 365 < 146097.
Proof.
  intros Hr Ho. unfold valid_yo, dn_of_yo in *.
  pose proof (dby_mono 0 r ltac:(lia)). pose proof (dby_mono (r + 1) 400 ltac:(lia)). pose proof (dby_succ r).
  change (days_before_year 0) with (-366) in *. change (days_before_year 400) with 145731 in *. lia.
Qed.

Theorem add_days_spec y o d k : repr y o d -> in_i32 k = true ->
  add_days d k = Val (date_if (dn_in_range (dn_of_yo y o + k)) (date_of_dn (dn_of_yo y o + k))).
Proof.
  intros H Hk. pose proof H as (Hy & Ho & Hd).
  pose proof (repr_acc y o d H) as A. destruct (md_of_ordinal (is_leap y) o) as [m0 d0].
  destruct A as (Hyear & Hord & _ & Hleap & _).
  pose proof (year_range_bounds y Hy) as Hyb.
  pose proof (lo_facts_of y o Ho) as [_ Fo _ _ _ _ _].
  unfold add_days, shr. rewrite (repr_ordbits y o d H), Hleap. unfold checked_add at 1. unfold chko.
  replace (365 + (if is_leap y then 1 else 0)) with (days_in_year y) by (unfold days_in_year; destruct (is_leap y); lia).
  destruct (in_i32 (o + k) && ((0 <? o + k) && (o + k <=? days_in_year y))) eqn:Efast.
  - (* same year *)
    apply andb_prop in Efast. destruct Efast as [Ei Eo]. rewrite Ei, Eo.
    assert (Hv : valid_yo y (o + k) = true) by (unfold valid_yo; lia).
    pose proof (lo_facts_of y _ Hv) as [_ Fo' _ _ _ _ _].
    rewrite (set_ordinal_i y o d (o + k) H Fo'). fold (mkdate y (o + k)).
    rewrite from_yof_mk by assumption. cbn [bind].
    replace (dn_of_yo y o + k) with (dn_of_yo y (o + k)) by (unfold dn_of_yo; lia).
    rewrite dn_in_range_iff, Hy by assumption. unfold date_of_dn. rewrite yo_of_dn_of_yo by assumption. reflexivity.
  - (* through the 400-year cycle *)
    replace (match (if in_i32 (o + k) then Some (o + k) else None) with
             | Some ordinal => if (0 <? ordinal) && (ordinal <=? days_in_year y)
                               then Some (Z.lor (Z.land d (not_i32 D_ORDINAL_MASK)) (shl_i32 ordinal 4)) else None
             | None => None end) with (@None Z).
    2:{ destruct (in_i32 (o + k)); [|reflexivity]. cbn [andb] in Efast. rewrite Efast. reflexivity. }
    rewrite Hyear, Hord. unfold div_mod_floor. rewrite div_euclid_pos, rem_euclid_pos by lia.
    unfold chk. replace (in_i32 (y / 400)) with true by solve_in. cbn [bind].
    rewrite as_u32_id by solve_in.
    set (r := y mod 400). set (q := y / 400).
    assert (Hr : 0 <= r < 400) by (unfold r; lia).
    assert (Hvr : valid_yo r o = true).
    { unfold r. replace (y mod 400) with (y + 400 * (- (y / 400))) by lia. rewrite valid_yo_period. assumption. }
    rewrite yo_to_cycle_spec by lia. cbn [bind].
    pose proof (cyc_bounds r o Hr Hvr) as Hcb. set (cyc := dn_of_yo r o + 365) in *.
    assert (Hn : dn_of_yo y o = cyc - 365 + 146097 * q).
    { unfold cyc, r, q. replace y with (y mod 400 + 400 * (y / 400)) at 1 by lia. rewrite dn_of_yo_period. lia. }
    pose proof (dn_bounds y o Hy Ho) as Hnb.
    rewrite as_i32_id by solve_in. unfold checked_add, chko.
    destruct (in_i32 (cyc + k)) eqn:Ec.
    2:{ replace (dn_in_range (dn_of_yo y o + k)) with false; [reflexivity|].
        unfold dn_in_range, DN_MIN, DN_MAX. solve_in. }
    unfold D_DAYS_PER_400Y. rewrite div_euclid_pos, rem_euclid_pos by lia. unfold chk.
    replace (in_i32 ((cyc + k) / 146097)) with true by solve_in. cbn [bind].
    set (cq := (cyc + k) / 146097). set (c' := (cyc + k) mod 146097).
    unfold add_i32, chk. replace (in_i32 (q + cq)) with true by (unfold q, cq; solve_in). cbn [bind].
    rewrite as_u32_id by (unfold c'; solve_in).
    destruct (cyc_facts c' ltac:(unfold c'; lia)) as (Hr' & Hv' & Hd' & Hcy).
    rewrite Hcy. cbn [bind].
    set (r' := fst (yo_of_dn (c' - 365))) in *. set (o' := snd (yo_of_dn (c' - 365))) in *.
    rewrite as_i32_id by solve_in.
    unfold yf_from_year_mod_400, tget. rewrite as_u64_id by solve_in.
    destruct (yflags_facts r') as (Etab & _). replace (r' mod 400) with r' in Etab by lia. rewrite Etab. cbn [bind].
    unfold mul_i32, chk. replace (in_i32 ((q + cq) * 400)) with true by (unfold q, cq; solve_in). cbn [bind].
    replace (in_i32 ((q + cq) * 400 + r')) with true by (unfold q, cq; solve_in). cbn [bind].
    set (y'' := (q + cq) * 400 + r').
    replace (yflags r') with (yflags y'') by (rewrite (yflags_mod y''); f_equal; unfold y''; lia).
    pose proof (lo_facts_of r' o' Hv') as [_ Fo' _ _ _ _ _].
    rewrite foaf_spec by (unfold y'', q, cq; solve_in).
    assert (Hsum : dn_of_yo y o + k = (c' - 365) + 146097 * (q + cq)) by (unfold c', cq; lia).
    assert (Hyo : yo_of_dn (dn_of_yo y o + k) = (y'', o')).
    { rewrite Hsum, yo_of_dn_period. fold r' o'. f_equal. unfold y''. lia. }
    assert (Hv'' : valid_yo y'' o' = true).
    { unfold y''. replace ((q + cq) * 400 + r') with (r' + 400 * (q + cq)) by lia. rewrite valid_yo_period. assumption. }
    assert (Hdn : dn_of_yo y'' o' = dn_of_yo y o + k).
    { unfold y''. replace ((q + cq) * 400 + r') with (r' + 400 * (q + cq)) by lia. rewrite dn_of_yo_period. lia. }
    rewrite Hv'', andb_true_r. rewrite <- Hdn at 1. rewrite dn_in_range_iff by assumption.
    unfold date_of_dn. rewrite Hyo. reflexivity.
Qed.
