(** C16 — proofs about the TZif / POSIX-TZ reader model (Model/TzTypes.v, TzRule.v, TzParser.v,
    TzLookup.v).  The theorem statements are collected in Props/C16.v. *)
From Coq Require Import ZArith List Bool Lia ZifyBool.
From V Require Import Base.Int Base.IO Base.IntLemmas Base.Lift Gen.TzInfo.
From V Require Import Model.TzParser Model.TzRule Model.TzLookup.
From V Require Export Proofs.TzCommon.
Import ListNotations.
Open Scope Z_scope.
Ltac Zify.zify_post_hook ::= Z.to_euclidean_division_equations.

(** ** Acceptance soundness of [TimeZone::new]: an accepted zone has a type, every transition
    points at an existing type, transition times increase strictly *)
Fixpoint increasing (l : list Z) : Prop :=
  match l with
  | a :: ((b :: _) as r) => a < b /\ increasing r
  | _ => True
  end.

Lemma validate_transitions_sound n l : validate_transitions n l = Ok tt ->
  Forall (fun t => tr_idx t < n) l /\ increasing (map tr_time l).
Proof.
  induction l as [|t r IH]; intros H; cbn [validate_transitions] in H.
  - split; [constructor|exact I].
  - destruct (tr_idx t >=? n) eqn:E1; [discriminate|].
    destruct r as [|t2 r'].
    + split; [constructor; [lia|constructor]|exact I].
    + destruct (tr_time t >=? tr_time t2) eqn:E2; [discriminate|].
      destruct (IH H) as [F I2]. split; [constructor; [lia|exact F]|].
      cbn [map increasing] in *. split; [lia|exact I2].
Qed.

Lemma rbind_ok_inv {A T} (x : R (res A)) (f : A -> R (res T)) (t : T) :
  rbind x f = Val (Ok t) -> exists a, x = Val (Ok a) /\ f a = Val (Ok t).
Proof.
  destruct x as [[a|e]| |]; cbn; intros H; try discriminate. exists a. auto.
Qed.
Lemma bind_val_inv {A T} (x : R A) (f : A -> R T) (t : T) :
  bind x f = Val t -> exists a, x = Val a /\ f a = Val t.
Proof. destruct x as [a| |]; cbn; intros H; try discriminate. exists a. auto. Qed.

Lemma tz_new_sound tr ty lp rule z : tz_new tr ty lp rule = Val (Ok z) ->
  z = mk_tz tr ty lp rule /\ ty <> [] /\
  Forall (fun t => tr_idx t < zlen ty) tr /\ increasing (map tr_time tr).
Proof.
  unfold tz_new. intros H. apply rbind_ok_inv in H. destruct H as ([] & Hv & Hz).
  injection Hz as <-. split; [reflexivity|].
  unfold validate in Hv. cbn [local_time_types transitions] in Hv.
  destruct (zlen ty =? 0) eqn:E0; [discriminate|].
  apply rbind_ok_inv in Hv. destruct Hv as ([] & Hvt & _).
  injection Hvt as Hvt. split.
  - intros ->. cbn in E0. discriminate.
  - apply validate_transitions_sound. exact Hvt.
Qed.

(** ** The repaired transition scan of [find_local_time_type_from_local] cannot trap: the only
    trapping operation left in it is the type-table index, which [validate] has checked *)
Lemma local_loop_total types : forall trs prev t,
  Forall (fun tr => 0 <= tr_idx tr < zlen types) trs ->
  exists r, local_loop types trs prev t = Val r.
Proof.
  induction trs as [|tr rest IH]; intros prev t HF; cbn [local_loop]; [eexists; reflexivity|].
  inversion HF as [|? ? Hi HF']; subst.
  destruct (index_post types (tr_idx tr) Hi) as (after & -> & _). cbv [bind].
  destruct (_ ?= _); repeat match goal with |- context [if ?c then _ else _] => destruct c end;
    try (eexists; reflexivity); apply IH; exact HF'.
Qed.
