(** C16 — proofs about the TZif / POSIX-TZ reader model (Model/TzTypes.v, TzRule.v, TzParser.v,
    TzLookup.v).  The theorem statements are collected in Props/C16.v. *)
From Coq Require Import ZArith List Bool Lia ZifyBool.
From V Require Import Base.Int Base.IO Base.IntLemmas Base.Lift Gen.TzInfo.
From V Require Import Model.TzParser Model.TzRule Model.TzLookup.
From V Require Export Proofs.TzCommon.
From V Require Import Proofs.TzEval Proofs.TzGrammar.
Import ListNotations.
Open Scope Z_scope.
Ltac Zify.zify_post_hook ::= Z.to_euclidean_division_equations.

(** ** Acceptance soundness of [TimeZone::new]: an accepted zone has a type, every transition
    points at an existing type, transition times increase strictly *)
Fixpoint increasing (l : list Z) : Prop :=
  match l with
  | a :: ((b :: _) as r) => a < b /\ increasing r
  | _ => True
  end.

Lemma validate_transitions_sound n l : validate_transitions n l = Ok tt ->
  Forall (fun t => tr_idx t < n) l /\ increasing (map tr_time l).
Proof.
  induction l as [|t r IH]; intros H; cbn [validate_transitions] in H.
  - split; [constructor|exact I].
  - destruct (tr_idx t >=? n) eqn:E1; [discriminate|].
    destruct r as [|t2 r'].
    + split; [constructor; [lia|constructor]|exact I].
    + destruct (tr_time t >=? tr_time t2) eqn:E2; [discriminate|].
      destruct (IH H) as [F I2]. split; [constructor; [lia|exact F]|].
      cbn [map increasing] in *. split; [lia|exact I2].
Qed.

Lemma rbind_ok_inv {A T} (x : R (res A)) (f : A -> R (res T)) (t : T) :
  rbind x f = Val (Ok t) -> exists a, x = Val (Ok a) /\ f a = Val (Ok t).
Proof.
  destruct x as [[a|e]| |]; cbn; intros H; try discriminate. exists a. auto.
Qed.
Lemma bind_val_inv {A T} (x : R A) (f : A -> R T) (t : T) :
  bind x f = Val t -> exists a, x = Val a /\ f a = Val t.
Proof. destruct x as [a| |]; cbn; intros H; try discriminate. exists a. auto. Qed.

Lemma tz_new_sound tr ty lp rule z : tz_new tr ty lp rule = Val (Ok z) ->
  z = mk_tz tr ty lp rule /\ ty <> [] /\
  Forall (fun t => tr_idx t < zlen ty) tr /\ increasing (map tr_time tr).
Proof.
  unfold tz_new. intros H. apply rbind_ok_inv in H. destruct H as ([] & Hv & Hz).
  injection Hz as <-. split; [reflexivity|].
  unfold validate in Hv. cbn [local_time_types transitions] in Hv.
  destruct (zlen ty =? 0) eqn:E0; [discriminate|].
  apply rbind_ok_inv in Hv. destruct Hv as ([] & Hvt & _).
  injection Hvt as Hvt. split.
  - intros ->. cbn in E0. discriminate.
  - apply validate_transitions_sound. exact Hvt.
Qed.

(** ** The repaired transition scan of [find_local_time_type_from_local] cannot trap: the only
    trapping operation left in it is the type-table index, which [validate] has checked *)
Lemma local_loop_total types : forall trs prev t,
  Forall (fun tr => 0 <= tr_idx tr < zlen types) trs ->
  exists r, local_loop types trs prev t = Val r.
Proof.
  induction trs as [|tr rest IH]; intros prev t HF; cbn [local_loop]; [eexists; reflexivity|].
  inversion HF as [|? ? Hi HF']; subst.
  destruct (index_post types (tr_idx tr) Hi) as (after & -> & _). cbv [bind].
  destruct (_ ?= _); repeat match goal with |- context [if ?c then _ else _] => destruct c end;
    try (eexists; reflexivity); apply IH; exact HF'.
Qed.

(** ** Header and data blocks *)
Definition hdr_ok (h : header) : Prop :=
  0 <= ut_local_count h <= u32_max /\ 0 <= std_wall_count h <= u32_max /\
  0 <= leap_count h <= u32_max /\ 0 <= transition_count h <= u32_max /\
  1 <= type_count h <= u32_max /\ 1 <= char_count h <= u32_max.
(* bytes occupied by a header and its data block with [ts]-byte times *)
Definition block_size (h : header) (ts : Z) : Z :=
  44 + transition_count h * ts + transition_count h + type_count h * 6 + char_count h
  + leap_count h * (ts + 4) + std_wall_count h + ut_local_count h.

Lemma bytes_eqb_eq (a b : bytes) : bytes_eqb a b = true -> a = b.
Proof.
  revert b. induction a as [|x a IH]; intros [|y b] H; cbn [bytes_eqb] in H; try discriminate; [reflexivity|].
  apply andb_prop in H. destruct H as [H1 H2]. f_equal; [lia|apply IH; exact H2].
Qed.
Lemma as_usize_id z : 0 <= z <= u32_max -> as_usize z = z.
Proof. intros H. change (as_usize z) with (as_u64 z). apply as_u64_id. range_solver. Qed.

(* the six counts of a header are the big-endian words at offsets 20..43 of the bytes it was read from *)
Definition hdr_layout (h : header) (s : bytes) : Prop :=
  exists pre b1 b2 b3 b4 b5 b6 rest,
    s = pre ++ b1 ++ b2 ++ b3 ++ b4 ++ b5 ++ b6 ++ rest /\ zlen pre = 20 /\
    zlen b1 = 4 /\ zlen b2 = 4 /\ zlen b3 = 4 /\ zlen b4 = 4 /\ zlen b5 = 4 /\ zlen b6 = 4 /\
    ut_local_count h = be_uint b1 /\ std_wall_count h = be_uint b2 /\ leap_count h = be_uint b3 /\
    transition_count h = be_uint b4 /\ type_count h = be_uint b5 /\ char_count h = be_uint b6.

Lemma header_new_spec N c : cur_ok N c ->
  postr (header_new c)
        (fun '(h, c') => cur_ok N c' /\ hdr_ok h /\ read_count c' = read_count c + 44 /\
                         (exists rest, remaining c = 84 :: 90 :: 105 :: 102 :: rest) /\
                         hdr_layout h (remaining c)).
Proof.
  intros Hc. unfold header_new.
  eapply postr_rbind; [apply read_exact_spec; exact Hc|]. intros [magic c1] (Hc1 & Hml & _ & Hm & Hr1).
  match goal with |- context [negb (bytes_eqb magic ?t)] => destruct (bytes_eqb magic t) eqn:Em end;
    cbn [negb]; [|apply postr_fail].
  apply bytes_eqb_eq in Em. cbv in Em.
  eapply postr_rbind; [apply read_exact_spec; exact Hc1|]. intros [vb c2] (Hc2 & Hvl & _ & Hveq & Hr2).
  eapply postr_rbind with (P := fun _ => True).
  { destruct vb as [|v0 [|v1 vr]]; [apply postr_fail| |].
    destruct (Z.eq_dec v0 0) as [->|H0]; [apply postr_ok; exact I|].
    destruct (Z.eq_dec v0 50) as [->|H50]; [apply postr_ok; exact I|].
    destruct (Z.eq_dec v0 51) as [->|H51]; [apply postr_ok; exact I|].
    assert (E : forall (X : Type) (a b0 c0 d0 : X), match v0 with 0 => a | 50 => b0 | 51 => c0 | _ => d0 end = d0).
    { intros X a b0 c0 d0. destruct v0 as [|p|p]; try reflexivity; [lia|].
      repeat (destruct p as [p|p|]; try reflexivity); lia. }
    rewrite E. apply postr_fail.
    destruct v0 as [|p|p]; try apply postr_fail.
    repeat (destruct p as [p|p|]; try apply postr_fail). }
  intros v _.
  eapply postr_rbind; [apply read_exact_spec; exact Hc2|]. intros [rsv c3] (Hc3 & Hrl & _ & Hreq & Hr3).
  eapply postr_rbind; [apply read_be_u32_spec; exact Hc3|]. intros [n1 c4] (Hc4 & Hn1 & Hr4 & (b1 & Hq1 & Hbl1 & Hv1)).
  eapply postr_rbind; [apply read_be_u32_spec; exact Hc4|]. intros [n2 c5] (Hc5 & Hn2 & Hr5 & (b2 & Hq2 & Hbl2 & Hv2)).
  eapply postr_rbind; [apply read_be_u32_spec; exact Hc5|]. intros [n3 c6] (Hc6 & Hn3 & Hr6 & (b3 & Hq3 & Hbl3 & Hv3)).
  eapply postr_rbind; [apply read_be_u32_spec; exact Hc6|]. intros [n4 c7] (Hc7 & Hn4 & Hr7 & (b4 & Hq4 & Hbl4 & Hv4)).
  eapply postr_rbind; [apply read_be_u32_spec; exact Hc7|]. intros [n5 c8] (Hc8 & Hn5 & Hr8 & (b5 & Hq5 & Hbl5 & Hv5)).
  eapply postr_rbind; [apply read_be_u32_spec; exact Hc8|]. intros [n6 c9] (Hc9 & Hn6 & Hr9 & (b6 & Hq6 & Hbl6 & Hv6)).
  match goal with |- context [if ?cnd then _ else _] => destruct cnd eqn:Ec end; [apply postr_fail|].
  apply postr_ok. rewrite !as_usize_id by assumption.
  split; [exact Hc9|]. split; [|split; [|split]].
  - unfold hdr_ok. cbn [ut_local_count std_wall_count leap_count transition_count type_count char_count].
    unfold u32_max in *. lia.
  - lia.
  - subst magic. exists (remaining c1). exact Hm.
  - exists (magic ++ vb ++ rsv), b1, b2, b3, b4, b5, b6, (remaining c9).
    cbn [ut_local_count std_wall_count leap_count transition_count type_count char_count].
    split; [|rewrite !zlen_app; repeat split; try assumption; lia].
    rewrite Hm, Hveq, Hreq, Hq1, Hq2, Hq3, Hq4, Hq5, Hq6. rewrite <- !app_assoc. reflexivity.
Qed.

Record st_ok (st : state) (ts : Z) : Prop := mk_st_ok {
  so_hdr : hdr_ok (st_header st);
  so_ts : time_size st = ts;
  so_times : zlen (st_transition_times st) = transition_count (st_header st) * ts /\ Forall byte (st_transition_times st);
  so_types : zlen (st_transition_types st) = transition_count (st_header st) /\ Forall byte (st_transition_types st);
  so_ltts : zlen (st_local_time_types st) = type_count (st_header st) * 6 /\ Forall byte (st_local_time_types st);
  so_names : zlen (st_names st) = char_count (st_header st) /\ Forall byte (st_names st);
  so_leaps : zlen (st_leap_seconds st) = leap_count (st_header st) * (ts + 4) /\ Forall byte (st_leap_seconds st);
  so_sw : Forall byte (st_std_walls st);
  so_ul : Forall byte (st_ut_locals st) }.

Lemma state_new_spec N c first : cur_ok N c ->
  postr (state_new c first)
        (fun '(st, c') => cur_ok N c' /\ st_ok st (if first then 4 else 8) /\
                          read_count c' = read_count c + block_size (st_header st) (if first then 4 else 8) /\
                          (exists rest, remaining c = 84 :: 90 :: 105 :: 102 :: rest) /\
                          hdr_layout (st_header st) (remaining c)).
Proof.
  intros Hc. unfold state_new.
  eapply postr_rbind; [apply header_new_spec; exact Hc|]. intros [h c1] (Hc1 & Hh & Hr1 & Hmagic & Hlay).
  set (ts := if first then 4 else 8).
  assert (Hts : ts = 4 \/ ts = 8) by (subst ts; destruct first; auto).
  destruct Hh as (H1 & H2 & H3 & H4 & H5 & H6). unfold u32_max in *.
  unfold_ops. rewrite chk_in by (destruct Hts as [-> | ->]; range_solver). cbv [bind].
  eapply postr_rbind; [apply read_exact_spec; exact Hc1|]. intros [b1 c2] (Hc2 & Hl1 & Hb1 & _ & Hr2).
  eapply postr_rbind; [apply read_exact_spec; exact Hc2|]. intros [b2 c3] (Hc3 & Hl2 & Hb2 & _ & Hr3).
  rewrite chk_in by range_solver. cbv beta iota.
  eapply postr_rbind; [apply read_exact_spec; exact Hc3|]. intros [b3 c4] (Hc4 & Hl3 & Hb3 & _ & Hr4).
  eapply postr_rbind; [apply read_exact_spec; exact Hc4|]. intros [b4 c5] (Hc5 & Hl4 & Hb4 & _ & Hr5).
  rewrite chk_in by (destruct Hts as [-> | ->]; range_solver). cbv beta iota.
  rewrite chk_in by (destruct Hts as [-> | ->]; range_solver). cbv beta iota.
  eapply postr_rbind; [apply read_exact_spec; exact Hc5|]. intros [b5 c6] (Hc6 & Hl5 & Hb5 & _ & Hr6).
  eapply postr_rbind; [apply read_exact_spec; exact Hc6|]. intros [b6 c7] (Hc7 & Hl6 & Hb6 & _ & Hr7).
  eapply postr_rbind; [apply read_exact_spec; exact Hc7|]. intros [b7 c8] (Hc8 & Hl7 & Hb7 & _ & Hr8).
  apply postr_ok. split; [exact Hc8|]. split; [|split; [|split; [exact Hmagic|exact Hlay]]].
  - constructor; cbn [st_header time_size st_transition_times st_transition_types st_local_time_types
                       st_names st_leap_seconds st_std_walls st_ut_locals]; auto.
    unfold hdr_ok, u32_max. lia.
  - cbn [st_header]. unfold block_size. lia.
Qed.

(** ** chunks_exact *)
Lemma chunks_aux_spec n : forall l k acc,
  (List.length acc + S k = n)%nat -> Forall byte acc -> Forall byte l ->
  Forall (fun ch => List.length ch = n /\ Forall byte ch) (chunks_aux n k acc l) /\
  (List.length (chunks_aux n k acc l) <= List.length l)%nat.
Proof.
  induction l as [|x r IH]; intros k acc Hk Ha Hl; cbn [chunks_aux].
  - split; [constructor|cbn; lia].
  - inversion Hl as [|? ? Hx Hr]; subst. destruct k as [|k'].
    + destruct (IH (pred (List.length acc + 1)) []) as [I1 I2]; [cbn; lia|constructor|exact Hr|].
      split.
      * constructor; [|exact I1]. split.
        -- rewrite rev_length. cbn [List.length]. lia.
        -- apply Forall_rev. constructor; assumption.
      * cbn [List.length]. lia.
    + destruct (IH k' (x :: acc)) as [I1 I2]; [cbn [List.length]; lia|constructor; assumption|exact Hr|].
      split; [exact I1|cbn [List.length]; lia].
Qed.
Lemma chunks_exact_spec n l : 1 <= n -> Forall byte l ->
  post (chunks_exact n l) (fun cs => Forall (fun ch => zlen ch = n /\ Forall byte ch) cs /\ zlen cs <= zlen l).
Proof.
  intros Hn Hl. unfold chunks_exact. destruct (n <=? 0) eqn:E; [lia|]. apply post_val.
  destruct (chunks_aux_spec (Z.to_nat n) l (pred (Z.to_nat n)) []) as [I1 I2]; [cbn; lia|constructor|exact Hl|].
  split.
  - eapply Forall_impl; [|exact I1]. intros ch [H1 H2]. split; [unfold zlen; lia|exact H2].
  - unfold zlen. lia.
Qed.

Lemma Forall_zip {X Y} (P : X -> Prop) (Q : Y -> Prop) : forall (a : list X) (b : list Y),
  Forall P a -> Forall Q b -> Forall (fun '(x, y) => P x /\ Q y) (zip a b) /\ zlen (zip a b) <= zlen a.
Proof.
  induction a as [|x a IH]; intros b Ha Hb; cbn [zip].
  - split; [apply Forall_nil|unfold zlen; cbn [List.length]; lia].
  - destruct b as [|y b]; [split; [apply Forall_nil|rewrite zlen_cons; pose proof (zlen_nonneg a); change (zlen (@nil (X*Y))) with 0; lia]|].
    inversion Ha; inversion Hb; subst. destruct (IH b) as [I1 I2]; [assumption|assumption|].
    split; [constructor; auto|rewrite !zlen_cons; lia].
Qed.

Lemma map_res_len {A T} (f : A -> R (res T)) (P : A -> Prop) (Q : T -> Prop) (l : list A) :
  Forall P l -> (forall a, P a -> postr (f a) Q) ->
  postr (map_res f l) (fun r => Forall Q r /\ zlen r = zlen l).
Proof.
  intros HF Hf. induction HF as [|a r Ha HF IH]; cbn [map_res]; [apply postr_ok; split; [constructor|reflexivity]|].
  eapply postr_rbind; [apply Hf; exact Ha|]. intros b Hb.
  eapply postr_rbind; [exact IH|]. intros bs [Hbs Hlen]. apply postr_ok.
  split; [constructor; assumption|rewrite !zlen_cons; lia].
Qed.

(** ** Per-record decoders *)
Lemma parse_time_spec arr v ts : (ts = 4 \/ ts = 8) -> zlen arr = ts -> Forall byte arr ->
  postr (parse_time arr v) (fun t => in_i64 t = true).
Proof.
  intros Hts Hl Hb. unfold parse_time. destruct v.
  - unfold slice_to. eapply postr_bind; [apply (slice_post byte arr 0 4); [lia|lia|exact Hb]|].
    intros a _. eapply postr_weaken; [apply read_be_i32_spec|]. intros t Ht. range_solver.
  - apply read_be_i64_spec.
  - apply read_be_i64_spec.
Qed.

Definition tr_ok (t : transition) : Prop := in_i64 (tr_time t) = true /\ 0 <= tr_idx t < 256.
Definition leap_ok (l : leap) : Prop := in_i64 (lp_time l) = true /\ in_i32 (lp_corr l) = true.

Lemma parse_transition_spec ts v (p : bytes * Z) : (ts = 4 \/ ts = 8) ->
  (let '(arr, ty) := p in (zlen arr = ts /\ Forall byte arr) /\ byte ty) ->
  postr (let '(arr_time, ty) := p in
         let* a := slice arr_time 0 ts in
         let+ t := parse_time a v in
         ok (mk_tr t (as_usize ty))) tr_ok.
Proof.
  intros Hts. destruct p as [arr ty]. intros [[Hl Hb] Hty].
  eapply postr_bind; [apply (slice_post byte arr 0 ts); [lia|lia|exact Hb]|].
  intros a (Ha1 & Ha2 & _).
  eapply postr_rbind; [apply (parse_time_spec a v ts); [exact Hts|lia|exact Ha2]|].
  intros t Ht. apply postr_ok. unfold tr_ok, byte in *. cbn [tr_time tr_idx].
  rewrite as_usize_id by (unfold u32_max; lia). split; [exact Ht|lia].
Qed.

Lemma In_byte (l : bytes) x : Forall byte l -> In x l -> byte x.
Proof. intros H Hi. rewrite Forall_forall in H. apply H. exact Hi. Qed.

Lemma parse_ltt_spec names cc arr : zlen names = cc -> cc <= u32_max -> Forall byte names -> zlen arr = 6 -> Forall byte arr ->
  postr (parse_ltt names cc arr) ltt_ok.
Proof.
  intros Hn Hcc Hnb Hl Hb. unfold parse_ltt, slice_to.
  eapply postr_bind; [apply (slice_post byte arr 0 4); [lia|lia|exact Hb]|]. intros a4 _.
  eapply postr_rbind; [apply read_be_i32_spec|]. intros ut Hut.
  eapply postr_bind; [apply (index_post arr 4); lia|]. intros b4 Hb4.
  eapply postr_rbind with (P := fun _ => True).
  { destruct b4 as [|p|p]; try apply postr_fail; [apply postr_ok; exact I|].
    destruct p; try apply postr_fail. apply postr_ok; exact I. }
  intros dst _.
  eapply postr_bind; [apply (index_post arr 5); lia|]. intros b5 Hb5.
  pose proof (In_byte arr b5 Hb Hb5) as Hb5r. unfold byte in Hb5r.
  destruct (b5 >=? cc) eqn:E; [apply postr_fail|].
  unfold slice_from.
  eapply postr_bind; [apply (slice_post byte names b5 (zlen names)); [lia|lia|exact Hnb]|].
  intros tail (Ht1 & Ht2 & _).
  pose proof (prefix_len_bounds (fun x => negb (x =? 0)) tail) as Hp.
  set (pos := prefix_len (fun x => negb (x =? 0)) tail) in *. clearbody pos.
  destruct (pos >=? zlen tail) eqn:E2; [apply postr_fail|].
  cbv beta in *. unfold_ops. rewrite chk_in by range_solver. cbv [bind].
  eapply postr_bind; [apply (slice_post byte names b5 (b5 + pos)); [lia|lia|exact Hnb]|].
  intros nm _.
  eapply postr_weaken; [apply ltt_new_spec; exact Hut|]. intros l (H & _). exact H.
Qed.

Lemma parse_leap_spec ts v arr : (ts = 4 \/ ts = 8) -> zlen arr = ts + 4 -> Forall byte arr ->
  postr (parse_leap ts v arr) leap_ok.
Proof.
  intros Hts Hl Hb. unfold parse_leap.
  eapply postr_bind; [apply (slice_post byte arr 0 ts); [lia|lia|exact Hb]|]. intros a (Ha1 & Ha2 & _).
  eapply postr_rbind; [apply (parse_time_spec a v ts); [exact Hts|lia|exact Ha2]|]. intros t Ht.
  unfold_ops. rewrite chk_in by (destruct Hts as [-> | ->]; range_solver). cbv [bind].
  eapply postr_bind; [apply (slice_post byte arr ts (ts + 4)); [lia|lia|exact Hb]|]. intros b _.
  eapply postr_rbind; [apply read_be_i32_spec|]. intros corr Hc.
  apply postr_ok. split; assumption.
Qed.

(** ** Binary search *)
Lemma count_below_bounds s k : 0 <= count_below s k <= zlen s.
Proof.
  induction s as [|x r IH]; cbn [count_below]; [change (zlen (@nil Z)) with 0; lia|].
  rewrite zlen_cons. destruct (x <? k); lia.
Qed.
Lemma nth_z_aux_some {A} (l : list A) : forall n x, nth_z_aux l n = Some x -> (n < List.length l)%nat.
Proof.
  induction l as [|a l IH]; intros n x H; destruct n; cbn in *; try discriminate; [lia|].
  apply IH in H. lia.
Qed.
Lemma search_next_spec s k : zlen s < u64_max -> post (search_next s k) (fun r => 0 <= r <= zlen s).
Proof.
  intros Hl. unfold search_next, binary_search.
  pose proof (count_below_bounds s k) as Hb. set (i := count_below s k) in *. clearbody i.
  destruct (nth_z_aux s (Z.to_nat i)) as [x|] eqn:En.
  - apply nth_z_aux_some in En. destruct (x =? k).
    + unfold_ops. rewrite chk_in by (unfold zlen in *; range_solver). apply post_val. unfold zlen. lia.
    + apply post_val. lia.
  - apply post_val. lia.
Qed.

(** ** Construction: validate never traps, and an accepted zone is well formed *)
Fixpoint incr_leaps (l : list leap) : Prop :=
  match l with
  | a :: ((b :: _) as r) => lp_time a < lp_time b /\ incr_leaps r
  | _ => True
  end.
Record zone_wf (z : timezone) : Prop := mk_zone_wf {
  zw_nonempty : local_time_types z <> [];
  zw_types : Forall ltt_ok (local_time_types z);
  zw_trans : Forall (fun t => in_i64 (tr_time t) = true /\ 0 <= tr_idx t < zlen (local_time_types z)) (transitions z);
  zw_incr : increasing (map tr_time (transitions z));
  zw_leaps : Forall leap_ok (leap_seconds z);
  zw_leaps_incr : incr_leaps (leap_seconds z);
  zw_rule : match extra_rule z with Some r => rule_ok r | None => True end;
  zw_len : zlen (transitions z) < i64_max /\ zlen (leap_seconds z) < i64_max }.

Lemma validate_leaps_cons2 x0 x1 r :
  validate_leaps (x0 :: x1 :: r) =
  if negb ((sat_i64 (lp_time x1 - lp_time x0) >=? TZ_SECONDS_PER_28_DAYS - 1)
           && (sat_i32 (Z.abs (sat_i32 (lp_corr x1 - lp_corr x0))) =? 1))
  then Err ETimeZone else validate_leaps (x1 :: r).
Proof. reflexivity. Qed.
Lemma sat_ge d : (sat_i64 d >=? TZ_SECONDS_PER_28_DAYS - 1) = true -> 2419199 <= d.
Proof.
  unfold TZ_SECONDS_PER_28_DAYS, sat_i64, clamp, i64_min, i64_max. intros E1.
  destruct (d <? -9223372036854775808) eqn:Ea; [lia|].
  destruct (9223372036854775807 <? d) eqn:Eb; lia.
Qed.
Lemma validate_leaps_sound l : validate_leaps l = Ok tt -> incr_leaps l.
Proof.
  induction l as [|x0 r IH]; intros H; [exact I|].
  destruct r as [|x1 r']; [exact I|]. rewrite validate_leaps_cons2 in H.
  match type of H with (if ?c then _ else _) = _ => destruct c eqn:E end; [discriminate|].
  split; [|apply IH; exact H].
  apply Bool.negb_false_iff in E. apply andb_prop in E. destruct E as [E1 _].
  apply sat_ge in E1. lia.
Qed.

Lemma last_of_In {A} (l : list A) x : last_of l = Some x -> In x l.
Proof.
  unfold last_of. intros H. destruct (rev l) as [|y r] eqn:E; [discriminate|]. injection H as ->.
  apply in_rev. rewrite E. left. reflexivity.
Qed.

Lemma oor_to_post {A} e' (x : R (res A)) Q : postr x Q -> postr (oor_to e' x) Q.
Proof.
  intros (r & -> & Hr). unfold oor_to. destruct r as [a|e].
  - exists (Ok a). auto.
  - destruct e; eexists; split; try reflexivity; exact I.
Qed.

Lemma unix_leap_time_to_unix_time_spec leaps t : Forall leap_ok leaps -> zlen leaps < i64_max ->
  in_i64 t = true -> postr (unix_leap_time_to_unix_time leaps t) (fun u => in_i64 u = true).
Proof.
  intros HF Hl Ht. unfold unix_leap_time_to_unix_time.
  destruct (t =? i64_min) eqn:E; [apply postr_fail|].
  unfold_ops. rewrite chk_in by range_solver. cbv [bind].
  destruct (search_next_spec (map lp_time leaps) (t - 1)) as (idx & -> & Hidx).
  { unfold zlen in *. rewrite map_length. unfold i64_max, u64_max in *. lia. }
  assert (Hml : zlen (map lp_time leaps) = zlen leaps) by (unfold zlen; rewrite map_length; reflexivity).
  rewrite Hml in Hidx.
  assert (Hcorr : post (if idx >? 0 then let* i := chk in_usize (idx - 1) in let* l := index leaps i in Val (lp_corr l) else Val 0)
                       (fun c => in_i32 c = true)).
  { destruct (idx >? 0) eqn:E2; [|apply post_val; reflexivity].
    rewrite chk_in by (unfold i64_max in *; range_solver). cbv [bind].
    destruct (index_post_P leap_ok leaps (idx - 1) ltac:(lia) HF) as (l & -> & Hlk).
    apply post_val. apply Hlk. }
  destruct Hcorr as (corr & Hc & Hcr). cbv [bind] in Hc. rewrite Hc. cbv beta iota.
  unfold checked_sub, chko. destruct (in_i64 (t - corr)) eqn:E3; [apply postr_ok; exact E3|apply postr_fail].
Qed.

Lemma validate_spec z :
  Forall tr_ok (transitions z) -> Forall ltt_ok (local_time_types z) -> Forall leap_ok (leap_seconds z) ->
  match extra_rule z with Some r => rule_ok r | None => True end ->
  zlen (transitions z) < i64_max -> zlen (leap_seconds z) < i64_max ->
  postr (validate z) (fun _ => zone_wf z).
Proof.
  intros Htr Hty Hlp Hrule Hl1 Hl2. unfold validate.
  destruct (zlen (local_time_types z) =? 0) eqn:E0; [apply postr_fail|].
  destruct (validate_transitions (zlen (local_time_types z)) (transitions z)) as [[]|e] eqn:Evt;
    [|eexists; split; [reflexivity|exact I]].
  cbn [rbind]. destruct (validate_transitions_sound _ _ Evt) as [Hidx Hinc].
  eapply postr_rbind with (P := fun _ => True).
  { destruct (leap_seconds z); [apply postr_ok; exact I|].
    match goal with |- context [if ?c then _ else _] => destruct c end; [apply postr_fail|apply postr_ok; exact I]. }
  intros _ _.
  destruct (validate_leaps (leap_seconds z)) as [[]|e] eqn:Evl; [|eexists; split; [reflexivity|exact I]].
  cbn [rbind].
  assert (Hwf : zone_wf z).
  { constructor; try assumption.
    - intros En. rewrite En in E0. cbn in E0. discriminate.
    - rewrite Forall_forall in *. intros t Ht. specialize (Htr t Ht). specialize (Hidx t Ht).
      destruct Htr as [H1 H2]. split; [exact H1|lia].
    - apply validate_leaps_sound. exact Evl.
    - split; assumption. }
  destruct (extra_rule z) as [rule|]; [|apply postr_ok; exact Hwf].
  destruct (last_of (transitions z)) as [last|] eqn:El; [|apply postr_ok; exact Hwf].
  apply last_of_In in El.
  pose proof (proj1 (Forall_forall _ _) (zw_trans z Hwf) last El) as [Hlt Hli].
  eapply postr_bind; [apply (index_post (local_time_types z) (tr_idx last)); exact Hli|]. intros last_ltt _.
  eapply postr_rbind; [apply oor_to_post; apply unix_leap_time_to_unix_time_spec; assumption|]. intros ut Hut.
  eapply postr_rbind; [apply oor_to_post; apply rule_find_local_time_type_total; assumption|]. intros rl _.
  match goal with |- context [if ?c then _ else _] => destruct c end; [apply postr_fail|apply postr_ok; exact Hwf].
Qed.

Lemma tz_new_spec tr ty lp rule :
  Forall tr_ok tr -> Forall ltt_ok ty -> Forall leap_ok lp ->
  match rule with Some r => rule_ok r | None => True end ->
  zlen tr < i64_max -> zlen lp < i64_max ->
  postr (tz_new tr ty lp rule) (fun z => z = mk_tz tr ty lp rule /\ zone_wf z).
Proof.
  intros. unfold tz_new. eapply postr_rbind; [apply validate_spec; cbn; assumption|].
  intros u Hwf. apply postr_ok. split; [reflexivity|exact Hwf].
Qed.

(** ** The TZif reader: total on every byte string, and sound when it accepts *)
Lemma drop_while_sub f s : Forall byte s -> Forall byte (drop_while f s) /\ zlen (drop_while f s) <= zlen s.
Proof.
  induction s as [|x r IH]; intros H; cbn [drop_while]; [split; [constructor|lia]|].
  inversion H; subst. destruct (f x); [|split; [exact H|lia]].
  destruct (IH ltac:(assumption)) as [I1 I2]. split; [exact I1|rewrite zlen_cons; lia].
Qed.
Lemma zlen_rev {A} (l : list A) : zlen (rev l) = zlen l.
Proof. unfold zlen. rewrite rev_length. reflexivity. Qed.
Lemma trim_sub s : Forall byte s -> Forall byte (trim_ascii_ws s) /\ zlen (trim_ascii_ws s) <= zlen s.
Proof.
  intros H. unfold trim_ascii_ws.
  destruct (drop_while_sub is_ascii_whitespace s H) as [H1 H2].
  destruct (drop_while_sub is_ascii_whitespace (rev (drop_while is_ascii_whitespace s)) (Forall_rev H1)) as [H3 H4].
  split; [apply Forall_rev; exact H3|]. rewrite zlen_rev. rewrite zlen_rev in H4. lia.
Qed.

Definition data_ok (data : bytes) : Prop := zlen data < i64_max /\ Forall byte data.

Lemma footer_spec (footer : option bytes) (ext : bool) :
  match footer with Some f => Forall byte f /\ zlen f < i64_max | None => True end ->
  postr (match footer with
         | Some footer =>
             if negb (utf8_valid footer) then fail EUtf8 else
             if negb (match footer with 10 :: _ => true | _ => false end
                      && match last_byte footer with Some 10 => true | _ => false end)
             then fail EInvalidTzFile else
             let tz_string := trim_ascii_ws footer in
             if (match tz_string with 58 :: _ => true | _ => false end) || existsb (fun x => x =? 0) tz_string
             then fail EInvalidTzFile else
             match tz_string with
             | [] => ok None
             | _ => let+ r := from_tz_string tz_string ext in ok (Some r)
             end
         | None => ok None
         end)
        (fun r => match r with Some r => rule_ok r | None => True end).
Proof.
  intros H. destruct footer as [f|]; [|apply postr_ok; exact I]. destruct H as [Hb Hl].
  destruct (negb (utf8_valid f)); [apply postr_fail|].
  match goal with |- context [if negb ?c then _ else _] => destruct (negb c) end; [apply postr_fail|].
  destruct (trim_sub f Hb) as [Ht1 Ht2]. set (tz := trim_ascii_ws f) in *. clearbody tz. cbv zeta.
  match goal with |- context [if ?c then _ else _] => destruct c end; [apply postr_fail|].
  destruct tz as [|x r]; [apply postr_ok; exact I|].
  eapply postr_rbind; [apply from_tz_string_spec; [unfold i64_max, u64_max in *; lia|exact Ht1]|].
  intros rl Hrl. apply postr_ok. exact Hrl.
Qed.

Theorem parse_spec data : data_ok data ->
  postr (parse data) (fun z => zone_wf z /\ exists rest, data = 84 :: 90 :: 105 :: 102 :: rest).
Proof.
  intros [Hlen Hbytes]. unfold parse.
  assert (Hc0 : cur_ok (zlen data) (cur_new data)) by (apply cur_new_ok; [unfold i64_max, u64_max in *; lia|exact Hbytes]).
  set (N := zlen data) in *.
  eapply postr_rbind; [apply state_new_spec; exact Hc0|].
  intros [st1 c1] (Hc1 & Hst1 & _ & Hmagic & _). cbn [remaining cur_new] in Hmagic.
  eapply postr_rbind with
    (P := fun '(st, footer) => (exists ts, (ts = 4 \/ ts = 8) /\ st_ok st ts) /\
                               match footer with Some f => Forall byte f /\ zlen f < i64_max | None => True end).
  { destruct (h_version (st_header st1)).
    - destruct (cur_is_empty c1); [|apply postr_fail]. apply postr_ok. split; [exists 4; auto|exact I].
    - eapply postr_rbind; [apply state_new_spec; exact Hc1|]. intros [st2 c2] (Hc2 & Hst2 & _).
      destruct (h_version (st_header st2)); [apply postr_fail| |]; apply postr_ok;
        (split; [exists 8; auto|]); destruct Hc2 as (Hq0 & Hq1 & Hq2 & Hq3);
        (split; [exact Hq3|pose proof (zlen_nonneg (remaining c2)); unfold N in *; lia]).
    - eapply postr_rbind; [apply state_new_spec; exact Hc1|]. intros [st2 c2] (Hc2 & Hst2 & _).
      destruct (h_version (st_header st2)); [apply postr_fail| |]; apply postr_ok;
        (split; [exists 8; auto|]); destruct Hc2 as (Hq0 & Hq1 & Hq2 & Hq3);
        (split; [exact Hq3|pose proof (zlen_nonneg (remaining c2)); unfold N in *; lia]). }
  intros [st footer] [(ts & Hts & Hst) Hfoot].
  destruct Hst as [Hh Htsz [Ht1 Ht2] [Hy1 Hy2] [Hl1 Hl2] [Hn1 Hn2] [Hp1 Hp2] Hsw Hul].
  cbv zeta. rewrite Htsz.
  destruct Hh as (G1 & G2 & G3 & G4 & G5 & G6). unfold u32_max in *.
  eapply postr_bind; [apply chunks_exact_spec; [lia|exact Ht2]|]. intros tchunks [Htc1 Htc2].
  eapply postr_rbind.
  { eapply map_res_len with (P := fun p => let '(arr, ty) := p in (zlen arr = ts /\ Forall byte arr) /\ byte ty).
    - apply Forall_zip; [exact Htc1|exact Hy2].
    - intros p Hp. apply parse_transition_spec; assumption. }
  intros trs [Htrs Htrl].
  eapply postr_bind; [apply chunks_exact_spec; [lia|exact Hl2]|]. intros lchunks [Hlc1 Hlc2].
  eapply postr_rbind.
  { eapply map_res_spec with (P := fun ch => zlen ch = 6 /\ Forall byte ch); [exact Hlc1|].
    intros ch [Hc6 Hcb]. apply parse_ltt_spec; try assumption. unfold u32_max. lia. }
  intros ltts Hltts.
  unfold_ops. rewrite chk_in by (destruct Hts as [-> | ->]; range_solver). cbv [bind].
  eapply postr_bind; [apply chunks_exact_spec; [lia|exact Hp2]|]. intros pchunks [Hpc1 Hpc2].
  eapply postr_rbind.
  { eapply map_res_len with (P := fun ch => zlen ch = ts + 4 /\ Forall byte ch); [exact Hpc1|].
    intros ch [Hc6 Hcb]. apply parse_leap_spec; assumption. }
  intros leaps [Hleaps Hleapl].
  match goal with |- context [if ?c then _ else _] => destruct c end; [apply postr_fail|].
  eapply postr_rbind; [apply footer_spec; exact Hfoot|]. intros rule Hrule.
  eapply postr_weaken.
  - apply tz_new_spec; try assumption.
    + destruct (Forall_zip (fun arr => zlen arr = ts /\ Forall byte arr) byte tchunks (st_transition_types st) Htc1 Hy2) as [_ Hz].
      assert (Hz' : zlen trs <= zlen tchunks) by (rewrite Htrl; exact Hz).
      unfold i64_max. clear - Hts Ht1 Htc2 Hz' G4. destruct Hts as [-> | ->]; lia.
    + assert (Hz' : zlen leaps <= zlen (st_leap_seconds st)) by (rewrite Hleapl; exact Hpc2).
      unfold i64_max. clear - Hts Hp1 Hz' G3. destruct Hts as [-> | ->]; lia.
  - intros z [_ Hwf]. split; [exact Hwf|]. exact Hmagic.
Qed.

(** ** Lookups on a well-formed zone never trap *)
Lemma leap_loop_range leaps t : forall u, in_i64 u = true ->
  match leap_loop leaps t u with Ok v => in_i64 v = true | Err _ => True end.
Proof.
  induction leaps as [|l r IH]; intros u Hu; cbn [leap_loop]; [exact Hu|].
  destruct (u <? lp_time l); [exact Hu|].
  unfold checked_add, chko. destruct (in_i64 (t + lp_corr l)) eqn:E; [apply IH; exact E|exact I].
Qed.

Lemma types_index0 z : zone_wf z -> 0 < zlen (local_time_types z).
Proof.
  intros H. pose proof (zw_nonempty z H) as Hn. destruct (local_time_types z) as [|l0 lr]; [congruence|].
  rewrite zlen_cons. pose proof (zlen_nonneg lr). lia.
Qed.

Theorem find_local_time_type_total z t : zone_wf z -> in_i64 t = true ->
  postr (find_local_time_type z t) (fun _ => True).
Proof.
  intros Hwf Ht. unfold find_local_time_type.
  pose proof (types_index0 z Hwf) as H0. pose proof (zw_rule z Hwf) as Hrule.
  assert (Hby : forall rule, rule_ok rule ->
            postr (oor_to EFindLocalTimeType (rule_find_local_time_type rule t)) (fun _ => True)).
  { intros rule Hr. apply oor_to_post. apply rule_find_local_time_type_total; assumption. }
  destruct (last_of (transitions z)) as [last|] eqn:El.
  - apply last_of_In in El.
    pose proof (proj1 (Forall_forall _ _) (zw_trans z Hwf) last El) as [Hlt Hli].
    eapply postr_rbind with (P := fun u => in_i64 u = true).
    { apply oor_to_post. unfold unix_time_to_unix_leap_time.
      pose proof (leap_loop_range (leap_seconds z) t t Ht) as Hr.
      exists (leap_loop (leap_seconds z) t t). split; [reflexivity|exact Hr]. }
    intros u Hu. destruct (u >=? tr_time last).
    + destruct (extra_rule z) as [rule|]; [apply Hby; exact Hrule|].
      eapply postr_bind; [apply (index_post (local_time_types z) (tr_idx last)); exact Hli|].
      intros l _. apply postr_ok. exact I.
    + destruct (search_next_spec (map tr_time (transitions z)) u) as (idx & -> & Hidx).
      { pose proof (zw_len z Hwf) as [Hl _]. unfold zlen in *. rewrite map_length. unfold i64_max, u64_max in *. lia. }
      assert (Hml : zlen (map tr_time (transitions z)) = zlen (transitions z)) by (unfold zlen; rewrite map_length; reflexivity).
      rewrite Hml in Hidx. cbv [bind].
      assert (Hlti : post (if idx >? 0 then let* i := sub_usize idx 1 in let* tr := index (transitions z) i in Val (tr_idx tr) else Val 0)
                          (fun i => 0 <= i < zlen (local_time_types z))).
      { destruct (idx >? 0) eqn:E2; [|apply post_val; lia].
        unfold_ops. rewrite chk_in by (pose proof (zw_len z Hwf) as [Hl _]; unfold i64_max in *; range_solver). cbv [bind].
        destruct (index_post_P _ (transitions z) (idx - 1) ltac:(lia) (zw_trans z Hwf)) as (tr & -> & Htr).
        apply post_val. apply Htr. }
      destruct Hlti as (lti & Hc & Hr). cbv [bind] in Hc. rewrite Hc. cbv beta iota.
      eapply postr_bind; [apply (index_post (local_time_types z) lti); exact Hr|].
      intros l _. apply postr_ok. exact I.
  - destruct (extra_rule z) as [rule|]; [apply Hby; exact Hrule|].
    eapply postr_bind; [apply (index_post (local_time_types z) 0); lia|].
    intros l _. apply postr_ok. exact I.
Qed.

Theorem find_local_time_type_from_local_total z y lt : zone_wf z -> -2147483650 <= y <= 2147483650 ->
  postr (find_local_time_type_from_local z y lt) (fun _ => True).
Proof.
  intros Hwf Hy. unfold find_local_time_type_from_local.
  pose proof (types_index0 z Hwf) as H0. pose proof (zw_rule z Hwf) as Hrule.
  assert (Hfin : forall l, postr (match extra_rule z with
                                   | Some rule => oor_to EFindLocalTimeType (rule_find_local_time_type_from_local rule y lt)
                                   | None => ok (MSingle l) end) (fun _ => True)).
  { intros l. destruct (extra_rule z) as [rule|]; [|apply postr_ok; exact I].
    apply oor_to_post. apply rule_find_local_time_type_from_local_total; assumption. }
  destruct (transitions z) as [|t0 trs] eqn:Etr.
  - eapply postr_bind; [apply (index_post (local_time_types z) 0); lia|]. intros l _. apply Hfin.
  - eapply postr_bind; [apply (index_post (local_time_types z) 0); lia|]. intros prev _.
    destruct (local_loop_total (local_time_types z) (t0 :: trs) prev lt) as (r & ->).
    { pose proof (zw_trans z Hwf) as Htr. rewrite Etr in Htr.
      eapply Forall_impl; [|exact Htr]. intros a [_ Ha]. exact Ha. }
    cbv [bind]. destruct r as [m|l]; [apply postr_ok; exact I|apply Hfin].
Qed.

(** ** Corollaries in the form stated by the property *)
Corollary parse_total data : data_ok data -> exists r, parse data = Val r.
Proof. intros H. destruct (parse_spec data H) as (r & Hr & _). exists r. exact Hr. Qed.

Corollary accept_sound data z : data_ok data -> parse data = Val (Ok z) ->
  zone_wf z /\ exists rest, data = 84 :: 90 :: 105 :: 102 :: rest.
Proof.
  intros H Hp. destruct (parse_spec data H) as (r & Hr & Hq). rewrite Hp in Hr.
  injection Hr as <-. exact Hq.
Qed.

Corollary lookup_total data z : data_ok data -> parse data = Val (Ok z) ->
  (forall t, in_i64 t = true -> exists r, find_local_time_type z t = Val r) /\
  (forall y lt, -2147483650 <= y <= 2147483650 -> exists r, find_local_time_type_from_local z y lt = Val r).
Proof.
  intros H Hp. destruct (accept_sound data z H Hp) as [Hwf _]. split.
  - intros t Ht. destruct (find_local_time_type_total z t Hwf Ht) as (r & Hr & _). eauto.
  - intros y lt Hy. destruct (find_local_time_type_from_local_total z y lt Hwf Hy) as (r & Hr & _). eauto.
Qed.

Corollary rule_total s ext : data_ok s -> exists r, from_tz_string s ext = Val r.
Proof.
  intros [Hl Hb]. destruct (from_tz_string_spec s ext) as (r & Hr & _); [unfold i64_max, u64_max in *; lia|exact Hb|eauto].
Qed.
Corollary rule_accept_sound s ext r : data_ok s -> from_tz_string s ext = Val (Ok r) -> rule_ok r.
Proof.
  intros [Hl Hb] Hp. destruct (from_tz_string_spec s ext) as (r' & Hr & Hq); [unfold i64_max, u64_max in *; lia|exact Hb|].
  rewrite Hp in Hr. injection Hr as <-. exact Hq.
Qed.

(** Counts agree with the data: the version-1 block announced by the first header (six big-endian
    counts at offsets 20..43) fits in the file, exactly so for a version-1 file; hence a file
    truncated inside that block is rejected. *)
Theorem accept_counts data z : data_ok data -> parse data = Val (Ok z) ->
  exists h, hdr_ok h /\ hdr_layout h data /\ block_size h 4 <= zlen data /\
            (h_version h = V1 -> block_size h 4 = zlen data).
Proof.
  intros [Hlen Hbytes] Hp. unfold parse in Hp.
  assert (Hc0 : cur_ok (zlen data) (cur_new data)) by (apply cur_new_ok; [unfold i64_max, u64_max in *; lia|exact Hbytes]).
  apply rbind_ok_inv in Hp. destruct Hp as ([st1 c1] & Hs & Hp).
  destruct (state_new_spec (zlen data) (cur_new data) true Hc0) as (r & Hr & Hq).
  rewrite Hs in Hr. injection Hr as <-. destruct Hq as (Hc1 & Hst1 & Hrc & _ & Hlay).
  cbn [remaining read_count cur_new] in *.
  exists (st_header st1). split; [apply (so_hdr _ _ Hst1)|]. split; [exact Hlay|].
  destruct Hc1 as (Hq0 & Hq1 & _). pose proof (zlen_nonneg (remaining c1)).
  split; [lia|]. intros Hv. apply rbind_ok_inv in Hp. destruct Hp as ([st f] & Hm & _).
  rewrite Hv in Hm. unfold cur_is_empty in Hm. destruct (remaining c1) eqn:E; [|discriminate].
  change (zlen (@nil Z)) with 0 in *. lia.
Qed.

(** ** Witnesses: the hypotheses of the theorems above are inhabited *)
(* the version-1 file of the crate's own test [test_no_tz_string] (Guayaquil, macOS 10.11) *)
Definition example_v1_file : bytes := [84; 90; 105; 102; 0; 0; 0; 0; 0; 0; 0; 0; 0; 0; 0; 0; 0; 0; 0; 0; 0; 0; 0; 2; 0; 0; 0; 2; 0; 0; 0; 0; 0; 0; 0; 1; 0; 0; 0; 2; 0; 0; 0; 8; 182; 164; 66; 24; 1; 255; 255; 182; 104; 0; 0; 255; 255; 185; 176; 0; 4; 81; 77; 84; 0; 69; 67; 84; 0; 0; 0; 0; 0].
Definition example_tz_string : bytes := [69; 83; 84; 53; 69; 68; 84; 44; 77; 51; 46; 50; 46; 48; 44; 77; 49; 49; 46; 49; 46; 48].
Lemma byte_forallb (l : bytes) : forallb (fun b => (0 <=? b) && (b <? 256)) l = true -> Forall byte l.
Proof.
  intros H. rewrite forallb_forall in H. apply Forall_forall. intros x Hx. specialize (H x Hx). unfold byte. lia.
Qed.
Lemma example_v1_file_ok : data_ok example_v1_file.
Proof. split; [vm_compute; reflexivity|apply byte_forallb; vm_compute; reflexivity]. Qed.
Lemma example_v1_file_accepted :
  data_ok example_v1_file /\
  parse example_v1_file =
    Val (Ok (mk_tz [mk_tr (-1230749160) 1]
                   [mk_ltt (-18840) false (Some [81; 77; 84]); mk_ltt (-18000) false (Some [69; 67; 84])]
                   [] None)).
Proof. split; [exact example_v1_file_ok|vm_compute; reflexivity]. Qed.
Lemma example_tz_string_accepted :
  data_ok example_tz_string /\
  from_tz_string example_tz_string false =
    Val (Ok (Alternate (mk_alt (mk_ltt (-18000) false (Some [69; 83; 84])) (mk_ltt (-14400) true (Some [69; 68; 84]))
                               (MonthWeekday 3 2 0) 7200 (MonthWeekday 11 1 0) 7200))).
Proof.
  split; [split; [vm_compute; reflexivity|apply byte_forallb; vm_compute; reflexivity]|vm_compute; reflexivity].
Qed.
(* truncating the file by one byte, or corrupting the magic, turns acceptance into an error value *)
Lemma example_truncated_rejected :
  parse (removelast example_v1_file) = Val (Err EIo) /\
  parse (0 :: tl example_v1_file) = Val (Err EInvalidTzFile).
Proof. split; vm_compute; reflexivity. Qed.
(* the addition the unrepaired lookup performed traps on an accepted transition time *)
Lemma example_unrepaired_add_traps : add_i64 (i64_max - 10) 3600 = Panic /\ saturating_add_i64 (i64_max - 10) 3600 = i64_max.
Proof. split; vm_compute; reflexivity. Qed.
