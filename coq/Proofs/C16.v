(** C16 — proofs about the TZif / POSIX-TZ reader model (Model/TzTypes.v, TzRule.v, TzParser.v,
    TzLookup.v).  The theorem statements are collected in Props/C16.v. *)
From Coq Require Import ZArith List Bool Lia ZifyBool.
From V Require Import Base.Int Base.IO Base.IntLemmas Base.Lift Gen.TzInfo.
From V Require Import Model.TzParser Model.TzRule Model.TzLookup.
Import ListNotations.
Open Scope Z_scope.
Ltac Zify.zify_post_hook ::= Z.to_euclidean_division_equations.

(** ** Hoare-style predicates on the trapping monads *)
Definition post {A} (x : R A) (Q : A -> Prop) : Prop := exists a, x = Val a /\ Q a.
Definition postr {A} (x : R (res A)) (Q : A -> Prop) : Prop :=
  exists r, x = Val r /\ match r with Ok a => Q a | Err _ => True end.

Lemma post_val {A} (a : A) (Q : A -> Prop) : Q a -> post (Val a) Q.
Proof. intros H. exists a. auto. Qed.
Lemma post_bind {A T} (x : R A) (f : A -> R T) P Q :
  post x P -> (forall a, P a -> post (f a) Q) -> post (bind x f) Q.
Proof. intros (a & -> & Ha) H. exact (H a Ha). Qed.
Lemma postr_ok {A} (a : A) (Q : A -> Prop) : Q a -> postr (ok a) Q.
Proof. intros H. exists (Ok a). auto. Qed.
Lemma postr_fail {A} e (Q : A -> Prop) : postr (fail e) Q.
Proof. exists (Err e). auto. Qed.
Lemma postr_rbind {A T} (x : R (res A)) (f : A -> R (res T)) P Q :
  postr x P -> (forall a, P a -> postr (f a) Q) -> postr (rbind x f) Q.
Proof.
  intros (r & -> & Hr) H. destruct r as [a|e]; cbn.
  - exact (H a Hr).
  - exists (Err e). auto.
Qed.
Lemma postr_bind {A T} (x : R A) (f : A -> R (res T)) P Q :
  post x P -> (forall a, P a -> postr (f a) Q) -> postr (bind x f) Q.
Proof. intros (a & -> & Ha) H. exact (H a Ha). Qed.
Lemma postr_weaken {A} (x : R (res A)) (P Q : A -> Prop) :
  postr x P -> (forall a, P a -> Q a) -> postr x Q.
Proof. intros (r & -> & Hr) H. exists r. split; [reflexivity|]. destruct r; auto. Qed.
Lemma post_weaken {A} (x : R A) (P Q : A -> Prop) :
  post x P -> (forall a, P a -> Q a) -> post x Q.
Proof. intros (a & -> & Ha) H. exists a. auto. Qed.
Lemma postr_val_res {A} (r : res A) (Q : A -> Prop) :
  (forall a, r = Ok a -> Q a) -> postr (Val r) Q.
Proof. intros H. exists r. split; [reflexivity|]. destruct r; auto. Qed.

Lemma chk_post inr z : inr z = true -> post (chk inr z) (fun v => v = z).
Proof. intros H. unfold chk. rewrite H. apply post_val. reflexivity. Qed.

(** ** Lists *)
Lemma zlen_nonneg {A} (l : list A) : 0 <= zlen l.
Proof. unfold zlen. lia. Qed.
Lemma zlen_app {A} (a b : list A) : zlen (a ++ b) = zlen a + zlen b.
Proof. unfold zlen. rewrite app_length. lia. Qed.
Lemma zlen_cons {A} (x : A) l : zlen (x :: l) = 1 + zlen l.
Proof. unfold zlen. cbn [List.length]. lia. Qed.
Lemma zlen_firstn {A} (l : list A) n : 0 <= n <= zlen l -> zlen (firstn (Z.to_nat n) l) = n.
Proof. unfold zlen. intros H. rewrite firstn_length. lia. Qed.

(** ** Cursor: [read_exact] returns exactly the next [count] bytes and never traps while the
    bytes consumed so far plus the bytes remaining fit a [usize] *)
Definition cur_ok (N : Z) (c : cursor) : Prop :=
  0 <= read_count c /\ read_count c + zlen (remaining c) = N /\ N <= u64_max.

Lemma read_exact_spec N c count : cur_ok N c ->
  postr (read_exact c count)
        (fun '(b, c') => cur_ok N c' /\ zlen b = count /\ remaining c = b ++ remaining c').
Proof.
  intros (H0 & H1 & H2). unfold read_exact.
  destruct ((0 <=? count) && (count <=? zlen (remaining c))) eqn:E; [|apply postr_fail].
  assert (Hc : 0 <= count <= zlen (remaining c)) by lia.
  eapply postr_bind.
  - apply chk_post. pose proof (zlen_nonneg (remaining c)).
    unfold in_usize, in_u64, in_range, u64_max in *. lia.
  - intros rc ->. apply postr_ok. cbn [remaining read_count].
    split; [|split].
    + unfold cur_ok. cbn [remaining read_count]. split; [lia|]. split; [|exact H2].
      rewrite <- H1. rewrite <- (firstn_skipn (Z.to_nat count) (remaining c)) at 2.
      rewrite zlen_app, zlen_firstn by lia. lia.
    + apply zlen_firstn. lia.
    + symmetry. apply firstn_skipn.
Qed.

(** ** Acceptance soundness of [TimeZone::new]: an accepted zone has a type, every transition
    points at an existing type, transition times increase strictly *)
Fixpoint increasing (l : list Z) : Prop :=
  match l with
  | a :: ((b :: _) as r) => a < b /\ increasing r
  | _ => True
  end.

Lemma validate_transitions_sound n l : validate_transitions n l = Ok tt ->
  Forall (fun t => tr_idx t < n) l /\ increasing (map tr_time l).
Proof.
  induction l as [|t r IH]; intros H; cbn [validate_transitions] in H.
  - split; [constructor|exact I].
  - destruct (tr_idx t >=? n) eqn:E1; [discriminate|].
    destruct r as [|t2 r'].
    + split; [constructor; [lia|constructor]|exact I].
    + destruct (tr_time t >=? tr_time t2) eqn:E2; [discriminate|].
      destruct (IH H) as [F I2]. split; [constructor; [lia|exact F]|].
      cbn [map increasing] in *. split; [lia|exact I2].
Qed.

Lemma rbind_ok_inv {A T} (x : R (res A)) (f : A -> R (res T)) (t : T) :
  rbind x f = Val (Ok t) -> exists a, x = Val (Ok a) /\ f a = Val (Ok t).
Proof.
  destruct x as [[a|e]| |]; cbn; intros H; try discriminate. exists a. auto.
Qed.
Lemma bind_val_inv {A T} (x : R A) (f : A -> R T) (t : T) :
  bind x f = Val t -> exists a, x = Val a /\ f a = Val t.
Proof. destruct x as [a| |]; cbn; intros H; try discriminate. exists a. auto. Qed.

Lemma tz_new_sound tr ty lp rule z : tz_new tr ty lp rule = Val (Ok z) ->
  z = mk_tz tr ty lp rule /\ ty <> [] /\
  Forall (fun t => tr_idx t < zlen ty) tr /\ increasing (map tr_time tr).
Proof.
  unfold tz_new. intros H. apply rbind_ok_inv in H. destruct H as ([] & Hv & Hz).
  injection Hz as <-. split; [reflexivity|].
  unfold validate in Hv. cbn [local_time_types transitions] in Hv.
  destruct (zlen ty =? 0) eqn:E0; [discriminate|].
  apply rbind_ok_inv in Hv. destruct Hv as ([] & Hvt & _).
  injection Hvt as Hvt. split.
  - intros ->. cbn in E0. discriminate.
  - apply validate_transitions_sound. exact Hvt.
Qed.

(** ** The repaired transition scan of [find_local_time_type_from_local] cannot trap: the only
    trapping operation left in it is the type-table index, which [validate] has checked *)
Lemma index_post {A} (l : list A) i : 0 <= i < zlen l -> post (index l i) (fun _ => True).
Proof.
  intros H. unfold index. destruct (i <? 0) eqn:E; [lia|].
  assert (Hn : (Z.to_nat i < List.length l)%nat) by (unfold zlen in H; lia).
  revert Hn. generalize (Z.to_nat i). clear. induction l as [|a l IH]; intros n Hn; cbn in *; [lia|].
  destruct n; [apply post_val; exact I|]. apply IH. lia.
Qed.

Lemma local_loop_total types : forall trs prev t,
  Forall (fun tr => 0 <= tr_idx tr < zlen types) trs ->
  exists r, local_loop types trs prev t = Val r.
Proof.
  induction trs as [|tr rest IH]; intros prev t HF; cbn [local_loop]; [eexists; reflexivity|].
  inversion HF as [|? ? Hi HF']; subst.
  destruct (index_post types (tr_idx tr) Hi) as (after & -> & _). cbv [bind].
  destruct (_ ?= _); repeat match goal with |- context [if ?c then _ else _] => destruct c end;
    try (eexists; reflexivity); apply IH; exact HF'.
Qed.
