(** The files of the specification writer (Spec/TzWriter.v, complete layout) are byte strings of
    a size a Rust slice can have: [data_ok], the hypothesis under which the model of the reader
    stands for the code. *)
From Coq Require Import ZArith List Bool Lia ZifyBool.
From V Require Import Base.Int Base.IO Base.IntLemmas Gen.TzInfo.
From V Require Import Model.TzParser Model.TzRule Spec.TzWriter.
From V Require Import Proofs.TzCommon Proofs.TzRoundtrip Proofs.TzWriterRoundtrip Proofs.TzWriterFull Proofs.C16.
Import ListNotations.
Open Scope Z_scope.
Ltac Zify.zify_post_hook ::= Z.to_euclidean_division_equations.

Lemma byte_be32 v : Forall byte (be32 v).
Proof. unfold be32, byte. repeat constructor; lia. Qed.
Lemma byte_be64 v : Forall byte (be64 v).
Proof. unfold be64. apply Forall_app; split; apply byte_be32. Qed.
Lemma byte_be_time ts v : Forall byte (be_time ts v).
Proof. unfold be_time. destruct (ts =? 4); [apply byte_be32|apply byte_be64]. Qed.
Lemma Forall_flat_map {A} (P : Z -> Prop) (f : A -> bytes) (l : list A) :
  Forall (fun x => Forall P (f x)) l -> Forall P (flat_map f l).
Proof. induction 1 as [|x r Hx _ IH]; [constructor|]. cbn [flat_map]. apply Forall_app; split; assumption. Qed.
Lemma Forall_map' {A} (P : Z -> Prop) (f : A -> Z) (l : list A) : Forall (fun x => P (f x)) l -> Forall P (map f l).
Proof. induction 1; constructor; assumption. Qed.
Lemma txt_byte l : Forall txt l -> Forall byte l.
Proof. intros H. eapply Forall_impl; [|exact H]. unfold txt, byte. intros; lia. Qed.

Lemma byte_desig_table types : Forall type_writable types -> Forall byte (desig_table types).
Proof.
  intros H. unfold desig_table. apply Forall_flat_map. eapply Forall_impl; [|exact H].
  intros l [_ Hn]. apply Forall_app; split; [|repeat constructor; unfold byte; lia].
  unfold name_of. destruct (name l) as [n|]; [|constructor]. destruct Hn as [_ Hc].
  eapply Forall_impl; [|exact Hc]. intros b Hb. unfold is_name_char in Hb. unfold byte. lia.
Qed.
Lemma byte_types types : zlen (desig_table types) <= 256 ->
  Forall byte (flat_map enc_type (combine types (desig_indices types 0))).
Proof.
  intros Hc. apply Forall_flat_map.
  pose proof (table_locate types []) as Hloc. cbn [app] in Hloc. change (zlen (@nil Z)) with 0 in Hloc.
  eapply Forall_impl; [|exact Hloc]. intros [l idx] (pre' & post & Heq & Hlen). cbn [fst snd] in *.
  unfold enc_type. apply Forall_app; split; [apply byte_be32|].
  assert (Hi : 0 <= idx < 256).
  { rewrite Heq in Hc. rewrite !zlen_app, zlen_cons in Hc.
    pose proof (zlen_nonneg pre'). pose proof (zlen_nonneg post). pose proof (zlen_nonneg (name_of l)). lia. }
  constructor; [unfold byte; destruct (is_dst l); lia|]. constructor; [unfold byte; lia|constructor].
Qed.

Lemma block_full_bytes ver ts z std ut : (ver = 0 \/ ver = 50 \/ ver = 51) ->
  zone_writable_full ts z std ut -> Forall byte (tzif_block_full ver ts z std ut).
Proof.
  intros Hver (Hne & Hty & Hcc & Htr & Hinc & Htc & Hlp & Hlc & Hind).
  pose proof (types_le_table (local_time_types z)) as Hyc.
  unfold tzif_block_full, tzif_header_full.
  repeat (apply Forall_app; split); try apply byte_be32.
  - destruct Hver as [-> | [-> | ->]]; repeat constructor; unfold byte; lia.
  - repeat constructor; unfold byte; lia.
  - apply Forall_flat_map. apply Forall_forall. intros t _. apply byte_be_time.
  - apply Forall_map'. eapply Forall_impl; [|exact Htr]. intros t [_ Hi]. unfold byte. lia.
  - apply byte_types. exact Hcc.
  - apply byte_desig_table. exact Hty.
  - apply Forall_flat_map. apply Forall_forall. intros l _. unfold enc_leap.
    apply Forall_app; split; [apply byte_be_time|apply byte_be32].
  - apply Forall_map'. apply Forall_forall. intros b _. unfold byte. destruct b; cbn; lia.
  - apply Forall_map'. apply Forall_forall. intros b _. unfold byte. destruct b; cbn; lia.
Qed.

Theorem writer_output_ok_v1 z std ut : zone_writable_full 4 z std ut -> data_ok (write_tzif_v1_full z std ut).
Proof.
  intros Hw. unfold write_tzif_v1_full. split.
  - pose proof (block_full_bound 0 4 z std ut ltac:(auto) (writable_layout _ _ _ _ Hw)). unfold i64_max. lia.
  - apply block_full_bytes; auto.
Qed.
Theorem writer_output_ok_v23 ver z32 std32 ut32 z std ut : (ver = 50 \/ ver = 51) ->
  zone_writable_full 4 z32 std32 ut32 -> zone_writable_full 8 z std ut -> footer_writable ver z ->
  data_ok (write_tzif_v23_full ver z32 std32 ut32 z std ut).
Proof.
  intros Hver Hw1 Hw Hfw. unfold write_tzif_v23_full. split.
  - pose proof (block_full_bound ver 4 z32 std32 ut32 ltac:(auto) (writable_layout _ _ _ _ Hw1)).
    pose proof (block_full_bound ver 8 z std ut ltac:(auto) (writable_layout _ _ _ _ Hw)).
    pose proof (zlen_footer ver z Hfw). rewrite !zlen_app. unfold i64_max. lia.
  - apply Forall_app; split; [apply block_full_bytes; tauto|].
    apply Forall_app; split; [apply block_full_bytes; tauto|].
    unfold tzif_footer. apply Forall_app; split; [repeat constructor; unfold byte; lia|].
    apply Forall_app; split; [apply txt_byte, footer_body_txt; exact Hfw|repeat constructor; unfold byte; lia].
Qed.
Lemma slim_writable : zone_writable_full 4 slim_zone [] [].
Proof.
  unfold zone_writable_full, slim_zone. cbn [local_time_types transitions leap_seconds].
  split; [discriminate|]. split; [repeat constructor; cbn; lia|]. split; [vm_compute; discriminate|].
  split; [constructor|]. split; [exact I|]. split; [vm_compute; discriminate|].
  split; [split; [constructor|split; exact I]|]. split; [vm_compute; discriminate|].
  split; [left; reflexivity|]. split; [left; reflexivity|]. intros [|i]; discriminate.
Qed.
