(** C03 — op ar.zord: order, partial order, equality and [max] of zone-aware values follow the
    distance of their instants, whatever the two offsets; judge acceptance on arbitrary arguments. *)
From Coq Require Import String ZArith List Bool Lia ZifyBool.
From V Require Import Base.Int Base.IO Base.IntLemmas Spec.Gregorian Model.TimeDelta Model.DateTime Model.C03
  Proofs.C06 Proofs.C03 Proofs.C03Holds Proofs.C03HoldsAr.
From V Require Model.Date Model.Time Judge.C03 Proofs.C01Holds.
Import ListNotations.
Open Scope Z_scope.

Module J := Judge.C03.

Lemma cmpZ_zero x y : (cmpZ x y =? 0) = (x =? y).
Proof. unfold cmpZ. destruct (Z.compare_spec x y); lia. Qed.

Lemma z_eqb_cmp a b : z_eqb a b = (ndt_cmp (dz_utc a) (dz_utc b) =? 0).
Proof.
  unfold z_eqb, ndt_cmp. cbn [cmp_lex]. cbv zeta.
  set (d1 := nd_date (dz_utc a)). set (d2 := nd_date (dz_utc b)).
  set (s1 := Time.tsecs (nd_time (dz_utc a))). set (s2 := Time.tsecs (nd_time (dz_utc b))).
  set (f1 := Time.tfrac (nd_time (dz_utc a))). set (f2 := Time.tfrac (nd_time (dz_utc b))).
  rewrite !cmpZ_zero.
  destruct (d1 =? d2) eqn:E1; cbn [andb].
  - destruct (s1 =? s2) eqn:E2; cbn [andb].
    + destruct (f1 =? f2) eqn:E3; [reflexivity|]. symmetry. rewrite cmpZ_zero. exact E3.
    + symmetry. rewrite cmpZ_zero. exact E2.
  - symmetry. rewrite cmpZ_zero. exact E1.
Qed.

(** value level: all four readings are functions of c = cmpZ (inst u) (inst v) *)
Theorem zord_spec u o1 v o2 : nvalid u -> nvalid v ->
  let c := cmpZ (inst u) (inst v) in
  dz_cmp (mk_dtz u o1) (mk_dtz v o2) = c /\
  zord_obs (mk_dtz u o1) (mk_dtz v o2) = VTup [VInt c; VSome (VInt c); val_of_bool (c =? 0); val_of_bool (0 <=? c)].
Proof.
  intros Vu Vv c.
  destruct (ndt_order_u u v Vu Vv) as (_ & _ & _ & Euv). destruct (ndt_order_u v u Vv Vu) as (_ & _ & _ & Evu).
  destruct (ndt_order_u u u Vu Vu) as (_ & _ & _ & Euu).
  assert (Ec : dz_cmp (mk_dtz u o1) (mk_dtz v o2) = c) by exact Euv.
  split; [exact Ec|]. unfold zord_obs. rewrite Ec. cbn [dz_utc]. rewrite Euv. fold c.
  rewrite !z_eqb_cmp. cbn [dz_utc]. rewrite Euv. fold c.
  unfold z_max. rewrite Ec.
  assert (Hm : (ndt_cmp (dz_utc (if c =? 1 then mk_dtz u o1 else mk_dtz v o2)) u =? 0) = (0 <=? c)).
  { destruct (c =? 1) eqn:E1; cbn [dz_utc].
    - rewrite Euu. unfold cmpZ. rewrite Z.compare_refl. lia.
    - rewrite Evu. unfold c, cmpZ in *. destruct (Z.compare_spec (inst u) (inst v)); destruct (Z.compare_spec (inst v) (inst u)); lia. }
  rewrite Hm. reflexivity.
Qed.

Lemma h_zord args : J.judge B"ar.zord" args (run B"ar.zord" args) <> JSkip ->
  J.judge B"ar.zord" args (run B"ar.zord" args) = JOk.
Proof.
  change (J.judge B"ar.zord" args (run B"ar.zord" args)) with (J.j_zord args (a2 dec_dtz dec_dtz args zord_obs)).
  unfold J.j_zord, a2. destruct args as [|x [|y [|? ?]]]; try congruence.
  destruct (J.inst_of_dtz x) as [[| |t1] o1] eqn:Ex; try congruence.
  destruct (J.inst_of_dtz y) as [[| |t2] o2] eqn:Ey; try congruence. intros _.
  destruct (dtz_bridge x t1 o1 Ex) as (u & Du & Vu & Iu & _). destruct (dtz_bridge y t2 o2 Ey) as (v & Dv & Vv & Iv & _).
  rewrite Du, Dv. rewrite (proj2 (zord_spec u o1 v o2 Vu Vv)). rewrite cmpZ_diff, Iu, Iv.
  apply C01Holds.judge_eq_refl.
Qed.

(** the case the op is made for: 10:00+01:00 is the same instant as 09:00Z and later on the wall clock
    than 09:30Z, which is the later instant *)
Lemma zord_examples :
  run B"ar.zord" [VTup [VInt 2024; VInt 60; VInt 32400; VInt 0; VInt 3600]; VTup [VInt 2024; VInt 60; VInt 32400; VInt 0; VInt 0]]
    = VTup [VInt 0; VSome (VInt 0); VInt 1; VInt 1] /\
  run B"ar.zord" [VTup [VInt 2024; VInt 60; VInt 32400; VInt 0; VInt 3600]; VTup [VInt 2024; VInt 60; VInt 34200; VInt 0; VInt 0]]
    = VTup [VInt (-1); VSome (VInt (-1)); VInt 0; VInt 0] /\
  J.judge B"ar.zord" [VTup [VInt 2024; VInt 60; VInt 32400; VInt 0; VInt 3600]; VTup [VInt 2024; VInt 60; VInt 34200; VInt 0; VInt 0]]
    (VTup [VInt (-1); VSome (VInt (-1)); VInt 0; VInt 0]) = JOk.
Proof. vm_compute. repeat split; reflexivity. Qed.
