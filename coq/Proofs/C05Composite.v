(** C05, COMPOSITE zones: a transition table followed by a footer rule (every real TZif v2+ file of
    a zone that still observes daylight time).  The model ([find_local_time_type_from_local]) scans
    the table and hands a reading past every window to the rule code; the oracle (Spec/Zone.v
    [zone_off]) uses the table up to the last transition and the rule after it.

    - [last_window]: the last transition of a table (instant, offset before, offset after);
    - [footer_continues]: the decidable continuity condition between table and rule;
    - [footer_facts]: what the condition buys (pure arithmetic on the year's two rule transitions,
      through [rule_is_dst_year]);
    - [composite_instants]: S(l) of the composite zone is S(l) of the table alone up to the last
      window and S(l) of the rule alone after it;
    - [composite_classification]: None / Single / Ambiguous(earliest, latest) exactly as S(l) is
      [] / [t] / [t1; t2], for every wall reading off the excepted seconds;
    - [roundtrip_composite]: the answer at the wall reading of an instant contains that instant. *)
From Coq Require Import ZArith List Bool Lia ZifyBool.
From V Require Import Base.Int Base.IO Spec.Gregorian Spec.Zone.
From V Require Import Model.TzParser Model.TzRule Model.TzLookup.
From V Require Import Proofs.TzCommon Proofs.C05.
Import ListNotations.
Open Scope Z_scope.

(** * The last transition of a table *)
Fixpoint last_window (tr : list (Z * Z)) (cur : Z) : option (Z * Z * Z) :=
  match tr with
  | [] => None
  | (t, o) :: rest =>
      match last_window rest o with
      | Some w => Some w
      | None => Some (t, cur, o)
      end
  end.

(* the rule's offset at an instant (Spec/Zone.v [rule_off] of an alternating rule) *)
Definition roff (r : srule) (t : Z) : Z := if rule_is_dst r t then r_dst r else r_std r.

(** The continuity condition.  With (tl, pv, ol) the last table transition, k the calendar year of
    its wall reading and S, E the rule's two transitions of that year:
    - read on every clock involved, the last transition lies in the one calendar year k (implied by
      the property's premise when, as in every real file, the last table transition is itself one
      of the rule's transitions);
    - the offset in force after the last transition is the rule's offset there;
    - a rule transition after tl has its wall-clock window after the last table window, a rule
      transition at or before tl has it at or before the end of the last table window. *)
Definition footer_continues (z : szone) : bool :=
  match last_window (z_trans z) (z_first z), z_rule z with
  | Some (tl, pv, ol), Some (inr r) =>
      let k := utc_year (tl + ol) in
      let hi := tl + Z.max pv ol in
      let lo := Z.min (r_std r) (r_dst r) in
      let up := Z.max (r_std r) (r_dst r) in
      (year_start k <=? tl + lo) && (tl + Z.max up pv <? year_start (k + 1)) &&
      (roff r tl =? ol) &&
      forallb (fun T => if T <=? tl then T + up <=? hi else hi <? T + lo)
              [rule_start_utc r k; rule_end_utc r k]
  | _, _ => false
  end.
(* the year whose rule transitions the condition looks at; the end of the last table window *)
Definition footer_year (z : szone) : Z :=
  match last_window (z_trans z) (z_first z) with Some (tl, _, ol) => utc_year (tl + ol) | None => 0 end.
Definition footer_hi (z : szone) : Z :=
  match last_window (z_trans z) (z_first z) with Some (tl, pv, ol) => tl + Z.max pv ol | None => 0 end.

Lemma last_window_none tr cur : last_window tr cur = None -> tr = [].
Proof.
  destruct tr as [|[t o] rest]; [reflexivity|]. cbn [last_window].
  destruct (last_window rest o); discriminate.
Qed.

Lemma last_window_in : forall tr cur tl pv ol, last_window tr cur = Some (tl, pv, ol) ->
  In (tl + Z.min pv ol, tl + Z.max pv ol) (windows tr cur).
Proof.
  induction tr as [|[t o] rest IH]; intros cur tl pv ol H; cbn [last_window windows] in *; [discriminate|].
  destruct (last_window rest o) as [w|] eqn:E.
  - injection H as ->. right. apply IH. exact E.
  - injection H as -> -> ->. left. reflexivity.
Qed.

Lemma last_window_last_trans : forall tr cur tl pv ol, last_window tr cur = Some (tl, pv, ol) ->
  last_trans tr = Some tl.
Proof.
  induction tr as [|[t o] rest IH]; intros cur tl pv ol H; cbn [last_window] in H; [discriminate|].
  destruct (last_window rest o) as [w|] eqn:E.
  - injection H as ->. specialize (IH o tl pv ol E). unfold last_trans in *. cbn [rev].
    destruct (rev rest) as [|[t2 o2] r2]; [discriminate|]. cbn [app]. exact IH.
  - injection H as -> -> ->. apply last_window_none in E. subst rest. reflexivity.
Qed.

(* at and after the last transition the table stays at its last offset *)
Lemma last_window_after : forall tr cur tl pv ol, increasing tr = true ->
  last_window tr cur = Some (tl, pv, ol) ->
  (forall t1 o1 r, tr = (t1, o1) :: r -> t1 <= tl) /\
  (forall t, tl <= t -> table_off tr cur t = ol).
Proof.
  induction tr as [|[t o] rest IH]; intros cur tl pv ol Hinc H; cbn [last_window] in H; [discriminate|].
  assert (Hinc' : increasing rest = true).
  { destruct rest as [|[t2 o2] r]; [reflexivity|]. cbn [increasing] in Hinc. apply andb_prop in Hinc. tauto. }
  destruct (last_window rest o) as [w|] eqn:E.
  - injection H as ->. destruct (IH o tl pv ol Hinc' E) as [Hh Ha].
    assert (Ht : t <= tl).
    { destruct rest as [|[t2 o2] r]; [discriminate|]. specialize (Hh t2 o2 r eq_refl).
      cbn [increasing] in Hinc. apply andb_prop in Hinc. lia. }
    split.
    + intros t1 o1 r Eq. injection Eq as <- _ _. exact Ht.
    + intros x Hx. cbn [table_off]. destruct (t <=? x) eqn:Ex; [|lia]. apply Ha. exact Hx.
  - injection H as -> -> ->. apply last_window_none in E. subst rest. split.
    + intros t1 o1 r Eq. injection Eq as <- _ _. lia.
    + intros x Hx. cbn [table_off]. destruct (tl <=? x) eqn:Ex; [reflexivity|lia].
Qed.

(* an instant before the last transition reads at or before the end of the last window *)
Lemma last_window_before : forall tr cur tl pv ol, ordered (windows tr cur) = true ->
  last_window tr cur = Some (tl, pv, ol) ->
  forall t, t < tl -> t + table_off tr cur t <= tl + Z.max pv ol.
Proof.
  induction tr as [|[t1 o1] rest IH]; intros cur tl pv ol Hord H t Ht; cbn [last_window] in H; [discriminate|].
  cbn [windows] in Hord. cbn [table_off].
  destruct (last_window rest o1) as [w|] eqn:E.
  - injection H as ->.
    destruct (t1 <=? t) eqn:Et.
    + apply (IH o1 tl pv ol); [eapply ordered_tail; exact Hord|exact E|exact Ht].
    + pose proof (ordered_head_lt _ _ _ (windows_le rest o1) Hord _ (last_window_in _ _ _ _ _ E)) as Hlt.
      cbn [fst] in Hlt. lia.
  - injection H as -> -> ->. apply last_window_none in E. subst rest. cbn [table_off].
    destruct (tl <=? t) eqn:Et; lia.
Qed.

(** * Where the scan stops *)
Lemma scanL_inr : forall ps prev l last tl pv ol, scanL ps prev l = inr last ->
  last_window (offs ps) (ut_offset prev) = Some (tl, pv, ol) ->
  tl + Z.max pv ol < l /\ ut_offset last = ol.
Proof.
  induction ps as [|[t1 after] rest IH]; intros prev l last tl pv ol Hs Hw; [discriminate|].
  cbn [offs map fst snd last_window] in Hw. fold (offs rest) in Hw. cbn [scanL] in Hs.
  assert (Hrec : scanL rest after l = inr last /\ t1 + Z.max (ut_offset prev) (ut_offset after) < l).
  { destruct (Z.compare_spec (t1 + ut_offset prev) (t1 + ut_offset after)) as [Hc|Hc|Hc];
      repeat match type of Hs with
      | (if ?c then _ else _) = _ => destruct c eqn:?; try discriminate
      end; split; try exact Hs; lia. }
  destruct Hrec as [Hs' Hl].
  destruct (last_window (offs rest) (ut_offset after)) as [w|] eqn:E.
  - injection Hw as ->. exact (IH after l last tl pv ol Hs' E).
  - injection Hw as <- <- <-. apply last_window_none in E. destruct rest; [|discriminate].
    cbn [scanL] in Hs'. injection Hs' as <-. split; [exact Hl|reflexivity].
Qed.

Lemma scanL_inl : forall ps prev l m tl pv ol, ordered (windows (offs ps) (ut_offset prev)) = true ->
  scanL ps prev l = inl m ->
  last_window (offs ps) (ut_offset prev) = Some (tl, pv, ol) ->
  l <= tl + Z.max pv ol.
Proof.
  induction ps as [|[t1 after] rest IH]; intros prev l m tl pv ol Hord Hs Hw; [discriminate|].
  cbn [offs map fst snd last_window windows] in Hw, Hord. fold (offs rest) in Hw, Hord. cbn [scanL] in Hs.
  assert (Hrec : l <= t1 + Z.max (ut_offset prev) (ut_offset after) \/ scanL rest after l = inl m).
  { destruct (Z.compare_spec (t1 + ut_offset prev) (t1 + ut_offset after)) as [Hc|Hc|Hc];
      repeat match type of Hs with
      | (if ?c then _ else _) = _ => destruct c eqn:?
      end; try (right; exact Hs); left; lia. }
  destruct (last_window (offs rest) (ut_offset after)) as [w|] eqn:E.
  - injection Hw as ->. destruct Hrec as [Hl|Hs'].
    + pose proof (ordered_head_lt _ _ _ (windows_le (offs rest) (ut_offset after)) Hord _ (last_window_in _ _ _ _ _ E)) as Hlt.
      cbn [fst] in Hlt. lia.
    + apply (IH after l m tl pv ol); [eapply ordered_tail; exact Hord|exact Hs'|exact E].
  - injection Hw as <- <- <-. apply last_window_none in E. destruct rest; [|discriminate].
    destruct Hrec as [Hl|Hs']; [exact Hl|discriminate].
Qed.

(** * What the continuity condition buys *)
Lemma ite_bool (c x y : bool) : (if c then x else y) = (c && x || negb c && y).
Proof. destruct c, x, y; reflexivity. Qed.

(* the arithmetic core, over an abstract daylight predicate b that is the interval predicate of
   the two transitions S, E for every instant read inside the year [ys, ye) on either clock *)
Lemma footer_arith (b : Z -> bool) S E std dst ys ye tl pv ol :
  (forall t, ys <= t + std < ye \/ ys <= t + dst < ye ->
     b t = (if S <? E then (S <=? t) && (t <? E) else (t <? E) || (S <=? t))) ->
  (ys <=? tl + Z.min std dst) = true -> (tl + Z.max (Z.max std dst) pv <? ye) = true ->
  ((if b tl then dst else std) =? ol) = true ->
  (if S <=? tl then S + Z.max std dst <=? tl + Z.max pv ol else tl + Z.max pv ol <? S + Z.min std dst) = true ->
  (if E <=? tl then E + Z.max std dst <=? tl + Z.max pv ol else tl + Z.max pv ol <? E + Z.min std dst) = true ->
  (if b tl then dst else std) = ol /\
  (forall t, t < tl -> t + (if b t then dst else std) <= tl + Z.max pv ol) /\
  (forall t, tl < t -> t + ol <= tl + Z.max pv ol -> (if b t then dst else std) = ol) /\
  (forall t, tl < t -> t + (if b t then dst else std) <= tl + Z.max pv ol -> (if b t then dst else std) = ol).
Proof.
  intros Hd H1 H2 H3 H4 H5. pose proof (Hd tl) as Htl.
  rewrite ite_bool in H4, H5, Htl.
  split; [lia|]. split; [|split].
  - intros t Ht. pose proof (Hd t) as Hdt. rewrite ite_bool in Hdt.
    destruct (b t) eqn:Bt, (b tl) eqn:Btl; lia.
  - intros t Ht Hle. pose proof (Hd t) as Hdt. rewrite ite_bool in Hdt.
    destruct (b t) eqn:Bt, (b tl) eqn:Btl; lia.
  - intros t Ht Hle. pose proof (Hd t) as Hdt. rewrite ite_bool in Hdt.
    destruct (b t) eqn:Bt, (b tl) eqn:Btl; lia.
Qed.

(* reading the condition *)
Lemma footer_continues_inv z : footer_continues z = true ->
  exists tl pv ol r, last_window (z_trans z) (z_first z) = Some (tl, pv, ol) /\ z_rule z = Some (inr r) /\
    (year_start (utc_year (tl + ol)) <=? tl + Z.min (r_std r) (r_dst r)) = true /\
    (tl + Z.max (Z.max (r_std r) (r_dst r)) pv <? year_start (utc_year (tl + ol) + 1)) = true /\
    (roff r tl =? ol) = true /\
    (if rule_start_utc r (utc_year (tl + ol)) <=? tl
     then rule_start_utc r (utc_year (tl + ol)) + Z.max (r_std r) (r_dst r) <=? tl + Z.max pv ol
     else tl + Z.max pv ol <? rule_start_utc r (utc_year (tl + ol)) + Z.min (r_std r) (r_dst r)) = true /\
    (if rule_end_utc r (utc_year (tl + ol)) <=? tl
     then rule_end_utc r (utc_year (tl + ol)) + Z.max (r_std r) (r_dst r) <=? tl + Z.max pv ol
     else tl + Z.max pv ol <? rule_end_utc r (utc_year (tl + ol)) + Z.min (r_std r) (r_dst r)) = true.
Proof.
  unfold footer_continues.
  destruct (last_window (z_trans z) (z_first z)) as [[[tl pv] ol]|]; [|discriminate].
  destruct (z_rule z) as [[o|r]|]; try discriminate.
  cbv zeta. cbn [forallb]. rewrite andb_true_r. intros H.
  apply andb_prop in H. destruct H as [H H4].
  apply andb_prop in H. destruct H as [H H3].
  apply andb_prop in H. destruct H as [H1 H2].
  apply andb_prop in H4. destruct H4 as [H4 H5].
  exists tl, pv, ol, r. repeat (split; [assumption || reflexivity|]). assumption.
Qed.
Lemma footer_continues_last first tr rl : footer_continues (mk_szone first tr rl) = true ->
  exists tl pv ol, last_window tr first = Some (tl, pv, ol).
Proof.
  intros H. destruct (footer_continues_inv _ H) as (tl & pv & ol & r & Hlw & _).
  exists tl, pv, ol. exact Hlw.
Qed.

Lemma footer_facts first tr r tl pv ol :
  last_window tr first = Some (tl, pv, ol) ->
  footer_continues (mk_szone first tr (Some (inr r))) = true ->
  rule_year_hyps r (utc_year (tl + ol)) ->
  let hi := tl + Z.max pv ol in
  roff r tl = ol /\
  (forall t, t < tl -> t + roff r t <= hi) /\
  (forall t, tl < t -> t + ol <= hi -> roff r t = ol) /\
  (forall t, tl < t -> t + roff r t <= hi -> roff r t = ol).
Proof.
  intros Hlw Hfc Hyp.
  destruct (footer_continues_inv _ Hfc) as (tl' & pv' & ol' & r' & Hlw' & Hr' & H1 & H2 & H3 & H4 & H5).
  cbn [z_trans z_first z_rule] in Hlw', Hr'. rewrite Hlw in Hlw'. injection Hlw' as <- <- <-. injection Hr' as <-.
  pose proof (fun t => rule_is_dst_year r (utc_year (tl + ol)) t Hyp) as Hd.
  cbv zeta. unfold roff in *.
  exact (footer_arith (rule_is_dst r) _ _ _ _ _ _ tl pv ol Hd H1 H2 H3 H4 H5).
Qed.

(** * The oracle on a composite zone *)
Lemma roff_in_offsets first tr r t : In (roff r t) (zone_offsets (mk_szone first tr (Some (inr r)))).
Proof.
  unfold zone_offsets. cbn [z_trans z_rule z_first]. rewrite In_dedup. right. apply in_or_app. right.
  unfold roff. destruct (rule_is_dst r t); cbn; auto.
Qed.
Lemma table_off_in_composite first tr r t :
  In (table_off tr first t) (zone_offsets (mk_szone first tr (Some (inr r)))).
Proof.
  unfold zone_offsets. cbn [z_trans z_rule z_first]. rewrite In_dedup.
  destruct (table_off_in tr first t) as [H|H]; [left; exact H|right; apply in_or_app; left; exact H].
Qed.

(* the prescribed offset: the table before the last transition, the rule from it on *)
Lemma zone_off_composite first tr r tl pv ol t :
  increasing tr = true -> last_window tr first = Some (tl, pv, ol) -> roff r tl = ol ->
  zone_off (mk_szone first tr (Some (inr r))) t =
  Some (if t <? tl then table_off tr first t else roff r t).
Proof.
  intros Hinc Hlw Hc. unfold zone_off. cbn [z_trans z_rule z_first rule_off].
  rewrite (last_window_last_trans _ _ _ _ _ Hlw). fold (roff r t).
  destruct (tl <? t) eqn:E1.
  - replace (t <? tl) with false by lia. reflexivity.
  - destruct (t =? tl) eqn:E2.
    + replace (t <? tl) with false by lia. assert (t = tl) by lia. subst t.
      rewrite (proj2 (last_window_after _ _ _ _ _ Hinc Hlw) tl (Z.le_refl _)), Hc, Z.eqb_refl. reflexivity.
    + replace (t <? tl) with true by lia. reflexivity.
Qed.

Lemma instants_composite first tr r tl pv ol l t :
  increasing tr = true -> last_window tr first = Some (tl, pv, ol) -> roff r tl = ol ->
  In t (instants_of_wall (mk_szone first tr (Some (inr r))) l) <->
  t + (if t <? tl then table_off tr first t else roff r t) = l.
Proof.
  intros Hinc Hlw Hc. rewrite instants_of_wall_spec, (zone_off_composite first tr r tl pv ol t Hinc Hlw Hc). split.
  - intros [H _]. injection H as H. lia.
  - intros H. split; [f_equal; lia|]. replace (l - t) with (if t <? tl then table_off tr first t else roff r t) by lia.
    destruct (t <? tl); [apply table_off_in_composite|apply roff_in_offsets].
Qed.
Lemma instants_rule_only first r l t :
  In t (instants_of_wall (mk_szone first [] (Some (inr r))) l) <-> t + roff r t = l.
Proof.
  rewrite instants_of_wall_spec, (zone_off_rule first [] r t I). fold (roff r t). split.
  - intros [H _]. injection H as H. lia.
  - intros H. split; [f_equal; lia|]. replace (l - t) with (roff r t) by lia. apply roff_in_offsets.
Qed.

(** S(l) of the composite zone: up to the end of the last table window it is S(l) of the table alone,
    after it S(l) of the rule alone *)
Theorem composite_instants first tr r tl pv ol l :
  increasing tr = true -> ordered (windows tr first) = true ->
  last_window tr first = Some (tl, pv, ol) ->
  footer_continues (mk_szone first tr (Some (inr r))) = true ->
  rule_year_hyps r (utc_year (tl + ol)) ->
  let cz := mk_szone first tr (Some (inr r)) in
  (l <= tl + Z.max pv ol ->
   forall t, In t (instants_of_wall cz l) <-> In t (instants_of_wall (mk_szone first tr None) l)) /\
  (tl + Z.max pv ol < l ->
   forall t, In t (instants_of_wall cz l) <-> In t (instants_of_wall (mk_szone first [] (Some (inr r))) l)).
Proof.
  intros Hinc Hord Hlw Hfc Hyp cz.
  destruct (footer_facts first tr r tl pv ol Hlw Hfc Hyp) as (Hc & Hbefore & Ha1 & Ha2). cbv zeta in *.
  pose proof (proj2 (last_window_after _ _ _ _ _ Hinc Hlw)) as Hafter.
  pose proof (last_window_before _ _ _ _ _ Hord Hlw) as Htb.
  split; intros Hl t; unfold cz; rewrite (instants_composite first tr r tl pv ol l t Hinc Hlw Hc).
  - rewrite instants_of_wall_table. destruct (t <? tl) eqn:E; [tauto|].
    rewrite (Hafter t ltac:(lia)).
    destruct (Z.eq_dec t tl) as [->|Hne]; [rewrite Hc; tauto|].
    split; intros H.
    + rewrite (Ha2 t ltac:(lia) ltac:(lia)) in H. exact H.
    + rewrite (Ha1 t ltac:(lia) ltac:(lia)). exact H.
  - rewrite instants_rule_only. destruct (t <? tl) eqn:E; [|tauto].
    specialize (Htb t ltac:(lia)). specialize (Hbefore t ltac:(lia)). lia.
Qed.

(** * The model's answer on a composite zone, against the oracle *)
(* the premises on the rule for the wall reading l (needed only past the last table window):
   the year fits the rule code's arithmetic, the property's premise holds around it, and the
   year's two transition windows are disjoint and in order *)
Definition rule_reading_hyps (a : alt_time) (l : Z) : Prop :=
  let k := utc_year l in
  -2147483650 <= k <= 2147483650 /\ rule_year_hyps (conv_rule a) k /\
  ordered (windows (offs (fst (year_table a k))) (ut_offset (snd (year_table a k)))) = true.

Definition classified (z : szone) (l : Z) (m : mlt ltt) : Prop :=
  let S := instants_of_wall z l in
  match m with
  | MNone => S = []
  | MSingle x => forall t, In t S <-> t = l - ut_offset x
  | MAmbiguous x y => l - ut_offset x < l - ut_offset y /\
                      forall t, In t S <-> t = l - ut_offset x \/ t = l - ut_offset y
  end.
Lemma classified_ext z z' l m :
  (forall t, In t (instants_of_wall z l) <-> In t (instants_of_wall z' l)) ->
  classified z' l m -> classified z l m.
Proof.
  intros Hiff. unfold classified. cbv zeta. destruct m as [|x|x y].
  - intros H'. destruct (instants_of_wall z l) as [|t rest] eqn:E; [reflexivity|].
    exfalso. assert (Hin : In t (instants_of_wall z' l)) by (apply Hiff; left; reflexivity).
    rewrite H' in Hin. exact Hin.
  - intros H t. rewrite Hiff. apply H.
  - intros [Hlt H]. split; [exact Hlt|]. intros t. rewrite Hiff. apply H.
Qed.

(* ... which pins the list itself: instants_of_wall is duplicate-free and ascending *)
Lemma NoDup_insert y l : ~ In y l -> NoDup l -> NoDup (insert_z y l).
Proof.
  induction l as [|a r IH]; intros Hn Hd; cbn [insert_z]; [constructor; [exact Hn|constructor]|].
  destruct (y <=? a); [constructor; assumption|].
  inversion Hd as [|? ? Ha Hr]; subst. constructor.
  - rewrite In_insert. intros [->|H]; [apply Hn; left; reflexivity|contradiction].
  - apply IH; [intros H; apply Hn; right; exact H|exact Hr].
Qed.
Lemma NoDup_sort l : NoDup l -> NoDup (sort_z l).
Proof.
  induction 1 as [|a r Ha Hr IH]; cbn [sort_z fold_right]; [constructor|].
  fold (sort_z r). apply NoDup_insert; [rewrite In_sort; exact Ha|exact IH].
Qed.
Lemma instants_of_wall_nodup z l : NoDup (instants_of_wall z l).
Proof. unfold instants_of_wall, instants_of_wall_among. apply NoDup_sort, NoDup_dedup. Qed.

Definition cand_instants (l : Z) (m : mlt ltt) : list Z :=
  match m with
  | MNone => []
  | MSingle x => [l - ut_offset x]
  | MAmbiguous x y => [l - ut_offset x; l - ut_offset y]
  end.
Lemma classified_list z l m : classified z l m -> instants_of_wall z l = cand_instants l m.
Proof.
  unfold classified. cbv zeta. pose proof (instants_of_wall_nodup z l) as Hnd.
  pose proof (instants_of_wall_asc z l) as Hasc.
  destruct m as [|x|x y]; cbn [cand_instants]; [tauto| |].
  - intros H. destruct (instants_of_wall z l) as [|a [|b r]].
    + exfalso. apply (H (l - ut_offset x)). reflexivity.
    + f_equal. apply H. left. reflexivity.
    + exfalso. inversion Hnd as [|? ? Hna _]; subst.
      assert (a = l - ut_offset x) by (apply H; left; reflexivity).
      assert (b = l - ut_offset x) by (apply H; right; left; reflexivity).
      apply Hna. left. congruence.
  - intros [Hlt H]. destruct (instants_of_wall z l) as [|a [|b [|c r]]].
    + exfalso. apply (H (l - ut_offset x)). left. reflexivity.
    + exfalso. assert (E1 : l - ut_offset x = a) by (destruct (proj2 (H (l - ut_offset x)) (or_introl eq_refl)) as [E|[]]; congruence).
      assert (E2 : l - ut_offset y = a) by (destruct (proj2 (H (l - ut_offset y)) (or_intror eq_refl)) as [E|[]]; congruence).
      lia.
    + inversion Hnd as [|? ? Hna _]; subst.
      assert (Ha : a = l - ut_offset x \/ a = l - ut_offset y) by (apply H; left; reflexivity).
      assert (Hb : b = l - ut_offset x \/ b = l - ut_offset y) by (apply H; right; left; reflexivity).
      assert (a <> b) by (intros ->; apply Hna; left; reflexivity).
      cbn [asc] in Hasc. f_equal; [|f_equal]; lia.
    + exfalso. inversion Hnd as [|? ? Hna Hnd']; subst. inversion Hnd' as [|? ? Hnb _]; subst.
      assert (Ha : a = l - ut_offset x \/ a = l - ut_offset y) by (apply H; left; reflexivity).
      assert (Hb : b = l - ut_offset x \/ b = l - ut_offset y) by (apply H; right; left; reflexivity).
      assert (Hc : c = l - ut_offset x \/ c = l - ut_offset y) by (apply H; right; right; left; reflexivity).
      assert (a <> b) by (intros ->; apply Hna; left; reflexivity).
      assert (a <> c) by (intros ->; apply Hna; right; left; reflexivity).
      assert (b <> c) by (intros ->; apply Hnb; left; reflexivity).
      lia.
Qed.

Theorem composite_classification z ps first a l :
  let k := utc_year l in let r := conv_rule a in
  let cz := mk_szone (ut_offset first) (offs ps) (Some (inr r)) in
  table_zone z ps first -> extra_rule z = Some (Alternate a) -> alt_ok a -> r_std r <> r_dst r ->
  increasing (offs ps) = true -> spacing_table (offs ps) (ut_offset first) = true ->
  footer_continues cz = true -> rule_year_hyps r (footer_year cz) ->
  (footer_hi cz < l -> rule_reading_hyps a l) ->
  excepted_wall cz l = false ->
  exists m, find_local_time_type_from_local z k l = Val (Ok m) /\
  let S := instants_of_wall cz l in
  match m with
  | MNone => S = []
  | MSingle x => forall t, In t S <-> t = l - ut_offset x
  | MAmbiguous x y => l - ut_offset x < l - ut_offset y /\
                      forall t, In t S <-> t = l - ut_offset x \/ t = l - ut_offset y
  end.
Proof.
  intros k r cz Hz Hr Ha Hne Hinc Hsp Hfc Hfy Hrl Hex.
  change (exists m, find_local_time_type_from_local z k l = Val (Ok m) /\ classified cz l m).
  unfold spacing_table in Hsp.
  (* the last table transition exists *)
  destruct (footer_continues_last _ _ _ Hfc) as (tl & pv & ol & Hlw).
  unfold footer_year, footer_hi, cz in Hfy, Hrl. cbn [z_trans z_first z_rule] in Hfy, Hrl. rewrite Hlw in Hfy, Hrl.
  destruct (composite_instants (ut_offset first) (offs ps) r tl pv ol l Hinc Hsp Hlw Hfc Hfy) as [HA HB].
  unfold excepted_wall, cz in Hex. cbn [z_trans z_first z_rule] in Hex. apply orb_false_elim in Hex.
  destruct Hex as [Hext Hexr].
  rewrite (from_local_scan z ps first k l Hz), Hr.
  destruct (scanL ps first l) as [m|last] eqn:Es.
  - (* decided by the table *)
    exists m. split; [reflexivity|].
    pose proof (scanL_inl _ _ _ _ _ _ _ Hsp Es Hlw) as Hl.
    apply (classified_ext cz (mk_szone (ut_offset first) (offs ps) None)); [exact (HA Hl)|].
    pose proof (table_classification ps first l Hinc Hsp Hext) as H. cbv zeta in H.
    unfold table_answer in H. rewrite Es in H. unfold classified. cbv zeta.
    destruct m as [|x|x y].
    + destruct (instants_of_wall (mk_szone (ut_offset first) (offs ps) None) l) as [|t rest] eqn:E; [reflexivity|].
      exfalso. apply (H t). apply instants_of_wall_table. rewrite E. left. reflexivity.
    + destruct H as [Hx Hu]. intros t. rewrite instants_of_wall_table. split; [apply Hu|intros ->; exact Hx].
    + destruct H as (Hx & Hy & Hlt & Hu). split; [exact Hlt|]. intros t. rewrite instants_of_wall_table.
      split; [apply Hu|intros [-> | ->]; assumption].
  - (* past every window: the rule *)
    destruct (scanL_inr _ _ _ _ _ _ _ Es Hlw) as [Hl _].
    destruct (Hrl Hl) as (Hk & Hyk & Hyo). fold k in Hk, Hyk, Hyo.
    (* the rule-only zone with the same rule *)
    set (z0 := mk_tz [] [first] [] (Some (Alternate a))).
    pose proof (rule_zone_classification z0 a first l eq_refl eq_refl eq_refl Ha Hk Hne Hyk) as Hc.
    pose proof (from_local_rule_zone z0 a first k l eq_refl eq_refl eq_refl Ha Hk Hne) as Hm0.
    pose proof (rule_local_as_table a k l Ha Hk Hne) as Hm.
    pose proof (excepted_wall_year_table a (ut_offset first) l) as Hey.
    cbv zeta in Hc, Hey. fold k r in Hc, Hey.
    destruct (year_table a k) as [yps yprev]. cbn [fst snd] in Hyo.
    assert (Hexy : excepted_table (offs yps) (ut_offset yprev) l = false).
    { apply Hey. unfold excepted_wall. cbn [z_trans z_first z_rule excepted_table orb]. exact Hexr. }
    specialize (Hc Hyo Hexy). specialize (Hm0 Hyo Hexy). specialize (Hm Hyo Hexy).
    destruct Hc as (m & Hm0' & Hcl). rewrite Hm0 in Hm0'. injection Hm0' as <-.
    exists (table_answer yps yprev l). split.
    + cbn [rule_find_local_time_type_from_local]. rewrite Hm. reflexivity.
    + apply (classified_ext cz (mk_szone (ut_offset first) [] (Some (inr r)))); [exact (HB Hl)|exact Hcl].
Qed.

(** * Round trip on a composite zone: the answer at the wall reading of an instant contains it *)
Theorem roundtrip_composite z ps first a t o :
  let r := conv_rule a in
  let cz := mk_szone (ut_offset first) (offs ps) (Some (inr r)) in
  let l := t + o in
  table_zone z ps first -> extra_rule z = Some (Alternate a) -> alt_ok a -> r_std r <> r_dst r ->
  increasing (offs ps) = true -> spacing_table (offs ps) (ut_offset first) = true ->
  footer_continues cz = true -> rule_year_hyps r (footer_year cz) ->
  (footer_hi cz < l -> rule_reading_hyps a l) ->
  zone_off cz t = Some o -> excepted_wall cz l = false ->
  exists m, find_local_time_type_from_local z (utc_year l) l = Val (Ok m) /\ contains m o.
Proof.
  intros r cz l Hz Hr Ha Hne Hinc Hsp Hfc Hfy Hrl Ho Hex.
  destruct (composite_classification z ps first a l Hz Hr Ha Hne Hinc Hsp Hfc Hfy Hrl Hex) as (m & Hm & Hc).
  exists m. split; [exact Hm|]. cbv zeta in Hc. fold r cz in Hc.
  assert (Hin : In t (instants_of_wall cz l)).
  { apply instants_of_wall_spec. unfold l. replace (t + o - t) with o by lia. split; [exact Ho|].
    (* the offset in force is one of the zone's offsets *)
    destruct (footer_continues_last _ _ _ Hfc) as (tl & pv & ol & Hlw).
    unfold footer_year, cz in Hfy. cbn [z_trans z_first] in Hfy. rewrite Hlw in Hfy.
    destruct (footer_facts _ _ _ _ _ _ Hlw Hfc Hfy) as (Hc1 & _).
    unfold cz in Ho. rewrite (zone_off_composite _ _ _ _ _ _ t Hinc Hlw Hc1) in Ho. injection Ho as <-.
    destruct (t <? tl); [apply table_off_in_composite|apply roff_in_offsets]. }
  destruct m as [|x|x y]; cbn [contains].
  - rewrite Hc in Hin. contradiction.
  - apply Hc in Hin. unfold l in Hin. lia.
  - destruct Hc as [_ Hc]. apply Hc in Hin. unfold l in Hin. lia.
Qed.

(** * The hypotheses are inhabited: Europe/Berlin's two transitions of 2023 followed by the footer
    CET-1CEST,M3.5.0,M10.5.0/3; readings of 2023 (decided by the table) and of 2024 (by the rule) *)
Definition exc_rule : alt_time :=
  mk_alt ex_cet ex_cest (MonthWeekday 3 5 0) 7200 (MonthWeekday 10 5 0) 10800.
Definition exc_zone : timezone :=
  mk_tz [mk_tr 1679792400 1; mk_tr 1698541200 0] [ex_cet; ex_cest] [] (Some (Alternate exc_rule)).
Definition exc_cz : szone := mk_szone (ut_offset ex_cet) (offs ex_ps) (Some (inr (conv_rule exc_rule))).
Lemma exc_table_zone : table_zone exc_zone ex_ps ex_cet.
Proof.
  constructor.
  - reflexivity.
  - repeat constructor.
  - repeat constructor; cbn; unfold t_ok, o_ok; cbn; lia.
  - unfold o_ok. cbn. lia.
Qed.
Lemma exc_alt_ok : alt_ok exc_rule.
Proof.
  unfold alt_ok, ltt_ok, name_ok, day_ok. cbn.
  repeat match goal with |- _ /\ _ => split end; try reflexivity; try lia; try discriminate; repeat constructor.
Qed.
Lemma exc_hyps :
  table_zone exc_zone ex_ps ex_cet /\ extra_rule exc_zone = Some (Alternate exc_rule) /\ alt_ok exc_rule /\
  r_std (conv_rule exc_rule) <> r_dst (conv_rule exc_rule) /\
  increasing (offs ex_ps) = true /\ spacing_table (offs ex_ps) (ut_offset ex_cet) = true /\
  footer_continues exc_cz = true /\ footer_year exc_cz = 2023 /\ footer_hi exc_cz = 1698548400 /\
  rule_year_hyps (conv_rule exc_rule) (footer_year exc_cz).
Proof.
  split; [exact exc_table_zone|]. split; [reflexivity|]. split; [exact exc_alt_ok|].
  split; [cbn; discriminate|].
  vm_compute. repeat match goal with |- _ /\ _ => split end; try reflexivity; discriminate.
Qed.
(* 2024-10-27T02:30 occurs twice, 2024-03-31T02:30 never, 2024-07-01T00:00 once (the rule);
   2023-10-29T02:30 occurs twice (the table) *)
Lemma exc_readings :
  rule_reading_hyps exc_rule 1729996200 /\ rule_reading_hyps exc_rule 1711852200 /\
  rule_reading_hyps exc_rule 1719792000 /\
  excepted_wall exc_cz 1729996200 = false /\ excepted_wall exc_cz 1711852200 = false /\
  excepted_wall exc_cz 1719792000 = false /\ excepted_wall exc_cz 1698546600 = false /\
  find_local_time_type_from_local exc_zone 2024 1729996200 = Val (Ok (MAmbiguous ex_cest ex_cet)) /\
  instants_of_wall exc_cz 1729996200 = [1729989000; 1729992600] /\
  find_local_time_type_from_local exc_zone 2024 1711852200 = Val (Ok MNone) /\
  instants_of_wall exc_cz 1711852200 = [] /\
  find_local_time_type_from_local exc_zone 2024 1719792000 = Val (Ok (MSingle ex_cest)) /\
  instants_of_wall exc_cz 1719792000 = [1719784800] /\
  find_local_time_type_from_local exc_zone 2023 1698546600 = Val (Ok (MAmbiguous ex_cest ex_cet)) /\
  instants_of_wall exc_cz 1698546600 = [1698539400; 1698543000].
Proof.
  vm_compute. repeat match goal with |- _ /\ _ => split end; try reflexivity; discriminate.
Qed.

(** * Instant -> offset on a composite zone: the binary search before the last transition
    (C05_offset_at_before_last), the rule from it on (C05_offset_at_rule), joined by continuity *)
Lemma last_trans_last_of (tr : list (Z * Z)) : last_trans tr = last_of (map fst tr).
Proof. unfold last_trans, last_of. rewrite <- map_rev. destruct (rev tr) as [|[ti o] r]; reflexivity. Qed.
Lemma offs_fst ps : map fst (offs ps) = map fst ps.
Proof. unfold offs. rewrite map_map. reflexivity. Qed.

Theorem offset_at_composite z ps first a tl pv ol t :
  let r := conv_rule a in
  let cz := mk_szone (ut_offset first) (offs ps) (Some (inr r)) in
  table_zone z ps first -> leap_seconds z = [] -> extra_rule z = Some (Alternate a) ->
  increasing (offs ps) = true -> zlen (transitions z) < 4611686018427387904 ->
  last_window (offs ps) (ut_offset first) = Some (tl, pv, ol) -> roff r tl = ol ->
  (tl <= t -> rule_hyps a t) ->
  exists lt, find_local_time_type z t = Val (Ok lt) /\ zone_off cz t = Some (ut_offset lt).
Proof.
  intros r cz Hz Hleap Hr Hinc Hlen Hlw Hc Hrule.
  unfold cz. rewrite (zone_off_composite _ _ _ _ _ _ t Hinc Hlw Hc).
  (* the model's last transition is the table's *)
  assert (Hlast : exists lst, last_of (transitions z) = Some lst /\ tr_time lst = tl).
  { pose proof (last_window_last_trans _ _ _ _ _ Hlw) as H.
    rewrite last_trans_last_of, offs_fst, <- (resolved_times _ _ _ (tz_res _ _ _ Hz)), last_of_map in H.
    destruct (last_of (transitions z)) as [lst|]; [|discriminate]. injection H as H. exists lst. auto. }
  destruct Hlast as (lst & Hlst & Htl).
  destruct (t <? tl) eqn:E.
  - destruct (find_local_time_type_table z ps first t Hz Hleap Hinc Hlen) as (lt & H1 & H2).
    { right. exists lst. split; [exact Hlst|lia]. }
    exists lt. split; [exact H1|]. rewrite H2. reflexivity.
  - rewrite (offset_at_rule z a t Hleap Hr).
    + eexists. split; [reflexivity|]. unfold roff. fold r. destruct (rule_is_dst r t); reflexivity.
    + right. exists lst. split; [exact Hlst|lia].
    + apply Hrule. lia.
Qed.

(** * A table followed by a FIXED footer (zones that abolished daylight time: "JST-9", "<+03>-3"):
    the continuity condition is that the footer's offset is the offset after the last transition;
    the composite zone then has the offset function of its table *)
Lemma zone_off_fixed first tr o t : increasing tr = true ->
  (forall tl pv ol, last_window tr first = Some (tl, pv, ol) -> ol = o) ->
  zone_off (mk_szone first tr (Some (inl o))) t =
  Some (match last_window tr first with Some _ => table_off tr first t | None => o end).
Proof.
  intros Hinc Hc. unfold zone_off. cbn [z_trans z_rule z_first rule_off].
  destruct (last_window tr first) as [[[tl pv] ol]|] eqn:Hlw.
  - rewrite (last_window_last_trans _ _ _ _ _ Hlw). specialize (Hc tl pv ol eq_refl). subst o.
    pose proof (proj2 (last_window_after _ _ _ _ _ Hinc Hlw)) as Ha.
    destruct (tl <? t) eqn:E1; [rewrite (Ha t ltac:(lia)); reflexivity|].
    destruct (t =? tl) eqn:E2; [|reflexivity].
    rewrite (Ha t ltac:(lia)), Z.eqb_refl. reflexivity.
  - apply last_window_none in Hlw. subst tr. reflexivity.
Qed.

Theorem composite_fixed_classification z ps first f y l :
  let cz := mk_szone (ut_offset first) (offs ps) (Some (inl (ut_offset f))) in
  table_zone z ps first -> extra_rule z = Some (Fixed f) ->
  increasing (offs ps) = true -> spacing_table (offs ps) (ut_offset first) = true ->
  (forall tl pv ol, last_window (offs ps) (ut_offset first) = Some (tl, pv, ol) -> ol = ut_offset f) ->
  excepted_wall cz l = false ->
  exists m, find_local_time_type_from_local z y l = Val (Ok m) /\ classified cz l m.
Proof.
  intros cz Hz Hr Hinc Hsp Hc Hex. unfold spacing_table in Hsp.
  unfold excepted_wall, cz in Hex. cbn [z_trans z_first z_rule excepted_rule] in Hex. rewrite orb_false_r in Hex.
  rewrite (from_local_scan z ps first y l Hz), Hr. cbn [rule_find_local_time_type_from_local].
  pose proof (table_classification ps first l Hinc Hsp Hex) as H. cbv zeta in H. unfold table_answer in H.
  (* membership in S(l) *)
  assert (Hiff : forall t, In t (instants_of_wall cz l) <->
            t + (match last_window (offs ps) (ut_offset first) with
                 | Some _ => table_off (offs ps) (ut_offset first) t | None => ut_offset f end) = l).
  { intros t. unfold cz. rewrite instants_of_wall_spec, (zone_off_fixed _ _ _ t Hinc Hc). split.
    - intros [E _]. injection E as E. lia.
    - intros E. split; [f_equal; lia|].
      unfold zone_offsets. cbn [z_trans z_rule z_first]. rewrite In_dedup.
      destruct (last_window (offs ps) (ut_offset first)).
      + replace (l - t) with (table_off (offs ps) (ut_offset first) t) by lia.
        destruct (table_off_in (offs ps) (ut_offset first) t) as [E'|E']; [left; exact E'|right; apply in_or_app; left; exact E'].
      + replace (l - t) with (ut_offset f) by lia. right. apply in_or_app. right. left. reflexivity. }
  assert (Hfin : forall m, (forall o, contains m o <->
                   contains (match scanL ps first l with inl m' => m' | inr last => MSingle last end) o) ->
                 (match m with MAmbiguous a b => ut_offset a > ut_offset b | _ => True end) ->
                 last_window (offs ps) (ut_offset first) <> None -> classified cz l m).
  { intros m Hcont Hord Hsome. unfold classified. cbv zeta.
    destruct (last_window (offs ps) (ut_offset first)) as [w|]; [|contradiction Hsome; reflexivity].
    unfold maps in H.
    destruct (match scanL ps first l with inl m' => m' | inr last => MSingle last end) as [|a|a b];
      destruct m as [|x|x x']; cbn [contains] in Hcont.
    - destruct (instants_of_wall cz l) as [|t rest] eqn:E; [reflexivity|].
      exfalso. apply (H t). apply Hiff. left. reflexivity.
    - exfalso. apply (Hcont (ut_offset x)). reflexivity.
    - exfalso. apply (Hcont (ut_offset x)). left. reflexivity.
    - exfalso. apply (Hcont (ut_offset a)). reflexivity.
    - assert (H0 : ut_offset x = ut_offset a) by (apply (proj2 (Hcont (ut_offset a))); reflexivity).
      destruct H as [Ha Hu]. intros t. rewrite Hiff, H0. split; [apply Hu|intros ->; exact Ha].
    - exfalso. pose proof (proj1 (Hcont (ut_offset x)) (or_introl eq_refl)).
      pose proof (proj1 (Hcont (ut_offset x')) (or_intror eq_refl)). lia.
    - exfalso. apply (Hcont (ut_offset a)). left. reflexivity.
    - exfalso. destruct H as (_ & _ & Hlt & _).
      pose proof (proj2 (Hcont (ut_offset a)) (or_introl eq_refl)).
      pose proof (proj2 (Hcont (ut_offset b)) (or_intror eq_refl)). lia.
    - destruct H as (Ha & Hb & Hlt & Hu).
      pose proof (proj1 (Hcont (ut_offset x)) (or_introl eq_refl)) as Hx.
      pose proof (proj1 (Hcont (ut_offset x')) (or_intror eq_refl)) as Hx'.
      pose proof (proj2 (Hcont (ut_offset a)) (or_introl eq_refl)) as Ha'.
      pose proof (proj2 (Hcont (ut_offset b)) (or_intror eq_refl)) as Hb'.
      assert (ut_offset x = ut_offset a /\ ut_offset x' = ut_offset b) as [E1 E2] by lia.
      split; [lia|]. intros t. rewrite Hiff, E1, E2. split; [apply Hu|intros [-> | ->]; assumption]. }
  destruct (scanL ps first l) as [m|last] eqn:Es.
  - exists m. split; [reflexivity|].
    assert (Hsome : last_window (offs ps) (ut_offset first) <> None).
    { intros E. apply last_window_none in E. destruct ps; [discriminate Es|discriminate E]. }
    apply Hfin; [intros o; tauto| |exact Hsome].
    destruct m as [|a|a b]; try exact I. exact (scanL_order _ _ _ _ _ Es).
  - exists (MSingle f). split; [reflexivity|].
    destruct (last_window (offs ps) (ut_offset first)) as [[[tl pv] ol]|] eqn:Hlw.
    + destruct (scanL_inr _ _ _ _ _ _ _ Es Hlw) as [_ Hl]. specialize (Hc tl pv ol eq_refl).
      apply Hfin; [|exact I|discriminate]. intros o. cbn [contains]. rewrite Hl, Hc. tauto.
    + unfold classified. cbv zeta. intros t. rewrite Hiff. lia.
Qed.

(** * The continuity condition cannot be dropped: a one-transition table whose (no-change) last
    transition sits on the rule's own October transition while the table says standard time was
    already in force before it.  The rule code still sees the fold: Ambiguous, but the wall reading
    occurs once. *)
Definition dis_zone : timezone := mk_tz [mk_tr 1698541200 0] [ex_cet; ex_cest] [] (Some (Alternate exc_rule)).
Definition dis_ps : list (Z * ltt) := [(1698541200, ex_cet)].
Definition dis_cz : szone := mk_szone (ut_offset ex_cet) (offs dis_ps) (Some (inr (conv_rule exc_rule))).
Lemma discontinuous_refuted :
  table_zone dis_zone dis_ps ex_cet /\ extra_rule dis_zone = Some (Alternate exc_rule) /\
  increasing (offs dis_ps) = true /\ spacing_table (offs dis_ps) (ut_offset ex_cet) = true /\
  rule_year_hyps (conv_rule exc_rule) (footer_year dis_cz) /\ rule_reading_hyps exc_rule 1698546600 /\
  footer_hi dis_cz < 1698546600 /\ excepted_wall dis_cz 1698546600 = false /\
  footer_continues dis_cz = false /\
  find_local_time_type_from_local dis_zone 2023 1698546600 = Val (Ok (MAmbiguous ex_cest ex_cet)) /\
  instants_of_wall dis_cz 1698546600 = [1698543000].
Proof.
  split.
  - constructor; [reflexivity|repeat constructor| |unfold o_ok; cbn; lia].
    repeat constructor; cbn; unfold t_ok, o_ok; cbn; lia.
  - vm_compute. repeat match goal with |- _ /\ _ => split end; try reflexivity; discriminate.
Qed.

(* the fixed-footer hypotheses are inhabited: the same two transitions followed by the footer CET-1 *)
Definition fix_zone : timezone :=
  mk_tz [mk_tr 1679792400 1; mk_tr 1698541200 0] [ex_cet; ex_cest] [] (Some (Fixed ex_cet)).
Definition fix_cz : szone := mk_szone (ut_offset ex_cet) (offs ex_ps) (Some (inl (ut_offset ex_cet))).
Lemma fix_facts :
  table_zone fix_zone ex_ps ex_cet /\ extra_rule fix_zone = Some (Fixed ex_cet) /\
  (forall tl pv ol, last_window (offs ex_ps) (ut_offset ex_cet) = Some (tl, pv, ol) -> ol = ut_offset ex_cet) /\
  excepted_wall fix_cz 1719792000 = false /\
  find_local_time_type_from_local fix_zone 2024 1719792000 = Val (Ok (MSingle ex_cet)) /\
  instants_of_wall fix_cz 1719792000 = [1719788400] /\
  excepted_wall fix_cz 1698546600 = false /\
  find_local_time_type_from_local fix_zone 2023 1698546600 = Val (Ok (MAmbiguous ex_cest ex_cet)) /\
  instants_of_wall fix_cz 1698546600 = [1698539400; 1698543000].
Proof.
  split.
  - constructor; [reflexivity|repeat constructor| |unfold o_ok; cbn; lia].
    repeat constructor; cbn; unfold t_ok, o_ok; cbn; lia.
  - split; [reflexivity|]. split.
    + intros tl pv ol H. vm_compute in H. injection H as _ _ <-. reflexivity.
    + vm_compute. repeat match goal with |- _ /\ _ => split end; reflexivity.
Qed.
