(** C06 — the model of src/time_delta.rs computes exact integer nanosecond arithmetic inside the
    closed range, never traps, and refuses exactly the out-of-range results. *)
From Coq Require Import ZArith List Bool Lia ZifyBool String.
From V Require Import Base.Int Base.IntLemmas Base.IO Gen.TimeDelta Model.C06.
Import ListNotations.
Open Scope Z_scope.
Ltac Zify.zify_post_hook ::= Z.to_euclidean_division_equations.

Definition G := 1000000000.
Definition RMAX := 9223372036854775807000000.
Definition RMIN := -9223372036854775807000000.
Definition ns (d : td) : Z := secs d * G + nanos d.
Definition in_rng (n : Z) : Prop := RMIN <= n <= RMAX.
Definition valid (d : td) : Prop := 0 <= nanos d < G /\ in_rng (ns d).

Create HintDb c06.
#[export] Hint Unfold td_new try_seconds try_unit try_weeks try_days try_hours try_minutes try_milliseconds microseconds nanoseconds num_seconds subsec_nanos num_minutes num_hours num_days num_weeks subsec_millis subsec_micros num_milliseconds num_microseconds num_nanoseconds td_checked_add td_checked_sub td_checked_mul td_checked_div td_abs td_neg from_std to_std div_mod_floor_64 bind obind chk chko checked_mul checked_add checked_sub add_i64 sub_i64 mul_i64 neg_i64 abs_i64 add_i32 sub_i32 mul_i32 add_i128 mul_i128 div_i64 rem_i64 div_i32 rem_i32 in_i64 in_i32 in_u32 in_u64 in_i128 in_range NPS TD_NANOS_PER_MICRO TD_NANOS_PER_MILLI TD_NANOS_PER_SEC TD_MICROS_PER_SEC TD_MILLIS_PER_SEC TD_SECS_PER_MINUTE TD_SECS_PER_HOUR TD_SECS_PER_DAY TD_SECS_PER_WEEK TD_MIN_secs TD_MIN_nanos TD_MAX_secs TD_MAX_nanos TD_NEW_NANOS_BOUND i64_min i64_max i32_min i32_max u32_max u64_max i128_min i128_max valid ns in_rng G RMAX RMIN : c06.

Ltac kill_pow := change (2 ^ 32) with 4294967296 in *; change (2 ^ (32 - 1)) with 2147483648 in *;
  change (2 ^ 64) with 18446744073709551616 in *; change (2 ^ (64 - 1)) with 9223372036854775808 in *.
Ltac dif := match goal with |- context [if ?c then _ else _] => destruct c eqn:? end.
Ltac solve_in := unfold in_i32, in_u32, in_i64, in_u64, in_i128, in_range, i32_min, i32_max, u32_max,
  i64_min, i64_max, u64_max, i128_min, i128_max; lia.
Ltac wr := repeat first
  [ rewrite as_i32_id in * by solve_in | rewrite as_u32_id in * by solve_in
  | rewrite as_i64_id in * by solve_in | rewrite as_u64_id in * by solve_in ].


Ltac unf := repeat autounfold with c06 in *; wr;
  rewrite ?div_euclid_pos, ?rem_euclid_pos in * by lia;
  repeat autounfold with c06 in *.
Ltac fin := cbv beta iota; cbn [secs nanos]; wr; lia.
Ltac go := unf; cbn [secs nanos]; repeat (dif; unf; cbn [secs nanos]; try lia).
Ltac ex := eexists; split; [reflexivity|]; fin.

Theorem td_new_spec s n : in_i64 s = true -> in_u32 n = true ->
  match td_new s n with
  | Some d => secs d = s /\ nanos d = n /\ valid d
  | None => ~ (n < G /\ in_rng (s * G + n))
  end.
Proof.
  intros Hs Hn. go.
Qed.

(** Unit constructors: exact or refused. *)
Theorem try_weeks_spec n : in_i64 n = true ->
  match try_weeks n with Some d => ns d = n * 604800 * G /\ valid d | None => ~ in_rng (n * 604800 * G) end.
Proof. intros Hn. go. Qed.
Theorem try_days_spec n : in_i64 n = true ->
  match try_days n with Some d => ns d = n * 86400 * G /\ valid d | None => ~ in_rng (n * 86400 * G) end.
Proof. intros Hn. go. Qed.
Theorem try_hours_spec n : in_i64 n = true ->
  match try_hours n with Some d => ns d = n * 3600 * G /\ valid d | None => ~ in_rng (n * 3600 * G) end.
Proof. intros Hn. go. Qed.
Theorem try_minutes_spec n : in_i64 n = true ->
  match try_minutes n with Some d => ns d = n * 60 * G /\ valid d | None => ~ in_rng (n * 60 * G) end.
Proof. intros Hn. go. Qed.
Theorem try_seconds_spec n : in_i64 n = true ->
  match try_seconds n with Some d => ns d = n * G /\ valid d | None => ~ in_rng (n * G) end.
Proof. intros Hn. go. Qed.

Theorem try_milliseconds_spec n : in_i64 n = true ->
  exists r, try_milliseconds n = Val r /\
  match r with Some d => ns d = n * 1000000 /\ valid d | None => ~ in_rng (n * 1000000) end.
Proof. intros Hn. go; ex. Qed.
Theorem microseconds_spec n : in_i64 n = true ->
  exists d, microseconds n = Val d /\ ns d = n * 1000 /\ valid d.
Proof. intros Hn. go; ex. Qed.
Theorem nanoseconds_spec n : in_i64 n = true ->
  exists d, nanoseconds n = Val d /\ ns d = n /\ valid d.
Proof. intros Hn. go; ex. Qed.

(** Accessors: truncation toward zero, sub-unit part with the sign of the value. *)
Theorem num_seconds_spec d : valid d -> num_seconds d = Val (Z.quot (ns d) G).
Proof. intros [H1 H2]. go; f_equal; lia. Qed.
Theorem subsec_nanos_spec d : valid d -> subsec_nanos d = Val (Z.rem (ns d) G).
Proof. intros [H1 H2]. go; f_equal; lia. Qed.

Theorem num_minutes_spec d : valid d -> num_minutes d = Val (Z.quot (ns d) (60 * G)).
Proof. intros [H1 H2]. unfold num_minutes. rewrite num_seconds_spec by (split; assumption).
  unfold bind, div_i64. rewrite div_t_nz by (unfold TD_SECS_PER_MINUTE; lia). go; f_equal; lia. Qed.
Theorem num_hours_spec d : valid d -> num_hours d = Val (Z.quot (ns d) (3600 * G)).
Proof. intros [H1 H2]. unfold num_hours. rewrite num_seconds_spec by (split; assumption).
  unfold bind, div_i64. rewrite div_t_nz by (unfold TD_SECS_PER_HOUR; lia). go; f_equal; lia. Qed.
Theorem num_days_spec d : valid d -> num_days d = Val (Z.quot (ns d) (86400 * G)).
Proof. intros [H1 H2]. unfold num_days. rewrite num_seconds_spec by (split; assumption).
  unfold bind, div_i64. rewrite div_t_nz by (unfold TD_SECS_PER_DAY; lia). go; f_equal; lia. Qed.
Theorem num_weeks_spec d : valid d -> num_weeks d = Val (Z.quot (ns d) (604800 * G)).
Proof. intros H. pose proof H as [H1 H2]. unfold num_weeks. rewrite num_days_spec by assumption.
  unfold bind, div_i64. rewrite div_t_nz by lia. go; f_equal; lia. Qed.
Theorem subsec_millis_spec d : valid d -> subsec_millis d = Val (Z.quot (Z.rem (ns d) G) 1000000).
Proof. intros H. pose proof H as [H1 H2]. unfold subsec_millis. rewrite subsec_nanos_spec by assumption.
  unfold bind, div_i32. rewrite div_t_nz by (unfold TD_NANOS_PER_MILLI; lia). go; f_equal; lia. Qed.
Theorem subsec_micros_spec d : valid d -> subsec_micros d = Val (Z.quot (Z.rem (ns d) G) 1000).
Proof. intros H. pose proof H as [H1 H2]. unfold subsec_micros. rewrite subsec_nanos_spec by assumption.
  unfold bind, div_i32. rewrite div_t_nz by (unfold TD_NANOS_PER_MICRO; lia). go; f_equal; lia. Qed.
Theorem num_milliseconds_spec d : valid d -> num_milliseconds d = Val (Z.quot (ns d) 1000000).
Proof. intros H. pose proof H as [H1 H2]. unfold num_milliseconds.
  rewrite num_seconds_spec, subsec_nanos_spec by assumption.
  unfold bind, div_i32. rewrite div_t_nz by (unfold TD_NANOS_PER_MILLI; lia). go; f_equal; lia. Qed.
Theorem num_microseconds_spec d : valid d ->
  num_microseconds d = Val (if in_i64 (Z.quot (ns d) 1000) then Some (Z.quot (ns d) 1000) else None).
Proof. intros H. pose proof H as [H1 H2]. unfold num_microseconds.
  rewrite num_seconds_spec, subsec_nanos_spec by assumption.
  unfold bind, div_i32. rewrite div_t_nz by (unfold TD_NANOS_PER_MICRO; lia).
  pose proof (quot_split (ns d) 1000000 1000 ltac:(lia) ltac:(lia)) as Q.
  change (1000000 * 1000) with 1000000000 in Q.
  go; try reflexivity; try (do 2 f_equal); lia. Qed.
Theorem num_nanoseconds_spec d : valid d ->
  num_nanoseconds d = Val (if in_i64 (ns d) then Some (ns d) else None).
Proof. intros H. pose proof H as [H1 H2]. unfold num_nanoseconds.
  rewrite num_seconds_spec, subsec_nanos_spec by assumption.
  unfold bind. go; try reflexivity; try (do 2 f_equal); lia. Qed.

(** Checked arithmetic: exact, or refused exactly when the exact result is out of range. *)
Theorem checked_add_spec a b : valid a -> valid b ->
  exists r, td_checked_add a b = Val r /\
  match r with Some d => ns d = ns a + ns b /\ valid d | None => ~ in_rng (ns a + ns b) end.
Proof. intros [Ha1 Ha2] [Hb1 Hb2]. go; ex. Qed.
Theorem checked_sub_spec a b : valid a -> valid b ->
  exists r, td_checked_sub a b = Val r /\
  match r with Some d => ns d = ns a - ns b /\ valid d | None => ~ in_rng (ns a - ns b) end.
Proof. intros [Ha1 Ha2] [Hb1 Hb2]. go; ex. Qed.
Theorem neg_spec a : valid a -> exists d, td_neg a = Val d /\ ns d = - ns a /\ valid d.
Proof. intros [Ha1 Ha2]. go; ex. Qed.
Theorem abs_spec a : valid a -> exists d, td_abs a = Val d /\ ns d = Z.abs (ns a) /\ valid d.
Proof. intros [Ha1 Ha2]. go; ex. Qed.
Theorem cmp_spec a b : valid a -> valid b -> td_cmp a b = cmpZ (ns a) (ns b).
Proof.
  intros [Ha1 Ha2] [Hb1 Hb2]. unfold td_cmp, cmp_lex, cmpZ. unf.
  destruct (secs a ?= secs b) eqn:E1; cbn;
  destruct (nanos a ?= nanos b) eqn:E2; cbn;
  destruct (secs a * 1000000000 + nanos a ?= secs b * 1000000000 + nanos b) eqn:E3; try reflexivity;
  rewrite ?Z.compare_eq_iff, ?Z.compare_lt_iff, ?Z.compare_gt_iff in *; lia.
Qed.
Theorem from_std_spec s n : in_u64 s = true -> 0 <= n < G ->
  match from_std s n with
  | Some d => ns d = s * G + n /\ valid d
  | None => ~ in_rng (s * G + n)
  end.
Proof. intros Hs Hn. go. Qed.
Theorem to_std_spec a : valid a ->
  match to_std a with
  | Some (s, n) => 0 <= ns a /\ s * G + n = ns a /\ 0 <= n < G /\ in_u64 s = true
  | None => ns a < 0
  end.
Proof. intros [Ha1 Ha2]. go. Qed.

Theorem checked_mul_spec a k : valid a -> in_i32 k = true ->
  exists r, td_checked_mul a k = Val r /\
  match r with Some d => ns d = ns a * k /\ valid d | None => ~ in_rng (ns a * k) end.
Proof.
  intros [Ha1 Ha2] Hk.
  pose proof (mul_bound (nanos a) k 1000000000 2147483648 ltac:(unf; lia) ltac:(unf; lia)) as Hp1.
  pose proof (mul_bound (secs a) k 9223372036854776 2147483648 ltac:(unf; lia) ltac:(unf; lia)) as Hp2.
  assert (E : ns a * k = (secs a * k) * G + nanos a * k) by (unfold ns; ring).
  rewrite E. clear E. unfold td_checked_mul, mul_i64, mul_i128.
  set (p1 := nanos a * k) in *. set (p2 := secs a * k) in *. clearbody p1 p2.
  cbn in Hp1, Hp2.
  go; ex.
Qed.

(** Division: within two nanoseconds of the exact quotient, inside the range, never traps. *)
Lemma abs_lt_of_mul k n M : k <> 0 -> Z.abs (k * n) < Z.abs k * M -> Z.abs n < M.
Proof. intros Hk H. rewrite Z.abs_mul in H. apply Z.mul_lt_mono_pos_l in H; lia. Qed.
Lemma quot_abs_le a b : b <> 0 -> Z.abs (Z.quot a b) <= Z.abs a.
Proof.
  intros Hb. rewrite <- Z.quot_abs by assumption. rewrite Z.quot_div_nonneg by lia.
  apply Z.div_le_upper_bound; [lia|]. nia.
Qed.

Lemma rem_abs_le a b : b <> 0 -> Z.abs (Z.rem a b) <= Z.abs a.
Proof. intros Hb. rewrite <- Z.rem_abs by assumption. apply Z.rem_le; lia. Qed.
Lemma sub_rem_abs X c : 0 <= c * X -> Z.abs c <= Z.abs X -> Z.abs (X - c) <= Z.abs X.
Proof. intros. destruct (Z_le_dec 0 X); destruct (Z_le_dec 0 c); nia. Qed.

Lemma range_from_mul V k N M : k <> 0 -> Z.abs (V * k - N) <= 2 * (Z.abs k - 1) -> Z.abs N <= M -> 1 <= M ->
  Z.abs V <= M.
Proof.
  intros Hk H HN HM. destruct (Z_le_dec (Z.abs V) M) as [|Hc]; [assumption|]. exfalso.
  assert (H1 : (M + 1) * Z.abs k <= Z.abs (V * k)).
  { rewrite Z.abs_mul. apply Z.mul_le_mono_nonneg_r; lia. }
  assert (H2 : 0 <= (M - 1) * (Z.abs k - 1)) by (apply Z.mul_nonneg_nonneg; lia).
  lia.
Qed.

Theorem checked_div_spec a k : valid a -> in_i32 k = true -> k <> 0 ->
  exists d, td_checked_div a k = Val (Some d) /\ valid d /\ Z.abs (ns d * k - ns a) < 2 * Z.abs k.
Proof.
  intros [Ha1 Ha2] Hk Hnz. unfold ns, in_rng, G, RMIN, RMAX in Ha1, Ha2. unfold td_checked_div.
  destruct (k =? 0) eqn:E0; [lia|].
  unfold div_i64, rem_i64, div_i32, mul_i64, add_i32, sub_i32, add_i64, sub_i64.
  rewrite !div_t_nz, !rem_t_nz by assumption.
  set (s := Z.quot (secs a) k). set (carry := Z.rem (secs a) k).
  pose proof (Z.quot_rem' (secs a) k) as E1. fold s carry in E1.
  pose proof (Z.rem_bound_abs (secs a) k Hnz) as B1. fold carry in B1.
  pose proof (Z.rem_sign_mul (secs a) k Hnz) as S1. fold carry in S1.
  pose proof (quot_abs_le (secs a) k Hnz) as Q1. fold s in Q1.
  set (q := Z.quot (nanos a) k). set (c3 := Z.rem (nanos a) k).
  pose proof (Z.quot_rem' (nanos a) k) as E3. fold q c3 in E3.
  pose proof (Z.rem_bound_abs (nanos a) k Hnz) as B3. fold c3 in B3.
  pose proof (Z.rem_sign_mul (nanos a) k Hnz) as S3. fold c3 in S3.
  pose proof (quot_abs_le (nanos a) k Hnz) as Q3. fold q in Q3.
  pose proof (rem_abs_le (nanos a) k Hnz) as R3. fold c3 in R3.
  clearbody s carry q c3.
  assert (Hs : in_i64 s = true) by (unf; lia).
  rewrite (chk_in in_i64 s Hs). rewrite Hs. cbv [bind]. cbv beta iota.
  replace (as_i64 NPS) with 1000000000 in * by (unf; reflexivity).
  assert (Hcn : in_i64 (carry * 1000000000) = true) by (unf; lia).
  rewrite (chk_in _ _ Hcn). cbv beta iota.
  rewrite div_t_nz by assumption.
  set (extra := Z.quot (carry * 1000000000) k). set (c2 := Z.rem (carry * 1000000000) k).
  pose proof (Z.quot_rem' (carry * 1000000000) k) as E2. fold extra c2 in E2.
  pose proof (Z.rem_bound_abs (carry * 1000000000) k Hnz) as B2. fold c2 in B2.
  pose proof (Z.rem_sign_mul (carry * 1000000000) k Hnz) as S2. fold c2 in S2.
  pose proof (rem_abs_le (carry * 1000000000) k Hnz) as R2. fold c2 in R2.
  clearbody extra c2.
  (* |k * extra| <= |carry| * G  and  |k * q| <= nanos *)
  assert (Hke : Z.abs (k * extra) <= Z.abs carry * 1000000000).
  { replace (k * extra) with (carry * 1000000000 - c2) by lia.
    replace (Z.abs carry * 1000000000) with (Z.abs (carry * 1000000000)) by (rewrite Z.abs_mul; reflexivity).
    apply sub_rem_abs; [lia|assumption]. }
  assert (Hkq : Z.abs (k * q) <= nanos a).
  { replace (k * q) with (nanos a - c3) by lia. replace (nanos a) with (Z.abs (nanos a)) at 2 by lia.
    apply sub_rem_abs; [lia|assumption]. }
  assert (Hn : Z.abs (q + extra) < 1000000000).
  { apply (abs_lt_of_mul k); [assumption|]. 
    replace (k * (q + extra)) with (k * q + k * extra) by ring. lia. }
  assert (He : Z.abs extra < 1000000000).
  { apply (abs_lt_of_mul k); [assumption|]. lia. }
  assert (Hex : in_i64 extra = true) by (clear - He; unf; lia).
  rewrite (chk_in _ _ Hex). cbv beta iota.
  assert (Hq : in_i32 q = true) by (clear - Q3 Ha1; unf; lia).
  rewrite (chk_in _ _ Hq). cbv beta iota.
  rewrite (as_i32_id extra) by (clear - He; unf; lia).
  assert (Hqe : in_i32 (q + extra) = true) by (clear - Hn; unf; lia).
  rewrite (chk_in _ _ Hqe). cbv beta iota.
  assert (Key : (s * 1000000000 + (q + extra)) * k - (secs a * 1000000000 + nanos a) = - c2 - c3) by (clear - E1 E2 E3; lia).
  replace NPS with 1000000000 by reflexivity.
  assert (Hclose : Z.abs ((s * 1000000000 + (q + extra)) * k - (secs a * 1000000000 + nanos a)) <= 2 * (Z.abs k - 1))
    by (rewrite Key; clear - B2 B3; lia).
  pose proof (range_from_mul _ _ _ 9223372036854775807000000 Hnz Hclose ltac:(clear - Ha2; lia) ltac:(lia)) as Hrange.
  assert (Hs1 : Z.abs s <= 9223372036854776) by (clear - Q1 Ha1 Ha2; lia).
  destruct (q + extra <? 0) eqn:En.
  - rewrite (chk_in in_i64 (s - 1)) by (clear - Hs1; unf; lia). cbv beta iota.
    rewrite (chk_in in_i32 (q + extra + 1000000000)) by (clear - Hn; unf; lia). cbv beta iota.
    eexists; split; [reflexivity|]. unfold valid, ns, in_rng, G, RMIN, RMAX in *. cbn [secs nanos].
    replace ((s - 1) * 1000000000 + (q + extra + 1000000000)) with (s * 1000000000 + (q + extra)) by ring.
    clear - Hn En Hrange Hclose. lia.
  - destruct (q + extra >=? 1000000000) eqn:En2; [clear - Hn En2; lia|].
    eexists; split; [reflexivity|]. unfold valid, ns, in_rng, G, RMIN, RMAX in *. cbn [secs nanos].
    clear - Hn En En2 Hrange Hclose. lia.
Qed.

(** Operator forms agree with the checked forms and panic exactly when those refuse. *)
Theorem op_add_spec a b : valid a -> valid b ->
  if Z.leb RMIN (ns a + ns b) && Z.leb (ns a + ns b) RMAX
  then exists d, op_add a b = Val d /\ ns d = ns a + ns b /\ valid d
  else op_add a b = Panic.
Proof.
  intros Ha Hb. destruct (checked_add_spec a b Ha Hb) as [r [E H]]. unfold op_add, unwrap_r. rewrite E. cbn [bind].
  destruct r as [d|]; cbn [unwrap].
  - destruct H as [H1 H2]. pose proof H2 as [_ H3]. unfold in_rng in H3. rewrite <- H1.
    destruct (Z.leb RMIN (ns d) && Z.leb (ns d) RMAX) eqn:E2; [|lia]. exists d. auto.
  - unfold in_rng in H. destruct (Z.leb RMIN (ns a + ns b) && Z.leb (ns a + ns b) RMAX) eqn:E2; [lia|reflexivity].
Qed.
Theorem op_sub_spec a b : valid a -> valid b ->
  if Z.leb RMIN (ns a - ns b) && Z.leb (ns a - ns b) RMAX
  then exists d, op_sub a b = Val d /\ ns d = ns a - ns b /\ valid d
  else op_sub a b = Panic.
Proof.
  intros Ha Hb. destruct (checked_sub_spec a b Ha Hb) as [r [E H]]. unfold op_sub, unwrap_r. rewrite E. cbn [bind].
  destruct r as [d|]; cbn [unwrap].
  - destruct H as [H1 H2]. pose proof H2 as [_ H3]. unfold in_rng in H3. rewrite <- H1.
    destruct (Z.leb RMIN (ns d) && Z.leb (ns d) RMAX) eqn:E2; [|lia]. exists d. auto.
  - unfold in_rng in H. destruct (Z.leb RMIN (ns a - ns b) && Z.leb (ns a - ns b) RMAX) eqn:E2; [lia|reflexivity].
Qed.

(** Summation: every prefix sum in range => exact total; the first out-of-range prefix panics. *)
Fixpoint sum_spec (l : list td) (acc : Z) : option Z :=
  match l with
  | [] => Some acc
  | x :: r => if Z.leb RMIN (acc + ns x) && Z.leb (acc + ns x) RMAX then sum_spec r (acc + ns x) else None
  end.
Theorem td_sum_spec l : forall acc, valid acc -> Forall valid l ->
  match sum_spec l (ns acc) with
  | Some n => exists d, td_sum l acc = Val d /\ ns d = n /\ valid d
  | None => td_sum l acc = Panic
  end.
Proof.
  induction l as [|x r IH]; intros acc Hacc Hl; cbn [sum_spec td_sum].
  - exists acc. auto.
  - inversion Hl as [|? ? Hx Hr]; subst. pose proof (op_add_spec acc x Hacc Hx) as H.
    destruct (Z.leb RMIN (ns acc + ns x) && Z.leb (ns acc + ns x) RMAX) eqn:E.
    + destruct H as [d [E1 [E2 E3]]]. rewrite E1. cbn [bind]. rewrite <- E2. apply IH; assumption.
    + rewrite H. reflexivity.
Qed.

(** Display never traps and its digit-stripping loop needs at most 9 of its 11 units of fuel. *)
Lemma strip_loop_S f d g : strip_loop (S f) d g =
  let* dv := div_i32 d 10 in let* last := rem_i32 d 10 in
  if negb (last =? 0) then Val (d, g) else let* fg := sub_usize g 1 in strip_loop f dv fg.
Proof. reflexivity. Qed.
Lemma strip_loop_total : forall f digits figures, 0 < digits < 10 ^ Z.of_nat f -> Z.of_nat f <= figures <= 9 ->
  exists r, strip_loop (S f) digits figures = Val r.
Proof.
  induction f as [|f IH]; intros digits figures Hd Hf.
  - cbn in Hd. lia.
  - rewrite strip_loop_S. unfold div_i32, rem_i32. rewrite div_t_nz, rem_t_nz by lia.
    assert (Hp : 10 ^ Z.of_nat (S f) = 10 * 10 ^ Z.of_nat f) by (rewrite Nat2Z.inj_succ, Z.pow_succ_r by lia; reflexivity).
    assert (Hpb : 10 ^ Z.of_nat (S f) <= 10 ^ 9) by (apply Z.pow_le_mono_r; lia).
    change (10 ^ 9) with 1000000000 in Hpb.
    rewrite (chk_in in_i32 (Z.quot digits 10)) by (unfold in_i32, in_range, i32_min, i32_max; lia).
    cbn [bind]. replace (in_i32 (Z.quot digits 10)) with true by (symmetry; unfold in_i32, in_range, i32_min, i32_max; lia).
    cbn [bind]. destruct (negb (Z.rem digits 10 =? 0)) eqn:E; [eexists; reflexivity|].
    unfold sub_usize. rewrite chk_in by (unfold in_usize, in_u64, in_range, u64_max; lia). cbn [bind].
    apply IH; lia.
Qed.
Theorem td_display_total a : valid a -> exists s, td_display a = Val s.
Proof.
  intros Ha. unfold td_display.
  assert (Hab : exists ab sign, (if secs a <? 0 then let* n := td_neg a in Val (n, B"-") else Val (a, [])) = Val (ab, sign) /\ valid ab).
  { destruct (secs a <? 0).
    - destruct (neg_spec a Ha) as [d [E [_ Hv]]]. rewrite E. cbn [bind]. eauto.
    - eauto. }
  destruct Hab as [ab [sign [E Hv]]]. rewrite E. cbn [bind].
  destruct ((secs ab =? 0) && (nanos ab =? 0)); [eexists; reflexivity|].
  destruct (nanos ab >? 0) eqn:En; [|eexists; reflexivity].
  destruct Hv as [Hn _]. unfold G in Hn.
  destruct (strip_loop_total 9 (nanos ab) 9) as [[fd fg] Es]; [change (10 ^ Z.of_nat 9) with 1000000000; lia | change (Z.of_nat 9) with 9; lia |].
  rewrite Es. cbn [bind]. eexists; reflexivity.
Qed.

Lemma valid_examples :
  valid (mk_td (-9223372036854776) 193000000) /\ valid (mk_td 9223372036854775 807000000) /\ valid (mk_td (-1) 999999999).
Proof. unfold valid, ns, in_rng, G, RMIN, RMAX. cbn [secs nanos]. lia. Qed.
