(** Proofs for C12, part 6: EVERY format string.  An undocumented specifier (unknown character,
    multi-byte character, premature end, incomplete `%.` `%:` `%3` `%#` sequences, with or
    without a padding modifier) makes the strict iterator yield [Error]
    ([unknown_err]); with it the main induction of C12Fam.v goes through without the
    [wf_scan] side condition: the item list of every valid UTF-8 format string agrees with the
    documentation table ([tokenization_all]), and formatting any value with any format string gives
    the documented text or fails exactly where the documentation says ([format_spec_all]). *)
From Coq Require Import ZArith List Bool Lia ZifyBool.
From V Require Import Base.Int Base.IO Base.IntLemmas Base.Lift Spec.Gregorian Spec.StrftimeDoc
  Model.Items Gen.Strftime Gen.Locales Model.Strftime Model.Format
  Proofs.C12 Proofs.C12Str Proofs.C12Tok Proofs.C12Fam.
Import ListNotations.
Open Scope Z_scope.
Ltac Zify.zify_post_hook ::= Z.to_euclidean_division_equations.

(** * Lenient mode on the rows of the table: the same step as in strict mode *)
Definition row_lenient_ok (name : bytes) (e : entry) (m : bytes) : Prop :=
  row_is_err e m = false -> forall tl, head_ok tl = true ->
  parse_next_item true [] (37 :: m ++ name ++ tl) = parse_next_item false [] (37 :: m ++ name ++ tl).
Lemma rows_lenient : Forall (fun ne => Forall (row_lenient_ok (fst ne) (snd ne)) modifiers) doc_table.
Proof.
  unfold doc_table, modifiers.
  repeat (apply Forall_cons;
          [repeat (apply Forall_cons;
                   [cbn [fst snd]; intros Herr;
                    first [discriminate Herr | (intros tl Htl; sf_step; reflexivity)]|]); apply Forall_nil|]).
  apply Forall_nil.
Qed.

(** * Characters of a valid string, as the strict `next!()` sees them *)
Lemma valid_nonneg b r : utf8_valid (b :: r) = true -> 0 <= b.
Proof.
  cbn [utf8_valid]. intros H.
  destruct ((0 <=? b) && (b <? 128)) eqn:E1; [lia|].
  destruct ((194 <=? b) && (b <? 224)) eqn:E2; [lia|].
  destruct ((224 <=? b) && (b <? 240)) eqn:E3; [lia|].
  destruct ((240 <=? b) && (b <? 245)) eqn:E4; [lia|discriminate].
Qed.
Lemma head_ok_ascii c tl : c < 128 -> head_ok (c :: tl) = true.
Proof. intros H. unfold head_ok, is_cont. lia. Qed.

Lemma snc_nil o el : sf_next_char false o [] el = Val (inl ([], IError)).
Proof. reflexivity. Qed.
Lemma snc_ascii o c tl el : 0 <= c < 128 -> head_ok tl = true ->
  sf_next_char false o (c :: tl) el = Val (inr (c, tl, el)).
Proof.
  intros Hc Hh. unfold sf_next_char. cbn [next_char]. replace (c <? 128) with true by lia.
  unfold len_utf8. replace (c <? 128) with true by lia. rewrite str_from_1 by exact Hh. reflexivity.
Qed.

Lemma char_cases r : utf8_valid r = true ->
  r = [] \/
  (exists c tl, r = c :: tl /\ 0 <= c < 128 /\ utf8_valid tl = true) \/
  (exists x tl, 128 <= x /\ utf8_valid tl = true /\ (exists b r', r = b :: r' /\ 128 <= b) /\
      forall o el, sf_next_char false o r el = Val (inr (x, tl, el))).
Proof.
  intros Hv. destruct r as [|b0 r']; [left; reflexivity|right].
  destruct (valid_char b0 r' Hv) as (n & rest & x & Hn & Hlen & Hskip & Hvr & Hnc & Hlu & Hlo & Hhi).
  destruct (Z_lt_ge_dec b0 128) as [Hlt|Hge].
  - left. destruct (Hlo Hlt) as [-> ->]. cbn [skipn] in Hskip. subst rest. exists b0, r'.
    repeat split; auto. apply (valid_nonneg _ _ Hv).
  - right. exists x, rest. destruct (Hhi ltac:(lia)) as [Hx _]. split; [exact Hx|]. split; [exact Hvr|].
    split; [exists b0, r'; split; [reflexivity|lia]|]. intros o el. unfold sf_next_char. rewrite Hnc, Hlu.
    rewrite str_from_at by (try lia; rewrite Hskip; apply valid_head_ok; exact Hvr).
    rewrite Hskip. reflexivity.
Qed.

(** * Tables *)
Lemma assoc_none_keys {A} (l : list (Z * A)) x : Forall (fun kv => fst kv <> x) l -> assoc x l = None.
Proof.
  induction 1 as [|[k v] l Hk _ IH]; [reflexivity|]. cbn [assoc fst] in *.
  replace (x =? k) with false by lia. exact IH.
Qed.
Lemma arms_keys_ascii : Forall (fun kv : Z * sf_arm => 0 <= fst kv < 128) SF_ARMS.
Proof. unfold SF_ARMS. repeat (apply Forall_cons; [cbn [fst]; lia|]). apply Forall_nil. Qed.
Lemma assoc_arms_big x : 128 <= x -> assoc x SF_ARMS = None.
Proof.
  intros Hx. apply assoc_none_keys. eapply Forall_impl; [|exact arms_keys_ascii].
  intros kv H. cbv beta in H. lia.
Qed.
Lemma assoc_cases {A} (l : list (Z * A)) c : assoc c l = None \/ In c (map fst l).
Proof.
  induction l as [|[k v] l IH]; [left; reflexivity|]. cbn [assoc map fst In].
  destruct (c =? k) eqn:E; [right; left; lia|]. destruct IH; auto.
Qed.

(** the outcome "this step yields [Error]" *)
Definition is_err_res (x : R (option (bytes * Item) * list Item)) : Prop :=
  match x with Val (Some (rm, IError), _) => utf8_valid rm = true | _ => False end.
Lemma is_err_res_inv x : is_err_res x ->
  exists rm q, x = Val (Some (rm, IError), q) /\ utf8_valid rm = true.
Proof.
  destruct x as [[[[rm it]|] q]| |]; cbn; try contradiction. destruct it; try contradiction. eauto.
Qed.
Ltac fin := first [reflexivity | assumption].

Lemma pni_percent l q r : parse_next_item l q (37 :: r) = parse_spec l q (37 :: r).
Proof. reflexivity. Qed.

Arguments sf_next_char : simpl never.
Local Arguments strip_prefix : simpl never.

Ltac hd2 := first [assumption | reflexivity | (apply head_ok_ascii; lia) | (apply valid_head_ok; assumption)].
Ltac kill_eqb x :=
  repeat match goal with
         | |- context [x =? ?k] => replace (x =? k) with false by lia
         end.
(* one more character from a symbolic valid tail *)
Ltac split_tail :=
  match goal with
  | Hv : utf8_valid ?t = true |- context [sf_next_char false ?o ?t ?el] =>
      is_var t;
      let c := fresh "c" in let t' := fresh "t" in let Hc := fresh "Hc" in let Hv' := fresh "Hv" in
      let x := fresh "x" in let Hx := fresh "Hx" in let Hs := fresh "Hs" in let Hb := fresh "Hb" in
      destruct (char_cases t Hv) as [-> | [(c & t' & -> & Hc & Hv') | (x & t' & Hx & Hv' & Hb & Hs)]];
      [ rewrite snc_nil
      | rewrite snc_ascii by (first [lia | (apply valid_head_ok; assumption)])
      | rewrite Hs; try (rewrite (assoc_arms_big x) by exact Hx) ]
  end.
Ltac split_eqb :=
  match goal with
  | |- context [?x =? ?k] =>
      is_var x;
      first [ replace (x =? k) with false by lia
            | let E := fresh "E" in destruct (x =? k) eqn:E; [apply Z.eqb_eq in E; subst x|] ]
  end.
Ltac se :=
  repeat first
    [ progress cbn
    | rewrite str_from_1 by hd2 | rewrite str_from_2 by hd2 | rewrite str_from_3 by hd2
    | match goal with
      | |- context [sf_next_char false ?o (?c :: ?t) ?el] =>
          rewrite (snc_ascii o c t el) by (first [lia | hd2])
      end
    | match goal with
      | H : strip_prefix ?p ?t = None |- context [strip_prefix ?p ?t] => rewrite H
      end
    | split_tail
    | split_eqb ].
(* the three prefixes tried after `%:`: each of them completes a table row *)
Ltac colon_prep Hl :=
  match type of Hl with
  | lookup doc_table (58 :: ?tl) = None =>
      let P := fresh "P" in
      destruct (strip_prefix [58; 58; 122] tl) eqn:P;
        [apply strip_prefix_sound in P; subst tl; exfalso; vm_compute in Hl; discriminate Hl|];
      let P := fresh "P" in
      destruct (strip_prefix [58; 122] tl) eqn:P;
        [apply strip_prefix_sound in P; subst tl; exfalso; vm_compute in Hl; discriminate Hl|];
      let P := fresh "P" in
      destruct (strip_prefix [122] tl) eqn:P;
        [apply strip_prefix_sound in P; subst tl; exfalso; vm_compute in Hl; discriminate Hl|]
  end.
Ltac leaf Hl :=
  first [ reflexivity | assumption
        | (exfalso; vm_compute in Hl; discriminate Hl) ].

(** * An ASCII character after the optional modifier that starts no table row *)
Lemma after_mod_err m c tl :
  In m modifiers -> 0 <= c < 128 -> utf8_valid tl = true ->
  (m = [] -> modifier c = None /\ c <> 35) ->
  lookup doc_table (c :: tl) = None ->
  is_err_res (parse_next_item false [] (37 :: m ++ c :: tl)).
Proof.
  intros Hm Hc Hv Hm0 Hl.
  assert (Hh : head_ok tl = true) by (apply valid_head_ok; exact Hv).
  destruct (assoc_cases SF_ARMS c) as [Hn|Hk].
  - (* no arm at all *)
    unfold modifiers in Hm. cbn [In] in Hm.
    destruct Hm as [<-|[<-|[<-|[<-|[]]]]]; cbn [app]; rewrite pni_percent; unfold parse_spec;
      rewrite str_from_1 by hd2; cbv beta iota delta [bind].
    + destruct (Hm0 eq_refl) as [Hmod Hne]. unfold modifier in Hmod.
      destruct (c =? 45) eqn:E1; [discriminate|]. destruct (c =? 95) eqn:E2; [discriminate|].
      destruct (c =? 48) eqn:E3; [discriminate|].
      rewrite (snc_ascii _ c tl 0) by (first [lia | exact Hh]). cbv beta iota delta [bind].
      unfold SF_PAD_OVERRIDE, SF_ALT_CHAR. cbn [assoc]. rewrite E1, E2, E3.
      replace (c =? 35) with false by lia. cbn [is_some orb andb]. cbv beta iota delta [bind]. rewrite Hn.
      cbn. fin.
    + rewrite (snc_ascii _ 45 (c :: tl) 0) by (first [lia | hd2]). cbv beta iota delta [bind].
      cbn [assoc SF_PAD_OVERRIDE Z.eqb Pos.eqb is_some orb]. cbv beta iota delta [bind].
      rewrite (snc_ascii _ c tl 0) by (first [lia | exact Hh]). cbv beta iota delta [bind].
      cbn [SF_ALT_CHAR Z.eqb Pos.eqb andb]. cbv beta iota delta [bind]. rewrite Hn. cbn. fin.
    + rewrite (snc_ascii _ 95 (c :: tl) 0) by (first [lia | hd2]). cbv beta iota delta [bind].
      cbn [assoc SF_PAD_OVERRIDE Z.eqb Pos.eqb is_some orb]. cbv beta iota delta [bind].
      rewrite (snc_ascii _ c tl 0) by (first [lia | exact Hh]). cbv beta iota delta [bind].
      cbn [SF_ALT_CHAR Z.eqb Pos.eqb andb]. cbv beta iota delta [bind]. rewrite Hn. cbn. fin.
    + rewrite (snc_ascii _ 48 (c :: tl) 0) by (first [lia | hd2]). cbv beta iota delta [bind].
      cbn [assoc SF_PAD_OVERRIDE Z.eqb Pos.eqb is_some orb]. cbv beta iota delta [bind].
      rewrite (snc_ascii _ c tl 0) by (first [lia | exact Hh]). cbv beta iota delta [bind].
      cbn [SF_ALT_CHAR Z.eqb Pos.eqb andb]. cbv beta iota delta [bind]. rewrite Hn. cbn. fin.
  - (* one of the arms: the single-character rows contradict the table lookup, the others are
       followed through *)
    unfold SF_ARMS in Hk. cbn [map fst In] in Hk. unfold modifiers in Hm. cbn [In] in Hm.
    repeat (destruct Hk as [<-|Hk]; [
      first [ (exfalso; vm_compute in Hl; discriminate Hl)
            | (try colon_prep Hl;
               destruct Hm as [<-|[<-|[<-|[<-|[]]]]]; cbn [app]; rewrite pni_percent; unfold parse_spec;
               se; leaf Hl) ] | ]).
    destruct Hk.
Qed.

(** * unknown_err: a '%' that starts no table row (after the optional padding modifier) yields
    [Error], whatever follows *)
Lemma modifier_cases c p : modifier c = Some p -> c = 45 \/ c = 95 \/ c = 48.
Proof.
  unfold modifier. destruct (c =? 45) eqn:E1; [lia|]. destruct (c =? 95) eqn:E2; [lia|].
  destruct (c =? 48) eqn:E3; [lia|discriminate].
Qed.

Lemma unknown_err r pad r1 : utf8_valid r = true -> split_mod r = (pad, r1) ->
  lookup doc_table r1 = None ->
  is_err_res (parse_next_item false [] (37 :: r)).
Proof.
  intros Hv Hs Hl.
  destruct (char_cases r Hv) as [-> | [(c & tl & -> & Hc & Hvt) | (x & tl & Hx & Hvt & (b & r' & -> & Hb) & Hsn)]].
  - vm_compute. reflexivity.
  - cbn [split_mod] in Hs. destruct (modifier c) as [p|] eqn:Em.
    + (* a padding modifier, then ... *)
      injection Hs as <- <-.
      destruct (char_cases tl Hvt) as [-> | [(c2 & tl2 & -> & Hc2 & Hvt2) | (x & tl2 & Hx & Hvt2 & (b & r' & -> & Hb) & Hsn)]].
      * destruct (modifier_cases _ _ Em) as [-> | [-> | ->]]; vm_compute; reflexivity.
      * destruct (modifier_cases _ _ Em) as [-> | [-> | ->]].
        -- apply (after_mod_err [45] c2 tl2); auto; [cbn; auto|discriminate].
        -- apply (after_mod_err [95] c2 tl2); auto; [cbn; auto|discriminate].
        -- apply (after_mod_err [48] c2 tl2); auto; [cbn; auto 6|discriminate].
      * assert (Hh : head_ok (b :: r') = true) by (apply valid_head_ok; exact Hvt).
        destruct (modifier_cases _ _ Em) as [-> | [-> | ->]]; rewrite pni_percent; unfold parse_spec;
          rewrite str_from_1 by hd2; cbv beta iota delta [bind];
          rewrite snc_ascii by (first [lia | exact Hh]); cbn; rewrite Hsn; cbn; kill_eqb x; cbn; fin.
    + injection Hs as <- <-.
      destruct (Z.eq_dec c 35) as [->|Hne].
      * (* the alternate flag *)
        assert (Hh : head_ok tl = true) by (apply valid_head_ok; exact Hvt).
        rewrite pni_percent; unfold parse_spec. rewrite str_from_1 by hd2. cbv beta iota delta [bind].
        rewrite snc_ascii by (first [lia | exact Hh]). cbn.
        destruct (char_cases tl Hvt) as [-> | [(c2 & tl2 & -> & Hc2 & Hvt2) | (x & tl2 & Hx & Hvt2 & _ & Hsn)]].
        -- rewrite snc_nil. cbn. fin.
        -- rewrite snc_ascii by (first [lia | (apply valid_head_ok; assumption)]). cbn.
           destruct (c2 =? 122) eqn:E.
           ++ apply Z.eqb_eq in E. subst c2. exfalso. vm_compute in Hl. discriminate Hl.
           ++ cbn. fin.
        -- rewrite Hsn. cbn. replace (x =? 122) with false by lia. cbn. fin.
      * apply (after_mod_err [] c tl); auto; cbn; auto.
  - (* a multi-byte character *)
    assert (Hh : head_ok (b :: r') = true) by (apply valid_head_ok; exact Hv).
    rewrite pni_percent; unfold parse_spec. rewrite str_from_1 by hd2. cbv beta iota delta [bind].
    rewrite Hsn. cbn. unfold SF_ALT_CHAR. kill_eqb x. cbn. kill_eqb x. cbn. fin.
Qed.

(** * The main induction, for every valid format string; in lenient mode for the strings
    without error by the table (there the lenient iterator takes the same steps) *)
Lemma has_err_app A : forall X, has_err (A ++ X) = has_err A || has_err X.
Proof. induction A as [|a A IH]; intros X; [reflexivity|]. destruct a; cbn [app has_err]; auto. Qed.
Lemma has_err_text (it : bytes) : has_err (map (fun c => KText [c]) it) = false.
Proof. induction it; cbn; auto. Qed.
Lemma drain_queue_l l : forall q f rm acc, forallb not_err q = true ->
  sf_until_err (List.length q + f) (mk_sfi rm q l) acc = sf_until_err f (mk_sfi rm [] l) (rev q ++ acc).
Proof.
  induction q as [|i q IH]; intros f rm acc H; [reflexivity|].
  cbn [forallb] in H. apply andb_prop in H. destruct H as [Hi Hq].
  cbn [List.length Nat.add sf_until_err]. unfold sf_next. cbn [sf_queue sf_remainder sf_lenient]. cbv [bind].
  destruct i; try discriminate Hi; rewrite IH by exact Hq; cbn [rev]; rewrite <- app_assoc; reflexivity.
Qed.

Lemma tok_main_gen l : forall (n : nat) r, (List.length r <= n)%nat -> utf8_valid r = true ->
  (l = true -> has_err (toks tokens_simple (S (List.length r)) r) = false) ->
  forall fuel, (13 * List.length r < fuel)%nat ->
  exists items, sf_until_err fuel (mk_sfi r [] l) [] = Val items /\
    norm_items items =
    norm_items (map item_of_tok (upto_err (toks tokens_simple (S (List.length r)) r))).
Proof.
  induction n as [|n IH]; intros r Hl Hv Hle fuel Hf.
  { destruct r; [|cbn in Hl; lia]. destruct fuel; [lia|]. exists []. split; reflexivity. }
  destruct r as [|b0 r'].
  { destruct fuel; [lia|]. exists []. split; reflexivity. }
  destruct fuel as [|f0]; [lia|].
  destruct (b0 =? 37) eqn:E37.
  - (* a specifier *)
    apply Z.eqb_eq in E37. subst b0.
    assert (Hvr' : utf8_valid r' = true) by (apply valid_ascii_tail in Hv; [exact Hv|lia]).
    destruct (split_mod r') as [pad r1] eqn:Ep.
    destruct (lookup doc_table r1) as [[e rest]|] eqn:El.
    2:{ (* no such row: Error on both sides *)
        assert (Hk : toks tokens_simple (S (List.length (37 :: r'))) (37 :: r') = [KErr]).
        { rewrite toks_unfold. change (37 =? 37) with true. cbv beta iota. unfold toks_percent.
          rewrite Ep, El. reflexivity. }
        destruct l; [specialize (Hle eq_refl); rewrite Hk in Hle; discriminate Hle|].
        destruct (is_err_res_inv _ (unknown_err r' pad r1 Hvr' Ep El)) as (rm & q & Hp & _).
        exists [IError]. split.
        - cbn [sf_until_err]. unfold sf_next. cbn [sf_queue sf_remainder sf_lenient]. rewrite Hp. reflexivity.
        - rewrite Hk. reflexivity. }
    destruct (percent_row _ _ _ Ep) as (m & Hm & Hr & Hpn & Hps).
    destruct (lookup_sound _ _ _ _ El) as (name & Hin & Hs).
    subst r1 r'.
    pose proof (table_row rows_model name e m Hin Hm) as Hmodel.
    pose proof (table_row rows_doc name e m Hin Hm) as Hdoc.
    pose proof (table_row rows_lenient name e m Hin Hm) as Hlen0.
    assert (Hvrest : utf8_valid rest = true).
    { apply (valid_ascii_prefix m (modifiers_ascii m Hm)) in Hvr'.
      pose proof (proj1 (Forall_forall _ _) ascii_names _ Hin) as Hn. cbn [fst] in Hn.
      apply (valid_ascii_prefix name Hn) in Hvr'. exact Hvr'. }
    specialize (Hmodel rest (valid_head_ok _ Hvrest)).
    assert (Hname : name <> []) by (exact (proj1 (Forall_forall _ _) names_nonempty _ Hin)).
    assert (Hlen : (List.length rest + 2 <= List.length (37%Z :: m ++ name ++ rest))%nat).
    { cbn [List.length]. rewrite !app_length. destruct name; [congruence|]. cbn [List.length]. lia. }
    rewrite (Hdoc tokens_simple (List.length (37 :: m ++ name ++ rest)) rest) in Hle |- *.
    destruct (row_is_err e m) eqn:Eerr.
    + destruct l; [specialize (Hle eq_refl); discriminate Hle|].
      destruct Hmodel as (rm & q & Hp).
      exists [IError]. split; [|reflexivity].
      cbn [sf_until_err]. unfold sf_next. cbn [sf_queue sf_remainder sf_lenient]. rewrite Hp. reflexivity.
    + destruct Hmodel as (i0 & q & Hp & Hnorm & Hne).
      assert (Hp' : parse_next_item l [] (37 :: m ++ name ++ rest) = Val (Some (rest, i0), q)).
      { destruct l; [|exact Hp]. rewrite (Hlen0 Eerr rest (valid_head_ok _ Hvrest)). exact Hp. }
      pose proof Hp as Hq. apply parse_next_item_consumes in Hq; [|left; reflexivity].
      destruct Hq as [_ Hq]. apply queue_ok_short in Hq.
      assert (Hfuel : exists f1, f0 = (List.length q + f1)%nat /\ (13 * List.length rest < f1)%nat).
      { exists (f0 - List.length q)%nat. lia. }
      destruct Hfuel as (f1 & -> & Hf1).
      assert (Hle' : l = true -> has_err (toks tokens_simple (S (List.length rest)) rest) = false).
      { intros E. specialize (Hle E). rewrite has_err_app in Hle. apply orb_false_elim in Hle.
        rewrite (toks_fuel tokens_simple (S (List.length rest)) (List.length (37 :: m ++ name ++ rest)) rest) by lia.
        exact (proj2 Hle). }
      destruct (IH rest ltac:(cbn [List.length] in *; lia) Hvrest Hle' f1 Hf1) as (items & Hi & Hn).
      exists ((i0 :: q) ++ items). split.
      * cbn [sf_until_err]. unfold sf_next. cbn [sf_queue sf_remainder sf_lenient]. rewrite Hp'. cbv [bind].
        cbn [forallb] in Hne. apply andb_prop in Hne. destruct Hne as [Hne0 Hneq].
        assert (Hstep : sf_until_err (List.length q + f1) (mk_sfi rest q l) [i0] = Val ((i0 :: q) ++ items)).
        { rewrite drain_queue_l by exact Hneq. rewrite sf_until_err_acc, Hi. unfold rmap, bind.
          rewrite rev_app_distr, rev_involutive. reflexivity. }
        destruct i0; try discriminate Hne0; exact Hstep.
      * pose proof (table_row (P := fun _ e m => row_is_err e m = false -> forallb not_kerr (row_toks tokens_simple e m) = true)
                       rows_noerr name e m Hin Hm) as Hnk. cbv beta in Hnk. specialize (Hnk Eerr).
        rewrite upto_err_app.
        2:{ intros t Ht ->. rewrite forallb_forall in Hnk. specialize (Hnk _ Ht). discriminate. }
        rewrite map_app. apply norm_app_congr2; [exact Hnorm|].
        rewrite Hn. rewrite (toks_fuel tokens_simple (S (List.length rest)) (List.length (37 :: m ++ name ++ rest)) rest)
          by lia. reflexivity.
  - (* text *)
    destruct (first_char_not_percent b0 r' Hv ltac:(lia)) as (c0 & Hnc & Ec0).
    destruct (text_step l [] (b0 :: r') c0 Hv Hnc Ec0) as (k & Hk & Hvk & Hn37 & Hp).
    set (r := b0 :: r') in *. set (it := firstn k r) in *. set (rm := skipn k r) in *.
    assert (Hsplit : r = it ++ rm) by (symmetry; apply firstn_skipn).
    assert (Hlit : List.length it = k) by (unfold it; apply firstn_length_le; lia).
    assert (Hlrm : List.length r = (k + List.length rm)%nat) by (rewrite Hsplit at 1; rewrite app_length; lia).
    assert (Htoks : toks tokens_simple (S (List.length r)) r
                    = map (fun c => KText [c]) it ++ toks tokens_simple (S (List.length rm)) rm).
    { rewrite <- (toks_text tokens_simple it rm (S (List.length rm)) Hn37), <- Hsplit. f_equal. lia. }
    assert (Hle' : l = true -> has_err (toks tokens_simple (S (List.length rm)) rm) = false).
    { intros E. specialize (Hle E). rewrite Htoks, has_err_app, has_err_text in Hle. exact Hle. }
    destruct (IH rm ltac:(lia) Hvk Hle' f0 ltac:(lia)) as (items & Hi & Hn).
    set (item := if is_whitespace c0 then Space it else Literal it) in *.
    exists (item :: items). split.
    + cbn [sf_until_err]. unfold sf_next. cbn [sf_queue sf_remainder sf_lenient]. rewrite Hp. cbv [bind].
      assert (Hstep : sf_until_err f0 (mk_sfi rm [] l) [item] = Val (item :: items)).
      { rewrite sf_until_err_acc, Hi. reflexivity. }
      unfold item in *. destruct (is_whitespace c0); exact Hstep.
    + rewrite Htoks.
      rewrite upto_err_app by (intros t Ht ->; apply in_map_iff in Ht; destruct Ht as (c & Hc & _); discriminate).
      rewrite map_app, map_map. cbn [item_of_tok].
      rewrite norm_singletons by (intros E; rewrite E in Hlit; cbn in Hlit; lia).
      assert (Hitem : norm_items (item :: items) = norm_items (Literal it :: items))
        by (unfold item; destruct (is_whitespace c0); reflexivity).
      rewrite Hitem. change (Literal it :: items) with ([Literal it] ++ items).
      change (Literal it :: map item_of_tok (upto_err (toks tokens_simple (S (List.length rm)) rm)))
        with ([Literal it] ++ map item_of_tok (upto_err (toks tokens_simple (S (List.length rm)) rm))).
      apply norm_app_congr. exact Hn.
Qed.
Lemma tok_main_all : forall (n : nat) r, (List.length r <= n)%nat -> utf8_valid r = true ->
  forall fuel, (13 * List.length r < fuel)%nat ->
  exists items, sf_until_err fuel (mk_sfi r [] false) [] = Val items /\
    norm_items items =
    norm_items (map item_of_tok (upto_err (toks tokens_simple (S (List.length r)) r))).
Proof. intros n r Hl Hv fuel Hf. apply (tok_main_gen false n r Hl Hv); [discriminate|exact Hf]. Qed.

(** tokenization_all: the item list of EVERY valid UTF-8 format string is the documented one *)
Theorem tokenization_all : forall fmt, utf8_valid fmt = true -> tokenization_agrees fmt.
Proof.
  intros fmt Hv. unfold tokenization_agrees, strict_items, doc_items, tokens.
  apply (tok_main_all (List.length fmt) fmt (le_n _) Hv). unfold sf_bound. lia.
Qed.

(** format_spec for every format string *)
Theorem format_spec_all : forall a sv fmt, args_view a sv -> utf8_valid fmt = true ->
  claim (doc_format sv fmt) (delayed_display a (sf_new fmt)).
Proof. intros a sv fmt Hv Hf. apply format_spec; [exact Hv|apply tokenization_all; exact Hf]. Qed.

(** an undocumented specifier anywhere makes the strict item list end with [Error] there:
    the documented tokens up to the first error, then [Error] *)
Theorem unknown_specifier_error_in_context : forall pre r pad r1,
  utf8_valid (pre ++ 37 :: r) = true -> ~ In 37 pre ->
  split_mod r = (pad, r1) -> lookup doc_table r1 = None ->
  exists items, strict_items (pre ++ 37 :: r) = Val items /\
    norm_items items = norm_items ((if pre then [] else [Literal pre]) ++ [IError]).
Proof.
  intros pre r pad r1 Hv Hn Hs Hl.
  destruct (tokenization_all _ Hv) as (items & Hi & Hnorm). exists items. split; [exact Hi|].
  rewrite Hnorm. unfold doc_items, tokens.
  replace (S (List.length (pre ++ 37 :: r))) with (List.length pre + S (S (List.length r)))%nat
    by (rewrite app_length; cbn [List.length]; lia).
  rewrite (toks_text tokens_simple pre (37 :: r) _ Hn).
  rewrite toks_unfold. change (37 =? 37) with true. cbv beta iota. unfold toks_percent. rewrite Hs, Hl.
  rewrite upto_err_app by (intros t Ht ->; apply in_map_iff in Ht; destruct Ht as (c & Hc & _); discriminate).
  rewrite map_app, map_map. cbn [item_of_tok upto_err map].
  destruct pre as [|p0 pre']; [reflexivity|].
  rewrite norm_singletons by discriminate. reflexivity.
Qed.
