(** C01-specific lemmas: the [Datelike] provided method num_days_from_ce, month0/day0/ordinal0,
    the whole accessor record of the [d.acc] op, and the bijection statements. *)
From Coq Require Import ZArith List Bool Lia ZifyBool.
From V Require Import Base.Int Base.IntLemmas Base.Bits Base.Table Base.Lift Base.IO Gen.DateTables Gen.DatelikeDefaults
  Model.Date Model.C01 Spec.Gregorian.
From V Require Export Proofs.Date Proofs.DateIso Proofs.GregorianForms.
Import ListNotations.
Open Scope Z_scope.
Ltac Zify.zify_post_hook ::= Z.to_euclidean_division_equations.

(** [Datelike::num_days_from_ce] (provided method of src/traits.rs) on the year and ordinal of a date *)
Theorem datelike_num_days_from_ce_spec y o : year_in_range y = true -> 1 <= o <= 366 ->
  datelike_num_days_from_ce y o = Val (dn_of_yo y o).
Proof.
  intros Hy Fo. pose proof (year_range_bounds y Hy) as Hyb.
  unfold datelike_num_days_from_ce.
  unfold TR_NDCE_YSUB, TR_NDCE_INIT, TR_NDCE_ONE, TR_NDCE_A, TR_NDCE_B, TR_NDCE_C, TR_NDCE_D, TR_NDCE_E, TR_NDCE_F, TR_NDCE_G.
  chk_ok.
  destruct (y - 1 <? 0) eqn:Eneg.
  - chk_ok. unfold div_i32. rewrite div_t_nz by lia.
    set (q := Z.quot (- (y - 1)) 400).
    assert (Hq : - (y - 1) = 400 * q + Z.rem (- (y - 1)) 400 /\ 0 <= Z.rem (- (y - 1)) 400 < 400 /\ 0 <= q <= 656).
    { unfold q. lia. }
    clearbody q. set (r := Z.rem (- (y - 1)) 400) in *. clearbody r.
    do 6 chk_ok. cbn [bind].
    set (p := y - 1 + (1 + q) * 400).
    assert (Hp : 0 <= p <= 400) by (unfold p; lia).
    rewrite div_t_nz by lia. rewrite Z.quot_div_nonneg by lia.
    chk_ok. chk_ok. rewrite !shr_div by lia. change (2 ^ 2) with 4.
    chk_ok. chk_ok. chk_ok. rewrite as_i32_id by solve_in. chk_ok.
    f_equal. unfold dn_of_yo. rewrite ndce_pos by lia.
    replace (days_before_year y) with (days_before_year (p + 1 + 400 * (- (1 + q)))) by (f_equal; unfold p; lia).
    rewrite dby_shift. unfold days_before_year. replace (p + 1 - 1) with p by lia. lia.
  - cbn [bind]. unfold div_i32. rewrite div_t_nz by lia. rewrite Z.quot_div_nonneg by lia.
    chk_ok. chk_ok. rewrite !shr_div by lia. change (2 ^ 2) with 4.
    chk_ok. chk_ok. chk_ok. rewrite as_i32_id by solve_in. chk_ok.
    f_equal. unfold dn_of_yo, days_before_year. rewrite ndce_pos by lia. lia.
Qed.

(** every accessor of a represented date, as the calendar has it *)
Definition spec_acc (y o : Z) : dacc :=
  let n := dn_of_yo y o in
  let md := md_of_ordinal (is_leap y) o in
  {| a_y := y; a_m := fst md; a_d := snd md; a_o := o; a_wd := weekday_of_dn n;
     a_iy := fst (iso_of_dn n); a_iw := snd (iso_of_dn n); a_dn := n;
     a_m0 := fst md - 1; a_d0 := snd md - 1; a_o0 := o - 1; a_dn2 := n |}.

Theorem accessors_spec y o d : repr y o d -> d_acc d = Val (spec_acc y o).
Proof.
  intros H. pose proof (repr_acc y o d H) as A. unfold spec_acc. cbv zeta.
  destruct (md_of_ordinal (is_leap y) o) as [m dd] eqn:Emd. cbn [fst snd].
  destruct A as (Ey & Eo & _ & _ & _ & Emdf & Em & Ed & Ewd & Hvmd & _).
  destruct (d_iso_week_spec y o d H) as (Eiw & Eiy & Eiwk). cbv zeta in Eiw, Eiy, Eiwk.
  pose proof (lo_facts_of y o (proj1 (proj2 H))) as [_ Fo _ _ _ _ _].
  unfold valid_md in Hvmd. pose proof (days_in_month_bounds (is_leap y) m) as Bdm.
  unfold d_acc, d_month0, d_day0, d_ordinal0, d_num_days_from_ce_default.
  rewrite Em, Ed, Ewd, Eiw, (num_days_from_ce_spec y o d H), Emdf, Ey, Eo. cbn [bind].
  chk_ok.
  assert (Hday : mdf_day (m * 512 + dd * 16 + yflags y) = dd).
  { unfold d_day in Ed. rewrite Emdf in Ed. cbn [bind] in Ed. apply Val_inj in Ed. exact Ed. }
  rewrite Hday. chk_ok. chk_ok.
  rewrite datelike_num_days_from_ce_spec by (try exact (proj1 H); lia). cbn [bind].
  rewrite Eiy, Eiwk. reflexivity.
Qed.

(** the four forms are in bijection: onto the whole range of day numbers, and injective *)
Theorem dn_onto n : dn_in_range n = true ->
  exists y o d, repr y o d /\ dn_of_yo y o = n /\ from_num_days_from_ce_opt n = Val (Some d).
Proof.
  intros Hn. exists (fst (yo_of_dn n)), (snd (yo_of_dn n)), (date_of_dn n).
  split; [apply date_of_dn_repr; assumption|]. split; [apply yo_of_dn_valid|].
  rewrite from_num_days_from_ce_opt_spec, Hn; [reflexivity|]. unfold dn_in_range, DN_MIN, DN_MAX in Hn. solve_in.
Qed.

Theorem mk_ymd_repr y m dd : year_in_range y = true -> valid_ymd y m dd = true ->
  repr y (ordinal_of_md (is_leap y) m dd) (mk_ymd y m dd) /\
  md_of_ordinal (is_leap y) (ordinal_of_md (is_leap y) m dd) = (m, dd).
Proof.
  intros Hy Hv. unfold valid_ymd in Hv.
  destruct (ordinal_of_md_valid (is_leap y) m dd ltac:(lia) ltac:(lia)) as [Ho Hmd].
  split; [|exact Hmd]. unfold mk_ymd. apply repr_mk; [assumption|].
  unfold valid_yo, days_in_year. destruct (is_leap y); lia.
Qed.

Theorem succ_pred_none_iff y o d : repr y o d ->
  (succ_opt d = Val None <-> d = D_MAX) /\ (pred_opt d = Val None <-> d = D_MIN).
Proof.
  intros H. pose proof (repr_dn_in_range y o d H) as R. unfold dn_in_range in R.
  assert (HMAX : repr MAX_YEAR 365 D_MAX) by (split; [reflexivity|split; reflexivity]).
  assert (HMIN : repr MIN_YEAR 1 D_MIN) by (split; [reflexivity|split; reflexivity]).
  assert (EMAX : dn_of_yo MAX_YEAR 365 = DN_MAX) by reflexivity.
  assert (EMIN : dn_of_yo MIN_YEAR 1 = DN_MIN) by reflexivity.
  rewrite (succ_opt_spec y o d H), (pred_opt_spec y o d H). split; split.
  - intros E. destruct (dn_in_range (dn_of_yo y o + 1)) eqn:E1; [discriminate|].
    apply (date_word_inj _ _ _ _ _ _ H HMAX). unfold dn_in_range in E1. lia.
  - intros ->. destruct (repr_inj _ _ _ _ _ H HMAX) as [-> ->]. reflexivity.
  - intros E. destruct (dn_in_range (dn_of_yo y o - 1)) eqn:E1; [discriminate|].
    apply (date_word_inj _ _ _ _ _ _ H HMIN). unfold dn_in_range in E1. lia.
  - intros ->. destruct (repr_inj _ _ _ _ _ H HMIN) as [-> ->]. reflexivity.
Qed.

Lemma example_2024_02_29 : repr 2024 60 (mkdate 2024 60) /\
  from_ymd_opt 2024 2 29 = Val (Some (mkdate 2024 60)) /\ dn_of_yo 2024 60 = 738945 /\
  from_isoywd_opt 2024 9 3 = Val (Some (mkdate 2024 60)).
Proof. split; [split; [reflexivity|split; reflexivity]|]. split; [vm_compute; reflexivity|]. split; vm_compute; reflexivity. Qed.
