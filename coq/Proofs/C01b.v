(** C01b — the ops of Model/C01b.v: the deprecated panicking twins of the four constructors and of
    succ / pred return the value of the checked form and panic exactly where that is [None];
    [d.acc2]: leap_year is the Gregorian leap rule, week0 the ISO week minus one, and the day number
    read through [NaiveDateTime::from(date)] / the date read back through [NaiveDate::from(..)] are
    the date's own.  Then the wrapper form of [C01_holds]: the wrapper judge accepts the wrapper
    model's output on every case of its domain. *)
From Coq Require Import ZArith List Bool Lia ZifyBool String.
From V Require Import Base.Int Base.IntLemmas Base.IO Base.Table Gen.DateTables Model.TimeDelta Model.Date Model.C01
  Spec.Gregorian Proofs.C01 Proofs.C01Holds.
From V Require Model.C01b Judge.C01 Judge.C01b Model.Time.
Import ListNotations.
Open Scope Z_scope.
Ltac Zify.zify_post_hook ::= Z.to_euclidean_division_equations.

(** the panicking reading of an optional date: the date if [b], a panic otherwise *)
Definition date_or_panic (b : bool) (d : Z) : R Z := if b then Val d else Panic.

Lemma unwrap_date_if b d : unwrap_r (Val (date_if b d)) = date_or_panic b d.
Proof. destruct b; reflexivity. Qed.

(** * the panicking constructors, for ALL arguments of the Rust types *)
Theorem pymd_spec y m dd : in_i32 y = true -> in_u32 m = true -> in_u32 dd = true ->
  unwrap_r (from_ymd_opt y m dd) = date_or_panic (year_in_range y && valid_ymd y m dd) (mk_ymd y m dd).
Proof. intros. rewrite from_ymd_opt_spec by assumption. apply unwrap_date_if. Qed.

Theorem pyo_spec y o : in_i32 y = true -> in_u32 o = true ->
  unwrap_r (from_yo_opt y o) = date_or_panic (year_in_range y && valid_yo y o) (mkdate y o).
Proof. intros. rewrite from_yo_opt_spec by assumption. apply unwrap_date_if. Qed.

Theorem pisoywd_spec y w wd : in_i32 y = true -> in_u32 w = true -> 0 <= wd <= 6 ->
  unwrap_r (from_isoywd_opt y w wd) =
    date_or_panic (valid_isoywd y w wd && dn_in_range (dn_of_isoywd y w wd)) (date_of_dn (dn_of_isoywd y w wd)).
Proof. intros. rewrite from_isoywd_opt_spec by assumption. apply unwrap_date_if. Qed.

Theorem pdays_spec n : in_i32 n = true ->
  unwrap_r (from_num_days_from_ce_opt n) = date_or_panic (dn_in_range n) (date_of_dn n).
Proof. intros. rewrite from_num_days_from_ce_opt_spec by assumption. apply unwrap_date_if. Qed.

(** succ / pred (deprecated, panicking): the neighbouring day, a panic exactly at the end of the range *)
Theorem psucc_spec y o d : repr y o d ->
  unwrap_r (succ_opt d) = date_or_panic (dn_in_range (dn_of_yo y o + 1)) (date_of_dn (dn_of_yo y o + 1)).
Proof. intros H. rewrite (succ_opt_spec y o d H). apply unwrap_date_if. Qed.
Theorem ppred_spec y o d : repr y o d ->
  unwrap_r (pred_opt d) = date_or_panic (dn_in_range (dn_of_yo y o - 1)) (date_of_dn (dn_of_yo y o - 1)).
Proof. intros H. rewrite (pred_opt_spec y o d H). apply unwrap_date_if. Qed.

(** twin = checked form, stated once for all six: a value exactly when the checked form has one *)
Theorem twin_of_checked {A} (c : R (option A)) (x : option A) : c = Val x ->
  unwrap_r c = match x with Some a => Val a | None => Panic end.
Proof. intros ->. destruct x; reflexivity. Qed.

Theorem psucc_panics_iff_max y o d : repr y o d ->
  (unwrap_r (succ_opt d) = Panic <-> d = D_MAX) /\ (unwrap_r (pred_opt d) = Panic <-> d = D_MIN).
Proof.
  intros H. destruct (succ_pred_none_iff y o d H) as [S P].
  rewrite (succ_opt_spec y o d H) in *. rewrite (pred_opt_spec y o d H) in *.
  split; split; intros E.
  - apply S. destruct (dn_in_range (dn_of_yo y o + 1)); [discriminate|reflexivity].
  - apply S in E. injection E as E. destruct (dn_in_range (dn_of_yo y o + 1)); [discriminate|reflexivity].
  - apply P. destruct (dn_in_range (dn_of_yo y o - 1)); [discriminate|reflexivity].
  - apply P in E. injection E as E. destruct (dn_in_range (dn_of_yo y o - 1)); [discriminate|reflexivity].
Qed.

(** * [d.acc2] *)
Theorem leap_year_spec y o d : repr y o d -> d_leap_year d = is_leap y.
Proof.
  intros H. pose proof (repr_acc y o d H) as A. destruct (md_of_ordinal (is_leap y) o). tauto.
Qed.

Theorem week0_spec y o d : repr y o d ->
  (let* iw := d_iso_week d in iw_week0 iw) = Val (snd (iso_of_dn (dn_of_yo y o)) - 1).
Proof.
  intros H. destruct (d_iso_week_spec y o d H) as (E & _ & Ew). cbv zeta in E, Ew.
  rewrite E. cbn [bind]. unfold iw_week0. rewrite Ew.
  pose proof (iso_of_dn_bounds (dn_of_yo y o)). chk_ok. reflexivity.
Qed.

(** the whole observation: (leap_year, week0, num_days_from_ce of NaiveDateTime::from(date),
    NaiveDate::from(NaiveDateTime::from(date))) *)
Definition spec_acc2 (y o : Z) (d : Z) : val :=
  VTup [val_of_bool (is_leap y); VInt (snd (iso_of_dn (dn_of_yo y o)) - 1); VInt (dn_of_yo y o); enc_date d].

Theorem acc2_spec y o d : repr y o d -> C01b.d_acc2 d = Val (spec_acc2 y o d).
Proof.
  intros H. unfold C01b.d_acc2.
  pose proof (week0_spec y o d H) as W.
  destruct (d_iso_week d) as [iw| |] eqn:Eiw; cbn [bind] in W |- *; try discriminate.
  rewrite W. cbn [bind].
  change (unwrap_r (Time.from_hms_opt 0 0 0)) with (Val (Time.mk_time 0 0)). cbn [bind].
  pose proof (repr_acc y o d H) as A. destruct (md_of_ordinal (is_leap y) o).
  destruct A as (Ey & Eo & _ & El & _).
  pose proof (lo_facts_of y o (proj1 (proj2 H))) as [_ Fo _ _ _ _ _].
  rewrite Ey, Eo. rewrite datelike_num_days_from_ce_spec by (try exact (proj1 H); lia). cbn [bind].
  rewrite El. reflexivity.
Qed.

(** conversions: the date-time built from a date is the date at midnight, and reading its date back
    is the identity; its day number (provided method through the NaiveDateTime impl) is the date's *)
Theorem from_conversions_spec y o d : repr y o d ->
  unwrap_r (Time.from_hms_opt 0 0 0) = Val (Time.mk_time 0 0) /\
  datelike_num_days_from_ce (d_year d) (d_ordinal d) = Val (dn_of_yo y o) /\
  num_days_from_ce d = Val (dn_of_yo y o).
Proof.
  intros H. split; [reflexivity|].
  pose proof (repr_acc y o d H) as A. destruct (md_of_ordinal (is_leap y) o).
  destruct A as (Ey & Eo & _).
  pose proof (lo_facts_of y o (proj1 (proj2 H))) as [_ Fo _ _ _ _ _].
  rewrite Ey, Eo. split; [apply datelike_num_days_from_ce_spec; [exact (proj1 H)|lia]|].
  apply (num_days_from_ce_spec y o d H).
Qed.

(** * the wrapper judge accepts the wrapper model on every case of its domain *)
Lemma or_panic_exp_dn n :
  val_of_R enc_date (date_or_panic (dn_in_range n) (date_of_dn n)) = C01b.or_panic (Judge.C01.exp_dn n).
Proof.
  unfold Judge.C01.exp_dn, date_or_panic. destruct (dn_in_range n) eqn:E; [|reflexivity].
  cbn [val_of_R C01b.or_panic]. rewrite (enc_date_repr _ _ _ (date_of_dn_repr n E)).
  destruct (yo_of_dn n). reflexivity.
Qed.

Lemma un_holds_b (f : Z -> val) (g : Z -> val) args :
  (forall y o, repr y o (mkdate y o) -> g (mkdate y o) = f (dn_of_yo y o)) ->
  (Judge.C01.un f args (C01b.date_1 args g)) <> JSkip ->
  Judge.C01.un f args (C01b.date_1 args g) = JOk.
Proof.
  intros Hfg. unfold Judge.C01.un, C01b.date_1. destruct args as [|a [|b r]]; try congruence.
  destruct (Judge.C01.dn_of_arg a) as [n|] eqn:E; [|congruence]. intros _.
  destruct (arg_decodes a n E) as (y & o & -> & Hr & -> & Hdec).
  rewrite Hdec. rewrite (Hfg y o Hr). apply judge_eq_refl.
Qed.

Theorem C01b_holds op args :
  Judge.C01b.judge op args (Model.C01b.run op args) <> JSkip ->
  Judge.C01b.judge op args (Model.C01b.run op args) = JOk.
Proof.
  unfold Judge.C01b.judge, Model.C01b.run. intros Hdom.
  destruct (op_is op "d.acc2") eqn:O1.
  { apply un_holds_b; [|exact Hdom]. intros y o H. rewrite (acc2_spec y o _ H). cbn [val_of_R].
    unfold spec_acc2, C01b.exp_acc2. rewrite yo_of_dn_of_yo by exact (proj1 (proj2 H)).
    destruct (iso_of_dn (dn_of_yo y o)) as [iy iw]. cbn [snd].
    rewrite (enc_date_repr _ _ _ H). reflexivity. }
  destruct (op_is op "d.pymd") eqn:O2.
  { destruct args as [|[y| | | | | | | |] [|[m| | | | | | | |] [|[d| | | | | | | |] [|? ?]]]]; try congruence.
    destruct (in_i32 y && in_u32 m && in_u32 d) eqn:E; [|congruence].
    apply andb_prop in E. destruct E as [E E3]. apply andb_prop in E. destruct E as [E1 E2].
    unfold arg_i32, arg_u32. rewrite E1, E2, E3. rewrite pymd_spec by assumption.
    rewrite (andb_comm (valid_ymd y m d)). unfold date_or_panic.
    destruct (year_in_range y && valid_ymd y m d) eqn:V; cbn [val_of_R]; [|apply judge_eq_refl].
    apply andb_prop in V. destruct V as [V1 V2].
    destruct (mk_ymd_repr y m d V1 V2) as [Hr _]. rewrite (enc_date_repr _ _ _ Hr). apply judge_eq_refl. }
  destruct (op_is op "d.pyo") eqn:O3.
  { destruct args as [|[y| | | | | | | |] [|[o| | | | | | | |] [|? ?]]]; try congruence.
    destruct (in_i32 y && in_u32 o) eqn:E; [|congruence].
    apply andb_prop in E. destruct E as [E1 E2].
    unfold arg_i32, arg_u32. rewrite E1, E2. rewrite pyo_spec by assumption.
    rewrite (andb_comm (valid_yo y o)). unfold date_or_panic.
    destruct (year_in_range y && valid_yo y o) eqn:V; cbn [val_of_R]; [|apply judge_eq_refl].
    apply andb_prop in V. destruct V as [V1 V2].
    rewrite (enc_date_repr _ _ _ (repr_mk y o V1 V2)). apply judge_eq_refl. }
  destruct (op_is op "d.pisoywd") eqn:O4.
  { destruct args as [|[y| | | | | | | |] [|[w| | | | | | | |] [|[wd| | | | | | | |] [|? ?]]]]; try congruence.
    destruct (in_i32 y && in_u32 w && (0 <=? wd) && (wd <=? 6)) eqn:E; [|congruence].
    apply andb_prop in E. destruct E as [E E4]. apply andb_prop in E. destruct E as [E E3].
    apply andb_prop in E. destruct E as [E1 E2].
    unfold arg_i32, arg_u32. rewrite E1, E2, E3, E4. cbn [andb].
    rewrite pisoywd_spec by (assumption || lia).
    destruct (valid_isoywd y w wd); cbn [andb]; [|apply judge_eq_refl].
    rewrite or_panic_exp_dn. apply judge_eq_refl. }
  destruct (op_is op "d.pdays") eqn:O5.
  { destruct args as [|[n| | | | | | | |] [|? ?]]; try congruence.
    destruct (in_i32 n) eqn:E; [|congruence].
    unfold arg_i32. rewrite E. rewrite pdays_spec by assumption.
    rewrite or_panic_exp_dn. apply judge_eq_refl. }
  destruct (op_is op "d.psucc") eqn:O6.
  { apply un_holds_b; [|exact Hdom]. intros y o H. rewrite (psucc_spec y o _ H). apply or_panic_exp_dn. }
  destruct (op_is op "d.ppred") eqn:O7.
  { apply un_holds_b; [|exact Hdom]. intros y o H. rewrite (ppred_spec y o _ H). apply or_panic_exp_dn. }
  apply C01_holds. exact Hdom.
Qed.

(** inhabitedness: 2024-02-29 (leap year, ISO week 9) and the two ends of the range *)
Lemma example_acc2 :
  repr 2024 60 (mkdate 2024 60) /\
  C01b.d_acc2 (mkdate 2024 60) = Val (VTup [VInt 1; VInt 8; VInt 738945; VTup [VInt 2024; VInt 60]]) /\
  unwrap_r (from_ymd_opt 2024 2 30) = Panic /\ unwrap_r (from_ymd_opt 2024 2 29) = Val (mkdate 2024 60) /\
  repr MAX_YEAR 365 D_MAX /\ unwrap_r (succ_opt D_MAX) = Panic /\
  repr MIN_YEAR 1 D_MIN /\ unwrap_r (pred_opt D_MIN) = Panic.
Proof.
  split; [split; [reflexivity|split; reflexivity]|].
  split; [vm_compute; reflexivity|]. split; [vm_compute; reflexivity|]. split; [vm_compute; reflexivity|].
  split; [split; [reflexivity|split; reflexivity]|]. split; [vm_compute; reflexivity|].
  split; [split; [reflexivity|split; reflexivity]|]. vm_compute; reflexivity.
Qed.
