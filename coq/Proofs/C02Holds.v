(** C02 — the executable statement of the property (Judge/C02.v, the oracle applied to the
    implementation's outputs) accepts the model's output on every in-domain case of the constructor and
    accessor operations.  Together with the correspondence run (implementation = model on the generated
    cases) this closes the loop  implementation ~ model |= judge.
    Relative to [date_facts] (see Proofs/C02.v) and to one more C01 fact, [C01_fields]: the year and
    ordinal fields of a valid date are a valid (year, ordinal) pair in range and rebuild the date. *)
From Coq Require Import String ZArith List Bool Lia ZifyBool.
From V Require Import Base.Int Base.IO Base.IntLemmas Spec.Gregorian Model.TimeDelta.
From V Require Model.Date Model.Time Judge.C02.
From V Require Import Model.DateTime Model.C02 Proofs.C02.
Import ListNotations.
Open Scope Z_scope.
Ltac Zify.zify_post_hook ::= Z.to_euclidean_division_equations.

Definition C01_fields : Prop := forall d, valid_date d ->
  year_in_range (Date.d_year d) = true /\ valid_yo (Date.d_year d) (Date.d_ordinal d) = true /\
  in_i32 (Date.d_year d) = true /\ in_u32 (Date.d_ordinal d) = true /\
  Date.from_yo_opt (Date.d_year d) (Date.d_ordinal d) = Val (Some d).

Lemma arg_i64_int z : in_i64 z = true -> arg_i64 (VInt z) = Some z.
Proof. unfold arg_i64. intros ->. reflexivity. Qed.
Lemma arg_u32_int z : in_u32 z = true -> arg_u32 (VInt z) = Some z.
Proof. unfold arg_u32. intros ->. reflexivity. Qed.

Section Holds.
  Hypothesis DF : date_facts.
  Hypothesis FF : C01_fields.

  (* the judge's decoding of an encoded valid date-time *)
  Lemma dec_enc a : valid_ndt a ->
    match enc_ndt a with
    | VTup l => Judge.C02.dec_dt l = Some (date_dn (nd_date a), dsecs a, dfrac a)
    | _ => False
    end.
  Proof.
    intros [Hd [Hs Hf]]. destruct (FF _ Hd) as [Hy [Ho _]].
    unfold enc_ndt, Judge.C02.dec_dt. fold (dsecs a). fold (dfrac a). rewrite Hy, Ho.
    unfold Judge.C02.G, G in *. cbn [andb].
    replace ((0 <=? dsecs a) && (dsecs a <? 86400) && (0 <=? dfrac a) && (dfrac a <? 2 * 1000000000)) with true by lia.
    reflexivity.
  Qed.

  Lemma accept_iff secs nsecs : 0 <= nsecs ->
    Judge.C02.accept secs nsecs = true <-> (SEC_MIN <= secs <= SEC_MAX /\ (nsecs < G \/ (nsecs < 2 * G /\ secs mod 60 = 59))).
  Proof.
    intros Hn. unfold Judge.C02.accept, Judge.C02.secs_in_range, Judge.C02.SEC_MIN, Judge.C02.SEC_MAX, Judge.C02.G, SEC_MIN, SEC_MAX, G. lia.
  Qed.

  Lemma ctor_opt_ok should right (r : option ndt) :
    match r with
    | Some a => valid_ndt a /\ should = true /\ right (date_dn (nd_date a), dsecs a, dfrac a) = true
    | None => should = false
    end ->
    Judge.C02.judge_ctor Judge.C02.KOpt should right (vo_ndt r) = JOk.
  Proof.
    destruct r as [a|]; intros H.
    - destruct H as [Hv [Hs Hr]]. pose proof (dec_enc a Hv) as Hd.
      unfold vo_ndt, val_of_option, Judge.C02.judge_ctor, Judge.C02.payload.
      destruct (enc_ndt a) as [| | | |l| | | |]; try contradiction. rewrite Hs, Hd, Hr. reflexivity.
    - unfold vo_ndt, val_of_option, Judge.C02.judge_ctor, Judge.C02.payload. rewrite H. reflexivity.
  Qed.

  Lemma vo_ndt_not_bad r : Judge.C02.is_badargs (vo_ndt r) = false.
  Proof. destruct r; reflexivity. Qed.

  Theorem holds_from secs nsecs : in_i64 secs = true -> in_u32 nsecs = true ->
    Judge.C02.judge B"ts.from" [VInt secs; VInt nsecs] (run B"ts.from" [VInt secs; VInt nsecs]) = JOk.
  Proof.
    intros Hs Hn.
    assert (Hrun : run B"ts.from" [VInt secs; VInt nsecs] = val_of_R vo_ndt (dt_from_timestamp secs nsecs)).
    { change (run B"ts.from" [VInt secs; VInt nsecs]) with
        (match arg_i64 (VInt secs), arg_u32 (VInt nsecs) with
         | Some s, Some n => val_of_R vo_ndt (dt_from_timestamp s n) | _, _ => VBad end).
      rewrite arg_i64_int, arg_u32_int by assumption. reflexivity. }
    rewrite Hrun. destruct (from_timestamp_spec DF secs nsecs Hs Hn) as [r [Hr Hspec]]. rewrite Hr.
    cbn [val_of_R].
    change (Judge.C02.judge B"ts.from" [VInt secs; VInt nsecs] (vo_ndt r)) with
      (if Judge.C02.is_badargs (vo_ndt r) then JSkip else
       if in_i64 secs && in_u32 nsecs then Judge.C02.judge_ctor Judge.C02.KOpt (Judge.C02.accept secs nsecs) (Judge.C02.right_secs secs nsecs) (vo_ndt r) else JSkip).
    rewrite vo_ndt_not_bad, Hs, Hn. cbn [andb].
    assert (Hn0 : 0 <= nsecs) by (ranges; lia).
    apply ctor_opt_ok. destruct r as [a|].
    - destruct Hspec as [Hv [Hsec [Hf Hns]]]. split; [exact Hv|]. split.
      + apply accept_iff; [exact Hn0|]. split; [|exact Hns]. rewrite <- Hsec. apply secs_of_range; assumption.
      + unfold Judge.C02.right_secs. fold (secs_of a). rewrite Hsec, Hf. rewrite !Z.eqb_refl. reflexivity.
    - destruct (Judge.C02.accept secs nsecs) eqn:E; [|reflexivity]. exfalso. apply Hspec. apply accept_iff; assumption.
  Qed.

  Lemma ns_in_range_iff t : Judge.C02.ns_in_range t = true <-> NS_MIN <= t <= NS_MAX.
  Proof. unfold Judge.C02.ns_in_range. lia. Qed.
  Lemma right_ns_ok a t : valid_ndt a -> nonleap a -> instant a = t ->
    Judge.C02.right_ns t (date_dn (nd_date a), dsecs a, dfrac a) = true.
  Proof.
    intros Hv Hl Hi. unfold Judge.C02.right_ns. unfold instant in Hi. rewrite Hi, Z.eqb_refl.
    unfold nonleap, G in Hl. unfold Judge.C02.G. lia.
  Qed.

  Lemma holds_unit_opt (f : Z -> R (option ndt)) (unit x : Z) :
    (exists r, f x = Val r /\
       match r with
       | Some a => valid_ndt a /\ nonleap a /\ instant a = x * unit
       | None => ~ (NS_MIN <= x * unit <= NS_MAX)
       end) ->
    Judge.C02.judge_ctor Judge.C02.KOpt (Judge.C02.ns_in_range (x * unit)) (Judge.C02.right_ns (x * unit))
      (val_of_R vo_ndt (f x)) = JOk.
  Proof.
    intros [r [Hr Hspec]]. rewrite Hr. cbn [val_of_R]. apply ctor_opt_ok. destruct r as [a|].
    - destruct Hspec as [Hv [Hl Hi]]. split; [exact Hv|]. split.
      + apply ns_in_range_iff. rewrite <- Hi. apply nonleap_instant_range; assumption.
      + apply right_ns_ok; assumption.
    - destruct (Judge.C02.ns_in_range (x * unit)) eqn:E; [|reflexivity]. exfalso. apply Hspec. apply ns_in_range_iff. exact E.
  Qed.

  Theorem holds_fromms x : in_i64 x = true ->
    Judge.C02.judge B"ts.fromms" [VInt x] (run B"ts.fromms" [VInt x]) = JOk.
  Proof.
    intros Hx.
    assert (Hrun : run B"ts.fromms" [VInt x] = val_of_R vo_ndt (dt_from_timestamp_millis x)).
    { change (run B"ts.fromms" [VInt x]) with
        (match arg_i64 (VInt x) with Some z => val_of_R vo_ndt (dt_from_timestamp_millis z) | None => VBad end).
      rewrite arg_i64_int by assumption. reflexivity. }
    rewrite Hrun.
    change (Judge.C02.judge B"ts.fromms" [VInt x] (val_of_R vo_ndt (dt_from_timestamp_millis x))) with
      (if Judge.C02.is_badargs (val_of_R vo_ndt (dt_from_timestamp_millis x)) then JSkip else
       if in_i64 x then Judge.C02.judge_ctor Judge.C02.KOpt (Judge.C02.ns_in_range (x * 1000000))
                          (Judge.C02.right_ns (x * 1000000)) (val_of_R vo_ndt (dt_from_timestamp_millis x)) else JSkip).
    destruct (from_timestamp_millis_spec DF x Hx) as [r [Hr Hspec]].
    rewrite Hx. replace (Judge.C02.is_badargs (val_of_R vo_ndt (dt_from_timestamp_millis x))) with false
      by (rewrite Hr; symmetry; apply vo_ndt_not_bad).
    apply (holds_unit_opt dt_from_timestamp_millis 1000000 x). exists r. split; assumption.
  Qed.
  Theorem holds_fromus x : in_i64 x = true ->
    Judge.C02.judge B"ts.fromus" [VInt x] (run B"ts.fromus" [VInt x]) = JOk.
  Proof.
    intros Hx.
    assert (Hrun : run B"ts.fromus" [VInt x] = val_of_R vo_ndt (dt_from_timestamp_micros x)).
    { change (run B"ts.fromus" [VInt x]) with
        (match arg_i64 (VInt x) with Some z => val_of_R vo_ndt (dt_from_timestamp_micros z) | None => VBad end).
      rewrite arg_i64_int by assumption. reflexivity. }
    rewrite Hrun.
    change (Judge.C02.judge B"ts.fromus" [VInt x] (val_of_R vo_ndt (dt_from_timestamp_micros x))) with
      (if Judge.C02.is_badargs (val_of_R vo_ndt (dt_from_timestamp_micros x)) then JSkip else
       if in_i64 x then Judge.C02.judge_ctor Judge.C02.KOpt (Judge.C02.ns_in_range (x * 1000))
                          (Judge.C02.right_ns (x * 1000)) (val_of_R vo_ndt (dt_from_timestamp_micros x)) else JSkip).
    destruct (from_timestamp_micros_spec DF x Hx) as [r [Hr Hspec]].
    rewrite Hx. replace (Judge.C02.is_badargs (val_of_R vo_ndt (dt_from_timestamp_micros x))) with false
      by (rewrite Hr; symmetry; apply vo_ndt_not_bad).
    apply (holds_unit_opt dt_from_timestamp_micros 1000 x). exists r. split; assumption.
  Qed.
  Theorem holds_fromns x : in_i64 x = true ->
    Judge.C02.judge B"ts.fromns" [VInt x] (run B"ts.fromns" [VInt x]) = JOk.
  Proof.
    intros Hx.
    assert (Hrun : run B"ts.fromns" [VInt x] = val_of_R enc_ndt (dt_from_timestamp_nanos x)).
    { change (run B"ts.fromns" [VInt x]) with
        (match arg_i64 (VInt x) with Some z => val_of_R enc_ndt (dt_from_timestamp_nanos z) | None => VBad end).
      rewrite arg_i64_int by assumption. reflexivity. }
    rewrite Hrun. destruct (from_timestamp_nanos_spec DF x Hx) as [a [Ha [Hv [Hl Hi]]]]. rewrite Ha. cbn [val_of_R].
    pose proof (dec_enc a Hv) as Hd.
    destruct (enc_ndt a) as [| | | |l| | | |] eqn:El; try contradiction.
    change (Judge.C02.judge B"ts.fromns" [VInt x] (VTup l)) with
      (if in_i64 x then Judge.C02.judge_ctor Judge.C02.KPanic (Judge.C02.ns_in_range (x * 1))
                          (Judge.C02.right_ns (x * 1)) (VTup l) else JSkip).
    rewrite Hx. unfold Judge.C02.judge_ctor, Judge.C02.payload. rewrite Hd.
    replace (Judge.C02.ns_in_range (x * 1)) with true
      by (symmetry; apply ns_in_range_iff; rewrite <- Hi, Z.mul_1_r; apply nonleap_instant_range; assumption).
    rewrite right_ns_ok by (try assumption; lia). reflexivity.
  Qed.

  (** accessors on a valid non-leap date-time given in its canonical encoding *)
  Lemma dec_ndt_enc a : valid_ndt a -> dec_ndt (enc_ndt a) = Some a.
  Proof.
    intros [Hd [Hs Hf]]. destruct (FF _ Hd) as [_ [_ [Hy [Ho Hfrom]]]].
    unfold enc_ndt, dec_ndt, dec_date. rewrite Hy, Ho, Hfrom. cbn [andb].
    unfold Time.dec_time. fold (dsecs a). fold (dfrac a).
    replace ((0 <=? dsecs a) && (dsecs a <? 86400) && (0 <=? dfrac a) && (dfrac a <? 2000000000)) with true
      by (unfold G in *; lia).
    destruct a as [d [s f]]. reflexivity.
  Qed.

  Theorem holds_of a : valid_ndt a -> nonleap a ->
    Judge.C02.judge B"ts.of" [enc_ndt a] (run B"ts.of" [enc_ndt a]) = JOk.
  Proof.
    intros Hv Hl.
    assert (Hrun : run B"ts.of" [enc_ndt a] = val_of_R (fun v => v) (ts_acc a)).
    { change (run B"ts.of" [enc_ndt a]) with
        (match dec_ndt (enc_ndt a) with Some d => val_of_R (fun v => v) (ts_acc d) | None => VBad end).
      rewrite dec_ndt_enc by assumption. reflexivity. }
    rewrite Hrun. unfold ts_acc.
    rewrite (timestamp_floor DF) by assumption. rewrite bind_val.
    rewrite (timestamp_millis_floor DF) by assumption. rewrite bind_val.
    rewrite (timestamp_micros_floor DF) by assumption. rewrite bind_val.
    rewrite (timestamp_nanos_opt_spec DF) by assumption. rewrite bind_val.
    destruct (subsec_spec a Hv) as [E1 [E2 E3]]. rewrite E1, E2, E3. cbn [val_of_R].
    pose proof (dec_enc a Hv) as Hd.
    destruct (enc_ndt a) as [| | | |l| | | |] eqn:El; try contradiction.
    match goal with |- Judge.C02.judge _ _ ?out = _ =>
      change (Judge.C02.judge B"ts.of" [VTup l] out) with (Judge.C02.j_acc (VTup l) out) end.
    unfold Judge.C02.j_acc. rewrite Hd.
    replace (dfrac a <? Judge.C02.G) with true by (unfold nonleap, G in Hl; unfold Judge.C02.G; lia).
    unfold instant. set (t := unix_nanos (date_dn (nd_date a)) (dsecs a) (dfrac a)). clearbody t.
    set (f := dfrac a). clearbody f.
    unfold Judge.C02.opt_i64, Judge.C02.G, G, judge_eq.
    destruct (in_i64 t); cbn [val_of_option val_eqb]; rewrite !Z.eqb_refl; reflexivity.
  Qed.
End Holds.
