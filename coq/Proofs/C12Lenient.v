(** Proofs for C12, part 8: the lenient iterator (`StrftimeItems::new_lenient`) on EVERY valid
    UTF-8 string: it ends without a trap and never yields [Item::Error] — every invalid specifier
    comes out as a [Literal] ([lenient_never_errors]).  The trap-freedom is C15's slice-safety
    invariant (Proofs/C15Strftime.v), the bound is [strftime_terminates].
    Also: a witness that the lenient recovery from a padding modifier on a COMPOSITE specifier
    leaks the composite's queued items after the literal ([lenient_pad_on_composite_leaks]). *)
From Coq Require Import ZArith List Bool Lia ZifyBool.
From V Require Import Base.Int Base.IO Spec.StrftimeDoc Model.Items Gen.Strftime Model.Strftime Model.Format
  Proofs.C12 Proofs.C12Str Proofs.C12Tok.
From V Require Proofs.C15Strftime.
Import ListNotations.
Open Scope Z_scope.

Fixpoint arm_noerr (a : sf_arm) : bool :=
  match a with
  | ArmItem i => not_err i
  | ArmQueue h t => not_err h && forallb not_err t
  | ArmAlt x y => not_err x && not_err y
  | ArmPrefixes l => forallb (fun pi : bytes * Item => not_err (snd pi)) l
  | ArmNext l => (fix go (l : list (Z * sf_arm)) : bool :=
                    match l with [] => true | (_, sub) :: r => arm_noerr sub && go r end) l
  end.
Lemma arms_noerr : forallb (fun ca : Z * sf_arm => arm_noerr (snd ca)) SF_ARMS = true.
Proof. vm_compute. reflexivity. Qed.
Lemma assoc_arm_noerr c a : assoc c SF_ARMS = Some a -> arm_noerr a = true.
Proof.
  pose proof arms_noerr as H. revert H. generalize SF_ARMS. intros l. induction l as [|[k v] l IH]; [discriminate|].
  cbn [forallb snd assoc]. intros H E. apply andb_prop in H. destruct H as [H1 H2].
  destruct (c =? k); [injection E as <-; exact H1|exact (IH H2 E)].
Qed.

Lemma sf_error_lenient o el ch el' rm it :
  sf_error true o el ch = Val (el', (rm, it)) -> not_err it = true.
Proof.
  unfold sf_error. cbn [negb].
  destruct (match ch with Some c => sub_usize el (len_utf8 c) | None => Val el end) as [e| |]; try discriminate.
  cbn [bind]. destruct (str_from o e); try discriminate. cbn [bind].
  destruct (str_to o e); try discriminate. cbn [bind]. intros H. injection H as <- <- <-. reflexivity.
Qed.

Definition res_noerr (res : bytes * Item) : bool := not_err (snd res).
Lemma sf_next_char_lenient o r el res : sf_next_char true o r el = Val res ->
  match res with inl x => res_noerr x = true | inr _ => True end.
Proof.
  unfold sf_next_char. destruct (next_char r) as [x|].
  - destruct (str_from r (len_utf8 x)); try discriminate. cbn [bind].
    destruct (add_usize el (len_utf8 x)); try discriminate. cbn [bind]. intros H. injection H as <-. exact I.
  - destruct (sf_error true o el None) as [[el' [rm it]]| |] eqn:Ee; try discriminate. cbn [bind].
    intros H. injection H as <-. apply sf_error_lenient in Ee. exact Ee.
Qed.

Definition arm_res_noerr (res : arm_res) : Prop :=
  match res with
  | ARet r q => res_noerr r = true /\ forallb not_err q = true
  | ACont it _ _ q => not_err it = true /\ forallb not_err q = true
  end.

Fixpoint arm_size (a : sf_arm) : nat :=
  match a with
  | ArmNext l => S ((fix go (l : list (Z * sf_arm)) : nat :=
                       match l with [] => O | (_, s) :: r => (arm_size s + go r)%nat end) l)
  | _ => 1%nat
  end.
Definition subs_size (l : list (Z * sf_arm)) : nat :=
  (fix go (l : list (Z * sf_arm)) : nat := match l with [] => O | (_, s) :: r => (arm_size s + go r)%nat end) l.
Definition subs_noerr (l : list (Z * sf_arm)) : bool :=
  (fix go (l : list (Z * sf_arm)) : bool := match l with [] => true | (_, sub) :: r => arm_noerr sub && go r end) l.

Lemma run_arm_noerr_n alt o : forall n a r el q res, (arm_size a <= n)%nat ->
  arm_noerr a = true -> forallb not_err q = true ->
  run_arm true alt o a r el q = Val res -> arm_res_noerr res.
Proof.
  induction n as [|n IH]; intros a r el q res Hn Ha Hq H.
  { destruct a; cbn [arm_size] in Hn; lia. }
  destruct a as [i|h t|x y|l|l]; cbn [run_arm arm_noerr] in *.
  - injection H as <-. cbn. auto.
  - injection H as <-. apply andb_prop in Ha. cbn. tauto.
  - injection H as <-. apply andb_prop in Ha. destruct Ha. cbn. destruct alt; auto.
  - clear Hn. revert Ha H. induction l as [|[p it] rest IHl]; intros Ha H.
    + destruct (sf_error true o el None) as [[el' [rm it]]| |] eqn:Ee; try discriminate.
      cbn [bind] in H. injection H as <-. apply sf_error_lenient in Ee. cbn. auto.
    + cbn [forallb snd] in Ha. apply andb_prop in Ha. destruct Ha as [Hi Hr].
      destruct (strip_prefix p r).
      * destruct (str_from r (blen p)); try discriminate. cbn [bind] in H. injection H as <-. cbn. auto.
      * apply IHl; assumption.
  - destruct (sf_next_char true o r el) as [nx| |] eqn:En; try discriminate. cbn [bind] in H.
    apply sf_next_char_lenient in En. destruct nx as [x|[[x rm] el']].
    + injection H as <-. cbn. auto.
    + clear En. change (subs_noerr l = true) in Ha.
      assert (Hsz : (subs_size l <= n)%nat) by (cbn [arm_size] in Hn; unfold subs_size; lia). clear Hn.
      revert Ha Hsz H. induction l as [|[c sub] rest IHl]; intros Ha Hsz H.
      * destruct (sf_error true o el' (Some x)) as [[el'' [rm' it]]| |] eqn:Ee; try discriminate.
        cbn [bind] in H. injection H as <-. apply sf_error_lenient in Ee. cbn. auto.
      * cbn [subs_noerr] in Ha. apply andb_prop in Ha. destruct Ha as [Hs Hr].
        cbn [subs_size] in Hsz. fold (subs_size rest) in Hsz. destruct (x =? c).
        -- apply (IH sub rm el' q res); [lia|exact Hs|exact Hq|exact H].
        -- apply IHl; [exact Hr|lia|exact H].
Qed.
Lemma run_arm_noerr alt o a r el q res :
  arm_noerr a = true -> forallb not_err q = true ->
  run_arm true alt o a r el q = Val res -> arm_res_noerr res.
Proof. apply (run_arm_noerr_n alt o (arm_size a)). lia. Qed.

Lemma parse_spec_noerr o rm it q' :
  parse_spec true [] o = Val (Some (rm, it), q') -> not_err it = true /\ forallb not_err q' = true.
Proof.
  unfold parse_spec. intros H.
  destruct (str_from o 1) as [rem0| |]; try discriminate. cbn [bind] in H.
  destruct (add_usize 0 1) as [el0| |]; try discriminate. cbn [bind] in H.
  destruct (sf_next_char true o rem0 el0) as [n| |] eqn:En; try discriminate. cbn [bind] in H.
  apply sf_next_char_lenient in En. destruct n as [[rm1 it1]|[[spec rem1] el1]].
  { injection H as <- <- <-. split; [exact En|reflexivity]. }
  clear En.
  destruct (if is_some (assoc spec SF_PAD_OVERRIDE) || (spec =? SF_ALT_CHAR)
            then sf_next_char true o rem1 el1 else Val (inr (spec, rem1, el1))) as [n2| |] eqn:En2; try discriminate.
  cbn [bind] in H.
  assert (Hn2 : match n2 with inl x => res_noerr x = true | inr _ => True end).
  { destruct (is_some (assoc spec SF_PAD_OVERRIDE) || (spec =? SF_ALT_CHAR)).
    - apply sf_next_char_lenient in En2. exact En2.
    - injection En2 as <-. exact I. }
  destruct n2 as [[rm2 it2]|[[spec2 rem2] el2]].
  { injection H as <- <- <-. split; [exact Hn2|reflexivity]. }
  destruct ((spec =? SF_ALT_CHAR) && negb (contains_char SF_HAVE_ALTERNATES spec2)).
  { destruct (sf_error true o el2 (Some spec2)) as [[el' [rm' it']]| |] eqn:Ee; try discriminate.
    cbn [bind] in H. injection H as <- <- <-. apply sf_error_lenient in Ee. split; [exact Ee|reflexivity]. }
  destruct (match assoc spec2 SF_ARMS with
            | Some arm => run_arm true (spec =? SF_ALT_CHAR) o arm rem2 el2 []
            | None => let* '(el, (rm, it)) := sf_error true o el2 (Some spec2) in Val (ACont it rm el [])
            end) as [ar| |] eqn:Ear; try discriminate.
  cbn [bind] in H.
  assert (Har : arm_res_noerr ar).
  { destruct (assoc spec2 SF_ARMS) as [arm|] eqn:Ea.
    - apply (run_arm_noerr _ _ arm rem2 el2 [] ar (assoc_arm_noerr _ _ Ea) eq_refl Ear).
    - destruct (sf_error true o el2 (Some spec2)) as [[el' [rm' it']]| |] eqn:Ee; try discriminate.
      cbn [bind] in Ear. injection Ear as <-. apply sf_error_lenient in Ee. cbn. auto. }
  destruct ar as [[rm' it'] q''|item rem3 el3 q'']; cbn [arm_res_noerr] in Har.
  { injection H as <- <- <-. exact Har. }
  destruct Har as [Hit Hq].
  assert (Hfin : (let* '(_, res) := sf_error true o el3 None in Val (Some res, q'')) = Val (Some (rm, it), q') ->
                 not_err it = true /\ forallb not_err q' = true).
  { intros Hx. destruct (sf_error true o el3 None) as [[x [rm' it']]| |] eqn:Ee; try discriminate.
    cbn [bind] in Hx. injection Hx as <- <- <-. split; [exact (sf_error_lenient _ _ _ _ _ _ Ee)|exact Hq]. }
  destruct (assoc spec SF_PAD_OVERRIDE) as [new_pad|].
  - destruct item; try (apply Hfin; exact H).
    destruct (is_nil q''); [|apply Hfin; exact H].
    injection H as <- <- <-. split; [reflexivity|exact Hq].
  - injection H as <- <- <-. split; [exact Hit|exact Hq].
Qed.

Lemma parse_next_item_noerr r rm it q' :
  parse_next_item true [] r = Val (Some (rm, it), q') -> not_err it = true /\ forallb not_err q' = true.
Proof.
  unfold parse_next_item. destruct (next_char r) as [c0|]; [|discriminate].
  destruct (c0 =? 37); [apply parse_spec_noerr|].
  destruct (is_whitespace c0).
  - match goal with |- context [rassert ?c] => destruct (rassert c) end; try discriminate. cbn [bind].
    match goal with |- context [str_to r ?n] => destruct (str_to r n); try discriminate;
                                                 destruct (str_from r n); try discriminate end.
    cbn [bind]. intros H. injection H as <- <- <-. split; reflexivity.
  - match goal with |- context [rassert ?c] => destruct (rassert c) end; try discriminate. cbn [bind].
    match goal with |- context [str_to r ?n] => destruct (str_to r n); try discriminate;
                                                 destruct (str_from r n); try discriminate end.
    cbn [bind]. intros H. injection H as <- <- <-. split; reflexivity.
Qed.

Lemma sf_take_noerr : forall fuel st acc l, sf_lenient st = true ->
  forallb not_err (sf_queue st) = true -> forallb not_err acc = true ->
  sf_take fuel st acc = Val (Some l) -> forallb not_err l = true.
Proof.
  induction fuel as [|f IH]; intros [r q b] acc l Hb Hq Hacc H; cbn [sf_lenient sf_queue] in *; subst b; [discriminate|].
  cbn [sf_take] in H. unfold sf_next in H. cbn [sf_queue sf_remainder sf_lenient] in H.
  destruct q as [|i q].
  - destruct (parse_next_item true [] r) as [[o q']| |] eqn:Ep; try discriminate. cbn [bind] in H.
    destruct o as [[rm it]|]; cbn [bind] in H.
    + destruct (parse_next_item_noerr _ _ _ _ Ep) as [Hit Hq'].
      apply (IH (mk_sfi rm q' true) (it :: acc) l eq_refl Hq'); [|exact H].
      cbn [forallb]. rewrite Hit, Hacc. reflexivity.
    + injection H as <-. clear -Hacc. rewrite forallb_forall in *. intros x Hx. apply Hacc. apply in_rev. exact Hx.
  - cbn [bind] in H. cbn [forallb] in Hq. apply andb_prop in Hq. destruct Hq as [Hi Hq].
    apply (IH (mk_sfi r q true) (i :: acc) l eq_refl Hq); [|exact H].
    cbn [forallb]. rewrite Hi, Hacc. reflexivity.
Qed.

(** the lenient iterator on every valid UTF-8 string (of a length a Rust string can have): it ends
    within the bound, does not trap, and none of its items is [Error] *)
Theorem lenient_never_errors : forall s, utf8_valid s = true -> blen s <= u64_max ->
  exists l, sf_take (S (sf_bound s)) (sf_new_lenient s) [] = Val (Some l) /\ forallb not_err l = true.
Proof.
  intros s Hv Hl. unfold sf_new_lenient.
  pose proof (strftime_terminates s true (or_intror eq_refl)) as Ht.
  pose proof (C15Strftime.strftime_never_panics s true (S (sf_bound s)) Hv Hl) as Hp.
  destruct (sf_take (S (sf_bound s)) (mk_sfi s [] true) []) as [[l|]| |] eqn:E; try contradiction; try congruence.
  exists l. split; [reflexivity|]. exact (sf_take_noerr _ (mk_sfi s [] true) [] l eq_refl eq_refl eq_refl E).
Qed.

(** ... while the strict iterator does yield [Error] on the same inputs: "%Q" *)
Lemma strict_errors_example : sf_take 100 (sf_new [37; 81]) [] = Val (Some [IError]).
Proof. vm_compute. reflexivity. Qed.
Lemma lenient_example : sf_take 100 (sf_new_lenient [37; 81]) [] = Val (Some [Literal [37]; Literal [81]]).
Proof. vm_compute. reflexivity. Qed.

(** A padding modifier on a composite specifier, e.g. "%-D": the strict iterator yields [Error]
    and then the queued tail of the composite; the lenient one the literal "%-D" FOLLOWED BY the
    queued tail "/", %d, "/", %y — the recovery is not "the invalid specifier as a literal":
    formatting 2001-07-08 leniently with "%-D" gives "%-D/08/01" (the same on the real code) *)
Lemma lenient_pad_on_composite_leaks :
  sf_take 100 (sf_new_lenient [37; 45; 68]) [] =
    Val (Some [Literal [37; 45; 68]; Literal [47]; num0 N_Day; Literal [47]; num0 N_YearMod100]) /\
  sf_take 100 (sf_new [37; 45; 68]) [] =
    Val (Some [IError; Literal [47]; num0 N_Day; Literal [47]; num0 N_YearMod100]).
Proof. split; vm_compute; reflexivity. Qed.

(** * Internal items *)
(* the parsing-only item behind `%#z` has no rendering: formatting fails for every value *)
Lemma permissive_offset_fails : forall a, format_fixed a (F_Internal I_TimezoneOffsetPermissive) = ferr.
Proof. intros [[d|] [t|] [[nm o]|]]; reflexivity. Qed.
Lemma permissive_format_fails : forall a, delayed_display a (sf_new [37; 35; 122]) = ferr.
Proof.
  intros a. assert (E : sf_until_err (S (sf_bound [37; 35; 122])) (sf_new [37; 35; 122]) []
                        = Val [IFixed (F_Internal I_TimezoneOffsetPermissive)]) by (vm_compute; reflexivity).
  unfold delayed_display. cbn [sf_new sf_remainder sf_queue List.length]. rewrite Nat.add_0_r.
  rewrite (format_concat _ a _ _ E). cbn [write_items format_item]. rewrite permissive_offset_fails. reflexivity.
Qed.
(* `%3f` `%6f` `%9f` (Nanosecond3NoDot / 6 / 9): the fraction digits without the dot *)
Lemma render_nodot : forall a sv k, args_view a sv -> k = 3 \/ k = 6 \/ k = 9 ->
  claim (render_fix sv (TFrac k false))
        (format_fixed a (F_Internal (if k =? 3 then I_Nanosecond3NoDot else if k =? 6 then I_Nanosecond6NoDot
                                     else I_Nanosecond9NoDot))).
Proof. intros a sv k Hv Hk. exact (render_fixed_spec a sv (TFrac k false) Hv Hk). Qed.
